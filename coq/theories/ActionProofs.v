(* ActionProofs.v — the fold model of from_routes_rule against the window reference (C05) and
   determinism under permutation (C11). *)
Require Import RIO.Base RIO.Headers RIO.HeadersSpec RIO.HeadersProofs RIO.BodyText RIO.ActionModel RIO.ActionSpec.

(* ------------------------------------------------------------------ sampling *)
Definition sampling_decided (r : rule) : Prop :=
  match r_sampling r with None => True | Some s => s = 0%N \/ (100 <= s)%N end.

Lemma sampled_out_spec r ov rv : sampling_decided r -> (1 <= rv <= 100)%N ->
  sampled_out (r_sampling r) ov rv = spec_skipped r ov.
Proof.
  unfold sampling_decided, sampled_out, spec_skipped. destruct (r_sampling r) as [s|]; [|reflexivity].
  intros Hs Hrv. destruct ov as [[|]|]; try reflexivity.
  destruct Hs as [-> | Hs].
  - cbn. assert (N.ltb 0 rv = true) as -> by (apply N.ltb_lt; lia). reflexivity.
  - assert (N.min s 100 = 100%N) as -> by lia.
    assert (N.ltb 100 rv = false) as -> by (apply N.ltb_ge; lia).
    assert (N.eqb s 0 = false) as -> by (apply N.eqb_neq; lia). reflexivity.
Qed.

(* the effect of one eligible rule: from_route_rule without the sampling gate *)
Definition eff (r : rule) (skipped : option str) : action :=
  match from_route_rule {| r_id := r_id r; r_rank := r_rank r; r_status := r_status r; r_target := r_target r;
                           r_codes := r_codes r; r_excl := r_excl r; r_hf := r_hf r; r_bf := r_bf r; r_log := r_log r;
                           r_reset := r_reset r; r_stop := r_stop r; r_sampling := None |} skipped None 1%N with
  | (Some a, _, _) => a
  | (None, _, _) => action_default
  end.

Lemma from_route_rule_eligible r skipped ov rv :
  sampled_out (r_sampling r) ov rv = false ->
  from_route_rule r skipped ov rv = (Some (eff r skipped), is_reset r, is_stop r).
Proof.
  intros H. unfold from_route_rule, eff. rewrite H. cbn -[target_value].
  unfold is_reset, is_stop, opt_default. destruct (r_reset r) as [[|]|], (r_stop r) as [[|]|]; reflexivity.
Qed.
Lemma from_route_rule_skipped r skipped ov rv :
  sampled_out (r_sampling r) ov rv = true -> from_route_rule r skipped ov rv = (None, false, false).
Proof. intros H. unfold from_route_rule. rewrite H. reflexivity. Qed.

Definition rvs_ok (rvs : list N) : Prop := Forall (fun rv => (1 <= rv <= 100)%N) rvs.

(* fold over eligible rules only, no sampling *)
Fixpoint fold_eff (acc : action) (l : list rule) (skipped : option str) : action :=
  match l with
  | [] => acc
  | r :: l' => let acc' := if is_reset r then eff r skipped else merge acc (eff r skipped) in
               if is_stop r then acc' else fold_eff acc' l' skipped
  end.

Lemma fold_rules_eligible l : forall acc skipped ov rvs,
  Forall sampling_decided l -> rvs_ok rvs ->
  fold_rules acc l skipped ov rvs = fold_eff acc (eligible l ov) skipped.
Proof.
  induction l as [|r l IH]; intros acc skipped ov rvs Hd Hr; [reflexivity|].
  inversion Hd as [|? ? Hdr Hdl]; subst. cbn [fold_rules eligible filter].
  set (rv := match rvs with v :: _ => v | [] => 1%N end).
  assert (Hrv : (1 <= rv <= 100)%N). { unfold rv. destruct rvs; [lia|]. inversion Hr; assumption. }
  set (rvs' := match r_sampling r, rvs with Some _, _ :: t => t | _, _ => rvs end).
  assert (Hr' : rvs_ok rvs'). { unfold rvs'. destruct (r_sampling r), rvs; try assumption. inversion Hr; assumption. }
  rewrite <- (sampled_out_spec r ov rv Hdr Hrv).
  destruct (sampled_out (r_sampling r) ov rv) eqn:E.
  - rewrite (from_route_rule_skipped _ _ _ _ E). cbn. apply IH; assumption.
  - rewrite (from_route_rule_eligible _ _ _ _ E). cbn [negb fold_eff].
    destruct (is_stop r); [reflexivity|]. apply IH; assumption.
Qed.

(* ------------------------------------------------------------------ the window *)
Definition merge_from (skipped : option str) (acc : action) (U : list rule) : action :=
  fold_left (fun a r => if is_reset r then eff r skipped else merge a (eff r skipped)) U acc.

Lemma fold_eff_upto_stop l : forall acc skipped, fold_eff acc l skipped = merge_from skipped acc (upto_stop l).
Proof.
  induction l as [|r l IH]; intros acc skipped; [reflexivity|]. cbn [fold_eff upto_stop].
  destruct (is_stop r); [reflexivity|]. cbn [merge_from fold_left]. apply IH.
Qed.

Lemma merge_from_last_reset skipped U : forall acc acc',
  existsb is_reset U = true -> merge_from skipped acc U = merge_from skipped acc' (from_last_reset U).
Proof.
  induction U as [|r U IH]; intros acc acc' H; [discriminate|]. cbn [from_last_reset].
  destruct (existsb is_reset U) eqn:E.
  - cbn [merge_from fold_left]. apply IH. reflexivity.
  - cbn [existsb] in H. rewrite E, orb_false_r in H. cbn [merge_from fold_left]. rewrite H. reflexivity.
Qed.

Lemma from_last_reset_noreset U : existsb is_reset U = false -> from_last_reset U = U.
Proof.
  induction U as [|r U IH]; intros H; [reflexivity|]. cbn [existsb] in H. apply orb_false_elim in H. destruct H as [_ H2].
  cbn [from_last_reset]. rewrite H2. reflexivity.
Qed.

Theorem fold_eff_window l acc skipped :
  fold_eff acc l skipped =
  merge_from skipped (if existsb is_reset (upto_stop l) then action_default else acc) (window l).
Proof.
  rewrite fold_eff_upto_stop. unfold window. destruct (existsb is_reset (upto_stop l)) eqn:E.
  - apply merge_from_last_reset. exact E.
  - rewrite from_last_reset_noreset by exact E. reflexivity.
Qed.

(* in a window only the head can be a reset *)
Lemma window_tail_noreset U : match from_last_reset U with [] => True | _ :: t => existsb is_reset t = false end.
Proof.
  induction U as [|r U IH]; [exact I|]. cbn [from_last_reset]. destruct (existsb is_reset U) eqn:E; [exact IH|exact E].
Qed.

(* plain accumulation over reset-free lists *)
Definition merge_all (skipped : option str) (acc : action) (W : list rule) : action :=
  fold_left (fun a r => merge a (eff r skipped)) W acc.

Lemma merge_from_noreset skipped W : forall acc, existsb is_reset W = false -> merge_from skipped acc W = merge_all skipped acc W.
Proof.
  induction W as [|r W IH]; intros acc H; [reflexivity|]. cbn [existsb] in H. apply orb_false_elim in H. destruct H as [H1 H2].
  cbn [merge_from merge_all fold_left]. rewrite H1. apply IH. exact H2.
Qed.

(* ------------------------------------------------------------------ components of the accumulated action *)
Definition hfas_of (r : rule) (skipped : option str) : list hfa := a_hf (eff r skipped).
Definition bfas_of (r : rule) (skipped : option str) : list bfa := a_bf (eff r skipped).

Lemma merge_all_hf skipped W : forall acc, a_hf (merge_all skipped acc W) = a_hf acc ++ flat_map (fun r => hfas_of r skipped) W.
Proof. induction W as [|r W IH]; intros acc; cbn [merge_all fold_left flat_map]; [rewrite app_nil_r; reflexivity|].
  fold (merge_all skipped (merge acc (eff r skipped)) W). rewrite IH. cbn [merge a_hf]. rewrite <- app_assoc. reflexivity. Qed.
Lemma merge_all_bf skipped W : forall acc, a_bf (merge_all skipped acc W) = a_bf acc ++ flat_map (fun r => bfas_of r skipped) W.
Proof. induction W as [|r W IH]; intros acc; cbn [merge_all fold_left flat_map]; [rewrite app_nil_r; reflexivity|].
  fold (merge_all skipped (merge acc (eff r skipped)) W). rewrite IH. cbn [merge a_bf]. rewrite <- app_assoc. reflexivity. Qed.
Lemma merge_all_traces skipped W : forall acc, a_traces (merge_all skipped acc W) = a_traces acc ++ flat_map (fun r => a_traces (eff r skipped)) W.
Proof. induction W as [|r W IH]; intros acc; cbn [merge_all fold_left flat_map]; [rewrite app_nil_r; reflexivity|].
  fold (merge_all skipped (merge acc (eff r skipped)) W). rewrite IH. cbn [merge a_traces]. rewrite <- app_assoc. reflexivity. Qed.
Lemma merge_all_status skipped W : forall acc,
  a_status (merge_all skipped acc W) = fold_left (fun s r => merge_status s (a_status (eff r skipped))) W (a_status acc).
Proof. induction W as [|r W IH]; intros acc; cbn [merge_all fold_left]; [reflexivity|].
  fold (merge_all skipped (merge acc (eff r skipped)) W). rewrite IH. reflexivity. Qed.
Lemma merge_all_log skipped W : forall acc,
  a_log (merge_all skipped acc W) = fold_left (fun s r => merge_log s (a_log (eff r skipped))) W (a_log acc).
Proof. induction W as [|r W IH]; intros acc; cbn [merge_all fold_left]; [reflexivity|].
  fold (merge_all skipped (merge acc (eff r skipped)) W). rewrite IH. reflexivity. Qed.
Lemma merge_all_applied skipped W : forall acc, a_applied (merge_all skipped acc W) = a_applied acc.
Proof. induction W as [|r W IH]; intros acc; cbn [merge_all fold_left]; [reflexivity|].
  fold (merge_all skipped (merge acc (eff r skipped)) W). rewrite IH. reflexivity. Qed.

(* the action computed from the window: whatever the head is (reset or not), the accumulated lists are
   the concatenation over the window, because the accumulator at the start of the window is either
   the default action or is discarded by the reset *)
Definition window_action (skipped : option str) (W : list rule) : action :=
  match W with
  | [] => action_default
  | r :: t => merge_all skipped (if is_reset r then eff r skipped else merge action_default (eff r skipped)) t
  end.

Lemma merge_default_l a : a_applied a = [] ->
  a_status (merge action_default a) = a_status a /\ a_hf (merge action_default a) = a_hf a /\ a_bf (merge action_default a) = a_bf a
  /\ a_traces (merge action_default a) = a_traces a /\ a_log (merge action_default a) = a_log a /\ a_applied (merge action_default a) = [].
Proof. intros H. cbn. destruct (a_status a), (a_log a); repeat split; reflexivity. Qed.

Lemma window_head_reset U : forall r t, from_last_reset U = r :: t -> existsb is_reset U = true -> is_reset r = true.
Proof.
  induction U as [|x U IH]; intros r t H Hex; [discriminate|]. cbn [from_last_reset existsb] in *.
  destruct (existsb is_reset U) eqn:E.
  - eapply IH; [exact H|reflexivity].
  - inversion H; subst. rewrite orb_false_r in Hex. exact Hex.
Qed.

Lemma sort_rules_Forall (P : rule -> Prop) l : Forall P l -> Forall P (sort_rules l).
Proof.
  unfold sort_rules. induction l as [|r l IH]; intros H; [constructor|]. inversion H; subst. cbn [fold_right].
  specialize (IH H3). revert IH. generalize (fold_right insert_sorted [] l). intros s Hs.
  induction s as [|y s IHs]; cbn [insert_sorted]; [constructor; [assumption|constructor]|].
  destruct (rule_before r y); [constructor; assumption|]. inversion Hs; subst. constructor; [assumption|apply IHs; assumption].
Qed.

Theorem from_routes_rule_window rules skipped ov rvs :
  Forall sampling_decided rules -> rvs_ok rvs ->
  let W := window (eligible (sort_rules rules) ov) in
  let a := from_routes_rule rules skipped ov rvs in
  a_status a = a_status (window_action skipped W) /\ a_hf a = a_hf (window_action skipped W)
  /\ a_bf a = a_bf (window_action skipped W) /\ a_traces a = a_traces (window_action skipped W)
  /\ a_log a = a_log (window_action skipped W) /\ a_applied a = [].
Proof.
  intros Hd Hr. cbv zeta. unfold from_routes_rule.
  rewrite (fold_rules_eligible _ _ _ _ _ (sort_rules_Forall _ _ Hd) Hr). rewrite fold_eff_window.
  unfold window at 1 3 5 7 9 11.
  pose proof (window_tail_noreset (upto_stop (eligible (sort_rules rules) ov))) as Ht.
  pose proof (window_head_reset (upto_stop (eligible (sort_rules rules) ov))) as Hh.
  unfold window.
  destruct (from_last_reset (upto_stop (eligible (sort_rules rules) ov))) as [|r t].
  - destruct (existsb is_reset _); cbn; repeat split; reflexivity.
  - cbn [merge_from fold_left window_action].
    match goal with |- context [fold_left ?f t ?a0] => change (fold_left f t a0) with (merge_from skipped a0 t) end.
    rewrite merge_from_noreset by exact Ht.
    destruct (existsb is_reset (upto_stop (eligible (sort_rules rules) ov))) eqn:Eex.
    + rewrite (Hh r t eq_refl eq_refl). rewrite merge_all_applied. repeat split; reflexivity.
    + destruct (is_reset r); rewrite merge_all_applied; repeat split; reflexivity.
Qed.

Lemma fold_left_ext' {A B} (f g : A -> B -> A) l : (forall a b, f a b = g a b) -> forall a, fold_left f l a = fold_left g l a.
Proof. intros H. induction l as [|x l IH]; intros a; cbn; [reflexivity|]. rewrite H. apply IH. Qed.

(* ------------------------------------------------------------------ status *)
Definition st_of (r : rule) : option scu :=
  if carries_status r then Some {| sc_status := status_of r; sc_on := codes_of r; sc_excl := excl_of r; sc_fallback := 0;
                                   sc_rule := Some (r_id r); sc_fallback_rule := None |}
  else None.

Lemma excl_flag_of r : excl_flag r = excl_of r.
Proof. unfold excl_flag, excl_of, opt_default. destruct (r_excl r) as [[|]|]; reflexivity. Qed.

Lemma eff_status r skipped : a_status (eff r skipped) = st_of r.
Proof.
  unfold eff, from_route_rule, st_of, carries_status, status_of. cbn -[target_value].
  unfold excl_flag, opt_default, codes_of, excl_of. cbn.
  destruct (r_status r) as [[|p]|]; cbn; try reflexivity.
  destruct (r_excl r) as [[|]|], (r_codes r); reflexivity.
Qed.

Definition status_fold (W : list rule) : option scu := fold_left (fun s r => merge_status s (st_of r)) W None.

Lemma window_status skipped W : a_status (window_action skipped W) = status_fold W.
Proof.
  destruct W as [|r t]; [reflexivity|]. cbn [window_action]. rewrite merge_all_status. unfold status_fold. cbn [fold_left].
  assert (a_status (if is_reset r then eff r skipped else merge action_default (eff r skipped)) = merge_status None (st_of r)) as ->.
  { destruct (is_reset r); cbn [merge a_status action_default]; rewrite eff_status; destruct (st_of r); reflexivity. }
  apply fold_left_ext'. intros s x. rewrite eff_status. reflexivity.
Qed.

Definition status_shape (W : list rule) : option scu :=
  match rev (filter carries_status W) with
  | [] => None
  | s :: prev =>
      Some {| sc_status := status_of s; sc_on := codes_of s; sc_excl := excl_of s;
              sc_fallback := match prev with p :: _ => if uncond p && negb (uncond s) then status_of p else 0%N | [] => 0%N end;
              sc_rule := Some (r_id s);
              sc_fallback_rule := match prev with p :: _ => if uncond p && negb (uncond s) then Some (r_id p) else None | [] => None end |}
  end.

Lemma status_fold_shape W : status_fold W = status_shape W.
Proof.
  unfold status_fold, status_shape. induction W as [|r W IH] using rev_ind; [reflexivity|].
  rewrite fold_left_app, filter_app, rev_app_distr. cbn [fold_left filter]. rewrite IH. clear IH.
  unfold st_of. destruct (carries_status r) eqn:Ec; cbn [rev app]; [|destruct (rev (filter carries_status W)); reflexivity].
  destruct (rev (filter carries_status W)) as [|s prev]; cbn [merge_status app sc_on sc_status sc_rule sc_excl]; [reflexivity|].
  unfold uncond. destruct (is_nil (codes_of s)) eqn:Es, (is_nil (codes_of r)) eqn:Er; cbn; reflexivity.
Qed.

Definition scu_get_opt (s : option scu) (c : N) : N := match s with None => 0%N | Some u => fst (scu_get u c) end.

Lemma memN_nil c : memN c [] = false. Proof. reflexivity. Qed.

Theorem status_shape_spec W c : scu_get_opt (status_shape W) c = status_spec W c.
Proof.
  unfold status_shape, status_spec, scu_get_opt. destruct (rev (filter carries_status W)) as [|s prev]; [reflexivity|].
  unfold scu_get, status_admits, uncond. cbn [sc_on sc_excl sc_status sc_fallback sc_rule sc_fallback_rule].
  destruct (is_nil (codes_of s)) eqn:Es.
  - assert (codes_of s = []) as -> by (destruct (codes_of s); [reflexivity|discriminate]). rewrite memN_nil. cbn [is_nil negb andb orb].
    destruct (N.eqb c 0) eqn:Ec, (excl_of s); cbn; try reflexivity.
    + destruct prev as [|p ?]; [reflexivity|]. rewrite andb_false_r. reflexivity.
  - cbn [andb]. rewrite andb_false_r. cbn [negb].
    destruct (excl_of s), (memN c (codes_of s)); cbn; try reflexivity;
      destruct (N.eqb c 0); cbn; try reflexivity;
      destruct prev as [|p ?]; try reflexivity; rewrite andb_true_r; destruct (is_nil (codes_of p)); reflexivity.
Qed.

(* ------------------------------------------------------------------ log *)
Definition lg_of (r : rule) : option lov :=
  match r_log r with
  | Some l => Some {| lo_log := l; lo_rule := Some (r_id r); lo_on := codes_of r; lo_excl := excl_of r; lo_fallback := None; lo_fallback_rule := None |}
  | None => None
  end.
Lemma eff_log r skipped : a_log (eff r skipped) = lg_of r.
Proof.
  unfold eff, from_route_rule, lg_of. cbn -[target_value]. unfold excl_flag, opt_default, codes_of, excl_of. cbn.
  destruct (r_log r); [|reflexivity]. destruct (r_excl r) as [[|]|], (r_codes r); reflexivity.
Qed.
Definition log_fold (W : list rule) : option lov := fold_left (fun s r => merge_log s (lg_of r)) W None.
Lemma window_log skipped W : a_log (window_action skipped W) = log_fold W.
Proof.
  destruct W as [|r t]; [reflexivity|]. cbn [window_action]. rewrite merge_all_log. unfold log_fold. cbn [fold_left].
  assert (a_log (if is_reset r then eff r skipped else merge action_default (eff r skipped)) = merge_log None (lg_of r)) as ->.
  { destruct (is_reset r); cbn [merge a_log action_default]; rewrite eff_log; destruct (lg_of r); reflexivity. }
  apply fold_left_ext'. intros s x. rewrite eff_log. reflexivity.
Qed.
Definition log_shape (W : list rule) : option lov :=
  match rev (filter carries_log W) with
  | [] => None
  | s :: prev =>
      Some {| lo_log := log_of s; lo_rule := Some (r_id s); lo_on := codes_of s; lo_excl := excl_of s;
              lo_fallback := match prev with p :: _ => if uncond p && negb (uncond s) then Some (log_of p) else None | [] => None end;
              lo_fallback_rule := match prev with p :: _ => if uncond p && negb (uncond s) then Some (r_id p) else None | [] => None end |}
  end.
Lemma log_fold_shape W : log_fold W = log_shape W.
Proof.
  unfold log_fold, log_shape. induction W as [|r W IH] using rev_ind; [reflexivity|].
  rewrite fold_left_app, filter_app, rev_app_distr. cbn [fold_left filter]. rewrite IH. clear IH.
  unfold lg_of, carries_log, log_of. destruct (r_log r) as [l|] eqn:El; cbn [rev app]; [|destruct (rev (filter _ W)); reflexivity].
  destruct (rev (filter _ W)) as [|s prev]; cbn [merge_log app lo_on lo_log lo_rule lo_excl]; [rewrite El; reflexivity|].
  unfold uncond. rewrite El. destruct (is_nil (codes_of s)) eqn:Es, (is_nil (codes_of r)) eqn:Er; cbn; reflexivity.
Qed.
Definition lov_get_opt (l : option lov) (allow : bool) (c : N) : bool :=
  match l with None => allow | Some u => opt_default allow (fst (lov_get u c)) end.
Theorem log_shape_spec W allow c : lov_get_opt (log_shape W) allow c = log_spec W allow c.
Proof.
  unfold log_shape, log_spec, lov_get_opt. destruct (rev (filter carries_log W)) as [|s prev]; [reflexivity|].
  unfold lov_get, admits, uncond. cbn [lo_on lo_excl lo_log lo_fallback lo_rule lo_fallback_rule].
  destruct (is_nil (codes_of s)) eqn:Es; cbn; [reflexivity|].
  destruct (excl_of s), (memN c (codes_of s)); cbn; try reflexivity;
    destruct prev as [|p ?]; try reflexivity; rewrite andb_true_r; destruct (is_nil (codes_of p)); reflexivity.
Qed.

(* ------------------------------------------------------------------ header / body filters *)
Lemma guard_admits r c : negb (guard_skips (codes_of r) (excl_of r) c) = admits r c.
Proof.
  unfold guard_skips, admits, uncond. destruct (is_nil (codes_of r)), (excl_of r), (memN c (codes_of r)); reflexivity.
Qed.

Lemma eff_hf r skipped :
  a_hf (eff r skipped) = map (fun f => {| hfa_filter := f; hfa_on := codes_of r; hfa_excl := excl_of r; hfa_rule := Some (r_id r) |})
                             (location_filter r skipped ++ r_hf r).
Proof.
  unfold eff, from_route_rule, location_filter. cbn -[target_value]. unfold excl_flag, opt_default, codes_of, excl_of. cbn -[target_value].
  rewrite map_app. f_equal.
  - destruct (r_target r) as [t|]; [|reflexivity]. destruct (is_nil t); [reflexivity|]. cbn -[target_value].
    destruct (r_excl r) as [[|]|], (r_codes r); reflexivity.
  - apply map_ext. intros f. destruct (r_excl r) as [[|]|], (r_codes r); reflexivity.
Qed.
Lemma eff_bf r skipped :
  a_bf (eff r skipped) = map (fun f => {| bfa_filter := f; bfa_on := codes_of r; bfa_excl := excl_of r; bfa_rule := Some (r_id r) |}) (r_bf r).
Proof.
  unfold eff, from_route_rule. cbn -[target_value]. unfold excl_flag, opt_default, codes_of, excl_of. cbn.
  apply map_ext. intros f. destruct (r_excl r) as [[|]|], (r_codes r); reflexivity.
Qed.
Lemma eff_traces r skipped : a_traces (eff r skipped) = [{| rt_id := r_id r; rt_on := codes_of r; rt_excl := excl_of r |}].
Proof.
  unfold eff, from_route_rule. cbn -[target_value]. unfold excl_flag, opt_default, codes_of, excl_of. cbn.
  destruct (r_excl r) as [[|]|], (r_codes r); reflexivity.
Qed.
Lemma eff_applied r skipped : a_applied (eff r skipped) = [].
Proof. reflexivity. Qed.

Lemma window_hf skipped W : a_hf (window_action skipped W) = flat_map (fun r => hfas_of r skipped) W.
Proof.
  destruct W as [|r t]; [reflexivity|]. cbn [window_action flat_map]. rewrite merge_all_hf. f_equal.
  destruct (is_reset r); reflexivity.
Qed.
Lemma window_bf skipped W : a_bf (window_action skipped W) = flat_map (fun r => bfas_of r skipped) W.
Proof.
  destruct W as [|r t]; [reflexivity|]. cbn [window_action flat_map]. rewrite merge_all_bf. f_equal.
  destruct (is_reset r); reflexivity.
Qed.
Lemma window_traces skipped W : a_traces (window_action skipped W) = map (fun r => {| rt_id := r_id r; rt_on := codes_of r; rt_excl := excl_of r |}) W.
Proof.
  destruct W as [|r t]; [reflexivity|]. cbn [window_action map]. rewrite merge_all_traces.
  assert (a_traces (if is_reset r then eff r skipped else merge action_default (eff r skipped)) = [{| rt_id := r_id r; rt_on := codes_of r; rt_excl := excl_of r |}]) as ->.
  { destruct (is_reset r); cbn [merge a_traces action_default app]; apply eff_traces. }
  cbn [app]. f_equal. induction t as [|x t IH]; [reflexivity|]. cbn [flat_map map]. rewrite eff_traces, IH. reflexivity.
Qed.

Lemma select_hf skipped W c :
  map hfa_filter (filter (fun f => negb (guard_skips (hfa_on f) (hfa_excl f) c)) (flat_map (fun r => hfas_of r skipped) W))
  = header_filters_spec W skipped c.
Proof.
  unfold header_filters_spec. induction W as [|r W IH]; [reflexivity|]. cbn [flat_map]. rewrite filter_app, map_app, IH. f_equal.
  unfold hfas_of. rewrite eff_hf. generalize (location_filter r skipped ++ r_hf r). intros l.
  rewrite <- (guard_admits r c). induction l as [|f l IHl]; cbn; [destruct (negb _); reflexivity|].
  destruct (negb (guard_skips (codes_of r) (excl_of r) c)) eqn:E; cbn; rewrite ?E in IHl; [f_equal; exact IHl|exact IHl].
Qed.
Lemma select_bf skipped W c :
  map bfa_filter (filter (fun f => negb (guard_skips (bfa_on f) (bfa_excl f) c)) (flat_map (fun r => bfas_of r skipped) W))
  = body_filters_spec W c.
Proof.
  unfold body_filters_spec. induction W as [|r W IH]; [reflexivity|]. cbn [flat_map]. rewrite filter_app, map_app, IH. f_equal.
  unfold bfas_of. rewrite eff_bf. generalize (r_bf r). intros l.
  rewrite <- (guard_admits r c). induction l as [|f l IHl]; cbn; [destruct (negb _); reflexivity|].
  destruct (negb (guard_skips (codes_of r) (excl_of r) c)) eqn:E; cbn; rewrite ?E in IHl; [f_equal; exact IHl|exact IHl].
Qed.

(* ------------------------------------------------------------------ C05, effect by effect *)
Section C05.
Variables (rules : list rule) (skipped : option str) (ov : option bool) (rvs : list N).
Hypothesis Hd : Forall sampling_decided rules.
Hypothesis Hr : rvs_ok rvs.
Let W := window (eligible (sort_rules rules) ov).
Let a0 := from_routes_rule rules skipped ov rvs.

Theorem c05_status c : fst (get_status_code a0 c) = status_spec W c.
Proof.
  destruct (from_routes_rule_window rules skipped ov rvs Hd Hr) as (Hs & _). fold a0 in Hs. fold W in Hs.
  unfold get_status_code. rewrite Hs, window_status, status_fold_shape. rewrite <- status_shape_spec. unfold scu_get_opt.
  destruct (status_shape W) as [s|]; [|reflexivity]. destruct (scu_get s c); reflexivity.
Qed.

Theorem c05_header_filters lower table hs c (a : action) :
  table = [(s_add, KAdd); (s_remove, KRemove); (s_replace, KReplace); (s_override, KOverride); (s_default, KDefault)] ->
  a_hf a = a_hf a0 ->
  fst (filter_headers lower table a hs c false) = reference lower (header_filters_spec W skipped c) hs.
Proof.
  intros Ht Ha. destruct (from_routes_rule_window rules skipped ov rvs Hd Hr) as (_ & Hh & _). fold a0 in Hh. fold W in Hh.
  unfold filter_headers. cbn [fst]. rewrite Ha, Hh, window_hf, select_hf.
  apply apply_header_filters_reference. exact Ht.
Qed.

Theorem c05_body_filters c (a : action) : a_bf a = a_bf a0 -> fst (create_filter_body a c) = body_filters_spec W c.
Proof.
  intros Ha. destruct (from_routes_rule_window rules skipped ov rvs Hd Hr) as (_ & _ & Hb & _). fold a0 in Hb. fold W in Hb.
  unfold create_filter_body. cbn [fst]. rewrite Ha, Hb, window_bf, select_bf. reflexivity.
Qed.

Theorem c05_log allow c (a : action) : a_log a = a_log a0 -> fst (should_log_request a allow c) = log_spec W allow c.
Proof.
  intros Ha. destruct (from_routes_rule_window rules skipped ov rvs Hd Hr) as (_ & _ & _ & _ & Hl & _). fold a0 in Hl. fold W in Hl.
  unfold should_log_request. rewrite Ha, Hl, window_log, log_fold_shape. rewrite <- log_shape_spec. unfold lov_get_opt.
  destruct (log_shape W) as [l|]; [|reflexivity]. destruct (lov_get l c); reflexivity.
Qed.
End C05.

(* ------------------------------------------------------------------ applied rules, as a set *)
Lemma In_lhs_insert x y l : In y (lhs_insert x l) <-> y = x \/ In y l.
Proof.
  unfold lhs_insert. rewrite in_app_iff, filter_In. split.
  - intros [[H _]|[H|[]]]; auto.
  - intros [->|H]; [right; left; reflexivity|].
    destruct (str_eqb y x) eqn:E.
    + apply str_eqb_spec in E. subst. right; left; reflexivity.
    + left. split; [exact H|reflexivity].
Qed.
Lemma In_apply_opt o y l : In y (apply_opt o l) <-> o = Some y \/ In y l.
Proof.
  destruct o as [x|]; cbn [apply_opt]; [rewrite In_lhs_insert|]; split; intros H.
  - destruct H as [->|H]; auto.
  - destruct H as [H|H]; [inversion H; auto|auto].
  - auto.
  - destruct H as [H|H]; [discriminate|exact H].
Qed.
Lemma In_fold_insert {A} (P : A -> bool) (f : A -> str) ts : forall l y,
  In y (fold_left (fun l t => if P t then lhs_insert (f t) l else l) ts l) <-> In y l \/ exists t, In t ts /\ P t = true /\ f t = y.
Proof.
  induction ts as [|t ts IH]; intros l y; cbn [fold_left].
  - split; [auto|intros [H|(t & [] & _)]; exact H].
  - rewrite IH. destruct (P t) eqn:E.
    + rewrite In_lhs_insert. split.
      * intros [[->|H]|(u & Hu & Hp & Hf)]; [right; exists t; cbn; auto|auto|right; exists u; cbn; auto].
      * intros [H|(u & [<-|Hu] & Hp & Hf)]; [auto|left; left; auto|right; exists u; auto].
    + split.
      * intros [H|(u & Hu & Hp & Hf)]; [auto|right; exists u; cbn; auto].
      * intros [H|(u & [<-|Hu] & Hp & Hf)]; [auto|congruence|right; exists u; auto].
Qed.
Lemma In_fold_apply {A} (f : A -> option str) ts : forall l y,
  In y (fold_left (fun l t => apply_opt (f t) l) ts l) <-> In y l \/ exists t, In t ts /\ f t = Some y.
Proof.
  induction ts as [|t ts IH]; intros l y; cbn [fold_left].
  - split; [auto|intros [H|(t & [] & _)]; exact H].
  - rewrite IH, In_apply_opt. split.
    + intros [[H|H]|(u & Hu & Hf)]; [right; exists t; cbn; auto|auto|right; exists u; cbn; auto].
    + intros [H|(u & [<-|Hu] & Hf)]; [auto|auto|right; exists u; auto].
Qed.

Lemma status_admits_admits r c : status_admits r c = true -> admits r c = true.
Proof. unfold status_admits, admits. destruct (uncond r); [reflexivity|]. cbn. auto. Qed.

Lemma in_rev_filter {A} (P : A -> bool) l x : In x (rev (filter P l)) -> In x l.
Proof. rewrite <- in_rev, filter_In. tauto. Qed.

Lemma status_rule_attributable W c id : snd (match status_shape W with Some u => scu_get u c | None => (0%N, None) end) = Some id ->
  In id (applied_spec W c).
Proof.
  unfold status_shape, applied_spec. destruct (rev (filter carries_status W)) as [|s prev] eqn:E; [discriminate|].
  assert (Hs : In s W) by (apply (in_rev_filter carries_status); rewrite E; left; reflexivity).
  unfold scu_get. cbn [sc_on sc_excl sc_status sc_fallback sc_rule sc_fallback_rule].
  assert (Hin : forall r, In r W -> admits r c = true -> In (r_id r) (map r_id (filter (fun r => admits r c) W))).
  { intros r Hr Ha. apply in_map. apply filter_In. auto. }
  destruct (N.eqb c 0 && is_nil (codes_of s)) eqn:E1.
  { cbn. intros H; inversion H; subst. apply Hin; [exact Hs|]. unfold admits, uncond. apply andb_prop in E1. destruct E1 as [_ ->]. reflexivity. }
  destruct (excl_of s && negb (memN c (codes_of s))) eqn:E2.
  { cbn. intros H; inversion H; subst. apply Hin; [exact Hs|]. unfold admits. apply andb_prop in E2. destruct E2 as [-> ->]. apply orb_true_r. }
  destruct (negb (excl_of s) && memN c (codes_of s)) eqn:E3.
  { cbn. intros H; inversion H; subst. apply Hin; [exact Hs|]. unfold admits. apply andb_prop in E3. destruct E3 as [E3 ->].
    apply negb_true_iff in E3. rewrite E3. apply orb_true_r. }
  destruct (negb (N.eqb c 0)); cbn; [|discriminate].
  destruct prev as [|p ?]; [discriminate|]. destruct (uncond p && negb (uncond s)) eqn:E4; [|discriminate].
  intros H; inversion H; subst. apply Hin.
  - apply (in_rev_filter carries_status). rewrite E. right; left; reflexivity.
  - unfold admits. apply andb_prop in E4. destruct E4 as [-> _]. reflexivity.
Qed.

Lemma log_rule_attributable W c id : snd (match log_shape W with Some u => lov_get u c | None => (None, None) end) = Some id ->
  In id (applied_spec W c).
Proof.
  unfold log_shape, applied_spec. destruct (rev (filter carries_log W)) as [|s prev] eqn:E; [discriminate|].
  assert (Hs : In s W) by (apply (in_rev_filter carries_log); rewrite E; left; reflexivity).
  unfold lov_get. cbn [lo_on lo_excl lo_log lo_fallback lo_rule lo_fallback_rule].
  assert (Hin : forall r, In r W -> admits r c = true -> In (r_id r) (map r_id (filter (fun r => admits r c) W))).
  { intros r Hr Ha. apply in_map. apply filter_In. auto. }
  destruct (is_nil (codes_of s)) eqn:E1.
  { cbn. intros H; inversion H; subst. apply Hin; [exact Hs|]. unfold admits, uncond. rewrite E1. reflexivity. }
  destruct (excl_of s && negb (memN c (codes_of s))) eqn:E2.
  { cbn. intros H; inversion H; subst. apply Hin; [exact Hs|]. unfold admits. apply andb_prop in E2. destruct E2 as [-> ->]. apply orb_true_r. }
  destruct (negb (excl_of s) && memN c (codes_of s)) eqn:E3.
  { cbn. intros H; inversion H; subst. apply Hin; [exact Hs|]. unfold admits. apply andb_prop in E3. destruct E3 as [E3 ->].
    apply negb_true_iff in E3. rewrite E3. apply orb_true_r. }
  cbn. destruct prev as [|p ?]; [discriminate|]. destruct (uncond p && negb (uncond s)) eqn:E4; [|discriminate].
  intros H; inversion H; subst. apply Hin.
  - apply (in_rev_filter carries_log). rewrite E. right; left; reflexivity.
  - unfold admits. apply andb_prop in E4. destruct E4 as [-> _]. reflexivity.
Qed.

Section C05Applied.
Variables (rules : list rule) (skipped : option str) (ov : option bool) (rvs : list N).
Hypothesis Hd : Forall sampling_decided rules.
Hypothesis Hr : rvs_ok rvs.
Variables (lower : str -> str) (table : list (str * hkind)).
Let W := window (eligible (sort_rules rules) ov).
Let a0 := from_routes_rule rules skipped ov rvs.

(* the calls a proxy makes, in its order *)
Definition proxy_applied (c : N) (hs : list header) (add_ids allow : bool) : list str :=
  let a1 := snd (get_status_code a0 c) in
  let a2 := snd (filter_headers lower table a1 hs c add_ids) in
  let a3 := snd (create_filter_body a2 c) in
  a_applied (snd (should_log_request a3 allow c)).

Theorem c05_applied c hs add_ids allow x : In x (proxy_applied c hs add_ids allow) <-> In x (applied_spec W c).
Proof.
  destruct (from_routes_rule_window rules skipped ov rvs Hd Hr) as (Hs & Hh & Hb & Ht & Hl & Ha). fold a0 in Hs, Hh, Hb, Ht, Hl, Ha. fold W in Hs, Hh, Hb, Ht, Hl.
  unfold proxy_applied.
  (* step 1: status *)
  set (a1 := snd (get_status_code a0 c)).
  assert (H1 : (forall y, In y (a_applied a1) -> In y (applied_spec W c)) /\ a_hf a1 = a_hf a0 /\ a_bf a1 = a_bf a0 /\ a_traces a1 = a_traces a0 /\ a_log a1 = a_log a0).
  { unfold a1, get_status_code. pose proof (status_rule_attributable W c) as Hsr.
    rewrite Hs, window_status, status_fold_shape. destruct (status_shape W) as [u|].
    - destruct (scu_get u c) as [st rl] eqn:Eg. cbn [snd set_applied a_applied a_hf a_bf a_traces a_log]. repeat split; try reflexivity.
      intros y Hy. rewrite Ha in Hy. apply In_apply_opt in Hy. destruct Hy as [Hy|[]]. apply Hsr. cbn [snd]. exact Hy.
    - cbn. repeat split; try reflexivity. rewrite Ha. intros y [].
  }
  destruct H1 as (H1a & H1h & H1b & H1t & H1l).
  (* step 2: headers *)
  set (a2 := snd (filter_headers lower table a1 hs c add_ids)).
  assert (H2 : (forall y, In y (a_applied a2) <-> In y (applied_spec W c)) /\ a_bf a2 = a_bf a0 /\ a_log a2 = a_log a0).
  { unfold a2, filter_headers. cbn [snd set_applied a_applied a_bf a_log]. split; [|auto].
    intros y. rewrite In_fold_apply, In_fold_insert. rewrite H1t, Ht, window_traces, H1h, Hh, window_hf. split.
    - intros [[Hy|(t & Hin & Hp & Hf)]|(f & Hin & Hf)].
      + auto.
      + apply in_map_iff in Hin. destruct Hin as (r & <- & Hr'). cbn [rt_id] in Hf. subst y. unfold applied_spec. apply in_map. apply filter_In. split; [exact Hr'|].
        unfold admits, uncond. unfold trace_applies in Hp. cbn [rt_on rt_excl rt_id] in Hp. destruct (is_nil (codes_of r)), (excl_of r), (memN c (codes_of r)); cbn in *; congruence.
      + apply filter_In in Hin. destruct Hin as [Hin Hg]. apply in_flat_map in Hin. destruct Hin as (r & Hr' & Hin).
        unfold hfas_of in Hin. rewrite eff_hf in Hin. apply in_map_iff in Hin. destruct Hin as (g & <- & _). cbn in Hf, Hg. inversion Hf; subst y.
        rewrite guard_admits in Hg. unfold applied_spec. apply in_map. apply filter_In. auto.
    - intros Hy. left. right. unfold applied_spec in Hy. apply in_map_iff in Hy. destruct Hy as (r & <- & Hr'). apply filter_In in Hr'. destruct Hr' as [Hr' Hadm].
      exists {| rt_id := r_id r; rt_on := codes_of r; rt_excl := excl_of r |}. split; [apply in_map_iff; exists r; split; [reflexivity|exact Hr']|]. split; [|reflexivity].
      unfold trace_applies. cbn [rt_on rt_excl rt_id]. unfold admits, uncond in Hadm. destruct (is_nil (codes_of r)), (excl_of r), (memN c (codes_of r)); cbn in *; congruence. }
  destruct H2 as (H2a & H2b & H2l).
  (* step 3: body filters *)
  set (a3 := snd (create_filter_body a2 c)).
  assert (H3 : (forall y, In y (a_applied a3) <-> In y (applied_spec W c)) /\ a_log a3 = a_log a0).
  { unfold a3, create_filter_body. cbn [snd set_applied a_applied a_log]. split; [|auto].
    intros y. rewrite In_fold_apply, H2a. split; [|auto]. intros [Hy|(f & Hin & Hf)]; [exact Hy|].
    rewrite H2b, Hb, window_bf in Hin. apply filter_In in Hin. destruct Hin as [Hin Hg]. apply in_flat_map in Hin. destruct Hin as (r & Hr' & Hin).
    unfold bfas_of in Hin. rewrite eff_bf in Hin. apply in_map_iff in Hin. destruct Hin as (g & <- & _). cbn in Hf, Hg. inversion Hf; subst y.
    rewrite guard_admits in Hg. unfold applied_spec. apply in_map. apply filter_In. auto. }
  destruct H3 as (H3a & H3l).
  (* step 4: log *)
  unfold should_log_request. rewrite H3l, Hl, window_log, log_fold_shape. pose proof (log_rule_attributable W c) as Hlr.
  destruct (log_shape W) as [u|]; [|apply H3a].
  destruct (lov_get u c) as [al rl] eqn:Eg. cbn [snd set_applied a_applied]. rewrite In_apply_opt, H3a. split; [|auto].
  intros [Hy|Hy]; [|exact Hy]. apply Hlr. cbn [snd]. exact Hy.
Qed.
End C05Applied.

(* ------------------------------------------------------------------ C11: the processing order is determined by the set *)
Require Import Coq.Sorting.Sorted.

Lemma str_ltb_irrefl a : str_ltb a a = false.
Proof. induction a as [|x a IH]; [reflexivity|]. cbn. rewrite N.ltb_irrefl. exact IH. Qed.

Lemma str_ltb_trichotomy a : forall b, str_ltb a b = false -> str_ltb b a = false -> a = b.
Proof.
  induction a as [|x a IH]; intros [|y b] H1 H2; cbn in *; try reflexivity; try discriminate.
  destruct (N.ltb x y) eqn:E1; [discriminate|]. destruct (N.ltb y x) eqn:E2; [discriminate|].
  apply N.ltb_ge in E1, E2. assert (x = y) by lia. subst. f_equal. apply IH; assumption.
Qed.

Lemma str_ltb_trans a : forall b c, str_ltb a b = true -> str_ltb b c = true -> str_ltb a c = true.
Proof.
  induction a as [|x a IH]; intros [|y b] [|z c] H1 H2; cbn in *; try reflexivity; try discriminate.
  destruct (N.ltb x y) eqn:E1.
  - apply N.ltb_lt in E1. destruct (N.ltb y z) eqn:E2.
    + apply N.ltb_lt in E2. assert (N.ltb x z = true) as -> by (apply N.ltb_lt; lia). reflexivity.
    + destruct (N.ltb z y) eqn:E3; [discriminate|]. apply N.ltb_ge in E2, E3. assert (y = z) by lia. subst.
      assert (N.ltb x z = true) as -> by (apply N.ltb_lt; lia). reflexivity.
  - destruct (N.ltb y x) eqn:E1'; [discriminate|]. apply N.ltb_ge in E1, E1'. assert (x = y) by lia. subst.
    destruct (N.ltb y z) eqn:E2; [reflexivity|]. destruct (N.ltb z y) eqn:E3; [discriminate|]. eapply IH; eassumption.
Qed.

Lemma str_ltb_asym a b : str_ltb a b = true -> str_ltb b a = false.
Proof. intros H. destruct (str_ltb b a) eqn:E; [|reflexivity]. pose proof (str_ltb_trans _ _ _ H E) as Ht. rewrite str_ltb_irrefl in Ht. discriminate. Qed.

Lemma rule_before_total a b : rule_before a b = true \/ rule_before b a = true.
Proof.
  unfold rule_before. destruct (N.ltb (r_rank b) (r_rank a)) eqn:E1; [left; reflexivity|].
  destruct (N.ltb (r_rank a) (r_rank b)) eqn:E2; [right; reflexivity|].
  destruct (str_ltb (r_id a) (r_id b)) eqn:E3; [right; rewrite (str_ltb_asym _ _ E3); reflexivity|left; reflexivity].
Qed.

Lemma rule_before_antisym a b : rule_before a b = true -> rule_before b a = true -> r_rank a = r_rank b /\ r_id a = r_id b.
Proof.
  unfold rule_before. destruct (N.ltb (r_rank b) (r_rank a)) eqn:E1, (N.ltb (r_rank a) (r_rank b)) eqn:E2; try discriminate.
  - apply N.ltb_lt in E1, E2. lia.
  - intros H1 H2. apply N.ltb_ge in E1, E2. split; [lia|]. apply negb_true_iff in H1, H2. apply str_ltb_trichotomy; assumption.
Qed.

Lemma rule_before_trans a b c : rule_before a b = true -> rule_before b c = true -> rule_before a c = true.
Proof.
  unfold rule_before.
  destruct (N.ltb (r_rank b) (r_rank a)) eqn:E1, (N.ltb (r_rank a) (r_rank b)) eqn:E2,
           (N.ltb (r_rank c) (r_rank b)) eqn:E3, (N.ltb (r_rank b) (r_rank c)) eqn:E4; try discriminate;
    rewrite ?N.ltb_lt, ?N.ltb_ge in *; intros H1 H2; try lia.
  - assert (N.ltb (r_rank c) (r_rank a) = true) as -> by (apply N.ltb_lt; lia). reflexivity.
  - assert (N.ltb (r_rank c) (r_rank a) = true) as -> by (apply N.ltb_lt; lia). reflexivity.
  - assert (N.ltb (r_rank c) (r_rank a) = true) as -> by (apply N.ltb_lt; lia). reflexivity.
  - assert (N.ltb (r_rank c) (r_rank a) = false) as -> by (apply N.ltb_ge; lia).
    assert (N.ltb (r_rank a) (r_rank c) = false) as -> by (apply N.ltb_ge; lia).
    apply negb_true_iff in H1, H2. apply negb_true_iff.
    destruct (str_ltb (r_id a) (r_id c)) eqn:E; [|reflexivity].
    (* a < c, not a < b, not b < c: then b <= a < c contradicts not b < c unless ... *)
    destruct (str_ltb (r_id b) (r_id a)) eqn:Eba.
    + rewrite (str_ltb_trans _ _ _ Eba E) in H2. discriminate.
    + assert (r_id a = r_id b) by (apply str_ltb_trichotomy; assumption). congruence.
Qed.

Definition before (a b : rule) : Prop := rule_before a b = true.

Lemma insert_sorted_perm x l : Permutation (insert_sorted x l) (x :: l).
Proof.
  induction l as [|y l IH]; cbn; [apply Permutation_refl|]. destruct (rule_before x y); [apply Permutation_refl|].
  eapply Permutation_trans; [apply perm_skip; exact IH|apply perm_swap].
Qed.
Lemma sort_rules_perm l : Permutation (sort_rules l) l.
Proof.
  induction l as [|x l IH]; cbn; [constructor|]. eapply Permutation_trans; [apply insert_sorted_perm|]. constructor. exact IH.
Qed.

Lemma insert_sorted_sorted x l : StronglySorted before l -> StronglySorted before (insert_sorted x l).
Proof.
  induction l as [|y l IH]; intros Hs; cbn.
  - constructor; [constructor|constructor].
  - destruct (rule_before x y) eqn:E.
    + constructor; [exact Hs|]. constructor; [exact E|]. inversion Hs; subst.
      eapply Forall_impl; [|eassumption]. intros z Hz. eapply rule_before_trans; eassumption.
    + inversion Hs; subst. constructor; [apply IH; assumption|].
      assert (before y x) as Hyx by (destruct (rule_before_total x y) as [H|H]; [congruence|exact H]).
      eapply Permutation_Forall; [apply Permutation_sym, insert_sorted_perm|]. constructor; assumption.
Qed.
Lemma sort_rules_sorted l : StronglySorted before (sort_rules l).
Proof. induction l as [|x l IH]; cbn; [constructor|apply insert_sorted_sorted; exact IH]. Qed.

Lemma sorted_perm_unique l1 : forall l2, StronglySorted before l1 -> StronglySorted before l2 ->
  Permutation l1 l2 -> NoDup (map r_id l1) -> l1 = l2.
Proof.
  induction l1 as [|a l1 IH]; intros l2 S1 S2 Hp Hnd.
  - apply Permutation_nil in Hp. subst. reflexivity.
  - destruct l2 as [|b l2]; [apply Permutation_sym, Permutation_nil in Hp; discriminate|].
    inversion S1 as [|? ? S1' F1]; subst. inversion S2 as [|? ? S2' F2]; subst.
    assert (a = b) as ->.
    { assert (Ha : In a (b :: l2)) by (eapply Permutation_in; [exact Hp|left; reflexivity]).
      assert (Hb : In b (a :: l1)) by (eapply Permutation_in; [apply Permutation_sym; exact Hp|left; reflexivity]).
      destruct Ha as [->|Ha]; [reflexivity|]. destruct Hb as [->|Hb]; [reflexivity|].
      rewrite Forall_forall in F1, F2. destruct (rule_before_antisym a b (F1 b Hb) (F2 a Ha)) as [_ Hid].
      exfalso. cbn in Hnd. inversion Hnd; subst. apply H1. rewrite Hid. apply in_map. exact Hb. }
    f_equal. apply IH; try assumption.
    + eapply Permutation_cons_inv. exact Hp.
    + cbn in Hnd. inversion Hnd; assumption.
Qed.

Theorem sort_rules_permutation_invariant l1 l2 : Permutation l1 l2 -> NoDup (map r_id l1) -> sort_rules l1 = sort_rules l2.
Proof.
  intros Hp Hnd. apply sorted_perm_unique; try apply sort_rules_sorted.
  - eapply Permutation_trans; [apply sort_rules_perm|]. eapply Permutation_trans; [exact Hp|apply Permutation_sym, sort_rules_perm].
  - eapply Permutation_NoDup; [apply Permutation_map, Permutation_sym, sort_rules_perm|exact Hnd].
Qed.

Theorem from_routes_rule_permutation_invariant l1 l2 skipped ov rvs :
  Permutation l1 l2 -> NoDup (map r_id l1) -> from_routes_rule l1 skipped ov rvs = from_routes_rule l2 skipped ov rvs.
Proof. intros Hp Hnd. unfold from_routes_rule. rewrite (sort_rules_permutation_invariant l1 l2 Hp Hnd). reflexivity. Qed.

(* rules are processed by descending rank, ties by descending id *)
Theorem sort_rules_order l : StronglySorted (fun a b => (r_rank b < r_rank a)%N \/ (r_rank a = r_rank b /\ str_ltb (r_id a) (r_id b) = false)) (sort_rules l).
Proof.
  pose proof (sort_rules_sorted l) as H. induction H; constructor; [assumption|].
  eapply Forall_impl; [|eassumption]. intros b Hb. unfold before, rule_before in Hb.
  destruct (N.ltb (r_rank b) (r_rank a)) eqn:E1; [left; apply N.ltb_lt; exact E1|].
  destruct (N.ltb (r_rank a) (r_rank b)) eqn:E2; [discriminate|]. right. apply N.ltb_ge in E1, E2. split; [lia|]. apply negb_true_iff. exact Hb.
Qed.
