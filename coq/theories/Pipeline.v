(* Pipeline.v — the response block shared by the analyses (src/api/explain_request.rs ExplainRequestOutput::create_result,
   src/api/impact.rs ImpactOutput::compute_impacts, same text in both) and the live pipeline in proxy order, over the
   action model of RIO.ActionModel.

     let example_status_code = example.response_status_code.unwrap_or(0);
     let (final_status_code, backend_status_code) = action.get_final_status_code_with_fallback(example_status_code, 200, ..);
     let headers = action.filter_headers(Vec::new(), backend_status_code, false, ..);
     body: create_filter_body(backend_status_code, &[]) run over the fixed skeleton document, or the skeleton itself
     let should_log_request = action.should_log_request(true, final_status_code, ..);

   The live pipeline is what a proxy does with the same action: the request phase first (get_status_code(0)); when it
   yields a status the proxy answers itself and that status is also the one the response-phase filters see; otherwise
   the backend answers with some code b (the example's code, 200 when the example names none) and get_status_code(b)
   gives the final status.  Body filters: the text filters of the action model (HTML filters: RIO.HtmlFilter; the C19 run
   compares bodies only when the matched rules carry text filters only).  Unit traces are not modelled. *)
Require Import RIO.Base RIO.Headers RIO.BodyText RIO.ActionModel.

Section Pipeline.
Variable lower : str -> str.
Variable action_table : list (str * hkind).

(* Action::get_final_status_code_with_fallback (src/action/mod.rs) *)
Definition get_final_status_code_with_fallback (a : action) (response_status_code fallback_status_code : N) : (N * N) * action :=
  let '(action_status_code, a0) := get_status_code a 0 in
  if negb (N.eqb action_status_code 0) then ((action_status_code, action_status_code), a0)
  else
    let backend_status_code := if N.eqb response_status_code 0 then fallback_status_code else response_status_code in
    let '(final_status_code, a1) := get_status_code a0 backend_status_code in
    ((final_status_code, backend_status_code), a1).

Record response := {
  rs_status : N;              (* response.status_code (final) *)
  rs_backend : N;             (* backend_status_code *)
  rs_headers : list header;   (* response.headers *)
  rs_body : str;              (* response.body *)
  rs_log : bool;              (* should_log_request *)
  rs_applied : list str       (* the action's applied-rule list after the block *)
}.

(* the response-phase calls, in the order all callers use *)
Definition response_phase (a : action) (final backend : N) (skeleton : str) : response :=
  let '(hs, a2) := filter_headers lower action_table a [] backend false in
  let '(bfs, a3) := create_filter_body a2 backend in
  let body := text_body_run bfs [skeleton] in
  let '(lg, a4) := should_log_request a3 true final in
  {| rs_status := final; rs_backend := backend; rs_headers := hs; rs_body := body; rs_log := lg; rs_applied := a_applied a4 |}.

(* explain / impact *)
Definition analysis_response (a : action) (example_code : option N) (skeleton : str) : response :=
  let '((final, backend), a1) := get_final_status_code_with_fallback a (opt_default 0%N example_code) 200%N in
  response_phase a1 final backend skeleton.

(* the live pipeline, proxy order; [backend_code]: what the backend answers when it is asked *)
Definition live_response (a : action) (backend_code : N) (skeleton : str) : response :=
  let '(at_request, a0) := get_status_code a 0 in
  if negb (N.eqb at_request 0) then response_phase a0 at_request at_request skeleton
  else let '(final, a1) := get_status_code a0 backend_code in response_phase a1 final backend_code skeleton.

(* the backend code an example stands for: its response_status_code, 200 when it names none (or names 0) *)
Definition example_backend (example_code : option N) : N :=
  match example_code with Some c => if N.eqb c 0 then 200%N else c | None => 200%N end.

(* the whole analysis from the matched rules of a request *)
Definition analysis_of_rules (rules : list rule) (skipped : option str) (override : option bool)
           (example_code : option N) (skeleton : str) : response :=
  analysis_response (from_routes_rule rules skipped override []) example_code skeleton.
Definition live_of_rules (rules : list rule) (skipped : option str) (override : option bool)
           (backend_code : N) (skeleton : str) : response :=
  live_response (from_routes_rule rules skipped override []) backend_code skeleton.
End Pipeline.
