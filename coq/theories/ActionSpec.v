(* ActionSpec.v — the declarative reference for C05: no fold, no merge.  The rules that contribute are
   a WINDOW of the eligible rules in processing order (rank descending, id descending): cut after the
   first stop, then keep from the last reset on.  Every effect is read off that window. *)
Require Import RIO.Base RIO.Headers RIO.HeadersSpec RIO.BodyText RIO.ActionModel.

(* sampling: decided by the request's override, else by a 0 / 100(+) rate *)
Definition spec_skipped (r : rule) (override : option bool) : bool :=
  match r_sampling r with
  | None => false
  | Some s => match override with Some false => true | Some true => false | None => N.eqb s 0 end
  end.

Definition eligible (rules : list rule) (override : option bool) : list rule :=
  filter (fun r => negb (spec_skipped r override)) rules.

Definition is_stop (r : rule) : bool := match r_stop r with Some true => true | _ => false end.
Definition is_reset (r : rule) : bool := match r_reset r with Some true => true | _ => false end.

Fixpoint upto_stop (l : list rule) : list rule :=
  match l with [] => [] | r :: l' => if is_stop r then [r] else r :: upto_stop l' end.
Fixpoint from_last_reset (l : list rule) : list rule :=
  match l with [] => [] | r :: l' => if existsb is_reset l' then from_last_reset l' else r :: l' end.
Definition window (processing_order : list rule) : list rule := from_last_reset (upto_stop processing_order).

Definition codes_of (r : rule) : list N := match r_codes r with Some l => l | None => [] end.
Definition excl_of (r : rule) : bool := match r_excl r with Some true => true | _ => false end.
Definition uncond (r : rule) : bool := is_nil (codes_of r).
(* does the response-status condition of [r] admit code [c]?  No condition admits everything. *)
Definition admits (r : rule) (c : N) : bool :=
  uncond r || (if excl_of r then negb (memN c (codes_of r)) else memN c (codes_of r)).

(* ---- status ---- *)
Definition status_of (r : rule) : N := match r_status r with Some s => s | None => 0%N end.
Definition carries_status (r : rule) : bool := negb (N.eqb (status_of r) 0).
(* an unconditional status is decided at request time (code 0) — unless its (vacuous) exclude flag is set *)
Definition status_admits (r : rule) (c : N) : bool :=
  if uncond r then N.eqb c 0 || excl_of r
  else (if excl_of r then negb (memN c (codes_of r)) else memN c (codes_of r)).

Definition status_spec (W : list rule) (c : N) : N :=
  match rev (filter carries_status W) with
  | [] => 0%N
  | s :: prev =>
      if status_admits s c then status_of s
      else if N.eqb c 0 then 0%N
      else if uncond s then 0%N
      else match prev with p :: _ => if uncond p then status_of p else 0%N | [] => 0%N end
  end.

(* ---- header / body filters ---- *)
Definition location_filter (r : rule) (skipped : option str) : list hfilter :=
  match r_target r with
  | Some t => if is_nil t then [] else [ {| hf_action := s_override; hf_header := s_location; hf_value := target_value t skipped |} ]
  | None => []
  end.
Definition header_filters_spec (W : list rule) (skipped : option str) (c : N) : list hfilter :=
  flat_map (fun r => if admits r c then location_filter r skipped ++ r_hf r else []) W.
Definition body_filters_spec (W : list rule) (c : N) : list bfilter :=
  flat_map (fun r => if admits r c then r_bf r else []) W.

(* ---- log ---- *)
Definition carries_log (r : rule) : bool := match r_log r with Some _ => true | None => false end.
Definition log_of (r : rule) : bool := match r_log r with Some b => b | None => false end.
Definition log_spec (W : list rule) (allow_log_config : bool) (c : N) : bool :=
  match rev (filter carries_log W) with
  | [] => allow_log_config
  | s :: prev =>
      if admits s c then log_of s
      else match prev with p :: _ => if uncond p then log_of p else allow_log_config | [] => allow_log_config end
  end.

(* ---- applied rules: exactly the rules of the window whose condition admits the code ---- *)
Definition applied_spec (W : list rule) (c : N) : list str := map r_id (filter (fun r => admits r c) W).

Definition subset_str (a b : list str) : bool := forallb (fun x => mem_str x b) a.
Definition same_set (a b : list str) : bool := subset_str a b && subset_str b a.

Fixpoint headers_eqb' (a b : list header) : bool :=
  match a, b with
  | [], [] => true
  | (n, v) :: a', (n', v') :: b' => str_eqb n n' && str_eqb v v' && headers_eqb' a' b'
  | _, _ => false
  end.

(* the reference evaluated against what the implementation returned *)
Definition spec_agrees (lower : str -> str) (rules : list rule) (skipped : option str) (override : option bool)
    (c : N) (hs : list header) (allow_log : bool) (chunks : list str)
    (o_status : N) (o_headers : list header) (o_body : str) (o_log : bool) (o_applied : list str) (add_ids : bool) : bool :=
  let W := window (eligible (sort_rules rules) override) in
  let exp_headers := reference lower (header_filters_spec W skipped c) hs in
  let got_headers := if add_ids then removelast o_headers else o_headers in
  N.eqb (status_spec W c) o_status
  && headers_eqb' exp_headers got_headers
  && (if add_ids then match rev o_headers with (n, _) :: _ => str_eqb n s_ruleids_header | [] => false end else true)
  && str_eqb (text_body_run (body_filters_spec W c) chunks) o_body
  && Bool.eqb (log_spec W allow_log c) o_log
  && same_set (applied_spec W c) o_applied.
