(* Heap.v — the ownership / layout bookkeeping of the C interface (src/filter/buffer.rs, src/*/ffi.rs, src/ffi_helpers.rs).
   An allocator state maps locations to the SIZE each live block was allocated with; [dealloc] must name a live block
   and the same size (Rust's GlobalAlloc contract: the layout passed to dealloc must be the one used by alloc).
   Values handed to the C caller are HANDLES: a buffer (ptr, len), a boxed object (request, action, body filter,
   header-map node), a C string.  A client program is a list of API calls over handle ids. *)
Require Import RIO.Base.
Open Scope N_scope.

Inductive aerr := EDoubleFree | ELayout (allocated passed : N) | EUnknownHandle | EHandleExists.

Record heap := { blocks : list (N * N); next : N }.          (* loc |-> size ; fresh counter *)
Definition heap0 : heap := {| blocks := []; next := 1 |}.

Definition alloc (h : heap) (size : N) : heap * N :=
  ({| blocks := (next h, size) :: blocks h; next := next h + 1 |}, next h).

Fixpoint remove_block (l : list (N * N)) (loc : N) : option (N * list (N * N)) :=
  match l with
  | [] => None
  | (k, s) :: l' => if N.eqb k loc then Some (s, l')
                    else match remove_block l' loc with Some (s', r) => Some (s', (k, s) :: r) | None => None end
  end.

Definition dealloc (h : heap) (loc size : N) : aerr + heap :=
  match remove_block (blocks h) loc with
  | None => inl EDoubleFree
  | Some (s, rest) => if N.eqb s size then inr {| blocks := rest; next := next h |} else inl (ELayout s size)
  end.

(* what a handle owns *)
Inductive hval :=
| HBuf (loc len : N)                 (* Buffer { data, len }; loc = 0 is the null buffer *)
| HBox (loc size : N)                (* Box<T>::into_raw: one block of size_of::<T>() *)
| HStr (loc size : N)                (* CString::into_raw: len + 1 bytes *)
| HHdr (nodes : list (N * N * N * N * N)).   (* header map: per node (node loc, name loc, name size, value loc, value size) *)

Record state := { hp : heap; handles : list (N * hval) }.
Definition state0 : state := {| hp := heap0; handles := [] |}.

Fixpoint take_handle (l : list (N * hval)) (id : N) : option (hval * list (N * hval)) :=
  match l with
  | [] => None
  | (k, v) :: l' => if N.eqb k id then Some (v, l')
                    else match take_handle l' id with Some (v', r) => Some (v', (k, v) :: r) | None => None end
  end.
Definition has_handle (l : list (N * hval)) (id : N) : bool := existsb (fun e => N.eqb (fst e) id) l.

Definition NODE_SIZE : N := 24.   (* HeaderMap { name, value, next }: three pointers *)

(* Buffer::from_vec of a Vec with length [len] and capacity [cap] (len <= cap), as repaired (8d7e0c8):
   empty -> the Vec is dropped, null buffer; otherwise into_boxed_slice (shrinks the block to len when cap > len), leak *)
Definition buf_from_vec (h : heap) (len cap : N) : aerr + (heap * hval) :=
  let '(h1, loc) := alloc h cap in
  if N.eqb len 0 then
    match dealloc h1 loc cap with inl e => inl e | inr h2 => inr (h2, HBuf 0 0) end
  else if N.eqb cap len then inr (h1, HBuf loc len)
  else match dealloc h1 loc cap with        (* realloc: shrink_to_fit *)
       | inl e => inl e
       | inr h2 => let '(h3, loc') := alloc h2 len in inr (h3, HBuf loc' len)
       end.

(* the pinned code: the Vec is leaked as it is, only (ptr, len) are kept *)
Definition buf_from_vec_pinned (h : heap) (len cap : N) : aerr + (heap * hval) :=
  let '(h1, loc) := alloc h cap in
  if N.eqb len 0 then
    match dealloc h1 loc cap with inl e => inl e | inr h2 => inr (h2, HBuf 0 0) end
  else inr (h1, HBuf loc len).

(* Buffer::into_vec / redirectionio_api_buffer_drop: Box<[u8]>::from_raw(ptr, len), then dropped *)
Definition buf_release (h : heap) (v : hval) : aerr + heap :=
  match v with
  | HBuf loc len => if N.eqb loc 0 || N.eqb len 0 then inr h else dealloc h loc len
  | _ => inl EUnknownHandle
  end.

Fixpoint free_nodes (h : heap) (nodes : list (N * N * N * N * N)) : aerr + heap :=
  match nodes with
  | [] => inr h
  | (n, a, sa, b, sb) :: rest =>
      match dealloc h a sa with
      | inl e => inl e
      | inr h1 => match dealloc h1 b sb with
                  | inl e => inl e
                  | inr h2 => match dealloc h2 n NODE_SIZE with inl e => inl e | inr h3 => free_nodes h3 rest end
                  end
      end
  end.

Fixpoint alloc_nodes (h : heap) (entries : list (N * N)) : heap * list (N * N * N * N * N) :=
  match entries with
  | [] => (h, [])
  | (ln, lv) :: rest =>
      let '(h1, a) := alloc h (ln + 1) in
      let '(h2, b) := alloc h1 (lv + 1) in
      let '(h3, n) := alloc h2 NODE_SIZE in
      let '(h4, ns) := alloc_nodes h3 rest in
      (h4, (n, a, ln + 1, b, lv + 1) :: ns)
  end.

(* the client program *)
Inductive cop :=
| CBufNew (id len cap : N)                 (* a buffer handed out by the library: Buffer::from_vec(vec) *)
| CBufDup (src dst : N)                    (* Buffer::duplicate: to_vec (exact capacity) then from_vec *)
| CBufRelease (id : N)                     (* redirectionio_api_buffer_drop / into_vec *)
| CFilter (inp out len cap : N)            (* redirectionio_action_body_filter_filter: consumes inp, returns out = from_vec(len, cap) *)
| CBoxNew (id size : N)                    (* request / action / body filter created *)
| CBoxDrop (id : N)                        (* the matching *_drop (or body_filter_close, which also frees the box) *)
| CStrNew (id len : N)                     (* a string returned by *_json_serialize / create_log_in_json *)
| CStrFree (id : N)                        (* released by the caller *)
| CHdrNew (id : N) (entries : list (N * N))(* header map returned by header_filter_filter: name / value lengths *)
| CHdrFree (id : N).

Definition add_handle (s : state) (h : heap) (id : N) (v : hval) : aerr + state :=
  if has_handle (handles s) id then inl EHandleExists else inr {| hp := h; handles := (id, v) :: handles s |}.

Definition step_gen (from_vec : heap -> N -> N -> aerr + (heap * hval)) (s : state) (o : cop) : aerr + state :=
  match o with
  | CBufNew id len cap =>
      match from_vec (hp s) len cap with inl e => inl e | inr (h, v) => add_handle s h id v end
  | CBufDup src dst =>
      match take_handle (handles s) src with
      | Some (HBuf loc len, _) =>
          match from_vec (hp s) len len with inl e => inl e | inr (h, v) => add_handle s h dst v end
      | _ => inl EUnknownHandle
      end
  | CBufRelease id =>
      match take_handle (handles s) id with
      | Some (v, rest) => match buf_release (hp s) v with inl e => inl e | inr h => inr {| hp := h; handles := rest |} end
      | None => inl EUnknownHandle
      end
  | CFilter inp out len cap =>
      match take_handle (handles s) inp with
      | Some (v, rest) =>
          match buf_release (hp s) v with
          | inl e => inl e
          | inr h => match from_vec h len cap with
                     | inl e => inl e
                     | inr (h', v') => add_handle {| hp := h; handles := rest |} h' out v'
                     end
          end
      | None => inl EUnknownHandle
      end
  | CBoxNew id size => let '(h, loc) := alloc (hp s) size in add_handle s h id (HBox loc size)
  | CBoxDrop id =>
      match take_handle (handles s) id with
      | Some (HBox loc size, rest) => match dealloc (hp s) loc size with inl e => inl e | inr h => inr {| hp := h; handles := rest |} end
      | _ => inl EUnknownHandle
      end
  | CStrNew id len => let '(h, loc) := alloc (hp s) (len + 1) in add_handle s h id (HStr loc (len + 1))
  | CStrFree id =>
      match take_handle (handles s) id with
      | Some (HStr loc size, rest) => match dealloc (hp s) loc size with inl e => inl e | inr h => inr {| hp := h; handles := rest |} end
      | _ => inl EUnknownHandle
      end
  | CHdrNew id entries => let '(h, ns) := alloc_nodes (hp s) entries in add_handle s h id (HHdr ns)
  | CHdrFree id =>
      match take_handle (handles s) id with
      | Some (HHdr ns, rest) => match free_nodes (hp s) ns with inl e => inl e | inr h => inr {| hp := h; handles := rest |} end
      | _ => inl EUnknownHandle
      end
  end.

Definition step := step_gen buf_from_vec.
Definition step_pinned := step_gen buf_from_vec_pinned.

Fixpoint run_gen (stp : state -> cop -> aerr + state) (s : state) (p : list cop) : aerr + state :=
  match p with
  | [] => inr s
  | o :: p' => match stp s o with inl e => inl e | inr s' => run_gen stp s' p' end
  end.
Definition run := run_gen step.
Definition run_pinned := run_gen step_pinned.

(* the protocol: ids are fresh when created, live and of the right kind when used, capacities are at least lengths;
   checked on the handle table only (the table a C client keeps in its head) *)
Inductive kind := KBuf | KBox | KStr | KHdr.
Definition cap_ok (len cap : N) : bool := N.leb len cap.

Fixpoint take_kind (l : list (N * kind)) (id : N) : option (kind * list (N * kind)) :=
  match l with
  | [] => None
  | (k, v) :: l' => if N.eqb k id then Some (v, l')
                    else match take_kind l' id with Some (v', r) => Some (v', (k, v) :: r) | None => None end
  end.
Definition has_kind (l : list (N * kind)) (id : N) : bool := existsb (fun e => N.eqb (fst e) id) l.
Definition kind_eqb (a b : kind) : bool := match a, b with KBuf, KBuf | KBox, KBox | KStr, KStr | KHdr, KHdr => true | _, _ => false end.

Definition release (t : list (N * kind)) (id : N) (k : kind) : option (list (N * kind)) :=
  match take_kind t id with Some (k', rest) => if kind_eqb k k' then Some rest else None | None => None end.
Definition create (t : list (N * kind)) (id : N) (k : kind) : option (list (N * kind)) :=
  if has_kind t id then None else Some ((id, k) :: t).

Definition proto_step (t : list (N * kind)) (o : cop) : option (list (N * kind)) :=
  match o with
  | CBufNew id len cap => if cap_ok len cap then create t id KBuf else None
  | CBufDup src dst => match take_kind t src with Some (KBuf, _) => create t dst KBuf | _ => None end
  | CBufRelease id => release t id KBuf
  | CFilter inp out len cap => if cap_ok len cap then match release t inp KBuf with Some t' => create t' out KBuf | None => None end else None
  | CBoxNew id _ => create t id KBox
  | CBoxDrop id => release t id KBox
  | CStrNew id _ => create t id KStr
  | CStrFree id => release t id KStr
  | CHdrNew id _ => create t id KHdr
  | CHdrFree id => release t id KHdr
  end.

Fixpoint proto_run (t : list (N * kind)) (p : list cop) : option (list (N * kind)) :=
  match p with [] => Some t | o :: p' => match proto_step t o with Some t' => proto_run t' p' | None => None end end.

(* a complete, protocol-respecting program: every handle released exactly once by its matching function *)
Definition well_formed (p : list cop) : bool := match proto_run [] p with Some [] => true | _ => false end.
