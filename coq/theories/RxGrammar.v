(* RxGrammar.v — a grammar of group bodies for which the side condition of RIO.RxLaws holds:
   every token [TGrp b] with [galt b] (and b not starting with '?') is well-formed for prefix.rs ([tok_ok])
   AND parses in isolation ([tok_parses]).  The grammar covers the marker expressions of the rule generator:
   literals, escapes, '.', bracket classes whose content has no bracket / backslash (parentheses allowed), capturing and non-capturing
   groups (nested), alternation, and one quantifier per atom (star, plus, question mark, {n} {n,} {n,m}, greedy or lazy).
   Part 1: semantic combinators over the parser; Part 2: the grammar; Part 3: the scanner side. *)
Require Import RIO.Base RIO.Prefix RIO.Rx RIO.RxParse RIO.RxToks RIO.RxGi.
Close Scope N_scope.
Open Scope nat_scope.

(* ================================================================== Part 1: combinators *)
Definition SeqOK (u : list N) : Prop :=
  (forall y, noquant y -> noquant (u ++ y)) /\
  forall gi, exists l d, forall y acc res, noquant y ->
    PCat y (gi + d) (fold_left cat l acc) res -> PCat (u ++ y) gi acc res.

Definition AtomOK (u : list N) : Prop :=
  exists c u', u = c :: u' /\ (N.eqb c ch_bar || N.eqb c ch_rparen) = false /\ quant_one REmpty c [] = Some None /\
    forall gi, exists a d, forall f y, 2 * length u + 2 <= f ->
      atom_of (parse_alt f) (parse_class f) c (u' ++ y) gi = Some (a, y, gi + d).

Definition QuantOK (w : list N) : Prop :=
  forall a, exists a', forall f y, length w + 1 <= f -> noquant y -> parse_quants f a (w ++ y) = Some (a', y).

Definition closes (y : list N) : Prop := y = [] \/ exists y', y = ch_rparen :: y'.
Definition AltOK (b : list N) : Prop :=
  forall gi, exists r d, forall y, closes y -> PAlt (b ++ y) gi (r, y, gi + d).

Lemma SeqOK_nil : SeqOK [].
Proof. split; [intros y H; exact H|]. intros gi. exists [], 0. intros y acc res _ H. rewrite Nat.add_0_r in H. exact H. Qed.

Lemma SeqOK_app u v : SeqOK u -> SeqOK v -> SeqOK (u ++ v).
Proof.
  intros [Hnu Hu] [Hnv Hv]. split.
  - intros y Hy. rewrite <- app_assoc. apply Hnu. apply Hnv. exact Hy.
  - intros gi. destruct (Hu gi) as (l1 & d1 & H1). destruct (Hv (gi + d1)) as (l2 & d2 & H2).
    exists (l1 ++ l2), (d1 + d2). intros y acc res Hy Hres. rewrite <- app_assoc.
    apply H1; [apply Hnv; exact Hy|]. apply H2; [exact Hy|]. rewrite fold_left_app, Nat.add_assoc in Hres. exact Hres.
Qed.

Lemma SeqOK_atom u w : AtomOK u -> QuantOK w -> SeqOK (u ++ w).
Proof.
  intros (c & u' & -> & Hstop & Hnq & Ha) Hq. split.
  - intros y _. cbn [app noquant]. exact Hnq.
  - intros gi. destruct (Ha gi) as (a & d & Hat). destruct (Hq a) as (a' & Hqa).
    exists [a'], d. intros y acc [[r rest] g2] Hy Hres. cbn [fold_left] in Hres.
    apply PCat_fuel in Hres. destruct Hres as [Hl Hf].
    exists (S (Nat.max (Nat.max (2 * length (c :: u') + 2) (length w + 1)) (2 * (length y - length rest) + 1))).
    cbn [app]. rewrite parse_cat_S, Hstop. rewrite <- app_assoc, Hat by lia. rewrite Hqa; [|lia|exact Hy].
    apply Hf. lia.
Qed.

Lemma noquant_closes y : closes y -> noquant y.
Proof. intros [->|(y' & ->)]; [exact I|reflexivity]. Qed.

Lemma PCat_closes y gi acc : closes y -> PCat y gi acc (acc, y, gi).
Proof. intros [->|(y' & ->)]; exists 1; reflexivity. Qed.

Lemma AltOK_seq u : SeqOK u -> AltOK u.
Proof.
  intros [_ Hu] gi. destruct (Hu gi) as (l & d & H). exists (fold_left cat l REmpty), d. intros y Hy.
  assert (Hc : PCat (u ++ y) gi REmpty (fold_left cat l REmpty, y, gi + d)).
  { apply H; [apply noquant_closes; exact Hy|apply PCat_closes; exact Hy]. }
  destruct Hc as [F HF]. exists (S F). rewrite parse_alt_S, HF.
  destruct Hy as [->|(y' & ->)]; reflexivity.
Qed.

Lemma AltOK_bar u b : SeqOK u -> AltOK b -> AltOK (u ++ ch_bar :: b).
Proof.
  intros [_ Hu] Hb gi. destruct (Hu gi) as (l & d1 & H1). destruct (Hb (gi + d1)) as (r2 & d2 & H2).
  exists (RAlt (fold_left cat l REmpty) r2), (d1 + d2). intros y Hy. rewrite <- app_assoc. cbn [app].
  assert (Hc : PCat (u ++ ch_bar :: b ++ y) gi REmpty (fold_left cat l REmpty, ch_bar :: b ++ y, gi + d1)).
  { apply H1; [reflexivity|exists 1; reflexivity]. }
  apply PCat_fuel in Hc. destruct Hc as [_ Hc]. specialize (H2 y Hy). apply PAlt_fuel in H2. destruct H2 as [_ H2].
  set (F := Nat.max (2 * (length (u ++ ch_bar :: b ++ y) - length (ch_bar :: b ++ y)) + 1) (2 * (length (b ++ y) - length y) + 2)).
  exists (S F). rewrite parse_alt_S, Hc by (unfold F; lia).
  change (N.eqb ch_bar ch_bar) with true. cbv iota. rewrite H2 by (unfold F; lia). rewrite Nat.add_assoc. reflexivity.
Qed.

Lemma AtomOK_group b : AltOK b -> hd_error b <> Some ch_q -> AtomOK (ch_lparen :: b ++ [ch_rparen]).
Proof.
  intros Hb Hq. exists ch_lparen, (b ++ [ch_rparen]). split; [reflexivity|]. split; [reflexivity|]. split; [reflexivity|].
  intros gi. destruct (Hb (S gi)) as (r & d & H). exists (RGroup (Some gi) r), (S d). intros f y Hf.
  rewrite <- app_assoc. cbn [app].
  assert (Hp : parse_alt f (b ++ ch_rparen :: y) (S gi) = Some (r, ch_rparen :: y, S gi + d)).
  { specialize (H (ch_rparen :: y) (or_intror (ex_intro _ y eq_refl))). apply PAlt_fuel in H. destruct H as [_ H].
    apply H. cbn [length] in Hf. rewrite app_length in Hf. rewrite app_length. cbn [length] in *. lia. }
  assert (Hfin : match parse_alt f (b ++ ch_rparen :: y) (S gi) with
                 | Some (r0, rp :: rest, gi') => if N.eqb rp ch_rparen then Some (RGroup (Some gi) r0, rest, gi') else None
                 | _ => None
                 end = Some (RGroup (Some gi) r, y, gi + S d)).
  { rewrite Hp. change (N.eqb ch_rparen ch_rparen) with true. cbv iota. f_equal. f_equal. lia. }
  unfold atom_of. change (N.eqb ch_lparen ch_lparen) with true. cbv iota.
  destruct b as [|q [|k b2]]; cbn [app] in *.
  - destruct y as [|k y2]; [exact Hfin|]. change (N.eqb ch_rparen ch_q) with false. cbn [andb]. exact Hfin.
  - assert (Eq : N.eqb q ch_q = false).
    { destruct (N.eqb q ch_q) eqn:E; [|reflexivity]. apply N.eqb_eq in E. subst q. exfalso. apply Hq. reflexivity. }
    rewrite Eq. cbn [andb]. exact Hfin.
  - assert (Eq : N.eqb q ch_q = false).
    { destruct (N.eqb q ch_q) eqn:E; [|reflexivity]. apply N.eqb_eq in E. subst q. exfalso. apply Hq. reflexivity. }
    rewrite Eq. cbn [andb]. exact Hfin.
Qed.

Lemma AtomOK_ncgroup b : AltOK b -> AtomOK (ch_lparen :: ch_q :: ch_colon :: b ++ [ch_rparen]).
Proof.
  intros Hb. exists ch_lparen, (ch_q :: ch_colon :: b ++ [ch_rparen]). split; [reflexivity|]. split; [reflexivity|]. split; [reflexivity|].
  intros gi. destruct (Hb gi) as (r & d & H). exists (RGroup None r), d. intros f y Hf.
  cbn [app]. rewrite <- app_assoc. cbn [app].
  assert (Hp : parse_alt f (b ++ ch_rparen :: y) gi = Some (r, ch_rparen :: y, gi + d)).
  { specialize (H (ch_rparen :: y) (or_intror (ex_intro _ y eq_refl))). apply PAlt_fuel in H. destruct H as [_ H].
    apply H. cbn [length] in Hf. rewrite app_length in Hf. rewrite app_length. cbn [length] in *. lia. }
  unfold atom_of. change (N.eqb ch_lparen ch_lparen) with true. cbv iota.
  change (N.eqb ch_q ch_q && N.eqb ch_colon ch_colon) with true. cbv iota.
  rewrite Hp. change (N.eqb ch_rparen ch_rparen) with true. reflexivity.
Qed.

(* a body accepted by AltOK gives a token that parses in isolation, whatever the group counter *)
Lemma AltOK_tok b : AltOK b -> hd_error b <> Some ch_q -> forall gi, exists a g, tok_atom gi (TGrp b) = Some (a, g).
Proof.
  intros Hb Hq gi. destruct (AtomOK_group b Hb Hq) as (c & u' & Hu & _ & _ & Ha). inversion Hu; subst c u'.
  destruct (Ha gi) as (a & d & Hat). exists a, (gi + d). cbn [tok_atom].
  specialize (Hat (tok_fuel b) []). rewrite app_nil_r in Hat.
  assert (E : atom_of (parse_alt (tok_fuel b)) (parse_class (tok_fuel b)) ch_lparen (b ++ [ch_rparen]) gi = Some (a, [], gi + d)).
  { apply Hat. unfold tok_fuel. cbn [length]. rewrite app_length. cbn [length]. lia. }
  match goal with |- context [match ?X with _ => _ end] => replace X with (Some (a, @nil N, gi + d)) by (symmetry; exact E) end.
  reflexivity.
Qed.

(* ================================================================== Part 2: concrete atoms and quantifiers *)
(* characters that are literal atoms for the parser (this includes '-', ']', '}', '#', '&', '~') *)
Definition plainc (c : N) : bool := negb (existsb (N.eqb c) [40; 41; 91; 46; 94; 36; 92; 42; 43; 63; 123; 124]%N).
Lemma plainc_eqbs c : plainc c = true ->
  N.eqb c 40 = false /\ N.eqb c 41 = false /\ N.eqb c 91 = false /\ N.eqb c 46 = false /\ N.eqb c 94 = false /\
  N.eqb c 36 = false /\ N.eqb c 92 = false /\ N.eqb c 42 = false /\ N.eqb c 43 = false /\ N.eqb c 63 = false /\
  N.eqb c 123 = false /\ N.eqb c 124 = false.
Proof.
  unfold plainc. intros H. apply negb_true_iff in H. cbn [existsb] in H.
  repeat (apply orb_false_iff in H; destruct H as [? H]). repeat split; assumption.
Qed.
Lemma nonmeta_plainc c : is_meta c = false -> plainc c = true.
Proof.
  intros H. destruct (nonmeta_eqbs c H) as (E92 & E46 & E43 & E42 & E63 & E40 & E41 & E124 & E91 & E93 & E123 & E125 & E94 & E36).
  unfold plainc. cbn [existsb]. rewrite E40, E41, E91, E46, E94, E36, E92, E42, E43, E63, E123, E124. reflexivity.
Qed.

Lemma AtomOK_lit c : plainc c = true -> AtomOK [c].
Proof.
  intros Hm. exists c, []. split; [reflexivity|].
  destruct (plainc_eqbs c Hm) as (E40 & E41 & E91 & E46 & E94 & E36 & E92 & E42 & E43 & E63 & E123 & E124).
  split; [unfold ch_bar, ch_rparen; rewrite E124, E41; reflexivity|].
  split; [unfold quant_one, ch_star, ch_plus, ch_q, ch_lbrace; rewrite E42, E43, E63, E123; reflexivity|].
  intros gi. exists (RChar c), 0. intros f y _. cbn [app]. rewrite Nat.add_0_r.
  unfold atom_of, ch_lparen, ch_lbrack, ch_dot, ch_caret, ch_dollar, ch_bs, ch_star, ch_plus, ch_q, ch_lbrace.
  rewrite E40, E91, E46, E94, E36, E92, E42, E43, E63, E123. reflexivity.
Qed.

Definition esc_ok (c : N) : bool := is_meta c || existsb (N.eqb c) [100; 68; 119; 87; 115; 83]%N.
Lemma esc_ok_spec c : esc_ok c = true -> exists it, forall y, parse_escape (c :: y) = Some (it, y).
Proof.
  unfold esc_ok. intros H. apply orb_prop in H. destruct H as [H|H].
  - exists (CChar c). intros y. apply escape_meta. exact H.
  - cbn [existsb] in H.
    repeat (apply orb_prop in H; destruct H as [H|H]; [apply N.eqb_eq in H; subst c; eexists; intros y; reflexivity|]).
    discriminate.
Qed.
Lemma AtomOK_esc c : esc_ok c = true -> AtomOK [ch_bs; c].
Proof.
  intros He. exists ch_bs, [c]. split; [reflexivity|]. split; [reflexivity|]. split; [reflexivity|].
  destruct (esc_ok_spec c He) as [it Hit]. intros gi.
  exists (match it with CChar x => RChar x | _ => RClass false [it] end), 0. intros f y _. cbn [app].
  rewrite atom_of_bs, Hit, Nat.add_0_r. destruct it; reflexivity.
Qed.

Lemma AtomOK_dot : AtomOK [ch_dot].
Proof.
  exists ch_dot, []. split; [reflexivity|]. split; [reflexivity|]. split; [reflexivity|].
  intros gi. exists RAny, 0. intros f y _. rewrite Nat.add_0_r. reflexivity.
Qed.

(* a class body [u] (everything after '[' or '[^', closing bracket included), checked by running the parser *)
Definition class_ok (u : list N) : bool :=
  match parse_class (length u) u [] true with Some (_, []) => true | _ => false end.

Lemma class_ok_spec u : class_ok u = true ->
  exists items, forall f y, length u <= f -> parse_class f (u ++ y) [] true = Some (items, y).
Proof.
  unfold class_ok. destruct (parse_class (length u) u [] true) as [[items [|z r]]|] eqn:E; try discriminate. intros _.
  exists items. intros f y Hf. destruct (parse_class_ext _ _ _ _ _ _ E) as [_ Hx]. apply (Hx f y). cbn [length]. lia.
Qed.

Lemma AtomOK_class u : class_ok u = true -> hd_error u <> Some ch_caret -> AtomOK (ch_lbrack :: u).
Proof.
  intros Hc Hh. exists ch_lbrack, u. split; [reflexivity|]. split; [reflexivity|]. split; [reflexivity|].
  destruct (class_ok_spec u Hc) as [items Hi]. intros gi. exists (RClass false items), 0. intros f y Hf.
  rewrite Nat.add_0_r. unfold atom_of. change (N.eqb ch_lbrack ch_lparen) with false. change (N.eqb ch_lbrack ch_lbrack) with true. cbv iota.
  destruct u as [|n u2]; [discriminate|]. cbn [app].
  assert (En : N.eqb n ch_caret = false).
  { destruct (N.eqb n ch_caret) eqn:E; [|reflexivity]. apply N.eqb_eq in E. subst n. exfalso. apply Hh. reflexivity. }
  rewrite En. change (n :: u2 ++ y) with ((n :: u2) ++ y). rewrite Hi; [reflexivity|cbn [length] in *; lia].
Qed.

Lemma AtomOK_nclass u : class_ok u = true -> AtomOK (ch_lbrack :: ch_caret :: u).
Proof.
  intros Hc. exists ch_lbrack, (ch_caret :: u). split; [reflexivity|]. split; [reflexivity|]. split; [reflexivity|].
  destruct (class_ok_spec u Hc) as [items Hi]. intros gi. exists (RClass true items), 0. intros f y Hf.
  rewrite Nat.add_0_r. unfold atom_of. change (N.eqb ch_lbrack ch_lparen) with false. change (N.eqb ch_lbrack ch_lbrack) with true. cbv iota.
  cbn [app]. change (N.eqb ch_caret ch_caret) with true. cbv iota. rewrite Hi; [reflexivity|cbn [length] in *; lia].
Qed.

(* ---- quantifiers ---- *)
Definition lazy_tail (lz : bool) : list N := if lz then [ch_q] else [].

Lemma noquant_not_q c y : noquant (c :: y) -> N.eqb c ch_q = false.
Proof.
  cbn [noquant]. unfold quant_one. destruct (N.eqb c ch_star); [discriminate|]. destruct (N.eqb c ch_plus); [discriminate|].
  destruct (N.eqb c ch_q); [discriminate|reflexivity].
Qed.

Lemma wrap_tail g lz y : noquant y -> wrap_quant g (lazy_tail lz ++ y) = (g (negb lz), y).
Proof.
  intros Hy. destruct lz; cbn [lazy_tail app negb]; [reflexivity|].
  destruct y as [|c y]; [reflexivity|]. cbn [wrap_quant]. rewrite (noquant_not_q c y Hy). reflexivity.
Qed.

Lemma QuantOK_nil : QuantOK [].
Proof. intros a. exists a. intros f y Hf Hy. apply parse_quants_noquant; [exact Hy|cbn [length] in Hf; lia]. Qed.

Lemma QuantOK_of c (w0 : list N) (G : rx -> bool -> rx) lz :
  (forall a z, quant_one a c (w0 ++ z) = Some (Some (wrap_quant (G a) z))) -> QuantOK (c :: w0 ++ lazy_tail lz).
Proof.
  intros H a. exists (G a (negb lz)). intros f y Hf Hy. destruct f as [|f]; [lia|].
  cbn [app]. rewrite <- app_assoc. rewrite parse_quants_S, H, wrap_tail by exact Hy.
  apply parse_quants_noquant; [exact Hy|]. cbn [length] in Hf. lia.
Qed.

Lemma QuantOK_star lz : QuantOK (ch_star :: lazy_tail lz).
Proof. apply (QuantOK_of ch_star [] (fun a g => RStar g a) lz). intros a z. reflexivity. Qed.
Lemma QuantOK_plus lz : QuantOK (ch_plus :: lazy_tail lz).
Proof. apply (QuantOK_of ch_plus [] (fun a g => RPlus g a) lz). intros a z. reflexivity. Qed.
Lemma QuantOK_opt lz : QuantOK (ch_q :: lazy_tail lz).
Proof. apply (QuantOK_of ch_q [] (fun a g => ROpt g a) lz). intros a z. reflexivity. Qed.

Definition dacc (ds : list N) (acc : nat) : nat := fold_left (fun a c => a * 10 + N.to_nat (c - 48)) ds acc.
Definition digits (ds : list N) : Prop := forallb is_digit ds = true /\ ds <> [].

Lemma take_digits_run ds : forall acc seen z rest, forallb is_digit ds = true -> is_digit z = false ->
  (ds <> [] \/ seen = true) -> take_digits (ds ++ z :: rest) acc seen = Some (dacc ds acc, z :: rest).
Proof.
  induction ds as [|c ds IH]; intros acc seen z rest Hd Hz Hs; cbn [app take_digits].
  - rewrite Hz. destruct Hs as [Hs|Hs]; [contradiction|]. rewrite Hs. reflexivity.
  - cbn [forallb] in Hd. apply andb_prop in Hd. destruct Hd as [Hc Hd]. rewrite Hc.
    unfold dacc. cbn [fold_left]. apply IH; [exact Hd|exact Hz|right; reflexivity].
Qed.

Lemma digit_not c k : is_digit c = true -> is_digit k = false -> N.eqb c k = false.
Proof. intros Hc Hk. destruct (N.eqb c k) eqn:E; [|reflexivity]. apply N.eqb_eq in E. subst. rewrite Hc in Hk. discriminate. Qed.

Lemma QuantOK_exact ds lz : digits ds -> QuantOK (ch_lbrace :: (ds ++ [ch_rbrace]) ++ lazy_tail lz).
Proof.
  intros [Hd Hne]. apply (QuantOK_of ch_lbrace (ds ++ [ch_rbrace]) (fun a g => RRep g (dacc ds 0) (Some (dacc ds 0)) a) lz).
  intros a z. unfold quant_one.
  change (N.eqb ch_lbrace ch_star) with false. change (N.eqb ch_lbrace ch_plus) with false.
  change (N.eqb ch_lbrace ch_q) with false. change (N.eqb ch_lbrace ch_lbrace) with true. cbv iota.
  rewrite <- app_assoc. cbn [app]. rewrite (take_digits_run ds 0 false ch_rbrace z Hd eq_refl (or_introl Hne)).
  change (N.eqb ch_rbrace ch_rbrace) with true. reflexivity.
Qed.

Lemma QuantOK_min ds lz : digits ds -> QuantOK (ch_lbrace :: (ds ++ [ch_comma; ch_rbrace]) ++ lazy_tail lz).
Proof.
  intros [Hd Hne]. apply (QuantOK_of ch_lbrace (ds ++ [ch_comma; ch_rbrace]) (fun a g => RRep g (dacc ds 0) None a) lz).
  intros a z. unfold quant_one.
  change (N.eqb ch_lbrace ch_star) with false. change (N.eqb ch_lbrace ch_plus) with false.
  change (N.eqb ch_lbrace ch_q) with false. change (N.eqb ch_lbrace ch_lbrace) with true. cbv iota.
  rewrite <- app_assoc. cbn [app]. rewrite (take_digits_run ds 0 false ch_comma (ch_rbrace :: z) Hd eq_refl (or_introl Hne)).
  change (N.eqb ch_comma ch_rbrace) with false. change (N.eqb ch_comma ch_comma) with true.
  change (N.eqb ch_rbrace ch_rbrace) with true. reflexivity.
Qed.

Lemma QuantOK_range ds1 ds2 lz : digits ds1 -> digits ds2 -> Nat.leb (dacc ds1 0) (dacc ds2 0) = true ->
  QuantOK (ch_lbrace :: (ds1 ++ ch_comma :: ds2 ++ [ch_rbrace]) ++ lazy_tail lz).
Proof.
  intros [Hd1 Hne1] [Hd2 Hne2] Hle.
  apply (QuantOK_of ch_lbrace (ds1 ++ ch_comma :: ds2 ++ [ch_rbrace]) (fun a g => RRep g (dacc ds1 0) (Some (dacc ds2 0)) a) lz).
  intros a z. unfold quant_one.
  change (N.eqb ch_lbrace ch_star) with false. change (N.eqb ch_lbrace ch_plus) with false.
  change (N.eqb ch_lbrace ch_q) with false. change (N.eqb ch_lbrace ch_lbrace) with true. cbv iota.
  rewrite <- app_assoc. cbn [app]. rewrite <- app_assoc. cbn [app].
  rewrite (take_digits_run ds1 0 false ch_comma (ds2 ++ ch_rbrace :: z) Hd1 eq_refl (or_introl Hne1)).
  change (N.eqb ch_comma ch_rbrace) with false. change (N.eqb ch_comma ch_comma) with true. cbv iota.
  destruct ds2 as [|e ds2]; [contradiction|]. cbn [app].
  assert (He : N.eqb e ch_rbrace = false).
  { cbn [forallb] in Hd2. apply andb_prop in Hd2. apply digit_not; [exact (proj1 Hd2)|reflexivity]. }
  rewrite He. change (e :: ds2 ++ ch_rbrace :: z) with ((e :: ds2) ++ ch_rbrace :: z).
  rewrite (take_digits_run (e :: ds2) 0 false ch_rbrace z Hd2 eq_refl (or_introl Hne2)).
  change (N.eqb ch_rbrace ch_rbrace) with true. rewrite Hle. reflexivity.
Qed.

(* ================================================================== the grammar *)
Inductive gquant : list N -> Prop :=
| gq_none : gquant []
| gq_star lz : gquant (ch_star :: lazy_tail lz)
| gq_plus lz : gquant (ch_plus :: lazy_tail lz)
| gq_opt lz : gquant (ch_q :: lazy_tail lz)
| gq_exact ds lz : digits ds -> gquant (ch_lbrace :: (ds ++ [ch_rbrace]) ++ lazy_tail lz)
| gq_min ds lz : digits ds -> gquant (ch_lbrace :: (ds ++ [ch_comma; ch_rbrace]) ++ lazy_tail lz)
| gq_range ds1 ds2 lz : digits ds1 -> digits ds2 -> Nat.leb (dacc ds1 0) (dacc ds2 0) = true ->
    gquant (ch_lbrace :: (ds1 ++ ch_comma :: ds2 ++ [ch_rbrace]) ++ lazy_tail lz).

(* characters the scanner of prefix.rs ignores outside a class; characters that leave it inside a class *)
Definition nonparen (c : N) : bool := negb (N.eqb c 40) && negb (N.eqb c 41) && negb (N.eqb c 92) && negb (N.eqb c 91).
Definition cls_char (c : N) : bool := negb (N.eqb c 91) && negb (N.eqb c 92) && negb (N.eqb c 93).

Inductive gatom : list N -> Prop :=
| ga_lit c : plainc c = true -> gatom [c]
| ga_esc c : esc_ok c = true -> gatom [ch_bs; c]
| ga_dot : gatom [ch_dot]
| ga_class w : class_ok (w ++ [ch_rbrack]) = true -> forallb cls_char w = true -> w <> [] -> hd_error w <> Some ch_caret ->
    gatom (ch_lbrack :: w ++ [ch_rbrack])
| ga_nclass w : class_ok (w ++ [ch_rbrack]) = true -> forallb cls_char w = true -> w <> [] ->
    gatom (ch_lbrack :: ch_caret :: w ++ [ch_rbrack])
| ga_grp b : galt b -> hd_error b <> Some ch_q -> gatom (ch_lparen :: b ++ [ch_rparen])
| ga_ncgrp b : galt b -> gatom (ch_lparen :: ch_q :: ch_colon :: b ++ [ch_rparen])
with gseq : list N -> Prop :=
| gs_nil : gseq []
| gs_cons u w v : gatom u -> gquant w -> gseq v -> gseq ((u ++ w) ++ v)
with galt : list N -> Prop :=
| gl_seq u : gseq u -> galt u
| gl_bar u b : gseq u -> galt b -> galt (u ++ ch_bar :: b).

Scheme gatom_mind := Minimality for gatom Sort Prop
  with gseq_mind := Minimality for gseq Sort Prop
  with galt_mind := Minimality for galt Sort Prop.
Combined Scheme g_mutind from gatom_mind, gseq_mind, galt_mind.

Lemma gquant_ok w : gquant w -> QuantOK w.
Proof.
  intros H. destruct H.
  - apply QuantOK_nil. - apply QuantOK_star. - apply QuantOK_plus. - apply QuantOK_opt.
  - apply QuantOK_exact; assumption. - apply QuantOK_min; assumption. - apply QuantOK_range; assumption.
Qed.

Theorem grammar_parses :
  (forall u, gatom u -> AtomOK u) /\ (forall u, gseq u -> SeqOK u) /\ (forall b, galt b -> AltOK b).
Proof.
  apply g_mutind.
  - intros c H. apply AtomOK_lit. exact H.
  - intros c H. apply AtomOK_esc. exact H.
  - apply AtomOK_dot.
  - intros w H1 _ Hne H3. apply AtomOK_class; [exact H1|]. destruct w as [|c w]; [contradiction|exact H3].
  - intros w H1 _ _. apply AtomOK_nclass. exact H1.
  - intros b _ IH Hq. apply AtomOK_group; assumption.
  - intros b _ IH. apply AtomOK_ncgroup. exact IH.
  - apply SeqOK_nil.
  - intros u w v _ IHu Hw _ IHv. apply SeqOK_app; [|exact IHv]. apply SeqOK_atom; [exact IHu|apply gquant_ok; exact Hw].
  - intros u _ IH. apply AltOK_seq. exact IH.
  - intros u b _ IHu _ IHb. apply AltOK_bar; assumption.
Qed.

(* ================================================================== Part 3: the scanner of prefix.rs *)
(* [u] is transparent for the balance check, from any state outside classes and escapes *)
Definition bal (u : list N) : Prop :=
  forall st rest, esc st = false -> cl st = 0 -> cs st = 0 -> cr st = false -> (1 <= lvl st)%Z ->
    body_ok_from st (u ++ rest) = body_ok_from st rest.

Lemma bal_nil : bal []. Proof. intros st rest _ _ _ _ _. reflexivity. Qed.
Lemma bal_app u v : bal u -> bal v -> bal (u ++ v).
Proof. intros Hu Hv st rest He Hc Hs Hr Hl. rewrite <- app_assoc, Hu, Hv by assumption. reflexivity. Qed.

Lemma step_neutral st c : nonparen c = true -> esc st = false -> cl st = 0 -> sc_step st c = st.
Proof.
  unfold nonparen. intros H He Hc. apply andb_prop in H. destruct H as [H H4]. apply andb_prop in H. destruct H as [H H3].
  apply andb_prop in H. destruct H as [H1 H2]. apply negb_true_iff in H1, H2, H3, H4.
  unfold sc_step, LP, RP, BS, LB. rewrite H1, H2, H3, H4, He, Hc. cbn [andb Nat.ltb Nat.leb].
  destruct st as [e l k c0 r]. cbn [Prefix.esc Prefix.lvl Prefix.cl Prefix.cs Prefix.cr] in *. subst. reflexivity.
Qed.

Lemma bal_step st c rest : sc_step st c = st -> (1 <= lvl st)%Z ->
  body_ok_from st (c :: rest) = body_ok_from st rest.
Proof. intros E Hl. cbn [body_ok_from]. rewrite E. apply Z.leb_le in Hl. rewrite Hl. reflexivity. Qed.

Lemma bal_plain u : forallb nonparen u = true -> bal u.
Proof.
  induction u as [|c u IH]; intros H; [apply bal_nil|]. cbn [forallb] in H. apply andb_prop in H. destruct H as [Hc Hu].
  intros st rest He Hk Hs Hr Hl. cbn [app]. rewrite (bal_step st c _ (step_neutral st c Hc He Hk) Hl). apply IH; assumption.
Qed.

Lemma bal_esc c : bal [BS; c].
Proof.
  intros st rest He Hk Hs Hr Hl. cbn [app body_ok_from]. rewrite (step_bs st He Hk), step_escaped by (try reflexivity; exact Hk).
  cbn [Prefix.lvl]. apply Z.leb_le in Hl. rewrite Hl. cbn [andb].
  destruct st as [e l k c0 r]. cbn [Prefix.esc Prefix.lvl Prefix.cl Prefix.cs Prefix.cr] in *. subst. reflexivity.
Qed.

Definition S0 (l : Z) : sc := {| esc := false; lvl := l; cl := 0; cs := 0; cr := false |}.
Definition SC (l : Z) (st0 : nat) (r : bool) : sc := {| esc := false; lvl := l; cl := 1; cs := st0; cr := r |}.

Lemma bal_group b : bal b -> bal (LP :: b ++ [RP]).
Proof.
  intros Hb st rest He Hk Hs Hr Hl. destruct st as [e l k c0 r]. cbn [Prefix.esc Prefix.lvl Prefix.cl Prefix.cs Prefix.cr] in *. subst e k c0 r.
  cbn [app body_ok_from]. fold (S0 l).
  change (sc_step (S0 l) LP) with (S0 (l + 1)).
  cbn [Prefix.lvl S0]. assert (Hl1 : (1 <=? l + 1)%Z = true) by (apply Z.leb_le; lia). rewrite Hl1. cbn [andb].
  fold (S0 (l + 1)). rewrite <- app_assoc, Hb; [|reflexivity|reflexivity|reflexivity|reflexivity|cbn [Prefix.lvl S0]; lia]. cbn [app body_ok_from].
  assert (E2 : sc_step (S0 (l + 1)) RP = S0 l).
  { unfold sc_step, S0. cbn [Prefix.esc Prefix.lvl Prefix.cl Prefix.cs Prefix.cr Nat.ltb Nat.leb].
    change (RP =? LB)%N with false. change (RP =? LP)%N with false. change (RP =? RP)%N with true. change (RP =? BS)%N with false.
    cbn [andb negb]. f_equal. lia. }
  rewrite E2. cbn [Prefix.lvl S0]. apply Z.leb_le in Hl. rewrite Hl. reflexivity.
Qed.

(* a bracket class whose content has no '[' ']' '\': parentheses inside it are invisible to the scanner *)
Lemma step_in_class l r c : cls_char c = true -> exists r', sc_step (SC l 0 r) c = SC l 0 r'.
Proof.
  unfold cls_char. intros H. apply andb_prop in H. destruct H as [H H3]. apply andb_prop in H. destruct H as [H1 H2].
  apply negb_true_iff in H1, H2, H3. unfold sc_step, SC, LB, RB, BS, CARET. cbn [Prefix.esc Prefix.lvl Prefix.cl Prefix.cs Prefix.cr Nat.ltb Nat.leb negb].
  rewrite H1, H2, H3. cbn [andb]. destruct r; [exists false; reflexivity|].
  rewrite andb_false_r. eexists. reflexivity.
Qed.
Lemma step_class_first l c st0 : cls_char c = true -> (st0 = 1 \/ (st0 = 2 /\ N.eqb c 94 = false)) ->
  sc_step (SC l st0 false) c = SC l 0 false.
Proof.
  unfold cls_char. intros H Hs. apply andb_prop in H. destruct H as [H H3]. apply andb_prop in H. destruct H as [H1 H2].
  apply negb_true_iff in H1, H2, H3. unfold sc_step, SC, LB, RB, BS, CARET. cbn [Prefix.esc Prefix.lvl Prefix.cl Prefix.cs Prefix.cr Nat.ltb Nat.leb negb].
  rewrite H1, H2, H3. cbn [andb]. destruct Hs as [->|[-> E]]; [rewrite !andb_false_r; reflexivity|rewrite E, andb_false_r; reflexivity].
Qed.
Lemma step_class_close l r : sc_step (SC l 0 r) RB = S0 l.
Proof. destruct r; reflexivity. Qed.

Lemma class_tail w : forall l r rest, forallb cls_char w = true -> (1 <= l)%Z ->
  body_ok_from (SC l 0 r) (w ++ RB :: rest) = body_ok_from (S0 l) rest.
Proof.
  induction w as [|c w IH]; intros l r rest H Hl; cbn [app].
  - cbn [body_ok_from]. rewrite step_class_close. cbn [Prefix.lvl S0]. apply Z.leb_le in Hl. rewrite Hl. reflexivity.
  - cbn [forallb] in H. apply andb_prop in H. destruct H as [Hc Hw].
    destruct (step_in_class l r c Hc) as [r' E]. cbn [body_ok_from]. rewrite E. cbn [Prefix.lvl SC].
    apply Z.leb_le in Hl. rewrite Hl. cbn [andb]. apply Z.leb_le in Hl. apply IH; assumption.
Qed.

Lemma bal_class w : forallb cls_char w = true -> w <> [] -> hd_error w <> Some ch_caret -> bal (ch_lbrack :: w ++ [ch_rbrack]).
Proof.
  intros Hw Hne Hh st rest He Hk Hs Hr Hl. destruct st as [e l k c0 r]. cbn [Prefix.esc Prefix.lvl Prefix.cl Prefix.cs Prefix.cr] in *. subst e k c0 r.
  destruct w as [|c w]; [contradiction|]. cbn [forallb] in Hw. apply andb_prop in Hw. destruct Hw as [Hc Hw].
  assert (Ec : N.eqb c 94 = false).
  { destruct (N.eqb c 94) eqn:E; [|reflexivity]. apply N.eqb_eq in E. subst c. exfalso. apply Hh. reflexivity. }
  cbn [app body_ok_from]. fold (S0 l).
  change (sc_step (S0 l) ch_lbrack) with (SC l 2 false).
  rewrite (step_class_first l c 2 Hc (or_intror (conj eq_refl Ec))). cbn [Prefix.lvl SC].
  apply Z.leb_le in Hl. rewrite Hl. cbn [andb]. apply Z.leb_le in Hl.
  rewrite <- app_assoc. cbn [app]. fold (SC l 0 false). apply (class_tail w l false rest Hw Hl).
Qed.

Lemma bal_nclass w : forallb cls_char w = true -> w <> [] -> bal (ch_lbrack :: ch_caret :: w ++ [ch_rbrack]).
Proof.
  intros Hw Hne st rest He Hk Hs Hr Hl. destruct st as [e l k c0 r]. cbn [Prefix.esc Prefix.lvl Prefix.cl Prefix.cs Prefix.cr] in *. subst e k c0 r.
  destruct w as [|c w]; [contradiction|]. cbn [forallb] in Hw. apply andb_prop in Hw. destruct Hw as [Hc Hw].
  cbn [app body_ok_from]. fold (S0 l).
  change (sc_step (S0 l) ch_lbrack) with (SC l 2 false).
  change (sc_step (SC l 2 false) ch_caret) with (SC l 1 false).
  rewrite (step_class_first l c 1 Hc (or_introl eq_refl)). cbn [Prefix.lvl SC].
  apply Z.leb_le in Hl. rewrite Hl. cbn [andb]. apply Z.leb_le in Hl.
  rewrite <- app_assoc. cbn [app]. fold (SC l 0 false). apply (class_tail w l false rest Hw Hl).
Qed.

Lemma lazy_tail_plain lz : forallb nonparen (lazy_tail lz) = true. Proof. destruct lz; reflexivity. Qed.
Lemma digit_nonparen c : is_digit c = true -> nonparen c = true.
Proof.
  intros H. unfold nonparen.
  rewrite (digit_not c 40%N H eq_refl), (digit_not c 41%N H eq_refl), (digit_not c 92%N H eq_refl), (digit_not c 91%N H eq_refl). reflexivity.
Qed.
Lemma digits_plain ds : forallb is_digit ds = true -> forallb nonparen ds = true.
Proof.
  induction ds as [|c ds IH]; intros H; [reflexivity|]. cbn [forallb] in *. apply andb_prop in H. destruct H as [H1 H2].
  rewrite (digit_nonparen c H1), (IH H2). reflexivity.
Qed.

Lemma gquant_bal w : gquant w -> bal w.
Proof.
  intros H. apply bal_plain. destruct H as [|lz|lz|lz|ds lz [Hd _]|ds lz [Hd _]|ds1 ds2 lz [Hd1 _] [Hd2 _] _].
  - reflexivity.
  - cbn [forallb]. rewrite lazy_tail_plain. reflexivity.
  - cbn [forallb]. rewrite lazy_tail_plain. reflexivity.
  - cbn [forallb]. rewrite lazy_tail_plain. reflexivity.
  - cbn [forallb]. rewrite !forallb_app, (digits_plain ds Hd), lazy_tail_plain. reflexivity.
  - cbn [forallb]. rewrite !forallb_app, (digits_plain ds Hd), lazy_tail_plain. reflexivity.
  - cbn [forallb]. rewrite !forallb_app. cbn [forallb]. rewrite forallb_app, (digits_plain ds1 Hd1), (digits_plain ds2 Hd2), lazy_tail_plain. reflexivity.
Qed.

Lemma plainc_nonparen c : plainc c = true -> nonparen c = true.
Proof.
  intros H. destruct (plainc_eqbs c H) as (E40 & E41 & E91 & E46 & E94 & E36 & E92 & _).
  unfold nonparen. rewrite E40, E41, E92, E91. reflexivity.
Qed.

Theorem grammar_balanced :
  (forall u, gatom u -> bal u) /\ (forall u, gseq u -> bal u) /\ (forall b, galt b -> bal b).
Proof.
  apply g_mutind.
  - intros c H. apply bal_plain. cbn [forallb]. rewrite (plainc_nonparen c H). reflexivity.
  - intros c _. apply bal_esc.
  - apply bal_plain. reflexivity.
  - intros w _ H2 Hne Hh. apply bal_class; assumption.
  - intros w _ H2 Hne. apply bal_nclass; assumption.
  - intros b _ IH _. apply bal_group. exact IH.
  - intros b _ IH. change (ch_lparen :: ch_q :: ch_colon :: b ++ [ch_rparen]) with (LP :: ([ch_q; ch_colon] ++ b) ++ [RP]).
    apply bal_group. apply bal_app; [apply bal_plain; reflexivity|exact IH].
  - apply bal_nil.
  - intros u w v _ IHu Hw _ IHv. apply bal_app; [apply bal_app; [exact IHu|apply gquant_bal; exact Hw]|exact IHv].
  - intros u _ IH. exact IH.
  - intros u b _ IHu _ IHb. apply bal_app; [exact IHu|]. change (ch_bar :: b) with ([ch_bar] ++ b).
    apply bal_app; [apply bal_plain; reflexivity|exact IHb].
Qed.

(* ================================================================== the side condition for grammar tokens *)
Definition gtok (t : tok) : Prop := match t with TLit _ => True | TGrp b => galt b /\ hd_error b <> Some ch_q end.

Theorem gtok_ok t : gtok t -> tok_ok t = true /\ tok_parses t = true.
Proof.
  destruct t as [c|b]; [intros _; split; reflexivity|]. intros [Hg Hq]. split.
  - cbn [tok_ok]. assert (Hl : (1 <= lvl s1)%Z) by (cbn; lia).
    pose proof (proj2 (proj2 grammar_balanced) b Hg s1 [] eq_refl eq_refl eq_refl eq_refl Hl) as E. rewrite app_nil_r in E. exact E.
  - unfold tok_parses. destruct (AltOK_tok b (proj2 (proj2 grammar_parses) b Hg) Hq 1) as (a & g & ->). reflexivity.
Qed.

Theorem gtoks_ok ts : Forall gtok ts -> forallb tok_ok ts = true /\ forallb tok_parses ts = true.
Proof.
  induction 1 as [|t ts Ht _ [IH1 IH2]]; [split; reflexivity|]. destruct (gtok_ok t Ht) as [H1 H2].
  cbn [forallb]. rewrite H1, H2, IH1, IH2. split; reflexivity.
Qed.
