(* LazyRegex.v — src/regex.rs with the CACHED value made explicit, and the only state a cloned router shares mutably
   with its original: the capture regex of a MarkerString (src/marker/mod.rs: `regex_capture: Arc<RwLock<LazyRegex>>`,
   compiled in place by MarkerString::compile, which Router::cache reaches through Route::compile).  Everything else a
   clone holds is either deep-copied (matchers, trees: `#[derive(Clone)]`; a tree's LazyRegex is behind an Arc that
   `cache` REPLACES, never mutates) or immutable behind an Arc (routes).  So "deriving an updated router from a shared
   one never changes the answers of the existing one" (C02) reduces, on the Rust side, to ownership, and, for this
   one shared cell, to: what `regex()` / `is_match` answer does not depend on the compiled state, whoever compiled it.

   A compiled regex is represented by what it was built from: (pattern text, case flag); [valid] says whether
   RegexBuilder accepts the text.  The engine is a parameter, as everywhere. *)
Require Import RIO.Base.
Close Scope N_scope.

Section LazyRegex.
Variable eng : bool -> list N -> list N -> bool.       (* Regex::is_match of a regex built with this flag from this text *)
Variable valid : bool -> list N -> bool.               (* RegexBuilder::build succeeds *)

Record lazyrx := { lr_original : list N; lr_regex : list N; lr_ic : bool; lr_compiled : option (list N * bool) }.

Definition c_caret : N := 94%N. Definition c_dollar : N := 36%N. Definition c_dot : N := 46%N. Definition c_star : N := 42%N.

(* LazyRegex::new_node / new_leaf *)
Definition new_node (regex : list N) (ic : bool) : lazyrx :=
  {| lr_regex := if is_nil regex then [c_dot; c_star] else c_caret :: regex; lr_original := regex; lr_compiled := None; lr_ic := ic |}.
Definition new_leaf (regex : list N) (ic : bool) : lazyrx :=
  {| lr_regex := c_caret :: regex ++ [c_dollar]; lr_original := regex; lr_compiled := None; lr_ic := ic |}.

(* create_regex: RegexBuilder::new(self.regex).case_insensitive(self.ignore_case).build().ok() *)
Definition create_regex (r : lazyrx) : option (list N * bool) :=
  if valid (lr_ic r) (lr_regex r) then Some (lr_regex r, lr_ic r) else None.

(* regex(): the cached one, else a fresh one *)
Definition regex_of (r : lazyrx) : option (list N * bool) :=
  match lr_compiled r with Some c => Some c | None => create_regex r end.

Definition run (c : list N * bool) (s : list N) : bool := eng (snd c) (fst c) s.

(* is_match *)
Definition is_match (r : lazyrx) (s : list N) : bool :=
  match lr_compiled r with
  | Some c => run c s
  | None => if is_nil (lr_original r) then true else match create_regex r with None => false | Some c => run c s end
  end.

(* compile(): a copy whose cache is a freshly created regex *)
Definition compile (r : lazyrx) : lazyrx :=
  {| lr_regex := lr_regex r; lr_original := lr_original r; lr_compiled := create_regex r; lr_ic := lr_ic r |}.

(* the cache, when present, is what create_regex builds *)
Definition wf (r : lazyrx) : Prop := lr_compiled r = None \/ lr_compiled r = create_regex r.

Lemma wf_new_node re ic : wf (new_node re ic). Proof. left. reflexivity. Qed.
Lemma wf_new_leaf re ic : wf (new_leaf re ic). Proof. left. reflexivity. Qed.
Lemma create_regex_compile r : create_regex (compile r) = create_regex r. Proof. reflexivity. Qed.
Lemma wf_compile r : wf (compile r). Proof. right. reflexivity. Qed.

(* what regex() hands out does not depend on the compiled state *)
Theorem regex_of_wf r : wf r -> regex_of r = create_regex r.
Proof. unfold regex_of. intros [H|H]; rewrite H; [reflexivity|]. destruct (create_regex r); reflexivity. Qed.

Theorem compile_regex_transparent r : wf r -> regex_of (compile r) = regex_of r.
Proof. intros H. rewrite (regex_of_wf _ (wf_compile r)), (regex_of_wf _ H). apply create_regex_compile. Qed.

(* any number of compile calls, by whoever shares the cell *)
Fixpoint compile_n (n : nat) (r : lazyrx) : lazyrx := match n with O => r | S n' => compile (compile_n n' r) end.
Lemma wf_compile_n n r : wf r -> wf (compile_n n r).
Proof. destruct n; cbn; [tauto|intros _; apply wf_compile]. Qed.
Theorem shared_compile_invisible n r : wf r -> regex_of (compile_n n r) = regex_of r.
Proof.
  intros H. induction n as [|n IH]; [reflexivity|]. cbn [compile_n].
  rewrite (compile_regex_transparent _ (wf_compile_n n r H)). exact IH.
Qed.

(* is_match: transparent for a non-empty original whose regex builds; for the empty original of a node the cached
   regex is ".*", which must match everything (the engine premise engine_dotstar of the tree theorems) *)
Theorem compile_is_match_transparent r s : wf r -> lr_original r <> [] -> is_match (compile r) s = is_match r s.
Proof.
  intros H Hne. destruct r as [o re ic c]. unfold wf, is_match, compile, create_regex in *. cbn in *.
  destruct o as [|x o]; [contradiction|]. cbn.
  destruct H as [H|H]; subst c; destruct (valid ic re); reflexivity.
Qed.
End LazyRegex.
