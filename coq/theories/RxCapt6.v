(* RxCapt6.v — MarkerString::new builds, besides the matching regex (MarkerProofs.template_shape), a CAPTURE pattern with
   named groups.  Here: under the side conditions of template_shape, the capture component is the named rendering
   of the template.  The fold of ms_step tests `regex.contains("@name")` on the regex component while it rewrites both
   components; the invariant [SR] relates the two chunked strings so that the test is the same on both. *)
Require Import Coq.Strings.String.
Require Import RIO.Base RIO.Pct RIO.Url RIO.Prefix RIO.RegexSem RIO.Marker RIO.MarkerProofs.
Close Scope N_scope.
Open Scope nat_scope.

Definition wrap_named (mk : str * str) : str * str := (fst mk, grp_named (fst mk) (snd mk)).

(* two chunks that begin with the same marker name and go on with something that is not an identifier character *)
Definition SR (u u' : str) : Prop :=
  exists m t t', u = m ++ t /\ u' = m ++ t' /\ is_ident m = true /\ starts_non_ident t /\ starts_non_ident t'.

Lemma prefixb_name_stop n m t : is_ident n = true -> starts_non_ident t -> prefixb n (m ++ t) = prefixb n m.
Proof.
  intros Hn Ht. destruct (prefixb n m) eqn:E; [apply prefixb_app_l; exact E|].
  destruct (prefixb n (m ++ t)) eqn:E2; [|reflexivity]. rewrite (ident_prefix_stop n m t Hn Ht E2) in E. discriminate.
Qed.
Lemma SR_prefix n u u' : is_ident n = true -> SR u u' -> prefixb n u = prefixb n u'.
Proof. intros Hn (m & t & t' & -> & -> & _ & Ht & Ht'). rewrite !prefixb_name_stop by assumption. reflexivity. Qed.

Definition opens (x : str) : Prop := exists c w, x = c :: w /\ is_ident_char c = false.
Lemma non_ident_app t x : starts_non_ident t -> opens x -> starts_non_ident (t ++ x).
Proof. intros [->|(c & w & -> & Hc)] (c' & w' & -> & Hc'); right; [exists c', w'|exists c, (w ++ c' :: w')]; split; try reflexivity; assumption. Qed.
Lemma SR_absorb u u' x x' : SR u u' -> opens x -> opens x' -> SR (u ++ x) (u' ++ x').
Proof.
  intros (m & t & t' & -> & -> & Hm & Ht & Ht') Hx Hx'. exists m, (t ++ x), (t' ++ x'). rewrite <- !app_assoc.
  repeat split; try reflexivity; try assumption; apply non_ident_app; assumption.
Qed.
Lemma opens_app x y : opens x -> opens (x ++ y).
Proof. intros (c & w & -> & Hc). exists c, (w ++ y). split; [reflexivity|exact Hc]. Qed.

Lemma merge_SR n v v' : is_ident n = true -> opens v -> opens v' -> forall us us', Forall2 SR us us' ->
  forall cur cur', Forall2 SR (snd (merge n v cur us)) (snd (merge n v' cur' us'))
                   /\ (SR cur cur' -> SR (fst (merge n v cur us)) (fst (merge n v' cur' us'))).
Proof.
  intros Hn Hv Hv' us us' H. induction H as [|u u' us us' Hu _ IH]; intros cur cur'; [split; [constructor|exact (fun H => H)]|].
  cbn [merge]. rewrite <- (SR_prefix n u u' Hn Hu). destruct (prefixb n u).
  - destruct (IH (cur ++ v ++ skipn (length n) u) (cur' ++ v' ++ skipn (length n) u')) as [I1 I2]. split; [exact I1|].
    intros Hc. apply I2. apply SR_absorb; [exact Hc|apply opens_app; exact Hv|apply opens_app; exact Hv'].
  - destruct (IH u u') as [I1 I2]. destruct (merge n v u us) as [a r], (merge n v' u' us') as [a' r']. cbn [fst snd] in *.
    split; [constructor; [apply I2; exact Hu|exact I1]|exact (fun H => H)].
Qed.

Lemma merge_none n v : forall us cur, (forall u, In u us -> prefixb n u = false) -> merge n v cur us = (cur, us).
Proof.
  induction us as [|u us IH]; intros cur H; [reflexivity|]. cbn [merge]. rewrite (H u (or_introl eq_refl)).
  rewrite (IH u (fun x Hx => H x (or_intror Hx))). reflexivity.
Qed.

Lemma contains_chunk n u0 us u : In u us -> prefixb n u = true -> containsb (at_name n) (flat u0 us) = true.
Proof.
  intros Hin Hp. unfold flat. apply containsb_app_r. apply (containsb_flat_map _ at_chunk u us Hin).
  unfold at_chunk, at_name. cbn [containsb prefixb]. rewrite N.eqb_refl, Hp. reflexivity.
Qed.

Lemma opens_nc e : opens (grp_nc e). Proof. exists 40%N, (lit "?:" ++ e ++ lit ")"). split; reflexivity. Qed.
Lemma opens_named n e : opens (grp_named n e). Proof. exists 40%N, (lit "?P<" ++ n ++ lit ">" ++ e ++ lit ")"). split; reflexivity. Qed.
Lemma at_free_nc e : at_free e = true -> at_free (grp_nc e) = true.
Proof. intros H. unfold grp_nc. rewrite !at_free_app, H. reflexivity. Qed.
Lemma at_free_named n e : at_free n = true -> at_free e = true -> at_free (grp_named n e) = true.
Proof. intros Hn H. unfold grp_named. rewrite !at_free_app, Hn, H. reflexivity. Qed.

Lemma Forall2_In_r {A B} (R : A -> B -> Prop) l l' y : Forall2 R l l' -> In y l' -> exists x, In x l /\ R x y.
Proof.
  intros H. induction H as [|a b l l' Hab _ IH]; intros Hin; [destruct Hin|]. destruct Hin as [->|Hin]; [exists a; split; [left; reflexivity|exact Hab]|].
  destruct (IH Hin) as (x & Hx & Hr). exists x. split; [right; exact Hx|exact Hr].
Qed.

(* the capture component of the fold is a sequential replace with the named groups *)
Lemma fold_ms_step_capture l : forall regex capture names r0 rs c0 cs,
  regex = flat r0 rs -> capture = flat c0 cs -> at_free r0 = true -> all_at_free rs = true -> at_free c0 = true -> all_at_free cs = true ->
  Forall2 SR rs cs -> (forall mk, In mk l -> is_ident (fst mk) = true /\ at_free (snd mk) = true) ->
  snd (fst (fold_left ms_step l (regex, capture, names))) = sod_replace capture (map wrap_named l).
Proof.
  induction l as [|[n e] l IH]; intros regex capture names r0 rs c0 cs Er Ec Hr0 Hrs Hc0 Hcs Hsr Hl; [reflexivity|].
  destruct (Hl (n, e) (or_introl eq_refl)) as [Hn He]. cbn [fst snd] in Hn, He. pose proof (ident_at_free n Hn) as Hna.
  cbn [fold_left map]. unfold wrap_named at 1. cbn [fst snd]. rewrite sod_replace_cons.
  set (v := grp_nc e). set (v' := grp_named n e).
  assert (Hstep : exists names', ms_step (regex, capture, names) (n, e) = (repl (at_name n) v regex 0, repl (at_name n) v' capture 0, names')).
  { unfold ms_step. cbn [fst snd]. destruct (containsb (at_name n) regex) eqn:E.
    - exists (n :: names). rewrite !str_replace_at. reflexivity.
    - exists names. rewrite (repl_not_contains _ _ _ E). f_equal. f_equal.
      rewrite Ec, (repl_flat n v' c0 cs Hna Hc0 Hcs).
      assert (Hnone : forall u', In u' cs -> prefixb n u' = false).
      { intros u' Hu'. destruct (Forall2_In_r _ _ _ _ Hsr Hu') as (u & Hu & Huu). rewrite <- (SR_prefix n u u' Hn Huu).
        destruct (prefixb n u) eqn:Ep; [|reflexivity]. rewrite Er, (contains_chunk n r0 rs u Hu Ep) in E. discriminate. }
      rewrite (merge_none n v' cs c0 Hnone). reflexivity. }
  destruct Hstep as [names' ->].
  destruct (merge_at_free n v (at_free_nc e He) rs r0 Hr0 Hrs) as [Ha1 Ha2].
  destruct (merge_at_free n v' (at_free_named n e Hna He) cs c0 Hc0 Hcs) as [Hb1 Hb2].
  apply (IH _ _ names' (fst (merge n v r0 rs)) (snd (merge n v r0 rs)) (fst (merge n v' c0 cs)) (snd (merge n v' c0 cs))); try assumption.
  - rewrite Er. apply repl_flat; assumption.
  - rewrite Ec. apply repl_flat; assumption.
  - apply (merge_SR n v v' Hn (opens_nc e) (opens_named n e) rs cs Hsr r0 c0).
  - intros mk Hmk. apply Hl. right. exact Hmk.
Qed.

(* ------------------------------------------------------------------ the chunks of a template are related to themselves *)
Lemma chunks_SR names ps : all_ident names = true -> delimited names ps = true ->
  Forall2 SR (snd (chunks_of ps)) (snd (chunks_of ps)).
Proof.
  intros Hid. induction ps as [|[c|n] ps IH]; intros Hd; [constructor| |].
  - cbn [delimited] in Hd. apply andb_prop in Hd. destruct Hd as [_ Hd]. cbn [chunks_of snd]. apply IH. exact Hd.
  - pose proof (delimited_follow _ _ _ Hd) as [Hs _]. cbn [delimited] in Hd. apply andb_prop in Hd. destruct Hd as [Hd Hd2].
    apply andb_prop in Hd. destruct Hd as [Hm _]. apply mem_str_In in Hm. cbn [chunks_of snd]. constructor; [|apply IH; exact Hd2].
    exists n, (fst (chunks_of ps)), (fst (chunks_of ps)). repeat split; try assumption. apply (all_ident_In _ _ Hid Hm).
Qed.

(* ------------------------------------------------------------------ the named substitution on the chunk of a reference *)
Lemma csub_ref_named markers n u : NoDup (map fst markers) -> all_ident (map fst markers) = true -> In n (map fst markers) ->
  starts_non_ident u ->
  csub (map wrap_named (sort_desc name_len markers)) (n ++ u) = grp_named n (regex_of markers n) ++ u.
Proof.
  intros Hnd Hid Hin Hu.
  assert (map wrap_named (sort_desc name_len markers) = sort_desc name_len (map wrap_named markers)) as Es.
  { symmetry. apply sort_desc_map. intros a. reflexivity. }
  rewrite Es. apply in_map_iff in Hin. destruct Hin as ([n' e] & En & Hin). cbn [fst] in En. subst n'.
  assert (In (wrap_named (n, e)) (map wrap_named markers)) as Hin' by (apply in_map; exact Hin).
  unfold regex_of. rewrite (assoc_In_NoDup markers n e Hnd Hin).
  assert (map fst (map wrap_named markers) = map fst markers) as Ef by (rewrite map_map; reflexivity).
  unfold csub. destruct (find_ref (sort_desc name_len (map wrap_named markers)) (n ++ u)) as [nv|] eqn:E.
  - destruct (longest_pick _ _ _ E) as (Inv & Pnv & Mnv).
    specialize (Mnv (wrap_named (n, e)) Hin' (prefixb_app n u)). cbn [wrap_named fst] in Mnv.
    assert (is_ident (fst nv) = true) as Hi. { apply (all_ident_In _ _ Hid). rewrite <- Ef. apply in_map. exact Inv. }
    pose proof (ident_prefix_stop _ _ _ Hi Hu Pnv) as Pn. pose proof (prefixb_length _ _ Pn) as Ln.
    assert (fst nv = n) as En by (apply prefixb_same_length; [exact Pn|lia]).
    assert (nv = wrap_named (n, e)) as ->. { apply (NoDup_fst_eq (map wrap_named markers)); [rewrite Ef; exact Hnd|exact Inv|exact Hin'|exact En]. }
    cbn [wrap_named fst snd]. rewrite skipn_app, skipn_all, Nat.sub_diag. reflexivity.
  - pose proof (longest_pick_none _ _ E _ Hin') as C. cbn [wrap_named fst] in C. rewrite prefixb_app in C. discriminate.
Qed.

(* the named rendering: literals escaped as the model escapes them, references as named groups *)
Definition named_text (markers : list (str * str)) (p : piece) : str :=
  match p with PLit c => render1 (TLit c) | PRef n => grp_named n (regex_of markers n) end.
Definition render_named_model (markers : list (str * str)) (ps : list piece) : str := flat_map (named_text markers) ps.

Lemma chunks_render_named markers ps : NoDup (map fst markers) -> all_ident (map fst markers) = true -> delimited (map fst markers) ps = true ->
  fst (chunks_of ps) ++ flat_map (csub (map wrap_named (sort_desc name_len markers))) (snd (chunks_of ps))
  = render_named_model markers ps.
Proof.
  intros Hnd Hid. induction ps as [|p ps IH]; intros Hd; [reflexivity|]. destruct p as [c|n].
  - cbn [delimited] in Hd. apply andb_prop in Hd. destruct Hd as [_ Hd]. cbn [chunks_of fst snd]. unfold render_named_model. cbn [flat_map named_text].
    rewrite <- app_assoc. f_equal. apply IH. exact Hd.
  - pose proof (delimited_follow _ _ _ Hd) as [Hs _]. cbn [delimited] in Hd. apply andb_prop in Hd. destruct Hd as [Hd Hd2]. apply andb_prop in Hd. destruct Hd as [Hm _].
    apply mem_str_In in Hm. cbn [chunks_of fst snd flat_map app]. unfold render_named_model. cbn [flat_map named_text].
    rewrite (csub_ref_named markers n _ Hnd Hid Hm Hs). rewrite <- app_assoc. f_equal. apply IH. exact Hd2.
Qed.

(* ------------------------------------------------------------------ the capture pattern of MarkerString::new *)
Theorem template_capture_shape markers ps ic m : NoDup (map fst markers) -> template_ok markers ps = true ->
  marker_string_new (template_text ps) markers ic = Some m ->
  ms_capture m = render_named_model markers ps.
Proof.
  intros Hnd Hok Hm. unfold template_ok in Hok. apply andb_prop in Hok. destruct Hok as [Hok Hd]. apply andb_prop in Hok. destruct Hok as [Hid Hb].
  unfold marker_string_new in Hm.
  destruct (escape_chunks _ ps Hid Hd) as (E & H0 & Hus).
  assert (Hl : forall mk, In mk (sort_desc name_len markers) -> is_ident (fst mk) = true /\ at_free (snd mk) = true).
  { intros mk Hmk. apply sort_desc_In in Hmk. split; [apply (all_ident_In _ _ Hid); apply in_map; exact Hmk|].
    unfold marker_bodies_at_free, all_at_free in Hb. rewrite forallb_forall in Hb. apply Hb. apply in_map. exact Hmk. }
  pose proof (fold_ms_step_capture (sort_desc name_len markers) _ _ [] _ _ _ _ E E H0 Hus H0 Hus (chunks_SR _ ps Hid Hd) Hl) as Hf.
  destruct (fold_left ms_step (sort_desc name_len markers) (regex_escape (template_text ps), regex_escape (template_text ps), [])) as [[regex capture] names].
  cbn [fst snd] in Hf. destruct (is_nil names); [discriminate|]. injection Hm as <-. cbn [ms_capture]. rewrite Hf, E.
  rewrite (substitute_chunks (map fst markers)).
  - apply chunks_render_named; assumption.
  - unfold names_of. rewrite map_map. cbn [wrap_named fst]. intros z Hz. apply in_map_iff in Hz. destruct Hz as (mk & <- & Hz). apply in_map. apply sort_desc_In in Hz. exact Hz.
  - unfold names_of, all_at_free. rewrite map_map. cbn [wrap_named fst]. rewrite forallb_forall. intros z Hz. apply in_map_iff in Hz. destruct Hz as (mk & <- & Hz).
    apply ident_at_free. apply (proj1 (Hl mk Hz)).
  - unfold all_at_free. rewrite map_map. cbn [wrap_named snd]. rewrite forallb_forall. intros z Hz. apply in_map_iff in Hz. destruct Hz as (mk & <- & Hz).
    destruct (Hl mk Hz) as [H1 H2]. apply at_free_named; [apply ident_at_free; exact H1|exact H2].
  - exact H0.
  - exact Hus.
  - apply delimited_chunks_ok; assumption.
Qed.
