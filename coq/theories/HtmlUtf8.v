(* HtmlUtf8.v — on valid UTF-8 input (and filter values that are valid UTF-8) the HTML body-filter stage never
   takes its error path, and what it returns is valid UTF-8; hence the side condition of RIO.HtmlSplit
   (no stage ends in the error state) holds for every valid UTF-8 body: [body_chunk_invariance_utf8]. *)
Require Import RIO.Base RIO.TokMonad RIO.HtmlTok RIO.BodyText RIO.HtmlFilter RIO.ChainProofs RIO.BodyProofs.
Require Import RIO.TokLogic RIO.HtmlTokProofs RIO.TokShift RIO.HtmlSplit RIO.TokBound RIO.TokErr RIO.Utf8.
Close Scope N_scope.
Open Scope nat_scope.

Section Utf8Stage.
Variable lower : str -> str.
Variable sel : str -> str -> bool.
Hypothesis LO : lower_ok lower.
Let TF := tok_facts_wf0 lower LO.

Lemma is_tag_tagk tk : is_tag tk = is_tagk tk.
Proof. destruct tk; reflexivity. Qed.

Lemma end_fact_bnd d p : utf8_valid d = true -> gt_before d p \/ lt_at d p -> bnd d p.
Proof.
  intros Hd [(q & -> & Hq)|Hp].
  - apply (bnd_after d q GT Hd Hq). reflexivity.
  - apply (bnd_at d p LT Hd Hp). reflexivity.
Qed.
Lemma ascii_at_bnd d p : utf8_valid d = true -> ascii_at d p -> bnd d p.
Proof. intros Hd (c & Hc & Hlt). exact (bnd_at d p c Hd Hc Hlt). Qed.

(* one call of next on valid data, from a state at a character boundary, that did not observe EOF *)
Lemma next_valid d s r s1 : utf8_valid d = true -> wf0 d s -> bnd d (raw_end s) ->
  next lower d s = (r, s1) -> err s1 = false ->
  match r with
  | RErr => False
  | ROk tk => tk <> ErrorToken ->
      bnd d (raw_end s1) /\ utf8_valid (tk_raw d s1) = true
      /\ (is_tagk tk = true -> utf8_valid (sub d (data_start s1) (data_end s1)) = true)
  end.
Proof.
  intros Hd HW Hb En He1.
  destruct (next_spec lower d s r s1 LO HW En) as (Hwf & Hrs & Hd1 & Hd2 & _ & _).
  assert (G : good s1) by (repeat split; [exact He1|apply (wf_oof _ _ Hwf)|apply (wf_panic _ _ Hwf)]).
  pose proof (next_end lower d s r s1 En G) as HR. unfold next_res in HR.
  assert (HN : name_facts d s1 -> utf8_valid (sub d (data_start s1) (data_end s1)) = true).
  { intros [N1 N2]. apply sub_valid; [apply ascii_at_bnd; assumption|apply ascii_at_bnd; assumption|exact Hd1]. }
  destruct r as [tk|].
  - intros Hne. destruct (HR Hne) as [HE HNF]. pose proof (end_fact_bnd d _ Hd HE) as Hb1.
    split; [exact Hb1|]. split; [|intros Ht; apply HN, HNF, Ht].
    rewrite tk_raw_eq, Hrs. apply sub_valid; auto. rewrite <- Hrs. apply (wf_start _ _ Hwf).
  - destruct HR as [HNF Hinv]. rewrite (HN HNF) in Hinv. discriminate.
Qed.

Lemma tag_name_noerr d s : utf8_valid (sub d (data_start s) (data_end s)) = true -> fst (tag_name lower d s) <> RErr.
Proof.
  intros H. unfold tag_name. rewrite bind_get. destruct (data_start s <? data_end s); [|cbn; discriminate].
  destruct (token s); try (cbn; discriminate); rewrite bind_eq; rewrite slice_value; rewrite H; cbn; discriminate.
Qed.

Lemma step_valid d s : utf8_valid d = true -> tinv wf0 d s -> bnd d (raw_end s) ->
  match tok_step lower d s with
  | TErr => False
  | TEof s1 => utf8_valid (tk_raw d s1 ++ tk_buffered d s1) = true
  | TTok tk td s1 => utf8_valid td = true /\ bnd d (raw_end s1) /\ tok_name lower d s1 tk <> RErr
  end.
Proof.
  intros Hd Hs Hb. destruct (tok_step lower d s) as [|s1|tk td s1] eqn:Et.
  - (* an error is impossible *)
    destruct Hs as [HW He Hc]. unfold tok_step, tk_next in Et. destruct (next lower d s) as [[tk|] s1] eqn:En.
    + destruct (token_eqb tk ErrorToken || err s1) eqn:E0; [discriminate|]. apply orb_false_elim in E0. destruct E0 as [E0 E1].
      pose proof (next_valid d s _ s1 Hd HW Hb En E1) as HV. lazy beta iota in HV. destruct (HV (token_eqb_neq _ E0)) as (_ & Hr & _).
      unfold as_string in Et. rewrite Hr in Et. discriminate.
    + assert (E1 : err s1 = false). { replace s1 with (snd (next lower d s)) by (rewrite En; reflexivity). apply next_rerr. rewrite En. reflexivity. }
      exact (next_valid d s _ s1 Hd HW Hb En E1).
  - destruct (tok_step_eof lower wf0 TF d s s1 Hs Et) as (E1 & E2 & E3).
    rewrite tk_raw_eq, tk_buffered_eq, E1. rewrite (sub_skipn_gen sel) by exact E2. apply Hb.
  - destruct (tok_step_tok lower wf0 TF d s tk td s1 Hs Et) as (En & Hne & Etd & Ht1 & _).
    pose proof (next_valid d s _ s1 Hd (ti_W _ _ _ Hs) Hb En (ti_err _ _ _ Ht1)) as HV. lazy beta iota in HV.
    destruct (HV Hne) as (Hb1 & Hr & Hn). subst td. refine (conj Hr (conj Hb1 _)).
    unfold tok_name. rewrite is_tag_tagk. destruct (is_tagk tk) eqn:Ek; [|discriminate].
    unfold name_of, tk_tag_name. pose proof (tag_name_noerr d s1 (Hn eq_refl)) as H.
    destruct (fst (tag_name lower d s1)) as [[n b]|]; [discriminate|contradiction].
Qed.

Definition tok_valid (t : tokrec) : Prop := utf8_valid (t_td t) = true /\ t_nm t <> RErr.
Definition fin_valid (fin : tfin) : Prop :=
  match fin with FErr => False | FEof _ rest => utf8_valid rest = true | FFuel => True end.

Lemma toks_valid d : utf8_valid d = true -> forall g s L fin, tinv wf0 d s -> bnd d (raw_end s) ->
  toks lower g d s = (L, fin) -> Forall tok_valid L /\ fin_valid fin.
Proof.
  intros Hd. induction g as [|g IH]; intros s L fin Hs Hb H.
  - injection H as <- <-. split; [constructor|exact I].
  - cbn [toks] in H. pose proof (step_valid d s Hd Hs Hb) as HV.
    destruct (tok_step lower d s) as [|s1|tk td s1] eqn:Et; [contradiction| |].
    + injection H as <- <-. split; [constructor|exact HV].
    + destruct HV as (Htd & Hb1 & Hnm).
      destruct (tok_step_tok lower wf0 TF d s tk td s1 Hs Et) as (_ & _ & _ & _ & _ & _ & Ht3 & Hre3 & _).
      destruct (toks lower g d (after_tag lower d s1 tk)) as [L' fin'] eqn:E'. injection H as <- <-.
      rewrite <- Hre3 in Hb1. destruct (IH _ _ _ Ht3 Hb1 E') as [H1 H2]. split; [|exact H2].
      constructor; [|exact H1]. split; assumption.
Qed.

(* ---------------------------------------------------------------- the visitors' own tokenizer loops *)
Lemma next_err_in d s : err s = true -> fst (next lower d s) = ROk ErrorToken.
Proof. intros E. unfold next. rewrite !bind_upd, bind_get. cbn [err set_data_end set_data_start set_raw_start]. rewrite E. reflexivity. Qed.

Inductive next_case (d : list N) (s : st) : Prop :=
| NCerror s1 : next lower d s = (ROk ErrorToken, s1) -> next_case d s
| NCgood tk s1 : next lower d s = (ROk tk, s1) -> tk <> ErrorToken -> tinv wf0 d s1 -> bnd d (raw_end s1) ->
    utf8_valid (tk_raw d s1) = true -> utf8_valid (tk_buffered d s1) = true ->
    (is_tagk tk = true ->
       exists n b s2, tag_name lower d s1 = (ROk (n, b), s2) /\ tinv wf0 d s2 /\ raw_end s2 = raw_end s1 /\ raw_start s2 = raw_start s1) ->
    next_case d s
| NCeof tk s1 : next lower d s = (ROk tk, s1) -> tk <> ErrorToken -> err s1 = true -> is_tagk tk = false ->
    utf8_valid (tk_raw d s1) = true -> next_case d s.

Lemma next_case_holds d s : utf8_valid d = true -> tinv wf0 d s -> bnd d (raw_end s) -> next_case d s.
Proof.
  intros Hd [HW He Hc] Hb. destruct (next lower d s) as [r s1] eqn:En.
  destruct (next_spec lower d s r s1 LO HW En) as (Hwf & Hrs & Hd1 & Hd2 & _ & _).
  assert (Es : s1 = snd (next lower d s)) by (rewrite En; reflexivity).
  assert (Ef : fst (next lower d s) = r) by (rewrite En; reflexivity).
  destruct (err s1) eqn:E1.
  - (* EOF observed *)
    destruct r as [tk|]; [|exfalso; rewrite Es in E1; rewrite next_rerr in E1; [discriminate|exact Ef]].
    destruct (token_eqb tk ErrorToken) eqn:Et; [destruct tk; try discriminate; eapply NCerror; exact En|].
    assert (Hk : is_tagk tk = false).
    { destruct (is_tagk tk) eqn:Ek; [|reflexivity]. rewrite Es in E1. rewrite (next_tag_err lower d s tk Ef Ek) in E1. discriminate. }
    eapply (NCeof d s tk s1 En (token_eqb_neq _ Et) E1 Hk).
    pose proof (next_err_pos lower d s He) as Hp. rewrite <- Es in Hp. specialize (Hp E1).
    rewrite tk_raw_eq. unfold sub. rewrite Hrs. rewrite firstn_all2; [apply Hb|]. rewrite skipn_length. lia.
  - pose proof (next_valid d s r s1 Hd HW Hb En E1) as HV. destruct r as [tk|]; [|contradiction].
    destruct (token_eqb tk ErrorToken) eqn:Et; [destruct tk; try discriminate; eapply NCerror; exact En|].
    destruct (HV (token_eqb_neq _ Et)) as (Hb1 & Hr & Hn).
    assert (Ht1 : tinv wf0 d s1).
    { constructor; [apply wf0_of; exact Hwf|exact E1|]. rewrite Es. rewrite (ext_cd _ _ (next_ext lower d s)). exact Hc. }
    eapply (NCgood d s tk s1 En (token_eqb_neq _ Et) Ht1 Hb1 Hr).
    + rewrite tk_buffered_eq. apply Hb1.
    + intros Hk. pose proof (tag_name_noerr d s1 (Hn Hk)) as Hne.
      destruct (tag_name lower d s1) as [[[n b]|] s2] eqn:Etn; [|cbn in Hne; contradiction].
      exists n, b, s2. split; [reflexivity|].
      destruct (tag_name_frame lower d s1) as (F1 & F2 & F3 & F4 & F5). rewrite Etn in *. cbn [snd] in *.
      repeat apply conj; auto. constructor.
      * pose proof (W_tag_name _ _ TF d s tk HW He Ef) as X. rewrite <- Es in X. rewrite Etn in X. exact X.
      * congruence.
      * rewrite F5. apply Ht1.
Qed.

Lemma token_eqb_refl_false tk tk' : tk <> tk' -> token_eqb tk tk' = false.
Proof. intros H. destruct tk, tk'; try reflexivity; contradiction H; reflexivity. Qed.

Lemma as_string_valid b : utf8_valid b = true -> as_string b = ROk b.
Proof. intros H. unfold as_string. rewrite H. reflexivity. Qed.

Lemma append_child_loop_valid content child : utf8_valid content = true -> utf8_valid child = true ->
  forall fuel s output level, tinv wf0 content s -> bnd content (raw_end s) -> utf8_valid output = true ->
  exists r, append_child_loop lower fuel content child s output level = ROk r /\ utf8_valid r = true.
Proof.
  intros Hc Hch. induction fuel as [|f IH]; intros s output level Hs Hb Ho; cbn [append_child_loop]; [eauto|].
  unfold tk_next. destruct (next_case_holds content s Hc Hs Hb) as [s1 En|tk s1 En Hne Ht1 Hb1 Hr Hbf Hn|tk s1 En Hne E1 Hk Hr]; rewrite En.
  - cbn [token_eqb]. eauto.
  - rewrite (token_eqb_refl_false _ _ Hne).
    destruct (token_eqb tk StartTagToken) eqn:Est.
    + destruct tk; try discriminate. destruct (Hn eq_refl) as (n & b & s2 & Etn & Ht2 & R1 & R2).
      unfold tk_tag_name. rewrite Etn. cbn [token_eqb andb].
      assert (Er : tk_raw content s2 = tk_raw content s1) by (rewrite !tk_raw_eq; congruence).
      rewrite Er, (as_string_valid _ Hr). apply IH; auto; [rewrite R1; exact Hb1|apply utf8_valid_app; assumption].
    + destruct (token_eqb tk EndTagToken && Z.eqb (if token_eqb tk EndTagToken then (level - 1)%Z else level) 0).
      * rewrite (as_string_valid _ Hr), (as_string_valid _ Hbf). eexists; split; [reflexivity|].
        repeat apply utf8_valid_app; assumption.
      * rewrite (as_string_valid _ Hr). apply IH; auto. apply utf8_valid_app; assumption.
  - rewrite (token_eqb_refl_false _ _ Hne).
    assert (Est : token_eqb tk StartTagToken = false) by (destruct tk; try reflexivity; discriminate).
    assert (Een : token_eqb tk EndTagToken = false) by (destruct tk; try reflexivity; discriminate).
    rewrite Est, Een. cbn [andb]. rewrite (as_string_valid _ Hr).
    (* the next call returns the error token at once *)
    destruct f as [|f]; cbn [append_child_loop]; [eauto|].
    unfold tk_next. pose proof (next_err_in content s1 E1) as Hn. destruct (next lower content s1) as [r2 s2]. cbn in Hn. subst r2.
    cbn [token_eqb]. eauto.
Qed.

Lemma new_bnd d : utf8_valid d = true -> tinv wf0 d (new lower) /\ bnd d (raw_end (new lower)).
Proof.
  intros H. split; [apply (tinv_new lower wf0 TF)|]. unfold new. rewrite new_fragment_raw_end. apply bnd_0. exact H.
Qed.

Lemma append_child_valid content child : utf8_valid content = true -> utf8_valid child = true ->
  exists r, append_child lower content child = ROk r /\ utf8_valid r = true.
Proof.
  intros Hc Hch. unfold append_child. destruct (new_bnd content Hc) as [H1 H2]. apply append_child_loop_valid; auto.
Qed.

Lemma prepend_child_loop_valid content child : utf8_valid content = true -> utf8_valid child = true ->
  forall fuel s output, tinv wf0 content s -> bnd content (raw_end s) -> utf8_valid output = true ->
  exists r, prepend_child_loop lower fuel content child s output = ROk r /\ utf8_valid r = true.
Proof.
  intros Hc Hch. induction fuel as [|f IH]; intros s output Hs Hb Ho; cbn [prepend_child_loop]; [eauto|].
  unfold tk_next. destruct (next_case_holds content s Hc Hs Hb) as [s1 En|tk s1 En Hne Ht1 Hb1 Hr Hbf Hn|tk s1 En Hne E1 Hk Hr]; rewrite En.
  - cbn [token_eqb]. eauto.
  - rewrite (token_eqb_refl_false _ _ Hne). destruct (token_eqb tk StartTagToken).
    + rewrite (as_string_valid _ Hr), (as_string_valid _ Hbf). eexists; split; [reflexivity|].
      repeat apply utf8_valid_app; assumption.
    + rewrite (as_string_valid _ Hr). apply IH; auto. apply utf8_valid_app; assumption.
  - rewrite (token_eqb_refl_false _ _ Hne).
    assert (Est : token_eqb tk StartTagToken = false) by (destruct tk; try reflexivity; discriminate).
    rewrite Est. rewrite (as_string_valid _ Hr).
    destruct f as [|f]; cbn [prepend_child_loop]; [eauto|].
    unfold tk_next. pose proof (next_err_in content s1 E1) as Hn. destruct (next lower content s1) as [r2 s2]. cbn in Hn. subst r2.
    cbn [token_eqb]. eauto.
Qed.

Lemma prepend_child_valid content child : utf8_valid content = true -> utf8_valid child = true ->
  exists r, prepend_child lower content child = ROk r /\ utf8_valid r = true.
Proof.
  intros Hc Hch. unfold prepend_child. destruct (new_bnd content Hc) as [H1 H2]. apply prepend_child_loop_valid; auto.
Qed.

(* ---------------------------------------------------------------- the visitors and the handlers *)
Definition vF (F : hfb) : Prop :=
  utf8_valid (v_content (f_visitor F)) = true /\ Forall (fun tb : str * str => utf8_valid (snd tb) = true) (f_buffers F).

Lemma tree_at_content v : v_content (fst (tree_at v)) = v_content v.
Proof. unfold tree_at. destruct (nth_error (v_tree v) (v_pos v)); reflexivity. Qed.

Lemma v_enter_valid v data : utf8_valid (v_content v) = true -> utf8_valid data = true ->
  let '(v', ne, nl, sb, nb) := v_enter v data in v_content v' = v_content v /\ utf8_valid nb = true.
Proof.
  intros Hc Hd. unfold v_enter.
  pose proof (tree_at_content v) as H0. destruct (tree_at v) as [v0 cur]. cbn [fst] in H0.
  destruct (v_pos v0 + 1 <? length (v_tree v0)).
  - pose proof (tree_at_content (with_pos (S (v_pos v0)) v0)) as H1. destruct (tree_at (with_pos (S (v_pos v0)) v0)) as [v2 nxt].
    cbn [fst] in H1. split; [rewrite H1; exact H0|exact Hd].
  - destruct (v_kind v0).
    + split; assumption.
    + destruct (has_selector v0); cbn; split; auto. apply utf8_valid_app; [exact Hd|rewrite H0; exact Hc].
    + cbn. split; assumption.
Qed.

Lemma v_leave_valid v data : utf8_valid (v_content v) = true -> utf8_valid data = true ->
  exists v' ne nl nb, v_leave lower sel v data = ROk (v', ne, nl, nb) /\ v_content v' = v_content v /\ utf8_valid nb = true.
Proof.
  intros Hc Hd. unfold v_leave.
  pose proof (tree_at_content v) as H0. destruct (tree_at v) as [v0 cur]. cbn [fst] in H0.
  assert (Hstep : forall c : bool,
            let '(v1, nl) := (if c then let v' := with_pos (pred (v_pos v0)) v0 in let '(v'', s) := tree_at v' in (v'', Some s)
                              else (v0, None)) in v_content v1 = v_content v).
  { intros [|]; [|exact H0]. cbv zeta. pose proof (tree_at_content (with_pos (pred (v_pos v0)) v0)) as H1.
    destruct (tree_at (with_pos (pred (v_pos v0)) v0)) as [v'' s]. cbn [fst] in H1. rewrite H1. exact H0. }
  destruct (v_kind v0).
  - specialize (Hstep (0 <? v_pos v0)).
    destruct (if 0 <? v_pos v0 then _ else _) as [v1 nl]. rewrite <- Hstep in Hc.
    destruct (length (v_tree v0) <=? v_pos v0 + 1); [|eauto 10].
    destruct (has_selector v1); [|eexists _, _, _, _; split; [reflexivity|split; [exact Hstep|apply utf8_valid_app; assumption]]].
    destruct (negb (sel data (selector v1))); [|eauto 10].
    destruct (append_child_valid data (v_content v1) Hd Hc) as (r & -> & Hr). eauto 10.
  - specialize (Hstep (0 <? v_pos v0)).
    destruct (if 0 <? v_pos v0 then _ else _) as [v1 nl]. rewrite <- Hstep in Hc.
    destruct (v_buffering v1 && has_selector v1); [|eauto 10].
    destruct (negb (sel data (selector (with_buffering false v1)))); [|eexists _, _, _, _; split; [reflexivity|split; [exact Hstep|exact Hd]]].
    destruct (prepend_child_valid data (v_content (with_buffering false v1)) Hd Hc) as (r & -> & Hr).
    eexists _, _, _, _; split; [reflexivity|split; [exact Hstep|exact Hr]].
  - specialize (Hstep ((0 <? v_pos v0) && negb (v_buffering v0))).
    destruct (if (0 <? v_pos v0) && negb (v_buffering v0) then _ else _) as [v1 nl]. rewrite <- Hstep in Hc.
    destruct (v_buffering v1); [|eauto 10].
    destruct (negb (has_selector (with_buffering false v1))); [eexists _, _, _, _; split; [reflexivity|split; [exact Hstep|exact Hc]]|].
    destruct (sel data (selector (with_buffering false v1))); eexists _, _, _, _; (split; [reflexivity|split; [exact Hstep|assumption]]).
Qed.

Lemma on_start_tag_valid F tag data : vF F -> utf8_valid data = true ->
  vF (fst (on_start_tag F tag data)) /\ utf8_valid (snd (on_start_tag F tag data)) = true.
Proof.
  intros [Hc Hb] Hd. unfold on_start_tag. destruct (opt_is (f_enter F) tag); [|cbn; repeat split; assumption].
  pose proof (v_enter_valid (f_visitor F) data Hc Hd) as H.
  destruct (v_enter (f_visitor F) data) as [[[[v' ne] nl] sb] nb]. destruct H as [H1 H2].
  cbn [fst snd]. split; [|exact H2]. split; cbn [f_visitor f_buffers]; [rewrite H1; exact Hc|].
  destruct sb; [constructor; [reflexivity|exact Hb]|exact Hb].
Qed.

Lemma on_end_tag_valid F tag data : vF F -> utf8_valid data = true ->
  exists F' d', on_end_tag lower sel F tag data = ROk (F', d') /\ vF F' /\ utf8_valid d' = true.
Proof.
  intros [Hc Hb] Hd. unfold on_end_tag. cbv zeta.
  match goal with |- context [v_leave lower sel (f_visitor F) ?b] => set (buffer := b) end.
  assert (Hbuf : utf8_valid buffer = true).
  { unfold buffer. destruct (f_buffers F) as [|[t b] rest]; [exact Hd|]. destruct (str_eqb t tag); [|exact Hd].
    apply utf8_valid_app; [|exact Hd]. inversion Hb; subst. assumption. }
  assert (Htl : Forall (fun tb : str * str => utf8_valid (snd tb) = true) (tl (f_buffers F))).
  { destruct (f_buffers F); [constructor|inversion Hb; assumption]. }
  destruct (opt_is (f_leave F) tag).
  - destruct (v_leave_valid (f_visitor F) buffer Hc Hbuf) as (v' & ne & nl & nb & -> & H1 & H2).
    eexists _, _. split; [reflexivity|]. split; [|exact H2]. split; cbn [f_visitor f_buffers]; [rewrite H1; exact Hc|].
    match goal with |- Forall _ (if ?c then _ else _) => destruct c end; assumption.
  - eexists _, _. split; [reflexivity|]. split; [|exact Hbuf]. split; cbn [f_visitor f_buffers]; [exact Hc|].
    match goal with |- Forall _ (if ?c then _ else _) => destruct c end; assumption.
Qed.

Lemma emit_valid F out data : vF F -> utf8_valid out = true -> utf8_valid data = true ->
  vF (fst (emit F out data)) /\ utf8_valid (snd (emit F out data)) = true.
Proof.
  intros [Hc Hb] Ho Hd. unfold emit. destruct (f_buffers F) as [|[t b] rest] eqn:E; cbn [fst snd].
  - split; [split; [exact Hc|rewrite E; constructor]|apply utf8_valid_app; assumption].
  - split; [|exact Ho]. split; cbn [f_visitor f_buffers]; [exact Hc|]. inversion Hb; subst.
    constructor; [apply utf8_valid_app; assumption|assumption].
Qed.

Lemma handle_tok_valid F tk td nm : vF F -> utf8_valid td = true -> nm <> RErr ->
  exists F' d', handle_tok lower sel F tk td nm = ROk (F', d') /\ vF F' /\ utf8_valid d' = true.
Proof.
  intros HF Hd Hn. unfold handle_tok.
  destruct tk; try (eexists _, _; split; [reflexivity|split; assumption]);
    (destruct nm as [name|]; [|contradiction]).
  - destruct (on_start_tag_valid F (unwrap_name name) td HF Hd) as [H1 H2].
    destruct (on_start_tag F (unwrap_name name) td) as [F1 d1]. cbn [fst snd] in *.
    destruct (is_void (unwrap_name name)); [apply on_end_tag_valid; assumption|eauto].
  - apply on_end_tag_valid; assumption.
  - destruct (on_start_tag_valid F (unwrap_name name) td HF Hd) as [H1 H2].
    destruct (on_start_tag F (unwrap_name name) td) as [F1 d1]. cbn [fst snd] in *. apply on_end_tag_valid; assumption.
Qed.

Lemma proc_valid F t out : vF F -> tok_valid t -> utf8_valid out = true ->
  exists F' out', proc lower sel F t out = ROk (F', out') /\ vF F' /\ utf8_valid out' = true.
Proof.
  intros HF [Ht1 Ht2] Ho. unfold proc.
  destruct (handle_tok_valid F (t_tk t) (t_td t) (t_nm t) HF Ht1 Ht2) as (F2 & d2 & -> & HF2 & Hd2).
  destruct (emit_valid F2 out d2 HF2 Ho Hd2) as [H1 H2]. destruct (emit F2 out d2) as [F3 o3]. eauto.
Qed.

Lemma vF_set_hold F r l : vF F -> vF (set_hold F r l).
Proof. intros H. exact H. Qed.

Lemma spec_from_valid L fin : Forall tok_valid L -> fin_valid fin -> forall F out, vF F -> utf8_valid out = true ->
  exists F' out', spec_from lower sel L fin F out = ROk (F', out') /\ vF F' /\ utf8_valid out' = true
    /\ (is_feof fin = true -> utf8_valid (f_last F') = true).
Proof.
  intros HL Hfin. induction HL as [|t L Ht HL IH]; intros F out HF Ho; cbn [spec_from].
  - destruct fin as [|rt rest|]; [contradiction| |]; eexists _, _; (split; [reflexivity|]).
    + split; [exact HF|]. split; [exact Ho|]. intros _. exact Hfin.
    + split; [exact HF|]. split; [exact Ho|]. discriminate.
  - destruct (is_nil L && held_text t && is_feof fin) eqn:Eh.
    + eexists _, _. split; [reflexivity|]. split; [exact HF|]. split; [exact Ho|]. intros _. cbn [set_hold f_last].
      apply utf8_valid_app; [apply Ht|]. destruct fin; cbn [is_feof] in Eh; rewrite ?andb_false_r in Eh; try discriminate. exact Hfin.
    + destruct (proc_valid F t out HF Ht Ho) as (F1 & o1 & -> & HF1 & Ho1). apply IH; assumption.
Qed.

Theorem do_filter_valid F c : vF F -> utf8_valid (f_last F ++ c) = true ->
  exists F' out, do_filter lower sel F c = ROk (F', out) /\ vF F' /\ utf8_valid out = true /\ utf8_valid (f_last F') = true.
Proof.
  intros HF Hd. rewrite (do_filter_spec lower sel wf0 TF).
  set (d := f_last F ++ c) in *. set (s0 := new_fragment lower (f_raw_tag F)).
  assert (Hs0 : tinv wf0 d s0) by apply (tinv_new lower wf0 TF).
  assert (Hb0 : bnd d (raw_end s0)) by (unfold s0; rewrite new_fragment_raw_end; apply bnd_0; exact Hd).
  destruct (toks lower (fuel_of d) d s0) as [L fin] eqn:Et. cbn [fst snd].
  destruct (toks_valid d Hd _ s0 L fin Hs0 Hb0 Et) as [HL Hfin].
  destruct (spec_from_valid L fin HL Hfin F [] HF eq_refl) as (F' & out & E & H1 & H2 & H3).
  exists F', out. split; [exact E|]. split; [exact H1|]. split; [exact H2|]. apply H3.
  destruct fin; [contradiction|reflexivity|]. exfalso.
  apply (toks_no_fuel lower sel wf0 TF d (fuel_of d) s0 Hs0 (suff_fuel_of sel d s0)). rewrite Et. reflexivity.
Qed.

(* ---------------------------------------------------------------- stages and chains *)
Definition stage_inv (st : stage) : Prop :=
  match st with
  | StText t => utf8_valid (ts_content t) = true
  | StHtml F => vF F /\ f_in_error F = false /\ utf8_valid (f_last F) = true
  end.

Lemma stage_inv_ok st : stage_inv st -> stage_ok st.
Proof. destruct st as [t|F]; [intros; exact I|intros (_ & H & _); exact H]. Qed.

Lemma stage_tf_valid st d : stage_inv st -> utf8_valid d = true ->
  stage_inv (fst (stage_tf lower sel st d)) /\ utf8_valid (snd (stage_tf lower sel st d)) = true.
Proof.
  destruct st as [t|F]; cbn [stage_inv stage_tf]; intros Hi Hd.
  - unfold text_filter. destruct t as [a c e]. cbn [ts_action ts_content ts_executed] in *.
    destruct a, e; cbn [fst snd stage_inv ts_content]; auto using utf8_valid_app.
  - destruct Hi as (HF & HE & HL). unfold hfb_filter. rewrite HE.
    destruct (do_filter_valid F d HF (utf8_valid_app _ _ HL Hd)) as (F' & out & E & H1 & H2 & H3). rewrite E. cbn [fst snd stage_inv].
    repeat split; auto; try apply H1. rewrite (do_filter_in_error lower sel wf0 TF _ _ _ _ E). exact HE.
Qed.

Lemma cf_valid chain : Forall stage_inv chain -> forall d, utf8_valid d = true ->
  Forall stage_ok (fst (cf stage (stage_tf lower sel) chain d)).
Proof.
  induction chain as [|st rest IH]; intros Hc d Hd; cbn [cf]; [constructor|].
  inversion Hc as [|? ? Hs Hr]; subst.
  destruct (stage_tf_valid st d Hs Hd) as [H1 H2]. destruct (stage_tf lower sel st d) as [st' out]. cbn [fst snd] in *.
  destruct (is_nil out).
  - cbn [fst]. constructor; [apply stage_inv_ok; exact H1|]. eapply Forall_impl; [|exact Hr]. apply stage_inv_ok.
  - specialize (IH Hr out H2). destruct (cf stage (stage_tf lower sel) rest out) as [rest' out']. cbn [fst] in *.
    constructor; [apply stage_inv_ok; exact H1|exact IH].
Qed.

(* the values of the filters are Rust Strings *)
Definition filter_values_utf8 (fs : list body_filter) : Prop :=
  forall f, In f fs ->
    match f with
    | BFText _ c => utf8_valid c = true
    | BFHtml h => utf8_valid (hf_value h) = true
    end.

Lemma stages_of_inv ctok fs : filter_values_utf8 fs -> Forall stage_inv (stages_of ctok fs).
Proof.
  induction fs as [|f fs IH]; intros H; cbn [stages_of]; [constructor|].
  assert (Hfs : filter_values_utf8 fs) by (intros g Hg; apply H; right; exact Hg).
  specialize (H f (or_introl eq_refl)).
  destruct f as [a c|h]; cbn [stage_new].
  - constructor; [exact H|apply IH; exact Hfs].
  - destruct ctok; [|apply IH; exact Hfs]. unfold visitor_new.
    destruct (is_nil (hf_tree h)); [apply IH; exact Hfs|].
    destruct (hf_kind h); try (apply IH; exact Hfs);
      (constructor; [|apply IH; exact Hfs]); cbn; (split; [split; [exact H|constructor]|split; reflexivity]).
Qed.

Theorem body_chunk_invariance_utf8 ctok fs c cs :
  utf8_valid (concat (c :: cs)) = true -> filter_values_utf8 fs ->
  body_run lower sel ctok fs (c :: cs) = body_run lower sel ctok fs [concat (c :: cs)].
Proof.
  intros Hd Hf. apply (body_chunk_invariance lower sel ctok fs c cs LO).
  apply cf_valid; [apply stages_of_inv; exact Hf|exact Hd].
Qed.
End Utf8Stage.
