(* C16Run.v — executable verdicts for the correspondence check of C16 (HTML tokenizer: lossless and total).

   The driver program that both sides run (the harness on the real crate, [tokenize_all] on the model):

     let mut t = Tokenizer::new_fragment(input, ctx);         // ctx = "" is Tokenizer::new(input)
     loop {
       let tt = match t.next() { Err(_) => { end = 1; break }, Ok(tt) => tt };
       if tt == ErrorToken { end = 0; break }
       raw = t.raw(); span = (|input| - |t.buffered()| - |raw|, |input| - |t.buffered()|);
       text = t.text(); name = t.tag_name();
       attrs = []; for _ in 0..|input|+2 { a = t.tag_attr(); attrs.push(a); if a == Ok((None, None, false)) { break } }
       record(tt, span, raw, text, name, attrs)
     }
     final = (end, span and bytes of t.raw() — the raw span of the ErrorToken —, t.buffered())

   Remainder.  The crate's consumers (filter/html_filter_body.rs:68-70, html_body_action/body_append.rs:141-142)
   keep  t.raw() ++ t.buffered()  when they see the ErrorToken: an ErrorToken may carry a NON-EMPTY raw span
   (EOF inside a tag: "<a", "</a b" — the tag is not reported, its bytes are in raw()).  Losslessness is
   therefore stated with  remainder := raw(ErrorToken) ++ buffered() ; buffered() alone would lose those bytes.

   The data span is private in the crate and has no accessor; it is observed through text() / tag_name().
   to_lowercase: [lower_of tbl] = ASCII lowercasing, overridden by the table of real String::to_lowercase
   results (only entries on which the two differ) that the harness reports. *)
Require Import RIO.Base RIO.TokMonad RIO.HtmlTok.

Definition lower_of (tbl : list (str * str)) (s : str) : str :=
  match assoc s tbl with Some l => l | None => map ascii_lower s end.

Definition kind_code (t : token_type) : N :=
  match t with
  | NoneToken => 0 | ErrorToken => 1 | TextToken => 2 | StartTagToken => 3 | EndTagToken => 4
  | SelfClosingTagToken => 5 | CommentToken => 6 | DoctypeToken => 7
  end%N.

Definition text_res := result (option str).
Definition name_res := result (option str * bool).
Definition attr_res := result (option str * option str * bool).

Record tok_obs := {
  o_kind : N; o_rs : N; o_re : N; o_raw : str;
  o_text : text_res; o_name : name_res; o_attrs : list attr_res
}.
Record final_obs := {
  f_end : N;            (* 0: ErrorToken reached; 1: next() returned Err(FromUtf8Error) *)
  f_ers : N; f_ere : N; f_err_raw : str;      (* raw span / raw() after the last call of next *)
  f_rest : str                                 (* buffered() *)
}.
Record case16 := {
  c_ctx : str;                       (* context tag given to new_fragment; [] = Tokenizer::new *)
  c_lower : list (str * str);        (* real to_lowercase where it differs from ASCII lowercasing *)
  c_input : str;
  c_toks : list tok_obs;             (* the implementation's observation *)
  c_fin : final_obs
}.

(* short constructors used by the harness printer *)
Definition T := Build_tok_obs.
Definition F := Build_final_obs.
Definition mk16 := Build_case16.
Definition TN : text_res := ROk None.
Definition TS (s : str) : text_res := ROk (Some s).
Definition NN : name_res := ROk (None, false).
Definition NS (s : str) (more : bool) : name_res := ROk (Some s, more).
Definition AN : attr_res := ROk (None, None, false).
Definition AS (k v : str) (more : bool) : attr_res := ROk (Some k, Some v, more).
Definition E {A} : result A := RErr.

(* ----------------------------------------------------------------------------------------- equality *)
Definition opt_str_eqb (a b : option str) : bool :=
  match a, b with
  | None, None => true
  | Some x, Some y => str_eqb x y
  | _, _ => false
  end.
Definition res_eqb {A} (e : A -> A -> bool) (a b : result A) : bool :=
  match a, b with
  | ROk x, ROk y => e x y
  | RErr, RErr => true
  | _, _ => false
  end.
Fixpoint list_eqb {A} (e : A -> A -> bool) (a b : list A) : bool :=
  match a, b with
  | [], [] => true
  | x :: a', y :: b' => e x y && list_eqb e a' b'
  | _, _ => false
  end.
Definition text_eqb : text_res -> text_res -> bool := res_eqb opt_str_eqb.
Definition name_eqb : name_res -> name_res -> bool :=
  res_eqb (fun a b => opt_str_eqb (fst a) (fst b) && Bool.eqb (snd a) (snd b)).
Definition attr_eqb : attr_res -> attr_res -> bool :=
  res_eqb (fun a b => opt_str_eqb (fst (fst a)) (fst (fst b)) && opt_str_eqb (snd (fst a)) (snd (fst b))
                      && Bool.eqb (snd a) (snd b)).
Definition tok_eqb (a b : tok_obs) : bool :=
  N.eqb (o_kind a) (o_kind b) && N.eqb (o_rs a) (o_rs b) && N.eqb (o_re a) (o_re b)
  && str_eqb (o_raw a) (o_raw b) && text_eqb (o_text a) (o_text b) && name_eqb (o_name a) (o_name b)
  && list_eqb attr_eqb (o_attrs a) (o_attrs b).
Definition fin_eqb (a b : final_obs) : bool :=
  N.eqb (f_end a) (f_end b) && N.eqb (f_ers a) (f_ers b) && N.eqb (f_ere a) (f_ere b)
  && str_eqb (f_err_raw a) (f_err_raw b) && str_eqb (f_rest a) (f_rest b).

(* -------------------------------------------------------------------------------- the model's driver *)
Definition is_attr_none (a : attr_res) : bool :=
  match a with ROk (None, None, false) => true | _ => false end.

Definition observe (lower : str -> str) (ty : token_type) : M tok_obs :=
  s <- get ;;
  rawb <- raw ;;
  tx <- text ;;
  nm <- tag_name lower ;;
  ats <- loop_in (fun acc : list attr_res =>
           a <- tag_attr lower ;;
           if is_attr_none a then ret (Return (rev (a :: acc))) else ret (Continue (a :: acc))) [] ;;
  ret {| o_kind := kind_code ty; o_rs := N.of_nat (raw_start s); o_re := N.of_nat (raw_end s); o_raw := rawb;
         o_text := tx; o_name := nm; o_attrs := match ats with Some l => l | None => [] end |}.

Definition is_some {A} (o : option A) : bool := match o with Some _ => true | None => false end.

(* -> tokens, end code (0 ErrorToken, 1 Err, 2 out of fuel, 3 stopped on a set panic / fuel flag) *)
Fixpoint tok_loop (lower : str -> str) (fuel : nat) (acc : list tok_obs) : M (list tok_obs * N) :=
  match fuel with
  | O => out_of_fuel ;;; ret (rev acc, 2%N)
  | S f =>
      r <- next lower ;;
      s <- get ;;
      if is_some (panic s) || oof s then ret (rev acc, 3%N) else
      match r with
      | RErr => ret (rev acc, 1%N)
      | ROk ty =>
          if token_eqb ty ErrorToken then ret (rev acc, 0%N)
          else o <- observe lower ty ;; tok_loop lower f (o :: acc)
      end
  end.

Definition run_outcome {A} (m : M A) (inp : list N) (s0 : st) : outcome A :=
  let '(a, s) := m inp s0 in
  match panic s with
  | Some site => Panic site
  | None => if oof s then OutOfFuel else Ok a
  end.

Definition tokenize_all (lower : str -> str) (ctx : str) (fuel : nat) (input : list N)
  : outcome (list tok_obs * final_obs) :=
  run_outcome
    (r <- tok_loop lower fuel [] ;;
     s <- get ;;
     er <- raw ;;
     rest <- buffered ;;
     ret (fst r, {| f_end := snd r; f_ers := N.of_nat (raw_start s); f_ere := N.of_nat (raw_end s);
                    f_err_raw := er; f_rest := rest |}))
    input (new_fragment lower ctx).

(* every non-error token is non-empty, so |input| + 1 calls of next reach the ErrorToken *)
Definition tokenize (lower : str -> str) (ctx : str) (input : list N) :=
  tokenize_all lower ctx (length input + 2) input.

(* ------------------------------------------------------------------------------------------ verdicts *)
Definition lenN {A} (l : list A) : N := N.of_nat (length l).

(* contiguous spans starting at [pos]; every token non-empty, a real token kind, span length = |raw| *)
Fixpoint spans_ok (pos : N) (toks : list tok_obs) : option N :=
  match toks with
  | [] => Some pos
  | t :: r =>
      if N.eqb (o_rs t) pos && N.ltb (o_rs t) (o_re t) && N.eqb (o_re t) (N.add (o_rs t) (lenN (o_raw t)))
         && N.leb 2 (o_kind t) && N.leb (o_kind t) 7
      then spans_ok (o_re t) r else None
  end.

Definition res_is_err {A} (r : result A) : bool := match r with RErr => true | ROk _ => false end.
Definition tok_has_err (t : tok_obs) : bool :=
  res_is_err (o_text t) || res_is_err (o_name t) || existsb res_is_err (o_attrs t).

(* The PROPERTY, evaluated on the implementation's observation alone:
   [lossless; spans contiguous from 0 and non-empty; final spans consistent; count; accessors on valid UTF-8] *)
Definition spec_parts (c : case16) : list bool :=
  let inp := c_input c in
  let toks := c_toks c in
  let fin := c_fin c in
  [ str_eqb (concat (map o_raw toks) ++ f_err_raw fin ++ f_rest fin) inp;
    match spans_ok 0%N toks with Some p => N.eqb p (f_ers fin) | None => false end;
    N.eqb (f_ere fin) (N.add (f_ers fin) (lenN (f_err_raw fin)))
      && N.eqb (N.add (f_ere fin) (lenN (f_rest fin))) (lenN inp);
    N.leb (N.add (lenN toks) 1) (N.add (lenN inp) 1);
    negb (utf8_valid inp) || (N.eqb (f_end fin) 0 && negb (existsb tok_has_err toks));
    N.leb (f_end fin) 1 ].

Definition spec_ok (c : case16) : bool := forallb (fun b => b) (spec_parts c).
Definition spec_verdict16 (c : case16) : N := vbit (spec_ok c) 4.

Definition model_agrees (c : case16) : bool :=
  match tokenize (lower_of (c_lower c)) (c_ctx c) (c_input c) with
  | Ok (toks, fin) => list_eqb tok_eqb toks (c_toks c) && fin_eqb fin (c_fin c)
  | Panic _ => false
  | OutOfFuel => false
  end.

(* bit 1: model <> implementation (or the model panics / runs out of fuel where the implementation returned);
   bit 4: the property fails on the implementation's observation.  An implementation panic never reaches Coq:
   the harness reports it without a term and tools/check.py turns it into a violation. *)
Definition verdict16 (c : case16) : N := N.add (vbit (model_agrees c) 1) (spec_verdict16 c).

(* readable model output for the examples in properties/C16.v *)
Definition tokens_of (input : str) : outcome (list tok_obs * final_obs) := tokenize (map ascii_lower) [] input.
