(* SerdeProofs.v — de (ser v) = Some v for every well-formed schema and every typed value. *)
Require Import RIO.Base RIO.Json.
Close Scope N_scope.

(* ------------------------------------------------------------------ standalone forms of the nested loops *)
Fixpoint ser_fields (fs : list field) (l : list value) : list (str * json) :=
  match fs, l with
  | Field n _ sk ft :: fs', x :: l' => if skipped sk x then ser_fields fs' l' else (n, ser ft x) :: ser_fields fs' l'
  | _, _ => []
  end.
Fixpoint ser_var (vs : list ty) (i : nat) (x : value) : json :=
  match vs, i with
  | t' :: _, O => ser t' x
  | _ :: vs', S i' => ser_var vs' i' x
  | [], _ => JNull
  end.
Fixpoint de_fields (o : list (str * json)) (fs : list field) : option (list value) :=
  match fs with
  | [] => Some []
  | Field n d _ ft :: fs' =>
      match (match lookup n o with Some x => de ft x | None => missing d ft end), de_fields o fs' with
      | Some v, Some r => Some (v :: r)
      | _, _ => None
      end
  end.
Fixpoint de_var (j : json) (vs : list ty) (i : nat) : option value :=
  match vs with
  | [] => None
  | t' :: vs' => match de t' j with Some x => Some (VVar i x) | None => de_var j vs' (S i) end
  end.
Fixpoint ty_fields (fs : list field) (l : list value) : bool :=
  match fs, l with
  | [], [] => true
  | Field _ _ _ ft :: fs', x :: l' => has_ty ft x && ty_fields fs' l'
  | _, _ => false
  end.
Fixpoint ty_var (vs : list ty) (i : nat) (x : value) : bool :=
  match vs, i with
  | t' :: _, O => has_ty t' x
  | _ :: vs', S i' => ty_var vs' i' x
  | [], _ => false
  end.
Fixpoint wf_fields (fs : list field) : bool := match fs with [] => true | Field _ d sk ft :: fs' => skip_ok sk d ft && wf ft && wf_fields fs' end.
Fixpoint wf_all (vs : list ty) : bool := match vs with [] => true | t' :: vs' => wf t' && wf_all vs' end.

Lemma ser_struct fs l : ser (TStruct fs) (VRec l) = JObj (ser_fields fs l).
Proof. reflexivity. Qed.
Lemma ser_untagged vs i x : ser (TUntagged vs) (VVar i x) = ser_var vs i x.
Proof. first [reflexivity | cbn [ser]; revert i; induction vs as [|t' vs IH]; intros i; [destruct i; reflexivity|]; destruct i; [reflexivity|]; cbn [ser_var]; apply IH]. Qed.
Lemma de_struct fs o : de (TStruct fs) (JObj o) = option_map VRec (de_fields o fs).
Proof. first [reflexivity | cbn [de]; f_equal; induction fs as [|[n d sk ft] fs IH]; [reflexivity|]; cbn [de_fields]; rewrite <- IH; reflexivity]. Qed.
Lemma de_untagged vs j : de (TUntagged vs) j = de_var j vs 0.
Proof. first [reflexivity | cbn [de]; generalize 0; induction vs as [|t' vs IH]; intros k; [reflexivity|]; cbn [de_var]; rewrite <- IH; reflexivity]. Qed.
Lemma has_ty_struct fs l : has_ty (TStruct fs) (VRec l) = ty_fields fs l.
Proof. first [reflexivity | cbn [has_ty]; revert l; induction fs as [|[n d sk ft] fs IH]; intros l; [destruct l; reflexivity|]; destruct l as [|x l]; [reflexivity|]; cbn [ty_fields]; rewrite <- IH; reflexivity]. Qed.
Lemma has_ty_untagged vs i x : has_ty (TUntagged vs) (VVar i x) = ty_var vs i x.
Proof. first [reflexivity | cbn [has_ty]; revert i; induction vs as [|t' vs IH]; intros i; [destruct i; reflexivity|]; destruct i; [reflexivity|]; cbn [ty_var]; apply IH]. Qed.
Lemma wf_struct fs : wf (TStruct fs) = nodup_str (map f_name fs) && wf_fields fs.
Proof. first [reflexivity | cbn [wf]; f_equal; induction fs as [|[n d sk ft] fs IH]; [reflexivity|]; cbn [wf_fields]; rewrite <- IH; reflexivity]. Qed.
Lemma wf_untagged vs : wf (TUntagged vs) = forallb is_struct vs && all_rejects vs && wf_all vs.
Proof. first [reflexivity | cbn [wf]; f_equal; induction vs as [|t' vs IH]; [reflexivity|]; cbn [wf_all]; rewrite <- IH; reflexivity]. Qed.

(* ------------------------------------------------------------------ induction principle *)
Section TyInd.
Variable P : ty -> Prop.
Hypothesis HStr : P TStr.
Hypothesis HOpq : P TOpaque.
Hypothesis HU16 : P TU16.
Hypothesis HBool : P TBool.
Hypothesis HOpt : forall t, P t -> P (TOpt t).
Hypothesis HVec : forall t, P t -> P (TVec t).
Hypothesis HSet : P TSet.
Hypothesis HStruct : forall fs, Forall (fun f => P (f_ty f)) fs -> P (TStruct fs).
Hypothesis HEnum : forall names, P (TUnitEnum names).
Hypothesis HUnt : forall vs, Forall P vs -> P (TUntagged vs).
Fixpoint ty_ind' (t : ty) : P t :=
  match t with
  | TStr => HStr | TOpaque => HOpq | TU16 => HU16 | TBool => HBool
  | TOpt t' => HOpt t' (ty_ind' t')
  | TVec t' => HVec t' (ty_ind' t')
  | TSet => HSet
  | TStruct fs => HStruct fs ((fix go (fs : list field) : Forall (fun f => P (f_ty f)) fs :=
                                 match fs with
                                 | [] => Forall_nil _
                                 | Field n d sk ft :: fs' => @Forall_cons _ (fun f => P (f_ty f)) (Field n d sk ft) fs' (ty_ind' ft) (go fs')
                                 end) fs)
  | TUnitEnum names => HEnum names
  | TUntagged vs => HUnt vs ((fix go (vs : list ty) : Forall P vs :=
                                match vs with [] => Forall_nil _ | t' :: vs' => Forall_cons t' (ty_ind' t') (go vs') end) vs)
  end.
End TyInd.

(* ------------------------------------------------------------------ small lemmas *)
Lemma nonnull_ser t v : nonnull t = true -> has_ty t v = true -> ser t v <> JNull.
Proof.
  destruct t; cbn [nonnull]; try discriminate; intros _ H; destruct v; try discriminate H.
  all: try (cbn; discriminate).
Qed.

Lemma mapM_map {A B} (f : A -> B) (g : B -> option A) (l : list A) :
  Forall (fun x => g (f x) = Some x) l -> mapM g (map f l) = Some l.
Proof. induction 1 as [|x l Hx _ IH]; cbn; [reflexivity|]. rewrite Hx, IH. reflexivity. Qed.

Lemma dedup_nodup seen l : nodup_str l = true -> (forall s, In s l -> mem_str s seen = false) -> dedup seen l = l.
Proof.
  revert seen. induction l as [|s l IH]; intros seen Hn Hd; cbn [dedup]; [reflexivity|].
  cbn [nodup_str] in Hn. apply andb_true_iff in Hn. destruct Hn as [Hs Hn].
  rewrite (Hd s (or_introl eq_refl)). f_equal. apply IH; [exact Hn|].
  intros s' Hin. cbn [mem_str existsb]. fold (mem_str s' seen). rewrite (Hd s' (or_intror Hin)), orb_false_r.
  apply str_eqb_neq. intros ->. apply negb_true_iff in Hs. apply mem_str_In in Hin. congruence.
Qed.

Lemma index_of_nth names i : nodup_str names = true -> i < length names -> index_of (nth i names []) names = Some i.
Proof.
  revert i. induction names as [|n names IH]; intros i Hn Hi; [cbn in Hi; lia|].
  cbn [nodup_str] in Hn. apply andb_true_iff in Hn. destruct Hn as [Hs Hn]. destruct i as [|i]; cbn [nth index_of].
  - rewrite str_eqb_refl. reflexivity.
  - cbn [length] in Hi. assert (Hin : In (nth i names []) names) by (apply nth_In; lia).
    assert (str_eqb n (nth i names []) = false) as ->.
    { apply str_eqb_neq. intros E. apply negb_true_iff in Hs. rewrite E in Hs. apply mem_str_In in Hin. congruence. }
    rewrite IH by (assumption || lia). reflexivity.
Qed.

Lemma lookup_app_notin n pre rest : mem_str n (map fst pre) = false -> lookup n (pre ++ rest) = lookup n rest.
Proof.
  induction pre as [|[k j] pre IH]; intros H; [reflexivity|]. cbn [map fst mem_str existsb] in H. fold (mem_str n (map fst pre)) in H.
  apply orb_false_iff in H. destruct H as [Hk Hp]. cbn [app lookup]. rewrite str_eqb_sym, Hk. apply IH. exact Hp.
Qed.

Lemma ser_fields_keys fs l : forall k, In k (map fst (ser_fields fs l)) -> In k (map f_name fs).
Proof.
  revert l. induction fs as [|[n d sk ft] fs IH]; intros l k; [intros []|]. destruct l as [|x l]; [intros []|].
  cbn [ser_fields]. destruct (skipped sk x); cbn; [intros H; right; eapply IH; exact H|].
  intros [<-|H]; [left; reflexivity|right; eapply IH; exact H].
Qed.

Lemma lookup_none n o : mem_str n (map fst o) = false -> lookup n o = None.
Proof. intros H. rewrite <- (app_nil_r o). rewrite lookup_app_notin by exact H. reflexivity. Qed.

(* ------------------------------------------------------------------ structs *)
(* an omitted member comes back as the omitted value *)
Lemma skipped_missing sk d ft x : skip_ok sk d ft = true -> has_ty ft x = true -> skipped sk x = true -> missing d ft = Some x.
Proof.
  destruct sk; cbn [skip_ok]; try discriminate; intros Hk Ht Hs.
  - destruct ft; try discriminate Hk. destruct x as [| | |[y|]| | | |]; try discriminate Hs. reflexivity.
  - apply andb_true_iff in Hk. destruct Hk as [-> Hk]. destruct ft; try discriminate Hk;
      destruct x as [[|]| | | |[|]| | |]; try discriminate Hs; try discriminate Ht; reflexivity.
Qed.

Lemma de_fields_ser fs : Forall (fun f => forall v, wf (f_ty f) = true -> has_ty (f_ty f) v = true -> de (f_ty f) (ser (f_ty f) v) = Some v) fs ->
  forall l pre, nodup_str (map f_name fs) = true -> wf_fields fs = true -> ty_fields fs l = true ->
  (forall n, In n (map f_name fs) -> mem_str n (map fst pre) = false) ->
  de_fields (pre ++ ser_fields fs l) fs = Some l.
Proof.
  induction 1 as [|[n d sk ft] fs Hf _ IH]; intros l pre Hn Hw Ht Hd.
  - destruct l; [reflexivity|discriminate].
  - destruct l as [|x l]; [discriminate|]. cbn [map f_name nodup_str wf_fields ty_fields f_ty] in *.
    apply andb_true_iff in Hn, Hw, Ht. destruct Hn as [Hn1 Hn2], Hw as [Hw0 Hw2], Ht as [Ht1 Ht2].
    apply andb_true_iff in Hw0. destruct Hw0 as [Hsk Hw1].
    cbn [ser_fields de_fields]. destruct (skipped sk x) eqn:Es.
    + (* the member is omitted: no later member carries its name either *)
      assert (Hnone : lookup n (pre ++ ser_fields fs l) = None).
      { apply lookup_none. rewrite map_app. unfold mem_str. rewrite existsb_app. fold (mem_str n (map fst pre)).
        rewrite (Hd n (or_introl eq_refl)). cbn [orb]. destruct (existsb (str_eqb n) (map fst (ser_fields fs l))) eqn:E; [|reflexivity].
        fold (mem_str n (map fst (ser_fields fs l))) in E. apply mem_str_In in E. apply ser_fields_keys in E. apply mem_str_In in E.
        apply negb_true_iff in Hn1. congruence. }
      rewrite Hnone. rewrite (skipped_missing sk d ft x Hsk Ht1 Es).
      rewrite IH; [reflexivity|assumption|assumption|assumption|]. intros m Hm. apply Hd. right. exact Hm.
    + rewrite lookup_app_notin by (apply Hd; left; reflexivity).
      cbn [lookup]. rewrite str_eqb_refl. rewrite (Hf x Hw1 Ht1).
      replace (pre ++ (n, ser ft x) :: ser_fields fs l) with ((pre ++ [(n, ser ft x)]) ++ ser_fields fs l) by (rewrite <- app_assoc; reflexivity).
      rewrite IH; [reflexivity|assumption|assumption|assumption|].
      intros m Hm. rewrite map_app. unfold mem_str. rewrite existsb_app. fold (mem_str m (map fst pre)).
      rewrite (Hd m (or_intror Hm)). cbn. rewrite orb_false_r. apply str_eqb_neq. intros ->.
      apply negb_true_iff in Hn1. apply mem_str_In in Hm. congruence.
Qed.

(* ------------------------------------------------------------------ untagged: an earlier variant rejects *)
Lemma de_fields_missing o fs : existsb (fun f => required f && negb (mem_str (f_name f) (map fst o))) fs = true -> de_fields o fs = None.
Proof.
  induction fs as [|[n d sk ft] fs IH]; cbn [existsb]; [discriminate|]. intros H. cbn [de_fields].
  apply orb_true_iff in H. destruct H as [H|H].
  - apply andb_true_iff in H. destruct H as [Hr Hm]. apply negb_true_iff in Hm. cbn [f_name] in Hm.
    rewrite (lookup_none n o Hm). unfold required in Hr. cbn [f_ty f_dflt] in Hr. unfold missing.
    destruct ft; try discriminate Hr; apply negb_true_iff in Hr; rewrite Hr; reflexivity.
  - rewrite (IH H). destruct (match lookup n o with Some x => de ft x | None => missing d ft end); reflexivity.
Qed.

Lemma rejects_de a b x : rejects a b = true -> is_struct a = true -> is_struct b = true -> has_ty b x = true -> de a (ser b x) = None.
Proof.
  intros Hr Ha Hb Ht. destruct a as [| | | | | | |fa| |]; try discriminate Ha. destruct b as [| | | | | | |fb| |]; try discriminate Hb.
  destruct x; try discriminate Ht. rewrite ser_struct, de_struct. rewrite de_fields_missing; [reflexivity|].
  unfold rejects in Hr. cbn [struct_fields] in Hr. rewrite existsb_exists in *. destruct Hr as (f & Hin & Hf). exists f. split; [exact Hin|].
  apply andb_true_iff in Hf. destruct Hf as [Hf1 Hf2]. rewrite Hf1. cbn [andb]. apply negb_true_iff. apply negb_true_iff in Hf2.
  destruct (mem_str (f_name f) (map fst (ser_fields fb l))) eqn:E; [|reflexivity].
  apply mem_str_In in E. apply ser_fields_keys in E. apply mem_str_In in E. congruence.
Qed.

Lemma de_var_ser vs : Forall (fun t => forall v, wf t = true -> has_ty t v = true -> de t (ser t v) = Some v) vs ->
  forall i x k, forallb is_struct vs = true -> all_rejects vs = true -> wf_all vs = true -> ty_var vs i x = true ->
  de_var (ser_var vs i x) vs k = Some (VVar (k + i) x).
Proof.
  induction 1 as [|t vs Ht _ IH]; intros i x k Hs Hr Hw Hty; [destruct i; discriminate|].
  cbn [forallb all_rejects wf_all] in *. apply andb_true_iff in Hs, Hr, Hw. destruct Hs as [Hs1 Hs2], Hr as [Hr1 Hr2], Hw as [Hw1 Hw2].
  destruct i as [|i]; cbn [ser_var ty_var de_var] in *.
  - rewrite (Ht x Hw1 Hty). rewrite Nat.add_0_r. reflexivity.
  - (* the value belongs to a later variant: [t] rejects it *)
    assert (Hrej : de t (ser_var vs i x) = None).
    { clear IH Ht. revert i Hty. induction vs as [|b vs IHv]; intros i Hty; [destruct i; discriminate|].
      cbn [forallb] in Hr1, Hs2. apply andb_true_iff in Hr1, Hs2. destruct Hr1 as [Hb Hr1], Hs2 as [Hsb Hs2].
      destruct i as [|i]; cbn [ser_var ty_var] in *.
      - apply rejects_de; assumption.
      - cbn [all_rejects wf_all] in Hr2, Hw2. apply andb_true_iff in Hr2, Hw2. apply IHv; try tauto. }
    rewrite Hrej. rewrite (IH i x (S k)) by assumption. f_equal. f_equal. lia.
Qed.

(* ------------------------------------------------------------------ the round trip *)
Theorem roundtrip t : forall v, wf t = true -> has_ty t v = true -> de t (ser t v) = Some v.
Proof.
  induction t using ty_ind'; intros v Hw Ht.
  - destruct v; try discriminate Ht. reflexivity.
  - destruct v; try discriminate Ht. reflexivity.
  - destruct v; try discriminate Ht. cbn in *. rewrite Ht. reflexivity.
  - destruct v; try discriminate Ht. reflexivity.
  - destruct v as [| | |o| | | |]; try discriminate Ht. cbn [wf] in Hw. apply andb_true_iff in Hw. destruct Hw as [Hn Hw].
    destruct o as [x|]; [|reflexivity]. cbn [has_ty] in Ht. cbn [ser].
    pose proof (nonnull_ser t x Hn Ht) as Hnn. pose proof (IHt x Hw Ht) as Hd. cbn [de].
    destruct (ser t x); try congruence; rewrite Hd; reflexivity.
  - destruct v as [| | | |l| | |]; try discriminate Ht. cbn [wf has_ty] in *. cbn [ser de]. rewrite mapM_map; [reflexivity|].
    apply Forall_forall. intros x Hx. apply IHt; [exact Hw|]. rewrite forallb_forall in Ht. apply Ht. exact Hx.
  - destruct v as [| | | |l| | |]; try discriminate Ht. cbn [has_ty] in Ht. apply andb_true_iff in Ht. destruct Ht as [Ha Hn].
    cbn [ser de].
    assert (Hl : exists ss, l = map VStr ss).
    { clear Hn. induction l as [|x l IH]; [exists []; reflexivity|]. cbn [forallb] in Ha. apply andb_true_iff in Ha. destruct Ha as [Hx Ha].
      destruct (IH Ha) as [ss ->]. destruct x; try discriminate Hx. exists (s :: ss). reflexivity. }
    destruct Hl as [ss ->].
    assert (Hf : flat_map (fun x => match x with VStr s => [s] | _ => [] end) (map VStr ss) = ss).
    { clear. induction ss as [|s ss IH]; [reflexivity|]. cbn. rewrite IH. reflexivity. }
    rewrite Hf in Hn. rewrite map_map.
    rewrite (mapM_map (fun s => JStr s) (fun x => match x with JStr s => Some s | _ => None end) ss) by (apply Forall_forall; intros; reflexivity).
    cbn [option_map]. rewrite dedup_nodup; [reflexivity|exact Hn|reflexivity].
  - destruct v as [| | | | |l| |]; try discriminate Ht. rewrite wf_struct in Hw. rewrite has_ty_struct in Ht. apply andb_true_iff in Hw. destruct Hw as [Hn Hw].
    rewrite ser_struct, de_struct. rewrite <- (app_nil_l (ser_fields fs l)).
    rewrite (de_fields_ser fs H l [] Hn Hw Ht); [reflexivity|]. reflexivity.
  - destruct v as [| | | | | |i|]; try discriminate Ht. cbn [wf has_ty] in *. cbn [ser de]. apply Nat.ltb_lt in Ht.
    rewrite index_of_nth by assumption. reflexivity.
  - destruct v as [| | | | | | |i x]; try discriminate Ht. rewrite wf_untagged in Hw. rewrite has_ty_untagged in Ht.
    apply andb_true_iff in Hw. destruct Hw as [Hw Hw3]. apply andb_true_iff in Hw. destruct Hw as [Hw1 Hw2].
    rewrite ser_untagged, de_untagged. rewrite (de_var_ser vs H i x 0 Hw1 Hw2 Hw3 Ht). reflexivity.
Qed.

(* re-serialising what was deserialised gives the same JSON *)
Corollary reser t v : wf t = true -> has_ty t v = true ->
  match de t (ser t v) with Some v' => ser t v' = ser t v | None => False end.
Proof. intros Hw Ht. rewrite roundtrip by assumption. reflexivity. Qed.
