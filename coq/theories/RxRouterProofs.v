(* RxRouterProofs.v — MECHANICAL COPY of RIO.RouterProofs for the strengthened pattern shapes of RIO.RxLaws:
   shape_c -> shape_x, tpre_c -> tpre_x, engine_prefix_law -> engine_prefix_law_x, the prefix.rs structure
   lemmas *_c -> *_x (RIO.RxTreeInst).  No proof script was changed.  Original header follows. *)
(* RxRouterProofs.v — SchemeMatcher over HostMatcher, and Router: every operation keeps the router a
   representation of the flat list of live routes; matching is RIO.RouterSpec.spec_match on that list
   (C01); histories of operations refine the flat list (C02); cache is invisible (C12); the explain
   trace lists the matched routes (C17). *)
Require Import RIO.Base RIO.Prefix RIO.Route RIO.Layer RIO.Tree RIO.TreeProofs RIO.TreeInst RIO.RxLaws RIO.RxTreeInst RIO.Matchers RIO.MatcherSpec
               RIO.LayerProofs RIO.RxPathProofs RIO.RxMatchersProofs RIO.RxHostProofs RIO.RouterSpec RIO.RouterHist.
Close Scope N_scope.
Open Scope nat_scope.

Section RxRouterProofs.
Variable lower : str -> str.
Variable eng : bool -> pat -> list N -> bool.
Variable valid : bool -> pat -> bool.
Variables ic_host ic_path always : bool.
Hypothesis Hd : engine_dotstar eng.
Hypothesis Hp : engine_prefix_law_x eng.

Notation hops := (host_ops lower eng valid ic_host ic_path always).
Notation scops := (sc_ops lower eng valid ic_host ic_path always).
Definition Rhost := host_mrep lower eng valid ic_host ic_path always Hd Hp.
Definition hmatch := host_match eng ic_host.
Definition pmatch := RxMatchersProofs.path_match eng ic_path.
Notation mscope := (match_scope lower (eng false) hmatch pmatch always).
Notation smatch := (spec_match lower (eng false) hmatch pmatch always).

(* a route the router accepts *)
Definition ok_route (r : route) : Prop := ok str str_eqb sc_keys (ok_host lower) r.

Definition Rsc : mrep scops ok_route :=
  layer_mrep str hostm str_eqb hops sc_keys unit tt sc_sel sc_sel_t false (ok_host lower) Rhost
             str_eqb_refl str_eqb_sym (fun a b c H1 H2 => proj2 (str_eqb_spec a c) (eq_trans (proj1 (str_eqb_spec a b) H1) (proj1 (str_eqb_spec b c) H2))).

Lemma ok_route_intro r :
  RxPathProofs.ok_path r ->
  match rt_host r with Some (SDynamic re) => shape_x re /\ re <> [] | _ => True end ->
  NoDup (match rt_ips r with Some ips => ips | None => [] end) ->
  NoDup (match rt_methods r with Some ms => ms | None => [] end) ->
  ok_route r.
Proof.
  intros H1 H2 H3 H4. unfold ok_route, ok. split; [split; [apply ok_below_intro; assumption|exact H2]|].
  unfold keys_ok, sc_keys. destruct (rt_scheme r) as [s|]; [destruct (is_nil s)|]; repeat constructor.
Qed.

(* ---- scheme keys vs the scoping predicates of the reference ---- *)
Lemma sc_nokeys r : nokeys str sc_keys r = any_scheme r.
Proof. unfold nokeys, sc_keys, any_scheme. destruct (rt_scheme r) as [s|]; [destruct (is_nil s)|]; reflexivity. Qed.
Lemma sc_has_key s r : has_key str str_eqb sc_keys s r = in_scheme s r.
Proof.
  unfold has_key, sc_keys, in_scheme. destruct (rt_scheme r) as [s'|]; [|reflexivity].
  destruct (is_nil s'); cbn; [reflexivity|]. rewrite orb_false_r. apply str_eqb_sym.
Qed.
Lemma filter_ext' {A} (f g : A -> bool) l : (forall x, f x = g x) -> filter f l = filter g l.
Proof. intros H. induction l as [|x l IH]; cbn; [reflexivity|]. rewrite H, IH. reflexivity. Qed.

Lemma mscope_nil q : mscope [] q = [].
Proof. unfold match_scope. cbn. destruct always; reflexivity. Qed.

Definition sc_selects (q : request) (k : str) : bool := fst (sc_sel q tt k).
Definition sc_selects_t (q : request) (k : str) : bool := fst (sc_sel_t q tt k).

(* the consulted scheme bucket, as a permutation of what the reference computes for that scope *)
Lemma sc_bsel_some q s (fd : hostm -> list route) (bs : list (str * hostm)) L :
  Forall (fun km => Permutation (fd (snd km)) (mscope (filter (has_key str str_eqb sc_keys (fst km)) L) q)) bs ->
  ForallOrdPairs (kneq str str_eqb) (map fst bs) ->
  (forall r, In r L -> in_scheme s r = true -> exists km, In km bs /\ str_eqb s (fst km) = true) ->
  Permutation (flat_map (fun km : str * hostm => if str_eqb (fst km) s then fd (snd km) else []) bs)
              (mscope (filter (in_scheme s) L) q).
Proof.
  intros Hb Hk Hc. induction bs as [|[k H] bs IH]; cbn [flat_map].
  - assert (filter (in_scheme s) L = []) as ->; [|rewrite mscope_nil; constructor].
    assert (Hnone : forall r, In r L -> in_scheme s r = false).
    { intros r Hr. destruct (in_scheme s r) eqn:E; [|reflexivity]. destruct (Hc r Hr E) as (km & [] & _). }
    clear - Hnone. induction L as [|r L IH]; cbn; [reflexivity|]. rewrite (Hnone r (or_introl eq_refl)). apply IH. intros; apply Hnone; right; assumption.
  - inversion Hb as [|? ? Hb1 Hb2]; subst. cbn [map] in Hk. inversion Hk as [|? ? Hk1 Hk2]; subst. cbn [fst snd] in *.
    destruct (str_eqb k s) eqn:E.
    + apply str_eqb_spec in E. subst k.
      assert (Hrest : flat_map (fun km : str * hostm => if str_eqb (fst km) s then fd (snd km) else []) bs = []).
      { clear - Hk1. induction bs as [|[k' H'] bs IHb]; cbn; [reflexivity|]. inversion Hk1; subst. unfold kneq in H1. cbn in H1.
        rewrite str_eqb_sym, H1. cbn. apply IHb. assumption. }
      rewrite Hrest, app_nil_r. rewrite (filter_ext' _ _ L (sc_has_key s)) in Hb1. exact Hb1.
    + cbn [app]. apply IH; try assumption.
      intros r Hr Hs. destruct (Hc r Hr Hs) as (km & [Hkm|Hkm] & Ekm); [|exists km; auto].
      subst km. cbn in Ekm. rewrite str_eqb_sym in Ekm. congruence.
Qed.

Lemma sc_bsel_perm q (fd : hostm -> list route) (bs : list (str * hostm)) L :
  Forall (fun km => Permutation (fd (snd km)) (mscope (filter (has_key str str_eqb sc_keys (fst km)) L) q)) bs ->
  ForallOrdPairs (kneq str str_eqb) (map fst bs) ->
  (forall r k, In r L -> In k (sc_keys r) -> exists km, In km bs /\ str_eqb k (fst km) = true) ->
  Permutation (bsel str hostm sc_selects q fd bs)
              (match q_scheme q with Some s => mscope (filter (in_scheme s) L) q | None => [] end).
Proof.
  intros Hb Hk Hc. unfold bsel, sc_selects, sc_sel. cbn [fst]. destruct (q_scheme q) as [s|].
  - apply sc_bsel_some; try assumption.
    intros r Hr Hs. unfold in_scheme in Hs. destruct (rt_scheme r) as [s'|] eqn:Es; [|discriminate]. apply andb_prop in Hs. destruct Hs as [E1 E2].
    apply str_eqb_spec in E2. subst s'. apply (Hc r s Hr). unfold sc_keys. rewrite Es. destruct (is_nil s); [discriminate|left; reflexivity].
  - clear. induction bs as [|km bs IH]; cbn; [constructor|exact IH].
Qed.

(* ---- SchemeMatcher: matching = spec_match on the represented list ---- *)
Theorem sc_match_spec S L q : repr Rsc S L -> NoDup (ids L) ->
  Permutation (m_match scops q S) (smatch L q).
Proof.
  intros Hr Hn. cbn [repr Rsc layer_mrep] in Hr. unfold lrepr, bks_ok in Hr. destruct Hr as (Hdflt & (Hb & Hk & Hc) & _).
  cbn [m_match sc_ops layer_ops]. unfold l_match, spec_match.
  rewrite (buckets_match_eq str hostm hops unit sc_sel sc_selects (fun _ _ => True)) by (intros; try destruct memo; auto).
  apply Permutation_app.
  - rewrite <- (filter_ext' _ _ L sc_nokeys). apply (h_match_scope lower eng valid ic_host ic_path always Hd Hp); [exact Hdflt|apply ids_filter_nodup; exact Hn].
  - apply sc_bsel_perm; try assumption.
    apply Forall_forall. intros km Hkm. rewrite Forall_forall in Hb. specialize (Hb km Hkm).
    apply (h_match_scope lower eng valid ic_host ic_path always Hd Hp); [exact Hb|apply ids_filter_nodup; exact Hn].
Qed.

(* ---- the trace of the scheme matcher lists the matched routes ---- *)
Lemma in_bsel {Sub} (sel : request -> str -> bool) q (fd : Sub -> list route) bs r :
  In r (bsel str Sub sel q fd bs) <-> exists km, In km bs /\ sel q (fst km) = true /\ In r (fd (snd km)).
Proof.
  unfold bsel. rewrite in_flat_map. split.
  - intros (km & Hkm & Hin). exists km. split; [exact Hkm|]. destruct (sel q (fst km)); [auto|destruct Hin].
  - intros (km & Hkm & Hs & Hin). exists km. split; [exact Hkm|]. rewrite Hs. exact Hin.
Qed.

Theorem sc_trace_spec S L q r : repr Rsc S L -> NoDup (ids L) ->
  (In r (traces_routes (m_trace scops q S)) <-> In r (smatch L q)).
Proof.
  intros Hr Hn. pose proof (sc_match_spec S L q Hr Hn) as Hmatch.
  cbn [repr Rsc layer_mrep] in Hr. unfold lrepr, bks_ok in Hr. destruct Hr as (Hdflt & (Hb & Hk & Hc) & _).
  (* membership in the match result, bucket-wise *)
  assert (Hm : In r (m_match scops q S) <-> In r (smatch L q)).
  { split; intros H; [eapply Permutation_in; [exact Hmatch|exact H]|eapply Permutation_in; [apply Permutation_sym; exact Hmatch|exact H]]. }
  rewrite <- Hm. cbn [m_trace m_match sc_ops layer_ops]. unfold l_trace, l_match, traces_routes. rewrite flat_map_app, !in_app_iff.
  fold (traces_routes (m_trace hops q (l_default S))).
  fold (traces_routes (buckets_trace str hostm hops unit sc_sel_t q tt (l_buckets S))).
  rewrite (buckets_trace_eq str hostm hops unit sc_sel_t sc_selects_t (fun _ _ => True)) by (intros; try destruct memo; auto).
  rewrite (buckets_match_eq str hostm hops unit sc_sel sc_selects (fun _ _ => True)) by (intros; try destruct memo; auto).
  assert (Hd1 : In r (traces_routes (m_trace hops q (l_default S))) <-> In r (m_match hops q (l_default S))).
  { rewrite (h_trace_scope lower eng valid ic_host ic_path always Hd Hp _ _ q Hdflt (ids_filter_nodup _ L Hn)).
    split; intros H; [eapply Permutation_in; [apply Permutation_sym, (h_match_scope lower eng valid ic_host ic_path always Hd Hp _ _ q Hdflt (ids_filter_nodup _ L Hn))|exact H]
                     |eapply Permutation_in; [apply (h_match_scope lower eng valid ic_host ic_path always Hd Hp _ _ q Hdflt (ids_filter_nodup _ L Hn))|exact H]]. }
  rewrite Hd1. apply or_iff_compat_l. rewrite !in_bsel. rewrite Forall_forall in Hb.
  split; intros (km & Hkm & Hs & Hin).
  - (* consulted by trace(): the scheme is non-empty and equal to the key *)
    exists km. split; [exact Hkm|]. unfold sc_selects_t, sc_sel_t, sc_selects, sc_sel in *. cbn [fst] in *.
    destruct (q_scheme q) as [s|]; [|discriminate]. apply andb_prop in Hs. destruct Hs as [Hs1 _]. split; [exact Hs1|].
    specialize (Hb km Hkm).
    rewrite (h_trace_scope lower eng valid ic_host ic_path always Hd Hp _ _ q Hb (ids_filter_nodup _ L Hn)) in Hin.
    eapply Permutation_in; [apply Permutation_sym, (h_match_scope lower eng valid ic_host ic_path always Hd Hp _ _ q Hb (ids_filter_nodup _ L Hn))|exact Hin].
  - exists km. split; [exact Hkm|]. specialize (Hb km Hkm).
    assert (Hin' : In r (mscope (filter (has_key str str_eqb sc_keys (fst km)) L) q)).
    { eapply Permutation_in; [apply (h_match_scope lower eng valid ic_host ic_path always Hd Hp _ _ q Hb (ids_filter_nodup _ L Hn))|exact Hin]. }
    split; [|rewrite (h_trace_scope lower eng valid ic_host ic_path always Hd Hp _ _ q Hb (ids_filter_nodup _ L Hn)); exact Hin'].
    unfold sc_selects_t, sc_sel_t, sc_selects, sc_sel in *. cbn [fst] in *. destruct (q_scheme q) as [s|]; [|discriminate].
    rewrite Hs. cbn. apply str_eqb_spec in Hs. subst s.
    (* the bucket is non-empty (it returned r), so its key is the non-empty scheme of r *)
    destruct (fst km) as [|c k'] eqn:Ek; [|reflexivity]. exfalso.
    assert (Hr' : In r (filter (has_key str str_eqb sc_keys []) L)).
    { unfold match_scope in Hin'. destruct (always || _) in Hin'; [apply in_app_iff in Hin'; destruct Hin' as [H|H]|]; apply filter_In in H || apply filter_In in Hin'; tauto. }
    apply filter_In in Hr'. destruct Hr' as [_ Hk']. unfold has_key, sc_keys in Hk'. destruct (rt_scheme r) as [s'|]; [|discriminate].
    destruct s'; cbn in Hk'; discriminate.
Qed.

(* ================================================================== Router *)
Definition rrepr (R : router) (L : list route) : Prop :=
  repr Rsc (r_matcher R) L
  /\ Permutation (map snd (r_routes R)) L
  /\ Forall (fun e => rt_id (snd e) = fst e) (r_routes R)
  /\ NoDup (map fst (r_routes R))
  /\ NoDup (ids L).

Notation rnew := (router_new lower eng valid ic_host ic_path always).
Notation rins := (router_insert lower eng valid ic_host ic_path always).
Notation rrem := (router_remove lower eng valid ic_host ic_path always).
Notation rbatch := (router_batch_remove lower eng valid ic_host ic_path always).
Notation rchange := (router_apply_change_set lower eng valid ic_host ic_path always).
Notation rcache := (router_cache lower eng valid ic_host ic_path always).
Notation rmatch := (router_match lower eng valid ic_host ic_path always).
Notation rtrace := (router_trace lower eng valid ic_host ic_path always).

Lemma rrepr_perm R L L' : rrepr R L -> Permutation L L' -> rrepr R L'.
Proof.
  intros (H1 & H2 & H3 & H4 & H5) Hp'. split; [|split; [|split; [|split]]]; try assumption.
  - eapply (repr_perm Rsc); eassumption.
  - eapply Permutation_trans; eassumption.
  - eapply Permutation_NoDup; [apply Permutation_map; exact Hp'|exact H5].
Qed.

Lemma rrepr_new : rrepr rnew [].
Proof. unfold rrepr. split; [apply (repr_new Rsc)|]. cbn. split; [constructor|]. split; [constructor|]. split; constructor. Qed.

Lemma keys_ids R L : rrepr R L -> forall id, In id (map fst (r_routes R)) <-> In id (ids L).
Proof.
  intros (_ & H2 & H3 & _ & _) id. unfold ids.
  assert (Hk : map fst (r_routes R) = map rt_id (map snd (r_routes R))).
  { rewrite map_map. apply map_ext_in. intros e He. rewrite Forall_forall in H3. symmetry. apply H3. exact He. }
  rewrite Hk. split; intros H; [eapply Permutation_in; [apply Permutation_map; exact H2|exact H]
                              |eapply Permutation_in; [apply Permutation_map, Permutation_sym; exact H2|exact H]].
Qed.

Lemma assoc_keys {A} id (m : list (str * A)) : (exists v, assoc id m = Some v) <-> In id (map fst m).
Proof.
  induction m as [|[k v] m IH]; cbn.
  - split; [intros [v H]; discriminate|intros []].
  - destruct (str_eqb id k) eqn:E.
    + apply str_eqb_spec in E. subst. split; [auto|intros _; exists v; reflexivity].
    + rewrite IH. split; [auto|intros [H|H]; [subst; rewrite str_eqb_refl in E; discriminate|exact H]].
Qed.

Lemma routes_set_fresh id r (m : list (str * route)) : ~ In id (map fst m) -> routes_set id r m = m ++ [(id, r)].
Proof.
  induction m as [|[k v] m IH]; cbn; intros H; [reflexivity|].
  destruct (str_eqb id k) eqn:E; [apply str_eqb_spec in E; subst; tauto|]. rewrite IH by tauto. reflexivity.
Qed.

Lemma rrepr_insert R L r : rrepr R L -> ~ In (rt_id r) (ids L) -> ok_route r -> rrepr (rins r R) (r :: L).
Proof.
  intros HR Hf Hok. pose proof (keys_ids R L HR) as Hki. destruct HR as (H1 & H2 & H3 & H4 & H5).
  unfold router_insert, rrepr. cbn [r_matcher r_routes].
  assert (Hfk : ~ In (rt_id r) (map fst (r_routes R))) by (rewrite Hki; exact Hf).
  rewrite (routes_set_fresh _ _ _ Hfk). split; [|split; [|split; [|split]]].
  - apply (repr_insert Rsc); assumption.
  - rewrite map_app. cbn. eapply Permutation_trans; [apply Permutation_sym, Permutation_cons_append|]. constructor. exact H2.
  - apply Forall_app. split; [exact H3|constructor; [reflexivity|constructor]].
  - rewrite map_app. cbn. eapply Permutation_NoDup; [apply Permutation_cons_append|]. constructor; assumption.
  - unfold ids. cbn. constructor; assumption.
Qed.

Lemma filter_routes_map (P : str -> bool) (m : list (str * route)) : Forall (fun e => rt_id (snd e) = fst e) m ->
  map snd (filter (fun e => P (fst e)) m) = filter (fun r => P (rt_id r)) (map snd m).
Proof.
  induction m as [|[k v] m IH]; cbn; intros H; [reflexivity|]. inversion H; subst. cbn in H2. rewrite H2.
  destruct (P k); cbn; rewrite IH by assumption; reflexivity.
Qed.
Lemma NoDup_map_filter {A B} (f : A -> B) (P : A -> bool) l : NoDup (map f l) -> NoDup (map f (filter P l)).
Proof.
  induction l as [|x l IH]; cbn; intros H; [constructor|]. inversion H; subst. destruct (P x); cbn; [constructor; [|auto]|auto].
  intros Hin. apply H2. apply in_map_iff in Hin. destruct Hin as (y & Hy & Hin). apply filter_In in Hin. apply in_map_iff. exists y. tauto.
Qed.

Lemma find_id_none' id L : ~ In id (ids L) -> find_id id L = None.
Proof.
  unfold find_id, ids. induction L as [|x L IH]; cbn; intros H; [reflexivity|].
  destruct (str_eqb (rt_id x) id) eqn:E; [apply str_eqb_spec in E; tauto|]. apply IH. tauto.
Qed.

Lemma rrepr_remove R L id : rrepr R L ->
  rrepr (fst (rrem id R)) (without_id id L) /\ snd (rrem id R) = find_id id L.
Proof.
  intros HR. pose proof (keys_ids R L HR id) as Hki. destruct HR as (H1 & H2 & H3 & H4 & H5). unfold router_remove.
  destruct (assoc id (r_routes R)) as [v|] eqn:Ea.
  - destruct (repr_remove Rsc _ _ id H1 H5) as [Hr1 Hr2].
    destruct (m_remove scops id (r_matcher R)) as [m' o]. cbn [fst snd] in *. split; [|exact Hr2].
    unfold rrepr. cbn [r_matcher r_routes]. split; [exact Hr1|]. split; [|split; [|split]].
    + rewrite (filter_routes_map (fun k => negb (str_eqb k id)) _ H3). unfold without_id. apply Permutation_filter'. exact H2.
    + apply Forall_forall. intros e He. apply filter_In in He. rewrite Forall_forall in H3. apply H3. tauto.
    + apply NoDup_map_filter. exact H4.
    + apply ids_without_id. exact H5.
  - cbn [fst snd]. assert (Hn : ~ In id (ids L)).
    { rewrite <- Hki. intros Hin. apply assoc_keys in Hin. destruct Hin as [v Hv]. congruence. }
    split; [|symmetry; apply find_id_none'; exact Hn].
    assert (without_id id L = L) as ->; [|unfold rrepr; auto].
    unfold without_id. clear - Hn. unfold ids in Hn. induction L as [|r L IH]; cbn; [reflexivity|]. cbn in Hn.
    destruct (str_eqb (rt_id r) id) eqn:E; [apply str_eqb_spec in E; tauto|]. cbn. f_equal. apply IH. tauto.
Qed.

Lemma rrepr_batch R L xs : rrepr R L -> rrepr (rbatch xs R) (without_ids xs L).
Proof.
  intros (H1 & H2 & H3 & H4 & H5). unfold router_batch_remove, rrepr. cbn [r_matcher r_routes]. split; [|split; [|split; [|split]]].
  - apply (repr_batch Rsc); assumption.
  - rewrite (filter_routes_map (fun k => negb (mem_str k xs)) _ H3). unfold without_ids. apply Permutation_filter'. exact H2.
  - apply Forall_forall. intros e He. apply filter_In in He. rewrite Forall_forall in H3. apply H3. tauto.
  - apply NoDup_map_filter. exact H4.
  - apply ids_without_ids. exact H5.
Qed.

Lemma rrepr_inserts rs : forall R L, rrepr R L -> Forall ok_route rs -> NoDup (ids rs) -> (forall r, In r rs -> ~ In (rt_id r) (ids L)) ->
  rrepr (fold_left (fun R r => rins r R) rs R) (rev rs ++ L).
Proof.
  induction rs as [|r rs IH]; intros R L HR Hok Hnd Hf; cbn [fold_left rev app]; [exact HR|].
  inversion Hok; subst. unfold ids in Hnd. cbn in Hnd. inversion Hnd; subst.
  rewrite <- app_assoc. cbn [app]. apply IH; try assumption.
  - apply rrepr_insert; [exact HR|apply Hf; left; reflexivity|assumption].
  - intros x Hx. unfold ids. cbn. intros [E|Hin]; [apply H3; rewrite E; apply in_map; exact Hx|apply (Hf x (or_intror Hx)); exact Hin].
Qed.

Lemma rcache_loop_repr fuel : forall m L prev level retry, repr Rsc m L ->
  repr Rsc (router_cache_loop lower eng valid ic_host ic_path always fuel m prev level retry) L.
Proof.
  induction fuel as [|f IH]; intros m L prev level retry Hm; cbn [router_cache_loop]; [exact Hm|].
  destruct (N.eqb prev 0); [exact Hm|].
  pose proof (repr_cache Rsc m L prev level Hm) as Hc. destruct (m_cache scops prev level m) as [m' next]. cbn [fst] in Hc.
  destruct (N.eqb next prev && Nat.ltb 5 _); [exact Hc|]. apply IH. exact Hc.
Qed.

Lemma rrepr_cache R L limit : rrepr R L -> rrepr (rcache limit R) L.
Proof.
  intros (H1 & H2 & H3 & H4 & H5). unfold router_cache, rrepr. cbn [r_matcher r_routes].
  split; [apply rcache_loop_repr; exact H1|auto].
Qed.

(* ---- matching, length, trace on a represented router ---- *)
Theorem rmatch_spec R L q : rrepr R L -> Permutation (rmatch q R) (smatch L q).
Proof. intros (H1 & _ & _ & _ & H5). apply sc_match_spec; assumption. Qed.

Theorem rlen_spec R L : rrepr R L -> router_len R = length L.
Proof. intros (_ & H2 & _). unfold router_len. rewrite <- (Permutation_length H2), map_length. reflexivity. Qed.

Theorem rtrace_spec R L q r : rrepr R L -> (In r (traces_routes (rtrace q R)) <-> In r (rmatch q R)).
Proof.
  intros HR. pose proof (rmatch_spec R L q HR) as Hm. destruct HR as (H1 & _ & _ & _ & H5).
  unfold router_trace. rewrite (sc_trace_spec _ L q r H1 H5).
  split; intros H; [eapply Permutation_in; [apply Permutation_sym; exact Hm|exact H]|eapply Permutation_in; [exact Hm|exact H]].
Qed.

(* ================================================================== histories *)
Notation rstep' := (rstep lower eng valid ic_host ic_path always).
Notation rrun' := (rrun lower eng valid ic_host ic_path always).

(* admissible histories: live ids stay unique, inserted routes are acceptable *)
Definition op_ok (L : list route) (o : rop) : Prop :=
  match o with
  | RIns r => ok_route r /\ ~ In (rt_id r) (ids L)
  | RChange a u d =>
      Forall ok_route (u ++ a) /\ NoDup (ids (u ++ a))
      /\ (forall r, In r a -> ~ In (rt_id r) (ids (without_ids (d ++ map rt_id u) L)))
  | _ => True
  end.
Fixpoint hist_ok (L : list route) (ops : list rop) : Prop :=
  match ops with
  | [] => True
  | o :: ops' => op_ok L o /\ hist_ok (live_step L o) ops'
  end.

Lemma filter_absent_id (L : list route) id : ~ In id (ids L) -> filter (fun x => negb (str_eqb (rt_id x) id)) L = L.
Proof.
  unfold ids. induction L as [|r L IH]; cbn; intros H; [reflexivity|].
  destruct (str_eqb (rt_id r) id) eqn:E; [apply str_eqb_spec in E; tauto|]. cbn. f_equal. apply IH. tauto.
Qed.

Lemma without_ids_single id L : filter (fun r => negb (mem_str (rt_id r) [id])) L = without_id id L.
Proof. unfold without_id. apply filter_ext'. intros r. unfold mem_str. cbn. rewrite orb_false_r. reflexivity. Qed.

Lemma NoDup_app_parts {A} (a b : list A) : NoDup (a ++ b) -> NoDup a /\ NoDup b /\ (forall x, In x a -> ~ In x b).
Proof.
  induction a as [|x a IH]; cbn; intros H; [repeat split; [constructor|exact H|intros x []]|].
  inversion H; subst. destruct (IH H3) as (Ha & Hb & Hd'). repeat split; [constructor; [intros Hin; apply H2; apply in_or_app; left; exact Hin|exact Ha]|exact Hb|].
  intros y [<-|Hy]; [intros Hin; apply H2; apply in_or_app; right; exact Hin|apply Hd'; exact Hy].
Qed.

Lemma ids_without_ids_notin xs L id : In id (ids (without_ids xs L)) -> ~ In id xs.
Proof.
  unfold ids, without_ids. intros H. apply in_map_iff in H. destruct H as (r & <- & Hr). apply filter_In in Hr. destruct Hr as [_ Hm].
  apply negb_true_iff in Hm. intros Hin. apply mem_str_In in Hin. congruence.
Qed.

Lemma rstep_refines R L o : rrepr R L -> op_ok L o -> rrepr (rstep' R o) (live_step L o).
Proof.
  intros HR Hok. destruct o as [r|id|xs|a u d|l|ops]; cbn [rstep live_step].
  - destruct Hok as [Hok Hf]. rewrite (filter_absent_id L _ Hf).
    eapply rrepr_perm; [apply rrepr_insert; eassumption|]. apply Permutation_cons_append.
  - rewrite without_ids_single. apply rrepr_remove. exact HR.
  - apply rrepr_batch. exact HR.
  - destruct Hok as (Hoks & Hnd & Hfa). unfold router_apply_change_set.
    pose proof (rrepr_batch R L (d ++ map rt_id u) HR) as HB.
    apply Forall_app in Hoks. destruct Hoks as [Hou Hoa].
    unfold ids in Hnd. rewrite map_app in Hnd. destruct (NoDup_app_parts _ _ Hnd) as (Hndu & Hnda & Hdis).
    assert (HU := rrepr_inserts u _ _ HB Hou Hndu).
    assert (Hfu : forall r, In r u -> ~ In (rt_id r) (ids (without_ids (d ++ map rt_id u) L))).
    { intros r Hr Hin. apply ids_without_ids_notin in Hin. apply Hin. apply in_or_app. right. apply in_map. exact Hr. }
    specialize (HU Hfu).
    assert (HA := rrepr_inserts a _ _ HU Hoa Hnda).
    assert (Hfa' : forall r, In r a -> ~ In (rt_id r) (ids (rev u ++ without_ids (d ++ map rt_id u) L))).
    { intros r Hr. unfold ids. rewrite map_app, in_app_iff. intros [Hin|Hin].
      - rewrite map_rev, <- in_rev in Hin. apply (Hdis (rt_id r)); [exact Hin|apply in_map; exact Hr].
      - apply (Hfa r Hr). exact Hin. }
    specialize (HA Hfa').
    eapply rrepr_perm; [exact HA|].
    eapply Permutation_trans; [apply Permutation_app_comm|]. rewrite (app_assoc _ u a).
    apply Permutation_app; [|apply Permutation_sym, Permutation_rev].
    eapply Permutation_trans; [apply Permutation_app_comm|]. apply Permutation_app_head. apply Permutation_sym, Permutation_rev.
  - apply rrepr_cache. exact HR.
  - exact HR.
Qed.

Theorem rrun_refines ops : forall R L, rrepr R L -> hist_ok L ops -> rrepr (rrun' ops R) (live_from L ops).
Proof.
  induction ops as [|o ops IH]; intros R L HR Hok; cbn [rrun fold_left live_from]; [exact HR|].
  destruct Hok as [Ho Hok]. apply IH; [apply rstep_refines; assumption|exact Hok].
Qed.

(* ---- C02: after any admissible history the router answers like the flat list of live routes ---- *)
Theorem hist_match ops q : hist_ok [] ops -> Permutation (rmatch q (rrun' ops rnew)) (smatch (live ops) q).
Proof. intros Hok. apply rmatch_spec. apply (rrun_refines ops rnew [] rrepr_new Hok). Qed.

Theorem hist_len ops : hist_ok [] ops -> router_len (rrun' ops rnew) = length (live ops).
Proof. intros Hok. apply rlen_spec. apply (rrun_refines ops rnew [] rrepr_new Hok). Qed.

Theorem hist_remove ops id : hist_ok [] ops -> snd (rrem id (rrun' ops rnew)) = find_id id (live ops).
Proof. intros Hok. apply rrepr_remove. apply (rrun_refines ops rnew [] rrepr_new Hok). Qed.

Theorem hist_live_nodup ops : hist_ok [] ops -> NoDup (ids (live ops)).
Proof. intros Hok. destruct (rrun_refines ops rnew [] rrepr_new Hok) as (_ & _ & _ & _ & H). exact H. Qed.

(* ---- C01: a router built from a rule set ---- *)
Lemma build_hist_ok rs : forall L, Forall ok_route rs -> NoDup (ids rs) -> (forall r, In r rs -> ~ In (rt_id r) (ids L)) ->
  hist_ok L (map RIns rs) /\ Permutation (live_from L (map RIns rs)) (L ++ rs).
Proof.
  induction rs as [|r rs IH]; intros L Hok Hnd Hf; cbn [map hist_ok live_from fold_left]; [rewrite app_nil_r; split; [exact I|apply Permutation_refl]|].
  inversion Hok; subst. unfold ids in Hnd. cbn in Hnd. inversion Hnd; subst.
  assert (Hfr : ~ In (rt_id r) (ids L)) by (apply Hf; left; reflexivity).
  cbn [live_step]. rewrite (filter_absent_id L _ Hfr).
  destruct (IH (L ++ [r]) H2 H4) as [I1 I2].
  { intros x Hx. unfold ids. rewrite map_app, in_app_iff. cbn. intros [Hin|[E|[]]]; [apply (Hf x (or_intror Hx)); exact Hin|apply H3; rewrite E; apply in_map; exact Hx]. }
  split; [split; [split; assumption|exact I1]|]. rewrite <- app_assoc in I2. exact I2.
Qed.

Theorem build_match rs q : Forall ok_route rs -> NoDup (ids rs) ->
  Permutation (rmatch q (rbuild lower eng valid ic_host ic_path always rs)) (smatch rs q).
Proof.
  intros Hok Hnd. destruct (build_hist_ok rs [] Hok Hnd (fun _ _ H => H)) as [H1 H2]. cbn [app] in H2.
  unfold rbuild. pose proof (rrun_refines _ rnew [] rrepr_new H1) as HR.
  apply rmatch_spec. eapply rrepr_perm; eassumption.
Qed.

(* the same rule set inserted in any order answers alike *)
Theorem build_match_any_order rs rs' q : Forall ok_route rs -> NoDup (ids rs) -> Permutation rs rs' ->
  Permutation (rmatch q (rbuild lower eng valid ic_host ic_path always rs)) (rmatch q (rbuild lower eng valid ic_host ic_path always rs')).
Proof.
  intros Hok Hnd Hperm.
  assert (Hok' : Forall ok_route rs') by (eapply Permutation_Forall; eassumption).
  assert (Hnd' : NoDup (ids rs')) by (eapply Permutation_NoDup; [apply Permutation_map; exact Hperm|exact Hnd]).
  destruct (build_hist_ok rs [] Hok Hnd (fun _ _ H => H)) as [H1 H2]. cbn [app] in H2.
  pose proof (rrun_refines _ rnew [] rrepr_new H1) as HR.
  eapply Permutation_trans; [unfold rbuild; apply (rmatch_spec _ rs'); eapply rrepr_perm; [exact HR|eapply Permutation_trans; eassumption]|].
  apply Permutation_sym, build_match; assumption.
Qed.

(* incremental = rebuilt from the live set *)
Theorem hist_match_rebuild ops q : hist_ok [] ops -> Forall ok_route (live ops) ->
  Permutation (rmatch q (rrun' ops rnew)) (rmatch q (rbuild lower eng valid ic_host ic_path always (live ops))).
Proof.
  intros Hok Hall. eapply Permutation_trans; [apply hist_match; exact Hok|].
  apply Permutation_sym. apply build_match; [exact Hall|apply hist_live_nodup; exact Hok].
Qed.

(* ... and = rebuilt from the live set inserted in ANY order *)
Theorem hist_match_rebuild_perm ops rs q : hist_ok [] ops -> Forall ok_route rs -> Permutation (live ops) rs ->
  Permutation (rmatch q (rrun' ops rnew)) (rmatch q (rbuild lower eng valid ic_host ic_path always rs)).
Proof.
  intros Hok Hall Hperm. pose proof (rrun_refines ops rnew [] rrepr_new Hok) as HR.
  eapply Permutation_trans; [apply (rmatch_spec _ rs); eapply rrepr_perm; [exact HR|exact Hperm]|].
  apply Permutation_sym, build_match; [exact Hall|].
  eapply Permutation_NoDup; [apply Permutation_map; exact Hperm|apply hist_live_nodup; exact Hok].
Qed.

(* ---- C12: cache warm-up at any point is invisible ---- *)
Theorem cache_invisible R L limit q : rrepr R L -> Permutation (rmatch q (rcache limit R)) (rmatch q R).
Proof.
  intros HR. eapply Permutation_trans; [apply (rmatch_spec _ L); apply rrepr_cache; exact HR|apply Permutation_sym, rmatch_spec; exact HR].
Qed.

(* ---- C17: final route of the trace has the priority of get_route ---- *)
Definition max_prio (l : list route) : option Z :=
  fold_left (fun acc r => match acc with None => Some (rt_priority r) | Some p => Some (Z.max p (rt_priority r)) end) l None.

Lemma best_route_prio l : option_map rt_priority (best_route l) = max_prio l.
Proof.
  unfold best_route, max_prio.
  assert (H : forall acc, option_map rt_priority (fold_left (fun acc r => match acc with None => Some r | Some b => if Z.ltb (rt_priority b) (rt_priority r) then Some r else Some b end) l acc)
            = fold_left (fun acc r => match acc with None => Some (rt_priority r) | Some p => Some (Z.max p (rt_priority r)) end) l (option_map rt_priority acc)).
  { induction l as [|r l IH]; intros acc; cbn [fold_left]; [reflexivity|]. rewrite IH. f_equal. destruct acc as [b|]; cbn; [|reflexivity].
    destruct (Z.ltb (rt_priority b) (rt_priority r)) eqn:E; cbn; f_equal; [apply Z.ltb_lt in E|apply Z.ltb_ge in E]; lia. }
  apply (H None).
Qed.

Lemma max_prio_set l1 l2 : (forall r, In r l1 <-> In r l2) -> max_prio l1 = max_prio l2.
Proof.
  (* max over a list only depends on the set of priorities *)
  assert (Hmax : forall l acc, fold_left (fun acc r => match acc with None => Some (rt_priority r) | Some p => Some (Z.max p (rt_priority r)) end) l acc
                 = match acc, l with
                   | None, [] => None
                   | _, _ => Some (fold_left (fun p r => Z.max p (rt_priority r)) l (match acc with Some p => p | None => match l with r :: _ => rt_priority r | [] => 0%Z end end))
                   end).
  { induction l as [|r l IH]; intros acc; cbn [fold_left]; [destruct acc; reflexivity|]. rewrite IH. destruct acc as [p|]; cbn.
    - destruct l; reflexivity.
    - destruct l; cbn; rewrite ?Z.max_id; reflexivity. }
  assert (Hub : forall l p0 x, In x l -> (rt_priority x <= fold_left (fun p r => Z.max p (rt_priority r)) l p0)%Z).
  { induction l as [|r l IH]; intros p0 x Hx; [destruct Hx|]. cbn [fold_left]. destruct Hx as [->|Hx].
    - assert (Hmono : forall l p, (p <= fold_left (fun p r => Z.max p (rt_priority r)) l p)%Z).
      { clear. induction l as [|r l IH]; intros p; cbn; [lia|]. specialize (IH (Z.max p (rt_priority r))). lia. }
      specialize (Hmono l (Z.max p0 (rt_priority x))). lia.
    - apply IH. exact Hx. }
  assert (Hat : forall l p0, fold_left (fun p r => Z.max p (rt_priority r)) l p0 = p0 \/ exists x, In x l /\ fold_left (fun p r => Z.max p (rt_priority r)) l p0 = rt_priority x).
  { induction l as [|r l IH]; intros p0; cbn [fold_left]; [left; reflexivity|].
    destruct (IH (Z.max p0 (rt_priority r))) as [E|(x & Hx & E)].
    - rewrite E. destruct (Z.max_spec p0 (rt_priority r)) as [[_ ->]|[_ ->]]; [right; exists r; split; [left; reflexivity|reflexivity]|left; reflexivity].
    - right. exists x. split; [right; exact Hx|exact E]. }
  intros Hset. unfold max_prio. rewrite !Hmax.
  destruct l1 as [|a l1], l2 as [|b l2]; try reflexivity.
  - exfalso. apply (proj2 (Hset b)). left. reflexivity.
  - exfalso. apply (proj1 (Hset a)). left. reflexivity.
  - f_equal. set (M1 := fold_left _ (a :: l1) _). set (M2 := fold_left _ (b :: l2) _).
    assert (H1 : forall x, In x (a :: l1) -> (rt_priority x <= M1)%Z) by (intros; apply Hub; assumption).
    assert (H2 : forall x, In x (b :: l2) -> (rt_priority x <= M2)%Z) by (intros; apply Hub; assumption).
    assert (A1 : exists x, In x (a :: l1) /\ M1 = rt_priority x).
    { unfold M1. destruct (Hat (a :: l1) (rt_priority a)) as [E|(x & Hx & E)]; [exists a; split; [left; reflexivity|exact E]|exists x; auto]. }
    assert (A2 : exists x, In x (b :: l2) /\ M2 = rt_priority x).
    { unfold M2. destruct (Hat (b :: l2) (rt_priority b)) as [E|(x & Hx & E)]; [exists b; split; [left; reflexivity|exact E]|exists x; auto]. }
    destruct A1 as (x1 & Hx1 & E1). destruct A2 as (x2 & Hx2 & E2).
    pose proof (H2 x1 (proj1 (Hset x1) Hx1)). pose proof (H1 x2 (proj2 (Hset x2) Hx2)). lia.
Qed.

Theorem trace_final_priority R L q : rrepr R L ->
  option_map rt_priority (best_route (traces_routes (rtrace q R))) = option_map rt_priority (router_get_route lower eng valid ic_host ic_path always q R).
Proof.
  intros HR. unfold router_get_route. rewrite !best_route_prio. apply max_prio_set. intros r. apply (rtrace_spec R L q r HR).
Qed.
End RxRouterProofs.
