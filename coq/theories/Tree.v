(* Tree.v — executable model of src/regex_radix_tree/{item,node,leaf,tree,trace,iter}.rs and of
   LazyRegex (src/regex.rs).  One Gallina function per Rust function.  HashMap<String,V> values are
   association lists (order is not observable through the Rust API: results are compared as
   multisets).  The model is generic in the prefix functions and in the regex engine so that the
   proofs can be done against an abstract interface; RIO.TreeInst plugs in prefix.rs (RIO.Prefix). *)
Require Import RIO.Base.

Section Tree.
Variable V : Type.
Definition pat := list N.        (* a regex source string, as chars *)
Definition ident := list N.

(* prefix.rs *)
Variable cp : pat -> pat -> nat.             (* common_prefix_char_size *)
Variable take : pat -> nat -> pat.           (* get_prefix_with_char_size *)
Variable clen : pat -> nat.                  (* self.regex.original.chars().count() *)
(* the regex engine: [eng ic regex haystack] = RegexBuilder::new(regex).case_insensitive(ic).build()
   succeeded and is_match(haystack); [valid ic regex] = build() succeeded *)
Variable eng : bool -> pat -> list N -> bool.
Variable valid : bool -> pat -> bool.

Definition pat_eqb : pat -> pat -> bool := str_eqb.
Definition id_eqb : ident -> ident -> bool := str_eqb.

(* LazyRegex::new_node / new_leaf: the regex string that is compiled *)
Definition c_caret : N := 94. Definition c_dollar : N := 36. Definition c_dot : N := 46. Definition c_star : N := 42.
Definition node_regex (original : pat) : pat := if is_nil original then [c_dot; c_star] else c_caret :: original.
Definition leaf_regex (original : pat) : pat := c_caret :: original ++ [c_dollar].

(* LazyRegex::is_match *)
Definition lazy_is_match (ic : bool) (original regex : pat) (compiled : bool) (s : list N) : bool :=
  if compiled then eng ic regex s
  else if is_nil original then true else eng ic regex s.

Inductive item :=
| Empty (ic : bool)
| Node (re : pat) (ic : bool) (compiled : bool) (children : list item)
| Leaf (re : pat) (ic : bool) (compiled : bool) (values : list (ident * V)).

Definition mnode ic re compiled s := lazy_is_match ic re (node_regex re) compiled s.
Definition mleaf ic re compiled s := lazy_is_match ic re (leaf_regex re) compiled s.

Definition regex_of (it : item) : pat :=
  match it with Empty _ => [] | Node re _ _ _ => re | Leaf re _ _ _ => re end.

Fixpoint is_empty (it : item) : bool :=
  match it with
  | Empty _ => true
  | Leaf _ _ _ vs => is_nil vs
  | Node _ _ _ cs => forallb is_empty cs
  end.

Fixpoint len (it : item) : nat :=
  match it with
  | Empty _ => 0
  | Leaf _ _ _ vs => length vs
  | Node _ _ _ cs => fold_right (fun c n => len c + n) 0 cs
  end.

Fixpoint cached_len (it : item) : nat :=
  match it with
  | Empty _ => 0
  | Leaf _ _ c _ => if c then 1 else 0
  | Node _ _ c cs => (if c then 1 else 0) + fold_right (fun x n => cached_len x + n) 0 cs
  end.

Fixpoint find (it : item) (s : list N) : list V :=
  match it with
  | Empty _ => []
  | Leaf re ic c vs => if mleaf ic re c s then map snd vs else []
  | Node re ic c cs => if mnode ic re c s then flat_map (fun x => find x s) cs else []
  end.

Fixpoint starts_with (s p : pat) {struct p} : bool :=
  match p, s with
  | [], _ => true
  | x :: p', y :: s' => N.eqb x y && starts_with s' p'
  | _ :: _, [] => false
  end.

Fixpoint get (it : item) (re : pat) : list V :=
  match it with
  | Empty _ => []
  | Leaf lre _ _ vs => if pat_eqb lre re then map snd vs else []
  | Node nre _ _ cs => if starts_with re nre then flat_map (fun x => get x re) cs else []
  end.

(* get_mut(regex) followed by a mutation of what it returns: UniqueRegexTreeMap::get_mut pops the last
   element of the vector; under the unique-id discipline (id = regex) that vector has one element, so
   mapping every value of the leaf carrying [re] is the same thing *)
Fixpoint update_at (it : item) (re : pat) (f : V -> V) : item :=
  match it with
  | Empty ic => Empty ic
  | Leaf lre ic c vs => if pat_eqb lre re then Leaf lre ic c (map (fun kv => (fst kv, f (snd kv))) vs) else it
  | Node nre ic c cs => if starts_with re nre then Node nre ic c (map (fun x => update_at x re f) cs) else it
  end.

(* iter_mut().for_each: map over every stored value, threading an accumulator (used by cache) *)
Definition map_values_acc {A} (g : V -> A -> V * A) :=
  fix go_vs (vs : list (ident * V)) (a : A) : list (ident * V) * A :=
    match vs with
    | [] => ([], a)
    | (k, v) :: vs' => let '(v', a1) := g v a in let '(r, a2) := go_vs vs' a1 in ((k, v') :: r, a2)
    end.
Definition map_acc_list {A} (h : item -> A -> item * A) :=
  fix go (l : list item) (a : A) : list item * A :=
    match l with
    | [] => ([], a)
    | x :: l' => let '(x', a1) := h x a in let '(r, a2) := go l' a1 in (x' :: r, a2)
    end.
Fixpoint map_acc {A} (g : V -> A -> V * A) (it : item) (a : A) {struct it} : item * A :=
  match it with
  | Empty ic => (Empty ic, a)
  | Leaf re ic c vs => let '(vs', a') := map_values_acc g vs a in (Leaf re ic c vs', a')
  | Node re ic c cs => let '(cs', a') := map_acc_list (fun x a => map_acc g x a) cs a in (Node re ic c cs', a')
  end.

(* ItemIter: every stored value *)
Fixpoint all_values (it : item) : list V :=
  match it with
  | Empty _ => []
  | Leaf _ _ _ vs => map snd vs
  | Node _ _ _ cs => flat_map all_values cs
  end.

(* the abstraction used by the specifications: every (pattern, id, value) stored *)
Fixpoint entries (it : item) : list (pat * (ident * V)) :=
  match it with
  | Empty _ => []
  | Leaf re _ _ vs => map (fun e => (re, e)) vs
  | Node _ _ _ cs => flat_map entries cs
  end.

(* HashMap::insert *)
Fixpoint assoc_set (k : ident) (v : V) (l : list (ident * V)) : list (ident * V) :=
  match l with
  | [] => [(k, v)]
  | (k', v') :: l' => if id_eqb k k' then (k, v) :: l' else (k', v') :: assoc_set k v l'
  end.

(* Leaf::new *)
Definition leaf_new (re : pat) (k : ident) (v : V) (ic : bool) : item := Leaf re ic false [(k, v)].

Definition is_leaf_with (it : item) (re : pat) : bool :=
  match it with Leaf lre _ _ _ => pat_eqb lre re | _ => false end.

(* Node::insert, the loop choosing the child to descend into.  A leaf carrying exactly this regex is
   chosen at once (repaired code); otherwise the child with the strictly longest common prefix beyond
   the node's own prefix. *)
Fixpoint best (re : pat) (cs : list item) (i : nat) (maxp : nat) (cur : option nat) : option nat :=
  match cs with
  | [] => cur
  | c :: cs' =>
      if is_leaf_with c re then Some i
      else let ps := cp re (regex_of c) in
           if Nat.ltb maxp ps then best re cs' (S i) ps (Some i) else best re cs' (S i) maxp cur
  end.

(* children.remove(i) then insert into it, then push *)
Definition go_insert (ins : item -> item) :=
  fix go (l : list item) (j : nat) : list item * option item :=
    match l with
    | [] => ([], None)
    | x :: l' => if Nat.eqb j 0 then (l', Some (ins x))
                 else let '(r, u) := go l' (pred j) in (x :: r, u)
    end.

Fixpoint insert (it : item) (re : pat) (k : ident) (v : V) {struct it} : item :=
  match it with
  | Empty ic => leaf_new re k v ic
  | Leaf lre ic c vs =>
      if pat_eqb re lre then Leaf lre ic c (assoc_set k v vs)
      else Node (take lre (cp lre re)) ic false [Leaf lre ic c vs; leaf_new re k v ic]
  | Node nre ic c cs =>
      let ps := cp re nre in
      if Nat.ltb ps (clen nre) then Node (take nre ps) ic false [leaf_new re k v ic; Node nre ic c cs]
      else match best re cs 0 (clen nre) None with
           | None => Node nre ic c (cs ++ [leaf_new re k v ic])
           | Some i =>
               match go_insert (fun x => insert x re k v) cs i with
               | (rest, Some u) => Node nre ic c (rest ++ [u])
               | (rest, None) => Node nre ic c (cs ++ [leaf_new re k v ic])
               end
           end
  end.

(* HashMap::remove *)
Fixpoint assoc_remove (k : ident) (l : list (ident * V)) : list (ident * V) * option V :=
  match l with
  | [] => ([], None)
  | (k', v') :: l' => if id_eqb k k' then (l', Some v')
                      else let '(r, o) := assoc_remove k l' in ((k', v') :: r, o)
  end.

Definition keep1 (x : item) : list item := if is_empty x then [] else [x].

Definition go_remove (rm : item -> item * option V) :=
  fix go (l : list item) : list item * option V :=
    match l with
    | [] => ([], None)
    | x :: l' => let '(x', r) := rm x in
                 match r with
                 | Some v => (keep1 x' ++ l', Some v)
                 | None => let '(rest, r') := go l' in (keep1 x' ++ rest, r')
                 end
    end.

Fixpoint remove (it : item) (k : ident) {struct it} : item * option V :=
  match it with
  | Empty ic => (Empty ic, None)
  | Leaf re ic c vs =>
      match assoc_remove k vs with
      | (vs', Some v) => if is_nil vs' then (Empty ic, Some v) else (Leaf re ic c vs', Some v)
      | (_, None) => (Leaf re ic c vs, None)
      end
  | Node re ic c cs =>
      let '(cs', r) := go_remove (fun x => remove x k) cs in
      match cs' with [only] => (only, r) | _ => (Node re ic c cs', r) end
  end.

(* retain: the closure may mutate the value; [f k v = None] drops the entry, [Some v'] keeps it as v' *)
Fixpoint retain_values (f : ident -> V -> option V) (l : list (ident * V)) : list (ident * V) :=
  match l with
  | [] => []
  | (k, v) :: l' => match f k v with Some v' => (k, v') :: retain_values f l' | None => retain_values f l' end
  end.

Fixpoint retain (f : ident -> V -> option V) (it : item) {struct it} : item :=
  match it with
  | Empty ic => Empty ic
  | Leaf re ic c vs => let vs' := retain_values f vs in if is_nil vs' then Empty ic else Leaf re ic c vs'
  | Node re ic c cs =>
      let cs' := flat_map (fun x => keep1 (retain f x)) cs in
      match cs' with
      | [] => Empty ic
      | [only] => only
      | _ => Node re ic c cs'
      end
  end.

(* cache: returns the new item and the number of compilations left *)
Definition compile_flag (ic : bool) (regex : pat) : bool := valid ic regex.

Definition cache_children (cache1 : item -> N -> item * N) :=
  fix go (l : list item) (left : N) : list item * N :=
    match l with
    | [] => ([], left)
    | x :: l' => let '(x', left') := cache1 x left in
                 let '(r, left'') := go l' left' in (x' :: r, left'')
    end.

Fixpoint cache (it : item) (left : N) (cache_level current_level : nat) {struct it} : item * N :=
  if N.eqb left 0 then (it, left)
  else if Nat.ltb cache_level current_level then (it, left)
  else match it with
       | Empty ic => (it, left)
       | Leaf re ic c vs =>
           if Nat.eqb cache_level current_level then
             (if c then (it, left)
              else let c' := compile_flag ic (leaf_regex re) in
                   (Leaf re ic c' vs, if c' then (left - 1)%N else left))
           else (it, left)
       | Node re ic c cs =>
           let '(c', left1) :=
             if Nat.eqb cache_level current_level && negb c then
               let c' := compile_flag ic (node_regex re) in (c', if c' then (left - 1)%N else left)
             else (c, left) in
           let '(cs', left2) := cache_children (fun x l => cache x l cache_level (S current_level)) cs left1 in
           (Node re ic c' cs', left2)
       end.

Fixpoint size (it : item) : nat :=
  match it with
  | Empty _ => 1
  | Leaf _ _ _ _ => 1
  | Node _ _ _ cs => S (fold_right (fun c n => size c + n) 0 cs)
  end.

(* RegexTreeMap::cache(limit, level) *)
Fixpoint cache_loop (fuel : nat) (it : item) (left : N) (cache_level : nat) : item * N :=
  match fuel with
  | O => (it, left)
  | S fuel' =>
      if N.eqb left 0 then (it, left)
      else let '(it', new_left) := cache it left cache_level 0 in
           if N.eqb new_left left then (it', left)
           else cache_loop fuel' it' new_left (S cache_level)
  end.

Definition tree_cache (it : item) (limit : N) (level : option nat) : item * N :=
  match level with
  | Some lv => cache it limit lv 0
  | None => cache_loop (S (size it)) it limit 0
  end.

(* trace.rs *)
Inductive trace :=
| Tr (regex : pat) (count : nat) (matched : bool) (children : list trace) (values : list V).

Fixpoint trace_of (it : item) (s : list N) : trace :=
  match it with
  | Empty _ => Tr [] 0 true [] []
  | Leaf re ic c vs => Tr re (length vs) (mleaf ic re c s) [] (map snd vs)
  | Node re ic c cs =>
      let m := mnode ic re c s in
      Tr re (len it) m (if m then map (fun x => trace_of x s) cs else []) []
  end.

End Tree.

Arguments Empty {V} ic.
Arguments Node {V} re ic compiled children.
Arguments Leaf {V} re ic compiled values.
Arguments Tr {V} regex count matched children values.
