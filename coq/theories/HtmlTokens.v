(* HtmlTokens.v — the HTML filter (RIO.HtmlFilter) as an automaton over the TOKENS of a document (Dom.dtok), and
   the token-level form of C15: run over the token stream of a document whose path elements occur once, each as a
   child of the previous one, the automaton outputs the serialisation of the reference edit (Dom.ref_edit).

   [tok_step] is the per-token part of HtmlFilter.filter_loop: handle_token (on_start_tag / on_end_tag, built
   from the SAME model functions, not re-transcribed) followed by emit.  That filter_loop on a byte string is
   [run_tokens] on its tokenisation is proved in RIO.HtmlBridge. *)
Require Import RIO.Base RIO.TokMonad RIO.HtmlTok RIO.HtmlFilter RIO.Dom.
Close Scope N_scope.
Open Scope nat_scope.

Section Tokens.
Variable lower : str -> str.
Variable sel_eval : str -> str -> bool.

Notation on_end_tag := (on_end_tag lower sel_eval).
Notation v_leave := (v_leave lower sel_eval).

Definition tok_step (F : hfb) (out : str) (t : dtok) : result (hfb * str) :=
  match t with
  | DStart nm raw =>
      let '(F1, d1) := on_start_tag F nm raw in
      if is_void nm then
        match on_end_tag F1 nm d1 with RErr => RErr | ROk (F2, d2) => ROk (emit F2 out d2) end
      else ROk (emit F1 out d1)
  | DEnd nm raw =>
      match on_end_tag F nm raw with RErr => RErr | ROk (F1, d1) => ROk (emit F1 out d1) end
  | DSelf nm raw =>
      let '(F1, d1) := on_start_tag F nm raw in
      match on_end_tag F1 nm d1 with RErr => RErr | ROk (F2, d2) => ROk (emit F2 out d2) end
  | DOther raw => ROk (emit F out raw)
  end.

Fixpoint run_tokens (F : hfb) (out : str) (toks : list dtok) : result (hfb * str) :=
  match toks with
  | [] => ROk (F, out)
  | t :: rest => match tok_step F out t with RErr => RErr | ROk (F', out') => run_tokens F' out' rest end
  end.

Lemma run_tokens_app l1 : forall F out l2,
  run_tokens F out (l1 ++ l2) = match run_tokens F out l1 with RErr => RErr | ROk (F', out') => run_tokens F' out' l2 end.
Proof.
  induction l1 as [|t l1 IH]; intros F out l2; cbn [app run_tokens]; [reflexivity|].
  destruct (tok_step F out t) as [[F' out']|]; [apply IH|reflexivity].
Qed.

(* ------------------------------------------------------------------------------------------ emit *)
Lemma emit_app F out a b : (let '(F1, o1) := emit F out a in emit F1 o1 b) = emit F out (a ++ b).
Proof.
  destruct F as [e l v bufs la rt ie]. unfold emit. cbn [f_buffers f_enter f_leave f_visitor f_last f_raw_tag f_in_error].
  destruct bufs as [|[t bb] rest]; cbn [f_buffers f_enter f_leave f_visitor f_last f_raw_tag f_in_error]; rewrite app_assoc; reflexivity.
Qed.
Lemma emit_nil F out : emit F out [] = (F, out).
Proof.
  destruct F as [e l v bufs la rt ie]. unfold emit. cbn [f_buffers].
  destruct bufs as [|[t bb] rest]; rewrite app_nil_r; reflexivity.
Qed.

(* ------------------------------------------------------------------------------------------ tokens that are not looked at *)
(* the names the stage currently reacts to: next_enter, next_leave, the tag of the innermost buffer *)
Definition watched (ns : list str) (F : hfb) : Prop :=
  (forall e, f_enter F = Some e -> In e ns) /\ (forall l, f_leave F = Some l -> In l ns) /\
  (forall t b rest, f_buffers F = (t, b) :: rest -> In t ns).

Lemma watched_emit ns F out d : watched ns F -> watched ns (fst (emit F out d)).
Proof.
  destruct F as [e l v bufs la rt ie]. unfold watched, emit. cbn [f_buffers f_enter f_leave].
  intros (He & Hl & Hb). destruct bufs as [|[t bb] rest]; cbn [fst f_buffers f_enter f_leave]; repeat split; auto.
  intros t' b' rest' E. injection E as -> _ _. eapply Hb. reflexivity.
Qed.

Lemma opt_is_false ns o tag : (forall e, o = Some e -> In e ns) -> ~ In tag ns -> opt_is o tag = false.
Proof.
  intros H Hn. destruct o as [e|]; [|reflexivity]. cbn [opt_is]. apply str_eqb_neq. intros ->. apply Hn. apply H. reflexivity.
Qed.

Lemma on_start_tag_miss ns F tag data : watched ns F -> ~ In tag ns -> on_start_tag F tag data = (F, data).
Proof. intros (He & _ & _) Hn. unfold on_start_tag. rewrite (opt_is_false ns) by assumption. reflexivity. Qed.

Lemma on_end_tag_miss ns F tag data : watched ns F -> ~ In tag ns -> on_end_tag F tag data = ROk (F, data).
Proof.
  intros (_ & Hl & Hb) Hn. unfold HtmlFilter.on_end_tag. rewrite (opt_is_false ns) by assumption.
  destruct F as [e l v bufs la rt ie]. cbn [f_buffers f_enter f_leave f_visitor f_last f_raw_tag f_in_error] in *.
  destruct bufs as [|[t bb] rest]; [reflexivity|].
  assert (E : str_eqb t tag = false). { apply str_eqb_neq. intros ->. apply Hn. eapply Hb. reflexivity. }
  rewrite E. reflexivity.
Qed.

Lemma name_free_notin ns t : name_free lower ns t = true -> ~ In (lower t) ns.
Proof. unfold name_free. intros H Hin. apply mem_str_In in Hin. rewrite Hin in H. discriminate. Qed.

Lemma skip_start ns F out t raw : watched ns F -> name_free lower ns t = true ->
  tok_step F out (DStart (lower t) raw) = ROk (emit F out raw).
Proof.
  intros HW Hf. apply name_free_notin in Hf. cbn [tok_step]. rewrite (on_start_tag_miss ns) by assumption.
  destruct (is_void (lower t)); [|reflexivity]. rewrite (on_end_tag_miss ns) by assumption. reflexivity.
Qed.
Lemma skip_end ns F out t raw : watched ns F -> name_free lower ns t = true ->
  tok_step F out (DEnd (lower t) raw) = ROk (emit F out raw).
Proof. intros HW Hf. apply name_free_notin in Hf. cbn [tok_step]. rewrite (on_end_tag_miss ns) by assumption. reflexivity. Qed.
Lemma skip_self ns F out t raw : watched ns F -> name_free lower ns t = true ->
  tok_step F out (DSelf (lower t) raw) = ROk (emit F out raw).
Proof.
  intros HW Hf. apply name_free_notin in Hf. cbn [tok_step]. rewrite (on_start_tag_miss ns) by assumption.
  rewrite (on_end_tag_miss ns) by assumption. reflexivity.
Qed.

(* a subtree none of whose tags is watched goes to the output (or to the innermost buffer) unchanged *)
Lemma skip_node ns n : free lower ns n = true -> forall F out, watched ns F ->
  run_tokens F out (doc_tokens lower n) = ROk (emit F out (serialize n)).
Proof.
  induction n as [t a ch IH|t a|t a|s|s|t s] using node_ind2; intros Hfree F out HW; cbn [free] in Hfree; cbn [doc_tokens serialize].
  - apply andb_prop in Hfree. destruct Hfree as [Ht Hch].
    cbn [run_tokens]. rewrite (skip_start ns) by assumption.
    destruct (emit F out (open_tag t a)) as [F1 o1] eqn:E1.
    assert (HW1 : watched ns F1). { pose proof (watched_emit ns F out (open_tag t a) HW) as H. rewrite E1 in H. exact H. }
    rewrite run_tokens_app.
    assert (Hkids : forall F out, watched ns F -> run_tokens F out (flat_map (doc_tokens lower) ch) = ROk (emit F out (flat_map serialize ch))).
    { clear - IH Hch. induction IH as [|x l Hx Hl IHl]; intros F out HW; cbn [flat_map].
      - cbn [run_tokens]. rewrite emit_nil. reflexivity.
      - cbn [forallb] in Hch. apply andb_prop in Hch. destruct Hch as [Hx1 Hl1].
        rewrite run_tokens_app, (Hx Hx1 F out HW).
        destruct (emit F out (serialize x)) as [F1 o1] eqn:E1.
        assert (HW1 : watched ns F1). { pose proof (watched_emit ns F out (serialize x) HW) as H. rewrite E1 in H. exact H. }
        rewrite (IHl Hl1 F1 o1 HW1). rewrite <- emit_app, E1. reflexivity. }
    rewrite (Hkids F1 o1 HW1).
    destruct (emit F1 o1 (flat_map serialize ch)) as [F2 o2] eqn:E2.
    assert (HW2 : watched ns F2). { pose proof (watched_emit ns F1 o1 (flat_map serialize ch) HW1) as H. rewrite E2 in H. exact H. }
    cbn [run_tokens]. rewrite (skip_end ns) by assumption.
    destruct (emit F2 o2 (close_tag t)) as [F3 o3] eqn:E3.
    rewrite <- emit_app, E1, <- emit_app, E2, E3. reflexivity.
  - cbn [run_tokens]. rewrite (skip_start ns) by assumption. destruct (emit F out (open_tag t a)); reflexivity.
  - cbn [run_tokens]. rewrite (skip_self ns) by assumption. destruct (emit F out (self_tag t a)); reflexivity.
  - cbn [run_tokens tok_step]. destruct (emit F out s); reflexivity.
  - cbn [run_tokens tok_step]. destruct (emit F out _); reflexivity.
  - cbn [run_tokens]. rewrite (skip_start ns) by assumption.
    destruct (emit F out (open_tag t [])) as [F1 o1] eqn:E1.
    assert (HW1 : watched ns F1). { pose proof (watched_emit ns F out (open_tag t []) HW) as H. rewrite E1 in H. exact H. }
    change (tok_step F1 o1 (DOther s)) with (ROk (emit F1 o1 s)). destruct (emit F1 o1 s) as [F2 o2] eqn:E2.
    assert (HW2 : watched ns F2). { pose proof (watched_emit ns F1 o1 s HW1) as H. rewrite E2 in H. exact H. }
    rewrite (skip_end ns) by assumption.
    destruct (emit F2 o2 (close_tag t)) as [F3 o3] eqn:E3.
    rewrite <- emit_app, E1, <- emit_app, E2, E3. reflexivity.
Qed.

Lemma skip_forest ns l : forallb (free lower ns) l = true -> forall F out, watched ns F ->
  run_tokens F out (forest_tokens lower l) = ROk (emit F out (ser_forest l)).
Proof.
  induction l as [|x l IH]; intros Hfree F out HW; unfold forest_tokens, ser_forest; cbn [flat_map].
  - cbn [run_tokens]. rewrite emit_nil. reflexivity.
  - cbn [forallb] in Hfree. apply andb_prop in Hfree. destruct Hfree as [Hx Hl].
    rewrite run_tokens_app, (skip_node ns x Hx F out HW).
    destruct (emit F out (serialize x)) as [F1 o1] eqn:E1.
    assert (HW1 : watched ns F1). { pose proof (watched_emit ns F out (serialize x) HW) as H. rewrite E1 in H. exact H. }
    pose proof (IH Hl F1 o1 HW1) as H. unfold forest_tokens, ser_forest in H. rewrite H.
    rewrite <- emit_app, E1. reflexivity.
Qed.


(* ========================================================================================== the visitor automaton *)
Section Spine.
Variable act : action.
Variable path : list str.
Variable sel : option str.
Variable value : list node.
Variables lastb rt : list N.
Variable ie : bool.

Lemma action_eq_dec (a b : action) : {a = b} + {a <> b}.
Proof. decide equality. Qed.

Definition vk (a : action) : vkind := match a with AAppend => VAppend | APrepend => VPrepend | AReplace => VReplace end.
Definition content : str := ser_forest value.

Definition mkv (pos : nat) (buffering : bool) : visitor :=
  {| v_kind := vk act; v_tree := path; v_pos := pos; v_sel := sel; v_content := content; v_buffering := buffering; v_oob := false |}.
Definition mkF (enter leave : option str) (pos : nat) (buffering : bool) (bufs : list (str * str)) : hfb :=
  {| f_enter := enter; f_leave := leave; f_visitor := mkv pos buffering; f_buffers := bufs; f_last := lastb; f_raw_tag := rt; f_in_error := ie |}.
(* has_selector / selector of the visitor *)
Definition hs : bool := match sel with Some s => negb (is_nil s) | None => false end.
Definition selr : str := match sel with Some s => s | None => [] end.
(* the selector oracle of the reference edit: the verdict of the selector engine on the serialised target *)
Definition css : option (str -> bool) := if hs then Some (fun d => sel_eval d selr) else None.
(* next_leave below position i *)
Definition lv (i : nat) : option str := match i with 0 => None | S j => nth_error path j end.

Lemma has_selector_mkv i b : has_selector (mkv i b) = hs.
Proof. reflexivity. Qed.
Lemma selector_mkv i b : selector (mkv i b) = selr.
Proof. reflexivity. Qed.

Lemma v_enter_mid i b p q data : nth_error path i = Some p -> nth_error path (S i) = Some q ->
  v_enter (mkv i b) data = (mkv (S i) b, Some q, Some p, false, data).
Proof.
  intros Hp Hq. unfold v_enter, tree_at. cbn [mkv v_tree v_pos]. rewrite Hp.
  assert (E : (i + 1 <? length path) = true). { apply Nat.ltb_lt. assert (S i < length path) by (apply nth_error_Some; congruence). lia. }
  cbn [mkv v_tree v_pos]. rewrite E. cbn [with_pos mkv v_tree v_pos v_kind v_sel v_content v_buffering v_oob]. rewrite Hq. reflexivity.
Qed.

Lemma v_enter_last i p data : nth_error path i = Some p -> length path = S i ->
  v_enter (mkv i false) data =
  match act with
  | AAppend => (mkv i false, None, Some p, hs, data)
  | APrepend => if hs then (mkv i true, None, Some p, true, data) else (mkv i false, None, Some p, false, data ++ content)
  | AReplace => (mkv i true, None, Some p, true, data)
  end.
Proof.
  intros Hp Hl. unfold v_enter, tree_at. cbn [mkv v_tree v_pos]. rewrite Hp.
  assert (E : (i + 1 <? length path) = false) by (apply Nat.ltb_ge; lia).
  cbn [mkv v_tree v_pos]. rewrite E. fold (mkv i false). rewrite has_selector_mkv.
  cbn [mkv v_kind]. destruct act; cbn [vk]; reflexivity.
Qed.

(* position -= 1; next_leave = element_tree[position] *)
Lemma dec_pos i b : i < length path ->
  (if 0 <? i then let '(v'', s) := tree_at (with_pos (pred i) (mkv i b)) in (v'', Some s) else (mkv i b, None))
  = (mkv (pred i) b, lv i).
Proof.
  intros Hi. destruct i as [|j]; [reflexivity|]. cbn [Nat.ltb Nat.leb pred lv].
  unfold tree_at. cbn [with_pos mkv v_tree v_pos v_kind v_sel v_content v_buffering v_oob].
  destruct (nth_error path j) as [r|] eqn:E; [reflexivity|]. apply nth_error_None in E. lia.
Qed.

Lemma tree_at_mkv i b p : nth_error path i = Some p -> tree_at (mkv i b) = (mkv i b, p).
Proof. intros Hp. unfold tree_at. change (v_tree (mkv i b)) with path. change (v_pos (mkv i b)) with i. rewrite Hp. reflexivity. Qed.

Lemma v_leave_append i p data : act = AAppend -> nth_error path i = Some p ->
  v_leave (mkv i false) data =
  if length path <=? i + 1 then
    if hs then
      if negb (sel_eval data selr) then
        match append_child lower data content with
        | ROk d => ROk (mkv (pred i) false, Some p, lv i, d)
        | RErr => RErr
        end
      else ROk (mkv (pred i) false, Some p, lv i, data)
    else ROk (mkv (pred i) false, Some p, lv i, content ++ data)
  else ROk (mkv (pred i) false, Some p, lv i, data).
Proof.
  intros Ha Hp. assert (Hi : i < length path) by (apply nth_error_Some; congruence).
  assert (Hk : vk act = VAppend) by (rewrite Ha; reflexivity).
  unfold HtmlFilter.v_leave. rewrite (tree_at_mkv i false p Hp).
  change (v_kind (mkv i false)) with (vk act). rewrite Hk.
  change (v_pos (mkv i false)) with i. change (v_tree (mkv i false)) with path.
  rewrite (dec_pos i false Hi). rewrite has_selector_mkv, selector_mkv. reflexivity.
Qed.

Lemma v_leave_prepend i b p data : act = APrepend -> nth_error path i = Some p ->
  v_leave (mkv i b) data =
  if b && hs then
    if negb (sel_eval data selr) then
      match prepend_child lower data content with
      | ROk d => ROk (mkv (pred i) false, Some p, lv i, d)
      | RErr => RErr
      end
    else ROk (mkv (pred i) false, Some p, lv i, data)
  else ROk (mkv (pred i) b, Some p, lv i, data).
Proof.
  intros Ha Hp. assert (Hi : i < length path) by (apply nth_error_Some; congruence).
  assert (Hk : vk act = VPrepend) by (rewrite Ha; reflexivity).
  unfold HtmlFilter.v_leave. rewrite (tree_at_mkv i b p Hp).
  change (v_kind (mkv i b)) with (vk act). rewrite Hk.
  change (v_pos (mkv i b)) with i.
  rewrite (dec_pos i b Hi). rewrite has_selector_mkv. change (v_buffering (mkv (pred i) b)) with b.
  change (with_buffering false (mkv (pred i) b)) with (mkv (pred i) false). rewrite selector_mkv.
  reflexivity.
Qed.

Lemma v_leave_replace_buf i p data : act = AReplace -> nth_error path i = Some p ->
  v_leave (mkv i true) data =
  ROk (mkv i false, Some p, None, if negb hs then content else if sel_eval data selr then content else data).
Proof.
  intros Ha Hp.
  assert (Hk : vk act = VReplace) by (rewrite Ha; reflexivity).
  unfold HtmlFilter.v_leave. rewrite (tree_at_mkv i true p Hp).
  change (v_kind (mkv i true)) with (vk act). rewrite Hk.
  change (v_buffering (mkv i true)) with true. cbn [negb]. rewrite andb_false_r.
  change (v_buffering (mkv i true)) with true.
  change (with_buffering false (mkv i true)) with (mkv i false).
  rewrite has_selector_mkv, selector_mkv. change (v_content (mkv i false)) with content.
  destruct hs; cbn [negb]; [|reflexivity]. destruct (sel_eval data selr); reflexivity.
Qed.

(* ---- the stage on start / end tags that it watches ---- *)
Lemma start_hit p l i b bufs data :
  on_start_tag (mkF (Some p) l i b bufs) p data =
  let '(v', ne, nl, sb, nb) := v_enter (mkv i b) data in
  ({| f_enter := ne; f_leave := nl; f_visitor := v'; f_buffers := if sb then (p, []) :: bufs else bufs;
      f_last := lastb; f_raw_tag := rt; f_in_error := ie |}, nb).
Proof. unfold on_start_tag. cbn [mkF f_enter opt_is]. rewrite str_eqb_refl. reflexivity. Qed.

Lemma start_mid p q l i b data : nth_error path i = Some p -> nth_error path (S i) = Some q ->
  on_start_tag (mkF (Some p) l i b []) p data = (mkF (Some q) (Some p) (S i) b [], data).
Proof. intros Hp Hq. rewrite start_hit, (v_enter_mid i b p q data Hp Hq). reflexivity. Qed.

Lemma start_last p l i data : nth_error path i = Some p -> length path = S i ->
  on_start_tag (mkF (Some p) l i false []) p data =
  match act with
  | AAppend => (mkF None (Some p) i false (if hs then [(p, [])] else []), data)
  | APrepend => if hs then (mkF None (Some p) i true [(p, [])], data) else (mkF None (Some p) i false [], data ++ content)
  | AReplace => (mkF None (Some p) i true [(p, [])], data)
  end.
Proof.
  intros Hp Hl. rewrite start_hit, (v_enter_last i p data Hp Hl). destruct act; try reflexivity; destruct hs; reflexivity.
Qed.

Lemma end_nobuf_mk e p i b data i' b' ne nl nb :
  v_leave (mkv i b) data = ROk (mkv i' b', ne, nl, nb) ->
  on_end_tag (mkF e (Some p) i b []) p data = ROk (mkF ne nl i' b' [], nb).
Proof.
  intros H. unfold HtmlFilter.on_end_tag. cbn [mkF f_buffers f_leave opt_is f_visitor]. rewrite str_eqb_refl, H. reflexivity.
Qed.

Lemma end_buf_mk e p i b bb data i' b' ne nl nb :
  v_leave (mkv i b) (bb ++ data) = ROk (mkv i' b', ne, nl, nb) ->
  on_end_tag (mkF e (Some p) i b [(p, bb)]) p data = ROk (mkF ne nl i' b' [], nb).
Proof.
  intros H. unfold HtmlFilter.on_end_tag. cbn [mkF f_buffers f_leave opt_is f_visitor]. rewrite str_eqb_refl, H. reflexivity.
Qed.

Lemma end_no_leave e i b tag data : on_end_tag (mkF e None i b []) tag data = ROk (mkF e None i b [], data).
Proof. reflexivity. Qed.

Lemma emit_nobuf e l i b out d : emit (mkF e l i b []) out d = (mkF e l i b [], out ++ d).
Proof. reflexivity. Qed.
Lemma emit_buf e l i b t bb out d : emit (mkF e l i b [(t, bb)]) out d = (mkF e l i b [(t, bb ++ d)], out).
Proof. reflexivity. Qed.

Lemma lv_in i l : lv i = Some l -> In l path.
Proof. destruct i as [|j]; cbn [lv]; [discriminate|]. apply nth_error_In. Qed.

Lemma watched_mk ns e l i b bufs :
  (forall x, e = Some x -> In x ns) -> (forall x, l = Some x -> In x ns) ->
  (forall t bb rest, bufs = (t, bb) :: rest -> In t ns) -> watched ns (mkF e l i b bufs).
Proof. intros He Hl Hb. repeat split; assumption. Qed.


(* ------------------------------------------------------------------------------------------ the domain *)
(* a sibling occurrence of the target: an element whose content has no tag named like it, a self-closing tag, or
   a void element *)
Definition target (p : str) (n : node) : Prop :=
  match n with
  | Elem t a ch => lower t = p /\ is_void p = false /\ forallb (free lower [p]) ch = true
  | SelfClosing t a => lower t = p
  | Void t a => lower t = p /\ is_void p = true
  | _ => False
  end.

(* append_child / prepend_child with a selector insert by RE-TOKENISING the buffered element (body_append.rs
   append_child, body_prepend.rs prepend_child): what that must achieve on the target.  Proved from the
   tokenisation of the target in RIO.HtmlBridge. *)
Definition insert_ok (n : node) : Prop :=
  hs = true -> sel_eval (serialize n) selr = false ->
  match n with
  | Elem t a ch =>
      match act with
      | AAppend => append_child lower (serialize n) content = ROk (serialize (Elem t a (ch ++ value)))
      | APrepend => prepend_child lower (serialize n) content = ROk (serialize (Elem t a (value ++ ch)))
      | AReplace => True
      end
  | _ => True
  end.

(* [spine suffix forest]: below the elements of the path already entered, [forest] holds the next element of the
   path exactly once as an element (append_child, prepend_child) resp. at least once as an element, a self-closing
   tag or a void element (replace; only for the last element of the path); every other node of [forest] has no
   tag named like ANY element of the path.  [P] is a side condition on the target of append_child / prepend_child
   (used for the re-tokenising insertion: [insert_ok]) *)
Fixpoint spine (P : node -> Prop) (suffix : list str) (forest : list node) : Prop :=
  match suffix with
  | [] => False
  | p :: rest =>
      match rest with
      | [] =>
          match act with
          | AReplace => Forall (fun n => free lower path n = true \/ target p n) forest /\ Exists (target p) forest
          | _ => exists pre t a ch post, forest = pre ++ Elem t a ch :: post /\ target p (Elem t a ch) /\
                   forallb (free lower path) pre = true /\ forallb (free lower path) post = true /\ P (Elem t a ch)
          end
      | _ :: _ =>
          exists pre t a ch post, forest = pre ++ Elem t a ch :: post /\ lower t = p /\ is_void p = false /\
            forallb (free lower path) pre = true /\ forallb (free lower path) post = true /\ spine P rest ch
      end
  end.

Lemma spine_mono (P Q : node -> Prop) : (forall n, P n -> Q n) -> forall suffix forest, spine P suffix forest -> spine Q suffix forest.
Proof.
  intros HPQ. induction suffix as [|p rest IH]; intros forest H; [exact H|]. cbn [spine] in *.
  destruct rest as [|q rest'].
  - destruct act; [| |exact H]; destruct H as (pre & t & a & ch & post & H1 & H2 & H3 & H4 & H5);
      exists pre, t, a, ch, post; (split; [exact H1|]); (split; [exact H2|]); (split; [exact H3|]); (split; [exact H4|]); apply HPQ; exact H5.
  - destruct H as (pre & t & a & ch & post & H1 & H2 & H3 & H4 & H5 & H6).
    exists pre, t, a, ch, post. (split; [exact H1|]); (split; [exact H2|]); (split; [exact H3|]); (split; [exact H4|]); (split; [exact H5|]).
    apply IH. exact H6.
Qed.

Notation edit := (edit lower act value css).
Notation ref_edit := (ref_edit lower act value css).

Lemma edit_free p rest n : In p path -> free lower path n = true -> edit (p :: rest) n = [n].
Proof.
  intros Hin Hf. destruct n as [t a ch|t a|t a|s|s|t s]; cbn [Dom.edit]; try reflexivity; cbn [free] in Hf.
  - apply andb_prop in Hf. destruct Hf as [Hf _]. apply name_free_notin in Hf.
    assert (E : str_eqb (lower t) p = false) by (apply str_eqb_neq; intros E'; apply Hf; rewrite E'; exact Hin). rewrite E. reflexivity.
  - apply name_free_notin in Hf.
    assert (E : str_eqb (lower t) p = false) by (apply str_eqb_neq; intros E'; apply Hf; rewrite E'; exact Hin). rewrite E.
    destruct rest, act; reflexivity.
  - apply name_free_notin in Hf.
    assert (E : str_eqb (lower t) p = false) by (apply str_eqb_neq; intros E'; apply Hf; rewrite E'; exact Hin). rewrite E.
    destruct rest, act; reflexivity.
Qed.

Lemma ref_edit_free p rest l : In p path -> forallb (free lower path) l = true -> ref_edit (p :: rest) l = l.
Proof.
  intros Hin. unfold Dom.ref_edit. induction l as [|x l IH]; intros Hf; [reflexivity|]. cbn [flat_map forallb] in *.
  apply andb_prop in Hf. destruct Hf as [Hx Hl]. rewrite (edit_free p rest x Hin Hx), (IH Hl). reflexivity.
Qed.

Lemma ref_edit_app suffix l1 l2 : ref_edit suffix (l1 ++ l2) = ref_edit suffix l1 ++ ref_edit suffix l2.
Proof. apply flat_map_app. Qed.

(* skipping in a state of the automaton *)
Lemma skip_mk ns e l i b bufs forest out :
  forallb (free lower ns) forest = true ->
  (forall x, e = Some x -> In x ns) -> (forall x, l = Some x -> In x ns) ->
  (forall t bb rest, bufs = (t, bb) :: rest -> In t ns) ->
  run_tokens (mkF e l i b bufs) out (forest_tokens lower forest) = ROk (emit (mkF e l i b bufs) out (ser_forest forest)).
Proof. intros Hf He Hl Hb. apply (skip_forest ns); [exact Hf|]. apply watched_mk; assumption. Qed.

(* ---- the target under append_child / prepend_child ---- *)
Lemma target_ins i p t a ch l0 out :
  act <> AReplace -> nth_error path i = Some p -> length path = S i ->
  target p (Elem t a ch) -> insert_ok (Elem t a ch) ->
  run_tokens (mkF (Some p) l0 i false []) out (doc_tokens lower (Elem t a ch)) =
  ROk (mkF (Some p) (lv i) (pred i) false [], out ++ ser_forest (edit [p] (Elem t a ch))).
Proof.
  intros Hact Hp Hlen (Ht & Hvoid & Hch) Hins.
  assert (Hle : (length path <=? i + 1) = true) by (apply Nat.leb_le; lia).
  assert (Hs1 : forall x, Some p = Some x -> In x [p]) by (intros x [= <-]; left; reflexivity).
  assert (Hn1 : forall x, @None str = Some x -> In x [p]) by discriminate.
  assert (Hb1 : forall (bb0 t' bb : str) (rest : list (str * str)), [(p, bb0)] = (t', bb) :: rest -> In t' [p]) by (intros bb0 t' bb rest [= <- _ _]; left; reflexivity).
  assert (Hser : forall x : str, ([] ++ open_tag t a) ++ ser_forest ch ++ x = open_tag t a ++ ser_forest ch ++ x) by reflexivity.
  assert (Eser : serialize (Elem t a ch) = open_tag t a ++ ser_forest ch ++ close_tag t) by reflexivity.
  cbn [doc_tokens]. rewrite Ht. change (flat_map (doc_tokens lower) ch) with (forest_tokens lower ch).
  cbn [Dom.edit]. rewrite Ht, str_eqb_refl.
  cbn [run_tokens tok_step]. rewrite (start_last p l0 i _ Hp Hlen), Hvoid.
  unfold css, css_matches. unfold insert_ok in Hins.
  destruct act eqn:Ea; [| |congruence].
  - (* append *)
    destruct hs eqn:Hhs.
    + rewrite emit_buf, run_tokens_app.
      rewrite (skip_mk [p]); [|exact Hch|exact Hn1|exact Hs1|apply Hb1].
      rewrite emit_buf. cbn [run_tokens tok_step].
      destruct (sel_eval (serialize (Elem t a ch)) selr) eqn:Es; cbn [negb acts].
      * erewrite end_buf_mk; [|rewrite (v_leave_append i p _ Ea Hp), Hle, Hhs; rewrite <- app_assoc, Hser, <- Eser, Es; reflexivity].
        rewrite emit_nobuf. cbn [ser_forest flat_map serialize]. rewrite <- !app_assoc, app_nil_r. reflexivity.
      * erewrite end_buf_mk; [|rewrite (v_leave_append i p _ Ea Hp), Hle, Hhs; rewrite <- app_assoc, Hser, <- Eser, Es, (Hins eq_refl eq_refl); reflexivity].
        rewrite emit_nobuf. cbn [ser_forest flat_map]. rewrite app_nil_r. reflexivity.
    + rewrite emit_nobuf, run_tokens_app.
      rewrite (skip_mk [p]); [|exact Hch|exact Hn1|exact Hs1|discriminate].
      rewrite emit_nobuf. cbn [run_tokens tok_step].
      erewrite end_nobuf_mk; [|rewrite (v_leave_append i p _ Ea Hp), Hle, Hhs; reflexivity].
      rewrite emit_nobuf. cbn [acts ser_forest flat_map serialize].
      fold (ser_forest (ch ++ value)). rewrite ser_forest_app. fold content. rewrite app_nil_r, <- !app_assoc. reflexivity.
  - (* prepend *)
    destruct hs eqn:Hhs.
    + rewrite emit_buf, run_tokens_app.
      rewrite (skip_mk [p]); [|exact Hch|exact Hn1|exact Hs1|apply Hb1].
      rewrite emit_buf. cbn [run_tokens tok_step].
      destruct (sel_eval (serialize (Elem t a ch)) selr) eqn:Es; cbn [negb acts].
      * erewrite end_buf_mk; [|rewrite (v_leave_prepend i true p _ Ea Hp), Hhs; cbn [andb]; rewrite <- app_assoc, Hser, <- Eser, Es; reflexivity].
        rewrite emit_nobuf. cbn [ser_forest flat_map serialize]. rewrite <- !app_assoc, app_nil_r. reflexivity.
      * erewrite end_buf_mk; [|rewrite (v_leave_prepend i true p _ Ea Hp), Hhs; cbn [andb]; rewrite <- app_assoc, Hser, <- Eser, Es, (Hins eq_refl eq_refl); reflexivity].
        rewrite emit_nobuf. cbn [ser_forest flat_map]. rewrite app_nil_r. reflexivity.
    + rewrite emit_nobuf, run_tokens_app.
      rewrite (skip_mk [p]); [|exact Hch|exact Hn1|exact Hs1|discriminate].
      rewrite emit_nobuf. cbn [run_tokens tok_step].
      erewrite end_nobuf_mk; [|rewrite (v_leave_prepend i false p _ Ea Hp); reflexivity].
      rewrite emit_nobuf. cbn [acts ser_forest flat_map serialize].
      fold (ser_forest (value ++ ch)). rewrite ser_forest_app. fold content. rewrite app_nil_r, <- !app_assoc. reflexivity.
Qed.

(* ---- a sibling occurrence of the target under replace ---- *)
Lemma target_rep i p n l0 out :
  act = AReplace -> nth_error path i = Some p -> length path = S i -> target p n ->
  run_tokens (mkF (Some p) l0 i false []) out (doc_tokens lower n) =
  ROk (mkF (Some p) None i false [], out ++ ser_forest (edit [p] n)).
Proof.
  intros Ea Hp Hlen Htg.
  assert (Hs1 : forall x, Some p = Some x -> In x [p]) by (intros x [= <-]; left; reflexivity).
  assert (Hn1 : forall x, @None str = Some x -> In x [p]) by discriminate.
  assert (Hb1 : forall (bb0 t' bb : str) (rest : list (str * str)), [(p, bb0)] = (t', bb) :: rest -> In t' [p]) by (intros bb0 t' bb rest [= <- _ _]; left; reflexivity).
  assert (Hstart : forall data, on_start_tag (mkF (Some p) l0 i false []) p data = (mkF None (Some p) i true [(p, [])], data)).
  { intros data. rewrite (start_last p l0 i data Hp Hlen), Ea. reflexivity. }
  destruct n as [t a ch|t a|t a|s|s|t s]; cbn [target] in Htg; try contradiction.
  - destruct Htg as (Ht & Hvoid & Hch).
    assert (Hser : forall x : str, ([] ++ open_tag t a) ++ ser_forest ch ++ x = open_tag t a ++ ser_forest ch ++ x) by reflexivity.
    assert (Eser : serialize (Elem t a ch) = open_tag t a ++ ser_forest ch ++ close_tag t) by reflexivity.
    cbn [doc_tokens]. rewrite Ht. change (flat_map (doc_tokens lower) ch) with (forest_tokens lower ch).
    cbn [Dom.edit]. rewrite Ht, str_eqb_refl, Ea.
    cbn [run_tokens tok_step]. rewrite Hstart, Hvoid.
    rewrite emit_buf, run_tokens_app.
    rewrite (skip_mk [p]); [|exact Hch|exact Hn1|exact Hs1|apply Hb1].
    rewrite emit_buf. cbn [run_tokens tok_step].
    erewrite end_buf_mk; [|rewrite (v_leave_replace_buf i p _ Ea Hp); rewrite <- app_assoc, Hser, <- Eser; reflexivity].
    rewrite emit_nobuf. unfold css, css_matches. destruct hs; cbn [negb acts]; [|reflexivity].
    destruct (sel_eval (serialize (Elem t a ch)) selr); [reflexivity|]. cbn [ser_forest flat_map]. rewrite app_nil_r. reflexivity.
  - destruct Htg as (Ht & Hvoid).
    cbn [doc_tokens]. rewrite Ht. cbn [Dom.edit]. rewrite Ht, str_eqb_refl, Ea.
    cbn [run_tokens tok_step]. rewrite Hstart, Hvoid.
    erewrite end_buf_mk; [|rewrite (v_leave_replace_buf i p _ Ea Hp); reflexivity].
    rewrite emit_nobuf. unfold css, css_matches. cbn [serialize app andb]. destruct hs; cbn [negb acts]; [|reflexivity].
    destruct (sel_eval (open_tag t a) selr); [reflexivity|]. cbn [ser_forest flat_map serialize]. rewrite app_nil_r. reflexivity.
  - cbn [doc_tokens]. rewrite Htg. cbn [Dom.edit]. rewrite Htg, str_eqb_refl, Ea.
    cbn [run_tokens tok_step]. rewrite Hstart.
    erewrite end_buf_mk; [|rewrite (v_leave_replace_buf i p _ Ea Hp); reflexivity].
    rewrite emit_nobuf. unfold css, css_matches. cbn [serialize app andb]. destruct hs; cbn [negb acts]; [|reflexivity].
    destruct (sel_eval (self_tag t a) selr); [reflexivity|]. cbn [ser_forest flat_map serialize]. rewrite app_nil_r. reflexivity.
Qed.

Lemma free_not_target p n : In p path -> free lower path n = true -> target p n -> False.
Proof.
  intros Hin Hfree Htg. destruct n as [t a ch|t a|t a|s|s|t s]; cbn [target free] in *; try contradiction.
  - destruct Htg as (Ht & _). apply andb_prop in Hfree. destruct Hfree as [Hfree _]. apply name_free_notin in Hfree. rewrite Ht in Hfree. contradiction.
  - destruct Htg as (Ht & _). apply name_free_notin in Hfree. rewrite Ht in Hfree. contradiction.
  - apply name_free_notin in Hfree. rewrite Htg in Hfree. contradiction.
Qed.

(* the siblings at the target's level under replace: after a first target (next_leave = None) ... *)
Lemma level_rep_after i p forest : act = AReplace -> nth_error path i = Some p -> length path = S i ->
  Forall (fun n => free lower path n = true \/ target p n) forest -> forall out,
  run_tokens (mkF (Some p) None i false []) out (forest_tokens lower forest) =
  ROk (mkF (Some p) None i false [], out ++ ser_forest (ref_edit [p] forest)).
Proof.
  intros Ea Hp Hlen. assert (Hin : In p path) by (eapply nth_error_In; exact Hp).
  induction 1 as [|n forest Hn Hf IH]; intros out.
  - cbn. rewrite app_nil_r. reflexivity.
  - unfold forest_tokens, Dom.ref_edit in *. cbn [flat_map]. rewrite run_tokens_app, ser_forest_app.
    destruct Hn as [Hfree|Htg].
    + rewrite (skip_node path n Hfree); [|apply watched_mk; [intros x [= <-]; exact Hin|discriminate|discriminate]].
      rewrite emit_nobuf, IH, (edit_free p [] n Hin Hfree). cbn [ser_forest flat_map]. rewrite app_nil_r, <- app_assoc. reflexivity.
    + rewrite (target_rep i p n None out Ea Hp Hlen Htg), IH, <- app_assoc. reflexivity.
Qed.

(* ... and before it *)
Lemma level_rep i p forest : act = AReplace -> nth_error path i = Some p -> length path = S i ->
  Forall (fun n => free lower path n = true \/ target p n) forest -> Exists (target p) forest ->
  forall l0 out, (forall x, l0 = Some x -> In x path) ->
  run_tokens (mkF (Some p) l0 i false []) out (forest_tokens lower forest) =
  ROk (mkF (Some p) None i false [], out ++ ser_forest (ref_edit [p] forest)).
Proof.
  intros Ea Hp Hlen. assert (Hin : In p path) by (eapply nth_error_In; exact Hp).
  induction 1 as [|n forest Hn Hf IH]; intros Hex l0 out Hl0; [inversion Hex|].
  unfold forest_tokens, Dom.ref_edit in *. cbn [flat_map]. rewrite run_tokens_app, ser_forest_app.
  destruct Hn as [Hfree|Htg].
  - rewrite (skip_node path n Hfree); [|apply watched_mk; [intros x [= <-]; exact Hin|exact Hl0|discriminate]].
    rewrite emit_nobuf. rewrite IH; [|inversion Hex as [? ? Hx|? ? Hx]; subst; [exfalso; eapply free_not_target; eassumption|exact Hx]|exact Hl0].
    rewrite (edit_free p [] n Hin Hfree). cbn [ser_forest flat_map]. rewrite app_nil_r, <- app_assoc. reflexivity.
  - rewrite (target_rep i p n l0 out Ea Hp Hlen Htg).
    pose proof (level_rep_after i p forest Ea Hp Hlen Hf) as Hafter. unfold forest_tokens, Dom.ref_edit in Hafter.
    rewrite Hafter, <- app_assoc. reflexivity.
Qed.

(* ---- walking down the path ---- *)
Lemma nth_split_path done p rest : path = done ++ p :: rest -> nth_error path (length done) = Some p.
Proof. intros ->. rewrite nth_error_app2 by lia. rewrite Nat.sub_diag. reflexivity. Qed.

Lemma walk_ins : act <> AReplace -> forall rest done p, path = done ++ p :: rest ->
  forall forest, spine insert_ok (p :: rest) forest -> forall out,
  run_tokens (mkF (Some p) (lv (length done)) (length done) false []) out (forest_tokens lower forest) =
  ROk (mkF (Some p) (lv (length done)) (pred (length done)) false [], out ++ ser_forest (ref_edit (p :: rest) forest)).
Proof.
  intros Hact. induction rest as [|q rest IH]; intros done p Hpath forest Hsp out;
    pose proof (nth_split_path done p _ Hpath) as Hp; assert (Hin : In p path) by (eapply nth_error_In; exact Hp);
    set (i := length done) in *.
  - assert (Hlen : length path = S i). { rewrite Hpath, app_length. cbn [length]. unfold i. lia. }
    cbn [spine] in Hsp.
    assert (Hsp' : exists pre t a ch post, forest = pre ++ Elem t a ch :: post /\ target p (Elem t a ch) /\
                   forallb (free lower path) pre = true /\ forallb (free lower path) post = true /\ insert_ok (Elem t a ch))
      by (destruct act; [exact Hsp|exact Hsp|congruence]).
    clear Hsp. destruct Hsp' as (pre & t & a & ch & post & -> & Htg & Hpre & Hpost & Hins).
    rewrite forest_tokens_app. change (forest_tokens lower (Elem t a ch :: post)) with (doc_tokens lower (Elem t a ch) ++ forest_tokens lower post).
    rewrite run_tokens_app, (skip_mk path); [|exact Hpre|intros x [= <-]; exact Hin|apply lv_in|discriminate].
    rewrite emit_nobuf, run_tokens_app, (target_ins i p t a ch (lv i) _ Hact Hp Hlen Htg Hins).
    rewrite (skip_mk path); [|exact Hpost|intros x [= <-]; exact Hin|apply lv_in|discriminate].
    rewrite emit_nobuf. rewrite ref_edit_app, (ref_edit_free p [] pre Hin Hpre).
    change (ref_edit [p] (Elem t a ch :: post)) with (edit [p] (Elem t a ch) ++ ref_edit [p] post).
    rewrite (ref_edit_free p [] post Hin Hpost), !ser_forest_app, <- !app_assoc. reflexivity.
  - cbn [spine] in Hsp. destruct Hsp as (pre & t & a & ch & post & -> & Ht & Hvoid & Hpre & Hpost & Hch).
    assert (Hpath2 : path = (done ++ [p]) ++ q :: rest) by (rewrite <- app_assoc; exact Hpath).
    assert (Hlen2 : length (done ++ [p]) = S i) by (rewrite app_length; cbn [length]; unfold i; lia).
    pose proof (nth_split_path _ q _ Hpath2) as Hq. rewrite Hlen2 in Hq.
    assert (Hlt : (length path <=? i + 1) = false).
    { apply Nat.leb_gt. assert (S i < length path) by (apply nth_error_Some; congruence). lia. }
    rewrite forest_tokens_app. change (forest_tokens lower (Elem t a ch :: post)) with (doc_tokens lower (Elem t a ch) ++ forest_tokens lower post).
    rewrite run_tokens_app, (skip_mk path); [|exact Hpre|intros x [= <-]; exact Hin|apply lv_in|discriminate].
    rewrite emit_nobuf, run_tokens_app.
    cbn [doc_tokens]. rewrite Ht. change (flat_map (doc_tokens lower) ch) with (forest_tokens lower ch).
    cbn [run_tokens tok_step]. rewrite (start_mid p q _ i false _ Hp Hq), Hvoid, emit_nobuf, run_tokens_app.
    pose proof (IH (done ++ [p]) q Hpath2 ch Hch) as IHc. rewrite Hlen2 in IHc. cbn [lv pred] in IHc. rewrite Hp in IHc.
    assert (Hend : forall data, on_end_tag (mkF (Some q) (Some p) i false []) p data = ROk (mkF (Some p) (lv i) (pred i) false [], data)).
    { intros data. destruct act eqn:Ea; [| |congruence]; apply end_nobuf_mk.
      - rewrite (v_leave_append i p _ Ea Hp), Hlt. reflexivity.
      - rewrite (v_leave_prepend i false p _ Ea Hp). reflexivity. }
    rewrite IHc. cbn [run_tokens tok_step]. rewrite Hend, emit_nobuf.
    rewrite (skip_mk path); [|exact Hpost|intros x [= <-]; exact Hin|apply lv_in|discriminate].
    rewrite emit_nobuf. rewrite ref_edit_app, (ref_edit_free p _ pre Hin Hpre).
    change (ref_edit (p :: q :: rest) (Elem t a ch :: post)) with (edit (p :: q :: rest) (Elem t a ch) ++ ref_edit (p :: q :: rest) post).
    rewrite (ref_edit_free p _ post Hin Hpost). cbn [Dom.edit]. rewrite Ht, str_eqb_refl.
    rewrite !ser_forest_app. cbn [ser_forest flat_map serialize]. rewrite app_nil_r, <- !app_assoc. reflexivity.
Qed.

Lemma walk_rep P plast : act = AReplace -> nth_error path (pred (length path)) = Some plast ->
  forall rest done p, path = done ++ p :: rest ->
  forall forest, spine P (p :: rest) forest -> forall out,
  run_tokens (mkF (Some p) (lv (length done)) (length done) false []) out (forest_tokens lower forest) =
  ROk (mkF (Some plast) None (pred (length path)) false [], out ++ ser_forest (ref_edit (p :: rest) forest)).
Proof.
  intros Ea Hlast. assert (Hinl : In plast path) by (eapply nth_error_In; exact Hlast).
  induction rest as [|q rest IH]; intros done p Hpath forest Hsp out;
    pose proof (nth_split_path done p _ Hpath) as Hp; assert (Hin : In p path) by (eapply nth_error_In; exact Hp);
    set (i := length done) in *.
  - assert (Hlen : length path = S i). { rewrite Hpath, app_length. cbn [length]. unfold i. lia. }
    cbn [spine] in Hsp. rewrite Ea in Hsp. destruct Hsp as [Hall Hex].
    rewrite Hlen in *. cbn [pred] in *. assert (plast = p) as -> by congruence.
    apply (level_rep i p forest Ea Hp Hlen Hall Hex). apply lv_in.
  - cbn [spine] in Hsp. destruct Hsp as (pre & t & a & ch & post & -> & Ht & Hvoid & Hpre & Hpost & Hch).
    assert (Hpath2 : path = (done ++ [p]) ++ q :: rest) by (rewrite <- app_assoc; exact Hpath).
    assert (Hlen2 : length (done ++ [p]) = S i) by (rewrite app_length; cbn [length]; unfold i; lia).
    pose proof (nth_split_path _ q _ Hpath2) as Hq. rewrite Hlen2 in Hq.
    rewrite forest_tokens_app. change (forest_tokens lower (Elem t a ch :: post)) with (doc_tokens lower (Elem t a ch) ++ forest_tokens lower post).
    rewrite run_tokens_app, (skip_mk path); [|exact Hpre|intros x [= <-]; exact Hin|apply lv_in|discriminate].
    rewrite emit_nobuf, run_tokens_app.
    cbn [doc_tokens]. rewrite Ht. change (flat_map (doc_tokens lower) ch) with (forest_tokens lower ch).
    cbn [run_tokens tok_step]. rewrite (start_mid p q _ i false _ Hp Hq), Hvoid, emit_nobuf, run_tokens_app.
    pose proof (IH (done ++ [p]) q Hpath2 ch Hch) as IHc. rewrite Hlen2 in IHc. cbn [lv] in IHc. rewrite Hp in IHc.
    rewrite IHc. cbn [run_tokens tok_step]. rewrite end_no_leave, emit_nobuf.
    rewrite (skip_mk path); [|exact Hpost|intros x [= <-]; exact Hinl|discriminate|discriminate].
    rewrite emit_nobuf. rewrite ref_edit_app, (ref_edit_free p _ pre Hin Hpre).
    change (ref_edit (p :: q :: rest) (Elem t a ch :: post)) with (edit (p :: q :: rest) (Elem t a ch) ++ ref_edit (p :: q :: rest) post).
    rewrite (ref_edit_free p _ post Hin Hpost). cbn [Dom.edit]. rewrite Ht, str_eqb_refl.
    rewrite !ser_forest_app. cbn [ser_forest flat_map serialize]. rewrite app_nil_r, <- !app_assoc. reflexivity.
Qed.

End Spine.

(* ========================================================================================== the theorem *)
(* HtmlBodyVisitor::new for the three actions *)
Definition mkvis (act : action) (path : list str) (sel : option str) (value : list node) : visitor :=
  {| v_kind := vk act; v_tree := path; v_pos := 0; v_sel := sel; v_content := ser_forest value; v_buffering := false; v_oob := false |}.

(* the whole domain of C15 for one filter *)
Definition in_domain (act : action) (path : list str) (sel : option str) (value : list node) (doc : list node) : Prop :=
  spine act path (insert_ok act sel value) path doc.

Theorem C15_token_level act path sel value doc : in_domain act path sel value doc ->
  exists F', run_tokens (hfb_new (mkvis act path sel value)) [] (forest_tokens lower doc)
             = ROk (F', ser_forest (ref_edit lower act value (css sel) path doc))
             /\ f_buffers F' = [] /\ f_last F' = [].
Proof.
  unfold in_domain. intros Hsp. destruct path as [|p0 rest]; [destruct Hsp|].
  change (hfb_new (mkvis act (p0 :: rest) sel value)) with (mkF act (p0 :: rest) sel value [] [] false (Some p0) None 0 false []).
  destruct (action_eq_dec act AReplace) as [Ea|Hact].
  - destruct (nth_error (p0 :: rest) (pred (length (p0 :: rest)))) as [plast|] eqn:Hlast.
    2:{ apply nth_error_None in Hlast. cbn [length] in Hlast. lia. }
    pose proof (walk_rep act (p0 :: rest) sel value [] [] false _ plast Ea Hlast rest [] p0 eq_refl doc Hsp []) as H.
    eexists. split; [exact H|]. split; reflexivity.
  - pose proof (walk_ins act (p0 :: rest) sel value [] [] false Hact rest [] p0 eq_refl doc Hsp []) as H.
    eexists. split; [exact H|]. split; reflexivity.
Qed.

End Tokens.

