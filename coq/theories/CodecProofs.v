(* CodecProofs.v — C14 on the model of RIO.Codec, from the generic chain theorem of RIO.CodecChain. *)
Require Import RIO.Base RIO.TokMonad RIO.HtmlTok RIO.BodyText RIO.HtmlFilter RIO.ChainProofs RIO.BodyProofs RIO.CodecChain RIO.Codec.
Close Scope N_scope.

Section CodecProofs.
Variable lower : str -> str.
Variable sel : str -> str -> bool.
Variables D E : Type.
Variable dec_new : str -> D.
Variable enc_new : str -> E.
Variable dtf : D -> str -> D * str.
Variable dte : D -> D * str.
Variable etf : E -> str -> E * str.
Variable ete : E -> E * str.

Notation stage14 := (stage14 D E).
Notation tf14 := (stage14_tf lower sel D E dtf etf).
Notation te14 := (stage14_te D E dte ete).
Notation SDec := (SDec D E).
Notation SMid := (SMid D E).
Notation SEnc := (SEnc D E).

(* an empty chain passes everything through *)
Lemma run_empty (stage : Type) tf te chunks : run stage tf te [] chunks = concat chunks.
Proof.
  induction chunks as [|c cs IH].
  - reflexivity.
  - rewrite run_cons. cbn [cf fst snd concat]. rewrite IH. reflexivity.
Qed.

Lemma houts_dec d cs : houts stage14 tf14 te14 (SDec d) cs = dec_outs D dtf dte d cs.
Proof.
  revert d. induction cs as [|c cs IH]; intros d; cbn [houts dec_outs stage14_te stage14_tf].
  - destruct (dte d); reflexivity.
  - destruct (dtf d c) as [d' o]. rewrite IH. reflexivity.
Qed.

Lemma some_ne_get x : match some_ne x with Some d => d | None => [] end = x.
Proof. unfold some_ne. destruct x; reflexivity. Qed.
Lemma te14_enc e : snd (te14 (SEnc e)) = snd (ete e).
Proof. cbn. destruct (ete e); reflexivity. Qed.
Lemma tf14_enc e d : tf14 (SEnc e) d = (SEnc (fst (etf e d)), snd (etf e d)).
Proof. cbn. destruct (etf e d); reflexivity. Qed.

Lemma feed_enc e os eo : feed stage14 tf14 te14 [SEnc e] os eo = enc_out E etf ete e os eo.
Proof.
  revert e. induction os as [|o os IH]; intros e; cbn [feed enc_out].
  - unfold some_ne at 1. destruct (is_nil eo) eqn:Ee; cbn [ce].
    + rewrite te14_enc. apply some_ne_get.
    + rewrite tf14_enc, te14_enc. rewrite some_ne_get. destruct (etf e eo) as [e1 o1]. reflexivity.
  - destruct (is_nil o); [apply IH|]. cbn [cf]. rewrite tf14_enc. destruct (etf e o) as [e' x]. cbn [fst snd].
    destruct (is_nil x); rewrite IH; reflexivity.
Qed.

(* the middle stages behave as the plain chain *)
Lemma cf_mid ch d : cf stage14 tf14 (map SMid ch) d = (map SMid (fst (cf stage (stage_tf lower sel) ch d)), snd (cf stage (stage_tf lower sel) ch d)).
Proof.
  revert d. induction ch as [|s ch IH]; intros d; cbn [map cf stage14_tf]; [reflexivity|].
  destruct (stage_tf lower sel s d) as [s' o]. destruct (is_nil o); [reflexivity|].
  rewrite IH. destruct (cf stage (stage_tf lower sel) ch o) as [ch' o']. reflexivity.
Qed.

Lemma te14_mid s : snd (te14 (SMid s)) = snd (stage_te s).
Proof. cbn. destruct (stage_te s); reflexivity. Qed.
Lemma tf14_mid s d : tf14 (SMid s) d = (SMid (fst (stage_tf lower sel s d)), snd (stage_tf lower sel s d)).
Proof. cbn. destruct (stage_tf lower sel s d); reflexivity. Qed.

Lemma ce_mid ch data : ce stage14 tf14 te14 (map SMid ch) data = ce stage (stage_tf lower sel) stage_te ch data.
Proof.
  revert data. induction ch as [|s ch IH]; intros data; cbn [map ce]; [reflexivity|].
  destruct data as [d|].
  - rewrite tf14_mid, te14_mid. destruct (stage_tf lower sel s d) as [s1 o1]. cbn [fst snd]. apply IH.
  - rewrite te14_mid. apply IH.
Qed.

Lemma run_mid ch chunks : run stage14 tf14 te14 (map SMid ch) chunks = run stage (stage_tf lower sel) stage_te ch chunks.
Proof.
  revert ch. induction chunks as [|c cs IH]; intros ch.
  - rewrite !run_nil. apply ce_mid.
  - rewrite !run_cons, cf_mid. cbn [fst snd]. rewrite IH. reflexivity.
Qed.

Lemma split_mid s : split_law stage (stage_tf lower sel) s -> split_law stage14 tf14 (SMid s).
Proof.
  intros H c1 c2. specialize (H c1 c2). cbn [stage14_tf].
  destruct (stage_tf lower sel s c1) as [s1 o1]. cbn [stage14_tf]. destruct (stage_tf lower sel s1 c2) as [s2 o2].
  rewrite <- H. reflexivity.
Qed.

(* unsupported encoding, or nothing to apply: no chain, the body passes through untouched *)
Theorem unsupported_passthrough supported enc ctok fs chunks :
  mem_str enc supported = false ->
  body_run14 lower sel D E dec_new enc_new dtf dte etf ete supported (Some enc) ctok fs chunks = concat chunks.
Proof.
  intros H. unfold body_run14, stages14. rewrite H. destruct (is_nil _); apply run_empty.
Qed.

Theorem no_stage_passthrough supported ce ctok fs chunks :
  stages_of ctok fs = [] ->
  body_run14 lower sel D E dec_new enc_new dtf dte etf ete supported ce ctok fs chunks = concat chunks.
Proof.
  intros H. unfold body_run14, stages14. rewrite H. cbn. apply run_empty.
Qed.

(* no content-encoding: the plain chain of C03 *)
Theorem no_encoding_plain supported ctok fs chunks :
  body_run14 lower sel D E dec_new enc_new dtf dte etf ete supported None ctok fs chunks = body_run lower sel ctok fs chunks.
Proof.
  unfold body_run14, stages14. rewrite body_run_total. destruct (stages_of ctok fs) as [|s ch] eqn:Es.
  - cbn. rewrite !run_empty. reflexivity.
  - cbn [map is_nil]. apply (run_mid (s :: ch)).
Qed.

(* supported encoding *)
Theorem supported_codec supported enc ctok fs stream plain decode_all cs :
  mem_str enc supported = true ->
  stages_of ctok fs <> [] ->
  (* the decoder decodes [stream] to [plain] however it is cut *)
  (forall cs, concat cs = stream ->
     concat (fst (dec_outs D dtf dte (dec_new enc) cs)) ++ snd (dec_outs D dtf dte (dec_new enc) cs) = plain) ->
  (* whatever the encoder is given, the independent decoder recovers it from the encoder's whole output *)
  (forall os eo, decode_all (enc_out E etf ete (enc_new enc) os eo) = Some (concat os ++ eo)) ->
  (* the filters' stages satisfy the split law (C03) *)
  (forall st, In st (stages_of ctok fs) -> split_law stage (stage_tf lower sel) st) ->
  concat cs = stream ->
  decode_all (body_run14 lower sel D E dec_new enc_new dtf dte etf ete supported (Some enc) ctok fs cs)
  = Some (body_run lower sel ctok fs (if is_nil plain then [] else [plain])).
Proof.
  intros Hs Hne Hd He Hm Hcs. unfold body_run14, stages14. rewrite Hs.
  destruct (is_nil (map SMid (stages_of ctok fs))) eqn:En.
  { destruct (stages_of ctok fs); [congruence|discriminate]. }
  rewrite (codec_chain stage14 tf14 te14 (SDec (dec_new enc)) (SEnc (enc_new enc)) (map SMid (stages_of ctok fs)) stream plain decode_all).
  - rewrite !run_mid, <- !body_run_total. destruct (is_nil plain); reflexivity.
  - intros cs' Hc. rewrite houts_dec. apply Hd. exact Hc.
  - intros os eo. rewrite feed_enc. apply He.
  - apply Forall_forall. intros x Hx. apply in_map_iff in Hx. destruct Hx as (s & <- & Hin). apply split_mid. apply Hm. exact Hin.
  - exact Hcs.
Qed.
End CodecProofs.
