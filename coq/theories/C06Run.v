(* C06Run.v — executable verdicts for C06 (an action / a request survives JSON serialisation).
   A case = the JSON text the crate produced for a value it built (parsed by the harness into the AST of RIO.Json,
   object members in textual order) and what the crate observed after serde_json::from_str of that text. *)
Require Import RIO.Base RIO.Json.
Close Scope N_scope.

Record case06 := {
  k_is_request : bool;
  k_json : json;                 (* serde_json::to_string(x) *)
  o_de_ok : bool;                (* from_str succeeded *)
  o_reser_same : bool;           (* to_string(from_str(to_string(x))) = to_string(x), as text *)
  o_obs_same : bool              (* actions: status / filtered headers / body-filter output / log decision / applied ids for a panel of
                                    response codes, header lists and probe bodies; requests: ids matched by the router *)
}.

(* bit 1: the schema extracted from the source reads the crate's JSON, types it, and writes it back member for member;
   bit 4: the property on the crate's observations *)
Definition verdict06 (schema_action schema_request : ty) (c : case06) : N :=
  let t := if k_is_request c then schema_request else schema_action in
  (vbit (match de t (k_json c) with
         | Some v => has_ty t v && json_eqb (ser t v) (k_json c)
         | None => false
         end) 1
   + vbit (o_de_ok c && o_reser_same c && o_obs_same c) 4)%N.

Definition spec_verdict06 (c : case06) : N := vbit (o_de_ok c && o_reser_same c && o_obs_same c) 4.
