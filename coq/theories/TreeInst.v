(* TreeInst.v — the abstract prefix structure of TreeProofs instantiated with prefix.rs (RIO.Prefix):
   shapes are renderings of well-formed token lists, token-prefix is [firstn] on tokens. *)
Require Import RIO.Base RIO.Prefix RIO.RegexSem RIO.Tree RIO.TreeProofs.
Close Scope N_scope.
Open Scope nat_scope.

Definition cp_c (a b : pat) : nat := common_prefix_char_size a b.
Definition take_c (p : pat) (n : nat) : pat := get_prefix_with_char_size p n.
Definition clen_c (p : pat) : nat := length p.

Definition toks_ok (ts : list tok) : Prop := forallb tok_ok ts = true.
Definition shape_c (p : pat) : Prop := exists ts, toks_ok ts /\ render ts = p.
Definition tpre_c (p q : pat) : Prop := exists ts k, toks_ok ts /\ render ts = q /\ render (firstn k ts) = p.

Lemma render_app a b : render (a ++ b) = render a ++ render b.
Proof. unfold render. apply flat_map_app. Qed.

Lemma toks_ok_firstn ts k : toks_ok ts -> toks_ok (firstn k ts).
Proof.
  unfold toks_ok. revert k. induction ts as [|t ts IH]; intros [|k] H; simpl in *; auto.
  apply andb_prop in H. destruct H as [H1 H2]. rewrite H1. simpl. apply IH. exact H2.
Qed.

Lemma render_inj a : forall b, toks_ok a -> toks_ok b -> render a = render b -> a = b.
Proof.
  induction a as [|t a IH]; intros [|u b] Ha Hb E.
  - reflexivity.
  - exfalso. cbn [render flat_map] in E. apply (render1_nonempty u). destruct (render1 u); [reflexivity|discriminate].
  - exfalso. cbn [render flat_map] in E. apply (render1_nonempty t). destruct (render1 t); [reflexivity|discriminate].
  - unfold toks_ok in *. cbn [forallb] in Ha, Hb. apply andb_prop in Ha, Hb. destruct Ha as [Ht Ha]. destruct Hb as [Hu Hb].
    change (render1 t ++ render a = render1 u ++ render b) in E.
    destruct (prefix_free t u _ _ Ht Hu E) as [-> E']. f_equal. apply IH; assumption.
Qed.

Lemma firstn_render ts k : firstn (length (render (firstn k ts))) (render ts) = render (firstn k ts).
Proof.
  rewrite <- (firstn_skipn k ts) at 2. rewrite render_app. rewrite firstn_app, Nat.sub_diag, firstn_all. simpl. apply app_nil_r.
Qed.

Lemma tpre_shape_l_c p q : tpre_c p q -> shape_c p.
Proof. intros (ts & k & Hok & _ & Hp). exists (firstn k ts). split; [apply toks_ok_firstn; exact Hok|exact Hp]. Qed.

Lemma tpre_trans_c a b c : tpre_c a b -> tpre_c b c -> tpre_c a c.
Proof.
  intros (ts1 & k1 & Ho1 & Hb1 & Ha) (ts2 & k2 & Ho2 & Hc & Hb2).
  assert (ts1 = firstn k2 ts2) as ->.
  { apply render_inj; [exact Ho1|apply toks_ok_firstn; exact Ho2|congruence]. }
  exists ts2, (Nat.min k1 k2). split; [exact Ho2|]. split; [exact Hc|]. rewrite <- Ha, firstn_firstn. reflexivity.
Qed.

(* cp q p, cut from p *)
Lemma cut_l_c p q : shape_c p -> shape_c q -> tpre_c (take_c p (cp_c q p)) p.
Proof.
  intros (ps & Hp & <-) (qs & Hq & <-). unfold cp_c, take_c, get_prefix_with_char_size.
  destruct (common_prefix_token_aligned qs ps Hq Hp) as (k & Hk & Hf). rewrite Hk, Hf.
  exists ps, k. split; [exact Hp|]. split; [reflexivity|]. symmetry. apply firstn_render.
Qed.
Lemma cut_r_c p q : shape_c p -> shape_c q -> tpre_c (take_c p (cp_c q p)) q.
Proof.
  intros (ps & Hp & <-) (qs & Hq & <-). unfold cp_c, take_c, get_prefix_with_char_size.
  destruct (common_prefix_token_aligned qs ps Hq Hp) as (k & Hk & Hf). rewrite Hk, Hf, firstn_render.
  exists qs, k. split; [exact Hq|]. split; [reflexivity|]. rewrite Hf. reflexivity.
Qed.
Lemma cut_l'_c p q : shape_c p -> shape_c q -> tpre_c (take_c p (cp_c p q)) p.
Proof.
  intros (ps & Hp & <-) (qs & Hq & <-). unfold cp_c, take_c, get_prefix_with_char_size.
  destruct (common_prefix_token_aligned ps qs Hp Hq) as (k & Hk & Hf). rewrite Hk.
  exists ps, k. split; [exact Hp|]. split; [reflexivity|]. symmetry. apply firstn_render.
Qed.
Lemma cut_r'_c p q : shape_c p -> shape_c q -> tpre_c (take_c p (cp_c p q)) q.
Proof.
  intros (ps & Hp & <-) (qs & Hq & <-). unfold cp_c, take_c, get_prefix_with_char_size.
  destruct (common_prefix_token_aligned ps qs Hp Hq) as (k & Hk & Hf). rewrite Hk, firstn_render.
  exists qs, k. split; [exact Hq|]. split; [reflexivity|]. rewrite Hf. reflexivity.
Qed.

Lemma prefix_length_eq {A} (a b : list A) : (exists x, b = a ++ x) -> length b <= length a -> a = b.
Proof. intros [x ->] H. rewrite app_length in H. destruct x; [rewrite app_nil_r; reflexivity|simpl in H; lia]. Qed.

Lemma cp_pre_c p q : shape_c p -> shape_c q -> clen_c p <= cp_c q p -> tpre_c p q.
Proof.
  intros (ps & Hp & <-) (qs & Hq & <-). unfold cp_c, clen_c.
  destruct (common_prefix_token_aligned qs ps Hq Hp) as (k & Hk & Hf). rewrite Hk, Hf. intros Hle.
  exists qs, k. split; [exact Hq|]. split; [reflexivity|]. rewrite Hf.
  apply prefix_length_eq; [|exact Hle].
  exists (render (skipn k ps)). rewrite <- render_app, firstn_skipn. reflexivity.
Qed.

Lemma starts_with_app (a b : pat) : starts_with (a ++ b) a = true.
Proof. induction a as [|x a IH]; simpl; [reflexivity|]. rewrite N.eqb_refl. exact IH. Qed.

Lemma tpre_starts_c p q : tpre_c p q -> starts_with q p = true.
Proof.
  intros (ts & k & _ & <- & <-). rewrite <- (firstn_skipn k ts) at 1. rewrite render_app. apply starts_with_app.
Qed.

(* The law assumed of the regex engine, spelled out for the concrete shapes: if ^q$ matches s and p is
   a token-prefix of q then ^p matches s (or p is empty). *)
Definition engine_prefix_law (eng : bool -> pat -> list N -> bool) : Prop :=
  forall ic p q s, tpre_c p q -> ML eng ic q s = true -> MN eng ic p s = true.
Definition engine_dotstar (eng : bool -> pat -> list N -> bool) : Prop :=
  forall ic s, eng ic [c_dot; c_star] s = true.

(* Any engine that is compositional over tokens (i.e. agrees with the token-level semantics of
   RIO.RegexSem for SOME group oracle G and SOME case folding) satisfies the prefix law. *)
Theorem compositional_engine_prefix_law eng
    (G : bool -> list chr -> list chr -> nat -> nat -> bool) (fold : chr -> chr) :
  (forall ic ts s, toks_ok ts -> ts <> [] -> eng ic (leaf_regex (render ts)) s = full_match G fold ic ts s) ->
  (forall ic ts s, toks_ok ts -> ts <> [] -> eng ic (c_caret :: render ts) s = prefix_match G fold ic ts s) ->
  (forall ic s, eng ic (leaf_regex []) s = true -> s = []) ->
  engine_prefix_law eng.
Proof.
  intros Hfull Hpre Hempty ic p q s (ts & k & Hok & <- & <-) Hm. unfold ML in Hm. unfold MN.
  destruct (render (firstn k ts)) as [|c0 r0] eqn:Er; [reflexivity|]. cbn [is_nil]. rewrite <- Er.
  assert (firstn k ts <> []) as Hne by (intros E; rewrite E in Er; discriminate).
  assert (ts <> []) as Hts by (intros E; rewrite E in Hne; destruct k; apply Hne; reflexivity).
  rewrite Hpre by (try apply toks_ok_firstn; assumption).
  rewrite Hfull in Hm by assumption. apply prefix_law. exact Hm.
Qed.
