Require Import RIO.Base RIO.TokMonad RIO.HtmlTok RIO.BodyText RIO.HtmlFilter RIO.ChainProofs RIO.BodyProofs RIO.CodecChain.
Close Scope N_scope.

(* BodyPass.v — C04 on the model: pass-through when nothing applies, after errors; insert-only text filters. *)
Section BodyPass.
Variable lower : str -> str.
Variable sel : str -> str -> bool.
Notation tf := (stage_tf lower sel).
Notation te := stage_te.

(* ---- nothing to apply: the body passes through ---- *)
Lemma run_no_stage (stage : Type) f e chunks : run stage f e [] chunks = concat chunks.
Proof. induction chunks as [|c cs IH]; [reflexivity|]. rewrite run_cons. cbn [cf fst snd concat]. rewrite IH. reflexivity. Qed.

Definition unbuildable (ctok : bool) (f : body_filter) : Prop :=
  match f with
  | BFText _ _ => False
  | BFHtml h => ctok = false \/ hf_tree h = [] \/ hf_kind h = HOther
  end.

Lemma unbuildable_no_stage ctok fs : (forall f, In f fs -> unbuildable ctok f) -> stages_of ctok fs = [].
Proof.
  induction fs as [|f fs IH]; intros H; cbn [stages_of]; [reflexivity|].
  assert (Hf : stage_new ctok f = None).
  { specialize (H f (or_introl eq_refl)). destruct f as [a c|h]; cbn in H; [destruct H|]. cbn [stage_new].
    destruct H as [->|[Ht|Hk]]; [reflexivity| |].
    - destruct ctok; [|reflexivity]. unfold visitor_new. rewrite Ht. reflexivity.
    - destruct ctok; [|reflexivity]. unfold visitor_new. rewrite Hk. destruct (is_nil (hf_tree h)); reflexivity. }
  rewrite Hf. apply IH. intros g Hg. apply H. right. exact Hg.
Qed.

Lemma no_stage_passthrough' ctok fs chunks : stages_of ctok fs = [] -> body_run lower sel ctok fs chunks = concat chunks.
Proof. intros H. rewrite body_run_total, H. apply run_no_stage. Qed.

(* ---- insert-only text filters ---- *)
Definition fresh_insert (st : stage) : Prop :=
  match st with
  | StText t => ts_executed t = false /\ ts_action t <> TReplace
  | StHtml _ => False
  end.
Fixpoint pre_of (ch : list stage) : str :=
  match ch with
  | [] => []
  | StText t :: rest => pre_of rest ++ (match ts_action t with TPrepend => ts_content t | _ => [] end)
  | _ :: rest => pre_of rest
  end.
Fixpoint app_of (ch : list stage) : str :=
  match ch with
  | [] => []
  | StText t :: rest => (match ts_action t with TAppend => ts_content t | _ => [] end) ++ app_of rest
  | _ :: rest => app_of rest
  end.

Definition get_data (data : option str) : str := match data with Some d => d | None => [] end.

Lemma get_some_ne x : get_data (some_ne x) = x.
Proof. unfold some_ne. destruct x; reflexivity. Qed.

Lemma ce_insert_only ch : Forall fresh_insert ch -> forall data,
  ce stage tf te ch data = pre_of ch ++ get_data data ++ app_of ch.
Proof.
  induction ch as [|st rest IH]; intros Hf data.
  - cbn. rewrite app_nil_r. destruct data; reflexivity.
  - inversion Hf as [|? ? Hs Hr]; subst. destruct st as [t|F]; [|destruct Hs]. destruct Hs as [He Ha].
    destruct t as [a c e]. cbn in He, Ha. subst e. cbn [ce pre_of app_of ts_action ts_content].
    destruct a; [| |congruence]; destruct data as [d|]; cbn [stage_tf stage_te text_filter text_end ts_action ts_executed ts_content snd get_data];
      rewrite (IH Hr), get_some_ne; rewrite ?app_nil_r, <- ?app_assoc; cbn [app]; reflexivity.
Qed.

Lemma fresh_insert_split st : fresh_insert st -> split_law stage tf st.
Proof. destruct st as [t|F]; [intros _; apply text_stage_split|intros []]. Qed.

Theorem insert_only_run ch chunks : Forall fresh_insert ch -> (chunks = [] \/ concat chunks <> []) ->
  run stage tf te ch chunks = pre_of ch ++ concat chunks ++ app_of ch.
Proof.
  intros Hf Hc. assert (Hg : Forall (split_law stage tf) ch).
  { apply Forall_forall. intros st Hst. apply fresh_insert_split. rewrite Forall_forall in Hf. apply Hf. exact Hst. }
  destruct chunks as [|c cs].
  - rewrite run_nil. rewrite (ce_insert_only ch Hf None). reflexivity.
  - destruct Hc as [Hc|Hc]; [discriminate|].
    etransitivity; [apply (run_chunk_invariant stage tf te (split_law stage tf) (fun s H => H) ch c cs Hg)|].
    rewrite run_cons, run_nil.
    assert (Hn : is_nil (concat (c :: cs)) = false) by (destruct (concat (c :: cs)); [congruence|reflexivity]).
    etransitivity; [symmetry; apply (end_data stage tf te ch Hg _ Hn)|]. rewrite (ce_insert_only ch Hf). reflexivity.
Qed.

Definition insert_only_text (f : body_filter) : Prop :=
  match f with BFText TAppend _ | BFText TPrepend _ => True | _ => False end.

Lemma insert_only_stages ctok fs : (forall f, In f fs -> insert_only_text f) -> Forall fresh_insert (stages_of ctok fs).
Proof.
  induction fs as [|f fs IH]; intros H; cbn [stages_of]; [constructor|].
  pose proof (H f (or_introl eq_refl)) as Hf. destruct f as [a c|h]; [|destruct Hf]. cbn [stage_new].
  constructor; [|apply IH; intros g Hg; apply H; right; exact Hg].
  cbn. split; [reflexivity|]. destruct a; [discriminate|discriminate|destruct Hf].
Qed.

(* ---- the HTML stage after an internal error (invalid UTF-8): releases what it holds, then passes through ---- *)
Lemma hfb_error_releases F input : f_in_error F = false -> do_filter lower sel F input = RErr ->
  snd (hfb_filter lower sel F input) = held F ++ input
  /\ held (fst (hfb_filter lower sel F input)) = []
  /\ f_in_error (fst (hfb_filter lower sel F input)) = true.
Proof. intros He Hd. unfold hfb_filter. rewrite He, Hd. cbn. repeat split. Qed.

Lemma hfb_in_error_identity F input : f_in_error F = true ->
  hfb_filter lower sel F input = (F, input).
Proof. intros He. unfold hfb_filter. rewrite He. reflexivity. Qed.
End BodyPass.

(* ---- FilterBodyAction after a stage failure: the failing chunk and every later chunk pass through ---- *)
Section FbaError.
Variable stage : Type.
Variable s_filter : stage -> str -> option (stage * str).
Variable s_end : stage -> option (stage * str).

Lemma fba_run_in_error f chunks : fb_in_error f = true -> fba_run stage s_filter s_end f chunks = concat chunks.
Proof.
  revert f. induction chunks as [|c cs IH]; intros f He; cbn [fba_run concat].
  - unfold fba_end. rewrite He. reflexivity.
  - unfold fba_filter. rewrite He. rewrite IH by exact He. reflexivity.
Qed.

Lemma fba_error_at f c cs : fb_in_error f = false -> chain_filter stage s_filter (fb_chain f) c = None ->
  fba_run stage s_filter s_end f (c :: cs) = concat (c :: cs).
Proof.
  intros He Hc. cbn [fba_run concat]. unfold fba_filter. rewrite He, Hc. rewrite fba_run_in_error by reflexivity. reflexivity.
Qed.
End FbaError.

(* ---- insert-only text filters, for EVERY chunking (empty chunks, only empty chunks, no chunk at all) ---- *)
Section InsertOnlyAll.
Variable lower : str -> str.
Variable sel : str -> str -> bool.
Notation tf := (stage_tf lower sel).
Notation te := stage_te.

(* insert-only stages in any state they can reach: a prepend that has fired or not, an append that has not ended *)
Definition ins_stage (st : stage) : Prop :=
  match st with
  | StText t => (ts_action t = TPrepend) \/ (ts_action t = TAppend /\ ts_executed t = false)
  | StHtml _ => False
  end.
(* what is still to be prepended *)
Fixpoint pre_left (ch : list stage) : str :=
  match ch with
  | [] => []
  | StText t :: rest => pre_left rest ++ (match ts_action t, ts_executed t with TPrepend, false => ts_content t | _, _ => [] end)
  | _ :: rest => pre_left rest
  end.
Definition fire (st : stage) : stage :=
  match st with
  | StText t => match ts_action t with TPrepend => StText {| ts_action := TPrepend; ts_content := ts_content t; ts_executed := true |} | _ => st end
  | _ => st
  end.

Lemma ins_fire st : ins_stage st -> ins_stage (fire st).
Proof.
  destruct st as [t|F]; [|intros []]. destruct t as [a c e]. cbn [ins_stage ts_action ts_executed]. intros [H|[H1 H2]]; subst.
  - cbn. left. reflexivity.
  - cbn. right. split; reflexivity.
Qed.
Lemma pre_left_fire ch : Forall ins_stage ch -> pre_left (map fire ch) = [].
Proof.
  induction ch as [|st ch IH]; intros H; [reflexivity|]. inversion H as [|? ? Hs Hr]; subst. destruct st as [t|F]; [|destruct Hs].
  destruct t as [a c e]. cbn in Hs. cbn [map fire ts_action]. destruct Hs as [Ha|[Ha He]]; cbn in Ha; subst a; cbn [pre_left ts_action ts_executed ts_content]; rewrite (IH Hr); reflexivity.
Qed.
Lemma app_of_fire ch : app_of (map fire ch) = app_of ch.
Proof. induction ch as [|st ch IH]; [reflexivity|]. destruct st as [t|F]; cbn [map fire]; [|exact IH]. destruct t as [a c e]. destruct a; cbn [app_of ts_action ts_content fire]; rewrite IH; reflexivity. Qed.

(* non-empty data flows through the whole chain: every pending prepend fires *)
Lemma cf_nonempty ch : Forall ins_stage ch -> forall d, is_nil d = false ->
  cf stage tf ch d = (map fire ch, pre_left ch ++ d).
Proof.
  induction ch as [|st ch IH]; intros H d Hd; [reflexivity|]. inversion H as [|? ? Hs Hr]; subst. destruct st as [t|F]; [|destruct Hs].
  destruct t as [a c e]. cbn in Hs. cbn [cf stage_tf]. unfold text_filter. cbn [ts_action ts_executed ts_content].
  destruct Hs as [Ha|[Ha He]]; cbn in Ha; subst a.
  - destruct e; cbn [map fire pre_left ts_action ts_executed ts_content].
    + rewrite Hd. rewrite (IH Hr d Hd). rewrite app_nil_r. reflexivity.
    + assert (Hn : is_nil (c ++ d) = false) by (destruct c; [exact Hd|reflexivity]). rewrite Hn. rewrite (IH Hr _ Hn). rewrite app_assoc. reflexivity.
  - cbn in He. subst e. cbn [map fire pre_left ts_action ts_executed ts_content]. rewrite Hd. rewrite (IH Hr d Hd). rewrite app_nil_r. reflexivity.
Qed.

(* ending: whatever is still to be prepended, the pending data, the appends *)
Lemma ce_ins ch : Forall ins_stage ch -> forall data, wf_data data ->
  ce stage tf te ch data = pre_left ch ++ get_data data ++ app_of ch.
Proof.
  induction ch as [|st rest IH]; intros Hf data Hw.
  - cbn. rewrite app_nil_r. destruct data; reflexivity.
  - inversion Hf as [|? ? Hs Hr]; subst. destruct st as [t|F]; [|destruct Hs]. destruct t as [a c e]. cbn in Hs.
    destruct Hs as [Ha|[Ha He]]; cbn in Ha; subst a.
    + destruct e; destruct data as [d|]; cbn [ce pre_left app_of stage_tf stage_te]; unfold text_filter, text_end; cbn [ts_action ts_executed ts_content snd get_data];
        rewrite (IH Hr) by apply wf_some_ne; rewrite get_some_ne; rewrite ?app_nil_r, <- ?app_assoc; cbn [app]; reflexivity.
    + cbn in He. subst e. destruct data as [d|]; cbn [ce pre_left app_of stage_tf stage_te]; unfold text_filter, text_end; cbn [ts_action ts_executed ts_content snd get_data];
        rewrite (IH Hr) by apply wf_some_ne; rewrite get_some_ne; rewrite ?app_nil_r, <- ?app_assoc; cbn [app]; reflexivity.
Qed.

(* an empty chunk: stops at the first stage that emits nothing; what it moved is accounted for *)
Lemma cf_empty ch : Forall ins_stage ch ->
  Forall ins_stage (fst (cf stage tf ch [])) /\ app_of (fst (cf stage tf ch [])) = app_of ch
  /\ snd (cf stage tf ch []) ++ pre_left (fst (cf stage tf ch [])) = pre_left ch.
Proof.
  induction ch as [|st ch IH]; intros H; [cbn; auto|]. inversion H as [|? ? Hs Hr]; subst. destruct st as [t|F]; [|destruct Hs].
  destruct t as [a c e]. cbn in Hs. cbn [cf stage_tf]. unfold text_filter. cbn [ts_action ts_executed ts_content].
  destruct Hs as [Ha|[Ha He]]; cbn in Ha; subst a.
  - destruct e.
    + cbn [is_nil fst snd pre_left app_of ts_action ts_executed ts_content]. split; [constructor; [left; reflexivity|exact Hr]|]. split; [reflexivity|reflexivity].
    + rewrite app_nil_r. destruct (is_nil c) eqn:Ec.
      * destruct c; [|discriminate]. cbn [fst snd pre_left app_of ts_action ts_executed ts_content]. split; [constructor; [left; reflexivity|exact Hr]|]. rewrite !app_nil_r. auto.
      * rewrite (cf_nonempty ch Hr c Ec). cbn [fst snd pre_left app_of ts_action ts_executed ts_content].
        split; [constructor; [left; reflexivity|apply Forall_forall; intros x Hx; apply in_map_iff in Hx; destruct Hx as (y & <- & Hy); apply ins_fire; rewrite Forall_forall in Hr; auto]|].
        rewrite app_of_fire, pre_left_fire by exact Hr. rewrite !app_nil_r. auto.
  - cbn in He. subst e. cbn [is_nil fst snd pre_left app_of ts_action ts_executed ts_content]. split; [constructor; [right; auto|exact Hr]|]. rewrite app_nil_r. auto.
Qed.

Theorem insert_only_run_all ch chunks : Forall ins_stage ch ->
  run stage tf te ch chunks = pre_left ch ++ concat chunks ++ app_of ch.
Proof.
  revert ch. induction chunks as [|c cs IH]; intros ch Hf.
  - rewrite run_nil. rewrite (ce_ins ch Hf None I). reflexivity.
  - rewrite run_cons. destruct (is_nil c) eqn:Ec.
    + destruct c; [|discriminate]. destruct (cf_empty ch Hf) as (H1 & H2 & H3). rewrite (IH _ H1), H2. cbn [concat app].
      rewrite app_assoc, H3. reflexivity.
    + rewrite (cf_nonempty ch Hf c Ec). cbn [fst snd].
      assert (Hf' : Forall ins_stage (map fire ch)) by (apply Forall_forall; intros x Hx; apply in_map_iff in Hx; destruct Hx as (y & <- & Hy); apply ins_fire; rewrite Forall_forall in Hf; auto).
      rewrite (IH _ Hf'), pre_left_fire, app_of_fire by exact Hf. cbn [concat app]. rewrite <- !app_assoc. reflexivity.
Qed.

Lemma fresh_is_ins st : fresh_insert st -> ins_stage st.
Proof. destruct st as [t|F]; [|intros []]. destruct t as [a c e]. cbn. intros [He Ha]. destruct a; [right; auto|left; reflexivity|congruence]. Qed.
Lemma pre_left_fresh ch : Forall fresh_insert ch -> pre_left ch = pre_of ch.
Proof.
  induction ch as [|st ch IH]; intros H; [reflexivity|]. inversion H as [|? ? Hs Hr]; subst. destruct st as [t|F]; [|destruct Hs].
  destruct t as [a c e]. destruct Hs as [He Ha]. cbn in He. subst e. cbn [pre_left pre_of ts_action ts_executed ts_content]. rewrite (IH Hr). destruct a; reflexivity.
Qed.
End InsertOnlyAll.
