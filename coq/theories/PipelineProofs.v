(* PipelineProofs.v — the analyses report the response of the live pipeline (C19), on the action model. *)
Require Import RIO.Base RIO.Headers RIO.BodyText RIO.ActionModel RIO.ActionSpec RIO.ActionProofs RIO.Pipeline.

Section PipelineProofs.
Variable lower : str -> str.
Variable action_table : list (str * hkind).

Notation analysis_response := (analysis_response lower action_table).
Notation live_response := (live_response lower action_table).
Notation response_phase := (response_phase lower action_table).

(* the backend code the analysis hands to get_final_status_code_with_fallback stands for [example_backend] *)
Lemma fallback_backend ex : (if N.eqb (opt_default 0%N ex) 0 then 200%N else opt_default 0%N ex) = example_backend ex.
Proof. unfold example_backend, opt_default. destruct ex as [c|]; [destruct (N.eqb c 0); reflexivity|reflexivity]. Qed.

(* explain / impact report exactly what the live pipeline produces when the backend answers with the example's code *)
Theorem analysis_eq_live a ex sk : analysis_response a ex sk = live_response a (example_backend ex) sk.
Proof.
  unfold Pipeline.analysis_response, Pipeline.live_response, get_final_status_code_with_fallback.
  destruct (get_status_code a 0) as [st0 a0].
  destruct (negb (N.eqb st0 0)); [reflexivity|].
  rewrite fallback_backend.
  destruct (get_status_code a0 (example_backend ex)) as [fin a1]. reflexivity.
Qed.

(* a rule without response-status condition answers at request time: the backend is never consulted, whatever it
   would have returned *)
Theorem live_request_phase_wins a b b' sk : fst (get_status_code a 0) <> 0%N -> live_response a b sk = live_response a b' sk.
Proof.
  unfold Pipeline.live_response. destruct (get_status_code a 0) as [st0 a0]. cbn [fst]. intros H.
  destruct (N.eqb st0 0) eqn:E; [apply N.eqb_eq in E; contradiction|reflexivity].
Qed.

(* the status the analysis reports is the status of the live pipeline's two-phase decision *)
Theorem analysis_status a ex sk :
  rs_status (analysis_response a ex sk)
  = (let st0 := fst (get_status_code a 0) in
     if N.eqb st0 0 then fst (get_status_code (snd (get_status_code a 0)) (example_backend ex)) else st0).
Proof.
  rewrite analysis_eq_live. unfold Pipeline.live_response.
  destruct (get_status_code a 0) as [st0 a0]. cbn [fst snd].
  destruct (N.eqb st0 0); cbn [negb].
  - destruct (get_status_code a0 (example_backend ex)) as [fin a1]. cbn [fst].
    unfold Pipeline.response_phase.
    destruct (filter_headers lower action_table a1 [] (example_backend ex) false) as [hs a2].
    destruct (create_filter_body a2 (example_backend ex)) as [bfs a3].
    destruct (should_log_request a3 true fin) as [lg a4]. reflexivity.
  - unfold Pipeline.response_phase.
    destruct (filter_headers lower action_table a0 [] st0 false) as [hs a2].
    destruct (create_filter_body a2 st0) as [bfs a3].
    destruct (should_log_request a3 true st0) as [lg a4]. reflexivity.
Qed.

(* the analyses depend only on the SET of matched rules (with C19_project_eq_standalone: incremental = rebuilt) *)
Theorem analysis_of_rules_permutation l1 l2 skipped ov ex sk :
  Permutation l1 l2 -> NoDup (map r_id l1) ->
  analysis_of_rules lower action_table l1 skipped ov ex sk = analysis_of_rules lower action_table l2 skipped ov ex sk.
Proof.
  intros Hp Hn. unfold analysis_of_rules. rewrite (from_routes_rule_permutation_invariant l1 l2 skipped ov [] Hp Hn). reflexivity.
Qed.

Theorem analysis_of_rules_eq_live rules skipped ov ex sk :
  analysis_of_rules lower action_table rules skipped ov ex sk
  = live_of_rules lower action_table rules skipped ov (example_backend ex) sk.
Proof. unfold analysis_of_rules, live_of_rules. apply analysis_eq_live. Qed.
End PipelineProofs.
