(* C03Run.v — executable verdicts for C03 / C04 / C15 (body filters without content-encoding):
   the model of the filter chain run over the same chunks as the crate, and the properties evaluated
   directly on the crate's outputs. *)
Require Import RIO.Base RIO.TokMonad RIO.HtmlTok RIO.BodyText RIO.HtmlFilter.
Close Scope N_scope.
Open Scope nat_scope.

Definition lower_ascii (s : str) : str := map ascii_lower s.

(* selector oracle: the (fragment, selector, result) triples the crate evaluated (hook verif_selector_log) *)
Fixpoint sel_lookup (tbl : list (str * str * bool)) (data sel : str) : bool :=
  match tbl with
  | [] => false
  | (d, s, b) :: tbl' => if str_eqb d data && str_eqb s sel then b else sel_lookup tbl' data sel
  end.

(* remove every (non-overlapping, leftmost) occurrence of [v] *)
Fixpoint strip_prefix (v s : str) : option str :=
  match v, s with
  | [], _ => Some s
  | x :: v', y :: s' => if N.eqb x y then strip_prefix v' s' else None
  | _ :: _, [] => None
  end.
Fixpoint remove_all (fuel : nat) (v s : str) : str :=
  match fuel with
  | O => s
  | S f =>
      match s with
      | [] => []
      | y :: s' => match v with
                   | [] => s
                   | _ => match strip_prefix v s with Some rest => remove_all f v rest | None => y :: remove_all f v s' end
                   end
      end
  end.
(* the LAST filter's value first: the filters run in list order, so a later filter may insert its value inside a value an
   earlier filter inserted (C04_filter_list: one pass per filter); undoing the passes in reverse order recovers the input *)
Definition strip_values (vals : list str) (s : str) : str := fold_left (fun acc v => remove_all (S (length acc)) v acc) (rev vals) s.

(* [o] is [b] minus a set of spans that start with '<' and end with '>' *)
Fixpoint after_gts (b : str) : list str :=
  match b with [] => [] | x :: b' => (if N.eqb x 62 then [b'] else []) ++ after_gts b' end.
Fixpoint del_spans (fuel : nat) (b o : str) : bool :=
  match fuel with
  | O => false
  | S f =>
      match b with
      | [] => is_nil o
      | x :: b' =>
          (match o with y :: o' => N.eqb x y && del_spans f b' o' | [] => false end)
          || (N.eqb x 60 && existsb (fun rest => del_spans f rest o) (after_gts b'))
      end
  end.

Record case03 := {
  c_ctok : bool;                         (* content type absent or text/html *)
  c_filters : list body_filter;
  c_chunks : list (list N);
  c_sel : list (str * str * bool);
  c_mode : N;                            (* 0: chunk invariance only; 1: strip(out) = body; 2: replace spans; 3: out = expected; 4: out = body *)
  c_values : list str;                   (* sentinel values inserted by the filters *)
  c_expect : list N;                     (* mode 3: serialize(reference_edit(d)) computed by the generator *)
  c_spans_single_ok : bool;              (* the same for the single-chunk output *)
  c_spans_ok : bool;                     (* mode 2: computed by the harness (dynamic programme): output minus values = body minus '<'..'>' spans *)
  o_single : list N;                     (* crate: whole body in one chunk, then end *)
  o_chunked : list N                     (* crate: the chunks, then end *)
}.

Definition mk_html (k : hkind) (value : str) (tree : list str) (css : option str) : body_filter :=
  BFHtml {| hf_kind := k; hf_value := value; hf_tree := tree; hf_css := css |}.

Definition model_out (c : case03) (chunks : list (list N)) : list N :=
  body_run lower_ascii (sel_lookup (c_sel c)) (c_ctok c) (c_filters c) chunks.

(* the content clause of C04 / C15, for one output *)
Definition content_ok (c : case03) (body out : list N) (spans_ok : bool) : bool :=
  match c_mode c with
  | 1%N => str_eqb (strip_values (c_values c) out) body
  | 2%N => spans_ok
  | 3%N => str_eqb out (c_expect c)
  | 4%N => str_eqb out body
  | _ => true
  end.

(* chunk invariance is claimed for valid UTF-8 bodies (C03); the content clause for every body and both deliveries (C04) *)
Definition property_ok (c : case03) : bool :=
  let body := concat (c_chunks c) in
  (negb (utf8_valid body) || str_eqb (o_single c) (o_chunked c))
  && content_ok c body (o_chunked c) (c_spans_ok c)
  && content_ok c body (o_single c) (c_spans_single_ok c).

(* bit 1: model <> implementation (single or chunked); bit 4: property fails on the implementation *)
Definition verdict03 (c : case03) : N :=
  let body := concat (c_chunks c) in
  (vbit (str_eqb (model_out c [body]) (o_single c) && str_eqb (model_out c (c_chunks c)) (o_chunked c)) 1
   + vbit (property_ok c) 4)%N.
Definition spec_verdict03 (c : case03) : N := vbit (property_ok c) 4.
