(* RxTokSem3.v — the separator hypothesis of C10 (T7/T9) for a concrete family of marker expressions:
   the oracle restricted to the bodies  ?:[0-9]+  and  ?:[a-z]+  accepts no '/'. *)
Require Import RIO.Base RIO.Prefix RIO.RegexSem RIO.Rx RIO.RxMatch RIO.RxToks RIO.RxTokSem.
Close Scope N_scope.
Open Scope nat_scope.

Definition G_in (fam : list N -> bool) (ic : bool) (body whole : list N) (pos k : nat) : bool := fam body && G_rx ic body whole pos k.
Definition toks_in (fam : list N -> bool) (ts : list tok) : bool := forallb (fun t => match t with TLit _ => true | TGrp b => fam b end) ts.

Lemma existsb_ext' {A} (f g : A -> bool) l : (forall x, f x = g x) -> existsb f l = existsb g l.
Proof. intros H. induction l as [|x l IH]; cbn [existsb]; [reflexivity|]. rewrite H, IH. reflexivity. Qed.

Lemma mt_G_in fam fold ic whole full ts : toks_in fam ts = true -> forall pos rest,
  mt (G_in fam) fold ic whole full ts pos rest = mt G_rx fold ic whole full ts pos rest.
Proof.
  induction ts as [|t ts IH]; intros H pos rest; [reflexivity|]. cbn [toks_in forallb] in H. apply andb_prop in H. destruct H as [Ht Hts].
  destruct t as [c|b]; cbn [mt].
  - destruct rest as [|x r]; [reflexivity|]. rewrite (IH Hts). reflexivity.
  - apply existsb_ext'. intros k. unfold G_in. rewrite Ht, (IH Hts). reflexivity.
Qed.

(* what a repeated class consumes is made of characters of the class *)
Lemma star_class ic neg items : forall c c', star_cl (reach ic (RClass neg items)) c c' ->
  exists w, snd c = w ++ snd c' /\ forallb (class_has ic neg items) w = true /\ fst c' = fst c + length w.
Proof.
  intros c c' H. induction H as [c|c c1 c2 H1 _ _ IH]; [exists []; repeat split; cbn [length]; lia|].
  cbn [reach] in H1. destruct H1 as (y & r' & E & Hc & ->). destruct IH as (w & Ew & Hw & Hl). cbn [fst snd] in *.
  exists (y :: w). split; [rewrite E, Ew; reflexivity|]. split; [cbn [forallb]; rewrite Hc, Hw; reflexivity|cbn [length]; lia].
Qed.

Lemma plus_class_span ic g neg items pos rest k :
  reach ic (RGroup None (RPlus g (RClass neg items))) (pos, rest) (pos + k, skipn k rest) ->
  forallb (class_has ic neg items) (firstn k rest) = true.
Proof.
  cbn [reach]. intros (c1 & (y & r' & E & Hc & ->) & H2). cbn [fst snd] in *. apply star_class in H2.
  destruct H2 as (w & Ew & Hw & Hl). cbn [fst snd] in *. assert (k = S (length w)) by lia. subst k.
  rewrite E, Ew. cbn [firstn forallb]. rewrite Hc, firstn_app, Nat.sub_diag, firstn_all. cbn [firstn]. rewrite app_nil_r. exact Hw.
Qed.

Definition body_digits : list N := [63;58;91;48;45;57;93;43]%N.    (* ?:[0-9]+ *)
Definition body_lower : list N := [63;58;91;97;45;122;93;43]%N.    (* ?:[a-z]+ *)
Definition fam_simple (b : list N) : bool := str_eqb b body_digits || str_eqb b body_lower.

Theorem G_in_simple_no_slash : forall ic body whole pos k, G_in fam_simple ic body whole pos k = true ->
  forallb (fun c => negb (N.eqb c 47)) (firstn k (skipn pos whole)) = true.
Proof.
  intros ic body whole pos k H. unfold G_in in H. apply andb_prop in H. destruct H as [Hf Hg]. unfold fam_simple in Hf.
  assert (Hcls : forall items, (forall c, class_has ic false items c = true -> negb (N.eqb c 47) = true) ->
            reach ic (RGroup None (RPlus true (RClass false items))) (pos, skipn pos whole) (pos + k, skipn k (skipn pos whole)) ->
            forallb (fun c => negb (N.eqb c 47)) (firstn k (skipn pos whole)) = true).
  { intros items Hi Hr. apply plus_class_span in Hr. rewrite forallb_forall in *. intros x Hx. apply Hi. apply Hr. exact Hx. }
  apply orb_prop in Hf. destruct Hf as [Hf|Hf]; apply str_eqb_spec in Hf; subst body; unfold G_rx in Hg.
  - change (tok_atom 1 (TGrp body_digits)) with (Some (RGroup None (RPlus true (RClass false [CRange 48 57])), 1)) in Hg.
    apply reaches_to_iff in Hg. apply (Hcls _) in Hg; [exact Hg|].
    intros c Hc. destruct (N.eqb c 47) eqn:E; [|reflexivity]. apply N.eqb_eq in E. subst c. destruct ic; discriminate Hc.
  - change (tok_atom 1 (TGrp body_lower)) with (Some (RGroup None (RPlus true (RClass false [CRange 97 122])), 1)) in Hg.
    apply reaches_to_iff in Hg. apply (Hcls _) in Hg; [exact Hg|].
    intros c Hc. destruct (N.eqb c 47) eqn:E; [|reflexivity]. apply N.eqb_eq in E. subst c. destruct ic; discriminate Hc.
Qed.
