(* TablesTie.v — generic lemmas used to tie the tables that the translator (tools/gen_tables.py) lifts from the Rust
   source on every run (coq/gen/ExtTables.v) to the tables the hand-written models use.  The statements that mention the
   generated tables live in coq/properties (they are re-proved against what the source says now); this file contains
   only the table-independent part, and the model-side expectations for the call sites of utf8_percent_encode. *)
Require Import RIO.Base RIO.Pct RIO.Url RIO.HtmlTok RIO.TokMonad.
Close Scope N_scope.

(* ---------------------------------------------------------------- AsciiSet constants *)
(* `CONTROLS.add(b'x').add(b'y')...` *)
Definition set_of_adds (adds : list N) : ascii_set := fold_left ascii_set_add adds CONTROLS.

Definition below128 : list N := map N.of_nat (seq 0 128).
Definition sets_agree (s1 s2 : ascii_set) : bool := forallb (fun b => Bool.eqb (s1 b) (s2 b)) below128.

Lemma in_below128 b : (b < 128)%N -> In b below128.
Proof.
  intros H. unfold below128. rewrite <- (N2Nat.id b). apply in_map. apply in_seq. lia.
Qed.

(* two sets that agree on the ASCII bytes encode every byte string identically (non-ASCII bytes are always encoded) *)
Lemma sets_agree_should s1 s2 : sets_agree s1 s2 = true -> forall b, should_percent_encode s1 b = should_percent_encode s2 b.
Proof.
  intros H b. unfold should_percent_encode, is_ascii. destruct (N.ltb b 128) eqn:E; [|reflexivity].
  apply N.ltb_lt in E. unfold sets_agree in H. rewrite forallb_forall in H.
  specialize (H b (in_below128 b E)). apply Bool.eqb_prop in H. rewrite H. reflexivity.
Qed.

Lemma sets_agree_encode s1 s2 : sets_agree s1 s2 = true -> forall input, utf8_percent_encode input s1 = utf8_percent_encode input s2.
Proof.
  intros H input. unfold utf8_percent_encode. induction input as [|b r IH]; [reflexivity|].
  cbn [percent_encode]. rewrite (sets_agree_should s1 s2 H b), IH. reflexivity.
Qed.

(* the call sites of utf8_percent_encode the models transcribe: (file tag, encoded expression, set constant), in source
   order.  RIO.Url / RIO.Marker use, respectively: rule_SIMPLE_ENCODE_SET for marker regexes (Marker.rule_markers),
   rule_URL_ENCODE_SET for the rule path and rule_QUERY_ENCODE_SET for its query string (Url.rule_path_and_query,
   Marker.rule_source), query_URL_ENCODE_SET in sanitize_url, query_QUERY_ENCODE_SET for keys and values in
   PathAndQueryWithSkipped::from_config, request_QUERY_ENCODE_SET for keys and values in Request::build_sorted_query. *)
Definition model_encode_uses : list (str * str * str) :=
  [ ([114;117;108;101], [109;97;114;107;101;114;46;114;101;103;101;120;46;97;115;95;115;116;114;40;41], [83;73;77;80;76;69;95;69;78;67;79;68;69;95;83;69;84]);
    ([114;117;108;101], [115;101;108;102;46;115;111;117;114;99;101;46;112;97;116;104;46;97;115;95;115;116;114;40;41], [85;82;76;95;69;78;67;79;68;69;95;83;69;84]);
    ([114;117;108;101], [113;117;101;114;121;95;115;116;114;105;110;103;46;97;115;95;115;116;114;40;41], [81;85;69;82;89;95;69;78;67;79;68;69;95;83;69;84]);
    ([113;117;101;114;121], [112;97;116;104;95;97;110;100;95;113;117;101;114;121;95;115;116;114], [85;82;76;95;69;78;67;79;68;69;95;83;69;84]);
    ([113;117;101;114;121], [107;101;121], [81;85;69;82;89;95;69;78;67;79;68;69;95;83;69;84]);
    ([113;117;101;114;121], [118;97;108;117;101], [81;85;69;82;89;95;69;78;67;79;68;69;95;83;69;84]);
    ([114;101;113;117;101;115;116], [107;101;121], [81;85;69;82;89;95;69;78;67;79;68;69;95;83;69;84]);
    ([114;101;113;117;101;115;116], [118;97;108;117;101], [81;85;69;82;89;95;69;78;67;79;68;69;95;83;69;84]) ]%N.

(* ---------------------------------------------------------------- name lists as sets *)
Definition same_names (l1 l2 : list str) : bool :=
  forallb (fun x => mem_str x l2) l1 && forallb (fun x => mem_str x l1) l2.

Lemma same_names_mem l1 l2 : same_names l1 l2 = true -> forall x, mem_str x l1 = mem_str x l2.
Proof.
  unfold same_names. intros H x. apply andb_prop in H. destruct H as [H1 H2].
  rewrite forallb_forall in H1, H2.
  destruct (mem_str x l1) eqn:E1; destruct (mem_str x l2) eqn:E2; try reflexivity.
  - apply mem_str_In in E1. specialize (H1 x E1). congruence.
  - apply mem_str_In in E2. specialize (H2 x E2). congruence.
Qed.

(* ---------------------------------------------------------------- the raw-text dispatch of read_start_tag *)
(* what the model's read_start_tag does for the (lower-cased) first byte of a tag name: which names it hands to
   start_tag_in (HtmlTok.v l.716-721) *)
Definition model_start_tag_raw_text : list (N * list str) :=
  [ (105, [s_iframe]); (110, [s_noembed; s_noframes; s_noscript]); (112, [s_plaintext]);
    (115, [s_script; s_style]); (116, [s_textarea; s_title]); (120, [s_xmp]) ]%N.
(* next(): text_is_raw = raw_tag != "textarea" && raw_tag != "title" (HtmlTok.v l.403) *)
Definition model_text_not_raw : list str := [s_textarea; s_title].

(* ---------------------------------------------------------------- transformer kinds (Marker.to_transform) *)
Definition model_transformer_kinds : list str :=
  [ [99;97;109;101;108;105;122;101]; [100;97;115;104;101;114;105;122;101]; [108;111;119;101;114;99;97;115;101];
    [114;101;112;108;97;99;101]; [115;108;105;99;101]; [117;110;100;101;114;115;99;111;114;105;122;101];
    [117;112;112;101;114;99;97;115;101] ]%N.
Definition model_transformer_option_keys : list str :=
  [ [115;111;109;101;116;104;105;110;103]; [119;105;116;104]; [102;114;111;109]; [116;111] ]%N.

(* ---------------------------------------------------------------- HtmlBodyVisitor::new *)
(* action name -> enum variant; the harness maps the same three names to HAppendChild / HPrependChild / HReplace *)
Definition model_html_visitors : list (str * str) :=
  [ ([97;112;112;101;110;100;95;99;104;105;108;100], [65;112;112;101;110;100]);
    ([112;114;101;112;101;110;100;95;99;104;105;108;100], [80;114;101;112;101;110;100]);
    ([114;101;112;108;97;99;101], [82;101;112;108;97;99;101]) ]%N.

(* RouterConfig's default marketing parameters (the C09 generators use exactly this set) *)
Definition model_default_marketing : list str :=
  [ [117;116;109;95;115;111;117;114;99;101]; [117;116;109;95;109;101;100;105;117;109];
    [117;116;109;95;99;97;109;112;97;105;103;110]; [117;116;109;95;116;101;114;109];
    [117;116;109;95;99;111;110;116;101;110;116] ]%N.
