(* HtmlListFull.v — several HTML filters compose in order, with the two-piece law of the HTML stage discharged by
   RIO.HtmlSplit.hfb_split_law_noerr (the split law of C03 in its conditional form), for every lower-casing function that
   is ASCII lower-casing on the ten raw-text element names ([lower_ok]). *)
Require Import RIO.Base RIO.TokMonad RIO.HtmlTok RIO.HtmlTokProofs RIO.BodyText RIO.HtmlFilter RIO.HtmlSplit.
Require Import RIO.Dom RIO.HtmlTokens RIO.HtmlBridge RIO.HtmlInsert RIO.HtmlList RIO.HtmlCompose.
Close Scope N_scope.
Open Scope nat_scope.

Theorem two_piece_law_holds lower sel_eval : lower_ok lower -> forall F, two_piece_law lower sel_eval F.
Proof.
  intros LO F c1 c2 H. exact (proj1 (hfb_split_law_noerr lower sel_eval wf0 (tok_facts_wf0 lower LO) F c1 c2 H)).
Qed.

(* THEOREM: no hypothesis beyond the domains, the token-by-token checks and non-empty documents *)
Theorem C15_list_full lower sel_eval fs doc : lower_ok lower ->
  list_ok_units lower sel_eval fs doc ->
  body_run lower sel_eval true (map to_body fs) [ser_forest doc]
  = ser_forest (ref_edit_list lower (map (to_ref sel_eval) fs) doc).
Proof.
  intros LO Hok. apply C15_list; [exact Hok|]. intros f _. apply two_piece_law_holds. exact LO.
Qed.
