(* TokShift.v — relational reasoning about the tokenizer monad: running on a suffix [skipn k d] of the input from a
   state whose positions are shifted by k gives the same results (shifted), whatever the values of the fields the
   tokenizer never reads before writing (attributes, text_is_raw, convert_null, and the token field at the entry
   of [next]).  This is the RESTART property used by the streaming HTML filter (RIO.HtmlSplit). *)
Require Import RIO.Base RIO.TokMonad RIO.HtmlTok RIO.TokLogic RIO.HtmlTokProofs.
Close Scope N_scope.
Open Scope nat_scope.

Definition ok (s : st) : Prop := panic s = None /\ oof s = false.
Lemma ext_ok s s' : ext s s' -> ok s' -> ok s.
Proof. intros [] [Hp Ho]. split; auto. Qed.

Lemma nth_error_skipn' {A} (l : list A) : forall k i, nth_error (skipn k l) i = nth_error l (i + k).
Proof.
  induction l as [|x l IH]; intros k i.
  - rewrite skipn_nil. destruct i, k; reflexivity.
  - destruct k as [|k]; cbn [skipn]. rewrite Nat.add_0_r. reflexivity.
    rewrite IH. rewrite Nat.add_succ_r. reflexivity.
Qed.

Lemma ltb_add_k a c k : (a + k <? c + k) = (a <? c).
Proof. destruct (a <? c) eqn:E; [apply Nat.ltb_lt in E; apply Nat.ltb_lt; lia|apply Nat.ltb_ge in E; apply Nat.ltb_ge; lia]. Qed.
Lemma leb_add_k a c k : (a + k <=? c + k) = (a <=? c).
Proof. destruct (a <=? c) eqn:E; [apply Nat.leb_le in E; apply Nat.leb_le; lia|apply Nat.leb_gt in E; apply Nat.leb_gt; lia]. Qed.
Lemma eqb_add_k a c k : (a + k =? c + k) = (a =? c).
Proof. destruct (a =? c) eqn:E; [apply Nat.eqb_eq in E; apply Nat.eqb_eq; lia|apply Nat.eqb_neq in E; apply Nat.eqb_neq; lia]. Qed.

Section Shift.
Variable d1 : list N.
Variable k : nat.
Hypothesis Hk : k <= length d1.
Notation d2 := (skipn k d1).

Lemma len_d2 : length d2 + k = length d1.
Proof. rewrite skipn_length. lia. Qed.

(* the relation between the state of the run on d1 and the state of the run on d2 *)
Record rel (b : bool) (s1 s2 : st) : Prop := mk_rel {
  r_rs : raw_start s1 = raw_start s2 + k;
  r_re : raw_end s1 = raw_end s2 + k;
  r_ds : data_start s1 = data_start s2 + k;
  r_de : data_end s1 = data_end s2 + k;
  r_err : err s1 = err s2;
  r_rt : raw_tag s1 = raw_tag s2;
  r_cd : allow_cdata s1 = allow_cdata s2;
  r_panic : panic s1 = panic s2;
  r_oof : oof s1 = oof s2;
  r_tok : b = true -> token s1 = token s2
}.

Lemma rel_weaken b b' s1 s2 : (b' = true -> b = true) -> rel b s1 s2 -> rel b' s1 s2.
Proof. intros Hb []. constructor; auto. Qed.

Definition shifted (x1 x2 : nat) : Prop := x1 = x2 + k.

(* the judgment: from related states, if the run on d2 neither panics nor runs out of fuel, the results are related *)
Definition RG {A} (b1 : bool) (RA : A -> A -> Prop) (fb : A -> bool) (m1 m2 : M A) : Prop :=
  forall s1 s2, rel b1 s1 s2 -> ok (snd (m2 d2 s2)) ->
    RA (fst (m1 d1 s1)) (fst (m2 d2 s2)) /\ rel (fb (fst (m2 d2 s2))) (snd (m1 d1 s1)) (snd (m2 d2 s2)).
Definition Rq {A} (b : bool) (m1 m2 : M A) : Prop := RG b eq (fun _ => b) m1 m2.

Lemma rq_intro {A} b (m1 m2 : M A) : Rq b m1 m2 -> RG b eq (fun _ => b) m1 m2.
Proof. exact (fun H => H). Qed.

Lemma rg_bind {A B} b1 (RA : A -> A -> Prop) fa (RB : B -> B -> Prop) fb (m1 m2 : M A) (k1 k2 : A -> M B) :
  RG b1 RA fa m1 m2 -> (forall a1 a2, RA a1 a2 -> RG (fa a2) RB fb (k1 a1) (k2 a2)) -> (forall a, Pres (k2 a)) ->
  RG b1 RB fb (bind m1 k1) (bind m2 k2).
Proof.
  intros Hm Hkk Hp s1 s2 Hr Hok. rewrite !bind_eq in *.
  assert (Hok1 : ok (snd (m2 d2 s2))) by (eapply ext_ok; [apply Hp|exact Hok]).
  destruct (Hm s1 s2 Hr Hok1) as [Ha Hr']. apply (Hkk _ _ Ha); assumption.
Qed.

Lemma rg_weaken {A} b1 b1' (RA : A -> A -> Prop) (fb fb' : A -> bool) (m1 m2 : M A) :
  (b1 = true -> b1' = true) -> (forall a, fb' a = true -> fb a = true) -> RG b1 RA fb m1 m2 -> RG b1' RA fb' m1 m2.
Proof.
  intros Hb Hf H s1 s2 Hr Hok. destruct (H s1 s2 (rel_weaken _ _ _ _ Hb Hr) Hok) as [Ha Hr']. split; [exact Ha|].
  eapply rel_weaken; [|exact Hr']. apply Hf.
Qed.

Lemma rg_ret {A} b1 (RA : A -> A -> Prop) fb (a1 a2 : A) : RA a1 a2 -> (fb a2 = true -> b1 = true) -> RG b1 RA fb (ret a1) (ret a2).
Proof. intros Ha Hb s1 s2 Hr _. cbn. split; [exact Ha|]. eapply rel_weaken; eauto. Qed.
Lemma rq_ret {A} b (a : A) : Rq b (ret a) (ret a).
Proof. apply rg_ret; auto. Qed.
Lemma rl_get b : RG b (rel b) (fun _ => b) get get.
Proof. intros s1 s2 Hr _. cbn. auto. Qed.
Lemma rg_upd b b' f1 f2 : (forall s1 s2, rel b s1 s2 -> rel b' (f1 s1) (f2 s2)) -> RG b eq (fun _ => b') (upd f1) (upd f2).
Proof. intros H s1 s2 Hr _. cbn. auto. Qed.
Lemma rq_upd_l b f : (forall s1 s2, rel b s1 s2 -> rel b (f s1) s2) -> Rq b (upd f) (ret tt).
Proof. intros H s1 s2 Hr _. cbn. auto. Qed.
Lemma rq_upd_r b f : (forall s1 s2, rel b s1 s2 -> rel b s1 (f s2)) -> Rq b (ret tt) (upd f).
Proof. intros H s1 s2 Hr _. cbn. auto. Qed.

Lemma rq_read_byte b : Rq b read_byte read_byte.
Proof.
  intros s1 s2 Hr _. unfold read_byte. rewrite (r_re _ _ _ Hr). rewrite nth_error_skipn'.
  destruct (nth_error d1 (raw_end s2 + k)); cbn [fst snd]; (split; [reflexivity|]); destruct Hr; constructor; cbn; auto; lia.
Qed.

Lemma rq_fail_at b site : Rq b (fail_at site) (fail_at site).
Proof. intros s1 s2 Hr [Hp _]. cbn in Hp. exfalso. eapply set_panic_site_not_none; eauto. Qed.
Lemma rq_out_of_fuel b : Rq b out_of_fuel out_of_fuel.
Proof. intros s1 s2 Hr [_ Ho]. cbn in Ho. discriminate. Qed.

Lemma fail_ret_not_ok {A} site (a : A) inp s : ~ ok (snd ((fail_at site ;;; ret a) inp s)).
Proof. intros [Hp _]. cbn in Hp. eapply set_panic_site_not_none; eauto. Qed.

Lemma rl_sub_usize_pos b site a1 a2 c : a1 = a2 + k -> RG b shifted (fun _ => b) (sub_usize site a1 c) (sub_usize site a2 c).
Proof.
  intros -> s1 s2 Hr Hok. unfold sub_usize in *. destruct (c <=? a2) eqn:E.
  - apply Nat.leb_le in E. assert (E' : (c <=? a2 + k) = true) by (apply Nat.leb_le; lia). rewrite E'. cbn. split; [unfold shifted; lia|exact Hr].
  - exfalso. eapply fail_ret_not_ok; eauto.
Qed.
Lemma rq_sub_usize_len b site a1 a2 c1 c2 : a1 = a2 + k -> c1 = c2 + k -> Rq b (sub_usize site a1 c1) (sub_usize site a2 c2).
Proof.
  intros -> -> s1 s2 Hr Hok. unfold sub_usize in *. rewrite leb_add_k. destruct (c2 <=? a2) eqn:E.
  - cbn. split; [lia|exact Hr].
  - exfalso. eapply fail_ret_not_ok; eauto.
Qed.
Lemma rq_sub_u8 b site a c : Rq b (sub_u8 site a c) (sub_u8 site a c).
Proof.
  intros s1 s2 Hr Hok. unfold sub_u8 in *. destruct (N.leb c a).
  - cbn. auto.
  - exfalso. eapply fail_ret_not_ok; eauto.
Qed.
Lemma rq_add_u8 b site a c : Rq b (add_u8 site a c) (add_u8 site a c).
Proof.
  intros s1 s2 Hr Hok. unfold add_u8 in *. destruct (N.leb (N.add a c) 255).
  - cbn. auto.
  - exfalso. eapply fail_ret_not_ok; eauto.
Qed.
Lemma rq_index_of b site l i : Rq b (index_of site l i) (index_of site l i).
Proof.
  intros s1 s2 Hr Hok. unfold index_of in *. destruct (nth_error l i).
  - cbn. auto.
  - exfalso. eapply fail_ret_not_ok; eauto.
Qed.
Lemma rq_index b site i1 i2 : i1 = i2 + k -> Rq b (index site i1) (index site i2).
Proof.
  intros -> s1 s2 Hr [Hp _]. unfold index in *. rewrite nth_error_skipn' in *.
  destruct (nth_error d1 (i2 + k)); cbn [fst snd] in *; [auto|]. exfalso. eapply set_panic_site_not_none; eauto.
Qed.
Lemma rq_slice b site a1 a2 c1 c2 : a1 = a2 + k -> c1 = c2 + k -> Rq b (slice site a1 c1) (slice site a2 c2).
Proof.
  intros -> -> s1 s2 Hr [Hp _]. unfold slice in *. cbn [fst snd] in *.
  destruct ((a2 <=? c2) && (c2 <=? length d2)) eqn:E.
  - apply andb_prop in E. destruct E as [E1 E2]. apply Nat.leb_le in E1. apply Nat.leb_le in E2. pose proof len_d2 as HL.
    assert (E3 : ((a2 + k <=? c2 + k) && (c2 + k <=? length d1)) = true).
    { apply andb_true_intro. split; apply Nat.leb_le; lia. }
    rewrite E3. split; [|exact Hr]. replace (c2 + k - (a2 + k)) with (c2 - a2) by lia.
    rewrite skipn_skipn'. replace (k + a2) with (a2 + k) by lia. reflexivity.
  - exfalso. eapply set_panic_site_not_none; eauto.
Qed.
Lemma rq_slice_from b site a1 a2 : a1 = a2 + k -> Rq b (slice_from site a1) (slice_from site a2).
Proof.
  intros -> s1 s2 Hr [Hp _]. unfold slice_from in *. cbn [fst snd] in *.
  destruct (a2 <=? length d2) eqn:E.
  - apply Nat.leb_le in E. pose proof len_d2 as HL. assert (E3 : (a2 + k <=? length d1) = true) by (apply Nat.leb_le; lia).
    rewrite E3. split; [|exact Hr]. rewrite skipn_skipn'. replace (k + a2) with (a2 + k) by lia. reflexivity.
  - exfalso. eapply set_panic_site_not_none; eauto.
Qed.

Lemma rq_dec_raw_end b site c : Rq b (dec_raw_end site c) (dec_raw_end site c).
Proof.
  unfold dec_raw_end. eapply rg_bind; [apply rl_get| |intros; pres]. intros a1 a2 Ha.
  eapply rg_bind; [apply rl_sub_usize_pos; apply (r_re _ _ _ Ha)| |intros; pres]. intros x1 x2 Hx. unfold shifted in Hx. subst x1.
  apply rg_upd. intros s1 s2 []. constructor; cbn; auto.
Qed.

(* loops *)
Lemma rg_loop {L A} b (fb : option A -> bool) (body1 body2 : L -> M (ctl L A)) :
  (forall x, RG b eq (fun c => match c with Continue _ => b | Break => fb None | Return a => fb (Some a) end) (body1 x) (body2 x)) ->
  (forall x, Pres (body2 x)) ->
  forall f x, RG b eq fb (loop f body1 x) (loop f body2 x).
Proof.
  intros Hb Hp. induction f as [|f IH]; intros x; cbn [loop].
  - intros s1 s2 Hr [_ Ho]. cbn in Ho. discriminate.
  - eapply rg_bind; [apply Hb| |].
    + intros c1 c2 <-. destruct c1 as [x'| |a]; [apply IH|apply rg_ret; auto|apply rg_ret; auto].
    + intros [x'| |a]; [apply pres_loop; exact Hp|apply pres_ret|apply pres_ret].
Qed.

(* a fuel-indexed computation run with fuel computed from the input length (the run on d1 has more) *)
Lemma rg_fuel {A} b (fb : A -> bool) (F1 F2 : nat -> M A) (g : nat -> nat) :
  (forall f, RG b eq fb (F1 f) (F2 f)) ->
  (forall f f' inp s, f <= f' -> oof (snd (F1 f inp s)) = false -> F1 f' inp s = F1 f inp s) ->
  (forall a c, a <= c -> g a <= g c) ->
  RG b eq fb (fun inp s => F1 (g (length inp)) inp s) (fun inp s => F2 (g (length inp)) inp s).
Proof.
  intros HR Hm Hg s1 s2 Hr Hok.
  destruct (HR (g (length d2)) s1 s2 Hr Hok) as [Ha Hr'].
  assert (E : F1 (g (length d1)) d1 s1 = F1 (g (length d2)) d1 s1).
  { apply Hm. apply Hg. pose proof len_d2. lia. rewrite (r_oof _ _ _ Hr'). apply Hok. }
  rewrite E. split; assumption.
Qed.

Lemma rg_loop_in {L A} b (fb : option A -> bool) (body1 body2 : L -> M (ctl L A)) x :
  (forall x, RG b eq (fun c => match c with Continue _ => b | Break => fb None | Return a => fb (Some a) end) (body1 x) (body2 x)) ->
  (forall x, Pres (body2 x)) ->
  RG b eq fb (loop_in body1 x) (loop_in body2 x).
Proof.
  intros Hb Hp.
  apply (rg_fuel b fb (fun f => loop f body1 x) (fun f => loop f body2 x) (fun n => n + 2)).
  - intros f. apply rg_loop; assumption.
  - intros. apply loop_fuel_mono; assumption.
  - intros. lia.
Qed.
Lemma rq_loop_in {L A} b (body1 body2 : L -> M (ctl L A)) x :
  (forall x, Rq b (body1 x) (body2 x)) -> (forall x, Pres (body2 x)) -> Rq b (loop_in body1 x) (loop_in body2 x).
Proof.
  intros Hb Hp. apply rg_loop_in; [|exact Hp]. intros y. eapply rg_weaken; [| |apply Hb]; auto.
  intros [?| |?]; auto.
Qed.

Lemma rq_for_range {A} b (body1 body2 : nat -> M (option A)) :
  (forall i, Rq b (body1 i) (body2 i)) -> (forall i, Pres (body2 i)) -> forall n i, Rq b (for_range n i body1) (for_range n i body2).
Proof.
  intros Hb Hp. induction n as [|n IH]; intros i; cbn [for_range].
  - apply rq_ret.
  - eapply rg_bind; [apply Hb| |].
    + intros r1 r2 <-. destruct r1; [apply rq_ret|apply IH].
    + intros [a|]; [apply pres_ret|apply pres_for_range; exact Hp].
Qed.

(* ------------------------------------------------------------------------------------------ automation *)
Ltac rel_destruct H :=
  let Hrs := fresh "Hrs" in let Hre := fresh "Hre" in let Hds := fresh "Hds" in let Hde := fresh "Hde" in
  let Herr := fresh "Herr" in let Hrt := fresh "Hrt" in let Hcd := fresh "Hcd" in let Hpn := fresh "Hpn" in
  let Hoo := fresh "Hoo" in let Htk := fresh "Htk" in
  destruct H as [Hrs Hre Hds Hde Herr Hrt Hcd Hpn Hoo Htk];
  rewrite ?Hrs, ?Hre, ?Hds, ?Hde, ?Herr, ?Hrt, ?Hcd; try rewrite (Htk eq_refl).

Ltac shift_arith := first [reflexivity | apply Nat.add_shuffle0 | (repeat match goal with H : _ |- _ => clear H end; lia)].
Ltac rel_upd :=
  let s1 := fresh "s1" in let s2 := fresh "s2" in let H := fresh "H" in
  let Hrs := fresh "Hrs" in let Hre := fresh "Hre" in let Hds := fresh "Hds" in let Hde := fresh "Hde" in
  intros s1 s2 H; unfold set_pa_key_start, set_pa_key_end, set_pa_val_start, set_pa_val_end;
  repeat match goal with |- context [pending_attribute ?s] => destruct (pending_attribute s) as [[? ?] [? ?]] end;
  destruct H as [Hrs Hre Hds Hde ? ? ? ? ? ?]; constructor; cbn; rewrite ?Hrs, ?Hre, ?Hds, ?Hde; auto; try solve [shift_arith]; try discriminate.

Ltac rq_proc a1 Ha :=
  cbv beta;
  lazymatch type of Ha with
  | rel _ _ _ => rel_destruct Ha
  | shifted _ _ => unfold shifted in Ha; subst a1
  | _ = _ => subst a1
  end;
  rewrite ?ltb_add_k, ?leb_add_k.

Create HintDb rq discriminated.

Ltac rq_fold := try match goal with |- RG ?b eq (fun _ => ?b) ?m1 ?m2 => change (Rq b m1 m2) end.
Ltac rq_step :=
  rq_fold;
  first
    [ assumption
    | solve [auto 1 with rq nocore]
    | match goal with H : forall _, Rq _ _ _ |- _ => apply H end
    | apply rq_ret
    | apply rq_index; solve [shift_arith]
    | apply rq_slice; solve [shift_arith]
    | apply rq_slice_from; solve [shift_arith]
    | apply rg_upd; solve [rel_upd]
    | apply rq_loop_in; [intros | intros; solve [pres]]
    | apply rq_for_range; [intros | intros; solve [pres]]
    | match goal with
      | |- Rq _ (bind _ _) (bind _ _) =>
        eapply rg_bind;
        [ first [ apply rl_get | apply rq_sub_usize_len; reflexivity | apply rl_sub_usize_pos; reflexivity | apply rq_intro ]
        | let a1 := fresh "a" in let a2 := fresh "a" in let Ha := fresh "Ha" in intros a1 a2 Ha; rq_proc a1 Ha
        | intros; solve [pres] ]
      | |- Rq _ (if ?c then _ else _) (if ?c then _ else _) => destruct c
      | |- Rq _ (match ?c with _ => _ end) (match ?c with _ => _ end) => destruct c
      | |- Rq _ (let _ := _ in _) _ => cbv zeta
      end ].
Ltac rq := repeat (timeout 30 rq_step).

Hint Resolve rq_read_byte rq_fail_at rq_out_of_fuel rq_sub_u8 rq_add_u8 rq_index_of rq_dec_raw_end : rq.

Lemma rq_skip_white_space b : Rq b skip_white_space skip_white_space.
Proof. unfold skip_white_space. rq. Qed.
Hint Resolve rq_skip_white_space : rq.
Lemma rq_read_raw_end_tag b : Rq b read_raw_end_tag read_raw_end_tag.
Proof. unfold read_raw_end_tag. rq. Qed.
Hint Resolve rq_read_raw_end_tag : rq.

Lemma rq_script_all b : forall f, script_all (fun m => Rq b m m) f.
Proof.
  induction f as [|f IH]; unfold script_all in *.
  - script_unfold. repeat apply conj; apply rq_out_of_fuel.
  - destruct IH as (H1 & H2 & H3 & H4 & H5 & H6 & H7 & H8 & H9 & H10 & H11 & H12 & H13 & H14 & H15 & H16).
    repeat apply conj; script_unfold; rq.
Qed.

Lemma rq_read_script b : Rq b read_script read_script.
Proof.
  unfold read_script.
  apply (rg_fuel b (fun _ => b) (fun f => read_script_data f ;;; upd (fun s => set_data_end (raw_end s) s))
                 (fun f => read_script_data f ;;; upd (fun s => set_data_end (raw_end s) s)) (fun n => 3 * n + 10)).
  - intros f. eapply rg_bind; [apply (rq_script_all b f)| |intros; pres]. intros a1 a2 _. apply rg_upd. rel_upd.
  - intros f f' inp s Hle H.
    assert (HA : Agree (read_script_data f ;;; upd (fun s => set_data_end (raw_end s) s))
                       (read_script_data f' ;;; upd (fun s => set_data_end (raw_end s) s))).
    { apply agree_bind; [apply (agree_script_all f f' Hle)|intros; apply agree_refl|intros; pres]. }
    apply HA. exact H.
  - intros. lia.
Qed.
Hint Resolve rq_read_script : rq.

Lemma rq_read_raw_or_cdata b : Rq b read_raw_or_cdata read_raw_or_cdata.
Proof. unfold read_raw_or_cdata. rq. Qed.
Hint Resolve rq_read_raw_or_cdata : rq.
Lemma rq_read_comment b : Rq b read_comment read_comment.
Proof. unfold read_comment. rq. Qed.
Hint Resolve rq_read_comment : rq.
Lemma rq_read_until_close_angle b : Rq b read_until_close_angle read_until_close_angle.
Proof. unfold read_until_close_angle. rq. Qed.
Hint Resolve rq_read_until_close_angle : rq.
Lemma rq_read_doc_type b : Rq b read_doc_type read_doc_type.
Proof. unfold read_doc_type. rq. Qed.
Hint Resolve rq_read_doc_type : rq.
Lemma rq_read_cdata b : Rq b read_cdata read_cdata.
Proof. unfold read_cdata. rq. Qed.
Hint Resolve rq_read_cdata : rq.
Lemma rq_read_markup_declaration b : Rq b read_markup_declaration read_markup_declaration.
Proof. unfold read_markup_declaration. rq. Qed.
Hint Resolve rq_read_markup_declaration : rq.

Lemma rq_start_tag_in b ss : Rq b (start_tag_in ss) (start_tag_in ss).
Proof. induction ss as [|s_ ss IH]; cbn [start_tag_in]; rq. Qed.
Hint Resolve rq_start_tag_in : rq.
Lemma rq_read_tag_name b : Rq b read_tag_name read_tag_name.
Proof. unfold read_tag_name. rq. Qed.
Hint Resolve rq_read_tag_name : rq.
Lemma rq_read_tag_name_attr_key b : Rq b read_tag_name_attr_key read_tag_name_attr_key.
Proof. unfold read_tag_name_attr_key. rq. Qed.
Hint Resolve rq_read_tag_name_attr_key : rq.
Lemma rq_read_tag_name_attr_value b : Rq b read_tag_name_attr_value read_tag_name_attr_value.
Proof. unfold read_tag_name_attr_value. rq. Qed.
Hint Resolve rq_read_tag_name_attr_value : rq.

Lemma rq_read_tag b sa : Rq b (read_tag sa) (read_tag sa).
Proof.
  unfold read_tag. rq.
  match goal with |- Rq _ (if ?c1 then _ else _) (if ?c2 then _ else _) => destruct c1, c2 end;
    [apply rg_upd; rel_upd|apply rq_upd_l; rel_upd|apply rq_upd_r; rel_upd|apply rq_ret].
Qed.
Hint Resolve rq_read_tag : rq.
Lemma rq_read_start_tag b lower : Rq b (read_start_tag lower) (read_start_tag lower).
Proof. unfold read_start_tag. rq. Qed.
Hint Resolve rq_read_start_tag : rq.

(* the general judgment (the token flag changes): used for [next] only *)
Ltac rg_step :=
  first
    [ match goal with |- RG ?b eq (fun _ => ?b) _ _ => solve [rq] end
    | apply rg_ret; [reflexivity | cbn; intros; first [reflexivity | assumption | discriminate]]
    | match goal with
      | |- RG _ _ _ (bind _ _) (bind _ _) =>
        eapply rg_bind;
        [ first [ apply rl_get | apply rq_sub_usize_len; reflexivity | apply rl_sub_usize_pos; reflexivity
                | match goal with |- RG _ _ _ (upd (set_token _)) _ => apply (rg_upd _ true); solve [rel_upd] end
                | match goal with |- RG _ _ _ (if ?c then upd (set_token _) else upd (set_token _)) _ =>
                    destruct c; apply (rg_upd _ true); solve [rel_upd] end
                | apply rq_intro; solve [rq] ]
        | let a1 := fresh "a" in let a2 := fresh "a" in let Ha := fresh "Ha" in intros a1 a2 Ha; rq_proc a1 Ha
        | intros; solve [pres] ]
      | |- RG _ _ _ (if ?c then _ else _) (if ?c then _ else _) => destruct c
      | |- RG _ _ _ (match ?c with _ => _ end) (match ?c with _ => _ end) => destruct c
      | |- RG _ _ _ (let _ := _ in _) _ => cbv zeta
      end ].
Ltac rg := repeat (timeout 30 rg_step).

Definition is_rok {A} (r : result A) : bool := match r with ROk _ => true | RErr => false end.

Lemma rg_next lower : RG false eq is_rok (next lower) (next lower).
Proof.
  unfold next. do 5 rg_step.
  - rg.
  - eapply rg_bind with (RA := eq) (fa := fun r : bool => r); [|intros ret1 ret2 Hret; rq_proc ret1 Hret|intros; pres].
    { rg. }
    destruct ret2.
    { rg. }
    do 2 rg_step.
    eapply rg_bind with (RA := eq) (fa := fun o : option (result token_type) => match o with Some (ROk _) => true | _ => false end);
      [|intros r1 r2 Hr12; rq_proc r1 Hr12|intros; pres].
    { apply rg_loop_in; [|intros; pres]. intros x. rg. }
    rg.
Qed.

Lemma rq_raw b : Rq b raw raw.
Proof. unfold raw. rq. Qed.
Lemma rq_buffered b : Rq b buffered buffered.
Proof. unfold buffered. rq. Qed.

(* tag_name: the name only (the has-attributes flag depends on the attribute fields, which are not related) *)
Definition name_rel (r1 r2 : result (option str * bool)) : Prop :=
  match r1, r2 with
  | ROk (n1, _), ROk (n2, _) => n1 = n2
  | RErr, RErr => True
  | _, _ => False
  end.
Lemma rg_tag_name lower : RG true name_rel (fun _ => true) (tag_name lower) (tag_name lower).
Proof.
  unfold tag_name.
  eapply rg_bind; [apply rl_get|intros s1 s2 Hs; rq_proc s1 Hs|intros; pres].
  destruct (data_start s2 <? data_end s2); [|apply rg_ret; cbn; auto].
  destruct (token s2); try (apply rg_ret; cbn; auto);
    (eapply rg_bind; [apply rq_intro; rq|intros y1 y2 Hy; rq_proc y1 Hy|intros; pres];
     destruct (negb (utf8_valid y2)); [apply rg_ret; cbn; auto|];
     eapply rg_bind; [apply rg_upd; rel_upd|intros|intros; pres];
     eapply rg_bind; [apply rg_upd; rel_upd|intros|intros; pres];
     apply rg_ret; cbn; auto).
Qed.

End Shift.


Theorem next_shift lower d k s1 s2 :
  k <= length d -> rel k false s1 s2 -> ok (snd (next lower (skipn k d) s2)) ->
  fst (next lower d s1) = fst (next lower (skipn k d) s2)
  /\ rel k (is_rok (fst (next lower (skipn k d) s2))) (snd (next lower d s1)) (snd (next lower (skipn k d) s2)).
Proof. intros Hk Hr Hok. exact (rg_next d k Hk lower s1 s2 Hr Hok). Qed.

Theorem raw_shift d k b s1 s2 :
  k <= length d -> rel k b s1 s2 -> ok (snd (raw (skipn k d) s2)) ->
  fst (raw d s1) = fst (raw (skipn k d) s2) /\ rel k b (snd (raw d s1)) (snd (raw (skipn k d) s2)).
Proof. intros Hk Hr Hok. exact (rq_raw d k Hk b s1 s2 Hr Hok). Qed.

Theorem buffered_shift d k b s1 s2 :
  k <= length d -> rel k b s1 s2 -> ok (snd (buffered (skipn k d) s2)) ->
  fst (buffered d s1) = fst (buffered (skipn k d) s2) /\ rel k b (snd (buffered d s1)) (snd (buffered (skipn k d) s2)).
Proof. intros Hk Hr Hok. exact (rq_buffered d k Hk b s1 s2 Hr Hok). Qed.

Theorem tag_name_shift lower d k s1 s2 :
  k <= length d -> rel k true s1 s2 -> ok (snd (tag_name lower (skipn k d) s2)) ->
  name_rel (fst (tag_name lower d s1)) (fst (tag_name lower (skipn k d) s2))
  /\ rel k true (snd (tag_name lower d s1)) (snd (tag_name lower (skipn k d) s2)).
Proof. intros Hk Hr Hok. exact (rg_tag_name d k Hk lower s1 s2 Hr Hok). Qed.

(* ------------------------------------------------------------------------------------------------------ *)
(* [next] returns Err (the `?` of read_start_tag on a raw-text tag name that is not UTF-8) only without having
   observed EOF: needed to transport an error of a run on a prefix of the data to the run on the whole data. *)
Definition errsame (s s' : st) : Prop := err s' = err s.
Lemma errsame_refl s : errsame s s. Proof. reflexivity. Qed.
Lemma errsame_trans a b c : errsame a b -> errsame b c -> errsame a c.
Proof. unfold errsame. congruence. Qed.
Lemma errsame_oof s : errsame s (set_oof true s). Proof. reflexivity. Qed.
Lemma errsame_panic_site site s : errsame s (set_panic_site site s).
Proof. unfold errsame, set_panic_site. destruct (panic s); reflexivity. Qed.

Definition EP {A} (m : M A) : Prop := PresR errsame m.
Lemma ep_ret {A} (a : A) : EP (ret a). Proof. apply presR_ret, errsame_refl. Qed.
Lemma ep_get : EP get. Proof. apply presR_get, errsame_refl. Qed.
Lemma ep_bind {A B} (m : M A) (k : A -> M B) : EP m -> (forall a, EP (k a)) -> EP (bind m k).
Proof. apply presR_bind, errsame_trans. Qed.
Lemma ep_fail_at site : EP (fail_at site).
Proof. apply presR_upd. apply errsame_panic_site. Qed.
Lemma ep_fail_ret {A} site (a : A) : EP (fail_at site ;;; ret a).
Proof. apply ep_bind; [apply ep_fail_at|intros; apply ep_ret]. Qed.
Lemma ep_sub_usize site a b : EP (sub_usize site a b).
Proof. unfold sub_usize. destruct (b <=? a); [apply ep_ret|apply ep_fail_ret]. Qed.
Lemma ep_add_u8 site a b : EP (add_u8 site a b).
Proof. unfold add_u8. destruct (N.leb (N.add a b) 255); [apply ep_ret|apply ep_fail_ret]. Qed.
Lemma ep_index_of site l i : EP (index_of site l i).
Proof. unfold index_of. destruct (nth_error l i); [apply ep_ret|apply ep_fail_ret]. Qed.
Lemma ep_index site i : EP (index site i).
Proof. intros inp s. unfold index. destruct (nth_error inp i); cbn; [reflexivity|apply errsame_panic_site]. Qed.
Lemma ep_slice site a b : EP (slice site a b).
Proof. intros inp s. unfold slice. cbn. destruct ((a <=? b) && (b <=? length inp)); [reflexivity|apply errsame_panic_site]. Qed.
Lemma ep_for_range {A} (body : nat -> M (option A)) : (forall i, EP (body i)) -> forall n i, EP (for_range n i body).
Proof. apply presR_for_range; [apply errsame_refl|apply errsame_trans]. Qed.

Ltac ep_step :=
  first
    [ apply ep_ret | apply ep_get | apply ep_sub_usize | apply ep_add_u8 | apply ep_index_of | apply ep_index | apply ep_slice
    | assumption
    | apply presR_upd; intros; reflexivity
    | apply ep_for_range; intros
    | apply ep_bind; [| intros ]
    | match goal with
      | |- EP (if ?c then _ else _) => destruct c
      | |- EP (match ?c with _ => _ end) => destruct c
      end ].
Ltac ep := repeat ep_step.

Lemma ep_start_tag_in ss : EP (start_tag_in ss).
Proof. induction ss as [|s_ ss IH]; cbn [start_tag_in]; ep. Qed.

Lemma read_start_tag_rerr lower inp s :
  fst (read_start_tag lower inp s) = RErr -> err (snd (read_start_tag lower inp s)) = false.
Proof.
  unfold read_start_tag. rewrite bind_eq. set (s1 := snd (read_tag true inp s)). rewrite bind_get.
  destruct (err s1) eqn:E1; [cbn; discriminate|]. intros _.
  match goal with |- err (snd (?m inp s1)) = false => assert (H : EP m) end.
  { ep; apply ep_start_tag_in. }
  rewrite (H inp s1). exact E1.
Qed.

(* Hoare-style rule for the result of a loop *)
Lemma loop_post {L A} (Q : option A -> st -> Prop) (body : L -> M (ctl L A)) :
  (forall s, Q None s) ->
  (forall x inp s, match fst (body x inp s) with Return a => Q (Some a) (snd (body x inp s)) | _ => True end) ->
  forall f x inp s, Q (fst (loop f body x inp s)) (snd (loop f body x inp s)).
Proof.
  intros HN Hb. induction f as [|f IH]; intros x inp s; cbn [loop].
  - cbn. apply HN.
  - rewrite bind_eq. pose proof (Hb x inp s) as H. destruct (fst (body x inp s)) as [x'| |a]; [apply IH|apply HN|exact H].
Qed.

Definition Post {A} (Q : A -> st -> Prop) (m : M A) : Prop := forall inp s, Q (fst (m inp s)) (snd (m inp s)).
Lemma post_bind_any {A B} (Q : B -> st -> Prop) (m : M A) (k : A -> M B) : (forall a, Post Q (k a)) -> Post Q (bind m k).
Proof. intros H inp s. rewrite bind_eq. apply H. Qed.
Lemma post_ret {A} (Q : A -> st -> Prop) (a : A) : (forall s, Q a s) -> Post Q (ret a).
Proof. intros H inp s. apply H. Qed.

Definition QR (c : ctl unit (result token_type)) (s : st) : Prop :=
  match c with Return RErr => err s = false | _ => True end.

Lemma post_start_tag_leaf lower :
  Post QR (t <- read_start_tag lower ;;
           match t with
           | RErr => ret (Return RErr)
           | ROk t => upd (set_token t) ;;; ret (Return (ROk t))
           end).
Proof.
  intros inp s. rewrite bind_eq. destruct (fst (read_start_tag lower inp s)) as [t|] eqn:E.
  - cbn. exact I.
  - cbn. apply read_start_tag_rerr. exact E.
Qed.

Ltac post_step :=
  first
    [ apply post_start_tag_leaf
    | apply post_ret; intros; exact I
    | apply post_bind_any; intros
    | match goal with
      | |- Post _ (if ?c then _ else _) => destruct c
      | |- Post _ (match ?c with _ => _ end) => destruct c
      | |- Post _ (let _ := _ in _) => cbv zeta
      end ].

Lemma next_rerr lower inp s : fst (next lower inp s) = RErr -> err (snd (next lower inp s)) = false.
Proof.
  unfold next. rewrite !bind_upd. rewrite bind_get.
  match goal with |- context [if err ?x then _ else _] => destruct (err x) end; [cbn; discriminate|].
  rewrite bind_eq. match goal with |- context [if ?c then ret (ROk TextToken) else _] => destruct c end; [cbn; discriminate|].
  rewrite !bind_upd. rewrite bind_eq.
  match goal with |- context [loop_in ?b tt ?i ?t] => set (body := b); set (s2 := t) end.
  assert (HL : match fst (loop_in body tt inp s2) with Some RErr => err (snd (loop_in body tt inp s2)) = false | _ => True end).
  { unfold loop_in. rewrite bind_eq. cbn [fst snd input_len].
    apply (loop_post (fun o t => match o with Some RErr => err t = false | _ => True end)); [intros; exact I|].
    clear. intros x inp s.
    assert (HP : Post QR (body x)) by (unfold body; repeat post_step).
    specialize (HP inp s). unfold QR in HP. destruct (fst (body x inp s)) as [?| |[?|]]; auto. }
  destruct (fst (loop_in body tt inp s2)) as [[t|]|]; cbn [ret fst snd].
  - discriminate.
  - intros _. exact HL.
  - rewrite bind_get. match goal with |- context [if ?c then _ else _] => destruct c end; cbn; discriminate.
Qed.
