(* EndToEnd.v — composition of the router refinement (C01 / C02), the order independence of the action (C11) and the
   pipeline model of the analyses (C19): what explain / impact report for an example on a router reached by ANY
   admissible history (in particular: existing router + change-set) is what they report on a router rebuilt from the
   resulting rule list inserted in any order, and it is the response of the live pipeline on either router.

   The link between a route and the rule it was made from ("handler" in the Rust code: Route<Rule>::handler()) is a
   function [handler : route -> rule] that keeps the id; nothing else is assumed of it. *)
Require Import RIO.Base RIO.Prefix RIO.Route RIO.Tree RIO.TreeProofs RIO.TreeInst RIO.Matchers RIO.MatcherSpec RIO.PathProofs
               RIO.RouterSpec RIO.RouterHist RIO.RouterProofs.
Require Import RIO.Headers RIO.BodyText RIO.ActionModel RIO.ActionSpec RIO.ActionProofs RIO.Pipeline RIO.PipelineProofs.
Close Scope N_scope.

Lemma incl_filter {A} (P : A -> bool) (l : list A) : incl (filter P l) l.
Proof. intros x H. apply filter_In in H. tauto. Qed.

Lemma NoDup_ids_sub (l rs : list route) : NoDup l -> incl l rs -> NoDup (ids rs) -> NoDup (ids l).
Proof.
  intros Hl Hi Hrs. unfold ids in *.
  induction l as [|x l IH]; cbn [map]; [constructor|].
  inversion Hl as [|? ? Hx Hl']; subst. constructor.
  - intros Hin. apply in_map_iff in Hin. destruct Hin as (y & Ey & Hy).
    assert (y = x).
    { assert (Hyrs : In y rs) by (apply Hi; right; exact Hy).
      assert (Hxrs : In x rs) by (apply Hi; left; reflexivity).
      clear - Hrs Ey Hyrs Hxrs. induction rs as [|r rs IH]; [destruct Hyrs|].
      cbn [map] in Hrs. inversion Hrs as [|? ? Hr Hrs']; subst.
      destruct Hyrs as [->|Hyrs], Hxrs as [->|Hxrs]; [reflexivity| | |apply IH; assumption].
      - exfalso. apply Hr. rewrite Ey. apply in_map. exact Hxrs.
      - exfalso. apply Hr. rewrite <- Ey. apply in_map. exact Hyrs. }
    subst y. contradiction.
  - apply IH; [exact Hl'|]. intros y Hy. apply Hi. right. exact Hy.
Qed.

Section EndToEnd.
Variable lower : str -> str.
Variable eng : bool -> pat -> list N -> bool.
Variable valid : bool -> pat -> bool.
Variables ic_host ic_path always : bool.
Hypothesis Hd : engine_dotstar eng.
Hypothesis Hp : engine_prefix_law eng.

Notation rmatch q R := (router_match lower eng valid ic_host ic_path always q R).
Notation rbuild rs := (RouterHist.rbuild lower eng valid ic_host ic_path always rs).
Notation rrun ops := (RouterHist.rrun lower eng valid ic_host ic_path always ops (router_new lower eng valid ic_host ic_path always)).
Notation smatch := (spec_match lower (eng false) (hmatch eng ic_host) (pmatch eng ic_path) always).

Lemma spec_match_incl rs q : incl (smatch rs q) rs.
Proof.
  unfold spec_match, match_scope. intros x H. apply in_app_iff in H.
  assert (Hsc : forall L, incl L rs ->
            forall y, In y (let hs := filter (fun r => host_specific r && host_sat (hmatch eng ic_host) r q && sat_rest lower (eng false) (pmatch eng ic_path) r q) L in
                            let anyh := filter (fun r => negb (host_specific r) && sat_rest lower (eng false) (pmatch eng ic_path) r q) L in
                            if always || is_nil hs then hs ++ anyh else hs) -> In y rs).
  { intros L HL y Hy. cbv zeta in Hy.
    destruct (always || is_nil (filter (fun r => host_specific r && host_sat (hmatch eng ic_host) r q && sat_rest lower (eng false) (pmatch eng ic_path) r q) L)).
    - apply in_app_iff in Hy. destruct Hy as [Hy|Hy]; apply HL; eapply incl_filter; exact Hy.
    - apply HL. eapply incl_filter. exact Hy. }
  destruct H as [H|H].
  - apply (Hsc (filter any_scheme rs) (incl_filter _ _) x H).
  - destruct (q_scheme q) as [s|]; [|destruct H]. apply (Hsc (filter (in_scheme s) rs) (incl_filter _ _) x H).
Qed.

(* the reference never lists a route twice: its pieces are filters of disjoint parts of a duplicate-free list
   (the argument of C01_once) *)
Lemma spec_match_nodup rs q : NoDup rs -> NoDup (smatch rs q).
Proof.
  intros HL. unfold spec_match, match_scope.
  assert (Hsc : forall (L : list route), NoDup L ->
            NoDup (let hs := filter (fun r => host_specific r && host_sat (hmatch eng ic_host) r q && sat_rest lower (eng false) (pmatch eng ic_path) r q) L in
                   let anyh := filter (fun r => negb (host_specific r) && sat_rest lower (eng false) (pmatch eng ic_path) r q) L in
                   if always || is_nil hs then hs ++ anyh else hs)).
  { intros L HnL. cbv zeta. destruct (always || is_nil _); [|apply NoDup_filter; exact HnL].
    clear - HnL. induction L as [|r L IH]; cbn; [constructor|]. inversion HnL as [|? ? Hr HnL']; subst. specialize (IH HnL').
    destruct (host_specific r) eqn:E; cbn.
    - destruct (host_sat _ r q && sat_rest _ _ _ r q); cbn; [|exact IH]. constructor; [|exact IH].
      rewrite in_app_iff, !filter_In. tauto.
    - destruct (sat_rest _ _ _ r q); cbn; [|exact IH].
      assert (Hmid : forall (a b : list route) x, NoDup (a ++ b) -> ~ In x (a ++ b) -> NoDup (a ++ x :: b)).
      { intros a b x Hab Hx. apply NoDup_Add with (a := x) (l := a ++ b); [apply Add_app|]. split; assumption. }
      apply Hmid; [exact IH|]. rewrite in_app_iff, !filter_In. tauto. }
  assert (Hdisj : forall x, In x (match_scope lower (eng false) (hmatch eng ic_host) (pmatch eng ic_path) always (filter any_scheme rs) q) ->
                  ~ In x (match q_scheme q with Some s => match_scope lower (eng false) (hmatch eng ic_host) (pmatch eng ic_path) always (filter (in_scheme s) rs) q | None => [] end)).
  { intros x H1 H2. destruct (q_scheme q) as [s|]; [|destruct H2].
    assert (Hin : forall P L, In x (match_scope lower (eng false) (hmatch eng ic_host) (pmatch eng ic_path) always (filter P L) q) -> P x = true).
    { intros P L H. unfold match_scope in H. destruct (always || _); [apply in_app_iff in H; destruct H as [H|H]|]; apply filter_In in H; destruct H as [H _]; apply filter_In in H; tauto. }
    apply Hin in H1. apply Hin in H2. unfold any_scheme, in_scheme in *. destruct (rt_scheme x) as [s'|]; [|discriminate].
    apply andb_prop in H2. destruct H2 as [H2 _]. rewrite H1 in H2. discriminate. }
  unfold match_scope in Hdisj |- *.
  assert (Happ : forall a b : list route, NoDup a -> NoDup b -> (forall x, In x a -> ~ In x b) -> NoDup (a ++ b)).
  { induction a as [|x a IH]; cbn; intros b Ha Hb Hd'; [exact Hb|]. inversion Ha as [|? ? Hx Ha']; subst. constructor.
    - rewrite in_app_iff. intros [H|H]; [contradiction|apply (Hd' x (or_introl eq_refl)); exact H].
    - apply IH; try assumption. intros y Hy. apply Hd'. right. exact Hy. }
  apply Happ.
  - apply Hsc. apply NoDup_filter. exact HL.
  - destruct (q_scheme q) as [s|]; [apply Hsc; apply NoDup_filter; exact HL|constructor].
  - exact Hdisj.
Qed.

Lemma NoDup_of_ids (l : list route) : NoDup (ids l) -> NoDup l.
Proof. unfold ids. apply NoDup_map_inv. Qed.

(* whatever list of live routes a router represents, the ids of what it matches are duplicate free *)
Lemma match_ids_nodup (m : list route) rs q : Permutation m (smatch rs q) -> NoDup (ids rs) -> NoDup (ids m).
Proof.
  intros HP Hn.
  apply (NoDup_ids_sub m rs); [| |exact Hn].
  - eapply Permutation_NoDup; [apply Permutation_sym; exact HP|]. apply spec_match_nodup. apply NoDup_of_ids. exact Hn.
  - intros x Hx. apply (spec_match_incl rs q). eapply Permutation_in; [exact HP|exact Hx].
Qed.

Section Analyses.
Variable lower' : str -> str.
Variable table : list (str * hkind).
Variable handler : route -> rule.
Hypothesis handler_id : forall r, ActionModel.r_id (handler r) = Route.rt_id r.

Lemma handler_ids l : map ActionModel.r_id (map handler l) = ids l.
Proof. unfold ids. rewrite map_map. apply map_ext. exact handler_id. Qed.

(* explain / impact on the router reached by a history = on a router rebuilt from the live rules in any order *)
Theorem analysis_incremental_eq_rebuilt (ops : list rop) (rs : list route) (q : request) skipped ov example_code skeleton :
  RouterProofs.hist_ok lower [] ops -> Forall (ok_route lower) rs -> Permutation (RouterHist.live ops) rs ->
  analysis_of_rules lower' table (map handler (rmatch q (rrun ops))) skipped ov example_code skeleton
  = analysis_of_rules lower' table (map handler (rmatch q (rbuild rs))) skipped ov example_code skeleton.
Proof.
  intros Hok Hall Hperm.
  pose proof (hist_match_rebuild_perm lower eng valid ic_host ic_path always Hd Hp ops rs q Hok Hall Hperm) as HP.
  apply analysis_of_rules_permutation; [apply Permutation_map; exact HP|].
  rewrite handler_ids.
  apply (match_ids_nodup _ (RouterHist.live ops) q).
  - eapply hist_match; eassumption.
  - eapply hist_live_nodup; eassumption.
Qed.

(* ... and on either router it is the response of the live pipeline for the rules that router matches *)
Theorem analysis_on_history_eq_live (ops : list rop) (q : request) skipped ov example_code skeleton :
  analysis_of_rules lower' table (map handler (rmatch q (rrun ops))) skipped ov example_code skeleton
  = live_of_rules lower' table (map handler (rmatch q (rrun ops))) skipped ov (example_backend example_code) skeleton.
Proof. apply analysis_of_rules_eq_live. Qed.
End Analyses.
End EndToEnd.
