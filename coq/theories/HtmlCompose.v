(* HtmlCompose.v — the tokenizer model (RIO.HtmlTok) reads a serialised document token by token:
   [tokenizes_as] (the hypothesis of the byte-level statements of C15, RIO.HtmlBridge) follows from checks made on each
   tag / comment / raw-text element IN ISOLATION (an executable condition, [iso_ok]) and from the texts containing no '<'.
   Ingredients: the tokenizer is prefix-stable (HtmlTokProofs.next_stable) and shift-invariant (TokShift.next_shift), so
   what it does on the bytes of one unit alone it does on them inside any document; texts are scanned by the main
   loop of [next] (lemmas [main_scan], [next_text_then_tag], [next_text_eof]). *)
Require Import RIO.Base RIO.TokMonad RIO.HtmlTok RIO.TokLogic RIO.HtmlTokProofs RIO.TokShift RIO.BodyText RIO.HtmlFilter
  RIO.Dom RIO.HtmlTokens RIO.HtmlBridge RIO.HtmlInsert RIO.HtmlList.
Close Scope N_scope.
Open Scope nat_scope.

Section Compose.
Variable lower : str -> str.

Definition starter (c : N) : bool := is_ascii_alphabetic c || is c SLASH || is c BANG || is c QMARK.

(* the body of next's 'main loop (copied from HtmlTok.next; next_main below checks the copy by conversion) *)
Definition main_body : unit -> M (ctl unit (result token_type)) := fun _ : unit =>
         byte <- read_byte ;;
         s <- get ;;
         if err s then ret Break else
         if negb (is byte LT) then ret (Continue tt) else
         byte <- read_byte ;;
         s <- get ;;
         if err s then ret Break else
         let token_type :=
           if is_ascii_alphabetic byte then Some StartTagToken
           else if is byte SLASH then Some EndTagToken
           else if is byte BANG || is byte QMARK then Some CommentToken
           else None in
         match token_type with
         | None =>
             dec_raw_end 1 1 ;;;
             ret (Continue tt)
         | Some token_type =>
             x <- sub_usize 2 (raw_end s) 2 ;;
             if raw_start s <? x then
               upd (set_raw_end x) ;;;
               upd (set_data_end x) ;;;
               upd (set_token TextToken) ;;;
               ret (Return (ROk TextToken))
             else
             match token_type with
             | StartTagToken =>
                 t <- read_start_tag lower ;;
                 match t with
                 | RErr => ret (Return RErr)
                 | ROk t =>
                     upd (set_token t) ;;;
                     ret (Return (ROk t))
                 end
             | EndTagToken =>
                 end_byte <- read_byte ;;
                 s <- get ;;
                 if err s then ret Break else
                 if is end_byte GT then
                   upd (set_token CommentToken) ;;;
                   ret (Return (ROk CommentToken))
                 else
                 if is_ascii_alphabetic end_byte then
                   read_tag false ;;;
                   s <- get ;;
                   (if err s then upd (set_token ErrorToken) else upd (set_token EndTagToken)) ;;;
                   s <- get ;;
                   ret (Return (ROk (token s)))
                 else
                 dec_raw_end 3 1 ;;;
                 read_until_close_angle ;;;
                 upd (set_token CommentToken) ;;;
                 ret (Return (ROk CommentToken))
             | CommentToken =>
                 if is byte BANG then
                   t <- read_markup_declaration ;;
                   upd (set_token t) ;;;
                   ret (Return (ROk t))
                 else
                 dec_raw_end 4 1 ;;;
                 read_until_close_angle ;;;
                 upd (set_token CommentToken) ;;;
                 ret (Return (ROk CommentToken))
             | _ => ret (Continue tt)
             end
         end.

Definition after_main : option (result token_type) -> M (result token_type) := fun r =>
    match r with
    | Some res => ret res
    | None =>
        s <- get ;;
        if raw_start s <? raw_end s then upd (set_data_end (raw_end s)) ;;; upd (set_token TextToken) ;;; ret (ROk TextToken)
        else upd (set_token ErrorToken) ;;; ret (ROk ErrorToken)
    end.

Definition main_init (s : st) : st := set_convert_null false (set_text_is_raw false (next_init s)).

Lemma next_main data s : err s = false -> raw_tag s = [] ->
  next lower data s = (r <- loop_in main_body tt ;; after_main r) data (main_init s).
Proof.
  intros He Hr. unfold next. rewrite !bind_upd.
  change (set_data_end (raw_end (set_data_start (raw_end (set_raw_start (raw_end s) s)) (set_raw_start (raw_end s) s))) (set_data_start (raw_end (set_raw_start (raw_end s) s)) (set_raw_start (raw_end s) s))) with (next_init s).
  rewrite bind_get.
  assert (E1 : err (next_init s) = false) by (destruct s; exact He).
  assert (E2 : raw_tag (next_init s) = []) by (destruct s; exact Hr).
  rewrite E1, E2. cbn [is_nil negb]. rewrite bind_ret. rewrite !bind_upd. reflexivity.
Qed.

(* one iteration on a byte that is not '<' *)
Lemma main_body_skip data s b : nth_error data (raw_end s) = Some b -> N.eqb b LT = false -> err s = false ->
  main_body tt data s = (Continue tt, set_raw_end (S (raw_end s)) s).
Proof.
  intros Hn Hb He. unfold main_body. unfold bind at 1. unfold read_byte at 1. rewrite Hn.
  rewrite bind_get. assert (E : err (set_raw_end (S (raw_end s)) s) = false) by (destruct s; exact He). rewrite E.
  unfold is. rewrite Hb. reflexivity.
Qed.

Lemma set_raw_end_twice a b s : set_raw_end a (set_raw_end b s) = set_raw_end a s.
Proof. destruct s; reflexivity. Qed.

(* scanning bytes that are not '<' *)
Lemma main_scan data : forall t fuel s,
  Forall (fun b => N.eqb b LT = false) t -> err s = false ->
  (forall i, i < length t -> nth_error data (raw_end s + i) = nth_error t i) ->
  loop (length t + fuel) main_body tt data s = loop fuel main_body tt data (set_raw_end (raw_end s + length t) s).
Proof.
  induction t as [|b t IH]; intros fuel s Hall He Hn.
  - cbn [length Nat.add]. rewrite Nat.add_0_r. destruct s; reflexivity.
  - inversion Hall as [|? ? Hb Ht]; subst. cbn [length Nat.add loop].
    pose proof (Hn 0 ltac:(cbn; lia)) as H0. rewrite Nat.add_0_r in H0. cbn [nth_error] in H0.
    rewrite bind_eq, (main_body_skip data s b H0 Hb He). cbn [fst snd].
    rewrite IH; [|exact Ht|destruct s; exact He|].
    + rewrite set_raw_end_twice. f_equal. destruct s; cbn. f_equal. lia.
    + intros i Hi. replace (raw_end (set_raw_end (S (raw_end s)) s) + i) with (raw_end s + S i) by (destruct s; cbn; lia).
      rewrite (Hn (S i)) by (cbn; lia). reflexivity.
Qed.

Definition text_state (x : nat) (s : st) : st :=
  set_token TextToken (set_data_end x (set_raw_end x (main_init s))).

(* a text followed by '<' and a byte that starts a tag / comment: the text token, nothing else consumed *)
Lemma next_text_then_tag pre t c rest s :
  t <> [] -> Forall (fun b => N.eqb b LT = false) t -> starter c = true ->
  raw_end s = length pre -> err s = false -> raw_tag s = [] ->
  next lower (pre ++ t ++ LT :: c :: rest) s = (ROk TextToken, text_state (length pre + length t) s).
Proof.
  intros Hne Hall Hc Hre He Hrt. set (data := pre ++ t ++ LT :: c :: rest).
  rewrite (next_main data s He Hrt). unfold loop_in. rewrite !bind_eq. unfold input_len. cbn [fst snd].
  assert (Hlen : length data + 2 = length t + (S (length pre + length rest + 3))).
  { unfold data. rewrite !app_length. cbn [length]. lia. }
  rewrite Hlen.
  assert (Hre0 : raw_end (main_init s) = length pre) by (destruct s; exact Hre).
  assert (He0 : err (main_init s) = false) by (destruct s; exact He).
  assert (Hnth : forall i, nth_error data (length pre + i) = nth_error (t ++ LT :: c :: rest) i).
  { intros i. unfold data. rewrite nth_error_app2 by lia. f_equal. lia. }
  rewrite main_scan; [|exact Hall|exact He0|].
  2:{ intros i Hi. rewrite Hre0, Hnth. apply nth_error_app1. exact Hi. }
  rewrite Hre0. set (x := length pre + length t). set (s1 := set_raw_end x (main_init s)).
  cbn [loop]. rewrite bind_eq.
  assert (Hs1 : raw_end s1 = x) by (unfold s1; destruct s; reflexivity).
  assert (H1 : nth_error data x = Some LT).
  { unfold x. rewrite Hnth. rewrite nth_error_app2 by lia. rewrite Nat.sub_diag. reflexivity. }
  assert (H2 : nth_error data (S x) = Some c).
  { unfold x. replace (S (length pre + length t)) with (length pre + S (length t)) by lia. rewrite Hnth.
    rewrite nth_error_app2 by lia. replace (S (length t) - length t) with 1 by lia. reflexivity. }
  assert (Hbody : main_body tt data s1 = (Return (ROk TextToken), text_state x s)).
  { unfold main_body. unfold bind at 1. unfold read_byte at 1. rewrite Hs1, H1. rewrite bind_get.
    assert (E1 : err (set_raw_end (S x) s1) = false) by (unfold s1; destruct s; exact He). rewrite E1.
    unfold is at 1. cbn [negb N.eqb LT Pos.eqb]. change (N.eqb LT LT) with true. cbn [negb].
    unfold bind at 1. unfold read_byte at 1.
    assert (E2 : raw_end (set_raw_end (S x) s1) = S x) by (unfold s1; destruct s; reflexivity). rewrite E2, H2.
    rewrite bind_get. assert (E3 : err (set_raw_end (S (S x)) (set_raw_end (S x) s1)) = false) by (unfold s1; destruct s; exact He). rewrite E3.
    assert (E4 : raw_end (set_raw_end (S (S x)) (set_raw_end (S x) s1)) = S (S x)) by (unfold s1; destruct s; reflexivity).
    assert (E5 : raw_start (set_raw_end (S (S x)) (set_raw_end (S x) s1)) = length pre) by (unfold s1; destruct s; exact Hre).
    assert (Hx : (length pre <? x) = true). { apply Nat.ltb_lt. unfold x. destruct t; [congruence|cbn [length]; lia]. }
    unfold starter in Hc.
    destruct (is_ascii_alphabetic c) eqn:Ea.
    { cbv zeta. unfold sub_usize. rewrite E4. cbn [Nat.leb]. rewrite bind_ret. replace (S (S x) - 2) with x by lia. rewrite E5, Hx.
      rewrite !bind_upd. unfold ret. try f_equal; unfold text_state, s1; destruct s; reflexivity. }
    destruct (is c SLASH) eqn:Eb.
    { cbv zeta. unfold sub_usize. rewrite E4. cbn [Nat.leb]. rewrite bind_ret. replace (S (S x) - 2) with x by lia. rewrite E5, Hx.
      rewrite !bind_upd. unfold ret. try f_equal; unfold text_state, s1; destruct s; reflexivity. }
    cbn [orb] in Hc. rewrite Hc.
    cbv zeta. unfold sub_usize. rewrite E4. cbn [Nat.leb]. rewrite bind_ret. replace (S (S x) - 2) with x by lia. rewrite E5, Hx.
    rewrite !bind_upd. unfold ret. try f_equal; unfold text_state, s1; destruct s; reflexivity. }
  rewrite Hbody. cbn [fst snd]. reflexivity.
Qed.

(* the data ends inside (or right after) a text: the text token with the EOF error set, or the error token *)
Definition eof_state (x : nat) (s : st) : st := set_err true (set_raw_end x (main_init s)).

Lemma next_text_eof pre t s :
  Forall (fun b => N.eqb b LT = false) t ->
  raw_end s = length pre -> err s = false -> raw_tag s = [] ->
  next lower (pre ++ t) s =
  if is_nil t then (ROk ErrorToken, set_token ErrorToken (eof_state (length pre) s))
  else (ROk TextToken, set_token TextToken (set_data_end (length pre + length t) (eof_state (length pre + length t) s))).
Proof.
  intros Hall Hre He Hrt. set (data := pre ++ t).
  rewrite (next_main data s He Hrt). unfold loop_in. rewrite !bind_eq. unfold input_len. cbn [fst snd].
  assert (Hlen : length data + 2 = length t + (S (S (length pre)))).
  { unfold data. rewrite !app_length. lia. }
  rewrite Hlen.
  assert (Hre0 : raw_end (main_init s) = length pre) by (destruct s; exact Hre).
  assert (He0 : err (main_init s) = false) by (destruct s; exact He).
  rewrite main_scan; [|exact Hall|exact He0|].
  2:{ intros i Hi. rewrite Hre0. unfold data. rewrite nth_error_app2 by lia. f_equal. lia. }
  rewrite Hre0. set (x := length pre + length t). set (s1 := set_raw_end x (main_init s)).
  cbn [loop]. rewrite bind_eq.
  assert (Hs1 : raw_end s1 = x) by (unfold s1; destruct s; reflexivity).
  assert (H1 : nth_error data x = None).
  { apply nth_error_None. unfold data, x. rewrite app_length. lia. }
  assert (Hbody : main_body tt data s1 = (Break, set_err true s1)).
  { unfold main_body. unfold bind at 1. unfold read_byte at 1. rewrite Hs1, H1. rewrite bind_get.
    assert (E1 : err (set_err true s1) = true) by (unfold s1; destruct s; reflexivity). rewrite E1. reflexivity. }
  rewrite Hbody. cbn [fst snd ret after_main]. rewrite bind_get.
  assert (E2 : raw_start (set_err true s1) = length pre) by (unfold s1; destruct s; exact Hre).
  assert (E3 : raw_end (set_err true s1) = x) by (unfold s1; destruct s; reflexivity).
  rewrite E2, E3. destruct t as [|b t'].
  - cbn [is_nil]. unfold x. cbn [length]. rewrite Nat.add_0_r, Nat.ltb_irrefl. rewrite bind_upd. unfold ret. f_equal.
    unfold eof_state, s1, x. cbn [length]. rewrite Nat.add_0_r. reflexivity.
  - cbn [is_nil]. assert (Hx : (length pre <? x) = true) by (apply Nat.ltb_lt; unfold x; cbn [length]; lia). rewrite Hx.
    rewrite !bind_upd. unfold ret. f_equal.
Qed.

(* ------------------------------------------------------------------------------------------ one token, as tokens_from reads it *)
Definition read1 (data : list N) (s : st) : option (dtok * st) :=
  match tk_next lower data s with
  | (ROk tk, s1) =>
      if no_panic (snd (raw data s1)) && negb (token_eqb tk ErrorToken || err s1) && negb (oof s1) then
        match as_string (tk_raw data s1) with
        | ROk r =>
            if is_tag tk then
              match tk_tag_name lower data s1 with
              | (ROk (name, _), s2) => if no_panic s2 then Some (mk_tok tk (name_of name) r, s2) else None
              | (RErr, _) => None
              end
            else Some (DOther r, s1)
        | RErr => None
        end
      else None
  | (RErr, _) => None
  end.

Lemma tokens_from_read1 data s t s' f : read1 data s = Some (t, s') ->
  tokens_from lower (S f) data s = cons_fst t (tokens_from lower f data s').
Proof.
  unfold read1. cbn [tokens_from]. destruct (tk_next lower data s) as [[tk|] s1]; [|discriminate].
  destruct (no_panic (snd (raw data s1))); [|discriminate]. cbn [andb negb].
  destruct (token_eqb tk ErrorToken || err s1); [discriminate|]. cbn [andb negb].
  destruct (oof s1); [discriminate|]. cbn [negb].
  destruct (as_string (tk_raw data s1)) as [r|]; [|discriminate].
  unfold after_next. destruct (is_tag tk).
  - destruct (tk_tag_name lower data s1) as [[[name fl]|] s2]; [|discriminate].
    destruct (no_panic s2); [|discriminate]. intros [= <- <-]. reflexivity.
  - intros [= <- <-]. reflexivity.
Qed.

(* the part of the state that matters between two tokens; positions shifted by k *)
Definition prel (k : nat) (s1 s2 : st) : Prop :=
  raw_end s1 = raw_end s2 + k /\ err s1 = err s2 /\ raw_tag s1 = raw_tag s2 /\ allow_cdata s1 = allow_cdata s2 /\
  panic s1 = panic s2 /\ oof s1 = oof s2.

Lemma rel_of_prel k s1 s2 : prel k s1 s2 -> rel k false (next_init s1) (next_init s2).
Proof.
  intros (H1 & H2 & H3 & H4 & H5 & H6). destruct s1, s2; cbn in *. constructor; cbn; auto; discriminate.
Qed.
Lemma prel_of_rel k b s1 s2 : rel k b s1 s2 -> prel k s1 s2.
Proof. intros []. repeat split; assumption. Qed.

Lemma next_norm data s : next lower data s = next lower data (next_init s).
Proof. unfold next. rewrite !bind_upd. destruct s; reflexivity. Qed.

Lemma sub_shift pre u post rs re : rs <= re -> re <= length u ->
  sub (pre ++ u ++ post) (rs + length pre) (re + length pre) = sub u rs re.
Proof.
  intros H1 H2. unfold sub. replace (re + length pre - (rs + length pre)) with (re - rs) by lia.
  replace (rs + length pre) with (length pre + rs) by lia. rewrite <- skipn_skipn'.
  rewrite skipn_app, skipn_all, Nat.sub_diag. cbn [skipn app].
  rewrite skipn_app. rewrite firstn_app. rewrite skipn_length.
  replace (re - rs - (length u - rs)) with 0 by lia. cbn [firstn]. apply app_nil_r.
Qed.

Lemma raw_no_panic data s : no_panic (snd (raw data s)) = true <-> (panic s = None /\ raw_start s <= raw_end s /\ raw_end s <= length data).
Proof.
  unfold raw. rewrite bind_get. unfold slice. cbn [snd]. unfold no_panic.
  destruct ((raw_start s <=? raw_end s) && (raw_end s <=? length data)) eqn:E.
  - apply andb_prop in E. destruct E as [E1 E2]. apply Nat.leb_le in E1. apply Nat.leb_le in E2.
    destruct (panic s); split; intros H; try discriminate; auto. destruct H; discriminate.
  - split.
    + intros H. exfalso. pose proof (set_panic_site_not_none 51%N s) as Hn. destruct (panic (set_panic_site 51%N s)); [discriminate|congruence].
    + intros (Hp & H1 & H2). exfalso. apply andb_false_iff in E. destruct E as [E|E]; [apply Nat.leb_gt in E|apply Nat.leb_gt in E]; lia.
Qed.

Lemma tag_name_keeps data s : panic (snd (tag_name lower data s)) = None ->
  err (snd (tag_name lower data s)) = err s /\ oof (snd (tag_name lower data s)) = oof s.
Proof.
  intros Hp. destruct (tag_name_state lower data s Hp) as [E|E]; rewrite E; [auto|destruct s; auto].
Qed.

Lemma read1_transport pre u post s si t si' :
  read1 u si = Some (t, si') -> prel (length pre) s si ->
  exists s', read1 (pre ++ u ++ post) s = Some (t, s') /\ prel (length pre) s' si'.
Proof.
  set (k := length pre). set (d := pre ++ u ++ post). intros Hr Hp.
  assert (Hk : k <= length d) by (unfold d, k; rewrite app_length; lia).
  assert (Hskip : skipn k d = u ++ post) by (unfold d, k; rewrite skipn_app, skipn_all, Nat.sub_diag; reflexivity).
  unfold read1 in Hr. unfold tk_next in *.
  destruct (next lower u si) as [[tk|] si1] eqn:En; [|discriminate].
  destruct (no_panic (snd (raw u si1))) eqn:Hnp; [|discriminate]. cbn [andb] in Hr.
  destruct (token_eqb tk ErrorToken || err si1) eqn:Eerr; [discriminate|]. cbn [andb negb] in Hr.
  destruct (oof si1) eqn:Eoof; [discriminate|]. cbn [negb] in Hr.
  apply orb_false_iff in Eerr. destruct Eerr as [Etk Eerr].
  apply raw_no_panic in Hnp. destruct Hnp as (Hpan & Hr1 & Hr2).
  (* next on the unit followed by anything = next on the unit (no EOF seen) *)
  assert (Estab : next lower (u ++ post) si = (ROk tk, si1)).
  { rewrite <- En. apply next_stable; rewrite En; assumption. }
  (* next inside the document *)
  assert (Eni : next lower (u ++ post) (next_init si) = (ROk tk, si1)) by (rewrite <- next_norm; exact Estab).
  destruct (next_shift lower d k (next_init s) (next_init si) Hk (rel_of_prel k s si Hp)) as [Hf Hrel].
  { rewrite Hskip, Eni. split; assumption. }
  rewrite Hskip, Eni in Hf, Hrel. cbn [fst snd is_rok] in Hf, Hrel. rewrite <- next_norm in Hf, Hrel.
  destruct (next lower d s) as [r1 s1] eqn:End. cbn [fst snd] in Hf, Hrel. subst r1.
  destruct Hrel as [Rrs Rre Rds Rde Rerr Rrt Rcd Rpan Roof Rtok].
  (* raw *)
  assert (Eraw : tk_raw d s1 = tk_raw u si1).
  { unfold tk_raw, raw. rewrite !bind_get. unfold slice. cbn [fst]. fold (sub d (raw_start s1) (raw_end s1)). fold (sub u (raw_start si1) (raw_end si1)).
    rewrite Rrs, Rre. apply sub_shift; assumption. }
  assert (Hnp1 : no_panic (snd (raw d s1)) = true).
  { apply raw_no_panic. split; [congruence|]. split; [lia|]. unfold d. rewrite !app_length. fold k. lia. }
  unfold read1, tk_next. rewrite End, Hnp1, Etk, Rerr, Eerr, Roof, Eoof. cbn [andb orb negb]. rewrite Eraw.
  destruct (as_string (tk_raw u si1)) as [r|]; [|discriminate].
  destruct (is_tag tk) eqn:Etag.
  - unfold tk_tag_name in *.
    destruct (tag_name lower u si1) as [[[name fl]|] si2] eqn:Etn; [|discriminate].
    destruct (no_panic si2) eqn:Hnp2; [|discriminate]. injection Hr as <- <-.
    assert (Hp2 : panic (snd (tag_name lower u si1)) = None) by (rewrite Etn; apply no_panic_true; exact Hnp2).
    destruct (tag_name_keeps u si1 Hp2) as [Ke Ko]. rewrite Etn in Ke, Ko. cbn [snd] in Ke, Ko.
    assert (Etn2 : tag_name lower (u ++ post) si1 = (ROk (name, fl), si2)).
    { rewrite <- Etn. apply (stable_tag_name lower). rewrite Etn. cbn [snd]. repeat split; [congruence|congruence|apply no_panic_true; exact Hnp2]. }
    destruct (tag_name_shift lower d k s1 si1 Hk) as [Hn Hrel2].
    { constructor; auto. }
    { rewrite Hskip, Etn2. cbn [snd]. split; [apply no_panic_true; exact Hnp2|congruence]. }
    rewrite Hskip, Etn2 in Hn, Hrel2. cbn [fst snd] in Hn, Hrel2.
    destruct (tag_name lower d s1) as [[[name1 fl1]|] s2]; cbn [name_rel fst snd] in Hn, Hrel2; [|contradiction]. subst name1.
    exists s2. assert (Hnp3 : no_panic s2 = true).
    { unfold no_panic. destruct Hrel2 as [_ _ _ _ _ _ _ Hpp _ _]. rewrite Hpp. apply no_panic_true in Hnp2. rewrite Hnp2. reflexivity. }
    rewrite Hnp3. split; [reflexivity|]. eapply prel_of_rel. exact Hrel2.
  - injection Hr as <- <-. exists s1. split; [reflexivity|]. repeat split; assumption.
Qed.

(* ------------------------------------------------------------------------------------------ units *)
(* between two tokens of ordinary content: nothing pending, no raw-text context *)
Definition neutral (p : nat) (s : st) : Prop :=
  raw_end s = p /\ err s = false /\ panic s = None /\ oof s = false /\ raw_tag s = [] /\ allow_cdata s = true.
Definition neutral_b (p : nat) (s : st) : bool :=
  (raw_end s =? p) && negb (err s) && no_panic s && negb (oof s) && is_nil (raw_tag s) && allow_cdata s.
Lemma neutral_b_true p s : neutral_b p s = true -> neutral p s.
Proof.
  unfold neutral_b, neutral. intros H. repeat (apply andb_prop in H; destruct H as [H ?]).
  apply Nat.eqb_eq in H. repeat split; auto.
  - destruct (err s); [discriminate|reflexivity].
  - apply no_panic_true. assumption.
  - destruct (oof s); [discriminate|reflexivity].
  - destruct (raw_tag s); [reflexivity|discriminate].
Qed.

Definition dtok_eqb (a b : dtok) : bool :=
  match a, b with
  | DStart n r, DStart n' r' | DEnd n r, DEnd n' r' | DSelf n r, DSelf n' r' => str_eqb n n' && str_eqb r r'
  | DOther r, DOther r' => str_eqb r r'
  | _, _ => false
  end.
Lemma dtok_eqb_eq a b : dtok_eqb a b = true -> a = b.
Proof.
  destruct a, b; cbn; try discriminate; intros H; try (apply andb_prop in H; destruct H as [H1 H2]; apply str_eqb_spec in H1; apply str_eqb_spec in H2; subst; reflexivity).
  apply str_eqb_spec in H. subst. reflexivity.
Qed.

(* the tokens [toks], read one after the other *)
Fixpoint readn (data : list N) (s : st) (toks : list dtok) : option st :=
  match toks with
  | [] => Some s
  | t :: r => match read1 data s with
              | Some (t', s') => if dtok_eqb t t' then readn data s' r else None
              | None => None
              end
  end.

Definition app_fst {A B} (l : list A) (o : option (list A * B)) : option (list A * B) :=
  match o with Some (l', b) => Some (l ++ l', b) | None => None end.

Lemma tokens_from_readn data : forall toks s s' f, readn data s toks = Some s' ->
  tokens_from lower (length toks + f) data s = app_fst toks (tokens_from lower f data s').
Proof.
  induction toks as [|t toks IH]; intros s s' f H; cbn [readn] in H.
  - injection H as <-. cbn. destruct (tokens_from lower f data s) as [[l b]|]; reflexivity.
  - destruct (read1 data s) as [[t' s1]|] eqn:E; [|discriminate]. destruct (dtok_eqb t t') eqn:Et; [|discriminate].
    apply dtok_eqb_eq in Et. subst t'. cbn [length Nat.add]. rewrite (tokens_from_read1 data s t s1 _ E), (IH s1 s' f H).
    destruct (tokens_from lower f data s') as [[l b]|]; reflexivity.
Qed.

Lemma readn_transport pre u post : forall toks s si si', readn u si toks = Some si' -> prel (length pre) s si ->
  exists s', readn (pre ++ u ++ post) s toks = Some s' /\ prel (length pre) s' si'.
Proof.
  induction toks as [|t toks IH]; intros s si si' H Hp; cbn [readn] in *.
  - injection H as <-. exists s. split; [reflexivity|exact Hp].
  - destruct (read1 u si) as [[t' si1]|] eqn:E; [|discriminate]. destruct (dtok_eqb t t') eqn:Et; [|discriminate].
    destruct (read1_transport pre u post s si t' si1 E Hp) as (s1 & E1 & Hp1). rewrite E1, Et. apply (IH s1 si1 si' H Hp1).
Qed.

Definition starter_head (u : str) : bool := match u with b0 :: c :: _ => N.eqb b0 LT && starter c | _ => false end.

(* THE CHECK IN ISOLATION: the bytes [u] alone, read from the initial state, give exactly the tokens [toks], end without
   having looked beyond [u] and leave no raw-text context; [u] starts like a tag or a comment *)
Definition iso_ok (u : str) (toks : list dtok) : bool :=
  starter_head u && (length toks <=? length u) &&
  match readn u st0 toks with Some s' => neutral_b (length u) s' | None => false end.

Lemma iso_unit pre u post toks s : iso_ok u toks = true -> neutral (length pre) s ->
  exists s', readn (pre ++ u ++ post) s toks = Some s' /\ neutral (length pre + length u) s'.
Proof.
  unfold iso_ok. intros H Hn. apply andb_prop in H. destruct H as [_ H].
  destruct (readn u st0 toks) as [si'|] eqn:E; [|discriminate]. apply neutral_b_true in H.
  destruct Hn as (N1 & N2 & N3 & N4 & N5 & N6).
  assert (Hp : prel (length pre) s st0) by (repeat split; cbn; auto).
  destruct (readn_transport pre u post toks s st0 si' E Hp) as (s' & Hr & (P1 & P2 & P3 & P4 & P5 & P6)).
  exists s'. split; [exact Hr|]. destruct H as (M1 & M2 & M3 & M4 & M5 & M6).
  repeat split; try congruence. lia.
Qed.

(* ------------------------------------------------------------------------------------------ the items of a document *)
Inductive item := IText (s : str) | IUnit (u : str) (toks : list dtok).
Definition item_bytes (it : item) : str := match it with IText s => s | IUnit u _ => u end.
Definition item_toks (it : item) : list dtok := match it with IText s => [DOther s] | IUnit _ toks => toks end.
Definition items_bytes (L : list item) : str := flat_map item_bytes L.
Definition items_toks (L : list item) : list dtok := flat_map item_toks L.

Definition text_ok (s : str) : bool := forallb (fun b => negb (N.eqb b LT)) s && utf8_valid s.
Definition item_ok (it : item) : bool := match it with IText s => text_ok s | IUnit u toks => iso_ok u toks end.

(* the tokens of a raw-text element read in isolation: for an EMPTY content (<script></script>, <title></title>) the
   tokenizer emits no text token between the start tag and the end tag; [Dom.doc_tokens] has [DOther []] there, which
   the token automaton does not see ([segs] appends its bytes, i.e. nothing: raw_toks_segs below) *)
Definition raw_toks (t s : str) : list dtok :=
  match s with
  | [] => [DStart (lower t) (open_tag t []); DEnd (lower t) (close_tag t)]
  | _ :: _ => [DStart (lower t) (open_tag t []); DOther s; DEnd (lower t) (close_tag t)]
  end.

Fixpoint node_items (n : node) : list item :=
  match n with
  | Elem t a ch => IUnit (open_tag t a) [DStart (lower t) (open_tag t a)] :: flat_map node_items ch
                   ++ [IUnit (close_tag t) [DEnd (lower t) (close_tag t)]]
  | Void t a => [IUnit (open_tag t a) [DStart (lower t) (open_tag t a)]]
  | SelfClosing t a => [IUnit (self_tag t a) [DSelf (lower t) (self_tag t a)]]
  | Text s => if contains_lt s then [IUnit s [DOther s]] else [IText s]
  | Comment s => [IUnit (comment_open ++ s ++ comment_close) [DOther (comment_open ++ s ++ comment_close)]]
  | Raw t s => [IUnit (open_tag t [] ++ s ++ close_tag t) (raw_toks t s)]
  end.
Definition doc_items (doc : list node) : list item := flat_map node_items doc.

Lemma node_items_bytes n : items_bytes (node_items n) = serialize n.
Proof.
  induction n as [t a ch IH|t a|t a|s|s|t s] using node_ind2; cbn [node_items serialize]; unfold items_bytes in *; cbn [flat_map item_bytes app];
    rewrite ?app_nil_r; try reflexivity.
  - rewrite flat_map_app. cbn [flat_map item_bytes]. rewrite app_nil_r. f_equal. f_equal.
    induction IH as [|x l Hx Hl IHl]; [reflexivity|]. cbn [flat_map]. rewrite flat_map_app, Hx, IHl. reflexivity.
  - destruct (contains_lt s); cbn [flat_map item_bytes]; apply app_nil_r.
Qed.
Lemma doc_items_bytes doc : items_bytes (doc_items doc) = ser_forest doc.
Proof.
  induction doc as [|n doc IH]; [reflexivity|]. unfold doc_items, items_bytes, ser_forest in *. cbn [flat_map].
  rewrite flat_map_app. fold (items_bytes (node_items n)). rewrite node_items_bytes, IH. reflexivity.
Qed.

(* ------------------------------------------------------------------------------------------ facts about the states after a text *)
Lemma text_state_neutral x s p : neutral p s -> neutral x (text_state x s).
Proof. intros (N1 & N2 & N3 & N4 & N5 & N6). unfold text_state, main_init, next_init. destruct s; cbn in *. repeat split; assumption. Qed.
Lemma text_state_span x s : raw_start (text_state x s) = raw_end s /\ raw_end (text_state x s) = x.
Proof. unfold text_state, main_init, next_init. destruct s; cbn. auto. Qed.
Lemma eof_state_fields x s :
  raw_start (eof_state x s) = raw_end s /\ raw_end (eof_state x s) = x /\ err (eof_state x s) = true /\ panic (eof_state x s) = panic s.
Proof. unfold eof_state, main_init, next_init. destruct s; cbn. auto. Qed.

Lemma text_ok_Forall tx : text_ok tx = true -> Forall (fun b => N.eqb b LT = false) tx /\ utf8_valid tx = true.
Proof.
  unfold text_ok. intros H. apply andb_prop in H. destruct H as [H1 H2]. split; [|exact H2].
  apply Forall_forall. intros b Hb. rewrite forallb_forall in H1. specialize (H1 b Hb). apply negb_true_iff in H1. exact H1.
Qed.
Lemma text_ok_app a b : text_ok a = true -> text_ok b = true -> text_ok (a ++ b) = true.
Proof.
  unfold text_ok. intros Ha Hb. apply andb_prop in Ha. apply andb_prop in Hb. destruct Ha as [A1 A2], Hb as [B1 B2].
  rewrite forallb_app, A1, B1. cbn [andb]. apply utf8_valid_app; assumption.
Qed.

Lemma sub_mid pre t rest : sub (pre ++ t ++ rest) (length pre) (length pre + length t) = t.
Proof.
  unfold sub. replace (length pre + length t - length pre) with (length t) by lia.
  rewrite skipn_app, skipn_all, Nat.sub_diag. cbn [skipn app]. rewrite firstn_app, Nat.sub_diag, firstn_all. cbn [firstn]. apply app_nil_r.
Qed.

(* a non-empty text in front of a unit is read as one text token *)
Lemma read1_text pre tx c rest s : tx <> [] -> text_ok tx = true -> starter c = true -> neutral (length pre) s ->
  read1 (pre ++ tx ++ LT :: c :: rest) s = Some (DOther tx, text_state (length pre + length tx) s).
Proof.
  intros Hne Hok Hc Hn. destruct (text_ok_Forall tx Hok) as [Hall Hv]. pose proof Hn as (N1 & N2 & N3 & N4 & N5 & N6).
  unfold read1, tk_next. rewrite (next_text_then_tag pre tx c rest s Hne Hall Hc N1 N2 N5).
  set (x := length pre + length tx). destruct (text_state_span x s) as [S1 S2].
  destruct (text_state_neutral x s _ Hn) as (M1 & M2 & M3 & M4 & M5 & M6).
  assert (Hnp : no_panic (snd (raw (pre ++ tx ++ LT :: c :: rest) (text_state x s))) = true).
  { apply raw_no_panic. split; [exact M3|]. rewrite S1, S2, N1. split; [unfold x; lia|]. unfold x. rewrite !app_length. cbn [length]. lia. }
  rewrite Hnp, M2, M4. cbn [token_eqb orb andb negb].
  assert (Eraw : tk_raw (pre ++ tx ++ LT :: c :: rest) (text_state x s) = tx).
  { rewrite tk_raw_sub, S1, S2, N1. apply sub_mid. }
  rewrite Eraw. rewrite (as_string_valid tx Hv). reflexivity.
Qed.

(* ------------------------------------------------------------------------------------------ composition *)
Fixpoint need (tx : str) (L : list item) : nat :=
  match L with
  | [] => 1
  | IText a :: L' => need (tx ++ a) L'
  | IUnit u toks :: L' => (if is_nil tx then 0 else 1) + length toks + need [] L'
  end.
(* the text pending when the data ends: what the filter holds back *)
Fixpoint final_tx (tx : str) (L : list item) : str :=
  match L with
  | [] => tx
  | IText a :: L' => final_tx (tx ++ a) L'
  | IUnit u toks :: L' => final_tx [] L'
  end.

Lemma segs_app_l l X Y : segs X = segs Y -> segs (l ++ X) = segs (l ++ Y).
Proof. intros E. induction l as [|t l IH]; [exact E|]. cbn [app]. destruct t; cbn [segs]; rewrite IH; reflexivity. Qed.
Lemma segs_other_nil Z : segs (DOther [] :: Z) = segs Z.
Proof. cbn [segs]. destruct (segs Z). reflexivity. Qed.
Lemma segs_other_app a b Z : segs (DOther (a ++ b) :: Z) = segs (DOther a :: DOther b :: Z).
Proof. cbn [segs]. destruct (segs Z). rewrite app_assoc. reflexivity. Qed.
Lemma segs_cons t X Y : segs X = segs Y -> segs (t :: X) = segs (t :: Y).
Proof. intros E. apply (segs_app_l [t]). exact E. Qed.

(* the tokens of the items are the token stream of the tree, up to the [DOther []] of the empty raw-text elements
   (invisible to [segs], hence to the token automaton: HtmlBridge.run_tokens_equiv) *)
Lemma raw_toks_segs t s Z :
  segs (raw_toks t s ++ Z) = segs ([DStart (lower t) (open_tag t []); DOther s; DEnd (lower t) (close_tag t)] ++ Z).
Proof.
  destruct s as [|c s']; [|reflexivity]. cbn [raw_toks app]. apply segs_cons. symmetry. apply segs_other_nil.
Qed.
Lemma items_toks_app L1 L2 : items_toks (L1 ++ L2) = items_toks L1 ++ items_toks L2.
Proof. apply flat_map_app. Qed.
Lemma node_items_toks n : forall Z, segs (items_toks (node_items n) ++ Z) = segs (doc_tokens lower n ++ Z).
Proof.
  induction n as [t a ch IH|t a|t a|s|s|t s] using node_ind2; intros Z; cbn [node_items doc_tokens].
  - change (IUnit (open_tag t a) [DStart (lower t) (open_tag t a)] :: flat_map node_items ch ++ [IUnit (close_tag t) [DEnd (lower t) (close_tag t)]])
      with ([IUnit (open_tag t a) [DStart (lower t) (open_tag t a)]] ++ flat_map node_items ch ++ [IUnit (close_tag t) [DEnd (lower t) (close_tag t)]]).
    rewrite !items_toks_app. unfold items_toks at 1 3. cbn [flat_map item_toks app]. apply segs_cons.
    rewrite <- !app_assoc. generalize ([DEnd (lower t) (close_tag t)] ++ Z) as W.
    induction IH as [|x l Hx Hl IHl]; intros W; [reflexivity|]. cbn [flat_map].
    rewrite items_toks_app, <- !app_assoc, Hx. apply segs_app_l. apply IHl.
  - reflexivity.
  - reflexivity.
  - destruct (contains_lt s); reflexivity.
  - reflexivity.
  - unfold items_toks. cbn [flat_map item_toks]. rewrite app_nil_r. apply raw_toks_segs.
Qed.
Lemma doc_items_toks doc : segs (items_toks (doc_items doc)) = segs (forest_tokens lower doc).
Proof.
  induction doc as [|n doc IH]; [reflexivity|]. unfold doc_items, forest_tokens in *. cbn [flat_map].
  rewrite items_toks_app, node_items_toks. apply segs_app_l. exact IH.
Qed.

Theorem compose : forall L pre tx s,
  forallb item_ok L = true -> text_ok tx = true -> neutral (length pre) s ->
  exists toks, (forall n, need tx L <= n -> tokens_from lower n (pre ++ tx ++ items_bytes L) s = Some (toks, final_tx tx L))
               /\ segs (toks ++ [DOther (final_tx tx L)]) = segs (DOther tx :: items_toks L).
Proof.
  induction L as [|it L IH]; intros pre tx s HL Htx Hn.
  - (* end of the data *)
    destruct (text_ok_Forall tx Htx) as [Hall Hv]. pose proof Hn as (N1 & N2 & N3 & N4 & N5 & N6).
    exists []. split; [|reflexivity]. intros n Hle. cbn [need] in Hle. destruct n as [|n]; [lia|].
    unfold items_bytes. cbn [flat_map final_tx]. rewrite app_nil_r. cbn [tokens_from]. unfold tk_next.
    rewrite (next_text_eof pre tx s Hall N1 N2 N5).
    destruct tx as [|b tx']; cbn [is_nil].
    + destruct (eof_state_fields (length pre) s) as (F1 & F2 & F3 & F4).
      set (S1 := set_token ErrorToken (eof_state (length pre) s)).
      assert (G1 : raw_start S1 = length pre) by (unfold S1; destruct (eof_state (length pre) s); cbn in *; congruence).
      assert (G2 : raw_end S1 = length pre) by (unfold S1; destruct (eof_state (length pre) s); cbn in *; congruence).
      assert (G3 : panic S1 = None) by (unfold S1; destruct (eof_state (length pre) s); cbn in *; congruence).
      assert (Hnp : no_panic (snd (raw (pre ++ []) S1)) = true).
      { apply raw_no_panic. rewrite G1, G2, app_length. cbn [length]. split; [exact G3|lia]. }
      rewrite Hnp. cbn [negb token_eqb orb]. rewrite tk_raw_sub, tk_buffered_skipn, G1, G2, sub_nil.
      rewrite skipn_app, skipn_all, Nat.sub_diag. reflexivity.
    + set (x := length pre + length (b :: tx')).
      destruct (eof_state_fields x s) as (F1 & F2 & F3 & F4).
      set (S1 := set_token TextToken (set_data_end x (eof_state x s))).
      assert (G1 : raw_start S1 = length pre) by (unfold S1; destruct (eof_state x s); cbn in *; congruence).
      assert (G2 : raw_end S1 = x) by (unfold S1; destruct (eof_state x s); cbn in *; congruence).
      assert (G3 : panic S1 = None) by (unfold S1; destruct (eof_state x s); cbn in *; congruence).
      assert (G4 : err S1 = true) by (unfold S1; destruct (eof_state x s); cbn in *; congruence).
      assert (Hnp : no_panic (snd (raw (pre ++ b :: tx') S1)) = true).
      { apply raw_no_panic. rewrite G1, G2, app_length. unfold x. split; [exact G3|lia]. }
      rewrite Hnp. cbn [negb token_eqb]. rewrite G4, orb_true_r. rewrite tk_raw_sub, tk_buffered_skipn, G1, G2.
      pose proof (sub_mid pre (b :: tx') []) as Hs. rewrite app_nil_r in Hs. unfold x. rewrite Hs.
      rewrite skipn_all2 by (rewrite app_length; lia). rewrite app_nil_r. reflexivity.
  - cbn [forallb] in HL. apply andb_prop in HL. destruct HL as [Hit HL]. destruct it as [a|u toks]; cbn [item_ok] in Hit.
    + (* a text: it joins the pending text *)
      destruct (IH pre (tx ++ a) s HL (text_ok_app _ _ Htx Hit) Hn) as (toks' & Hrun & Hsegs).
      exists toks'. cbn [need final_tx]. split.
      * intros n Hle. specialize (Hrun n Hle). unfold items_bytes in *. cbn [flat_map item_bytes]. rewrite <- app_assoc in Hrun. exact Hrun.
      * rewrite Hsegs. unfold items_toks. cbn [flat_map item_toks app]. apply segs_other_app.
    + (* a unit *)
      pose proof Hit as Hiso. unfold iso_ok in Hit. apply andb_prop in Hit. destruct Hit as [Hit _]. apply andb_prop in Hit. destruct Hit as [Hhead _].
      unfold items_bytes, items_toks. cbn [flat_map item_bytes item_toks need final_tx]. fold (items_bytes L). fold (items_toks L).
      destruct tx as [|b tx'].
      * cbn [is_nil app Nat.add].
        destruct (iso_unit pre u (items_bytes L) toks s Hiso Hn) as (s' & Hread & Hn').
        assert (Hlen : length (pre ++ u) = length pre + length u) by apply app_length. rewrite <- Hlen in Hn'.
        destruct (IH (pre ++ u) [] s' HL eq_refl Hn') as (toks' & Hrun & Hsegs). cbn [app] in Hrun.
        exists (toks ++ toks'). split.
        -- intros n Hle. replace n with (length toks + (n - length toks)) by lia.
           rewrite (tokens_from_readn _ toks s s' _ Hread). rewrite <- app_assoc in Hrun. rewrite Hrun by lia. reflexivity.
        -- rewrite <- app_assoc. rewrite segs_other_nil. apply segs_app_l. rewrite Hsegs. apply segs_other_nil.
      * cbn [is_nil].
        destruct u as [|b0 [|c u']]; try discriminate. cbn [starter_head] in Hhead. apply andb_prop in Hhead. destruct Hhead as [Hb0 Hc].
        apply N.eqb_eq in Hb0. subst b0.
        pose proof (read1_text pre (b :: tx') c (u' ++ items_bytes L) s ltac:(discriminate) Htx Hc Hn) as Hr1.
        set (x := length pre + length (b :: tx')) in *.
        assert (Hlen1 : length (pre ++ b :: tx') = x) by (unfold x; apply app_length).
        assert (Hn1 : neutral (length (pre ++ b :: tx')) (text_state x s)) by (rewrite Hlen1; exact (text_state_neutral x s _ Hn)).
        destruct (iso_unit (pre ++ b :: tx') (LT :: c :: u') (items_bytes L) toks _ Hiso Hn1) as (s' & Hread & Hn').
        assert (Hlen : length ((pre ++ b :: tx') ++ LT :: c :: u') = length (pre ++ b :: tx') + length (LT :: c :: u')) by apply app_length. rewrite <- Hlen in Hn'.
        destruct (IH ((pre ++ b :: tx') ++ LT :: c :: u') [] s' HL eq_refl Hn') as (toks' & Hrun & Hsegs). cbn [app] in Hrun.
        exists (DOther (b :: tx') :: toks ++ toks'). split.
        -- intros n Hle. destruct n as [|n]; [lia|].
           assert (Ed : pre ++ (b :: tx') ++ (LT :: c :: u') ++ items_bytes L = pre ++ (b :: tx') ++ LT :: c :: u' ++ items_bytes L) by reflexivity.
           rewrite Ed, (tokens_from_read1 _ s _ _ n Hr1).
           replace n with (length toks + (n - length toks)) by lia.
           assert (Ed2 : pre ++ (b :: tx') ++ LT :: c :: u' ++ items_bytes L = (pre ++ b :: tx') ++ (LT :: c :: u') ++ items_bytes L) by (rewrite <- app_assoc; reflexivity).
           rewrite Ed2, (tokens_from_readn _ toks _ s' _ Hread).
           assert (Ed3 : (pre ++ b :: tx') ++ (LT :: c :: u') ++ items_bytes L = ((pre ++ b :: tx') ++ LT :: c :: u') ++ items_bytes L) by (rewrite <- !app_assoc; reflexivity).
           rewrite Ed3, Hrun by (cbn [length] in *; lia). reflexivity.
        -- cbn [app]. apply segs_cons. rewrite <- app_assoc. apply segs_app_l. rewrite Hsegs. apply segs_other_nil.
Qed.

(* ------------------------------------------------------------------------------------------ the hypotheses of HtmlBridge, discharged *)
Lemma need_bound : forall L tx, forallb item_ok L = true -> need tx L <= 1 + length tx + length (items_bytes L).
Proof.
  induction L as [|it L IH]; intros tx HL; cbn [need]; [lia|].
  cbn [forallb] in HL. apply andb_prop in HL. destruct HL as [Hit HL]. unfold items_bytes in *. cbn [flat_map]. rewrite app_length.
  destruct it as [a|u toks]; cbn [item_bytes].
  - specialize (IH (tx ++ a) HL). rewrite app_length in IH. lia.
  - specialize (IH [] HL). cbn [length] in IH. cbn [item_ok] in Hit. unfold iso_ok in Hit.
    apply andb_prop in Hit. destruct Hit as [Hit _]. apply andb_prop in Hit. destruct Hit as [_ Hle]. apply Nat.leb_le in Hle.
    destruct tx; cbn [is_nil length]; lia.
Qed.

(* every tag / comment / raw-text element passes the check in isolation and the texts contain no '<' *)
Definition doc_ok (doc : list node) : bool := forallb item_ok (doc_items doc).

Lemma st0_neutral : neutral 0 (new_fragment lower []).
Proof. cbn. repeat split. Qed.

Lemma tokenize_units doc : doc_ok doc = true ->
  exists toks, tokenize lower (ser_forest doc) = Some (toks, final_tx [] (doc_items doc)) /\
    segs (toks ++ [DOther (final_tx [] (doc_items doc))]) = segs (forest_tokens lower doc).
Proof.
  intros Hok. destruct (compose (doc_items doc) [] [] (new_fragment lower []) Hok eq_refl st0_neutral) as (toks & Hrun & Hsegs).
  exists toks. cbn [app] in Hrun. rewrite doc_items_bytes in Hrun. split.
  - unfold tokenize. apply Hrun. pose proof (need_bound (doc_items doc) [] Hok) as Hb. rewrite doc_items_bytes in Hb. cbn [length] in Hb. lia.
  - rewrite Hsegs, segs_other_nil. apply doc_items_toks.
Qed.

Theorem tokenizes_as_units doc : doc_ok doc = true -> tokenizes_as lower doc.
Proof. intros Hok. destruct (tokenize_units doc Hok) as (toks & H1 & H2). exists toks, (final_tx [] (doc_items doc)). split; assumption. Qed.

Lemma final_tx_unit_last L u toks : forall tx, final_tx tx (L ++ [IUnit u toks]) = [].
Proof. induction L as [|it L IH]; intros tx; cbn [app final_tx]; [reflexivity|]. destruct it; apply IH. Qed.

Lemma segs_app_other_nil l : segs (l ++ [DOther []]) = segs l.
Proof. induction l as [|t l IH]; [reflexivity|]. cbn [app]. destruct t; cbn [segs]; rewrite IH; reflexivity. Qed.

Theorem tokenizes_strict_elem t a ch : doc_ok [Elem t a ch] = true -> tokenizes_strict lower [Elem t a ch].
Proof.
  intros Hok. destruct (tokenize_units _ Hok) as (toks & H1 & H2).
  assert (E : final_tx [] (doc_items [Elem t a ch]) = []).
  { unfold doc_items. cbn [flat_map node_items]. rewrite app_nil_r. cbn [final_tx]. apply final_tx_unit_last. }
  rewrite E in *. exists toks. split; [exact H1|]. rewrite <- H2. symmetry. apply segs_app_other_nil.
Qed.

(* doc_ok of the parts *)
Lemma doc_ok_app l1 l2 : doc_ok (l1 ++ l2) = doc_ok l1 && doc_ok l2.
Proof. unfold doc_ok, doc_items. rewrite flat_map_app, forallb_app. reflexivity. Qed.
Lemma doc_ok_cons n l : doc_ok (n :: l) = doc_ok [n] && doc_ok l.
Proof. apply (doc_ok_app [n] l). Qed.
Lemma doc_ok_children t a ch : doc_ok [Elem t a ch] = true -> doc_ok ch = true.
Proof.
  unfold doc_ok, doc_items. cbn [flat_map node_items]. rewrite app_nil_r. cbn [forallb]. rewrite forallb_app.
  intros H. apply andb_prop in H. destruct H as [_ H]. apply andb_prop in H. destruct H as [H _]. exact H.
Qed.

(* the domain of C15 with a decidable side condition only: the target of append/prepend with a selector is balanced *)
Definition balanced_cond (act : action) (sel : option str) (n : node) : Prop :=
  hs sel = true -> act <> AReplace -> balanced lower n = true.
Definition in_domain_units (act : action) (path : list str) (sel : option str) (doc : list node) : Prop :=
  spine lower act path (balanced_cond act sel) path doc.

Lemma spine_units act path sel : forall suffix forest,
  spine lower act path (balanced_cond act sel) suffix forest -> doc_ok forest = true ->
  spine lower act path (target_cond lower act sel) suffix forest.
Proof.
  induction suffix as [|p rest IH]; intros forest H Hok; [exact H|]. cbn [spine] in *.
  destruct rest as [|q rest'].
  - destruct act; [| |exact H]; destruct H as (pre & t & a & ch & post & H1 & H2 & H3 & H4 & H5);
      exists pre, t, a, ch, post; (split; [exact H1|]); (split; [exact H2|]); (split; [exact H3|]); (split; [exact H4|]);
      intros Hhs Hne; (split; [exact (H5 Hhs Hne)|]); apply tokenizes_strict_elem;
      subst forest; rewrite doc_ok_app, doc_ok_cons in Hok; apply andb_prop in Hok; destruct Hok as [_ Hok];
      apply andb_prop in Hok; destruct Hok as [Hok _]; exact Hok.
  - destruct H as (pre & t & a & ch & post & H1 & H2 & H3 & H4 & H5 & H6).
    exists pre, t, a, ch, post. (split; [exact H1|]); (split; [exact H2|]); (split; [exact H3|]); (split; [exact H4|]); (split; [exact H5|]).
    apply IH; [exact H6|]. subst forest. rewrite doc_ok_app, doc_ok_cons in Hok. apply andb_prop in Hok. destruct Hok as [_ Hok].
    apply andb_prop in Hok. destruct Hok as [Hok _]. apply (doc_ok_children t a ch Hok).
Qed.
End Compose.

(* a hereditary boolean property of the nodes of the document holds of the target *)
Lemma spine_hered lower act path (P : node -> Prop) (q : node -> bool) :
  (forall t a ch, q (Elem t a ch) = true -> forallb q ch = true) ->
  forall suffix forest, spine lower act path P suffix forest -> forallb q forest = true ->
  spine lower act path (fun n => P n /\ q n = true) suffix forest.
Proof.
  intros Hq. induction suffix as [|p rest IH]; intros forest H Hok; [exact H|]. cbn [spine] in *.
  destruct rest as [|q0 rest'].
  - destruct act; [| |exact H]; destruct H as (pre & t & a & ch & post & H1 & H2 & H3 & H4 & H5);
      exists pre, t, a, ch, post; (split; [exact H1|]); (split; [exact H2|]); (split; [exact H3|]); (split; [exact H4|]);
      (split; [exact H5|]); subst forest; rewrite forallb_app in Hok; apply andb_prop in Hok; destruct Hok as [_ Hok];
      cbn [forallb] in Hok; apply andb_prop in Hok; destruct Hok as [Hok _]; exact Hok.
  - destruct H as (pre & t & a & ch & post & H1 & H2 & H3 & H4 & H5 & H6).
    exists pre, t, a, ch, post. (split; [exact H1|]); (split; [exact H2|]); (split; [exact H3|]); (split; [exact H4|]); (split; [exact H5|]).
    apply IH; [exact H6|]. subst forest. rewrite forallb_app in Hok. apply andb_prop in Hok. destruct Hok as [_ Hok].
    cbn [forallb] in Hok. apply andb_prop in Hok. destruct Hok as [Hok _]. apply (Hq t a ch Hok).
Qed.

(* ========================================================================================== C15 on bytes, one filter *)
(* THEOREM: no hypothesis about the tokenizer is left; [doc_ok] is an executable check made token by token, each
   token in isolation *)
Theorem C15_byte_level lower sel_eval act path sel value doc :
  in_domain_units lower act path sel doc -> doc_ok lower doc = true ->
  body_run lower sel_eval true [mk_filter act path sel value] [ser_forest doc]
  = ser_forest (ref_edit lower act value (css sel_eval sel) path doc).
Proof.
  intros Hdom Hok. apply C15_byte_level_partial.
  - unfold in_domain_bytes. apply spine_units; assumption.
  - apply tokenizes_as_units. exact Hok.
Qed.

(* ========================================================================================== several filters *)
(* every filter finds the document left by the previous ones in its domain, and that document passes the
   token-by-token check *)
Fixpoint list_ok_units (lower : str -> str) (sel_eval : str -> str -> bool) (fs : list hfilter) (doc : list node) : Prop :=
  match fs with
  | [] => True
  | f :: fs' =>
      in_domain_units lower (hf_act f) (hf_path f) (hf_sel f) doc /\ doc_ok lower doc = true /\
      ser_forest doc <> [] /\ ser_forest (ref_edit1 lower (to_ref sel_eval f) doc) <> [] /\
      list_ok_units lower sel_eval fs' (ref_edit1 lower (to_ref sel_eval f) doc)
  end.

Lemma list_ok_of_units lower sel_eval : forall fs doc, list_ok_units lower sel_eval fs doc -> list_ok lower sel_eval fs doc.
Proof.
  induction fs as [|f fs IH]; intros doc H; [exact I|]. cbn [list_ok_units list_ok] in *.
  destruct H as (H1 & H2 & H3 & H4 & H5). split; [unfold in_domain_bytes; apply spine_units; assumption|].
  split; [apply tokenizes_as_units; exact H2|]. split; [exact H3|]. split; [exact H4|]. apply IH. exact H5.
Qed.

(* PARTIAL only in the two-piece law of the HTML stage (C03), a hypothesis for the stages after the first *)
Theorem C15_list lower sel_eval fs doc :
  list_ok_units lower sel_eval fs doc ->
  (forall f, In f (tl fs) -> two_piece_law lower sel_eval (hfb_new (mkvis (hf_act f) (hf_path f) (hf_sel f) (hf_val f)))) ->
  body_run lower sel_eval true (map to_body fs) [ser_forest doc]
  = ser_forest (ref_edit_list lower (map (to_ref sel_eval) fs) doc).
Proof. intros Hok Hlaw. apply C15_list_partial; [apply list_ok_of_units; exact Hok|exact Hlaw]. Qed.
