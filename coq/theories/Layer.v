(* Layer.v — the bucket pattern shared by SchemeMatcher, IpMatcher, MethodMatcher, HeaderMatcher and
   DateTimeMatcher (src/router/request_matcher/*.rs): a default sub-matcher, a map key -> sub-matcher,
   a count; insert routes a rule into the bucket(s) its trigger denotes, match unions the selected
   buckets, remove/batch_remove prune on count == 0.  One generic transliteration, instantiated five
   times in RIO.Matchers.  HashMap/BTreeMap are insertion-ordered association lists (iteration order is
   not observable in results: everything downstream is stated up to permutation). *)
Require Import RIO.Base RIO.Route.

(* explain traces: only what Trace::get_routes_from_traces reads *)
Inductive trace :=
| Trc (matched executed : bool) (count : nat) (storage : list route) (children : list trace).

Fixpoint trace_routes (t : trace) : list route :=
  match t with Trc _ _ _ st ch => st ++ flat_map trace_routes ch end.
Definition traces_routes (ts : list trace) : list route := flat_map trace_routes ts.

(* the operations every matcher offers *)
Record mops (M : Type) := {
  m_new : M;
  m_insert : route -> M -> M;
  m_remove : str -> M -> M * option route;
  m_batch_remove : list str -> M -> M;
  m_match : request -> M -> list route;
  m_trace : request -> M -> list trace;
  m_cache : N -> nat -> M -> M * N;
  m_len : M -> nat;
}.
Arguments m_new {M}. Arguments m_insert {M}. Arguments m_remove {M}. Arguments m_batch_remove {M}.
Arguments m_match {M}. Arguments m_trace {M}. Arguments m_cache {M}. Arguments m_len {M}.
Definition m_is_empty {M} (ops : mops M) (m : M) : bool := Nat.eqb (m_len ops m) 0.

(* keep the first occurrence of every id (the HashSet<String> of route ids in IpMatcher::match_request) *)
Fixpoint dedupe_ids_acc (seen : list str) (l : list route) : list route :=
  match l with
  | [] => []
  | r :: l' => if mem_str (rt_id r) seen then dedupe_ids_acc seen l' else r :: dedupe_ids_acc (rt_id r :: seen) l'
  end.
Definition dedupe_ids (l : list route) : list route := dedupe_ids_acc [] l.

Section Layer.
Variables (K Sub : Type).
Variable key_eqb : K -> K -> bool.
Variable sub : mops Sub.
Variable keys_of : route -> list K.                 (* [] = the default bucket (any_scheme, no_matcher, any_method, ...) *)
Variable Memo : Type.
Variable memo0 : Memo.
Variable sel : request -> Memo -> K -> bool * Memo.      (* is this bucket consulted? (match_request) *)
Variable sel_t : request -> Memo -> K -> bool * Memo.    (* the same decision as taken by trace() *)
Variable dedupe : bool.

Record layer := { l_default : Sub; l_buckets : list (K * Sub); l_count : nat }.

Definition l_new : layer := {| l_default := m_new sub; l_buckets := []; l_count := 0 |}.

(* entry(key).or_insert_with(new).insert(route) *)
Fixpoint bucket_insert (k : K) (r : route) (bs : list (K * Sub)) : list (K * Sub) :=
  match bs with
  | [] => [(k, m_insert sub r (m_new sub))]
  | (k', m) :: bs' => if key_eqb k k' then (k', m_insert sub r m) :: bs' else (k', m) :: bucket_insert k r bs'
  end.

Definition l_insert (r : route) (L : layer) : layer :=
  match keys_of r with
  | [] => {| l_default := m_insert sub r (l_default L); l_buckets := l_buckets L; l_count := S (l_count L) |}
  | ks => {| l_default := l_default L; l_buckets := fold_left (fun bs k => bucket_insert k r bs) ks (l_buckets L); l_count := S (l_count L) |}
  end.

(* map.retain(|_, m| { if let Some(v) = m.remove(id) { removed = Some(v) } !m.is_empty() }) *)
Fixpoint buckets_remove (id : str) (bs : list (K * Sub)) : list (K * Sub) * option route :=
  match bs with
  | [] => ([], None)
  | (k, m) :: bs' =>
      let '(m', r) := m_remove sub id m in
      let '(bs'', r') := buckets_remove id bs' in
      (if m_is_empty sub m' then bs'' else (k, m') :: bs'', match r' with Some v => Some v | None => r end)
  end.

Definition l_remove (id : str) (L : layer) : layer * option route :=
  let '(d', r) := m_remove sub id (l_default L) in
  match r with
  | Some v => ({| l_default := d'; l_buckets := l_buckets L; l_count := pred (l_count L) |}, Some v)
  | None =>
      let '(bs', r') := buckets_remove id (l_buckets L) in
      ({| l_default := d'; l_buckets := bs'; l_count := match r' with Some _ => pred (l_count L) | None => l_count L end |}, r')
  end.

(* batch_remove never touches count; pruning tests count == 0 *)
Definition l_batch_remove (ids : list str) (L : layer) : layer :=
  {| l_default := m_batch_remove sub ids (l_default L);
     l_buckets := flat_map (fun km => let m' := m_batch_remove sub ids (snd km) in
                                      if m_is_empty sub m' then [] else [(fst km, m')]) (l_buckets L);
     l_count := l_count L |}.

Fixpoint buckets_match (q : request) (memo : Memo) (bs : list (K * Sub)) : list route :=
  match bs with
  | [] => []
  | (k, m) :: bs' => let '(b, memo') := sel q memo k in
                     (if b then m_match sub q m else []) ++ buckets_match q memo' bs'
  end.

Definition l_match (q : request) (L : layer) : list route :=
  m_match sub q (l_default L)
  ++ (if dedupe then dedupe_ids (buckets_match q memo0 (l_buckets L)) else buckets_match q memo0 (l_buckets L)).

Fixpoint buckets_trace (q : request) (memo : Memo) (bs : list (K * Sub)) : list trace :=
  match bs with
  | [] => []
  | (k, m) :: bs' => let '(b, memo') := sel_t q memo k in
                     Trc b b (m_len sub m) [] (if b then m_trace sub q m else []) :: buckets_trace q memo' bs'
  end.
Definition l_trace (q : request) (L : layer) : list trace :=
  m_trace sub q (l_default L) ++ buckets_trace q memo0 (l_buckets L).

Fixpoint buckets_cache (limit : N) (level : nat) (bs : list (K * Sub)) : list (K * Sub) * N :=
  match bs with
  | [] => ([], limit)
  | (k, m) :: bs' => let '(m', l1) := m_cache sub limit level m in
                     let '(bs'', l2) := buckets_cache l1 level bs' in ((k, m') :: bs'', l2)
  end.
Definition l_cache (limit : N) (level : nat) (L : layer) : layer * N :=
  let '(d', l1) := m_cache sub limit level (l_default L) in
  let '(bs', l2) := buckets_cache l1 level (l_buckets L) in
  ({| l_default := d'; l_buckets := bs'; l_count := l_count L |}, l2).

Definition layer_ops : mops layer :=
  {| m_new := l_new; m_insert := l_insert; m_remove := l_remove; m_batch_remove := l_batch_remove;
     m_match := l_match; m_trace := l_trace; m_cache := l_cache; m_len := l_count |}.
End Layer.

Arguments l_default {K Sub}. Arguments l_buckets {K Sub}. Arguments l_count {K Sub}.
