(* RxPathProofs.v — MECHANICAL COPY of RIO.PathProofs for the strengthened pattern shapes of RIO.RxLaws:
   shape_c -> shape_x, tpre_c -> tpre_x, engine_prefix_law -> engine_prefix_law_x, the prefix.rs structure
   lemmas *_c -> *_x (RIO.RxTreeInst).  No proof script was changed.  Original header follows. *)
(* RxPathProofs.v — PathAndQueryMatcher (static map + regex tree) implements a flat list of routes
   for the path trigger. *)
Require Import RIO.Base RIO.Prefix RIO.Route RIO.Layer RIO.Tree RIO.TreeProofs RIO.TreeInst RIO.RxLaws RIO.RxTreeInst RIO.RxTreeC RIO.Matchers RIO.MatcherSpec.
Close Scope N_scope.
Open Scope nat_scope.

Section RxPathProofs.
Variable eng : bool -> pat -> list N -> bool.
Variable valid : bool -> pat -> bool.
Variable ic_path : bool.
Hypothesis Hd : engine_dotstar eng.
Hypothesis Hp : engine_prefix_law_x eng.

Notation ops := (path_ops eng valid ic_path).

Definition ok_path (r : route) : Prop :=
  match rt_path r with SDynamic re => shape_x re /\ re <> [] | SStatic _ => True end.
Definition sat_path (r : route) (q : request) : bool :=
  match rt_path r with
  | SStatic p => str_eqb p (q_path q)
  | SDynamic re => ML eng ic_path re (q_path q)
  end.

Definition dyn_entry (r : route) : list (pat * (ident * route)) :=
  match rt_path r with SDynamic re => [(re, (rt_id r, r))] | SStatic _ => [] end.
Definition st_entry (r : route) : list (str * (str * route)) :=
  match rt_path r with SStatic p => [(p, (rt_id r, r))] | SDynamic _ => [] end.
Definition st_flat (st : list (str * list (str * route))) : list (str * (str * route)) :=
  flat_map (fun pm => map (fun e => (fst pm, e)) (snd pm)) st.

Definition prepr (P : pathm) (L : list route) : Prop :=
  inv_c route ic_path (p_tree P)
  /\ Permutation (entries route (p_tree P)) (flat_map dyn_entry L)
  /\ Permutation (st_flat (p_static P)) (flat_map st_entry L)
  /\ NoDup (map fst (p_static P))
  /\ length L <= p_count P.

(* ---- small facts ---- *)
Lemma perm_flat_map {A B} (f : A -> list B) l l' : Permutation l l' -> Permutation (flat_map f l) (flat_map f l').
Proof. apply Permutation_flat_map. Qed.

Lemma prepr_perm P L L' : prepr P L -> Permutation L L' -> prepr P L'.
Proof.
  intros (Hi & Ht & Hs & Hn & Hl) Hp'. repeat split; try assumption.
  - eapply Permutation_trans; [exact Ht|apply perm_flat_map; exact Hp'].
  - eapply Permutation_trans; [exact Hs|apply perm_flat_map; exact Hp'].
  - rewrite <- (Permutation_length Hp'). exact Hl.
Qed.

Lemma prepr_new : prepr (p_new ic_path) [].
Proof. unfold prepr, p_new. cbn. repeat split; try constructor; reflexivity. Qed.

Lemma dyn_ids L : map (id_of route) (flat_map dyn_entry L) = map rt_id (filter (fun r => match rt_path r with SDynamic _ => true | _ => false end) L).
Proof. induction L as [|r L IH]; cbn; [reflexivity|]. unfold dyn_entry at 1. destruct (rt_path r); cbn; rewrite IH; reflexivity. Qed.

Lemma in_dyn_ids k L : In k (map (id_of route) (flat_map dyn_entry L)) -> In k (ids L).
Proof. rewrite dyn_ids. unfold ids. intros H. apply in_map_iff in H. destruct H as (r & <- & Hr). apply filter_In in Hr. apply in_map. tauto. Qed.

Lemma st_ids L e : In e (flat_map st_entry L) -> In (fst (snd e)) (ids L) /\ rt_id (snd (snd e)) = fst (snd e) /\ rt_path (snd (snd e)) = SStatic (fst e) /\ In (snd (snd e)) L.
Proof.
  intros H. apply in_flat_map in H. destruct H as (r & Hr & He). unfold st_entry in He. destruct (rt_path r) eqn:E; [|destruct He].
  destruct He as [<-|[]]. cbn. repeat split; auto. apply in_map. exact Hr.
Qed.

(* ---- insert ---- *)
Lemma idmap_set_fresh id r (m : list (str * route)) : ~ In id (map fst m) -> idmap_set id r m = m ++ [(id, r)].
Proof.
  induction m as [|[id' r'] m IH]; cbn; intros H; [reflexivity|].
  destruct (str_eqb id id') eqn:E; [apply str_eqb_spec in E; subst; tauto|]. rewrite IH by tauto. reflexivity.
Qed.

Lemma static_insert_flat path r st : NoDup (map fst st) ->
  (forall e, In e (st_flat st) -> fst (snd e) <> rt_id r) ->
  Permutation (st_flat (static_insert path r st)) ((path, (rt_id r, r)) :: st_flat st)
  /\ NoDup (map fst (static_insert path r st)).
Proof.
  induction st as [|[p m] st IH]; cbn; intros Hn Hf.
  - split; [apply Permutation_refl|repeat constructor; auto].
  - inversion Hn; subst. destruct (str_eqb path p) eqn:E.
    + apply str_eqb_spec in E. subst p. cbn. rewrite idmap_set_fresh.
      * split; [|constructor; assumption]. rewrite map_app. cbn.
        rewrite <- app_assoc. cbn. apply Permutation_sym. apply Permutation_middle.
      * intros Hin. apply in_map_iff in Hin. destruct Hin as ([i x] & Hi & Hin). cbn in Hi. subst i.
        apply (Hf (path, (rt_id r, x))); [|reflexivity]. unfold st_flat. cbn. apply in_or_app. left. apply in_map_iff. exists (rt_id r, x). auto.
    + destruct IH as [IH1 IH2]; [assumption| |].
      * intros e He. apply Hf. unfold st_flat. cbn. apply in_or_app. right. exact He.
      * cbn. split.
        -- unfold st_flat in *. cbn. eapply Permutation_trans; [apply Permutation_app_head; exact IH1|]. apply Permutation_sym, Permutation_middle.
        -- constructor; [|exact IH2]. intros Hin.
           assert (Hk : forall st0, In p (map fst (static_insert path r st0)) -> p = path \/ In p (map fst st0)).
           { induction st0 as [|[p0 m0] st0 IH0]; cbn; [intros [H|[]]; auto|]. destruct (str_eqb path p0); cbn; [tauto|]. intros [H|H]; [auto|]. destruct (IH0 H); auto. }
           destruct (Hk st Hin) as [->|H]; [rewrite str_eqb_refl in E; discriminate|contradiction].
Qed.

Lemma prepr_insert P L r : prepr P L -> NoDup (ids L) -> ~ In (rt_id r) (ids L) -> ok_path r -> prepr (p_insert r P) (r :: L).
Proof.
  intros (Hi & Ht & Hs & Hn & Hl) Hnd Hfresh Hok. unfold p_insert, ok_path in *. destruct (rt_path r) as [path|re] eqn:Er.
  - destruct (static_insert_flat path r (p_static P) Hn) as [H1 H2].
    { intros e He Heq. apply Hfresh. rewrite <- Heq. apply (st_ids L e). eapply Permutation_in; [exact Hs|exact He]. }
    unfold prepr. cbn [p_tree p_static p_count flat_map]. unfold dyn_entry at 1, st_entry at 1. rewrite Er. cbn [app].
    repeat split; try assumption.
    + eapply Permutation_trans; [exact H1|]. constructor. exact Hs.
    + cbn. lia.
  - destruct Hok as [Hsh Hne]. unfold prepr. cbn [p_tree p_static p_count flat_map]. unfold dyn_entry at 1, st_entry at 1. rewrite Er. cbn [app].
    repeat split; try assumption.
    + apply insert_inv_c; assumption.
    + eapply Permutation_trans; [apply insert_entries_fresh_c|constructor; exact Ht].
      intros Hin. apply Hfresh. apply in_dyn_ids. eapply Permutation_in; [apply Permutation_map; exact Ht|exact Hin].
    + cbn. lia.
Qed.

(* ---- remove ---- *)
Definition eid (e : str * (str * route)) : str := fst (snd e).

(* filtering routes by a predicate on the id commutes with the entry views *)
Lemma flat_map_filter_id {B} (f : route -> list B) (key : B -> str) (P : str -> bool) L :
  (forall r e, In e (f r) -> key e = rt_id r) ->
  flat_map f (filter (fun r => P (rt_id r)) L) = filter (fun e => P (key e)) (flat_map f L).
Proof.
  intros Hk. induction L as [|r L IH]; cbn; [reflexivity|]. rewrite filter_app, <- IH.
  assert (Hf : filter (fun e => P (key e)) (f r) = if P (rt_id r) then f r else []).
  { specialize (Hk r). induction (f r) as [|e l IHl]; cbn; [destruct (P (rt_id r)); reflexivity|].
    rewrite (Hk e (or_introl eq_refl)). rewrite IHl by (intros; apply Hk; right; assumption).
    destruct (P (rt_id r)); reflexivity. }
  rewrite Hf. destruct (P (rt_id r)); reflexivity.
Qed.
Lemma dyn_key r e : In e (dyn_entry r) -> id_of route e = rt_id r.
Proof. unfold dyn_entry. destruct (rt_path r); [intros []|intros [<-|[]]; reflexivity]. Qed.
Lemma st_key r e : In e (st_entry r) -> eid e = rt_id r.
Proof. unfold st_entry. destruct (rt_path r); [intros [<-|[]]; reflexivity|intros []]. Qed.

Lemma dyn_without id L : flat_map dyn_entry (without_id id L) = filter (fun e => negb (id_eqb (id_of route e) id)) (flat_map dyn_entry L).
Proof. unfold without_id, id_eqb. apply (flat_map_filter_id dyn_entry (id_of route) (fun x => negb (str_eqb x id))). exact dyn_key. Qed.
Lemma st_without id L : flat_map st_entry (without_id id L) = filter (fun e => negb (str_eqb (eid e) id)) (flat_map st_entry L).
Proof. unfold without_id. apply (flat_map_filter_id st_entry eid (fun x => negb (str_eqb x id))). exact st_key. Qed.
Lemma dyn_withouts xs L : flat_map dyn_entry (without_ids xs L) = filter (fun e => negb (mem_str (id_of route e) xs)) (flat_map dyn_entry L).
Proof. unfold without_ids. apply (flat_map_filter_id dyn_entry (id_of route) (fun x => negb (mem_str x xs))). exact dyn_key. Qed.
Lemma st_withouts xs L : flat_map st_entry (without_ids xs L) = filter (fun e => negb (mem_str (eid e) xs)) (flat_map st_entry L).
Proof. unfold without_ids. apply (flat_map_filter_id st_entry eid (fun x => negb (mem_str x xs))). exact st_key. Qed.

Lemma find_id_some id L r : NoDup (ids L) -> In r L -> rt_id r = id -> find_id id L = Some r.
Proof.
  unfold find_id, ids. induction L as [|x L IH]; cbn; intros Hn Hin Hid; [destruct Hin|]. inversion Hn; subst.
  destruct Hin as [->|Hin].
  - rewrite str_eqb_refl. reflexivity.
  - destruct (str_eqb (rt_id x) (rt_id r)) eqn:E; [|apply IH; auto].
    apply str_eqb_spec in E. exfalso. apply H1. rewrite E. apply in_map. exact Hin.
Qed.
Lemma find_id_none id L : ~ In id (ids L) -> find_id id L = None.
Proof.
  unfold find_id, ids. induction L as [|x L IH]; cbn; intros H; [reflexivity|].
  destruct (str_eqb (rt_id x) id) eqn:E; [apply str_eqb_spec in E; tauto|]. apply IH. tauto.
Qed.

Lemma length_without_id id L r : NoDup (ids L) -> In r L -> rt_id r = id -> S (length (without_id id L)) = length L.
Proof.
  unfold without_id, ids. induction L as [|x L IH]; cbn; intros Hn Hin Hid; [destruct Hin|]. inversion Hn; subst.
  destruct Hin as [->|Hin].
  - rewrite str_eqb_refl. cbn. f_equal.
    assert (Hid : forall l, ~ In (rt_id r) (map rt_id l) -> filter (fun r0 => negb (str_eqb (rt_id r0) (rt_id r))) l = l).
    { induction l as [|y l IHl]; cbn; intros Hn'; [reflexivity|]. destruct (str_eqb (rt_id y) (rt_id r)) eqn:E; [apply str_eqb_spec in E; tauto|]. cbn. f_equal. apply IHl. tauto. }
    rewrite Hid by assumption. reflexivity.
  - destruct (str_eqb (rt_id x) (rt_id r)) eqn:E.
    + apply str_eqb_spec in E. exfalso. apply H1. rewrite E. apply in_map. exact Hin.
    + cbn. f_equal. apply IH; auto.
Qed.
Lemma length_filter_le {A} (f : A -> bool) l : length (filter f l) <= length l.
Proof. induction l as [|x l IH]; cbn; [lia|]. destruct (f x); cbn; lia. Qed.

Lemma NoDup_app_l {A} (a b : list A) : NoDup (a ++ b) -> NoDup a.
Proof. induction a as [|x a IH]; cbn; intros H; [constructor|]. inversion H; subst. constructor; [intros Hin; apply H2; apply in_or_app; left; exact Hin|auto]. Qed.
Lemma NoDup_app_r {A} (a b : list A) : NoDup (a ++ b) -> NoDup b.
Proof. induction a as [|x a IH]; cbn; intros H; [exact H|]. inversion H; subst. auto. Qed.

Lemma idmap_remove_spec id (m : list (str * route)) :
  match idmap_remove id m with
  | (m', Some r) => exists a b, m = a ++ (id, r) :: b /\ m' = a ++ b /\ ~ In id (map fst a)
  | (m', None) => m' = m /\ ~ In id (map fst m)
  end.
Proof.
  induction m as [|[k v] m IH]; cbn; [auto|]. destruct (str_eqb id k) eqn:E.
  - apply str_eqb_spec in E. subst. exists [], m. cbn. auto.
  - destruct (idmap_remove id m) as [r [v'|]].
    + destruct IH as (a & b & -> & -> & Hn). exists ((k, v) :: a), b. cbn. repeat split; auto.
      intros [H|H]; [subst; rewrite str_eqb_refl in E; discriminate|tauto].
    + destruct IH as [-> Hn]. split; [reflexivity|]. intros [H|H]; [subst; rewrite str_eqb_refl in E; discriminate|tauto].
Qed.

Lemma filter_id_app_remove {B} (key : B -> str) (a b : list B) x id : key x = id -> ~ In id (map key a) -> ~ In id (map key b) ->
  filter (fun e => negb (str_eqb (key e) id)) (a ++ x :: b) = a ++ b.
Proof.
  intros Hx Ha Hb.
  assert (Hid : forall l : list B, ~ In id (map key l) -> filter (fun e => negb (str_eqb (key e) id)) l = l).
  { induction l as [|y l IHl]; cbn; intros Hn; [reflexivity|]. destruct (str_eqb (key y) id) eqn:E; [apply str_eqb_spec in E; tauto|]. cbn. f_equal. apply IHl. tauto. }
  rewrite filter_app. cbn. rewrite Hx, str_eqb_refl. cbn. rewrite !Hid by assumption. reflexivity.
Qed.
Lemma filter_id_absent {B} (key : B -> str) (l : list B) id : ~ In id (map key l) -> filter (fun e => negb (str_eqb (key e) id)) l = l.
Proof. induction l as [|y l IHl]; cbn; intros Hn; [reflexivity|]. destruct (str_eqb (key y) id) eqn:E; [apply str_eqb_spec in E; tauto|]. cbn. f_equal. apply IHl. tauto. Qed.

Lemma static_remove_spec id st : NoDup (map eid (st_flat st)) -> NoDup (map fst st) ->
  st_flat (fst (static_remove id st)) = filter (fun e => negb (str_eqb (eid e) id)) (st_flat st)
  /\ NoDup (map fst (fst (static_remove id st)))
  /\ (forall p, In p (map fst (fst (static_remove id st))) -> In p (map fst st))
  /\ match snd (static_remove id st) with
     | Some r => exists p, In (p, (id, r)) (st_flat st)
     | None => ~ In id (map eid (st_flat st))
     end.
Proof.
  induction st as [|[p m] st IH]; cbn [static_remove]; intros Hnd Hnk.
  - cbn. repeat split; auto; constructor.
  - inversion Hnk as [|? ? Hpn Hnk']; subst.
    assert (Hflat : st_flat ((p, m) :: st) = map (fun e => (p, e)) m ++ st_flat st) by reflexivity.
    rewrite Hflat in Hnd. rewrite map_app in Hnd.
    assert (Hm : map eid (map (fun e : str * route => (p, e)) m) = map fst m) by (rewrite map_map; reflexivity).
    pose proof (NoDup_app_r _ _ Hnd) as Hnd2. pose proof (NoDup_app_l _ _ Hnd) as Hnd1.
    pose proof (idmap_remove_spec id m) as Hi. destruct (idmap_remove id m) as [m' [r|]].
    + destruct Hi as (a & b & -> & -> & Ha).
      assert (Hb : ~ In id (map fst b)).
      { rewrite Hm, map_app in Hnd1. cbn in Hnd1. apply NoDup_remove_2 in Hnd1. rewrite in_app_iff in Hnd1. tauto. }
      assert (Hrest : ~ In id (map eid (st_flat st))).
      { intros Hin. rewrite Hm in Hnd. revert Hnd Hin. rewrite map_app. cbn. clear. intros Hnd Hin.
        rewrite <- app_assoc in Hnd. cbn in Hnd. apply NoDup_remove_2 in Hnd. apply Hnd. rewrite !in_app_iff. tauto. }
      cbn [fst snd]. split; [|split; [|split]].
      * rewrite Hflat, filter_app, (filter_id_absent eid (st_flat st) id Hrest).
        assert (filter (fun e => negb (str_eqb (eid e) id)) (map (fun e => (p, e)) (a ++ (id, r) :: b)) = map (fun e => (p, e)) (a ++ b)) as ->.
        { rewrite !map_app. cbn [map]. apply (filter_id_app_remove eid); [reflexivity| |]; rewrite map_map; cbn; assumption. }
        destruct (a ++ b) eqn:Eab; cbn [is_nil]; [reflexivity|]. reflexivity.
      * destruct (a ++ b); cbn [is_nil]; [exact Hnk'|]. cbn. constructor; assumption.
      * intros q. destruct (a ++ b); cbn [is_nil]; cbn; tauto.
      * exists p. rewrite Hflat. apply in_or_app. left. apply in_map_iff. exists (id, r). split; [reflexivity|]. apply in_or_app. right. left. reflexivity.
    + destruct Hi as [-> Hnm]. specialize (IH Hnd2 Hnk'). destruct (static_remove id st) as [st'' o'] eqn:Es. cbn [fst snd] in *.
      destruct IH as (I1 & I2 & I3 & I4). split; [|split; [|split]].
      * assert (st_flat (if is_nil m then st'' else (p, m) :: st'') = map (fun e => (p, e)) m ++ st_flat st'') as ->.
        { destruct m; cbn [is_nil]; reflexivity. }
        rewrite Hflat, filter_app, I1. f_equal. symmetry. apply (filter_id_absent eid). rewrite Hm. exact Hnm.
      * destruct m; cbn [is_nil]; [exact I2|]. cbn. constructor; [|exact I2]. intros Hin. apply Hpn. apply I3. exact Hin.
      * intros q. destruct m; cbn [is_nil]; cbn; [intros H; right; auto|intros [H|H]; auto].
      * destruct o' as [r|].
        -- destruct I4 as [p' Hin]. exists p'. rewrite Hflat. apply in_or_app. right. exact Hin.
        -- rewrite Hflat, map_app, in_app_iff, Hm. tauto.
Qed.

Lemma NoDup_st_ids L : NoDup (ids L) -> NoDup (map eid (flat_map st_entry L)).
Proof.
  unfold ids. induction L as [|r L IH]; cbn; intros H; [constructor|]. inversion H; subst. rewrite map_app.
  unfold st_entry at 1. destruct (rt_path r); cbn; [|auto]. constructor; [|auto].
  intros Hin. apply H2. apply in_map_iff in Hin. destruct Hin as (e & He & Hin). apply st_ids in Hin. unfold eid in He. rewrite <- He. apply Hin.
Qed.
Lemma NoDup_dyn_ids L : NoDup (ids L) -> NoDup (map (id_of route) (flat_map dyn_entry L)).
Proof.
  unfold ids. induction L as [|r L IH]; cbn; intros H; [constructor|]. inversion H; subst. rewrite map_app.
  unfold dyn_entry at 1. destruct (rt_path r); cbn; [auto|]. constructor; [|auto].
  intros Hin. apply H2. apply in_dyn_ids. exact Hin.
Qed.

Lemma dyn_entry_in L e : In e (flat_map dyn_entry L) -> In (value_of route e) L /\ rt_id (value_of route e) = id_of route e /\ rt_path (value_of route e) = SDynamic (fst e).
Proof.
  intros H. apply in_flat_map in H. destruct H as (r & Hr & He). unfold dyn_entry in He. destruct (rt_path r) eqn:E; [destruct He|].
  destruct He as [<-|[]]. cbn. auto.
Qed.

Lemma prepr_remove P L id : prepr P L -> NoDup (ids L) ->
  prepr (fst (p_remove id P)) (without_id id L) /\ snd (p_remove id P) = find_id id L.
Proof.
  intros (Hi & Ht & Hs & Hn & Hl) Hnd. unfold p_remove.
  assert (Hnt : NoDup (map (id_of route) (entries route (p_tree P)))).
  { eapply Permutation_NoDup; [apply Permutation_map, Permutation_sym; exact Ht|apply NoDup_dyn_ids; exact Hnd]. }
  assert (Hns : NoDup (map eid (st_flat (p_static P)))).
  { eapply Permutation_NoDup; [apply Permutation_map, Permutation_sym; exact Hs|apply NoDup_st_ids; exact Hnd]. }
  pose proof (remove_entries_c route valid (p_tree P) id) as Hrm. pose proof (remove_is_filter_c route valid (p_tree P) id Hnt) as Hrf.
  pose proof (remove_inv_c route valid ic_path (p_tree P) id Hi) as Hri.
  destruct (Tree.remove route (p_tree P) id) as [t' [r|]] eqn:Er; cbn [fst snd] in *.
  - (* found in the tree *)
    destruct Hrm as (a & re & b & Hb & _ & _).
    assert (Hin : In (re, (id, r)) (flat_map dyn_entry L)).
    { eapply Permutation_in; [exact Ht|]. rewrite Hb. apply in_or_app. right. left. reflexivity. }
    destruct (dyn_entry_in L _ Hin) as (HrL & Hrid & Hrp). cbn in HrL, Hrid, Hrp.
    assert (Hnots : ~ In id (map eid (flat_map st_entry L))).
    { intros Hs'. apply in_map_iff in Hs'. destruct Hs' as (e & He & Hse). destruct (st_ids L e Hse) as (_ & Hid' & Hpath & HeL).
      assert (snd (snd e) = r). { unfold ids in Hnd. clear - Hnd HeL HrL Hid' Hrid He. unfold eid in He.
        assert (rt_id (snd (snd e)) = rt_id r) by congruence.
        revert HeL HrL H. generalize (snd (snd e)). intros x. induction L as [|y L IH]; cbn; intros H1 H2 H3; [destruct H1|]. inversion Hnd; subst.
        destruct H1 as [->|H1], H2 as [->|H2]; auto.
        - exfalso. apply H4. rewrite H3. apply in_map. exact H2.
        - exfalso. apply H4. rewrite <- H3. apply in_map. exact H1. }
      subst r. rewrite Hrp in Hpath. discriminate. }
    split; [|symmetry; apply find_id_some; assumption].
    unfold prepr. cbn [p_tree p_static p_count]. split; [exact Hri|]. split; [|split; [|split]].
    + rewrite Hrf, dyn_without. apply Permutation_filter'. exact Ht.
    + rewrite st_without, (filter_id_absent eid _ id Hnots). exact Hs.
    + exact Hn.
    + pose proof (length_without_id id L r Hnd HrL Hrid). lia.
  - (* not in the tree *)
    destruct Hrm as [_ Hnotin].
    assert (Hnotd : ~ In id (map (id_of route) (flat_map dyn_entry L))).
    { intros Hin. apply Hnotin. eapply Permutation_in; [apply Permutation_map, Permutation_sym; exact Ht|exact Hin]. }
    pose proof (static_remove_spec id (p_static P) Hns Hn) as (S1 & S2 & S3 & S4).
    destruct (static_remove id (p_static P)) as [st' o] eqn:Es. cbn [fst snd] in *.
    assert (Hfind : o = find_id id L).
    { destruct o as [r|].
      - destruct S4 as [p Hin]. assert (Hin' : In (p, (id, r)) (flat_map st_entry L)) by (eapply Permutation_in; [exact Hs|exact Hin]).
        destruct (st_ids L _ Hin') as (_ & Hid' & _ & HrL). cbn in Hid', HrL. symmetry. apply find_id_some; assumption.
      - symmetry. apply find_id_none. intros Hin. unfold ids in Hin. apply in_map_iff in Hin. destruct Hin as (r & Hid' & HrL).
        destruct (rt_path r) eqn:Ep.
        + apply S4. eapply Permutation_in; [apply Permutation_map, Permutation_sym; exact Hs|]. apply in_map_iff. exists (s, (id, r)). split; [reflexivity|].
          apply in_flat_map. exists r. split; [exact HrL|]. unfold st_entry. rewrite Ep, Hid'. left. reflexivity.
        + apply Hnotd. apply in_map_iff. exists (regex, (id, r)). split; [reflexivity|]. apply in_flat_map. exists r. split; [exact HrL|]. unfold dyn_entry. rewrite Ep, Hid'. left. reflexivity. }
    split; [|exact Hfind].
    unfold prepr. cbn [p_tree p_static p_count]. split; [exact Hri|]. split; [|split; [|split]].
    + rewrite Hrf, dyn_without. apply Permutation_filter'. exact Ht.
    + rewrite S1, st_without. apply Permutation_filter'. exact Hs.
    + exact S2.
    + destruct o as [r|].
      * symmetry in Hfind. unfold find_id in Hfind. apply find_some in Hfind. destruct Hfind as [HrL Hid']. apply str_eqb_spec in Hid'.
        pose proof (length_without_id id L r Hnd HrL Hid'). lia.
      * pose proof (length_filter_le (fun r => negb (str_eqb (rt_id r) id)) L). unfold without_id. lia.
Qed.

(* ---- batch_remove ---- *)
Lemma retain_entry_filter xs (l : list (pat * (ident * route))) :
  flat_map (retain_entry route (fun id r => if mem_str id xs then None else Some r)) l
  = filter (fun e => negb (mem_str (id_of route e) xs)) l.
Proof.
  induction l as [|[re [k v]] l IH]; cbn; [reflexivity|]. unfold retain_entry at 1, id_of, value_of. cbn.
  destruct (mem_str k xs); cbn; rewrite IH; reflexivity.
Qed.

Lemma static_batch_flat xs st : NoDup (map fst st) ->
  let st' := flat_map (fun pm => let m' := filter (fun e => negb (mem_str (fst e) xs)) (snd pm) in
                                 if is_nil m' then [] else [(fst pm, m')]) st in
  st_flat st' = filter (fun e => negb (mem_str (eid e) xs)) (st_flat st) /\ NoDup (map fst st')
  /\ (forall p, In p (map fst st') -> In p (map fst st)).
Proof.
  induction st as [|[p m] st IH]; cbn; intros Hn; [repeat split; auto; constructor|].
  inversion Hn; subst. destruct (IH H2) as (I1 & I2 & I3). clear IH.
  assert (Hm : map (fun e => (p, e)) (filter (fun e : str * route => negb (mem_str (fst e) xs)) m)
               = filter (fun e => negb (mem_str (eid e) xs)) (map (fun e => (p, e)) m)).
  { induction m as [|[k v] m IHm]; cbn; [reflexivity|]. unfold eid at 1. cbn. destruct (mem_str k xs); cbn; rewrite IHm; reflexivity. }
  unfold st_flat in *. cbn. rewrite filter_app, <- Hm.
  destruct (filter (fun e : str * route => negb (mem_str (fst e) xs)) m) as [|e0 m'] eqn:Ef; cbn [is_nil app flat_map map].
  - repeat split; [exact I1|exact I2|intros q Hq; right; apply I3; exact Hq].
  - cbn. split; [rewrite I1; reflexivity|]. split; [constructor; [intros Hin; apply H1; apply I3; exact Hin|exact I2]|].
    intros q [Hq|Hq]; [left; exact Hq|right; apply I3; exact Hq].
Qed.

Lemma static_batch_flat' xs P : NoDup (map fst (p_static P)) ->
  st_flat (p_static (p_batch_remove xs P)) = filter (fun e => negb (mem_str (eid e) xs)) (st_flat (p_static P))
  /\ NoDup (map fst (p_static (p_batch_remove xs P))).
Proof. intros Hn. destruct (static_batch_flat xs (p_static P) Hn) as (S1 & S2 & _). split; [exact S1|exact S2]. Qed.

Lemma prepr_batch P L xs : prepr P L -> NoDup (ids L) -> prepr (p_batch_remove xs P) (without_ids xs L).
Proof.
  intros (Hi & Ht & Hs & Hn & Hl) Hnd. destruct (static_batch_flat' xs P Hn) as (S1 & S2).
  unfold prepr. split; [apply (retain_inv_c route valid); exact Hi|]. split; [|split; [|split]].
  - unfold p_batch_remove. cbn [p_tree]. rewrite retain_entries_c, retain_entry_filter, dyn_withouts. apply Permutation_filter'. exact Ht.
  - rewrite S1, st_withouts. apply Permutation_filter'. exact Hs.
  - exact S2.
  - pose proof (length_filter_le (fun r => negb (mem_str (rt_id r) xs)) L). unfold without_ids, p_batch_remove. cbn [p_count]. lia.
Qed.

(* ---- match ---- *)
Definition is_dyn (r : route) : bool := match rt_path r with SDynamic _ => true | SStatic _ => false end.

Lemma dyn_match_filter L s :
  map (value_of route) (filter (fun e => ML eng ic_path (fst e) s) (flat_map dyn_entry L))
  = filter (fun r => is_dyn r && match rt_path r with SDynamic re => ML eng ic_path re s | _ => false end) L.
Proof.
  induction L as [|r L IH]; cbn; [reflexivity|]. rewrite filter_app, map_app, IH. unfold dyn_entry at 1, is_dyn.
  destruct (rt_path r); cbn; [reflexivity|]. destruct (ML eng ic_path regex s); reflexivity.
Qed.
Lemma st_match_filter L s :
  map (fun e => snd (snd e)) (filter (fun e : str * (str * route) => str_eqb s (fst e)) (flat_map st_entry L))
  = filter (fun r => negb (is_dyn r) && match rt_path r with SStatic p => str_eqb s p | _ => false end) L.
Proof.
  induction L as [|r L IH]; cbn; [reflexivity|]. rewrite filter_app, map_app, IH. unfold st_entry at 1, is_dyn.
  destruct (rt_path r); cbn; [|reflexivity]. destruct (str_eqb s s0); reflexivity.
Qed.

Lemma assoc_flat s (st : list (str * list (str * route))) : NoDup (map fst st) ->
  match assoc s st with Some m => map snd m | None => [] end
  = map (fun e => snd (snd e)) (filter (fun e : str * (str * route) => str_eqb s (fst e)) (st_flat st)).
Proof.
  induction st as [|[p m] st IH]; cbn; intros Hn; [reflexivity|]. inversion Hn; subst.
  unfold st_flat in *. cbn. rewrite filter_app, map_app.
  destruct (str_eqb s p) eqn:E.
  - assert (Hm : map (fun e => snd (snd e)) (filter (fun e : str * (str * route) => str_eqb s (fst e)) (map (fun e => (p, e)) m)) = map snd m).
    { induction m as [|e m IHm]; cbn; [reflexivity|]. rewrite E. cbn. f_equal. exact IHm. }
    rewrite Hm. apply str_eqb_spec in E. subst p.
    assert (filter (fun e : str * (str * route) => str_eqb s (fst e)) (flat_map (fun pm => map (fun e => (fst pm, e)) (snd pm)) st) = []) as ->.
    { clear - H1. induction st as [|[p' m'] st IHs]; cbn; [reflexivity|]. rewrite filter_app. cbn in H1.
      assert (str_eqb s p' = false) as Hne. { apply str_eqb_neq. intros ->. apply H1. left. reflexivity. }
      rewrite IHs by tauto. rewrite app_nil_r. induction m' as [|e m' IHm]; cbn; [reflexivity|]. rewrite Hne. exact IHm. }
    cbn. rewrite app_nil_r. reflexivity.
  - assert (Hm : filter (fun e : str * (str * route) => str_eqb s (fst e)) (map (fun e => (p, e)) m) = []).
    { induction m as [|e m IHm]; cbn; [reflexivity|]. rewrite E. exact IHm. }
    rewrite Hm. cbn. apply IH. assumption.
Qed.

Lemma filter_split {A} (P Q : A -> bool) l :
  Permutation (filter (fun x => P x && Q x) l ++ filter (fun x => negb (P x) && Q x) l) (filter Q l).
Proof.
  induction l as [|x l IH]; cbn; [constructor|]. destruct (P x), (Q x); cbn; try exact IH.
  - constructor. exact IH.
  - eapply Permutation_trans; [apply Permutation_sym, Permutation_middle|]. constructor. exact IH.
Qed.

Lemma p_match_perm P L q : prepr P L -> NoDup (ids L) ->
  Permutation (p_match eng q P) (filter (fun r => sat_path r q) L).
Proof.
  intros (Hi & Ht & Hs & Hn & Hl) Hnd. unfold p_match.
  rewrite (find_spec_c route eng valid Hd Hp ic_path (p_tree P) (q_path q) Hi). rewrite (assoc_flat (q_path q) (p_static P) Hn).
  eapply Permutation_trans; [apply Permutation_app; [apply Permutation_map, Permutation_filter'; exact Ht|apply Permutation_map, Permutation_filter'; exact Hs]|].
  rewrite dyn_match_filter, st_match_filter.
  eapply Permutation_trans; [|apply (filter_split is_dyn (fun r => sat_path r q) L)].
  apply Permutation_app; apply Permutation_refl' ; apply filter_ext; intros r; unfold sat_path, is_dyn; destruct (rt_path r); cbn; try reflexivity.
  apply str_eqb_sym.
Qed.

(* ---- cache ---- *)
Lemma prepr_cache P L limit level : prepr P L -> prepr (fst (p_cache valid limit level P)) L.
Proof.
  intros (Hi & Ht & Hs & Hn & Hl). unfold p_cache. pose proof (cache_same_c route valid (p_tree P) limit (Some level)) as Hsame.
  destruct (tree_cache route valid (p_tree P) limit (Some level)) as [t' lft]. cbn [fst] in *. unfold prepr. cbn [p_tree p_static p_count].
  split; [eapply (same_inv_c route valid); eassumption|]. rewrite <- (same_entries route _ _ Hsame). auto.
Qed.

(* ---- trace ---- *)
Section TrInd.
  Variable Pt : Tree.trace route -> Prop.
  Hypothesis Ht : forall re c m ch vs, Forall Pt ch -> Pt (Tr re c m ch vs).
  Fixpoint ttrace_ind' (t : Tree.trace route) : Pt t :=
    match t with
    | Tr re c m ch vs => Ht re c m ch vs ((fix all (l : list (Tree.trace route)) : Forall Pt l :=
        match l with [] => Forall_nil _ | x :: l' => Forall_cons _ (ttrace_ind' x) (all l') end) ch)
    end.
End TrInd.

Lemma path_tree_trace_routes (t : Tree.trace route) :
  Permutation (trace_routes (path_tree_trace t)) (tree_trace_values route t).
Proof.
  induction t as [re count matched children values IH] using ttrace_ind'.
  cbn [path_tree_trace trace_routes tree_trace_values app]. rewrite flat_map_app.
  assert (Hch : Permutation (flat_map trace_routes (map path_tree_trace children)) (flat_map (tree_trace_values route) children)).
  { induction children as [|x ch IHc]; cbn; [constructor|]. inversion IH; subst. apply Permutation_app; auto. }
  eapply Permutation_trans; [apply Permutation_app_comm|]. apply Permutation_app; [|exact Hch].
  destruct values; cbn; [destruct matched; constructor|]. rewrite ?app_nil_r. destruct matched; cbn; rewrite ?app_nil_r; apply Permutation_refl.
Qed.

Lemma p_trace_routes P q : Permutation (traces_routes (p_trace eng q P)) (p_match eng q P).
Proof.
  unfold p_trace, p_match, traces_routes. cbn [flat_map trace_routes app]. rewrite !app_nil_r.
  apply Permutation_app.
  - rewrite <- (trace_values_find route eng). apply path_tree_trace_routes.
  - destruct (assoc (q_path q) (p_static P)); cbn; [rewrite !app_nil_r|]; apply Permutation_refl.
Qed.

(* ---- the specification record ---- *)
Lemma prepr_len (m : pathm) L : prepr m L -> length L <= m_len ops m.
Proof. intros (_ & _ & _ & _ & Hl). exact Hl. Qed.

Definition path_mrep : mrep ops ok_path :=
  {| repr := prepr; repr_perm := prepr_perm;
     repr_len := prepr_len;
     repr_new := prepr_new; repr_insert := prepr_insert; repr_remove := prepr_remove; repr_batch := prepr_batch;
     repr_cache := prepr_cache |}.

Definition path_mspec : mspec ops ok_path sat_path.
Proof.
  refine {| ms_rep := path_mrep |}.
  - intros m L q Hr Hn. eapply Permutation_NoDup; [apply Permutation_sym, p_match_perm; eassumption|]. apply NoDup_filter, NoDup_ids_NoDup, Hn.
  - intros m L q r Hr Hn. split.
    + intros Hin. apply (proj1 (filter_In (fun r => sat_path r q) r L)). eapply Permutation_in; [apply p_match_perm; eassumption|exact Hin].
    + intros Hin. eapply Permutation_in; [apply Permutation_sym, p_match_perm; eassumption|]. apply (proj2 (filter_In (fun r => sat_path r q) r L)). exact Hin.
  - intros m L q r Hr Hn. split.
    + intros Hin. apply (proj1 (filter_In (fun r => sat_path r q) r L)). eapply Permutation_in; [apply p_match_perm; eassumption|]. eapply Permutation_in; [apply p_trace_routes|exact Hin].
    + intros Hin. eapply Permutation_in; [apply Permutation_sym, p_trace_routes|]. eapply Permutation_in; [apply Permutation_sym, p_match_perm; eassumption|]. apply (proj2 (filter_In (fun r => sat_path r q) r L)). exact Hin.
Defined.
End RxPathProofs.
