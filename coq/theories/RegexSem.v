(* Prototype: token-level semantics with a context-aware group oracle, and the prefix law *)
Require Import RIO.Base RIO.Prefix.

Section Sem.
Variable G : bool -> list chr -> list chr -> nat -> nat -> bool.   (* ic body whole start len *)
Variable fold : chr -> chr.                                         (* simple case folding *)
Definition ceq (ic : bool) (a b : chr) : bool := if ic then N.eqb (fold a) (fold b) else N.eqb a b.

Fixpoint mt (ic : bool) (whole : list chr) (full : bool) (ts : list tok) (pos : nat) (rest : list chr) {struct ts} : bool :=
  match ts with
  | [] => if full then match rest with [] => true | _ => false end else true
  | TLit c :: ts' => match rest with x :: r' => ceq ic c x && mt ic whole full ts' (S pos) r' | [] => false end
  | TGrp b :: ts' => existsb (fun k => G ic b whole pos k && mt ic whole full ts' (pos + k) (skipn k rest)) (seq 0 (S (length rest)))
  end.
Definition full_match ic p s := mt ic s true p 0 s.
Definition prefix_match ic p s := mt ic s false p 0 s.

Lemma prefix_law_gen ic whole p : forall k pos rest, mt ic whole true p pos rest = true -> mt ic whole false (firstn k p) pos rest = true.
Proof. induction p as [|t p IH]; intros k pos rest H.
  - destruct k; reflexivity.
  - destruct k as [|k]; [reflexivity|]. cbn [firstn]. destruct t as [c|b]; cbn [mt] in *.
    + destruct rest as [|x r]; [discriminate|]. apply andb_prop in H. destruct H as [H1 H2]. rewrite H1. cbn. apply IH. exact H2.
    + apply existsb_exists in H. destruct H as (j & Hj & H). apply andb_prop in H. destruct H as [H1 H2].
      apply existsb_exists. exists j. split; [exact Hj|]. rewrite H1. cbn. apply IH. exact H2. Qed.

Theorem prefix_law ic p k s : full_match ic p s = true -> prefix_match ic (firstn k p) s = true.
Proof. apply prefix_law_gen. Qed.
End Sem.
