(* TokLogic.v — generic reasoning about the tokenizer monad (RIO.TokMonad): sticky flags and frames ([ext],
   [Pres]), prefix stability ([Stable]), fuel monotonicity of [loop]. *)
Require Import RIO.Base RIO.TokMonad.

Lemma bind_eq {A B} (m : M A) (k : A -> M B) inp s :
  bind m k inp s = k (fst (m inp s)) inp (snd (m inp s)).
Proof. unfold bind. destruct (m inp s). reflexivity. Qed.

Lemma bind_upd {B} (f : st -> st) (k : unit -> M B) inp s : bind (upd f) k inp s = k tt inp (f s).
Proof. reflexivity. Qed.
Lemma bind_get {B} (k : st -> M B) inp s : bind get k inp s = k s inp s.
Proof. reflexivity. Qed.
Lemma bind_ret {A B} (a : A) (k : A -> M B) inp s : bind (ret a) k inp s = k a inp s.
Proof. reflexivity. Qed.

(* ---------------------------------------------------------------------------------- sticky flags, frame *)
Definition good (s : st) : Prop := err s = false /\ oof s = false /\ panic s = None.

(* what EVERY tokenizer function except [next] guarantees between its initial and final state:
   raw_start and allow_cdata are not written; panic, oof and err are never reset *)
Record ext (s s' : st) : Prop := mk_ext {
  ext_rs : raw_start s' = raw_start s;
  ext_cd : allow_cdata s' = allow_cdata s;
  ext_panic : panic s' = None -> panic s = None;
  ext_oof : oof s' = false -> oof s = false;
  ext_err : err s' = false -> err s = false
}.

Lemma ext_refl s : ext s s.
Proof. constructor; auto. Qed.
Lemma ext_trans a b c : ext a b -> ext b c -> ext a c.
Proof. intros [] []. constructor; try congruence; auto. Qed.
Lemma ext_good s s' : ext s s' -> good s' -> good s.
Proof. intros [] (He & Ho & Hp). repeat split; auto. Qed.

(* generic: a reflexive-transitive relation between initial and final state that every step respects *)
Section Rel.
  Variable R : st -> st -> Prop.
  Hypothesis R_refl : forall s, R s s.
  Hypothesis R_trans : forall a b c, R a b -> R b c -> R a c.
  Hypothesis R_oof : forall s, R s (set_oof true s).

  Definition PresR {A} (m : M A) : Prop := forall inp s, R s (snd (m inp s)).

  Lemma presR_ret {A} (a : A) : PresR (ret a).
  Proof. intros inp s. apply R_refl. Qed.
  Lemma presR_get : PresR get.
  Proof. intros inp s. apply R_refl. Qed.
  Lemma presR_input_len : PresR input_len.
  Proof. intros inp s. apply R_refl. Qed.
  Lemma presR_upd f : (forall s, R s (f s)) -> PresR (upd f).
  Proof. intros H inp s. apply H. Qed.
  Lemma presR_bind {A B} (m : M A) (k : A -> M B) : PresR m -> (forall a, PresR (k a)) -> PresR (bind m k).
  Proof. intros Hm Hk inp s. rewrite bind_eq. eapply R_trans; [apply Hm | apply Hk]. Qed.
  Lemma presR_loop {L A} (body : L -> M (ctl L A)) :
    (forall x, PresR (body x)) -> forall fuel x, PresR (loop fuel body x).
  Proof.
    intros Hb. induction fuel as [|f IH]; intros x; cbn [loop].
    - apply presR_bind; [apply presR_upd; apply R_oof|intros; apply presR_ret].
    - apply presR_bind; [apply Hb|]. intros [x'| |a]; [apply IH|apply presR_ret|apply presR_ret].
  Qed.
  Lemma presR_loop_in {L A} (body : L -> M (ctl L A)) x : (forall x, PresR (body x)) -> PresR (loop_in body x).
  Proof. intros Hb. unfold loop_in. apply presR_bind; [apply presR_input_len|intros]. apply presR_loop. exact Hb. Qed.
  Lemma presR_for_range {A} (body : nat -> M (option A)) :
    (forall i, PresR (body i)) -> forall n i, PresR (for_range n i body).
  Proof.
    intros Hb. induction n as [|n IH]; intros i; cbn [for_range].
    - apply presR_ret.
    - apply presR_bind; [apply Hb|]. intros [a|]; [apply presR_ret|apply IH].
  Qed.
End Rel.

Ltac ext_upd :=
  intros; unfold set_pa_key_start, set_pa_key_end, set_pa_val_start, set_pa_val_end;
  repeat match goal with |- context [pending_attribute ?s] => destruct (pending_attribute s) as [[? ?] [? ?]] end;
  constructor; cbn;
  repeat match goal with |- context [pending_attribute ?s] => destruct (pending_attribute s) as [[? ?] [? ?]]; cbn end;
  auto; try discriminate.

Lemma ext_oof_true s : ext s (set_oof true s).
Proof. ext_upd. Qed.

Definition Pres {A} (m : M A) : Prop := PresR ext m.
Definition pres_ret {A} (a : A) : Pres (ret a) := presR_ret ext ext_refl a.
Definition pres_get : Pres get := presR_get ext ext_refl.
Definition pres_input_len : Pres input_len := presR_input_len ext ext_refl.
Definition pres_upd f : (forall s, ext s (f s)) -> Pres (upd f) := presR_upd ext f.
Definition pres_bind {A B} (m : M A) (k : A -> M B) : Pres m -> (forall a, Pres (k a)) -> Pres (bind m k) :=
  presR_bind ext ext_trans m k.
Definition pres_loop {L A} (body : L -> M (ctl L A)) :
  (forall x, Pres (body x)) -> forall fuel x, Pres (loop fuel body x) :=
  presR_loop ext ext_refl ext_trans ext_oof_true body.
Definition pres_loop_in {L A} (body : L -> M (ctl L A)) x : (forall x, Pres (body x)) -> Pres (loop_in body x) :=
  presR_loop_in ext ext_refl ext_trans ext_oof_true body x.
Definition pres_for_range {A} (body : nat -> M (option A)) :
  (forall i, Pres (body i)) -> forall n i, Pres (for_range n i body) :=
  presR_for_range ext ext_refl ext_trans body.
Lemma pres_apply {A} (m : M A) : Pres m -> forall inp s, ext s (snd (m inp s)).
Proof. intros H. exact H. Qed.

Lemma pres_read_byte : Pres read_byte.
Proof. intros inp s. unfold read_byte. destruct (nth_error inp (raw_end s)); constructor; cbn; auto; discriminate. Qed.

Lemma ext_set_panic_site site s : ext s (set_panic_site site s).
Proof. unfold set_panic_site. destruct (panic s) eqn:E; constructor; cbn; auto; try congruence; discriminate. Qed.
Lemma pres_fail_at site : Pres (fail_at site).
Proof. apply pres_upd. apply ext_set_panic_site. Qed.
Lemma pres_out_of_fuel : Pres out_of_fuel.
Proof. apply pres_upd. ext_upd. Qed.
Lemma pres_sub_usize site a b : Pres (sub_usize site a b).
Proof. unfold sub_usize. destruct (b <=? a). apply pres_ret. apply pres_bind; [apply pres_fail_at|intros; apply pres_ret]. Qed.
Lemma pres_sub_u8 site a b : Pres (sub_u8 site a b).
Proof. unfold sub_u8. destruct (N.leb b a). apply pres_ret. apply pres_bind; [apply pres_fail_at|intros; apply pres_ret]. Qed.
Lemma pres_add_u8 site a b : Pres (add_u8 site a b).
Proof. unfold add_u8. destruct (N.leb (N.add a b) 255). apply pres_ret. apply pres_bind; [apply pres_fail_at|intros; apply pres_ret]. Qed.
Lemma pres_dec_raw_end site k : Pres (dec_raw_end site k).
Proof. unfold dec_raw_end. apply pres_bind; [apply pres_get|intros]. apply pres_bind; [apply pres_sub_usize|intros]. apply pres_upd. ext_upd. Qed.
Lemma pres_index site i : Pres (index site i).
Proof. intros inp s. unfold index. destruct (nth_error inp i); cbn. apply ext_refl. apply ext_set_panic_site. Qed.
Lemma pres_index_of site l i : Pres (index_of site l i).
Proof. unfold index_of. destruct (nth_error l i). apply pres_ret. apply pres_bind; [apply pres_fail_at|intros; apply pres_ret]. Qed.
Lemma pres_index_attr site l i : Pres (index_attr site l i).
Proof. unfold index_attr. destruct (nth_error l i). apply pres_ret. apply pres_bind; [apply pres_fail_at|intros; apply pres_ret]. Qed.
Lemma pres_slice site a b : Pres (slice site a b).
Proof. intros inp s. unfold slice. cbn. destruct ((a <=? b) && (b <=? length inp)). apply ext_refl. apply ext_set_panic_site. Qed.
Lemma pres_slice_from site a : Pres (slice_from site a).
Proof. intros inp s. unfold slice_from. cbn. destruct (a <=? length inp). apply ext_refl. apply ext_set_panic_site. Qed.

Lemma pres_script_fuel : Pres script_fuel.
Proof. unfold script_fuel. apply pres_bind; [apply pres_input_len|intros; apply pres_ret]. Qed.

Create HintDb pres discriminated.
#[export] Hint Resolve pres_ret pres_get pres_input_len pres_read_byte pres_fail_at pres_out_of_fuel pres_sub_usize
  pres_sub_u8 pres_add_u8 pres_dec_raw_end pres_index pres_index_of pres_index_attr pres_slice pres_slice_from
  pres_script_fuel : pres.

(* steps through a monadic body *)
Ltac pres_step :=
  first
    [ solve [auto 1 with pres nocore]
    | assumption
    | match goal with H : forall _, Pres _ |- _ => apply H end
    | apply pres_upd; solve [ext_upd]
    | apply pres_loop_in; intros
    | apply pres_for_range; intros
    | apply pres_bind; [| intros ]
    | match goal with
      | |- Pres (if ?c then _ else _) => destruct c
      | |- Pres (match ?c with _ => _ end) => destruct c
      | |- Pres (let _ := _ in _) => cbv zeta
      end ].
Ltac pres := repeat pres_step.

(* ------------------------------------------------------------------------------------ prefix stability *)
(* A computation that ended without observing EOF (and without a failed check or fuel exhaustion) is unchanged
   by appending input. *)
Definition Stable {A} (m : M A) : Prop :=
  forall d1 d2 s, good (snd (m d1 s)) -> m (d1 ++ d2) s = m d1 s.

Lemma stable_ext {A} (m m' : M A) : (forall inp s, m inp s = m' inp s) -> Stable m' -> Stable m.
Proof. intros E H d1 d2 s G. rewrite !E in *. apply H. exact G. Qed.
Lemma stable_const {A} (m : M A) : (forall i1 i2 s, m i1 s = m i2 s) -> Stable m.
Proof. intros E d1 d2 s _. apply E. Qed.
Lemma stable_ret {A} (a : A) : Stable (ret a).
Proof. apply stable_const. reflexivity. Qed.
Lemma stable_get : Stable get.
Proof. apply stable_const. reflexivity. Qed.
Lemma stable_upd f : Stable (upd f).
Proof. apply stable_const. reflexivity. Qed.
Lemma stable_fail_at site : Stable (fail_at site).
Proof. apply stable_upd. Qed.
Lemma stable_out_of_fuel : Stable out_of_fuel.
Proof. apply stable_upd. Qed.
Lemma stable_read_byte : Stable read_byte.
Proof.
  intros d1 d2 s (He & _ & _). unfold read_byte in *.
  destruct (nth_error d1 (raw_end s)) eqn:E; cbn in He.
  - rewrite nth_error_app1 by (apply nth_error_Some; congruence). rewrite E. reflexivity.
  - discriminate.
Qed.
Lemma stable_bind {A B} (m : M A) (k : A -> M B) :
  Stable m -> (forall a, Stable (k a)) -> (forall a, Pres (k a)) -> Stable (bind m k).
Proof.
  intros Hm Hk Hp d1 d2 s G. rewrite bind_eq in G. rewrite !bind_eq.
  assert (G1 : good (snd (m d1 s))) by (eapply ext_good; [apply Hp|exact G]).
  rewrite (Hm d1 d2 s G1). apply Hk. exact G.
Qed.
Lemma stable_sub_usize site a b : Stable (sub_usize site a b).
Proof. apply stable_const. intros. unfold sub_usize. destruct (b <=? a); reflexivity. Qed.
Lemma stable_sub_u8 site a b : Stable (sub_u8 site a b).
Proof. apply stable_const. intros. unfold sub_u8. destruct (N.leb b a); reflexivity. Qed.
Lemma stable_add_u8 site a b : Stable (add_u8 site a b).
Proof. apply stable_const. intros. unfold add_u8. destruct (N.leb (N.add a b) 255); reflexivity. Qed.
Lemma stable_dec_raw_end site k : Stable (dec_raw_end site k).
Proof. apply stable_const. intros. unfold dec_raw_end. rewrite !bind_get. unfold sub_usize. destruct (k <=? raw_end s); reflexivity. Qed.
Lemma stable_index_of site l i : Stable (index_of site l i).
Proof. apply stable_const. intros. unfold index_of. destruct (nth_error l i); reflexivity. Qed.
Lemma stable_index_attr site l i : Stable (index_attr site l i).
Proof. apply stable_const. intros. unfold index_attr. destruct (nth_error l i); reflexivity. Qed.

Lemma set_panic_site_not_none site s : panic (set_panic_site site s) <> None.
Proof. unfold set_panic_site. destruct (panic s) eqn:E; cbn; congruence. Qed.

Lemma stable_index site i : Stable (index site i).
Proof.
  intros d1 d2 s (_ & _ & Hp). unfold index in *.
  destruct (nth_error d1 i) eqn:E; cbn in Hp.
  - rewrite nth_error_app1 by (apply nth_error_Some; congruence). rewrite E. reflexivity.
  - exfalso. eapply set_panic_site_not_none; eauto.
Qed.

Lemma firstn_skipn_app {A} (d1 d2 : list A) a n :
  a + n <= length d1 -> firstn n (skipn a (d1 ++ d2)) = firstn n (skipn a d1).
Proof.
  revert d1. induction a as [|a IH]; intros d1 H; cbn [skipn].
  - rewrite firstn_app. replace (n - length d1) with 0 by lia. cbn [firstn]. apply app_nil_r.
  - destruct d1 as [|x d1]; cbn [length app skipn] in *.
    + replace n with 0 by lia. reflexivity.
    + apply IH. lia.
Qed.

Lemma stable_slice site a b : Stable (slice site a b).
Proof.
  intros d1 d2 s (_ & _ & Hp). unfold slice in *. cbn [snd] in Hp.
  destruct ((a <=? b) && (b <=? length d1)) eqn:E.
  - apply andb_prop in E. destruct E as [E1 E2]. apply Nat.leb_le in E1. apply Nat.leb_le in E2.
    assert (E3 : ((a <=? b) && (b <=? length (d1 ++ d2))) = true).
    { apply andb_true_intro. split; apply Nat.leb_le; [lia|]. rewrite app_length. lia. }
    rewrite E3. f_equal. apply firstn_skipn_app. lia.
  - exfalso. eapply set_panic_site_not_none; eauto.
Qed.

(* more fuel gives the same result once the result is not out of fuel *)
Lemma loop_fuel_mono {L A} (body : L -> M (ctl L A)) : forall f f' x inp s,
  f <= f' -> oof (snd (loop f body x inp s)) = false -> loop f' body x inp s = loop f body x inp s.
Proof.
  induction f as [|f IH]; intros f' x inp s Hle H.
  - cbn in H. discriminate.
  - destruct f' as [|f']; [lia|]. cbn [loop] in *. rewrite bind_eq in H. rewrite !bind_eq.
    destruct (fst (body x inp s)); [|reflexivity|reflexivity]. apply IH; [lia|exact H].
Qed.

Lemma stable_loop {L A} (body : L -> M (ctl L A)) :
  (forall x, Stable (body x)) -> (forall x, Pres (body x)) -> forall fuel x, Stable (loop fuel body x).
Proof.
  intros Hs Hp. induction fuel as [|f IH]; intros x; cbn [loop].
  - apply stable_const. reflexivity.
  - apply stable_bind; [apply Hs| |].
    + intros [x'| |a]; [apply IH|apply stable_ret|apply stable_ret].
    + intros [x'| |a]; [apply pres_loop; exact Hp|apply pres_ret|apply pres_ret].
Qed.

(* a fuel-indexed computation run with fuel computed from the input length *)
Lemma stable_fuel {A} (F : nat -> M A) (g : nat -> nat) :
  (forall f, Stable (F f)) ->
  (forall f f' inp s, f <= f' -> oof (snd (F f inp s)) = false -> F f' inp s = F f inp s) ->
  (forall a b, a <= b -> g a <= g b) ->
  Stable (fun inp s => F (g (length inp)) inp s).
Proof.
  intros Hs Hm Hg d1 d2 s G.
  assert (E : F (g (length d1)) (d1 ++ d2) s = F (g (length d1)) d1 s) by (apply Hs; exact G).
  rewrite <- E. apply Hm.
  - apply Hg. rewrite app_length. lia.
  - rewrite E. apply G.
Qed.

Lemma stable_loop_in {L A} (body : L -> M (ctl L A)) x :
  (forall x, Stable (body x)) -> (forall x, Pres (body x)) -> Stable (loop_in body x).
Proof.
  intros Hs Hp.
  apply (stable_ext _ (fun inp s => loop (length inp + 2) body x inp s)); [reflexivity|].
  apply (stable_fuel (fun f => loop f body x) (fun n => n + 2)).
  - intros f. apply stable_loop; assumption.
  - intros. apply loop_fuel_mono; assumption.
  - intros. lia.
Qed.

Lemma stable_for_range {A} (body : nat -> M (option A)) :
  (forall i, Stable (body i)) -> (forall i, Pres (body i)) -> forall n i, Stable (for_range n i body).
Proof.
  intros Hs Hp. induction n as [|n IH]; intros i; cbn [for_range].
  - apply stable_ret.
  - apply stable_bind; [apply Hs| |].
    + intros [a|]; [apply stable_ret|apply IH].
    + intros [a|]; [apply pres_ret|apply pres_for_range; exact Hp].
Qed.

Create HintDb stable discriminated.
#[export] Hint Resolve stable_ret stable_get stable_read_byte stable_fail_at stable_out_of_fuel stable_sub_usize
  stable_sub_u8 stable_add_u8 stable_dec_raw_end stable_index stable_index_of stable_index_attr stable_slice : stable.

Ltac stable_step :=
  first
    [ solve [auto 1 with stable nocore]
    | assumption
    | match goal with H : forall _, Stable _ |- _ => apply H end
    | apply stable_upd
    | apply stable_loop_in; [intros | intros; solve [pres]]
    | apply stable_for_range; [intros | intros; solve [pres]]
    | apply stable_bind; [| intros | intros; solve [pres]]
    | match goal with
      | |- Stable (if ?c then _ else _) => destruct c
      | |- Stable (match ?c with _ => _ end) => destruct c
      | |- Stable (let _ := _ in _) => cbv zeta
      end ].
Ltac stable := repeat stable_step.

(* ------------------------------------------------------------------ agreement of two runs (fuel monotonicity) *)
(* m' does what m does whenever m does not run out of fuel *)
Definition Agree {A} (m m' : M A) : Prop :=
  forall inp s, oof (snd (m inp s)) = false -> m' inp s = m inp s.
Lemma agree_refl {A} (m : M A) : Agree m m.
Proof. intros inp s _. reflexivity. Qed.
Lemma agree_bind {A B} (m m' : M A) (k k' : A -> M B) :
  Agree m m' -> (forall a, Agree (k a) (k' a)) -> (forall a, Pres (k a)) -> Agree (bind m k) (bind m' k').
Proof.
  intros Hm Hk Hp inp s H. rewrite bind_eq in H. rewrite !bind_eq.
  assert (H1 : oof (snd (m inp s)) = false) by (eapply ext_oof; [apply Hp|exact H]).
  rewrite (Hm inp s H1). apply Hk. exact H.
Qed.
Ltac agree_step :=
  first
    [ apply agree_refl
    | assumption
    | apply agree_bind; [| intros | intros; solve [pres]]
    | match goal with
      | |- Agree (if ?c then _ else _) (if ?c then _ else _) => destruct c
      | |- Agree (match ?c with _ => _ end) (match ?c with _ => _ end) => destruct c
      end ].
Ltac agree := repeat agree_step.

(* ======================================================================= Hoare-style reasoning *)

(* --------------------------------------------------------------- inversion of one monadic step (Hoare style) *)
Lemma bind_inv {A B} (m : M A) (k : A -> M B) inp s r :
  bind m k inp s = r -> exists a s1, m inp s = (a, s1) /\ k a inp s1 = r.
Proof. unfold bind. destruct (m inp s) as [a s1]. intros H. exists a, s1. auto. Qed.
Lemma ret_inv {A} (a : A) inp s a' s' : ret a inp s = (a', s') -> a' = a /\ s' = s.
Proof. unfold ret. intros H. injection H. auto. Qed.
Lemma get_inv inp s a' s' : get inp s = (a', s') -> a' = s /\ s' = s.
Proof. unfold get. intros H. injection H. auto. Qed.
Lemma upd_inv f inp s a' s' : upd f inp s = (a', s') -> s' = f s.
Proof. unfold upd. intros H. injection H. auto. Qed.
Lemma input_len_inv inp s a' s' : input_len inp s = (a', s') -> a' = length inp /\ s' = s.
Proof. unfold input_len. intros H. injection H. auto. Qed.
Lemma read_byte_inv inp s b s' : read_byte inp s = (b, s') ->
  (nth_error inp (raw_end s) = Some b /\ raw_end s < length inp /\ s' = set_raw_end (S (raw_end s)) s)
  \/ (length inp <= raw_end s /\ b = 0%N /\ s' = set_err true s).
Proof.
  unfold read_byte. destruct (nth_error inp (raw_end s)) eqn:E; intros H; injection H as <- <-.
  - left. repeat split; auto. apply nth_error_Some. congruence.
  - right. repeat split; auto. apply nth_error_None. exact E.
Qed.

Lemma sub_usize_ok site a b inp s : b <= a -> sub_usize site a b inp s = (a - b, s).
Proof. intros H. unfold sub_usize. apply Nat.leb_le in H. rewrite H. reflexivity. Qed.
Lemma dec_raw_end_ok site k inp s : k <= raw_end s -> dec_raw_end site k inp s = (tt, set_raw_end (raw_end s - k) s).
Proof. intros H. unfold dec_raw_end. rewrite bind_get. unfold bind. rewrite sub_usize_ok by exact H. reflexivity. Qed.
Lemma sub_u8_ok site a b inp s : (b <= a)%N -> sub_u8 site a b inp s = (N.sub a b, s).
Proof. intros H. unfold sub_u8. apply N.leb_le in H. rewrite H. reflexivity. Qed.
Lemma add_u8_ok site a b inp s : (a + b <= 255)%N -> add_u8 site a b inp s = (N.add a b, s).
Proof. intros H. unfold add_u8. apply N.leb_le in H. rewrite H. reflexivity. Qed.
Lemma index_ok site i inp s : i < length inp -> exists b, nth_error inp i = Some b /\ index site i inp s = (b, s).
Proof.
  intros H. unfold index. destruct (nth_error inp i) eqn:E.
  - eexists; split; reflexivity.
  - apply nth_error_None in E. lia.
Qed.
Lemma index_of_ok site l i inp s : i < length l -> exists b, nth_error l i = Some b /\ index_of site l i inp s = (b, s).
Proof.
  intros H. unfold index_of. destruct (nth_error l i) eqn:E.
  - eexists; split; reflexivity.
  - apply nth_error_None in E. lia.
Qed.
Lemma index_attr_ok site l i inp s : i < length l -> exists b, nth_error l i = Some b /\ index_attr site l i inp s = (b, s).
Proof.
  intros H. unfold index_attr. destruct (nth_error l i) eqn:E.
  - eexists; split; reflexivity.
  - apply nth_error_None in E. lia.
Qed.
Lemma slice_ok site a b inp s : a <= b -> b <= length inp -> slice site a b inp s = (firstn (b - a) (skipn a inp), s).
Proof. intros H1 H2. unfold slice. apply Nat.leb_le in H1. apply Nat.leb_le in H2. rewrite H1, H2. reflexivity. Qed.
Lemma slice_from_ok site a inp s : a <= length inp -> slice_from site a inp s = (skipn a inp, s).
Proof. intros H1. unfold slice_from. apply Nat.leb_le in H1. rewrite H1. reflexivity. Qed.

(* ---- loops ---- *)
Lemma loop_rule {L A} inp (body : L -> M (ctl L A)) (I : L -> st -> Prop) (mu : L -> st -> nat)
      (Q : option A -> st -> Prop) :
  (forall x s r s', I x s -> body x inp s = (r, s') ->
     match r with
     | Continue x' => I x' s' /\ mu x' s' < mu x s
     | Break => Q None s'
     | Return a => Q (Some a) s'
     end) ->
  forall fuel x s r s', I x s -> mu x s < fuel -> loop fuel body x inp s = (r, s') -> Q r s'.
Proof.
  intros Hb. induction fuel as [|f IH]; intros x s r s' HI Hmu E.
  - lia.
  - cbn [loop] in E. apply bind_inv in E. destruct E as (c & s1 & E1 & E).
    pose proof (Hb x s c s1 HI E1) as Hc. destruct c as [x'| |a].
    + destruct Hc as [HI' Hlt]. eapply IH; eauto. lia.
    + apply ret_inv in E. destruct E; subst. exact Hc.
    + apply ret_inv in E. destruct E; subst. exact Hc.
Qed.
Lemma loop_in_rule {L A} inp (body : L -> M (ctl L A)) (I : L -> st -> Prop) (mu : L -> st -> nat)
      (Q : option A -> st -> Prop) :
  (forall x s r s', I x s -> body x inp s = (r, s') ->
     match r with
     | Continue x' => I x' s' /\ mu x' s' < mu x s
     | Break => Q None s'
     | Return a => Q (Some a) s'
     end) ->
  forall x s r s', I x s -> mu x s < length inp + 2 -> loop_in body x inp s = (r, s') -> Q r s'.
Proof.
  intros Hb x s r s' HI Hmu E. unfold loop_in in E. apply bind_inv in E. destruct E as (n & s1 & E1 & E).
  apply input_len_inv in E1. destruct E1; subst. eapply loop_rule; eauto.
Qed.
Lemma for_range_rule {A} inp (body : nat -> M (option A)) (I : nat -> st -> Prop) (Q : A -> st -> Prop) :
  forall n lo,
  (forall i s r s', lo <= i -> i < lo + n -> I i s -> body i inp s = (r, s') ->
     match r with Some a => Q a s' | None => I (S i) s' end) ->
  forall s r s', I lo s -> for_range n lo body inp s = (r, s') ->
     match r with Some a => Q a s' | None => I (lo + n) s' end.
Proof.
  induction n as [|n IH]; intros lo Hb s r s' HI E; cbn [for_range] in E.
  - apply ret_inv in E. destruct E; subst. rewrite Nat.add_0_r. exact HI.
  - apply bind_inv in E. destruct E as (c & s1 & E1 & E).
    pose proof (Hb lo s c s1 (le_n _) ltac:(lia) HI E1) as Hc. destruct c as [a|].
    + apply ret_inv in E. destruct E; subst. exact Hc.
    + replace (lo + S n) with (S lo + n) by lia. eapply IH; [|exact Hc|exact E].
      intros i s2 r2 s2' H1 H2. apply Hb; lia.
Qed.

(* reduce record projections of explicit states only *)
Ltac pcbn :=
  cbn [raw_start raw_end data_start data_end pending_attribute attribute number_attribute_returned err raw_tag
       text_is_raw convert_null allow_cdata token panic oof
       set_raw_start set_raw_end set_data_start set_data_end set_pending_attribute set_attribute
       set_number_attribute_returned set_err set_raw_tag set_text_is_raw set_convert_null set_allow_cdata set_token
       set_panic set_oof fst snd].

Ltac inv_side := pcbn; lia.

(* one symbolic-execution step on a hypothesis  E : m inp s = (a, s') *)
Ltac inv_prim E :=
  match type of E with
  | ret _ _ _ = _ => apply ret_inv in E; destruct E as [-> ->]
  | get _ _ = _ => apply get_inv in E; destruct E as [-> ->]
  | upd _ _ _ = _ => apply upd_inv in E; match type of E with ?x = _ => subst x end
  | input_len _ _ = _ => apply input_len_inv in E; destruct E as [-> ->]
  | sub_usize _ _ _ _ _ = _ => rewrite sub_usize_ok in E by inv_side; apply pair_equal_spec in E; destruct E as [<- <-]
  | dec_raw_end _ _ _ _ = _ => rewrite dec_raw_end_ok in E by inv_side; apply pair_equal_spec in E; destruct E as [<- <-]
  | index_of ?site ?l ?i ?inp ?s = _ =>
      let c := fresh "c" in let Hc := fresh "Hc" in let Ec := fresh "Ec" in
      destruct (index_of_ok site l i inp s) as (c & Hc & Ec); [inv_side | rewrite Ec in E; apply pair_equal_spec in E; destruct E as [<- <-]; clear Ec]
  | index ?site ?i ?inp ?s = _ =>
      let c := fresh "c" in let Hc := fresh "Hc" in let Ec := fresh "Ec" in
      destruct (index_ok site i inp s) as (c & Hc & Ec); [inv_side | rewrite Ec in E; apply pair_equal_spec in E; destruct E as [<- <-]; clear Ec]
  | slice ?site ?a ?b ?inp ?s = _ =>
      rewrite slice_ok in E by inv_side; apply pair_equal_spec in E; destruct E as [<- <-]
  | read_byte _ _ = _ =>
      let Hb := fresh "Hb" in let Hlt := fresh "Hlt" in
      apply read_byte_inv in E; destruct E as [(Hb & Hlt & ->) | (Hlt & -> & ->)]
  end.
