(* Codec.v — FilterBodyAction::new with a Content-Encoding header (src/filter/filter_body.rs, feature "compress"):
   a decode stage in front and an encode stage at the back of the chain when the (lower-cased) encoding is in the
   table of src/filter/encoding/mod.rs, and NO chain at all otherwise.
   The codecs themselves (flate2, brotli) are parameters: streaming transducers with a state.  Codec failures
   (corrupt streams) are not modelled: C14 quantifies over valid streams. *)
Require Import RIO.Base RIO.TokMonad RIO.HtmlTok RIO.BodyText RIO.HtmlFilter RIO.ChainProofs RIO.BodyProofs.
Close Scope N_scope.

Section Codec.
Variable lower : str -> str.
Variable sel : str -> str -> bool.
Variables D E : Type.
Variable dec_new : str -> D.                    (* DecodeFilterBody::new(encoding) *)
Variable enc_new : str -> E.                    (* EncodeFilterBody::new(encoding) *)
Variable dtf : D -> str -> D * str.             (* DecodeFilterBody::filter: write, flush, drain *)
Variable dte : D -> D * str.                    (* DecodeFilterBody::end *)
Variable etf : E -> str -> E * str.
Variable ete : E -> E * str.

Inductive stage14 := SDec (d : D) | SMid (s : stage) | SEnc (e : E).

Definition stage14_tf (st : stage14) (data : str) : stage14 * str :=
  match st with
  | SDec d => let '(d', o) := dtf d data in (SDec d', o)
  | SMid s => let '(s', o) := stage_tf lower sel s data in (SMid s', o)
  | SEnc e => let '(e', o) := etf e data in (SEnc e', o)
  end.
Definition stage14_te (st : stage14) : stage14 * str :=
  match st with
  | SDec d => let '(d', o) := dte d in (SDec d', o)
  | SMid s => let '(s', o) := stage_te s in (SMid s', o)
  | SEnc e => let '(e', o) := ete e in (SEnc e', o)
  end.

(* FilterBodyAction::new; [content_encoding] is the lower-cased value of the last Content-Encoding header *)
Definition stages14 (supported : list str) (content_encoding : option str) (ctok : bool) (fs : list body_filter) : list stage14 :=
  let chain := map SMid (stages_of ctok fs) in
  if is_nil chain then []
  else match content_encoding with
       | None => chain
       | Some enc => if mem_str enc supported then SDec (dec_new enc) :: chain ++ [SEnc (enc_new enc)] else []
       end.

Definition body_run14 (supported : list str) (content_encoding : option str) (ctok : bool) (fs : list body_filter) (chunks : list str) : str :=
  run stage14 stage14_tf stage14_te (stages14 supported content_encoding ctok fs) chunks.

(* the decoder's outputs chunk by chunk, and at its end *)
Fixpoint dec_outs (d : D) (cs : list str) : list str * str :=
  match cs with
  | [] => ([], snd (dte d))
  | c :: cs' => let '(d', o) := dtf d c in let '(ps, e) := dec_outs d' cs' in (o :: ps, e)
  end.

(* the encoder's total output when it is given the pieces [os] (empty pieces never reach it) and ended with [eo] pending *)
Fixpoint enc_out (e : E) (os : list str) (eo : str) : str :=
  match os with
  | [] => if is_nil eo then snd (ete e) else let '(e1, o1) := etf e eo in o1 ++ snd (ete e1)
  | o :: os' => if is_nil o then enc_out e os' eo else let '(e', x) := etf e o in x ++ enc_out e' os' eo
  end.
End Codec.
