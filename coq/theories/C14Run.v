(* C14Run.v — executable verdicts for C14: filtering a compressed body.
   The codecs (flate2, brotli) are oracles: the model predicts the DECODED output as the output of the plain
   chain on the decoded body (C03 model), and an empty chain for encodings outside the extracted table. *)
Require Import RIO.Base RIO.TokMonad RIO.HtmlTok RIO.BodyText RIO.HtmlFilter RIO.C03Run.
Close Scope N_scope.
Open Scope nat_scope.

(* N.iter k (cons b): run-length form of long bodies in harness output *)
Definition rep (k b : N) (tl : str) : str := N.iter k (cons b) tl.

Record case14 := {
  k_ctok : bool;                         (* content type absent or text/html *)
  k_enc : str;                          (* Content-Encoding value, lowercased by FilterBodyAction::new *)
  k_filters : list body_filter;
  k_plain : list N;                     (* the decoded body *)
  k_sel : list (str * str * bool);
  k_nparts : N;                         (* how many chunks the compressed stream was cut into (coverage only) *)
  o_plain_run : list N;                 (* crate: same filters on the plain body, no content-encoding *)
  o_decoded : option (list N);          (* crate output for the compressed chunks, decoded by an independent decoder; None: not a valid stream *)
  o_passthrough : bool                  (* crate output = its input, byte for byte *)
}.

Definition opt_str_eqb (a : option (list N)) (b : list N) : bool := match a with Some x => str_eqb x b | None => false end.

(* the encodings the property names: gzip, deflate, br *)
Definition property_encodings : list str :=
  [[103;122;105;112]; [100;101;102;108;97;116;101]; [98;114]]%N.

(* FilterBodyAction::new: with a content-encoding header the chain is wrapped in decode/encode when the encoding is
   in the table, and EMPTY (no filtering at all) otherwise.
   bit 1: model (with the table extracted from the source) <> implementation;
   bit 4: the property, with the encodings it names *)
Definition verdict14 (supported_encodings : list str) (c : case14) : N :=
  let m := body_run lower_ascii (sel_lookup (k_sel c)) (k_ctok c) (k_filters c) [k_plain c] in
  let no_stage := is_nil (stages_of (k_ctok c) (k_filters c)) in
  (vbit (if mem_str (k_enc c) supported_encodings && negb no_stage
         then str_eqb m (o_plain_run c) && opt_str_eqb (o_decoded c) m
         else o_passthrough c) 1
   + vbit (if mem_str (k_enc c) property_encodings && negb no_stage
           then opt_str_eqb (o_decoded c) (o_plain_run c)
           else o_passthrough c) 4)%N.

Definition spec_verdict14 (c : case14) : N :=
  (* without the model: for a named encoding either outcome the property allows (filters applied / no filter could be built) *)
  vbit (if mem_str (k_enc c) property_encodings
        then opt_str_eqb (o_decoded c) (o_plain_run c) || o_passthrough c
        else o_passthrough c) 4.
