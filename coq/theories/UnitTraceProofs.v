(* UnitTraceProofs.v — (A) LinkedHashSet vocabulary, (E) erasure: the traced functions of RIO.UnitTrace return, as
   their primary result, what the untraced functions of RIO.ActionModel / RIO.Headers / RIO.BodyText / RIO.Pipeline
   return on the projections (u_rule, erase_ua, uh_filter, ub_filter).  Every existing theorem therefore carries over. *)
Require Import RIO.Base RIO.Headers RIO.BodyText RIO.ActionModel RIO.ActionSpec RIO.ActionProofs RIO.Pipeline RIO.UnitTrace.

(* ------------------------------------------------------------------ (A) lists *)
Lemma filter_true_id {A} (P : A -> bool) l : (forall x, In x l -> P x = true) -> filter P l = l.
Proof.
  induction l as [|a l IH]; intros H; cbn; [reflexivity|].
  rewrite (H a (or_introl eq_refl)). f_equal. apply IH. intros x Hx. apply H. right. exact Hx.
Qed.

Lemma filter_false_nil {A} (P : A -> bool) l : (forall x, In x l -> P x = false) -> filter P l = [].
Proof.
  induction l as [|a l IH]; intros H; cbn; [reflexivity|].
  rewrite (H a (or_introl eq_refl)). apply IH. intros x Hx. apply H. right. exact Hx.
Qed.

Lemma filter_filter {A} (P Q : A -> bool) l : filter Q (filter P l) = filter (fun x => P x && Q x) l.
Proof.
  induction l as [|a l IH]; cbn; [reflexivity|]. destruct (P a); cbn; [destruct (Q a); rewrite IH; reflexivity|exact IH].
Qed.

Lemma filter_map_comm {A B} (P : B -> bool) (g : A -> B) l : filter P (map g l) = map g (filter (fun x => P (g x)) l).
Proof. induction l as [|a l IH]; cbn; [reflexivity|]. destruct (P (g a)); cbn; rewrite IH; reflexivity. Qed.

Lemma fold_left_map {A B C} (f : A -> B -> A) (g : C -> B) l : forall a, fold_left f (map g l) a = fold_left (fun a x => f a (g x)) l a.
Proof. induction l as [|c l IH]; intros a; cbn; [reflexivity|apply IH]. Qed.

Lemma is_nil_map {A B} (g : A -> B) l : is_nil (map g l) = is_nil l.
Proof. destruct l; reflexivity. Qed.

Lemma map_fst_attach {A} (fs : list A) : forall us, map fst (attach fs us) = fs.
Proof. induction fs as [|f fs IH]; intros us; cbn; [reflexivity|]. destruct us as [|u us]; cbn; rewrite IH; reflexivity. Qed.

(* ------------------------------------------------------------------ (A) LinkedHashSet *)
Lemma lhs_insert_notin x l : ~ In x l -> lhs_insert x l = l ++ [x].
Proof.
  intros H. unfold lhs_insert. f_equal. apply filter_true_id. intros y Hy. apply negb_true_iff, str_eqb_neq.
  intros E. subst. contradiction.
Qed.

Lemma NoDup_snoc {A} (l : list A) x : NoDup l -> ~ In x l -> NoDup (l ++ [x]).
Proof. intros Hn Hx. eapply Permutation_NoDup; [apply Permutation_cons_append|]. constructor; assumption. Qed.

Lemma NoDup_lhs_insert x l : NoDup l -> NoDup (lhs_insert x l).
Proof.
  intros H. unfold lhs_insert. apply NoDup_snoc; [apply NoDup_filter; exact H|].
  rewrite filter_In. intros [_ E]. rewrite str_eqb_refl in E. discriminate.
Qed.

Lemma NoDup_apply_opt o l : NoDup l -> NoDup (apply_opt o l).
Proof. destruct o; cbn; [apply NoDup_lhs_insert|exact (fun H => H)]. Qed.

Lemma NoDup_fold_inv {A} (f : list str -> A -> list str) (ts : list A) :
  (forall l t, NoDup l -> NoDup (f l t)) -> forall l, NoDup l -> NoDup (fold_left f ts l).
Proof. intros Hf. induction ts as [|t ts IH]; intros l Hl; cbn; [exact Hl|]. apply IH, Hf, Hl. Qed.

(* what remains of a list fed to LinkedHashSet::insert one by one: the LAST occurrence of every element, in order *)
Fixpoint dedup_last (l : list str) : list str :=
  match l with
  | [] => []
  | x :: l' => if mem_str x l' then dedup_last l' else x :: dedup_last l'
  end.

Lemma In_dedup_last x l : In x (dedup_last l) <-> In x l.
Proof.
  induction l as [|y l IH]; cbn; [tauto|]. destruct (mem_str y l) eqn:E.
  - rewrite IH. split; [tauto|]. intros [->|H]; [apply mem_str_In; exact E|exact H].
  - cbn. rewrite IH. tauto.
Qed.

Lemma NoDup_dedup_last l : NoDup (dedup_last l).
Proof.
  induction l as [|y l IH]; cbn; [constructor|]. destruct (mem_str y l) eqn:E; [exact IH|].
  constructor; [|exact IH]. rewrite In_dedup_last. intros H. apply mem_str_In in H. congruence.
Qed.

Lemma dedup_last_NoDup l : NoDup l -> dedup_last l = l.
Proof.
  induction l as [|y l IH]; intros H; cbn; [reflexivity|]. inversion H as [|? ? Hy Hl]; subst.
  destruct (mem_str y l) eqn:E; [apply mem_str_In in E; contradiction|]. f_equal. apply IH. exact Hl.
Qed.

(* Extend: the old elements that are not re-inserted keep their place, the inserted ones follow *)
Theorem lhs_extend_spec xs : forall l, lhs_extend xs l = filter (fun y => negb (mem_str y xs)) l ++ dedup_last xs.
Proof.
  unfold lhs_extend. induction xs as [|x xs IH]; intros l; cbn [fold_left dedup_last].
  - rewrite app_nil_r. symmetry. apply filter_true_id. reflexivity.
  - rewrite IH. unfold lhs_insert. rewrite filter_app, filter_filter. cbn [filter].
    rewrite <- app_assoc.
    assert (Hf : filter (fun y => negb (str_eqb y x) && negb (mem_str y xs)) l = filter (fun y => negb (mem_str y (x :: xs))) l).
    { apply filter_ext. intros y. unfold mem_str. cbn [existsb]. rewrite negb_orb. reflexivity. }
    rewrite Hf. f_equal. destruct (mem_str x xs); reflexivity.
Qed.

Lemma lhs_of_list_spec xs : lhs_of_list xs = dedup_last xs.
Proof. unfold lhs_of_list. rewrite lhs_extend_spec. reflexivity. Qed.

Lemma In_lhs_extend xs l y : In y (lhs_extend xs l) <-> In y xs \/ In y l.
Proof.
  rewrite lhs_extend_spec, in_app_iff, filter_In, In_dedup_last. split.
  - tauto.
  - intros [H|H]; [right; exact H|]. destruct (mem_str y xs) eqn:E; [right; apply mem_str_In; exact E|left; split; [exact H|reflexivity]].
Qed.

Lemma NoDup_lhs_extend xs l : NoDup l -> NoDup (lhs_extend xs l).
Proof. intros H. unfold lhs_extend. apply NoDup_fold_inv; [|exact H]. intros l0 t Hl. apply NoDup_lhs_insert. exact Hl. Qed.

(* extending a set with a duplicate-free list that covers it leaves exactly that list *)
Lemma lhs_extend_cover xs l : NoDup xs -> (forall y, In y l -> In y xs) -> lhs_extend xs l = xs.
Proof.
  intros Hn Hc. rewrite lhs_extend_spec, dedup_last_NoDup by exact Hn.
  rewrite filter_false_nil; [reflexivity|]. intros y Hy. apply negb_false_iff, mem_str_In, Hc, Hy.
Qed.

(* ------------------------------------------------------------------ (E) from_route_rule, merge, sort, fold *)
Lemma erase_merge_status o n : option_map us_scu (t_merge_status o n) = merge_status (option_map us_scu o) (option_map us_scu n).
Proof.
  destruct n as [n|], o as [o|]; cbn; try reflexivity.
  destruct (negb (is_nil (sc_on (us_scu o))) || is_nil (sc_on (us_scu n))); reflexivity.
Qed.

Lemma erase_merge_log o n : option_map ul_lov (t_merge_log o n) = merge_log (option_map ul_lov o) (option_map ul_lov n).
Proof.
  destruct n as [n|], o as [o|]; cbn; try reflexivity.
  destruct (negb (is_nil (lo_on (ul_lov o))) || is_nil (lo_on (ul_lov n))); reflexivity.
Qed.

Theorem erase_merge a b : erase_ua (t_merge a b) = merge (erase_ua a) (erase_ua b).
Proof.
  unfold erase_ua, t_merge, merge. cbn [ua_status ua_hf ua_bf ua_rule_ids ua_traces ua_applied ua_log
    a_status a_hf a_bf a_rule_ids a_traces a_applied a_log].
  rewrite erase_merge_status, erase_merge_log, !map_app. reflexivity.
Qed.

Theorem erase_from_route_rule u sk ov rv :
  from_route_rule (u_rule u) sk ov rv
  = (option_map erase_ua (fst (fst (fst (t_from_route_rule u sk ov rv)))),
     snd (fst (fst (t_from_route_rule u sk ov rv))), snd (fst (t_from_route_rule u sk ov rv))).
Proof.
  unfold t_from_route_rule, from_route_rule.
  destruct (sampled_out (r_sampling (u_rule u)) ov rv); [reflexivity|].
  cbn [fst snd option_map]. unfold erase_ua.
  cbn [ua_status ua_hf ua_bf ua_rule_ids ua_traces ua_applied ua_log].
  repeat f_equal.
  - destruct (opt_default 0%N (r_status (u_rule u))); reflexivity.
  - rewrite map_app. f_equal.
    + destruct (r_target (u_rule u)) as [t|]; [destruct (is_nil t)|]; reflexivity.
    + rewrite map_map. cbn [uhfa_base].
      rewrite <- (map_fst_attach (r_hf (u_rule u)) (u_hf_units u)) at 1. rewrite map_map. reflexivity.
  - rewrite map_map. cbn [ubfa_base].
    rewrite <- (map_fst_attach (r_bf (u_rule u)) (u_bf_units u)) at 1. rewrite map_map. reflexivity.
  - destruct (r_log (u_rule u)); reflexivity.
Qed.

Lemma erase_insert_sorted x l : map u_rule (insert_sorted_u x l) = insert_sorted (u_rule x) (map u_rule l).
Proof.
  induction l as [|y l IH]; cbn; [reflexivity|]. destruct (rule_before (u_rule x) (u_rule y)); cbn; [reflexivity|].
  rewrite IH. reflexivity.
Qed.

Theorem erase_sort l : map u_rule (sort_urules l) = sort_rules (map u_rule l).
Proof.
  induction l as [|x l IH]; cbn; [reflexivity|].
  unfold sort_urules in IH. unfold sort_rules in IH. rewrite erase_insert_sorted, IH. reflexivity.
Qed.

Theorem erase_fold_rules l : forall acc sk ov rvs,
  erase_ua (fst (t_fold_rules acc l sk ov rvs)) = fold_rules (erase_ua acc) (map u_rule l) sk ov rvs.
Proof.
  induction l as [|u l IH]; intros acc sk ov rvs; cbn [t_fold_rules fold_rules map fst]; [reflexivity|].
  rewrite (erase_from_route_rule u sk ov).
  destruct (t_from_route_rule u sk ov (match rvs with v :: _ => v | [] => 1%N end)) as [[[o reset] stop] cfg].
  cbn [fst snd]. destruct o as [ar|]; cbn [option_map].
  - destruct stop.
    + cbn [fst]. destruct reset; [reflexivity|apply erase_merge].
    + specialize (IH (if reset then ar else t_merge acc ar) sk ov
                     (match r_sampling (u_rule u), rvs with Some _, _ :: t => t | _, _ => rvs end)).
      destruct (t_fold_rules (if reset then ar else t_merge acc ar) l sk ov _) as [a e]. cbn [fst] in *.
      rewrite IH. destruct reset; [reflexivity|rewrite erase_merge; reflexivity].
  - apply IH.
Qed.

Theorem erase_from_routes_rule l sk ov rvs :
  erase_ua (fst (t_from_routes_rule l sk ov rvs)) = from_routes_rule (map u_rule l) sk ov rvs.
Proof. unfold t_from_routes_rule, from_routes_rule. rewrite erase_fold_rules, erase_sort. reflexivity. Qed.

(* ------------------------------------------------------------------ (E) status, headers, body filters, log *)
Theorem erase_get_status_code a c :
  get_status_code (erase_ua a) c = (fst (fst (t_get_status_code a c)), erase_ua (snd (fst (t_get_status_code a c)))).
Proof.
  unfold get_status_code, t_get_status_code. cbn [erase_ua a_status].
  destruct (ua_status a) as [s|]; cbn [option_map fst snd]; [|reflexivity].
  destruct (scu_get (us_scu s) c) as [st rl]. reflexivity.
Qed.

Section EraseHeaders.
Variable lower : str -> str.
Variable table : list (str * hkind).

Lemma erase_create_header_action f : option_map fst (t_create_header_action table f) = create_header_action table (uh_filter f).
Proof. unfold t_create_header_action. destruct (create_header_action table (uh_filter f)); reflexivity. Qed.

Lemma erase_collect_actions fs : map fst (t_collect_actions table fs) = collect_actions table (map uh_filter fs).
Proof.
  induction fs as [|f fs IH]; cbn; [reflexivity|]. rewrite <- erase_create_header_action.
  destruct (t_create_header_action table f) as [a|]; cbn; rewrite IH; reflexivity.
Qed.

Lemma erase_run_action a hs : fst (t_run_action lower a hs) = run_action lower (fst a) hs.
Proof. destruct a as [[[k n] v] [id th]]. destruct k; reflexivity. Qed.

Lemma erase_header_action_filter acts : forall st,
  fst (fold_left (fun st a => let '(hs', ev) := t_run_action lower a (fst st) in (hs', snd st ++ ev)) acts st)
  = filter_header_action_filter lower (map fst acts) (fst st).
Proof.
  unfold filter_header_action_filter. induction acts as [|a acts IH]; intros st; cbn [fold_left map]; [reflexivity|].
  rewrite IH. pose proof (erase_run_action a (fst st)) as H.
  destruct (t_run_action lower a (fst st)) as [hs' ev]. cbn [fst] in *. rewrite H. reflexivity.
Qed.

Theorem erase_apply_header_filters fs hs :
  fst (t_apply_header_filters lower table fs hs) = apply_header_filters lower table (map uh_filter fs) hs.
Proof.
  unfold t_apply_header_filters, apply_header_filters, t_filter_header_action_new, filter_header_action_new.
  rewrite is_nil_map. destruct (is_nil fs); [reflexivity|]. cbv zeta.
  rewrite <- erase_collect_actions, is_nil_map.
  destruct (t_collect_actions table fs) as [|a0 acts]; [reflexivity|]. cbn [is_nil].
  unfold t_filter_header_action_filter. rewrite erase_header_action_filter. reflexivity.
Qed.

Theorem erase_filter_headers a hs c add :
  filter_headers lower table (erase_ua a) hs c add
  = (fst (fst (t_filter_headers lower table a hs c add)), erase_ua (snd (fst (t_filter_headers lower table a hs c add)))).
Proof.
  unfold filter_headers, t_filter_headers. cbn [erase_ua a_traces a_applied a_hf].
  rewrite filter_map_comm, fold_left_map.
  pose proof (erase_apply_header_filters
    (map uhfa_ufilter (filter (fun f => negb (guard_skips (hfa_on (uhfa_base f)) (hfa_excl (uhfa_base f)) c)) (ua_hf a))) hs) as H.
  rewrite !map_map in *. cbn [uh_filter uhfa_ufilter] in H.
  destruct (t_apply_header_filters lower table _ hs) as [hs' ev]. cbn [fst snd] in *. rewrite <- H. reflexivity.
Qed.
End EraseHeaders.

Theorem erase_create_filter_body a c :
  create_filter_body (erase_ua a) c = (map ub_filter (fst (t_create_filter_body a c)), erase_ua (snd (t_create_filter_body a c))).
Proof.
  unfold create_filter_body, t_create_filter_body. cbn [erase_ua a_bf a_applied fst snd].
  rewrite filter_map_comm, fold_left_map, !map_map. reflexivity.
Qed.

Theorem erase_should_log_request a allow c :
  should_log_request (erase_ua a) allow c
  = (fst (fst (t_should_log_request a allow c)), erase_ua (snd (fst (t_should_log_request a allow c)))).
Proof.
  unfold should_log_request, t_should_log_request. cbn [erase_ua a_log].
  destruct (ua_log a) as [l|]; cbn [option_map fst snd]; [|reflexivity].
  destruct (lov_get (ul_lov l) c) as [al rl]. reflexivity.
Qed.

(* ------------------------------------------------------------------ (E) the body filter chain *)
Section EraseChain.
Variables (stage' stage : Type) (p : stage' -> stage).
Variable s_filter_t : stage' -> str -> option (stage' * str) * list uev.
Variable s_end_t : stage' -> option (stage' * str).
Variable s_filter : stage -> str -> option (stage * str).
Variable s_end : stage -> option (stage * str).
Definition pstage (so : stage' * str) : stage * str := (p (fst so), snd so).
Definition pchain (co : list stage' * str) : list stage * str := (map p (fst co), snd co).
Definition pfba (f : fba stage') : fba stage := {| fb_chain := map p (fb_chain f); fb_in_error := fb_in_error f |}.
Hypothesis Hf : forall st d, s_filter (p st) d = option_map pstage (fst (s_filter_t st d)).
Hypothesis He : forall st, s_end (p st) = option_map pstage (s_end_t st).

Lemma erase_chain_filter chain : forall d,
  chain_filter stage s_filter (map p chain) d = option_map pchain (fst (t_chain_filter stage' s_filter_t chain d)).
Proof.
  induction chain as [|st rest IH]; intros d; cbn [map chain_filter t_chain_filter]; [reflexivity|].
  rewrite Hf. destruct (s_filter_t st d) as [[[st' out]|] e1]; cbn [fst snd option_map pstage]; [|reflexivity].
  destruct (is_nil out); [reflexivity|]. rewrite IH.
  destruct (t_chain_filter stage' s_filter_t rest out) as [[[rest' out']|] e2]; reflexivity.
Qed.

Lemma erase_chain_end chain : forall d,
  chain_end stage s_filter s_end (map p chain) d = option_map pchain (fst (t_chain_end stage' s_filter_t s_end_t chain d)).
Proof.
  induction chain as [|st rest IH]; intros d; cbn [map chain_end t_chain_end]; [reflexivity|].
  destruct d as [d|].
  - rewrite Hf. destruct (s_filter_t st d) as [[[st1 o1]|] e1]; cbn [fst snd option_map pstage]; [|reflexivity].
    rewrite He. destruct (s_end_t st1) as [[st2 o2]|]; cbn [fst snd option_map pstage]; [|reflexivity].
    rewrite IH. destruct (t_chain_end stage' s_filter_t s_end_t rest _) as [[[rest' out]|] e2]; reflexivity.
  - rewrite He. destruct (s_end_t st) as [[st2 o2]|]; cbn [fst snd option_map pstage]; [|reflexivity].
    rewrite IH. destruct (t_chain_end stage' s_filter_t s_end_t rest _) as [[[rest' out]|] e2]; reflexivity.
Qed.

Lemma erase_fba_filter f d :
  fba_filter stage s_filter (pfba f) d
  = (pfba (fst (fst (t_fba_filter stage' s_filter_t f d))), snd (fst (t_fba_filter stage' s_filter_t f d))).
Proof.
  unfold fba_filter, t_fba_filter. cbn [pfba fb_in_error fb_chain].
  destruct (fb_in_error f) eqn:E; cbn [fst snd].
  - unfold pfba. rewrite E. reflexivity.
  - rewrite erase_chain_filter.
    destruct (t_chain_filter stage' s_filter_t (fb_chain f) d) as [[[c' out]|] e]; reflexivity.
Qed.

Lemma erase_fba_end f :
  fba_end stage s_filter s_end (pfba f)
  = (pfba (fst (fst (t_fba_end stage' s_filter_t s_end_t f))), snd (fst (t_fba_end stage' s_filter_t s_end_t f))).
Proof.
  unfold fba_end, t_fba_end. cbn [pfba fb_in_error fb_chain].
  destruct (fb_in_error f) eqn:E; cbn [fst snd].
  - unfold pfba. rewrite E. reflexivity.
  - rewrite erase_chain_end.
    destruct (t_chain_end stage' s_filter_t s_end_t (fb_chain f) None) as [[[c' out]|] e]; reflexivity.
Qed.

Lemma erase_fba_run chunks : forall f,
  fba_run stage s_filter s_end (pfba f) chunks = fst (t_fba_run stage' s_filter_t s_end_t f chunks).
Proof.
  induction chunks as [|c rest IH]; intros f; cbn [fba_run t_fba_run].
  - rewrite erase_fba_end. destruct (t_fba_end stage' s_filter_t s_end_t f) as [[f' out] e]. reflexivity.
  - rewrite erase_fba_filter. destruct (t_fba_filter stage' s_filter_t f c) as [[f' out] e]. cbn [fst snd].
    rewrite IH. destruct (t_fba_run stage' s_filter_t s_end_t f' rest) as [out' e']. reflexivity.
Qed.
End EraseChain.

Theorem erase_text_body_run fs chunks : fst (t_text_body_run fs chunks) = text_body_run (map ub_filter fs) chunks.
Proof.
  unfold t_text_body_run, text_body_run.
  rewrite <- (erase_fba_run utext_stage text_stage fst t_text_filter t_text_end
               (fun s d => Some (text_filter s d)) (fun s => Some (text_end s))).
  - unfold pfba. cbn [fb_chain fb_in_error]. rewrite !map_map. reflexivity.
  - intros st d. unfold t_text_filter, pstage. cbn [fst snd option_map]. destruct (text_filter (fst st) d); reflexivity.
  - intros st. unfold t_text_end, pstage. cbn [fst snd option_map]. destruct (text_end (fst st)); reflexivity.
Qed.

(* ------------------------------------------------------------------ (E) the analysis blocks *)
Section ErasePipeline.
Variable lower : str -> str.
Variable table : list (str * hkind).

Theorem erase_get_final_status_code_with_fallback a r f :
  get_final_status_code_with_fallback (erase_ua a) r f
  = (fst (fst (t_get_final_status_code_with_fallback a r f)), erase_ua (snd (fst (t_get_final_status_code_with_fallback a r f)))).
Proof.
  unfold get_final_status_code_with_fallback, t_get_final_status_code_with_fallback.
  rewrite erase_get_status_code. destruct (t_get_status_code a 0) as [[st0 a0] e0]. cbn [fst snd].
  destruct (negb (N.eqb st0 0)); [reflexivity|].
  rewrite erase_get_status_code. destruct (t_get_status_code a0 _) as [[fin a1] e1]. reflexivity.
Qed.

Theorem erase_response_phase a fin b sk :
  fst (t_response_phase lower table true a fin b sk) = response_phase lower table (erase_ua a) fin b sk.
Proof.
  unfold t_response_phase, response_phase.
  rewrite erase_filter_headers. destruct (t_filter_headers lower table a [] b false) as [[hs a2] e1]. cbn [fst snd].
  rewrite erase_create_filter_body. destruct (t_create_filter_body a2 b) as [bfs a3]. cbn [fst snd].
  rewrite <- erase_text_body_run. destruct (t_text_body_run bfs [sk]) as [body e2]. cbn [fst snd].
  rewrite erase_should_log_request. destruct (t_should_log_request a3 true fin) as [[lg a4] e3]. reflexivity.
Qed.

Theorem erase_analysis_response a ex sk :
  fst (t_analysis_response lower table a ex sk) = analysis_response lower table (erase_ua a) ex sk.
Proof.
  unfold t_analysis_response, analysis_response.
  rewrite erase_get_final_status_code_with_fallback.
  destruct (t_get_final_status_code_with_fallback a (opt_default 0%N ex) 200) as [[[fin b] a1] e0]. cbn [fst snd].
  rewrite <- erase_response_phase. destruct (t_response_phase lower table true a1 fin b sk) as [resp e1]. reflexivity.
Qed.

Theorem erase_live_response a b sk :
  fst (t_live_response lower table true a b sk) = live_response lower table (erase_ua a) b sk.
Proof.
  unfold t_live_response, live_response.
  rewrite erase_get_status_code. destruct (t_get_status_code a 0) as [[st0 a0] e0]. cbn [fst snd].
  destruct (negb (N.eqb st0 0)).
  - rewrite <- erase_response_phase. destruct (t_response_phase lower table true a0 st0 st0 sk) as [resp e1]. reflexivity.
  - rewrite erase_get_status_code. destruct (t_get_status_code a0 b) as [[fin a1] e1]. cbn [fst snd].
    rewrite <- erase_response_phase. destruct (t_response_phase lower table true a1 fin b sk) as [resp e2]. reflexivity.
Qed.

Theorem erase_analysis_events l sk ov ex skel :
  fst (t_analysis_events lower table l sk ov ex skel) = analysis_of_rules lower table (map u_rule l) sk ov ex skel.
Proof.
  unfold t_analysis_events, analysis_of_rules. rewrite <- erase_from_routes_rule.
  destruct (t_from_routes_rule l sk ov []) as [a e0]. cbn [fst].
  rewrite <- erase_analysis_response. destruct (t_analysis_response lower table a ex skel) as [resp e1]. reflexivity.
Qed.

Theorem erase_analysis_pre l sk ov ex skel :
  fst (t_analysis_pre lower table l sk ov ex skel) = analysis_of_rules lower table (map u_rule l) sk ov ex skel.
Proof.
  unfold t_analysis_pre. rewrite <- erase_analysis_events.
  destruct (t_analysis_events lower table l sk ov ex skel) as [resp e]. reflexivity.
Qed.

(* the response reported next to the unit trace is the response of the untraced model, whatever the HashMap order *)
Theorem erase_analysis_of_rules_ordered order l sk ov ex skel :
  fst (t_analysis_of_rules_ordered lower table order l sk ov ex skel) = analysis_of_rules lower table (map u_rule l) sk ov ex skel.
Proof.
  unfold t_analysis_of_rules_ordered. rewrite <- erase_analysis_pre.
  destruct (t_analysis_pre lower table l sk ov ex skel) as [resp t]. reflexivity.
Qed.

Theorem erase_analysis_of_rules l sk ov ex skel :
  fst (t_analysis_of_rules lower table l sk ov ex skel) = analysis_of_rules lower table (map u_rule l) sk ov ex skel.
Proof.
  unfold t_analysis_of_rules. rewrite <- erase_analysis_pre.
  destruct (t_analysis_pre lower table l sk ov ex skel) as [resp t]. reflexivity.
Qed.
End ErasePipeline.
