(* RouterHist.v — histories of router operations: the model side (fold of the Router operations of
   RIO.Matchers) and the specification side (a flat list of live routes). *)
Require Import RIO.Base RIO.Route RIO.Layer RIO.Tree RIO.Matchers.

Inductive rop :=
| RIns (r : route)                                          (* Router::insert_route *)
| RRem (id : str)                                           (* Router::remove *)
| RBatch (ids : list str)                                   (* Router::batch_remove *)
| RChange (added updated : list route) (removed : list str) (* Router::apply_change_set *)
| RCache (limit : option N)                                 (* Router::cache *)
| RCloneMut (ops : list rop).   (* derive a router from a shared one (clone), mutate the derived one: the original is not touched *)

Section Model.
Variable lower : str -> str.
Variable eng : bool -> pat -> list N -> bool.
Variable valid : bool -> pat -> bool.
Variables ic_host ic_path always : bool.

Definition rstep (R : router) (o : rop) : router :=
  match o with
  | RIns r => router_insert lower eng valid ic_host ic_path always r R
  | RRem id => fst (router_remove lower eng valid ic_host ic_path always id R)
  | RBatch xs => router_batch_remove lower eng valid ic_host ic_path always xs R
  | RChange a u d => router_apply_change_set lower eng valid ic_host ic_path always a u d R
  | RCache l => router_cache lower eng valid ic_host ic_path always l R
  | RCloneMut _ => R
  end.
Definition rrun (ops : list rop) (R : router) : router := fold_left rstep ops R.
Definition rbuild (L : list route) : router := rrun (map RIns L) (router_new lower eng valid ic_host ic_path always).
End Model.

(* the flat specification *)
Definition live_step (L : list route) (o : rop) : list route :=
  let without xs := filter (fun r => negb (mem_str (rt_id r) xs)) L in
  match o with
  | RIns r => filter (fun x => negb (str_eqb (rt_id x) (rt_id r))) L ++ [r]
  | RRem id => without [id]
  | RBatch xs => without xs
  | RChange a u d => without (d ++ map rt_id u) ++ u ++ a
  | RCache _ => L
  | RCloneMut _ => L
  end.
Definition live_from (L : list route) (ops : list rop) : list route := fold_left live_step ops L.
Definition live (ops : list rop) : list route := live_from [] ops.
