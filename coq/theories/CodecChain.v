(* CodecChain.v — FilterBodyAction with a decoder in front and an encoder at the back (content-encoding):
   for ANY chain discipline  h :: mid ++ [l]  where the head's outputs concatenate to [plain], the middle stages
   satisfy the split law and whatever is fed to the last stage can be recovered from its output, the whole chain's
   output decodes to the output of the middle chain on [plain].  Generic in the stage type. *)
Require Import RIO.Base RIO.BodyText RIO.ChainProofs.

Section CodecChain.
Variable stage : Type.
Variable tf : stage -> str -> stage * str.
Variable te : stage -> stage * str.
Notation sf := (fun s d => Some (tf s d)).
Notation se := (fun s => Some (te s)).
Notation cf := (cf stage tf).
Notation run := (run stage tf te).
Notation split_law := (split_law stage tf).

Definition some_ne (d : str) : option str := if is_nil d then None else Some d.

(* do_end as a total function (output only) *)
Fixpoint ce (chain : list stage) (data : option str) : str :=
  match chain with
  | [] => match data with Some d => d | None => [] end
  | st :: rest =>
      let nd := match data with
                | None => snd (te st)
                | Some d => let '(st1, o1) := tf st d in o1 ++ snd (te st1)
                end in
      ce rest (some_ne nd)
  end.

Lemma chain_end_ce chain data : exists ch', chain_end stage sf se chain data = Some (ch', ce chain data).
Proof.
  revert data. induction chain as [|st rest IH]; intros data; cbn [chain_end ce]; [eexists; reflexivity|].
  destruct data as [d|].
  - destruct (tf st d) as [st1 o1]. destruct (te st1) as [st2 o2]. cbn [snd]. unfold some_ne.
    destruct (IH (if is_nil (o1 ++ o2) then None else Some (o1 ++ o2))) as [ch' Hc]. unfold str in *. rewrite Hc. eexists; reflexivity.
  - destruct (te st) as [st2 o2]. cbn [snd]. unfold some_ne.
    destruct (IH (if is_nil o2 then None else Some o2)) as [ch' Hc]. unfold str in *. rewrite Hc. eexists; reflexivity.
Qed.

Lemma run_nil chain : run chain [] = ce chain None.
Proof.
  unfold ChainProofs.run. cbn [fba_run]. unfold fba_end. cbn [fb_in_error fb_chain].
  destruct (chain_end_ce chain None) as [ch' ->]. reflexivity.
Qed.

(* ---------------------------------------------------------------- the head of the chain *)
(* what the rest of a chain does with the pieces its head emits: empty pieces stop at the head (the `break`) *)
Fixpoint feed (rest : list stage) (pieces : list str) (e : str) : str :=
  match pieces with
  | [] => ce rest (some_ne e)
  | p :: ps => if is_nil p then feed rest ps e else let '(rest', o) := cf rest p in o ++ feed rest' ps e
  end.

(* the head's outputs: one per chunk, and its end *)
Fixpoint houts (h : stage) (cs : list str) : list str * str :=
  match cs with
  | [] => ([], snd (te h))
  | c :: cs' => let '(h', o) := tf h c in let '(ps, e) := houts h' cs' in (o :: ps, e)
  end.

Lemma run_head h rest cs : run (h :: rest) cs = feed rest (fst (houts h cs)) (snd (houts h cs)).
Proof.
  revert h rest. induction cs as [|c cs IH]; intros h rest.
  - rewrite run_nil. cbn [ce houts fst snd feed]. reflexivity.
  - rewrite run_cons. cbn [ChainProofs.cf houts]. destruct (tf h c) as [h' o].
    destruct (houts h' cs) as [ps e] eqn:Eh. cbn [fst snd feed].
    destruct (is_nil o) eqn:En.
    + cbn [fst snd]. rewrite IH, Eh. cbn [fst snd]. destruct o; [reflexivity|discriminate].
    + destruct (cf rest o) as [rest' o']. cbn [fst snd]. rewrite IH, Eh. reflexivity.
Qed.

(* ---------------------------------------------------------------- the last stage of the chain *)
Definition wf_data (data : option str) : Prop := match data with Some d => is_nil d = false | None => True end.
Lemma wf_some_ne d : wf_data (some_ne d).
Proof. unfold some_ne. destruct (is_nil d) eqn:E; cbn; [exact I|exact E]. Qed.

Lemma cf_tail mid l d : is_nil d = false ->
  cf (mid ++ [l]) d = (let '(mid', o) := cf mid d in
                       if is_nil o then (mid' ++ [l], o) else let '(l', o') := tf l o in (mid' ++ [l'], o')).
Proof.
  revert d. induction mid as [|st mid IH]; intros d Hd.
  - cbn [app ChainProofs.cf]. rewrite Hd. destruct (tf l d) as [l' o']. destruct (is_nil o'); reflexivity.
  - cbn [app ChainProofs.cf]. destruct (tf st d) as [st' o]. destruct (is_nil o) eqn:En.
    + rewrite En. reflexivity.
    + rewrite (IH o En). destruct (cf mid o) as [mid' o2]. destruct (is_nil o2); [reflexivity|].
      destruct (tf l o2) as [l' o3]. reflexivity.
Qed.

Lemma some_ne_wf data : wf_data data -> some_ne (match data with Some d => d | None => [] end) = data.
Proof. destruct data as [d|]; cbn; [intros H; unfold some_ne; rewrite H; reflexivity|reflexivity]. Qed.

Lemma ce_tail mid l data : wf_data data -> ce (mid ++ [l]) data = ce [l] (some_ne (ce mid data)).
Proof.
  revert data. induction mid as [|st mid IH]; intros data Hw.
  - cbn [app]. change (ce [] data) with (match data with Some d => d | None => [] end). rewrite some_ne_wf by exact Hw. reflexivity.
  - cbn [app]. cbn [ce]. apply IH. apply wf_some_ne.
Qed.

(* the middle chain's outputs call by call (what the last stage is given) *)
Fixpoint feed_tr (rest : list stage) (pieces : list str) (e : str) : list str * str :=
  match pieces with
  | [] => ([], ce rest (some_ne e))
  | p :: ps => if is_nil p then feed_tr rest ps e
               else let '(rest', o) := cf rest p in let '(os, eo) := feed_tr rest' ps e in (o :: os, eo)
  end.

Lemma feed_concat rest pieces e : feed rest pieces e = concat (fst (feed_tr rest pieces e)) ++ snd (feed_tr rest pieces e).
Proof.
  revert rest. induction pieces as [|p ps IH]; intros rest; cbn [feed feed_tr]; [reflexivity|].
  destruct (is_nil p); [apply IH|]. destruct (cf rest p) as [rest' o]. rewrite IH.
  destruct (feed_tr rest' ps e) as [os eo]. cbn [fst snd concat]. rewrite app_assoc. reflexivity.
Qed.

Lemma feed_tail mid l pieces e :
  feed (mid ++ [l]) pieces e = feed [l] (fst (feed_tr mid pieces e)) (snd (feed_tr mid pieces e)).
Proof.
  revert mid l. induction pieces as [|p ps IH]; intros mid l; cbn [feed feed_tr].
  - cbn [fst snd feed]. apply ce_tail. apply wf_some_ne.
  - destruct (is_nil p) eqn:Ep; [apply IH|].
    rewrite (cf_tail mid l p Ep). destruct (cf mid p) as [mid' o].
    destruct (feed_tr mid' ps e) as [os eo] eqn:Et. cbn [fst snd feed].
    destruct (is_nil o) eqn:Eo.
    + rewrite IH, Et. cbn [fst snd]. destruct o; [reflexivity|discriminate].
    + cbn [ChainProofs.cf]. destruct (tf l o) as [l' o']. rewrite IH, Et. cbn [fst snd].
      destruct (is_nil o'); reflexivity.
Qed.

(* ---------------------------------------------------------------- the middle: stages with the split law *)
Lemma split_law_step s c : split_law s -> split_law (fst (tf s c)).
Proof.
  intros H a b.
  pose proof (H c (a ++ b)) as H1. pose proof (H (c ++ a) b) as H2. pose proof (H c a) as H3.
  rewrite app_assoc in H1. rewrite <- H1 in H2. clear H1.
  destruct (tf s c) as [s1 oc]. cbn [fst]. destruct (tf s1 a) as [s1a oa]. rewrite <- H3 in H2.
  destruct (tf s1a b) as [s2 ob]. destruct (tf s1 (a ++ b)) as [s2' oab].
  inversion H2 as [[Hs Ho]]. rewrite <- app_assoc in Ho. apply app_inv_head in Ho. rewrite Ho. reflexivity.
Qed.

Lemma cf_split_good chain d : Forall split_law chain -> Forall split_law (fst (cf chain d)).
Proof.
  apply (cf_good stage tf split_law). intros s c H. apply split_law_step. exact H.
Qed.

Lemma chain_split' chain : Forall split_law chain -> forall c1 c2,
  (let '(ch1, o1) := cf chain c1 in let '(ch2, o2) := cf ch1 c2 in (ch2, o1 ++ o2)) = cf chain (c1 ++ c2).
Proof. apply (chain_split stage tf split_law). intros s H; exact H. Qed.

Lemma cf_length chain d : length (fst (cf chain d)) = length chain.
Proof.
  revert d. induction chain as [|st rest IH]; intros d; cbn [ChainProofs.cf]; [reflexivity|].
  destruct (tf st d) as [st' o]. destruct (is_nil o); [reflexivity|]. specialize (IH o). destruct (cf rest o). cbn [fst length] in *. congruence.
Qed.

(* ending with pending data = filtering it, then ending *)
Lemma end_data_n n : forall chain, length chain = n -> Forall split_law chain -> forall d, is_nil d = false ->
  ce chain (Some d) = snd (cf chain d) ++ ce (fst (cf chain d)) None.
Proof.
  induction n as [|n IH]; intros chain Hn Hg d Hd.
  - destruct chain; [|discriminate]. cbn. rewrite app_nil_r. reflexivity.
  - destruct chain as [|st rest]; [discriminate|]. injection Hn as Hn.
    inversion Hg as [|? ? Hs Hr]; subst. cbn [ce ChainProofs.cf].
    destruct (tf st d) as [st1 o1]. destruct (te st1) as [st2 o2] eqn:Ee. cbn [snd].
    destruct (is_nil o1) eqn:E1.
    + cbn [fst snd ce]. rewrite Ee. cbn [snd]. destruct o1; [reflexivity|discriminate].
    + destruct o2 as [|y o2'].
      * rewrite app_nil_r. unfold some_ne at 1. rewrite E1. etransitivity; [apply (IH rest eq_refl Hr o1 E1)|].
        destruct (cf rest o1) as [rest' o']. cbn [fst snd ce]. rewrite Ee. cbn [snd]. reflexivity.
      * assert (En : is_nil (o1 ++ y :: o2') = false) by (destruct o1; reflexivity).
        unfold some_ne at 1. rewrite En. etransitivity; [apply (IH rest eq_refl Hr _ En)|].
        pose proof (chain_split' rest Hr o1 (y :: o2')) as Hsp.
        pose proof (cf_split_good rest o1 Hr) as Hg'.
        pose proof (cf_length rest o1) as Hl.
        destruct (cf rest o1) as [rest' o']. cbn [fst snd] in *.
        destruct (cf rest' (y :: o2')) as [r2 b] eqn:E2. rewrite <- Hsp. cbn [fst snd ce]. rewrite Ee. cbn [snd].
        unfold some_ne. cbn [is_nil].
        rewrite <- app_assoc. f_equal. symmetry. etransitivity; [apply (IH rest' Hl Hg' (y :: o2') eq_refl)|]. rewrite E2. reflexivity.
Qed.

Lemma end_data chain : Forall split_law chain -> forall d, is_nil d = false ->
  ce chain (Some d) = snd (cf chain d) ++ ce (fst (cf chain d)) None.
Proof. apply (end_data_n (length chain)). reflexivity. Qed.

(* what the middle chain does with the head's pieces = what it does with their concatenation in one chunk *)
Lemma feed_good mid pieces e : Forall split_law mid ->
  feed mid pieces e = (if is_nil (concat pieces ++ e) then run mid [] else run mid [concat pieces ++ e]).
Proof.
  revert mid. induction pieces as [|p ps IH]; intros mid Hg; cbn [feed concat].
  - cbn [app]. unfold some_ne. destruct (is_nil e) eqn:Ee.
    + rewrite run_nil. reflexivity.
    + rewrite run_cons, run_nil. apply end_data; assumption.
  - destruct (is_nil p) eqn:Ep.
    + destruct p; [|discriminate]. cbn [app]. apply IH. exact Hg.
    + assert (En : is_nil ((p ++ concat ps) ++ e) = false) by (destruct p; [discriminate|reflexivity]).
      rewrite En. pose proof (cf_split_good mid p Hg) as Hg'.
      destruct (cf mid p) as [mid' o] eqn:Ec. cbn [fst] in Hg'. rewrite (IH mid' Hg'). rewrite <- app_assoc.
      destruct (is_nil (concat ps ++ e)) eqn:En2.
      * destruct (concat ps ++ e); [|discriminate]. rewrite app_nil_r. rewrite run_cons, Ec. reflexivity.
      * etransitivity; [|apply (run_merge stage tf te split_law (fun s H => H) mid p (concat ps ++ e) [] Hg)].
        rewrite (run_cons _ _ _ mid p), Ec. reflexivity.
Qed.

(* ---------------------------------------------------------------- the theorem *)
Variable h l : stage.
Variable mid : list stage.
Variable stream plain : str.
Variable decode_all : str -> option str.
(* the head is a streaming decoder: however the stream is cut, its outputs concatenate to the decoded body *)
Hypothesis head_decodes : forall cs, concat cs = stream -> concat (fst (houts h cs)) ++ snd (houts h cs) = plain.
(* the last stage is a streaming encoder: whatever pieces it is given (then ended), an independent decoder recovers their concatenation *)
Hypothesis last_encodes : forall os eo, decode_all (feed [l] os eo) = Some (concat os ++ eo).
Hypothesis mid_good : Forall split_law mid.

Theorem codec_chain cs : concat cs = stream ->
  decode_all (run (h :: mid ++ [l]) cs) = Some (if is_nil plain then run mid [] else run mid [plain]).
Proof.
  intros Hcs. rewrite run_head, feed_tail, last_encodes, <- feed_concat, (feed_good _ _ _ mid_good).
  rewrite (head_decodes cs Hcs). reflexivity.
Qed.
End CodecChain.
