(* UnitTraceProofs3.v — the analysis block: (R) rule_ids_applied of the trace against the action's applied-rule list,
   (O) independence of the order of the matched rules and of the HashMap's iteration order, well-formedness of the
   reported trace, and the traced form of "explain/impact = proxy order". *)
Require Import RIO.Base RIO.Headers RIO.BodyText RIO.ActionModel RIO.ActionSpec RIO.ActionProofs RIO.Pipeline RIO.PipelineProofs.
Require Import RIO.UnitTrace RIO.UnitTraceProofs RIO.UnitTraceProofs2.
Require Import Coq.Sorting.Sorted.

(* ------------------------------------------------------------------ which calls touch which field *)
(* [sel] picks the ids an event contributes to one LinkedHashSet of the trace (rule_ids_applied: EvRule; direct
   unit_ids_applied: EvAdd).  Everything below get_status_code / filter_headers only performs with-target and value
   calls, which contribute to neither. *)
Section Quiet.
Variable sel : uev -> list str.
Hypothesis HselA : forall t i, sel (EvAddT t i) = [].
Hypothesis HselO : forall t i, sel (EvOvrT t i) = [].
Hypothesis HselV : forall k v, sel (EvValue k v) = [].
Definition quiet (evs : list uev) : Prop := flat_map sel evs = [].

Lemma quiet_nil : quiet []. Proof. reflexivity. Qed.
Lemma quiet_app a b : quiet a -> quiet b -> quiet (a ++ b).
Proof. unfold quiet. intros Ha Hb. rewrite flat_map_app, Ha, Hb. reflexivity. Qed.
Lemma quiet_cfg_event tgt cfg : quiet (cfg_event tgt cfg).
Proof. destruct cfg; unfold quiet; cbn; [rewrite HselA|]; reflexivity. Qed.
Lemma quiet_unit_events ovr id th v : quiet (unit_events ovr id th v).
Proof.
  destruct id as [i|]; [|reflexivity]. destruct th as [t|]; [destruct ovr|]; unfold quiet; cbn;
    rewrite ?HselV, ?HselA, ?HselO; reflexivity.
Qed.
Lemma quiet_flat_map {A} (g : A -> list uev) l : (forall x, quiet (g x)) -> quiet (flat_map g l).
Proof. intros H. induction l as [|x l IH]; cbn; [reflexivity|]. apply quiet_app; [apply H|exact IH]. Qed.

Lemma quiet_fold_rules l : forall acc sk ov rvs, quiet (snd (t_fold_rules acc l sk ov rvs)).
Proof.
  induction l as [|u l IH]; intros acc sk ov rvs; cbn [t_fold_rules]; [reflexivity|].
  destruct (t_from_route_rule u sk ov _) as [[[o reset] stop] cfg]. destruct o as [ar|]; [|apply IH].
  assert (Hr : quiet (if reset then cfg_event s_cfg_reset cfg else [])) by (destruct reset; [apply quiet_cfg_event|reflexivity]).
  destruct stop.
  - cbn [snd]. apply quiet_app; [exact Hr|apply quiet_cfg_event].
  - specialize (IH (if reset then ar else t_merge acc ar) sk ov
                   (match r_sampling (u_rule u), rvs with Some _, _ :: t => t | _, _ => rvs end)).
    destruct (t_fold_rules _ l sk ov _) as [a e]. cbn [snd] in *. apply quiet_app; assumption.
Qed.

Section QuietHeaders.
Variable lower : str -> str.
Variable table : list (str * hkind).

Lemma quiet_run_action a hs : quiet (snd (t_run_action lower a hs)).
Proof.
  destruct a as [[[k n] v] [id th]]. destruct k; cbn [t_run_action snd]; try apply quiet_unit_events.
  - apply quiet_flat_map. intros h. destruct (name_eq lower (fst h) n); [apply quiet_unit_events|reflexivity].
  - destruct (default_found lower n hs); [reflexivity|apply quiet_unit_events].
Qed.

Lemma quiet_header_action_filter acts : forall st, quiet (snd st) ->
  quiet (snd (fold_left (fun st a => let '(hs', ev) := t_run_action lower a (fst st) in (hs', snd st ++ ev)) acts st)).
Proof.
  induction acts as [|a acts IH]; intros st Hst; cbn [fold_left]; [exact Hst|]. apply IH.
  pose proof (quiet_run_action a (fst st)) as H. destruct (t_run_action lower a (fst st)) as [hs' ev]. cbn [snd] in *.
  apply quiet_app; assumption.
Qed.

Lemma quiet_apply_header_filters fs hs : quiet (snd (t_apply_header_filters lower table fs hs)).
Proof.
  unfold t_apply_header_filters. destruct (t_filter_header_action_new table fs) as [acts|]; [|reflexivity].
  apply quiet_header_action_filter. reflexivity.
Qed.
End QuietHeaders.

(* the body filter chain *)
Section QuietChain.
Variable stage : Type.
Variable s_filter : stage -> str -> option (stage * str) * list uev.
Variable s_end : stage -> option (stage * str).
Hypothesis Hf : forall st d, quiet (snd (s_filter st d)).

Lemma quiet_chain_filter chain : forall d, quiet (snd (t_chain_filter stage s_filter chain d)).
Proof.
  induction chain as [|st rest IH]; intros d; cbn [t_chain_filter]; [reflexivity|].
  pose proof (Hf st d) as H. destruct (s_filter st d) as [[[st' out]|] e1]; cbn [snd] in *; [|exact H].
  destruct (is_nil out); [exact H|]. specialize (IH out).
  destruct (t_chain_filter stage s_filter rest out) as [[[rest' out']|] e2]; cbn [snd] in *; apply quiet_app; assumption.
Qed.

Lemma quiet_chain_end chain : forall d, quiet (snd (t_chain_end stage s_filter s_end chain d)).
Proof.
  induction chain as [|st rest IH]; intros d; cbn [t_chain_end]; [reflexivity|].
  assert (Hr : quiet (snd (match d with
               | None => (s_end st, [])
               | Some d0 => match s_filter st d0 with
                            | (None, e1) => (None, e1)
                            | (Some (st1, o1), e1) => match s_end st1 with
                                                      | None => (None, e1)
                                                      | Some (st2, o2) => (Some (st2, o1 ++ o2), e1)
                                                      end
                            end
               end))).
  { destruct d as [d0|]; [|reflexivity]. pose proof (Hf st d0) as H.
    destruct (s_filter st d0) as [[[st1 o1]|] e1]; cbn [snd] in *; [|exact H]. destruct (s_end st1) as [[st2 o2]|]; exact H. }
  destruct (match d with None => _ | Some d0 => _ end) as [[[st' nd]|] e1]; cbn [snd] in *; [|exact Hr].
  specialize (IH (if is_nil nd then None else Some nd)).
  destruct (t_chain_end stage s_filter s_end rest _) as [[[rest' out]|] e2]; cbn [snd] in *; apply quiet_app; assumption.
Qed.

Lemma quiet_fba_filter f d : quiet (snd (t_fba_filter stage s_filter f d)).
Proof.
  unfold t_fba_filter. destruct (fb_in_error f); [reflexivity|]. pose proof (quiet_chain_filter (fb_chain f) d) as H.
  destruct (t_chain_filter stage s_filter (fb_chain f) d) as [[[c' out]|] e]; exact H.
Qed.

Lemma quiet_fba_end f : quiet (snd (t_fba_end stage s_filter s_end f)).
Proof.
  unfold t_fba_end. destruct (fb_in_error f); [reflexivity|]. pose proof (quiet_chain_end (fb_chain f) None) as H.
  destruct (t_chain_end stage s_filter s_end (fb_chain f) None) as [[[c' out]|] e]; exact H.
Qed.

Lemma quiet_fba_run chunks : forall f, quiet (snd (t_fba_run stage s_filter s_end f chunks)).
Proof.
  induction chunks as [|c rest IH]; intros f; cbn [t_fba_run].
  - pose proof (quiet_fba_end f) as H. destruct (t_fba_end stage s_filter s_end f) as [[f' out] e]. exact H.
  - pose proof (quiet_fba_filter f c) as H. destruct (t_fba_filter stage s_filter f c) as [[f' out] e].
    specialize (IH f'). destruct (t_fba_run stage s_filter s_end f' rest) as [out' e']. cbn [snd] in *.
    apply quiet_app; assumption.
Qed.
End QuietChain.

Lemma quiet_text_body_run fs chunks : quiet (snd (t_text_body_run fs chunks)).
Proof.
  unfold t_text_body_run. apply quiet_fba_run. intros st d. unfold t_text_filter. cbn [snd].
  destruct (snd st) as [id|]; [|reflexivity]. destruct (ts_action (fst st)); unfold quiet; cbn; rewrite ?HselA, ?HselO; reflexivity.
Qed.

Lemma quiet_should_log a allow c : quiet (snd (t_should_log_request a allow c)).
Proof.
  unfold t_should_log_request. destruct (ua_log a) as [l|]; [|reflexivity].
  destruct (lov_get (ul_lov l) c) as [al rl]. cbn [snd]. destruct (lov_handled (ul_lov l) c); [apply quiet_cfg_event|reflexivity].
Qed.

(* when [sel] also ignores the rule-id inserts, the whole block is quiet *)
Section QuietAll.
Hypothesis HselR : forall i, sel (EvRule i) = [].
Variable lower : str -> str.
Variable table : list (str * hkind).

Lemma quiet_map_EvRule l : quiet (map EvRule l).
Proof. induction l as [|x l IH]; [reflexivity|]. unfold quiet in *. cbn. rewrite HselR, IH. reflexivity. Qed.

Lemma quiet_get_status_code a c : quiet (snd (t_get_status_code a c)).
Proof.
  unfold t_get_status_code. destruct (ua_status a) as [s|]; [|reflexivity].
  destruct (scu_get (us_scu s) c) as [st [rid|]]; cbn [snd]; [|reflexivity].
  destruct (us_target s), (us_unit s); unfold quiet; cbn; rewrite ?HselR, ?HselA; reflexivity.
Qed.

Lemma quiet_analysis_events l sk ov ex skel : quiet (snd (t_analysis_events lower table l sk ov ex skel)).
Proof.
  unfold t_analysis_events, t_from_routes_rule.
  pose proof (quiet_fold_rules (sort_urules l) uaction_default sk ov []) as H0.
  destruct (t_fold_rules uaction_default (sort_urules l) sk ov []) as [a e0]. cbn [snd] in H0.
  unfold t_analysis_response, t_get_final_status_code_with_fallback.
  pose proof (quiet_get_status_code a 0) as H1. destruct (t_get_status_code a 0) as [[st0 a0] e1]. cbn [snd] in H1.
  assert (HR : forall a' fin b, quiet (snd (t_response_phase lower table true a' fin b skel))).
  { intros a' fin b. unfold t_response_phase.
    assert (Hh : quiet (snd (t_filter_headers lower table a' [] b false))).
    { unfold t_filter_headers. pose proof (quiet_apply_header_filters lower table
        (map uhfa_ufilter (filter (fun f => negb (guard_skips (hfa_on (uhfa_base f)) (hfa_excl (uhfa_base f)) b)) (ua_hf a'))) []) as Hh.
      destruct (t_apply_header_filters lower table _ []) as [hs' ev]. cbn [snd] in *. apply quiet_app; [exact Hh|apply quiet_map_EvRule]. }
    destruct (t_filter_headers lower table a' [] b false) as [[hs a2] e2]. cbn [snd] in Hh.
    destruct (t_create_filter_body a2 b) as [bfs a3].
    pose proof (quiet_text_body_run bfs [skel]) as Hb. destruct (t_text_body_run bfs [skel]) as [body e3]. cbn [snd] in Hb.
    pose proof (quiet_should_log a3 true fin) as Hl. destruct (t_should_log_request a3 true fin) as [[lg a4] e4]. cbn [snd] in *.
    apply quiet_app; [exact Hh|apply quiet_app; assumption]. }
  destruct (negb (N.eqb st0 0)).
  - specialize (HR a0 st0 st0). destruct (t_response_phase lower table true a0 st0 st0 skel) as [resp e2]. cbn [snd] in *.
    apply quiet_app; [exact H0|apply quiet_app; assumption].
  - pose proof (quiet_get_status_code a0 (if N.eqb (opt_default 0%N ex) 0 then 200%N else opt_default 0%N ex)) as H2.
    destruct (t_get_status_code a0 _) as [[fin a1] e2]. cbn [snd] in H2.
    specialize (HR a1 fin (if N.eqb (opt_default 0%N ex) 0 then 200%N else opt_default 0%N ex)).
    destruct (t_response_phase lower table true a1 fin _ skel) as [resp e3]. cbn [snd] in *.
    apply quiet_app; [exact H0|]. apply quiet_app; [apply quiet_app; assumption|exact HR].
Qed.
End QuietAll.
End Quiet.

(* the two instances *)
Definition rule_sel (e : uev) : list str := match e with EvRule i => [i] | _ => [] end.
Definition direct_sel (e : uev) : list str := match e with EvAdd i => [i] | _ => [] end.
Definition no_rules (evs : list uev) : Prop := rule_ids_of evs = [].
Ltac by_quiet L := unfold no_rules, rule_ids_of, direct_ids_of; apply L; intros; reflexivity.

Lemma no_rules_app a b : no_rules a -> no_rules b -> no_rules (a ++ b).
Proof. exact (quiet_app rule_sel a b). Qed.
Lemma rule_ids_of_map_EvRule l : rule_ids_of (map EvRule l) = l.
Proof. induction l as [|x l IH]; cbn; [reflexivity|]. unfold rule_ids_of in IH. rewrite IH. reflexivity. Qed.
Lemma no_rules_fold_rules l acc sk ov rvs : no_rules (snd (t_fold_rules acc l sk ov rvs)).
Proof. by_quiet (quiet_fold_rules rule_sel). Qed.
Lemma no_rules_text_body_run fs chunks : no_rules (snd (t_text_body_run fs chunks)).
Proof. by_quiet (quiet_text_body_run rule_sel). Qed.
Lemma no_rules_should_log a allow c : no_rules (snd (t_should_log_request a allow c)).
Proof. by_quiet (quiet_should_log rule_sel). Qed.
Lemma no_rules_apply_header_filters lower table fs hs : no_rules (snd (t_apply_header_filters lower table fs hs)).
Proof. by_quiet (quiet_apply_header_filters rule_sel). Qed.

(* add_unit_id is never called between UnitTrace::default() and squash: unit_ids_applied is filled by squash alone *)
Theorem analysis_no_direct_add lower table l sk ov ex skel :
  direct_ids_of (snd (t_analysis_events lower table l sk ov ex skel)) = [].
Proof.
  by_quiet (quiet_analysis_events direct_sel).
Qed.

Lemma fold_rules_applied_nil l : forall acc sk ov rvs, ua_applied acc = [] -> ua_applied (fst (t_fold_rules acc l sk ov rvs)) = [].
Proof.
  induction l as [|u l IH]; intros acc sk ov rvs Ha; cbn [t_fold_rules]; [exact Ha|].
  destruct (t_from_route_rule u sk ov _) as [[[o reset] stop] cfg] eqn:E. destruct o as [ar|]; [|apply IH; exact Ha].
  assert (Har : ua_applied ar = []).
  { unfold t_from_route_rule in E. destruct (sampled_out _ _ _); [discriminate|]. inversion E. reflexivity. }
  assert (Hacc : ua_applied (if reset then ar else t_merge acc ar) = []) by (destruct reset; [exact Har|exact Ha]).
  destruct stop; [exact Hacc|].
  specialize (IH (if reset then ar else t_merge acc ar) sk ov
                 (match r_sampling (u_rule u), rvs with Some _, _ :: t => t | _, _ => rvs end) Hacc).
  destruct (t_fold_rules _ l sk ov _) as [a e]. exact IH.
Qed.

(* get_status_code inserts the same rule id into the trace and into the action's applied list *)
Lemma get_status_code_rule_ids a c :
  ua_applied (snd (fst (t_get_status_code a c))) = lhs_extend (rule_ids_of (snd (t_get_status_code a c))) (ua_applied a).
Proof.
  unfold t_get_status_code. destruct (ua_status a) as [s|]; [|reflexivity].
  destruct (scu_get (us_scu s) c) as [st [rid|]]; cbn [fst snd ua_set_applied ua_applied apply_opt]; [|reflexivity].
  destruct (us_target s), (us_unit s); reflexivity.
Qed.

Lemma get_final_rule_ids a r f :
  ua_applied (snd (fst (t_get_final_status_code_with_fallback a r f)))
  = lhs_extend (rule_ids_of (snd (t_get_final_status_code_with_fallback a r f))) (ua_applied a).
Proof.
  unfold t_get_final_status_code_with_fallback.
  pose proof (get_status_code_rule_ids a 0) as H0. destruct (t_get_status_code a 0) as [[st0 a0] e0]. cbn [fst snd] in *.
  destruct (negb (N.eqb st0 0)); [exact H0|].
  pose proof (get_status_code_rule_ids a0 (if N.eqb r 0 then f else r)) as H1.
  destruct (t_get_status_code a0 _) as [[fin a1] e1]. cbn [fst snd] in *.
  rewrite rule_ids_of_app, lhs_extend_app, <- H0. exact H1.
Qed.

Section RuleIds.
Variable lower : str -> str.
Variable table : list (str * hkind).

(* filter_headers: the rule ids it hands to the trace are the action's applied list at that point *)
Lemma filter_headers_rule_ids a hs c add :
  rule_ids_of (snd (t_filter_headers lower table a hs c add)) = ua_applied (snd (fst (t_filter_headers lower table a hs c add))).
Proof.
  unfold t_filter_headers.
  pose proof (no_rules_apply_header_filters lower table
    (map uhfa_ufilter (filter (fun f => negb (guard_skips (hfa_on (uhfa_base f)) (hfa_excl (uhfa_base f)) c)) (ua_hf a))) hs) as H.
  destruct (t_apply_header_filters lower table _ hs) as [hs' ev]. cbn [fst snd ua_set_applied ua_applied] in *.
  rewrite rule_ids_of_app, H, rule_ids_of_map_EvRule. reflexivity.
Qed.

Lemma filter_headers_applied_superset a hs c add y :
  In y (ua_applied a) -> In y (ua_applied (snd (fst (t_filter_headers lower table a hs c add)))).
Proof.
  intros Hy. unfold t_filter_headers. destruct (t_apply_header_filters lower table _ hs) as [hs' ev].
  cbn [fst snd ua_set_applied ua_applied]. apply In_fold_apply. left.
  apply (In_fold_insert (fun t => trace_applies t c) rt_id). left. exact Hy.
Qed.

Lemma filter_headers_applied_NoDup a hs c add :
  NoDup (ua_applied a) -> NoDup (ua_applied (snd (fst (t_filter_headers lower table a hs c add)))).
Proof.
  intros Hn. unfold t_filter_headers. destruct (t_apply_header_filters lower table _ hs) as [hs' ev].
  cbn [fst snd ua_set_applied ua_applied].
  apply NoDup_fold_inv; [intros l f Hl; apply NoDup_apply_opt; exact Hl|].
  apply NoDup_fold_inv; [intros l t Hl; destruct (trace_applies t c); [apply NoDup_lhs_insert|]; exact Hl|exact Hn].
Qed.
End RuleIds.

Section Analysis.
Variable lower : str -> str.
Variable table : list (str * hkind).

Lemma response_phase_rule_ids wl a fin b sk :
  rule_ids_of (snd (t_response_phase lower table wl a fin b sk)) = ua_applied (snd (fst (t_filter_headers lower table a [] b false))).
Proof.
  unfold t_response_phase. pose proof (filter_headers_rule_ids lower table a [] b false) as H1.
  destruct (t_filter_headers lower table a [] b false) as [[hs a2] e1]. cbn [fst snd] in *.
  destruct (t_create_filter_body a2 b) as [bfs a3].
  pose proof (no_rules_text_body_run bfs [sk]) as H2. destruct (t_text_body_run bfs [sk]) as [body e2]. cbn [snd] in H2.
  assert (H3 : no_rules (snd (if wl then t_should_log_request a3 true fin else (true, a3, [])))).
  { destruct wl; [apply no_rules_should_log|reflexivity]. }
  destruct (if wl then t_should_log_request a3 true fin else (true, a3, [])) as [[lg a4] e3]. cbn [snd] in *.
  rewrite !rule_ids_of_app, H1, H2, H3, !app_nil_r. reflexivity.
Qed.

(* (R), general form: any action whose applied list the trace's rule_ids_applied mirrors at the start of the block *)
Theorem analysis_response_rule_ids a ex sk t :
  NoDup (ua_applied a) -> ut_rules t = ua_applied a ->
  let F := t_get_final_status_code_with_fallback a (opt_default 0%N ex) 200%N in
  ut_rules (run_events (snd (t_analysis_response lower table a ex sk)) t)
  = ua_applied (snd (fst (t_filter_headers lower table (snd (fst F)) [] (snd (fst (fst F))) false))).
Proof.
  intros Hn Ht F. unfold t_analysis_response. fold F.
  pose proof (get_final_rule_ids a (opt_default 0%N ex) 200%N) as HF. fold F in HF.
  destruct F as [[[fin b] a1] e0]. cbn [fst snd] in *.
  pose proof (response_phase_rule_ids true a1 fin b sk) as HR.
  destruct (t_response_phase lower table true a1 fin b sk) as [resp e1]. cbn [snd] in *.
  rewrite run_events_rules, rule_ids_of_app, lhs_extend_app, Ht, <- HF, HR.
  apply lhs_extend_cover.
  - apply filter_headers_applied_NoDup. rewrite HF. apply NoDup_lhs_extend. exact Hn.
  - intros y Hy. apply filter_headers_applied_superset. exact Hy.
Qed.

Lemma from_routes_rule_applied_nil l sk ov rvs : ua_applied (fst (t_from_routes_rule l sk ov rvs)) = [].
Proof. apply fold_rules_applied_nil. reflexivity. Qed.

(* (R) for the analysis of a matched-rule list: after the block, rule_ids_applied IS (same elements, same order) the
   action's applied-rule list as it stands after filter_headers, i.e. the ids inserted by get_status_code followed by
   the extend of filter_headers.  create_filter_body and should_log_request still add to the action's list afterwards,
   but never to the trace. *)
Theorem analysis_rule_ids l sk ov ex skel :
  let a := from_routes_rule (map u_rule l) sk ov [] in
  let F := get_final_status_code_with_fallback a (opt_default 0%N ex) 200%N in
  ut_rules (snd (t_analysis_of_rules lower table l sk ov ex skel))
  = a_applied (snd (filter_headers lower table (snd F) [] (snd (fst F)) false)).
Proof.
  intros a F. unfold t_analysis_of_rules, t_analysis_pre, t_analysis_events.
  subst F a. rewrite <- erase_from_routes_rule.
  pose proof (from_routes_rule_applied_nil l sk ov []) as Hnil. pose proof (no_rules_fold_rules (sort_urules l) uaction_default sk ov []) as Hnr.
  fold (t_from_routes_rule l sk ov []) in Hnr.
  destruct (t_from_routes_rule l sk ov []) as [ua e0]. cbn [fst snd] in *.
  rewrite erase_get_final_status_code_with_fallback. cbn [fst snd]. rewrite erase_filter_headers. cbn [snd erase_ua a_applied].
  pose proof (analysis_response_rule_ids ua ex skel (run_events e0 ut_empty)) as H. cbv zeta in H.
  destruct (t_analysis_response lower table ua ex skel) as [resp e1]. cbn [snd] in *.
  destruct (squash_over_rest (ut_targets (run_events (e0 ++ e1) ut_empty)) (run_events (e0 ++ e1) ut_empty)) as [Hr _].
  unfold ut_squash. cbn [snd]. rewrite Hr, run_events_app. apply H.
  - rewrite Hnil. constructor.
  - rewrite run_events_rules, Hnr, Hnil. reflexivity.
Qed.

Lemma get_status_code_keeps a c : a_bf (snd (get_status_code a c)) = a_bf a /\ a_log (snd (get_status_code a c)) = a_log a.
Proof. unfold get_status_code. destruct (a_status a) as [s|]; [destruct (scu_get s c)|]; split; reflexivity. Qed.

(* what the action's applied list gains after filter_headers (on the untraced model) *)
Theorem analysis_response_applied a ex sk x :
  let F := get_final_status_code_with_fallback a (opt_default 0%N ex) 200%N in
  In x (rs_applied (analysis_response lower table a ex sk))
  <-> In x (a_applied (snd (filter_headers lower table (snd F) [] (snd (fst F)) false)))
      \/ (exists f, In f (a_bf a) /\ guard_skips (bfa_on f) (bfa_excl f) (snd (fst F)) = false /\ bfa_rule f = Some x)
      \/ (exists lo, a_log a = Some lo /\ snd (lov_get lo (fst (fst F))) = Some x).
Proof.
  intros F. unfold analysis_response. fold F.
  assert (HFbf : a_bf (snd F) = a_bf a /\ a_log (snd F) = a_log a).
  { subst F. unfold get_final_status_code_with_fallback.
    pose proof (get_status_code_keeps a 0) as H0. destruct (get_status_code a 0) as [st0 a0]. cbn [snd] in H0.
    destruct (negb (N.eqb st0 0)); [exact H0|].
    pose proof (get_status_code_keeps a0 (if N.eqb (opt_default 0%N ex) 0 then 200%N else opt_default 0%N ex)) as H1.
    destruct (get_status_code a0 _) as [fin a1]. cbn [snd] in *. destruct H0 as [Ha Hb], H1 as [Hc Hd]. split; congruence. }
  destruct F as [[fin b] a1]. cbn [fst snd] in *. destruct HFbf as [Hbf Hlog].
  unfold response_phase, filter_headers, create_filter_body, should_log_request.
  cbn [set_applied a_bf a_log a_applied]. rewrite Hbf, Hlog.
  set (ap2 := fold_left (fun l f => apply_opt (hfa_rule f) l) _ _).
  destruct (a_log a) as [lo|].
  - destruct (lov_get lo fin) as [al rl] eqn:El. cbn [rs_applied set_applied a_applied snd].
    rewrite In_apply_opt, In_fold_apply. split.
    + intros [H|[H|(f & Hf & Hr)]].
      * right. right. exists lo. split; [reflexivity|rewrite El; exact H].
      * left. exact H.
      * right. left. apply filter_In in Hf. destruct Hf as [Hf Hg]. exists f. split; [exact Hf|]. split; [apply negb_true_iff; exact Hg|exact Hr].
    + intros [H|[(f & Hf & Hg & Hr)|(lo' & Hlo & Hr)]].
      * right. left. exact H.
      * right. right. exists f. split; [|exact Hr]. apply filter_In. split; [exact Hf|apply negb_true_iff; exact Hg].
      * left. inversion Hlo; subst lo'. rewrite El in Hr. exact Hr.
  - cbn [rs_applied set_applied a_applied]. rewrite In_fold_apply. split.
    + intros [H|(f & Hf & Hr)]; [left; exact H|].
      right. left. apply filter_In in Hf. destruct Hf as [Hf Hg]. exists f. split; [exact Hf|]. split; [apply negb_true_iff; exact Hg|exact Hr].
    + intros [H|[(f & Hf & Hg & Hr)|(lo' & Hlo & _)]]; [left; exact H| |discriminate].
      right. exists f. split; [|exact Hr]. apply filter_In. split; [exact Hf|apply negb_true_iff; exact Hg].
Qed.

(* every rule id of the trace is in the applied list the response block ends with *)
Corollary analysis_rule_ids_subset l sk ov ex skel x :
  In x (ut_rules (snd (t_analysis_of_rules lower table l sk ov ex skel)))
  -> In x (rs_applied (fst (t_analysis_of_rules lower table l sk ov ex skel))).
Proof.
  rewrite analysis_rule_ids, erase_analysis_of_rules. unfold analysis_of_rules. intros H.
  apply analysis_response_applied. left. exact H.
Qed.

(* ------------------------------------------------------------------ the traced block in proxy order *)
Theorem t_analysis_eq_live a ex sk :
  t_analysis_response lower table a ex sk = t_live_response lower table true a (example_backend ex) sk.
Proof.
  unfold t_analysis_response, t_live_response, t_get_final_status_code_with_fallback.
  destruct (t_get_status_code a 0) as [[st0 a0] e0].
  destruct (negb (N.eqb st0 0)); [reflexivity|].
  rewrite fallback_backend.
  destruct (t_get_status_code a0 (example_backend ex)) as [[fin a1] e1].
  destruct (t_response_phase lower table true a1 fin (example_backend ex) sk) as [resp e2]. rewrite app_assoc. reflexivity.
Qed.
End Analysis.

(* ------------------------------------------------------------------ (O) the processing order is determined by the set *)
Definition ubefore (a b : urule) : Prop := rule_before (u_rule a) (u_rule b) = true.
Definition u_id (u : urule) : str := r_id (u_rule u).

Lemma insert_sorted_u_perm x l : Permutation (insert_sorted_u x l) (x :: l).
Proof.
  induction l as [|y l IH]; cbn; [apply Permutation_refl|]. destruct (rule_before (u_rule x) (u_rule y)); [apply Permutation_refl|].
  eapply Permutation_trans; [apply perm_skip; exact IH|apply perm_swap].
Qed.
Lemma sort_urules_perm l : Permutation (sort_urules l) l.
Proof.
  induction l as [|x l IH]; cbn; [constructor|]. eapply Permutation_trans; [apply insert_sorted_u_perm|]. constructor. exact IH.
Qed.

Lemma insert_sorted_u_sorted x l : StronglySorted ubefore l -> StronglySorted ubefore (insert_sorted_u x l).
Proof.
  induction l as [|y l IH]; intros Hs; cbn.
  - constructor; constructor.
  - destruct (rule_before (u_rule x) (u_rule y)) eqn:E.
    + constructor; [exact Hs|]. constructor; [exact E|]. inversion Hs; subst.
      eapply Forall_impl; [|eassumption]. intros z Hz. eapply rule_before_trans; eassumption.
    + inversion Hs; subst. constructor; [apply IH; assumption|].
      assert (ubefore y x) as Hyx by (destruct (rule_before_total (u_rule x) (u_rule y)) as [H|H]; [congruence|exact H]).
      eapply Permutation_Forall; [apply Permutation_sym, insert_sorted_u_perm|]. constructor; assumption.
Qed.
Lemma sort_urules_sorted l : StronglySorted ubefore (sort_urules l).
Proof. induction l as [|x l IH]; cbn; [constructor|apply insert_sorted_u_sorted; exact IH]. Qed.

Lemma usorted_perm_unique l1 : forall l2, StronglySorted ubefore l1 -> StronglySorted ubefore l2 ->
  Permutation l1 l2 -> NoDup (map u_id l1) -> l1 = l2.
Proof.
  induction l1 as [|a l1 IH]; intros l2 S1 S2 Hp Hnd.
  - apply Permutation_nil in Hp. subst. reflexivity.
  - destruct l2 as [|b l2]; [apply Permutation_sym, Permutation_nil in Hp; discriminate|].
    inversion S1 as [|? ? S1' F1]; subst. inversion S2 as [|? ? S2' F2]; subst.
    assert (a = b) as ->.
    { assert (Ha : In a (b :: l2)) by (eapply Permutation_in; [exact Hp|left; reflexivity]).
      assert (Hb : In b (a :: l1)) by (eapply Permutation_in; [apply Permutation_sym; exact Hp|left; reflexivity]).
      destruct Ha as [->|Ha]; [reflexivity|]. destruct Hb as [->|Hb]; [reflexivity|].
      rewrite Forall_forall in F1, F2. destruct (rule_before_antisym (u_rule a) (u_rule b) (F1 b Hb) (F2 a Ha)) as [_ Hid].
      exfalso. cbn in Hnd. inversion Hnd as [|? ? Hnotin Hnd']; subst. apply Hnotin. unfold u_id at 1. rewrite Hid.
      apply (in_map u_id). exact Hb. }
    f_equal. apply IH; try assumption.
    + eapply Permutation_cons_inv. exact Hp.
    + cbn in Hnd. inversion Hnd; assumption.
Qed.

Theorem sort_urules_permutation_invariant l1 l2 : Permutation l1 l2 -> NoDup (map u_id l1) -> sort_urules l1 = sort_urules l2.
Proof.
  intros Hp Hnd. apply usorted_perm_unique; try apply sort_urules_sorted.
  - eapply Permutation_trans; [apply sort_urules_perm|]. eapply Permutation_trans; [exact Hp|apply Permutation_sym, sort_urules_perm].
  - eapply Permutation_NoDup; [apply Permutation_map, Permutation_sym, sort_urules_perm|exact Hnd].
Qed.

Theorem t_from_routes_rule_permutation_invariant l1 l2 sk ov rvs :
  Permutation l1 l2 -> NoDup (map u_id l1) -> t_from_routes_rule l1 sk ov rvs = t_from_routes_rule l2 sk ov rvs.
Proof. intros Hp Hnd. unfold t_from_routes_rule. rewrite (sort_urules_permutation_invariant l1 l2 Hp Hnd). reflexivity. Qed.

Section OrderIndependence.
Variable lower : str -> str.
Variable table : list (str * hkind).

Theorem t_analysis_events_permutation l1 l2 sk ov ex skel :
  Permutation l1 l2 -> NoDup (map u_id l1) ->
  t_analysis_events lower table l1 sk ov ex skel = t_analysis_events lower table l2 sk ov ex skel.
Proof.
  intros Hp Hnd. unfold t_analysis_events. rewrite (t_from_routes_rule_permutation_invariant l1 l2 sk ov [] Hp Hnd). reflexivity.
Qed.

(* (O) in the model (association-list order for the HashMap): response and the WHOLE trace are equal *)
Theorem t_analysis_of_rules_permutation l1 l2 sk ov ex skel :
  Permutation l1 l2 -> NoDup (map u_id l1) ->
  t_analysis_of_rules lower table l1 sk ov ex skel = t_analysis_of_rules lower table l2 sk ov ex skel.
Proof.
  intros Hp Hnd. unfold t_analysis_of_rules, t_analysis_pre.
  rewrite (t_analysis_events_permutation l1 l2 sk ov ex skel Hp Hnd). reflexivity.
Qed.

Lemma analysis_pre_seen_NoDup l sk ov ex skel : NoDup (ut_seen (snd (t_analysis_pre lower table l sk ov ex skel))).
Proof.
  unfold t_analysis_pre. destruct (t_analysis_events lower table l sk ov ex skel) as [resp e]. cbn [snd].
  rewrite run_events_seen. apply NoDup_lhs_extend. constructor.
Qed.

(* (O) whatever order the two HashMaps iterate in: response, rule_ids_applied, unit_ids_applied, value_computed_by_units
   equal; unit_ids_seen equal up to permutation (and duplicate free) *)
Theorem t_analysis_order_independent order1 order2 l1 l2 sk ov ex skel :
  (forall m, Permutation (order1 m) m) -> (forall m, Permutation (order2 m) m) ->
  Permutation l1 l2 -> NoDup (map u_id l1) ->
  let X1 := t_analysis_of_rules_ordered lower table order1 l1 sk ov ex skel in
  let X2 := t_analysis_of_rules_ordered lower table order2 l2 sk ov ex skel in
  fst X1 = fst X2
  /\ ut_rules (snd X1) = ut_rules (snd X2)
  /\ ut_applied (snd X1) = ut_applied (snd X2)
  /\ Permutation (ut_seen (snd X1)) (ut_seen (snd X2))
  /\ ut_values (snd X1) = ut_values (snd X2)
  /\ ut_targets (snd X1) = [] /\ ut_targets (snd X2) = [].
Proof.
  intros Ho1 Ho2 Hp Hnd X1 X2. subst X1 X2. unfold t_analysis_of_rules_ordered.
  pose proof (analysis_pre_seen_NoDup l2 sk ov ex skel) as Hseen.
  unfold t_analysis_pre in *. rewrite (t_analysis_events_permutation l1 l2 sk ov ex skel Hp Hnd).
  destruct (t_analysis_events lower table l2 sk ov ex skel) as [resp e]. cbn [fst snd] in *.
  set (t := run_events e ut_empty) in *.
  assert (Hperm : Permutation (order1 (ut_targets t)) (order2 (ut_targets t))).
  { eapply Permutation_trans; [apply Ho1|apply Permutation_sym, Ho2]. }
  destruct (squash_order_independent _ _ t Hperm) as (Hr & Ha & _ & Hs & Hv & _).
  split; [reflexivity|]. split; [exact Hr|]. split; [exact Ha|]. split; [exact (Hs Hseen)|]. split; [exact Hv|].
  split; apply squash_over_rest.
Qed.

(* the reported trace is a well-formed UnitTrace: the three LinkedHashSets hold no duplicates, unit_ids_applied is
   strictly sorted, the with-target map has been emptied, every applied unit id has been seen *)
Theorem t_analysis_trace_wf order l sk ov ex skel :
  (forall m, Permutation (order m) m) ->
  let t := snd (t_analysis_of_rules_ordered lower table order l sk ov ex skel) in
  NoDup (ut_rules t) /\ StronglySorted slt (ut_applied t) /\ NoDup (ut_applied t) /\ NoDup (ut_seen t) /\ ut_targets t = []
  /\ (forall x, In x (ut_applied t) -> In x (ut_seen t)).
Proof.
  intros Ho t. subst t. unfold t_analysis_of_rules_ordered, t_analysis_pre.
  destruct (t_analysis_events lower table l sk ov ex skel) as [resp e]. cbn [snd].
  set (t := run_events e ut_empty).
  pose proof (squash_order_independent _ _ t (Ho (ut_targets t))) as (Hr & Ha & Hs & Hsp & _ & _).
  split.
  { rewrite (proj1 (squash_over_rest _ _)). unfold t. rewrite run_events_rules. apply NoDup_lhs_extend. constructor. }
  split; [apply squash_over_sorted|]. split; [apply slt_sorted_NoDup, squash_over_sorted|].
  split.
  { rewrite squash_over_eq. cbn [ut_seen]. apply NoDup_lhs_extend. unfold t. rewrite run_events_seen. apply NoDup_lhs_extend. constructor. }
  split; [apply squash_over_rest|].
  intros x Hx. rewrite Ha in Hx. apply Hs. apply (squash_applied_seen e x). exact Hx.
Qed.
End OrderIndependence.

(* ------------------------------------------------------------------ (S) instantiated on the analysis block *)
Section AnalysisSquash.
Variable lower : str -> str.
Variable table : list (str * hkind).

Lemma analysis_trace_unfold l sk ov ex skel :
  snd (t_analysis_of_rules lower table l sk ov ex skel)
  = ut_squash (run_events (snd (t_analysis_events lower table l sk ov ex skel)) ut_empty).
Proof.
  unfold t_analysis_of_rules, t_analysis_pre. destruct (t_analysis_events lower table l sk ov ex skel) as [resp e]. reflexivity.
Qed.

(* unit_ids_applied of the reported trace: exactly the ids that survive under some target *)
Theorem analysis_unit_ids_applied l sk ov ex skel x :
  In x (ut_applied (snd (t_analysis_of_rules lower table l sk ov ex skel)))
  <-> exists tgt, survives tgt x (snd (t_analysis_events lower table l sk ov ex skel)).
Proof.
  rewrite analysis_trace_unfold, squash_applied_spec, <- In_direct_ids, analysis_no_direct_add. cbn [In]. tauto.
Qed.

(* unit_ids_seen of the reported trace: every id handed to a with-target call during the block *)
Theorem analysis_unit_ids_seen l sk ov ex skel x :
  In x (ut_seen (snd (t_analysis_of_rules lower table l sk ov ex skel)))
  <-> exists e, In e (snd (t_analysis_events lower table l sk ov ex skel)) /\ ev_unit e = Some x.
Proof. rewrite analysis_trace_unfold. apply squash_seen_spec. Qed.

(* value_computed_by_units of the reported trace, as a map *)
Theorem analysis_values l sk ov ex skel k :
  assoc k (ut_values (snd (t_analysis_of_rules lower table l sk ov ex skel)))
  = last_value k (snd (t_analysis_events lower table l sk ov ex skel)) None.
Proof.
  rewrite analysis_trace_unfold. unfold ut_squash. rewrite (proj1 (proj2 (squash_over_rest _ _))), run_events_values. reflexivity.
Qed.

(* test_examples.rs runs the same block in proxy order: same trace as explain/impact whenever the example does not
   name the status code 0 (explain maps 0 to 200, test_examples passes 0 on) *)
Theorem test_example_trace_eq_analysis l sk ov ex skel expected id :
  ex <> Some 0%N ->
  fst (fst (t_test_example lower table l sk ov ex skel expected id)) = snd (t_analysis_of_rules lower table l sk ov ex skel).
Proof.
  intros Hex. rewrite analysis_trace_unfold. unfold t_test_example, t_analysis_events.
  destruct (t_from_routes_rule l sk ov []) as [a e0]. rewrite t_analysis_eq_live.
  assert (Hb : opt_default 200%N ex = example_backend ex).
  { unfold example_backend, opt_default. destruct ex as [c|]; [|reflexivity]. destruct (N.eqb c 0) eqn:E; [|reflexivity].
    apply N.eqb_eq in E. subst c. contradiction Hex. reflexivity. }
  rewrite Hb. destruct (t_live_response lower table true a (example_backend ex) skel) as [resp e1]. reflexivity.
Qed.
End AnalysisSquash.
