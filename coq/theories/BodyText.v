(* BodyText.v — src/filter/text_filter_body.rs and the stage chain of src/filter/filter_body.rs
   (FilterBodyAction::{do_filter, do_end}) over an abstract stage type. *)
Require Import RIO.Base.

Inductive text_action := TAppend | TPrepend | TReplace.

Record text_stage := { ts_action : text_action; ts_content : str; ts_executed : bool }.

Definition text_new (a : text_action) (c : str) : text_stage := {| ts_action := a; ts_content := c; ts_executed := false |}.

(* TextFilterBodyAction::filter *)
Definition text_filter (s : text_stage) (data : str) : text_stage * str :=
  match ts_action s with
  | TReplace => if ts_executed s then (s, [])
                else ({| ts_action := TReplace; ts_content := ts_content s; ts_executed := true |}, ts_content s)
  | TAppend => (s, data)
  | TPrepend => if ts_executed s then (s, data)
                else ({| ts_action := TPrepend; ts_content := ts_content s; ts_executed := true |}, ts_content s ++ data)
  end.

(* TextFilterBodyAction::end *)
Definition text_end (s : text_stage) : text_stage * str :=
  if ts_executed s then (s, [])
  else ({| ts_action := ts_action s; ts_content := ts_content s; ts_executed := true |}, ts_content s).

Section Chain.
(* a stage may fail (Err): HTML stage on invalid UTF-8, codecs on corrupt input *)
Variable stage : Type.
Variable s_filter : stage -> str -> option (stage * str).
Variable s_end : stage -> option (stage * str).

(* do_filter: for item in chain { data = item.filter(data)?; if data.is_empty() { break } } *)
Fixpoint chain_filter (chain : list stage) (data : str) : option (list stage * str) :=
  match chain with
  | [] => Some ([], data)
  | st :: rest =>
      match s_filter st data with
      | None => None
      | Some (st', out) =>
          if is_nil out then Some (st' :: rest, out)
          else match chain_filter rest out with
               | None => None
               | Some (rest', out') => Some (st' :: rest', out')
               end
      end
  end.

(* do_end: data = None; for item { new = match data { None => item.end()?, Some(s) => item.filter(s)? ++ item.end()? };
                                   data = if new.is_empty() { None } else { Some(new) } } *)
Fixpoint chain_end (chain : list stage) (data : option str) : option (list stage * str) :=
  match chain with
  | [] => Some ([], match data with Some d => d | None => [] end)
  | st :: rest =>
      let r := match data with
               | None => s_end st
               | Some d => match s_filter st d with
                           | None => None
                           | Some (st1, o1) => match s_end st1 with
                                               | None => None
                                               | Some (st2, o2) => Some (st2, o1 ++ o2)
                                               end
                           end
               end in
      match r with
      | None => None
      | Some (st', nd) =>
          match chain_end rest (if is_nil nd then None else Some nd) with
          | None => None
          | Some (rest', out) => Some (st' :: rest', out)
          end
      end
  end.

(* FilterBodyAction::{filter,end} with the in_error flag; on error filter returns the input chunk, end nothing *)
Record fba := { fb_chain : list stage; fb_in_error : bool }.

Definition fba_filter (f : fba) (data : str) : fba * str :=
  if fb_in_error f then (f, data)
  else match chain_filter (fb_chain f) data with
       | Some (c', out) => ({| fb_chain := c'; fb_in_error := false |}, out)
       | None => ({| fb_chain := fb_chain f; fb_in_error := true |}, data)
       end.

Definition fba_end (f : fba) : fba * str :=
  if fb_in_error f then (f, [])
  else match chain_end (fb_chain f) None with
       | Some (c', out) => ({| fb_chain := c'; fb_in_error := false |}, out)
       | None => ({| fb_chain := fb_chain f; fb_in_error := true |}, [])
       end.

(* feed a list of chunks then end; the concatenated output *)
Fixpoint fba_run (f : fba) (chunks : list str) : str :=
  match chunks with
  | [] => snd (fba_end f)
  | c :: rest => let '(f', out) := fba_filter f c in out ++ fba_run f' rest
  end.
End Chain.

Arguments fb_chain {stage}.
Arguments fb_in_error {stage}.
