(* TreeReplace.v — storing a value under an existing (pattern, id) replaces it (the last clause of C08).

   RIO.TreeProofs proves the refinement of the tree by a flat list for histories whose insertions use
   a FRESH id.  Re-inserting a live (pattern, id) needs more: the descent of Node::insert (the loop
   [best]) has to arrive at the leaf that already carries the pattern, otherwise a second leaf with
   the same pattern would be created and the old value would stay.  That is a property of reachable
   trees only.  This file
     - states the routing structure [rs] of reachable trees (children extend the prefix of their
       node, strictly for node children; two siblings diverge right after that prefix),
     - proves it is preserved by insert / remove / retain / cache,
     - proves that under [inv] + [rs] an insertion of a live (pattern, id) rewrites exactly that
       entry ([insert_entries_existing]),
     - proves the refinement theorem for the relaxed admissibility [hist_ok_r] (an insertion is
       admissible when its id is not live OR is live under the same pattern), and derives
       [hist_find_r] / [hist_len_r] / [hist_get_r] / [hist_iter_r] / [hist_insert_replaces],
     - discharges the additional laws of the abstract prefix structure for prefix.rs: they all follow
       from [cp_c_tlcp], common_prefix_char_size = length of the LONGEST common token prefix.
   Nothing in RIO.Tree / RIO.TreeProofs / RIO.TreeInst is changed. *)
Require Import RIO.Base RIO.Prefix RIO.RegexSem RIO.Tree RIO.TreeProofs RIO.TreeInst.
Close Scope N_scope.
Open Scope nat_scope.

Section TreeReplace.
Variable V : Type.
Variable cp : pat -> pat -> nat.
Variable take : pat -> nat -> pat.
Variable clen : pat -> nat.
Variable valid : bool -> pat -> bool.
Variable shape : pat -> Prop.
Variable tpre : pat -> pat -> Prop.
(* the structure assumed by RIO.TreeProofs *)
Hypothesis tpre_trans : forall a b c, tpre a b -> tpre b c -> tpre a c.
Hypothesis cut_l : forall p q, shape p -> shape q -> tpre (take p (cp q p)) p.
Hypothesis cut_r : forall p q, shape p -> shape q -> tpre (take p (cp q p)) q.
Hypothesis cut_l' : forall p q, shape p -> shape q -> tpre (take p (cp p q)) p.
Hypothesis cut_r' : forall p q, shape p -> shape q -> tpre (take p (cp p q)) q.
Hypothesis tpre_shape_l : forall p q, tpre p q -> shape p.
Hypothesis cp_pre : forall p q, shape p -> shape q -> clen p <= cp q p -> tpre p q.
(* additional laws: cp is the length of the LONGEST common token prefix *)
Hypothesis tpre_refl : forall p, shape p -> tpre p p.
Hypothesis tpre_shape_r : forall p q, tpre p q -> shape q.
Hypothesis clen_mono : forall p q, tpre p q -> clen p <= clen q.
Hypothesis cp_sym : forall p q, cp p q = cp q p.
Hypothesis cp_ge : forall p q, tpre p q -> clen p <= cp q p.
Hypothesis cp_mono : forall a' a b, tpre a' a -> shape b -> cp a' b <= cp a b.
Hypothesis cp_ext : forall a q b n, tpre a q -> shape b -> cp a b <= n -> n < clen a -> cp q b <= n.
Hypothesis take_clen : forall p q, shape p -> shape q -> clen (take p (cp q p)) = cp q p.
Hypothesis tpre_cmp : forall a b c, tpre a c -> tpre b c -> clen a <= clen b -> tpre a b.

Notation item := (item V).
Notation insert := (insert V cp take clen).
Notation best := (best V cp).
Notation entries := (Tree.entries V).
Notation rx := (regex_of V).
Notation inv := (inv V shape tpre).
Notation pats := (pats V).
Notation eids := (eids V).
Notation id_of := (id_of V).
Notation value_of := (value_of V).
Notation entry := (entry V).
Notation item_ind' := (item_ind' V).

(* ---------------- the routing structure of reachable trees ---------------- *)
Definition is_node (it : item) : Prop := match it with Node _ _ _ _ => True | _ => False end.
Definition nonE (it : item) : Prop := match it with Empty _ => False | _ => True end.

(* a child of a node with prefix [n]: not Empty, its regex extends [n], strictly when it is a node *)
Definition child_ok (n : pat) (c : item) : Prop :=
  nonE c /\ tpre n (rx c) /\ (is_node c -> clen n < clen (rx c)).
(* two siblings under a node whose prefix has [n] chars diverge right after that prefix *)
Definition sib (n : nat) (a b : pat) : Prop := a <> b /\ cp a b <= n.
Definition sibR (n : pat) (x y : item) : Prop := sib (clen n) (rx x) (rx y).

Fixpoint pairwise {A} (R : A -> A -> Prop) (l : list A) : Prop :=
  match l with [] => True | x :: l' => Forall (R x) l' /\ pairwise R l' end.

Fixpoint rs (it : item) : Prop :=
  match it with
  | Node n _ _ cs => Forall (child_ok n) cs /\ pairwise (sibR n) cs
       /\ (fix all (l : list item) : Prop := match l with [] => True | x :: l' => rs x /\ all l' end) cs
  | _ => True
  end.
Lemma rs_all cs : (fix all (l : list item) : Prop := match l with [] => True | x :: l' => rs x /\ all l' end) cs <-> Forall rs cs.
Proof. induction cs; simpl; split; intros H; auto. destruct H; constructor; tauto. inversion H; subst; tauto. Qed.
Lemma rs_node n ic c cs : rs (Node n ic c cs) <-> Forall (child_ok n) cs /\ pairwise (sibR n) cs /\ Forall rs cs.
Proof. cbn [rs]. rewrite rs_all. tauto. Qed.

Lemma sib_sym n a b : sib n a b -> sib n b a.
Proof. intros [H1 H2]. split; [congruence|rewrite cp_sym; exact H2]. Qed.
Lemma sibR_sym n x y : sibR n x y -> sibR n y x.
Proof. apply sib_sym. Qed.

Lemma pairwise_app {A} (R : A -> A -> Prop) l1 l2 :
  pairwise R (l1 ++ l2) <-> pairwise R l1 /\ pairwise R l2 /\ (forall x y, In x l1 -> In y l2 -> R x y).
Proof.
  induction l1 as [|a l1 IH]; cbn [app pairwise].
  - split; [intros H; repeat split; auto; intros x y []|tauto].
  - rewrite IH, Forall_app, !Forall_forall. split.
    + intros ((H1 & H2) & H3 & H4 & H5). repeat split; auto. intros x y [<-|Hx] Hy; auto.
    + intros ((H1 & H2) & H3 & H4). repeat split; auto. intros y Hy. apply H4; [left; reflexivity|exact Hy].
      intros x y Hx Hy. apply H4; [right; exact Hx|exact Hy].
Qed.

Lemma pairwise_mid {A} (R : A -> A -> Prop) (Rs : forall x y, R x y -> R y x) a x b :
  pairwise R (a ++ x :: b) -> pairwise R (a ++ b) /\ (forall y, In y (a ++ b) -> R y x).
Proof.
  intros H. apply pairwise_app in H. destruct H as (Ha & Hxb & Hc). cbn [pairwise] in Hxb. destruct Hxb as [Hx Hb].
  rewrite Forall_forall in Hx. split.
  - apply pairwise_app. repeat split; auto. intros y z Hy Hz. apply Hc; [exact Hy|right; exact Hz].
  - intros y Hy. apply in_app_iff in Hy. destruct Hy as [Hy|Hy]; [apply Hc; [exact Hy|left; reflexivity]|apply Rs, Hx, Hy].
Qed.

Lemma pairwise_snoc {A} (R : A -> A -> Prop) l x :
  pairwise R l -> (forall y, In y l -> R y x) -> pairwise R (l ++ [x]).
Proof.
  intros Hl Hx. apply pairwise_app. repeat split; auto. cbn. auto.
  intros y z Hy [<-|[]]. apply Hx, Hy.
Qed.

(* ---------------- what [best] returns ---------------- *)
Lemma best_cur_some re cs : forall i maxp j, best re cs i maxp (Some j) <> None.
Proof.
  induction cs as [|c cs IH]; cbn [Tree.best]; intros i maxp j; [discriminate|].
  destruct (is_leaf_with V c re); [discriminate|]. destruct (Nat.ltb maxp (cp re (rx c))); apply IH.
Qed.

Lemma best_none re cs : forall i maxp, best re cs i maxp None = None ->
  Forall (fun c => is_leaf_with V c re = false /\ cp re (rx c) <= maxp) cs.
Proof.
  induction cs as [|c cs IH]; cbn [Tree.best]; intros i maxp H; [constructor|].
  destruct (is_leaf_with V c re) eqn:El; [discriminate|].
  destruct (Nat.ltb maxp (cp re (rx c))) eqn:Elt.
  - exfalso. eapply best_cur_some. exact H.
  - apply Nat.ltb_ge in Elt. constructor; [auto|]. eapply IH. exact H.
Qed.

Lemma best_sel re cs : forall i maxp cur r, best re cs i maxp cur = Some r ->
  cur = Some r \/ (i <= r /\ exists c, nth_error cs (r - i) = Some c /\ (is_leaf_with V c re = true \/ maxp < cp re (rx c))).
Proof.
  induction cs as [|c cs IH]; cbn [Tree.best]; intros i maxp cur r H; [left; exact H|].
  destruct (is_leaf_with V c re) eqn:El.
  - inversion H; subst. right. split; [lia|]. exists c. rewrite Nat.sub_diag. cbn. auto.
  - destruct (Nat.ltb maxp (cp re (rx c))) eqn:Elt.
    + apply Nat.ltb_lt in Elt. apply IH in H. destruct H as [H|(Hr & c' & Hn & Hc)].
      * inversion H; subst. right. split; [lia|]. exists c. rewrite Nat.sub_diag. cbn. auto.
      * right. split; [lia|]. exists c'. replace (r - i) with (S (r - S i)) by lia. cbn. split; [exact Hn|].
        destruct Hc as [Hc|Hc]; [left; exact Hc|right; lia].
    + apply IH in H. destruct H as [H|(Hr & c' & Hn & Hc)]; [left; exact H|].
      right. split; [lia|]. exists c'. replace (r - i) with (S (r - S i)) by lia. cbn. auto.
Qed.

Lemma best_bound re cs : forall i maxp cur r, best re cs i maxp cur = Some r -> cur = Some r \/ r < i + length cs.
Proof.
  induction cs as [|c cs IH]; cbn [Tree.best length]; intros i maxp cur r H; [left; exact H|].
  destruct (is_leaf_with V c re).
  - inversion H; subst. right; lia.
  - destruct (Nat.ltb maxp (cp re (rx c))); apply IH in H; destruct H as [H|H]; try (right; lia); [inversion H; subst; right; lia|left; exact H].
Qed.

Lemma best_skip re a : forall l i maxp cur,
  Forall (fun y => is_leaf_with V y re = false /\ cp re (rx y) <= maxp) a ->
  best re (a ++ l) i maxp cur = best re l (i + length a) maxp cur.
Proof.
  induction a as [|y a IH]; intros l i maxp cur H; cbn [app length Tree.best]; [f_equal; lia|].
  inversion H as [|? ? [Hl Hc] Ha]; subst. rewrite Hl.
  replace (Nat.ltb maxp (cp re (rx y))) with false by (symmetry; apply Nat.ltb_ge; exact Hc).
  rewrite IH by exact Ha. f_equal. lia.
Qed.

(* the child [x] is selected when every sibling diverges at the node's prefix and [x] does not *)
Lemma best_route re a x b n :
  Forall (fun y => is_leaf_with V y re = false /\ cp re (rx y) <= n) (a ++ b) ->
  (is_leaf_with V x re = true \/ n < cp re (rx x)) ->
  best re (a ++ x :: b) 0 n None = Some (length a).
Proof.
  intros Hab Hx. apply Forall_app in Hab. destruct Hab as [Ha Hb].
  rewrite best_skip by exact Ha. cbn [Tree.best Nat.add].
  destruct (is_leaf_with V x re) eqn:El; [reflexivity|]. destruct Hx as [Hx|Hx]; [discriminate|].
  replace (Nat.ltb n (cp re (rx x))) with true by (symmetry; apply Nat.ltb_lt; exact Hx).
  rewrite <- (app_nil_r b). rewrite best_skip; [reflexivity|].
  eapply Forall_impl; [|exact Hb]. cbn. intros y [H1 H2]. split; [exact H1|lia].
Qed.

Lemma go_at (ins : item -> item) a x b : go_insert V ins (a ++ x :: b) (length a) = (a ++ b, Some (ins x)).
Proof. induction a as [|y a IH]; cbn [app length go_insert Nat.eqb pred]; [reflexivity|]. rewrite IH. reflexivity. Qed.

(* ---------------- the top of an item after an insertion ---------------- *)
Definition shr (re : pat) (x x' : item) : Prop :=
  nonE x' /\
  ((rx x' = rx x /\ (is_node x' -> is_node x)) \/
   (is_node x' /\ tpre (rx x') (rx x) /\ clen (rx x') = cp re (rx x) /\ is_leaf_with V x re = false)).

Lemma insert_top tic x re k v : nonE x -> inv tic x -> shape re -> shr re x (insert x re k v).
Proof.
  intros Hne Hi Hs. destruct x as [ic|n ic c cs|lre ic c vs]; [destruct Hne| |].
  - rewrite insert_unfold_node. cbv zeta. cbn [TreeProofs.inv] in Hi. destruct Hi as (_ & Hn & _).
    destruct (Nat.ltb (cp re n) (clen n)).
    + split; [exact I|]. right. cbn [is_node regex_of is_leaf_with]. repeat split; [apply cut_l; assumption|apply take_clen; assumption].
    + split.
      * destruct (best re cs 0 (clen n) None) as [i|]; [|exact I]. destruct (go_insert V (fun x => insert x re k v) cs i) as [rest [u|]]; exact I.
      * left. destruct (best re cs 0 (clen n) None) as [i|]; [|cbn; auto]. destruct (go_insert V (fun x => insert x re k v) cs i) as [rest [u|]]; cbn; auto.
  - cbn [TreeProofs.inv] in Hi. destruct Hi as (_ & Hl & _). cbn [Tree.insert]. destruct (pat_eqb re lre) eqn:E.
    + split; [exact I|]. left. cbn. tauto.
    + split; [exact I|]. right. cbn [is_node regex_of is_leaf_with]. split; [exact I|]. split; [apply cut_l'; assumption|]. split.
      * rewrite (cp_sym lre re). apply take_clen; assumption.
      * unfold pat_eqb in *. rewrite str_eqb_sym. exact E.
Qed.

Lemma inv_shape_rx tic x : nonE x -> inv tic x -> shape (rx x).
Proof. destruct x; cbn; intros H Hi; tauto. Qed.

(* shrinking one side of a divergence keeps it *)
Lemma sib_shrink n b a a' : sib n b a -> tpre a' a -> n < clen a' -> shape b -> sib n b a'.
Proof.
  intros [Hne Hc] Ht Hl Hb. split.
  - intros ->. assert (clen a' <= cp a a') by (apply cp_ge; exact Ht). rewrite cp_sym in Hc. lia.
  - rewrite cp_sym. etransitivity; [apply cp_mono; eassumption|]. rewrite cp_sym. exact Hc.
Qed.

Lemma not_leaf_with_neq (y : item) re : nonE y -> rx y <> re -> is_leaf_with V y re = false.
Proof. destruct y; cbn; intros _ H; try reflexivity. apply str_eqb_neq. exact H. Qed.

(* ================= insert preserves the routing structure ================= *)
Lemma insert_rs tic it : forall re k v, shape re -> re <> [] -> inv tic it -> rs it -> rs (insert it re k v).
Proof.
  induction it as [ic0|n ic0 cflag cs IH|lre ic0 cflag vs] using item_ind'; intros re k v Hsh Hne Hi Hr.
  - exact I.
  - rewrite insert_unfold_node. cbv zeta.
    assert (Hi' := Hi). cbn [TreeProofs.inv] in Hi'. destruct Hi' as (-> & Hns & Hpre & Hall). apply (inv_all V valid) in Hall.
    apply rs_node in Hr. destruct Hr as (Hco & Hpw & Hrs).
    destruct (Nat.ltb (cp re n) (clen n)) eqn:El.
    + apply Nat.ltb_lt in El. apply rs_node. split; [|split].
      * constructor; [|constructor; [|constructor]].
        -- split; [exact I|]. split; [apply cut_r; assumption|intros []].
        -- split; [exact I|]. split; [apply cut_l; assumption|]. intros _. cbn [regex_of]. rewrite take_clen by assumption. exact El.
      * cbn [pairwise]. split; [|split; [constructor|exact I]]. constructor; [|constructor].
        unfold sibR, sib. cbn [regex_of leaf_new]. rewrite take_clen by assumption. split; [|lia].
        intros ->. assert (clen n <= cp n n) by (apply cp_ge, tpre_refl; exact Hns). lia.
      * constructor; [exact I|]. constructor; [|constructor]. apply rs_node. auto.
    + apply Nat.ltb_ge in El. assert (tpre n re) as Hnre by (apply cp_pre; assumption).
      assert (Hnew : best re cs 0 (clen n) None = None -> rs (Node n tic cflag (cs ++ [leaf_new V re k v tic]))).
      { intros Eb. apply best_none in Eb. rewrite Forall_forall in Eb, Hco.
        apply rs_node. split; [|split].
        - apply Forall_app. split; [apply Forall_forall; exact Hco|]. constructor; [|constructor]. split; [exact I|]. split; [exact Hnre|intros []].
        - apply pairwise_snoc; [exact Hpw|]. intros y Hy. destruct (Eb y Hy) as [Hl Hc]. destruct (Hco y Hy) as (Hy1 & Hy2 & Hy3).
          split; [|rewrite cp_sym; exact Hc]. cbn [regex_of leaf_new]. intros E.
          destruct y as [?|yn ? ? ?|yl ? ? ?]; [destruct Hy1| |].
          + cbn [regex_of] in *. subst yn. specialize (Hy3 I). assert (clen re <= cp re re) by (apply cp_ge, tpre_refl; exact Hsh). lia.
          + cbn [regex_of is_leaf_with] in *. subst yl. unfold pat_eqb in Hl. rewrite str_eqb_refl in Hl. discriminate.
        - apply Forall_app. split; [exact Hrs|]. constructor; [exact I|constructor]. }
      destruct (best re cs 0 (clen n) None) as [i|] eqn:Eb; [|apply Hnew; reflexivity].
      destruct (best_bound _ _ _ _ _ _ Eb) as [Hc|Hlt]; [discriminate|]. cbn [Nat.add] in Hlt.
      destruct (go_spec V (fun x => insert x re k v) cs i Hlt) as (a & x & b & Hcs & Hl & Hg). rewrite Hg. subst cs.
      destruct (best_sel _ _ _ _ _ _ Eb) as [Hc|(_ & x0 & Hnth & Hsel)]; [discriminate|].
      rewrite Nat.sub_0_r, <- Hl, nth_error_app2, Nat.sub_diag in Hnth by lia. cbn in Hnth. inversion Hnth; subst x0. clear Hnth.
      rewrite Forall_forall in IH.
      apply Forall_app in Hall. destruct Hall as [Hia Hixb]. inversion Hixb as [|? ? Hix Hib]; subst.
      apply Forall_app in Hrs. destruct Hrs as [Hra Hrxb]. inversion Hrxb as [|? ? Hrx Hrb]; subst.
      apply Forall_app in Hco. destruct Hco as [Hca Hcxb]. inversion Hcxb as [|? ? Hcx Hcb]; subst.
      destruct (pairwise_mid _ (sibR_sym n) _ _ _ Hpw) as [Hpab Hpx].
      destruct Hcx as (Hx1 & Hx2 & Hx3).
      destruct (insert_top tic x re k v Hx1 Hix Hsh) as [Hs1 Hs2].
      assert (Hcab : Forall (child_ok n) (a ++ b)) by (apply Forall_app; split; assumption).
      assert (Hcx' : child_ok n (insert x re k v)).
      { split; [exact Hs1|]. destruct Hs2 as [[E1 E2]|(E1 & E2 & E3 & E4)].
        - rewrite E1. split; [exact Hx2|]. intros Hn. apply Hx3, E2, Hn.
        - destruct Hsel as [Hsel|Hsel]; [congruence|]. split; [|intros _; lia].
          apply tpre_cmp with (rx x); [exact Hx2|exact E2|lia]. }
      apply rs_node. split; [|split].
      * apply Forall_app. split; [exact Hcab|]. constructor; [exact Hcx'|constructor].
      * apply pairwise_snoc; [exact Hpab|]. intros y Hy. specialize (Hpx y Hy). unfold sibR in *.
        destruct Hs2 as [[E1 E2]|(E1 & E2 & E3 & E4)]; [rewrite E1; exact Hpx|].
        destruct Hsel as [Hsel|Hsel]; [congruence|].
        apply sib_shrink with (rx x); [exact Hpx|exact E2|lia|].
        rewrite Forall_forall in Hcab. destruct (Hcab y Hy) as (_ & Ht & _). eapply tpre_shape_r; exact Ht.
      * apply Forall_app. split; [apply Forall_app; split; assumption|]. constructor; [|constructor].
        apply IH; [apply in_or_app; right; left; reflexivity|exact Hsh|exact Hne|exact Hix|exact Hrx].
  - cbn [TreeProofs.inv] in Hi. destruct Hi as (-> & Hls & Hlne). cbn [Tree.insert]. destruct (pat_eqb re lre) eqn:E; [exact I|].
    apply rs_node. split; [|split].
    + constructor; [|constructor; [|constructor]].
      * split; [exact I|]. split; [apply cut_l'; assumption|intros []].
      * split; [exact I|]. split; [apply cut_r'; assumption|intros []].
    + cbn [pairwise]. split; [|split; [constructor|exact I]]. constructor; [|constructor].
      unfold sibR, sib. cbn [regex_of leaf_new]. split.
      * intros ->. unfold pat_eqb in E. rewrite str_eqb_refl in E. discriminate.
      * rewrite (cp_sym lre re), take_clen by assumption. lia.
    + constructor; [exact I|]. constructor; [exact I|constructor].
Qed.

(* ================= insert of an existing (pattern, id) replaces the value ================= *)
Definition repl (re : pat) (k : ident) (v : V) (e : entry) : entry :=
  if pat_eqb (fst e) re && id_eqb (id_of e) k then (re, (k, v)) else e.
Definition replace_entry (re : pat) (k : ident) (v : V) (L : list entry) : list entry := map (repl re k v) L.

Lemma replace_entry_notin re k v (L : list entry) : ~ In k (map id_of L) -> replace_entry re k v L = L.
Proof.
  induction L as [|e L IH]; cbn [replace_entry map]; intros Hn; [reflexivity|].
  fold (replace_entry re k v L). rewrite IH by (intros H; apply Hn; right; exact H). f_equal.
  unfold repl. destruct (id_eqb (id_of e) k) eqn:E; [|rewrite andb_false_r; reflexivity].
  exfalso. apply Hn. left. apply str_eqb_spec. exact E.
Qed.

Lemma replace_entry_ids re k v (L : list entry) : map id_of (replace_entry re k v L) = map id_of L.
Proof.
  unfold replace_entry. rewrite map_map. apply map_ext. intros e. unfold repl.
  destruct (pat_eqb (fst e) re && id_eqb (id_of e) k) eqn:E; [|reflexivity].
  apply andb_prop in E. destruct E as [_ E]. apply str_eqb_spec in E. symmetry. exact E.
Qed.

Lemma replace_entry_length re k v (L : list entry) : length (replace_entry re k v L) = length L.
Proof. apply map_length. Qed.

Lemma replace_entry_app re k v (L1 L2 : list entry) : replace_entry re k v (L1 ++ L2) = replace_entry re k v L1 ++ replace_entry re k v L2.
Proof. apply map_app. Qed.

Definition set1 (k : ident) (v : V) (e : ident * V) : ident * V := if id_eqb (fst e) k then (k, v) else e.

Lemma set1_notin k v (vs : list (ident * V)) : ~ In k (map fst vs) -> map (set1 k v) vs = vs.
Proof.
  induction vs as [|e vs IH]; cbn [map]; intros Hn; [reflexivity|]. rewrite IH by (intros H; apply Hn; right; exact H). f_equal.
  unfold set1. destruct (id_eqb (fst e) k) eqn:E; [|reflexivity]. exfalso. apply Hn. left. apply str_eqb_spec. exact E.
Qed.

Lemma assoc_set_existing k v (vs : list (ident * V)) : NoDup (map fst vs) -> In k (map fst vs) ->
  assoc_set V k v vs = map (set1 k v) vs.
Proof.
  induction vs as [|[k' v'] vs IH]; cbn [map fst assoc_set]; intros Hnd Hin; [destruct Hin|].
  inversion Hnd as [|? ? Hn Hnd']; subst. unfold set1 at 1. cbn [fst]. unfold id_eqb in *. rewrite (str_eqb_sym k' k).
  destruct (str_eqb k k') eqn:E.
  - apply str_eqb_spec in E. subst k'. rewrite set1_notin by exact Hn. reflexivity.
  - f_equal. apply IH; [exact Hnd'|]. destruct Hin as [Hin|Hin]; [|exact Hin]. subst. rewrite str_eqb_refl in E. discriminate.
Qed.

Lemma NoDup_app_in_l {A} (l1 l2 : list A) x : NoDup (l1 ++ l2) -> In x l1 -> ~ In x l2.
Proof.
  induction l1 as [|a l1 IH]; cbn [app]; intros Hnd Hin; [destruct Hin|]. inversion Hnd as [|? ? Hn Hnd']; subst.
  destruct Hin as [<-|Hin]; [intros H; apply Hn, in_or_app; right; exact H|apply IH; assumption].
Qed.
Lemma NoDup_app_split {A} (l1 l2 : list A) : NoDup (l1 ++ l2) -> NoDup l1 /\ NoDup l2.
Proof.
  induction l1 as [|a l1 IH]; cbn [app]; intros Hnd; [split; [constructor|exact Hnd]|]. inversion Hnd as [|? ? Hn Hnd']; subst.
  destruct (IH Hnd') as [H1 H2]. split; [|exact H2]. constructor; [|exact H1]. intros H. apply Hn, in_or_app. left. exact H.
Qed.
Lemma NoDup_app_in_r {A} (l1 l2 : list A) x : NoDup (l1 ++ l2) -> In x l2 -> ~ In x l1.
Proof. intros Hnd H2 H1. exact (NoDup_app_in_l l1 l2 x Hnd H1 H2). Qed.

Lemma insert_entries_existing_id tic it : forall re k v v0, inv tic it -> rs it ->
  NoDup (map id_of (entries it)) -> In (re, (k, v0)) (entries it) ->
  Permutation (entries (insert it re k v)) (replace_entry re k v (entries it)).
Proof.
  induction it as [ic0|n ic0 cflag cs IH|lre ic0 cflag vs] using item_ind'; intros re k v v0 Hi Hr Hnd Hin.
  - destruct Hin.
  - rewrite insert_unfold_node. cbv zeta.
    assert (Hi' := Hi). cbn [TreeProofs.inv] in Hi'. destruct Hi' as (-> & Hns & Hpre & Hall). apply (inv_all V valid) in Hall.
    apply rs_node in Hr. destruct Hr as (Hco & Hpw & Hrs).
    cbn [Tree.entries] in Hin, Hnd. apply in_flat_map in Hin. destruct Hin as (x & Hx & Hin).
    destruct (in_split _ _ Hx) as (a & b & ->). clear Hx.
    assert (Hnre : tpre n re).
    { apply Hpre. apply in_flat_map. exists x. split; [apply in_or_app; right; left; reflexivity|]. apply (entries_pats V valid x _ Hin). }
    assert (Hsre : shape re) by (eapply tpre_shape_r; exact Hnre).
    replace (Nat.ltb (cp re n) (clen n)) with false by (symmetry; apply Nat.ltb_ge, cp_ge; exact Hnre).
    rewrite Forall_forall in IH.
    apply Forall_app in Hall. destruct Hall as [Hia Hixb]. inversion Hixb as [|? ? Hix Hib]; subst.
    apply Forall_app in Hrs. destruct Hrs as [Hra Hrxb]. inversion Hrxb as [|? ? Hrx Hrb]; subst.
    apply Forall_app in Hco. destruct Hco as [Hca Hcxb]. inversion Hcxb as [|? ? Hcx Hcb]; subst.
    destruct (pairwise_mid _ (sibR_sym n) _ _ _ Hpw) as [Hpab Hpx].
    assert (Hcab : Forall (child_ok n) (a ++ b)) by (apply Forall_app; split; assumption).
    destruct Hcx as (Hx1 & Hx2 & Hx3).
    assert (Hroute : best re (a ++ x :: b) 0 (clen n) None = Some (length a)).
    { destruct x as [?|xn xic xc xcs|xl xic xc xvs]; [destruct Hin| |].
      - (* the pattern lives below a node child *)
        cbn [regex_of is_node] in *. specialize (Hx3 I).
        assert (Hxre : tpre xn re).
        { cbn [TreeProofs.inv] in Hix. destruct Hix as (_ & _ & Hxpre & _). apply Hxpre.
          apply (entries_pats V valid (Node xn xic xc xcs) _ Hin). }
        assert (clen xn <= cp re xn) as Hge by (apply cp_ge; exact Hxre).
        apply best_route; [|right; cbn [regex_of]; lia].
        apply Forall_forall. intros y Hy. specialize (Hpx y Hy). destruct Hpx as [Hne Hc]. cbn [regex_of] in Hne, Hc.
        rewrite Forall_forall in Hcab. destruct (Hcab y Hy) as (Hy1 & Hy2 & _).
        assert (cp re (rx y) <= clen n) as Hcy.
        { apply cp_ext with xn; [exact Hxre|eapply tpre_shape_r; exact Hy2|rewrite cp_sym; exact Hc|exact Hx3]. }
        split; [|exact Hcy]. apply not_leaf_with_neq; [exact Hy1|]. intros E. rewrite E in Hcy.
        assert (clen re <= cp re re) by (apply cp_ge, tpre_refl; exact Hsre).
        assert (clen xn <= clen re) by (apply clen_mono; exact Hxre). lia.
      - (* the pattern is the one of a leaf child *)
        cbn [Tree.entries] in Hin. apply in_map_iff in Hin. destruct Hin as (e & He & _). inversion He; subst xl.
        apply best_route; [|left; cbn [is_leaf_with]; apply str_eqb_refl].
        apply Forall_forall. intros y Hy. specialize (Hpx y Hy). destruct Hpx as [Hne Hc]. cbn [regex_of] in Hne, Hc.
        rewrite Forall_forall in Hcab. destruct (Hcab y Hy) as (Hy1 & _ & _).
        split; [apply not_leaf_with_neq; assumption|rewrite cp_sym; exact Hc]. }
    rewrite Hroute, go_at. cbn [Tree.entries] in *. rewrite !flat_map_app in *. cbn [flat_map] in *. rewrite app_nil_r.
    rewrite !map_app in Hnd. rewrite !replace_entry_app.
    assert (In k (map id_of (entries x))) as Hkx by (apply in_map_iff; exists (re, (k, v0)); split; [reflexivity|exact Hin]).
    assert (~ In k (map id_of (flat_map entries a))) as Hka.
    { eapply NoDup_app_in_r; [exact Hnd|]. apply in_or_app. left. exact Hkx. }
    assert (~ In k (map id_of (flat_map entries b))) as Hkb.
    { apply NoDup_app_split in Hnd. destruct Hnd as [_ Hnd]. eapply NoDup_app_in_l; [exact Hnd|exact Hkx]. }
    assert (NoDup (map id_of (entries x))) as Hndx.
    { apply NoDup_app_split in Hnd. destruct Hnd as [_ Hnd]. apply NoDup_app_split in Hnd. tauto. }
    rewrite (replace_entry_notin re k v _ Hka), (replace_entry_notin re k v _ Hkb).
    rewrite <- app_assoc. apply Permutation_app_head.
    eapply Permutation_trans; [apply Permutation_app_comm|]. apply Permutation_app_tail.
    apply (IH x ltac:(apply in_or_app; right; left; reflexivity) re k v v0 Hix Hrx Hndx Hin).
  - cbn [Tree.entries] in Hin, Hnd. apply in_map_iff in Hin. destruct Hin as (e & He & Hin). inversion He; subst lre e. clear He.
    cbn [Tree.insert]. unfold pat_eqb at 1. rewrite str_eqb_refl. cbn [Tree.entries].
    rewrite map_map in Hnd. cbn in Hnd.
    rewrite assoc_set_existing; [|exact Hnd|apply in_map_iff; exists (k, v0); split; [reflexivity|exact Hin]].
    unfold replace_entry. rewrite !map_map. apply Permutation_refl'. apply map_ext. intros [k' v']. unfold set1, repl, id_of. cbn [fst snd].
    unfold pat_eqb. rewrite str_eqb_refl. cbn [andb]. destruct (id_eqb k' k); reflexivity.
Qed.

Theorem insert_entries_existing tic it re k v v0 : inv tic it -> rs it -> NoDup (eids it) -> In (re, (k, v0)) (entries it) ->
  Permutation (entries (insert it re k v)) (replace_entry re k v (entries it))
  /\ inv tic (insert it re k v) /\ rs (insert it re k v)
  /\ NoDup (eids (insert it re k v)) /\ len V (insert it re k v) = len V it.
Proof.
  intros Hi Hr Hnd Hin.
  assert (Hp : Permutation (entries (insert it re k v)) (replace_entry re k v (entries it))) by (eapply insert_entries_existing_id; eassumption).
  assert (shape re /\ re <> []) as [Hs Hne].
  { pose proof (pats_ok V valid shape tpre tic it Hi) as Hok. rewrite Forall_forall in Hok. apply (Hok re). apply (entries_pats V valid it _ Hin). }
  split; [exact Hp|]. split; [apply (insert_inv V cp take clen valid shape tpre); assumption|]. split; [eapply insert_rs; eassumption|]. split.
  - unfold TreeProofs.eids in *. eapply Permutation_NoDup; [apply Permutation_map, Permutation_sym; exact Hp|].
    change (NoDup (map id_of (replace_entry re k v (entries it)))). rewrite replace_entry_ids. exact Hnd.
  - rewrite !(len_entries V). rewrite (Permutation_length Hp). apply replace_entry_length.
Qed.


(* ================= remove / retain / cache preserve the routing structure ================= *)
(* what a child may become: same regex, or (for a node) its only remaining child, whose regex extends it *)
Definition ext (x x' : item) : Prop :=
  nonE x' /\ (is_node x' -> is_node x) /\ (rx x' = rx x \/ (is_node x /\ tpre (rx x) (rx x'))).

Lemma child_ok_ext n x x' : child_ok n x -> ext x x' -> child_ok n x'.
Proof.
  intros (H1 & H2 & H3) (E1 & E2 & E3). split; [exact E1|]. destruct E3 as [E|[En Et]].
  - rewrite E. split; [exact H2|]. intros Hn. apply H3, E2, Hn.
  - split; [eapply tpre_trans; eassumption|]. intros _. specialize (H3 En). apply clen_mono in Et. lia.
Qed.

Lemma sib_ext n x x' (b : pat) : child_ok n x -> ext x x' -> shape b -> sib (clen n) (rx x) b -> sib (clen n) (rx x') b.
Proof.
  intros (H1 & H2 & H3) (E1 & E2 & E3) Hb [Hne Hc]. destruct E3 as [E|[En Et]]; [rewrite E; split; assumption|].
  specialize (H3 En).
  assert (cp (rx x') b <= clen n) as Hc' by (apply cp_ext with (rx x); assumption).
  split; [|exact Hc']. intros E. rewrite E in Hc'.
  assert (clen b <= cp b b) by (apply cp_ge, tpre_refl; exact Hb).
  apply clen_mono in Et. rewrite E in Et. lia.
Qed.

Lemma sibR_ext2 n x x' y y' : child_ok n x -> child_ok n y -> sibR n x y ->
  (x' = x \/ ext x x') -> (y' = y \/ ext y y') -> sibR n x' y'.
Proof.
  intros Hx Hy Hs Ex Ey. unfold sibR in *.
  assert (child_ok n x') as Hx' by (destruct Ex as [->|Ex]; [exact Hx|exact (child_ok_ext n x x' Hx Ex)]).
  assert (sib (clen n) (rx x') (rx y)) as H1.
  { destruct Ex as [->|Ex]; [exact Hs|]. apply (sib_ext n x x' (rx y) Hx Ex); [|exact Hs]. destruct Hy as (_ & Ht & _). eapply tpre_shape_r; exact Ht. }
  destruct Ey as [->|Ey]; [exact H1|]. apply sib_sym. apply (sib_ext n y y' (rx x') Hy Ey); [|apply sib_sym; exact H1].
  destruct Hx' as (_ & Ht & _). eapply tpre_shape_r; exact Ht.
Qed.

Inductive ctrans : list item -> list item -> Prop :=
| ct_nil : ctrans [] []
| ct_drop x l l' : ctrans l l' -> ctrans (x :: l) l'
| ct_same x l l' : ctrans l l' -> ctrans (x :: l) (x :: l')
| ct_keep x x' l l' : ext x x' -> rs x' -> ctrans l l' -> ctrans (x :: l) (x' :: l').

Lemma ctrans_refl l : ctrans l l.
Proof. induction l; constructor; assumption. Qed.

Lemma ctrans_app a a' b b' : ctrans a a' -> ctrans b b' -> ctrans (a ++ b) (a' ++ b').
Proof. intros Ha Hb. induction Ha; cbn [app]; try (constructor; assumption). exact Hb. Qed.

Lemma ctrans_in l l' : ctrans l l' -> forall y', In y' l' -> exists y, In y l /\ (y' = y \/ ext y y').
Proof.
  induction 1 as [|x l l' _ IH|x l l' _ IH|x x' l l' He Hr _ IH]; intros y' Hy'.
  - destruct Hy'.
  - destruct (IH y' Hy') as (y & Hy & H). exists y. split; [right; exact Hy|exact H].
  - destruct Hy' as [<-|Hy']; [exists x; split; [left; reflexivity|left; reflexivity]|].
    destruct (IH y' Hy') as (y & Hy & H). exists y. split; [right; exact Hy|exact H].
  - destruct Hy' as [<-|Hy']; [exists x; split; [left; reflexivity|right; exact He]|].
    destruct (IH y' Hy') as (y & Hy & H). exists y. split; [right; exact Hy|exact H].
Qed.

Lemma ctrans_ok n cs cs' : ctrans cs cs' -> Forall (child_ok n) cs -> pairwise (sibR n) cs -> Forall rs cs ->
  Forall (child_ok n) cs' /\ pairwise (sibR n) cs' /\ Forall rs cs'.
Proof.
  induction 1 as [|x l l' Hc IH|x l l' Hc IH|x x' l l' He Hr Hc IH]; intros Hco Hpw Hrs.
  - auto.
  - inversion Hco; subst. inversion Hrs; subst. destruct Hpw as [_ Hpw]. auto.
  - inversion Hco as [|? ? Hcx Hcl]; subst. inversion Hrs as [|? ? Hrx Hrl]; subst. destruct Hpw as [Hpx Hpw].
    destruct (IH Hcl Hpw Hrl) as (I1 & I2 & I3). split; [constructor; assumption|]. split; [|constructor; assumption].
    split; [|exact I2]. apply Forall_forall. intros y' Hy'. destruct (ctrans_in _ _ Hc y' Hy') as (y & Hy & Hyy).
    rewrite Forall_forall in Hpx, Hcl. eapply sibR_ext2; [exact Hcx|apply Hcl, Hy|apply Hpx, Hy|left; reflexivity|exact Hyy].
  - inversion Hco as [|? ? Hcx Hcl]; subst. inversion Hrs as [|? ? Hrx Hrl]; subst. destruct Hpw as [Hpx Hpw].
    destruct (IH Hcl Hpw Hrl) as (I1 & I2 & I3). split; [constructor; [eapply child_ok_ext; eassumption|assumption]|]. split; [|constructor; assumption].
    split; [|exact I2]. apply Forall_forall. intros y' Hy'. destruct (ctrans_in _ _ Hc y' Hy') as (y & Hy & Hyy).
    rewrite Forall_forall in Hpx, Hcl. eapply sibR_ext2; [exact Hcx|apply Hcl, Hy|apply Hpx, Hy|right; exact He|exact Hyy].
Qed.

Definition rsP (x x' : item) : Prop := rs x' /\ (is_empty V x' = true \/ ext x x').

Lemma keep1_ctrans x x' : rsP x x' -> ctrans [x] (keep1 V x').
Proof.
  intros [Hr He]. unfold keep1. destruct (is_empty V x') eqn:E; [constructor; constructor|].
  destruct He as [He|He]; [discriminate|]. constructor; [exact He|exact Hr|constructor].
Qed.

Lemma ext_node_same n ic c cs ic' c' cs' : ext (Node n ic c cs) (Node n ic' c' cs').
Proof. split; [exact I|]. split; [auto|]. left. reflexivity. Qed.

Lemma ext_node_only n ic c cs y : child_ok n y -> ext (Node n ic c cs) y.
Proof. intros (H1 & H2 & _). split; [exact H1|]. split; [intros _; exact I|]. right. split; [exact I|exact H2]. Qed.

Lemma remove_rs it k : rs it -> rsP it (fst (remove V it k)).
Proof.
  induction it as [ic0|n ic0 cflag cs IH|lre ic0 cflag vs] using item_ind'; intros Hr.
  - split; [exact I|left; reflexivity].
  - rewrite remove_unfold_node. apply rs_node in Hr. destruct Hr as (Hco & Hpw & Hrs).
    assert (Hct : ctrans cs (fst (go_remove V (fun x => remove V x k) cs))).
    { clear Hco Hpw. induction cs as [|x cs IHcs]; [constructor|]. inversion IH as [|? ? Hx Hcs]; subst. inversion Hrs as [|? ? Hrx Hrcs]; subst.
      specialize (IHcs Hcs Hrcs). specialize (Hx Hrx).
      cbn [Tree.go_remove]. fold (go_remove V (fun x => remove V x k)). destruct (remove V x k) as [x' [v|]] eqn:Ex; cbn [fst] in Hx.
      - cbn [fst]. change (x :: cs) with ([x] ++ cs). apply ctrans_app; [apply keep1_ctrans; exact Hx|apply ctrans_refl].
      - destruct (go_remove V (fun x => remove V x k) cs) as [rest r']. cbn [fst] in *.
        change (x :: cs) with ([x] ++ cs). apply ctrans_app; [apply keep1_ctrans; exact Hx|exact IHcs]. }
    destruct (go_remove V (fun x => remove V x k) cs) as [cs' r]. cbn [fst] in Hct.
    destruct (ctrans_ok n cs cs' Hct Hco Hpw Hrs) as (H1 & H2 & H3).
    destruct cs' as [|y [|z l]]; cbn [fst].
    + split; [apply rs_node; auto|right; apply ext_node_same].
    + inversion H1; subst. inversion H3; subst. split; [assumption|right; apply ext_node_only; assumption].
    + split; [apply rs_node; auto|right; apply ext_node_same].
  - cbn [Tree.remove]. destruct (assoc_remove V k vs) as [vs' [v|]]; [destruct (is_nil vs')|]; cbn [fst].
    + split; [exact I|left; reflexivity].
    + split; [exact I|right]. split; [exact I|]. split; [intros []|left; reflexivity].
    + split; [exact I|right]. split; [exact I|]. split; [intros []|left; reflexivity].
Qed.

Lemma retain_rs f it : rs it -> rsP it (retain V f it).
Proof.
  induction it as [ic0|n ic0 cflag cs IH|lre ic0 cflag vs] using item_ind'; intros Hr.
  - split; [exact I|left; reflexivity].
  - apply rs_node in Hr. destruct Hr as (Hco & Hpw & Hrs). cbn [Tree.retain].
    assert (Hct : ctrans cs (flat_map (fun x => keep1 V (retain V f x)) cs)).
    { clear Hco Hpw. induction cs as [|x cs IHcs]; [constructor|]. inversion IH as [|? ? Hx Hcs]; subst. inversion Hrs as [|? ? Hrx Hrcs]; subst.
      cbn [flat_map]. change (x :: cs) with ([x] ++ cs). apply ctrans_app; [apply keep1_ctrans; auto|auto]. }
    destruct (ctrans_ok n cs _ Hct Hco Hpw Hrs) as (H1 & H2 & H3).
    destruct (flat_map (fun x => keep1 V (retain V f x)) cs) as [|y [|z l]].
    + split; [exact I|left; reflexivity].
    + inversion H1; subst. inversion H3; subst. split; [assumption|right; apply ext_node_only; assumption].
    + split; [apply rs_node; auto|right; apply ext_node_same].
  - cbn [Tree.retain]. destruct (is_nil (retain_values V f vs)).
    + split; [exact I|left; reflexivity].
    + split; [exact I|right]. split; [exact I|]. split; [intros []|left; reflexivity].
Qed.

Lemma same_top (a b : item) : same_upto_flags V a b -> rx a = rx b /\ (nonE a -> nonE b) /\ (is_node b -> is_node a).
Proof. intros H. inversion H; subst; cbn; auto. Qed.

Lemma same_child_ok n (a b : item) : same_upto_flags V a b -> child_ok n a -> child_ok n b.
Proof. intros H (H1 & H2 & H3). destruct (same_top a b H) as (E1 & E2 & E3). unfold child_ok. rewrite <- E1. split; [auto|]. split; [exact H2|auto]. Qed.

Lemma Forall_sibR_same n x x' l l' : rx x = rx x' -> Forall2 (same_upto_flags V) l l' -> Forall (sibR n x) l -> Forall (sibR n x') l'.
Proof.
  intros E H. induction H as [|y y' l l' Hy Hl IH]; intros Hf; [constructor|]. inversion Hf; subst. constructor; [|auto].
  unfold sibR in *. destruct (same_top y y' Hy) as (Ey & _). rewrite <- E, <- Ey. assumption.
Qed.

Lemma same_rs (a : item) : forall b, same_upto_flags V a b -> rs a -> rs b.
Proof.
  induction a as [ic0|n ic0 cflag cs IH|lre ic0 cflag vs] using item_ind'; intros b H Hr; inversion H; subst; try exact I.
  apply rs_node in Hr. destruct Hr as (Hco & Hpw & Hrs). apply rs_node.
  match goal with HF : Forall2 _ cs ?m |- _ => rename HF into H2; rename m into cs2 end. clear H.
  induction H2 as [|x x' l l' Hx Hl IHl]; [cbn; auto|].
  inversion IH as [|? ? IHx IHr]; subst. inversion Hco; subst. inversion Hrs; subst. destruct Hpw as [Hpx Hpw].
  destruct (IHl IHr) as (J1 & J2 & J3); try assumption.
  split; [constructor; [eapply same_child_ok; eassumption|exact J1]|]. split; [|constructor; [apply IHx; assumption|exact J3]].
  split; [|exact J2]. destruct (same_top x x' Hx) as (Ex & _). eapply Forall_sibR_same; eassumption.
Qed.


(* ======================================================================================== *)
(* histories in which an insertion may also overwrite the value of a live (pattern, id)       *)
(* ======================================================================================== *)
Notation op := (op V).
Notation step := (step V cp take clen valid).
Notation run := (run V cp take clen valid).
Notation tree_of := (tree_of V cp take clen valid).

Definition has_id (k : ident) (L : list entry) : bool := existsb (fun e => id_eqb (id_of e) k) L.

Lemma has_id_spec k (L : list entry) : has_id k L = true <-> In k (map id_of L).
Proof.
  unfold has_id. rewrite existsb_exists, in_map_iff. split.
  - intros (e & He & E). exists e. split; [apply str_eqb_spec; exact E|exact He].
  - intros (e & E & He). exists e. split; [exact He|apply str_eqb_spec; exact E].
Qed.

(* the flat model: an insertion under a live id rewrites that entry in place, otherwise appends *)
Definition live_step_r (L : list entry) (o : op) : list entry :=
  match o with
  | OInsert _ p k v => if has_id k L then replace_entry p k v L else L ++ [(p, (k, v))]
  | _ => live_step V L o
  end.
Definition live_from_r (L : list entry) (ops : list op) : list entry := fold_left live_step_r ops L.
Definition live_r (ops : list op) : list entry := live_from_r [] ops.

(* admissible insertion: rule-regex shape, non-empty, and the id is either not live or live under
   the SAME pattern *)
Definition ins_ok_r (L : list entry) (p : pat) (k : ident) : Prop :=
  shape p /\ p <> [] /\ (~ In k (map id_of L) \/ exists v0, In (p, (k, v0)) L).
Fixpoint hist_ok_r (L : list entry) (ops : list op) : Prop :=
  match ops with
  | [] => True
  | o :: ops' =>
      match o with
      | OInsert _ p k v => ins_ok_r L p k
      | _ => True
      end /\ hist_ok_r (live_step_r L o) ops'
  end.

Lemma step_refines_r tic (t : item) L o :
  inv tic t -> rs t -> Permutation (entries t) L -> NoDup (map id_of L) ->
  match o with OInsert _ p k v => ins_ok_r L p k | _ => True end ->
  inv tic (step t o) /\ rs (step t o) /\ Permutation (entries (step t o)) (live_step_r L o) /\ NoDup (map id_of (live_step_r L o)).
Proof.
  intros Hi Hr Hp Hnd Hok.
  pose proof (step_refines V cp take clen valid shape tpre tpre_trans cut_l cut_r cut_l' cut_r' tpre_shape_l cp_pre tic t L) as Hstep.
  destruct o as [p k v|k|f|l lv].
  - destruct Hok as (Hs & Hne & [Hfresh|(v0 & Hin)]).
    + destruct (Hstep (OInsert V p k v) Hi Hp Hnd (conj Hs (conj Hne Hfresh))) as (H1 & H2 & H3).
      cbn [live_step_r]. replace (has_id k L) with false.
      * split; [exact H1|]. split; [cbn [TreeProofs.step]; eapply insert_rs; eassumption|]. split; [exact H2|exact H3].
      * symmetry. destruct (has_id k L) eqn:E; [|reflexivity]. apply has_id_spec in E. contradiction.
    + assert (NoDup (eids t)) as Hnd'.
      { unfold TreeProofs.eids. eapply Permutation_NoDup; [apply Permutation_map, Permutation_sym; exact Hp|exact Hnd]. }
      assert (In (p, (k, v0)) (entries t)) as Hin' by (eapply Permutation_in; [apply Permutation_sym; exact Hp|exact Hin]).
      destruct (insert_entries_existing tic t p k v v0 Hi Hr Hnd' Hin') as (H1 & H2 & H3 & _ & _).
      cbn [live_step_r TreeProofs.step]. replace (has_id k L) with true.
      * split; [exact H2|]. split; [exact H3|]. split.
        -- eapply Permutation_trans; [exact H1|]. apply Permutation_map. exact Hp.
        -- rewrite replace_entry_ids. exact Hnd.
      * symmetry. apply has_id_spec. apply in_map_iff. exists (p, (k, v0)). split; [reflexivity|exact Hin].
  - destruct (Hstep (ORemove V k) Hi Hp Hnd I) as (H1 & H2 & H3). split; [exact H1|]. split; [|split; assumption].
    cbn [TreeProofs.step]. apply remove_rs. exact Hr.
  - destruct (Hstep (ORetain V f) Hi Hp Hnd I) as (H1 & H2 & H3). split; [exact H1|]. split; [|split; assumption].
    cbn [TreeProofs.step]. apply retain_rs. exact Hr.
  - destruct (Hstep (OCache V l lv) Hi Hp Hnd I) as (H1 & H2 & H3). split; [exact H1|]. split; [|split; assumption].
    cbn [TreeProofs.step]. eapply same_rs; [apply tree_cache_same|exact Hr].
Qed.

(* the refinement theorem for the relaxed admissibility *)
Theorem run_refines_r tic ops : forall (t : item) L,
  inv tic t -> rs t -> Permutation (entries t) L -> NoDup (map id_of L) -> hist_ok_r L ops ->
  inv tic (run ops t) /\ rs (run ops t) /\ Permutation (entries (run ops t)) (live_from_r L ops) /\ NoDup (map id_of (live_from_r L ops)).
Proof.
  induction ops as [|o ops IH]; intros t L Hi Hr Hp Hnd Hok; cbn [TreeProofs.run live_from_r fold_left].
  - auto.
  - destruct Hok as [Ho Hok]. destruct (step_refines_r tic t L o Hi Hr Hp Hnd Ho) as (Hi' & Hr' & Hp' & Hnd').
    apply IH; assumption.
Qed.

Lemma reach_r ic ops : hist_ok_r [] ops ->
  inv ic (tree_of ic ops) /\ rs (tree_of ic ops) /\ Permutation (entries (tree_of ic ops)) (live_r ops) /\ NoDup (map id_of (live_r ops)).
Proof. intros Hok. exact (run_refines_r ic ops (Empty ic) [] eq_refl I (Permutation_refl _) (NoDup_nil _) Hok). Qed.

(* every history admissible in the strict sense is admissible in the relaxed one, with the same flat model *)
Lemma hist_ok_relax ops : forall L, hist_ok V shape L ops -> hist_ok_r L ops /\ live_from_r L ops = live_from V L ops.
Proof.
  induction ops as [|o ops IH]; intros L Hok; cbn [hist_ok_r live_from_r TreeProofs.live_from fold_left]; [auto|].
  cbn [TreeProofs.hist_ok] in Hok. destruct Hok as [Ho Hok].
  assert (live_step_r L o = live_step V L o) as E.
  { destruct o as [p k v|k|f|l lv]; try reflexivity. cbn [live_step_r TreeProofs.live_step].
    destruct (has_id k L) eqn:Eh; [|reflexivity]. apply has_id_spec in Eh. tauto. }
  rewrite E. destruct (IH _ Hok) as [H1 H2]. split; [|exact H2]. split; [|exact H1].
  destruct o as [p k v|k|f|l lv]; try exact I. destruct Ho as (Hs & Hne & Hf). repeat split; auto.
Qed.

Theorem hist_len_r ic ops : hist_ok_r [] ops -> len V (tree_of ic ops) = length (live_r ops).
Proof.
  intros Hok. destruct (reach_r ic ops Hok) as (_ & _ & Hp & _). rewrite (len_entries V). apply Permutation_length. exact Hp.
Qed.

Theorem hist_iter_r ic ops : hist_ok_r [] ops ->
  Permutation (all_values V (tree_of ic ops)) (map value_of (live_r ops)).
Proof.
  intros Hok. destruct (reach_r ic ops Hok) as (_ & _ & Hp & _). rewrite (all_values_entries V). apply Permutation_map. exact Hp.
Qed.

Lemma NoDup_map_inj {A B} (f : A -> B) (l : list A) a b : NoDup (map f l) -> In a l -> In b l -> f a = f b -> a = b.
Proof.
  induction l as [|x l IH]; cbn [map]; intros Hnd Ha Hb E; [destruct Ha|]. inversion Hnd as [|? ? Hn Hnd']; subst.
  destruct Ha as [->|Ha], Hb as [->|Hb]; [reflexivity| | |auto].
  - exfalso. apply Hn. rewrite E. apply in_map. exact Hb.
  - exfalso. apply Hn. rewrite <- E. apply in_map. exact Ha.
Qed.

(* ---- the statements that speak about lookups need the engine and its two laws ---- *)
Section Engine.
Variable eng : bool -> pat -> list N -> bool.
Hypothesis eng_dotstar : forall ic s, eng ic [c_dot; c_star] s = true.
Hypothesis prefix_law : forall ic p q s, tpre p q -> ML eng ic q s = true -> MN eng ic p s = true.
Hypothesis tpre_starts : forall p q, tpre p q -> starts_with q p = true.
Notation find := (Tree.find V eng).

Theorem hist_find_r ic ops s : hist_ok_r [] ops ->
  Permutation (find (tree_of ic ops) s) (map value_of (filter (fun e => ML eng ic (fst e) s) (live_r ops))).
Proof.
  intros Hok. destruct (reach_r ic ops Hok) as (Hi & _ & Hp & _).
  rewrite (find_spec V eng valid shape tpre eng_dotstar prefix_law ic _ s Hi). apply Permutation_map. apply Permutation_filter'. exact Hp.
Qed.

Theorem hist_get_r ic ops re : hist_ok_r [] ops ->
  Permutation (get V (tree_of ic ops) re) (map value_of (filter (fun e => pat_eqb (fst e) re) (live_r ops))).
Proof.
  intros Hok. destruct (reach_r ic ops Hok) as (Hi & _ & Hp & _).
  rewrite (get_spec V valid shape tpre tpre_starts ic _ re Hi). apply Permutation_map. apply Permutation_filter'. exact Hp.
Qed.

(* storing a value under a live (pattern, id) replaces it: after any admissible history *)
Theorem hist_insert_replaces ic ops p k v v0 s : hist_ok_r [] ops -> In (p, (k, v0)) (live_r ops) ->
  let t := tree_of ic ops in
  let t' := insert t p k v in
  let L' := replace_entry p k v (live_r ops) in
  Permutation (entries t') L'
  /\ len V t' = len V t
  /\ Permutation (find t' s) (map value_of (filter (fun e => ML eng ic (fst e) s) L'))
  /\ Permutation (get V t' p) (map value_of (filter (fun e => pat_eqb (fst e) p) L'))
  /\ In v (get V t' p)
  /\ (forall e, In e (entries t') -> id_of e = k -> e = (p, (k, v))).
Proof.
  intros Hok Hin t t' L'. destruct (reach_r ic ops Hok) as (Hi & Hr & Hp & Hnd). fold t in Hi, Hr, Hp.
  assert (In (p, (k, v0)) (entries t)) as Hin' by (eapply Permutation_in; [apply Permutation_sym; exact Hp|exact Hin]).
  assert (shape p /\ p <> []) as [Hs Hne].
  { pose proof (pats_ok V valid shape tpre ic t Hi) as Hpo. rewrite Forall_forall in Hpo. apply (Hpo p). apply (entries_pats V valid t _ Hin'). }
  assert (ins_ok_r (live_r ops) p k) as Ho by (split; [exact Hs|split; [exact Hne|right; exists v0; exact Hin]]).
  destruct (step_refines_r ic t (live_r ops) (OInsert V p k v) Hi Hr Hp Hnd Ho) as (Hi' & Hr' & Hp' & Hnd').
  cbn [TreeProofs.step live_step_r] in Hi', Hr', Hp', Hnd'. fold t' in Hi', Hr', Hp'.
  assert (has_id k (live_r ops) = true) as Eh.
  { apply has_id_spec. apply in_map_iff. exists (p, (k, v0)). split; [reflexivity|exact Hin]. }
  rewrite Eh in Hp', Hnd'. fold L' in Hp', Hnd'.
  assert (In (p, (k, v)) L') as HinL'.
  { unfold L', replace_entry. apply in_map_iff. exists (p, (k, v0)). split; [|exact Hin].
    unfold repl, id_of. cbn [fst snd]. unfold pat_eqb, id_eqb. rewrite !str_eqb_refl. reflexivity. }
  split; [exact Hp'|]. split.
  { rewrite !(len_entries V). rewrite (Permutation_length Hp'), (Permutation_length Hp). apply replace_entry_length. }
  split.
  { rewrite (find_spec V eng valid shape tpre eng_dotstar prefix_law ic _ s Hi'). apply Permutation_map. apply Permutation_filter'. exact Hp'. }
  split.
  { rewrite (get_spec V valid shape tpre tpre_starts ic _ p Hi'). apply Permutation_map. apply Permutation_filter'. exact Hp'. }
  split.
  { rewrite (get_spec V valid shape tpre tpre_starts ic _ p Hi'). apply in_map_iff. exists (p, (k, v)). split; [reflexivity|].
    apply filter_In. split; [eapply Permutation_in; [apply Permutation_sym; exact Hp'|exact HinL']|]. cbn [fst]. apply str_eqb_refl. }
  intros e He Hk. assert (In e L') as HeL by (eapply Permutation_in; [exact Hp'|exact He]).
  apply (NoDup_map_inj id_of L' e (p, (k, v)) Hnd' HeL HinL'). exact Hk.
Qed.

End Engine.
End TreeReplace.


(* ======================================================================================== *)
(* Part A — prefix.rs: common_prefix_char_size is the length of the LONGEST common token prefix *)
(* ======================================================================================== *)
Definition tok_eq_dec (a b : tok) : {a = b} + {a <> b}.
Proof. decide equality; try apply N.eq_dec. apply (list_eq_dec N.eq_dec). Defined.

Fixpoint tlcp (p q : list tok) : list tok :=
  match p, q with
  | t :: p', u :: q' => if tok_eq_dec t u then t :: tlcp p' q' else []
  | _, _ => []
  end.

Lemma lcp_app_same w : forall a b, lcp (w ++ a) (w ++ b) = w ++ lcp a b.
Proof. induction w as [|c w IH]; intros a b; cbn [app lcp]; [reflexivity|]. rewrite N.eqb_refl, IH. reflexivity. Qed.

Lemma lcp_sym l : forall r, lcp l r = lcp r l.
Proof. induction l as [|a l IH]; intros [|b r]; cbn [lcp]; try reflexivity.
  rewrite (N.eqb_sym b a). destruct (N.eqb a b) eqn:E; [|reflexivity]. apply N.eqb_eq in E. subst. rewrite IH. reflexivity. Qed.

Lemma prefix_tok t u b : tok_ok t = true -> tok_ok u = true -> prefix (render1 t) (render1 u ++ b) -> t = u.
Proof. intros Ht Hu [x Hx]. symmetry in Hx. destruct (prefix_free t u x b Ht Hu Hx) as [E _]. exact E. Qed.

Theorem last_cut_tlcp : forall p q i, toks_ok p -> toks_ok q ->
  last_cut (lcp (render p) (render q)) sc0 i i = i + length (render (tlcp p q)).
Proof.
  induction p as [|t p IH]; intros q i Hp Hq.
  - cbn. lia.
  - destruct q as [|u q].
    + cbn [render flat_map tlcp]. destruct (render1 t ++ flat_map render1 p); cbn; lia.
    + unfold toks_ok in Hp, Hq. cbn [forallb] in Hp, Hq. apply andb_prop in Hp, Hq. destruct Hp as [Ht Hp]. destruct Hq as [Hu Hq].
      change (render (t :: p)) with (render1 t ++ render p). change (render (u :: q)) with (render1 u ++ render q).
      cbn [tlcp]. destruct (tok_eq_dec t u) as [<-|Hne].
      * rewrite lcp_app_same, last_cut_app. destruct (tok_scan t i i Ht) as [Hs Hl]. rewrite Hs, Hl.
        rewrite (IH q (i + length (render1 t)) Hp Hq).
        change (render (t :: tlcp p q)) with (render1 t ++ render (tlcp p q)). rewrite app_length. lia.
      * cbn [render flat_map length]. rewrite Nat.add_0_r.
        pose proof (lcp_prefix_l (render1 t ++ render p) (render1 u ++ render q)) as Hl.
        pose proof (lcp_prefix_r (render1 t ++ render p) (render1 u ++ render q)) as Hr.
        destruct (prefix_cases _ _ _ Hl) as [(w' & Hw & _)|(x & Hx & Hnx)].
        -- exfalso. apply Hne. apply (prefix_tok t u (render q) Ht Hu).
           destruct Hr as [y Hy]. rewrite Hw in Hy. exists (w' ++ y). rewrite Hy, app_assoc. reflexivity.
        -- apply (tok_inside t i i _ x Ht Hx Hnx).
Qed.

Theorem cp_c_tlcp p q : toks_ok p -> toks_ok q -> cp_c (render p) (render q) = length (render (tlcp p q)).
Proof. intros Hp Hq. unfold cp_c, common_prefix_char_size. rewrite cpcs_last_cut. apply (last_cut_tlcp p q 0 Hp Hq). Qed.

(* --- token-level facts --- *)
Lemma tlcp_sym p : forall q, tlcp p q = tlcp q p.
Proof. induction p as [|t p IH]; intros [|u q]; cbn [tlcp]; try reflexivity.
  destruct (tok_eq_dec t u) as [E|E], (tok_eq_dec u t) as [E'|E']; try congruence; subst; rewrite IH; reflexivity. Qed.

Lemma tlcp_firstn_l k : forall p q, tlcp (firstn k p) q = firstn k (tlcp p q).
Proof. induction k as [|k IH]; intros [|t p] [|u q]; cbn [firstn tlcp]; try reflexivity.
  destruct (tok_eq_dec t u); cbn [firstn]; [rewrite IH|]; reflexivity. Qed.

Lemma tlcp_is_firstn p : forall q, exists m, tlcp p q = firstn m p.
Proof. induction p as [|t p IH]; intros [|u q]; cbn [tlcp]; try (exists 0; reflexivity).
  destruct (tok_eq_dec t u); [|exists 0; reflexivity]. destruct (IH q) as [m Hm]. exists (S m). cbn [firstn]. rewrite Hm. reflexivity. Qed.

Lemma tlcp_self p : tlcp p p = p.
Proof. induction p as [|t p IH]; cbn [tlcp]; [reflexivity|]. destruct (tok_eq_dec t t); [rewrite IH; reflexivity|congruence]. Qed.

Lemma render_firstn_le k ts : length (render (firstn k ts)) <= length (render ts).
Proof. rewrite <- (firstn_skipn k ts) at 2. rewrite render_app, app_length. lia. Qed.

Lemma render_firstn_mono j k ts : j <= k -> length (render (firstn j ts)) <= length (render (firstn k ts)).
Proof. intros H. replace (firstn j ts) with (firstn j (firstn k ts)) by (rewrite firstn_firstn; f_equal; lia). apply render_firstn_le. Qed.

(* --- the additional laws of the abstract prefix structure, for prefix.rs --- *)
Lemma tpre_refl_c p : shape_c p -> tpre_c p p.
Proof. intros (ts & Hok & <-). exists ts, (length ts). rewrite firstn_all. auto. Qed.

Lemma tpre_shape_r_c p q : tpre_c p q -> shape_c q.
Proof. intros (ts & k & Hok & Hq & _). exists ts. auto. Qed.

Lemma clen_mono_c p q : tpre_c p q -> clen_c p <= clen_c q.
Proof. intros (ts & k & _ & <- & <-). apply render_firstn_le. Qed.

Lemma cp_sym_c p q : cp_c p q = cp_c q p.
Proof. unfold cp_c, common_prefix_char_size. rewrite !cpcs_last_cut, lcp_sym. reflexivity. Qed.

Lemma cp_ge_c p q : tpre_c p q -> clen_c p <= cp_c q p.
Proof.
  intros (ts & k & Hok & <- & <-). rewrite cp_c_tlcp by (try apply toks_ok_firstn; exact Hok).
  rewrite tlcp_sym, tlcp_firstn_l, tlcp_self. unfold clen_c. apply le_n.
Qed.

Lemma cp_mono_c a' a b : tpre_c a' a -> shape_c b -> cp_c a' b <= cp_c a b.
Proof.
  intros (ts & k & Hok & <- & <-) (bs & Hb & <-). rewrite !cp_c_tlcp by (try apply toks_ok_firstn; assumption).
  rewrite tlcp_firstn_l. apply render_firstn_le.
Qed.

Lemma cp_ext_c a q b n : tpre_c a q -> shape_c b -> cp_c a b <= n -> n < clen_c a -> cp_c q b <= n.
Proof.
  intros (ts & k & Hok & <- & <-) (bs & Hb & <-). rewrite !cp_c_tlcp by (try apply toks_ok_firstn; assumption).
  rewrite tlcp_firstn_l. unfold clen_c. destruct (tlcp_is_firstn ts bs) as [m Hm]. rewrite Hm. intros H1 H2.
  rewrite firstn_firstn in H1. destruct (Nat.le_gt_cases k m) as [Hkm|Hkm].
  - rewrite Nat.min_l in H1 by exact Hkm. exfalso. apply (Nat.lt_irrefl n). eapply Nat.lt_le_trans; [exact H2|exact H1].
  - rewrite Nat.min_r in H1 by lia. exact H1.
Qed.

Lemma take_clen_c p q : shape_c p -> shape_c q -> clen_c (take_c p (cp_c q p)) = cp_c q p.
Proof.
  intros (ps & Hp & <-) (qs & Hq & <-). unfold clen_c, take_c, get_prefix_with_char_size.
  apply firstn_length_le. rewrite cp_c_tlcp by assumption. rewrite tlcp_sym.
  destruct (tlcp_is_firstn ps qs) as [m ->]. apply render_firstn_le.
Qed.

Lemma tpre_cmp_c a b c : tpre_c a c -> tpre_c b c -> clen_c a <= clen_c b -> tpre_c a b.
Proof.
  intros (ts & ka & Hok & <- & <-) (ts' & kb & Hok' & Hc & <-). unfold clen_c.
  assert (ts' = ts) as -> by (apply render_inj; assumption). intros Hle.
  destruct (Nat.le_gt_cases ka kb) as [Hk|Hk].
  - exists (firstn kb ts), ka. split; [apply toks_ok_firstn; exact Hok|]. split; [reflexivity|].
    rewrite firstn_firstn. f_equal. f_equal. lia.
  - assert (render (firstn kb ts) = render (firstn ka ts)) as ->.
    { apply prefix_length_eq; [|exact Hle].
      exists (render (skipn kb (firstn ka ts))). rewrite <- render_app. f_equal.
      replace (firstn kb ts) with (firstn kb (firstn ka ts)) by (rewrite firstn_firstn; f_equal; lia).
      symmetry. apply firstn_skipn. }
    apply tpre_refl_c. exists (firstn ka ts). split; [apply toks_ok_firstn; exact Hok|reflexivity].
Qed.

(* ======================================================================================== *)
(* Part C — the theorems for prefix.rs                                                        *)
(* ======================================================================================== *)
Ltac prx := first [ exact tpre_trans_c | exact cut_l_c | exact cut_r_c | exact cut_l'_c | exact cut_r'_c
                  | exact tpre_shape_l_c | exact cp_pre_c | exact tpre_starts_c
                  | exact tpre_refl_c | exact tpre_shape_r_c | exact clen_mono_c | exact cp_sym_c | exact cp_ge_c
                  | exact cp_mono_c | exact cp_ext_c | exact take_clen_c | exact tpre_cmp_c | assumption ].

Section TreeReplaceC.
Variable V : Type.
Variable valid : bool -> pat -> bool.

Definition rs_c (it : item V) : Prop := rs V cp_c clen_c tpre_c it.

Theorem insert_rs_c tic it re k v : shape_c re -> re <> [] -> inv V shape_c tpre_c tic it -> rs_c it ->
  rs_c (insert V cp_c take_c clen_c it re k v).
Proof. intros. unfold rs_c in *. eapply insert_rs; try eassumption; prx. Qed.

Theorem insert_entries_existing_c tic it re k v v0 :
  inv V shape_c tpre_c tic it -> rs_c it -> NoDup (eids V it) -> In (re, (k, v0)) (entries V it) ->
  Permutation (entries V (insert V cp_c take_c clen_c it re k v)) (replace_entry V re k v (entries V it))
  /\ inv V shape_c tpre_c tic (insert V cp_c take_c clen_c it re k v)
  /\ rs_c (insert V cp_c take_c clen_c it re k v)
  /\ NoDup (eids V (insert V cp_c take_c clen_c it re k v))
  /\ len V (insert V cp_c take_c clen_c it re k v) = len V it.
Proof. intros. unfold rs_c in *. eapply insert_entries_existing; try eassumption; prx. Qed.

Theorem run_refines_r_c tic ops t L :
  inv V shape_c tpre_c tic t -> rs_c t -> Permutation (entries V t) L -> NoDup (map (id_of V) L) -> hist_ok_r V shape_c L ops ->
  inv V shape_c tpre_c tic (run V cp_c take_c clen_c valid ops t) /\ rs_c (run V cp_c take_c clen_c valid ops t)
  /\ Permutation (entries V (run V cp_c take_c clen_c valid ops t)) (live_from_r V L ops)
  /\ NoDup (map (id_of V) (live_from_r V L ops)).
Proof. intros. unfold rs_c in *. eapply run_refines_r; try eassumption; prx. Qed.

Theorem hist_len_r_c ic ops : hist_ok_r V shape_c [] ops ->
  len V (tree_of V cp_c take_c clen_c valid ic ops) = length (live_r V ops).
Proof. intros. eapply hist_len_r; try eassumption; prx. Qed.

Theorem hist_iter_r_c ic ops : hist_ok_r V shape_c [] ops ->
  Permutation (all_values V (tree_of V cp_c take_c clen_c valid ic ops)) (map (value_of V) (live_r V ops)).
Proof. intros. eapply hist_iter_r; try eassumption; prx. Qed.

Variable eng : bool -> pat -> list N -> bool.
Hypothesis Hd : engine_dotstar eng.
Hypothesis Hp : engine_prefix_law eng.

Theorem hist_find_r_c ic ops s : hist_ok_r V shape_c [] ops ->
  Permutation (find V eng (tree_of V cp_c take_c clen_c valid ic ops) s)
              (map (value_of V) (filter (fun e => ML eng ic (fst e) s) (live_r V ops))).
Proof. intros. eapply hist_find_r; try eassumption; try prx; try exact Hd; try exact Hp. Qed.

Theorem hist_get_r_c ic ops re : hist_ok_r V shape_c [] ops ->
  Permutation (get V (tree_of V cp_c take_c clen_c valid ic ops) re)
              (map (value_of V) (filter (fun e => pat_eqb (fst e) re) (live_r V ops))).
Proof. intros. eapply hist_get_r; try eassumption; try prx; try exact Hd; try exact Hp. Qed.

Theorem hist_insert_replaces_c ic ops p k v v0 s : hist_ok_r V shape_c [] ops -> In (p, (k, v0)) (live_r V ops) ->
  let t := tree_of V cp_c take_c clen_c valid ic ops in
  let t' := insert V cp_c take_c clen_c t p k v in
  let L' := replace_entry V p k v (live_r V ops) in
  Permutation (entries V t') L'
  /\ len V t' = len V t
  /\ Permutation (find V eng t' s) (map (value_of V) (filter (fun e => ML eng ic (fst e) s) L'))
  /\ Permutation (get V t' p) (map (value_of V) (filter (fun e => pat_eqb (fst e) p) L'))
  /\ In v (get V t' p)
  /\ (forall e, In e (entries V t') -> id_of V e = k -> e = (p, (k, v))).
Proof. intros H1 H2. eapply hist_insert_replaces; try eassumption; try prx; try exact Hd; try exact Hp. Qed.
End TreeReplaceC.
