(* C19UnitsRun.v — executable verdict for the unit-trace clause of C19: the `unit_trace` object serialised by
   ExplainRequestOutput / Impact (fields rule_ids_applied, unit_ids_applied, unit_ids_seen, value_computed_by_units)
   against RIO.UnitTrace.t_analysis_of_rules evaluated on the rules the router matched for the example.
   rule_ids_applied and unit_ids_applied are compared as sequences; unit_ids_seen as a set and
   value_computed_by_units as a map (both HashMap-order dependent in the crate): the harness may print them in any
   order, both sides are sorted here (RIO.UnitTrace.ut_report). *)
Require Import RIO.Base RIO.Headers RIO.BodyText RIO.ActionModel RIO.Pipeline RIO.C05Run RIO.UnitTrace.

Record upipe19 := {
  up_rules : list urule;              (* matched rules with their unit fields, in any order *)
  up_skipped : option str;            (* request.path_and_query_skipped.skipped_query_params *)
  up_code : option N;                 (* example.response_status_code *)
  up_lower : list (str * str);        (* String::to_lowercase oracle, as in RIO.C19Run.pipe19 *)
  uo_rule_ids : list str;             (* unit_trace.rule_ids_applied, in order *)
  uo_unit_ids_applied : list str;     (* unit_trace.unit_ids_applied, in order *)
  uo_unit_ids_seen : list str;        (* unit_trace.unit_ids_seen, any order *)
  uo_values : list (str * str)        (* unit_trace.value_computed_by_units, any order *)
}.

Definition kv_eqb (a b : str * str) : bool := str_eqb (fst a) (fst b) && str_eqb (snd a) (snd b).

Definition model_report (table : list (str * hkind)) (skeleton : str) (p : upipe19) :=
  ut_report (snd (t_analysis_of_rules (lower_of (up_lower p)) table (up_rules p) (up_skipped p) None (up_code p) skeleton)).

Definition unit_trace_ok (table : list (str * hkind)) (skeleton : str) (p : upipe19) : bool :=
  let '(rules, applied, seen, values) := model_report table skeleton p in
  list_eqb str_eqb rules (uo_rule_ids p)
  && list_eqb str_eqb applied (uo_unit_ids_applied p)
  && list_eqb str_eqb seen (sort_strs (uo_unit_ids_seen p))
  && list_eqb kv_eqb values (sort_kv (uo_values p)).
