(* HtmlConserveEx.v — non-vacuity of the conservation theorems of RIO.HtmlConserve: concrete chunked runs in which
   an insertion / a replacement really happens (evaluated), the instances of the theorems on them, and the
   assumptions of the main theorems. *)
Require Import RIO.Base RIO.TokMonad RIO.HtmlTok RIO.BodyText RIO.HtmlFilter RIO.HtmlTokProofs RIO.HtmlSplit.
Require Import RIO.HtmlEdit RIO.HtmlTagShape RIO.HtmlConserve RIO.HtmlConserveChain.
Close Scope N_scope.

Definition lw : str -> str := map ascii_lower.
Definition sel_no : str -> str -> bool := fun _ _ => false.      (* the selector never matches *)
Definition sel_yes : str -> str -> bool := fun _ _ => true.      (* the selector always matches *)
Definition s_body : str := [98;111;100;121]%N.
Definition s_div : str := [100;105;118]%N.
Definition mkf k v t c : html_filter := {| hf_kind := k; hf_value := v; hf_tree := t; hf_css := c |}.
Definition css_x : option str := Some [46;120]%N.                 (* ".x" *)

Definition doc1 : list N := [60;98;111;100;121;62;120;60;47;98;111;100;121;62]%N.               (* <body>x</body> *)
Definition doc2 : list N := [97;60;100;105;118;62;120;60;98;114;62;60;47;100;105;118;62;98]%N.  (* a<div>x<br></div>b *)
Definition doc3 : list N := [97;60;100;105;118;62;120]%N.                                       (* a<div>x *)
Definition doc4 : list N := [97;60;100;105;118;62;255;60;47;100;105;118;62;98]%N.               (* a<div>\xFF</div>b *)
Definition doc5 : list N :=                                                        (* <div><div>x</div>y</div> *)
  [60;100;105;118;62;60;100;105;118;62;120;60;47;100;105;118;62;121;60;47;100;105;118;62]%N.

(* every way of cutting a document in two chunks *)
Definition cuts (d : list N) : list (list (list N)) := map (fun k => [firstn k d; skipn k d]) (seq 0 (S (length d))).
Definition all_cuts (f : list (list N) -> list N) (d expected : list N) : bool :=
  forallb (fun cs => str_eqb (f cs) expected) (cuts d).

(* append_child, no selector: three chunks cut inside the tags; <i> is inserted before </body> *)
Example ex_append_run :
  body_run lw sel_no true [BFHtml (mkf HAppendChild [60;105;62]%N [s_body] None)]
           [firstn 3 doc1; firstn 6 (skipn 3 doc1); skipn 9 doc1]
  = [60;98;111;100;121;62;120;60;105;62;60;47;98;111;100;121;62]%N.                 (* <body>x<i></body> *)
Proof. vm_compute. reflexivity. Qed.

(* prepend_child without and with selector (not matched: the value is inserted by re-tokenising the buffer),
   append_child with selector; every cut in two chunks gives the same output *)
Example ex_prepend_runs :
  all_cuts (body_run lw sel_no true [BFHtml (mkf HPrependChild [80]%N [s_div] None)]) doc2
           [97;60;100;105;118;62;80;120;60;98;114;62;60;47;100;105;118;62;98]%N = true        (* a<div>Px<br></div>b *)
  /\ all_cuts (body_run lw sel_no true [BFHtml (mkf HPrependChild [80]%N [s_div] css_x)]) doc2
           [97;60;100;105;118;62;80;120;60;98;114;62;60;47;100;105;118;62;98]%N = true
  /\ all_cuts (body_run lw sel_no true [BFHtml (mkf HAppendChild [80]%N [s_div] css_x)]) doc2
           [97;60;100;105;118;62;120;60;98;114;62;80;60;47;100;105;118;62;98]%N = true        (* a<div>x<br>P</div>b *)
  /\ all_cuts (body_run lw sel_yes true [BFHtml (mkf HAppendChild [80]%N [s_div] css_x)]) doc2 doc2 = true.
Proof. vm_compute. repeat split. Qed.

(* replace: the span <div>x<br></div> is replaced by R, for every cut; with a selector it is replaced only when
   the selector matches; an element that is never closed, and a buffer that is not UTF-8 (error path), are released
   unchanged *)
Example ex_replace_runs :
  all_cuts (body_run lw sel_no true [BFHtml (mkf HReplace [82]%N [s_div] None)]) doc2 [97;82;98]%N = true
  /\ all_cuts (body_run lw sel_yes true [BFHtml (mkf HReplace [82]%N [s_div] css_x)]) doc2 [97;82;98]%N = true
  /\ all_cuts (body_run lw sel_no true [BFHtml (mkf HReplace [82]%N [s_div] css_x)]) doc2 doc2 = true
  /\ all_cuts (body_run lw sel_no true [BFHtml (mkf HReplace [82]%N [s_div] None)]) doc3 doc3 = true
  /\ all_cuts (body_run lw sel_no true [BFHtml (mkf HReplace [82]%N [s_div] None)]) doc4 doc4 = true.
Proof. vm_compute. repeat split. Qed.

(* what a replaced span is: from the start tag of the element to the FIRST end tag of that name (the stage does not
   count nesting): <div><div>x</div>y</div> gives Ry</div> — a '<' ... '>' segment, as [repl_of] says *)
Example ex_replace_nested :
  all_cuts (body_run lw sel_no true [BFHtml (mkf HReplace [82]%N [s_div] None)]) doc5
           [82;121;60;47;100;105;118;62]%N = true.
Proof. vm_compute. reflexivity. Qed.

(* REFUTED reading of "a replace filter only substitutes whole element spans": the replaced segment need not be a
   balanced element.  One chunk, filter replace(div) := R on  <div><div>x</div>y</div> : the segment that disappears is
   "<div><div>x</div>" (start tag of the outer div .. end tag of the INNER div) and "y</div>" stays, because
   on_end_tag_token pops the buffer on the first end tag with the buffered name (html_filter_body.rs l.250-266, no
   nesting count).  The true statement is [repl_of]: whole '<' ... '>' segments (hfb_replace_run, no side condition). *)
Example replace_span_is_balanced_element_refuted :
  body_run lw sel_no true [BFHtml (mkf HReplace [82]%N [s_div] None)] [doc5]
  = [82;121;60;47;100;105;118;62]%N                                                        (* Ry</div> *)
  /\ doc5 = [60;100;105;118;62;60;100;105;118;62;120;60;47;100;105;118;62]%N ++ [121;60;47;100;105;118;62]%N.
Proof. vm_compute. split; reflexivity. Qed.

(* the theorems on these runs *)
Example ex_append_ins_of :
  ins_of [60;105;62]%N doc1
         (body_run lw sel_no true [BFHtml (mkf HAppendChild [60;105;62]%N [s_body] None)]
                   [firstn 3 doc1; firstn 6 (skipn 3 doc1); skipn 9 doc1]).
Proof.
  apply (body_run_html_insert_only lw sel_no lower_ok_ascii (mkf HAppendChild [60;105;62]%N [s_body] None)
           [firstn 3 doc1; firstn 6 (skipn 3 doc1); skipn 9 doc1]).
  split; [discriminate|left; reflexivity].
Qed.

Example ex_replace_repl_of :
  repl_of [82]%N doc2 (body_run lw sel_no true [BFHtml (mkf HReplace [82]%N [s_div] None)] [firstn 3 doc2; skipn 3 doc2]).
Proof.
  apply (body_run_html_replace lw sel_no lower_ok_ascii (mkf HReplace [82]%N [s_div] None) [firstn 3 doc2; skipn 3 doc2]).
  - discriminate.
  - reflexivity.
Qed.

(* a state in the middle of a run: the stage holds the open buffer "<div>x" and the incomplete "<b";
   the one-call theorem applies to it *)
Example ex_mid_state :
  let v := {| v_kind := VReplace; v_tree := [s_div]; v_pos := 0; v_sel := None; v_content := [82]%N;
              v_buffering := false; v_oob := false |} in
  let F1 := fst (hfb_filter lw sel_no (hfb_new v) (firstn 9 doc2)) in
  held F1 = [60;100;105;118;62;120;60;98]%N
  /\ snd (hfb_filter lw sel_no F1 (skipn 9 doc2)) = [82]%N
  /\ held (fst (hfb_filter lw sel_no F1 (skipn 9 doc2))) = [98]%N     (* the text that reached the end of the data *)
  /\ reach F1.
Proof.
  cbv zeta. split; [vm_compute; reflexivity|]. split; [vm_compute; reflexivity|]. split; [vm_compute; reflexivity|].
  apply (reach_filter lw sel_no lower_ok_ascii). apply reach_new; [discriminate|reflexivity|reflexivity].
Qed.

(* a whole filter list: html append_child(body) := <i>, text append Z, html replace(body > div) := R, text prepend Y;
   four chunks, one of them empty, cuts inside tags *)
Definition doc6 : list N :=                                                   (* <body>a<div>x</div>b</body> *)
  [60;98;111;100;121;62;97;60;100;105;118;62;120;60;47;100;105;118;62;98;60;47;98;111;100;121;62]%N.
Definition fs6 : list body_filter :=
  [BFHtml (mkf HAppendChild [60;105;62]%N [s_body] None); BFText TAppend [90]%N;
   BFHtml (mkf HReplace [82]%N [s_body; s_div] None); BFText TPrepend [89]%N].

Example ex_chain_run :
  body_run lw sel_no true fs6 [firstn 4 doc6; firstn 10 (skipn 4 doc6); []; skipn 14 doc6]
  = [89;60;98;111;100;121;62;97;82;98;60;105;62;60;47;98;111;100;121;62;90]%N       (* Y<body>aRb<i></body>Z *)
  /\ all_cuts (body_run lw sel_no true fs6) doc6 (body_run lw sel_no true fs6 [doc6]) = true.
Proof. vm_compute. split; reflexivity. Qed.

Example ex_chain_passes :
  passes true fs6 doc6 (body_run lw sel_no true fs6 [firstn 4 doc6; firstn 10 (skipn 4 doc6); []; skipn 14 doc6]).
Proof.
  apply (body_run_passes lw sel_no lower_ok_ascii true fs6 [firstn 4 doc6; firstn 10 (skipn 4 doc6); []; skipn 14 doc6]).
Qed.

Print Assumptions next_tag_shape.
Print Assumptions toks_tag_shaped.
Print Assumptions append_child_ins.
Print Assumptions prepend_child_ins.
Print Assumptions reach_visitor_new.
Print Assumptions reach_filter.
Print Assumptions hfb_call_edit.
Print Assumptions hfb_insert_only_call_split.
Print Assumptions hfb_insert_only_call.
Print Assumptions hfb_replace_call_split.
Print Assumptions hfb_replace_call.
Print Assumptions hfb_call_error.
Print Assumptions hfb_end_releases.
Print Assumptions hfb_insert_only_run.
Print Assumptions hfb_replace_run.
Print Assumptions body_run_html_insert_only.
Print Assumptions body_run_html_replace.
Print Assumptions run_crel.
Print Assumptions body_run_crel.
Print Assumptions body_run_passes.
