(* HtmlTagShape.v — the raw bytes of a tag token (start tag, end tag, self-closing tag) returned by [next]
   (RIO.HtmlTok) begin with '<' and end with '>'.  Same technique as RIO.TokBound.next_end. *)
Require Import RIO.Base RIO.TokMonad RIO.HtmlTok RIO.TokLogic RIO.HtmlTokProofs RIO.TokBound.
Require Import RIO.BodyText RIO.HtmlFilter RIO.TokShift RIO.HtmlSplit RIO.HtmlEdit.
Close Scope N_scope.
Open Scope nat_scope.

Definition tag_res (inp : list N) (p : nat) (r : result token_type) (s' : st) : Prop :=
  match r with
  | ROk tk => is_tagk tk = true -> lt_at inp p /\ gt_before inp (raw_end s')
  | RErr => True
  end.

Lemma next_tag_shape lower inp s r s' : wf0 inp s -> next lower inp s = (r, s') -> good s' ->
  tag_res inp (raw_end s) r s'.
Proof.
  intros W0 EQ G. unfold next in EQ. gstep EQ G. gstep EQ G. gstep EQ G. gstep EQ G.
  gstep EQ G; [grun EQ G; intros H; discriminate|].
  gstep EQ G. gstep EQ G.
  - gstep EQ G. intros H; discriminate.
  - match type of Eh with _ inp ?t = _ => set (s00 := t) in * end.
    assert (W00 : wf inp s00).
    { destruct W0 as (X1 & X2 & X3 & X4 & X5 & X6). subst s00. constructor; gsimp; auto. }
    assert (R00 : raw_start s00 = raw_end s /\ raw_end s00 = raw_end s) by (subst s00; gsimp; auto).
    clearbody s00.
    assert (HP : raw_start s0 = raw_end s /\ raw_end s <= raw_end s0).
    { gstep' Eh.
      - gstep' Eh. gstep' Eh0.
        + exfalso. gstep' Eh0.
          eapply (loop_in_exit_rule inp _ (fun _ t => err t = true)) in Eh1; [| |intros; pres|eassumption].
          * cbv zeta in Eh0. grun' Eh0. gabsurd.
          * clear. intros x t r t' Eb G. grun Eb G; try exact I. gsimp. rewrite negb_false_iff in *. assumption.
        + apply read_raw_or_cdata_spec in Eh0; [|exact W00]. destruct Eh0 as (W1 & R1 & _).
          pose proof (wf_start _ _ W1) as S1. destruct R00 as [R01 R02].
          gstep' Eh. gstep' Eh; [grun' Eh; discriminate|]. gstep' Eh. split; [congruence|lia].
      - gstep' Eh. destruct R00 as [R01 R02]. split; [congruence|lia]. }
    clear Eh. destruct HP as [HP1 HP2].
    gstep EQ G. gstep EQ G. gstep EQ G.
    eapply (loop_in_inv_rule inp _ (fun _ t => raw_start t = raw_end s /\ raw_end s <= raw_end t)
              (fun o t => match o with Some res => tag_res inp (raw_end s) res t | None => True end)) in Eh;
      [| |intros; pres|gsimp; auto|eassumption].
    + match type of EQ with (match ?o with _ => _ end) _ _ = _ => destruct o as [res|] end.
      * gstep EQ G. exact Eh.
      * grun EQ G; intros H; discriminate.
    + clear. intros x t r t' [I1 I2] Eb G.
      gstep Eb G. gstep Eb G. gstep Eb G; [gstep Eb G; exact I|].
      gstep Eb G; [gstep Eb G; gsimp; split; [assumption|lia]|].
      gstep Eb G. gstep Eb G. gstep Eb G; [gstep Eb G; exact I|].
      cbv zeta in Eb. gstep Eb G; [|grun Eb G; gsimp; split; [assumption|lia]].
      apply tt_cases in C2. gstep Eb G. gstep Eb G.
      { grun Eb G. intros H; discriminate. }
      assert (HL : lt_at inp (raw_end s)).
      { gsimp. rewrite negb_false_iff in C0. apply is_true_eq in C0. subst a. apply Nat.ltb_ge in C3.
        unfold lt_at. replace (raw_end s) with (raw_end t) by lia. exact Hb. }
      destruct C2 as [[-> Ha]|[->| ->]].
      { (* start tag *)
        gstep Eb G. apply read_start_tag_end in Eh; [|assumption]. destruct Eh as (H1 & H2 & H3 & H4 & H5).
        gstep Eb G.
        - gstep Eb G. gstep Eb G. gsimp. intros _. split; [exact HL|exact H4].
        - gstep Eb G. exact I. }
      { (* end tag *)
        gstep Eb G. gstep Eb G. gstep Eb G; [gstep Eb G; exact I|].
        gstep Eb G.
        - grun Eb G. intros H; discriminate.
        - gstep Eb G.
          + gstep Eb G. apply read_tag_end in Eh; [|assumption]. destruct Eh as (H1 & H2 & H3 & H4).
            gstep Eb G. gstep Eb G.
            match type of Eh with
            | (if err ?u then _ else _) _ _ = _ =>
                assert (Ee : err u = false)
                  by (match goal with Gs : good u |- _ => destruct Gs as (He & _); exact He end);
                rewrite Ee in Eh
            end.
            gstep' Eh. gstep Eb G. gstep Eb G. gsimp. intros _. split; [exact HL|exact H4].
          + grun Eb G. intros H; discriminate. }
      { (* comment, doctype, cdata *)
        gstep Eb G.
        - gstep Eb G. apply read_markup_declaration_end in Eh; [|assumption]. destruct Eh as [H1 H2].
          grun Eb G. gsimp. intros Ht. rewrite H2 in Ht. discriminate.
        - grun Eb G. intros H; discriminate. }
Qed.

(* ------------------------------------------------------------------------------------------ on the token stream *)
Lemma sub_lt_gt (d : list N) p q : p < q -> q <= length d -> lt_at d p -> gt_before d q -> lt_gt (sub d p q).
Proof.
  intros Hpq Hq Hl (q' & -> & Hg). unfold lt_at in Hl.
  assert (Hlen : length (sub d p (S q')) = S q' - p) by (apply sub_length; lia).
  assert (H0 : nth_error (sub d p (S q')) 0 = Some LT).
  { rewrite nth_error_sub by lia. rewrite Nat.add_0_r. exact Hl. }
  assert (H1 : nth_error (sub d p (S q')) (q' - p) = Some GT).
  { rewrite nth_error_sub by lia. replace (p + (q' - p)) with q' by lia. exact Hg. }
  assert (Hne : q' <> p).
  { intros ->. rewrite Hl in Hg. discriminate. }
  destruct (sub d p (S q')) as [|x l] eqn:El; [discriminate|]. cbn [nth_error] in H0. injection H0 as ->.
  cbn [length] in Hlen.
  assert (Hl' : l <> []) by (intros ->; cbn [length] in Hlen; lia).
  destruct (exists_last Hl') as (m & a & ->). exists m.
  replace (q' - p) with (S (length m)) in H1 by (rewrite app_length in Hlen; cbn [length] in Hlen; lia).
  cbn [nth_error] in H1. rewrite nth_error_app2 in H1 by lia. rewrite Nat.sub_diag in H1. cbn in H1.
  injection H1 as ->. reflexivity.
Qed.

(* the raw bytes of a tag token are '<' ... '>' *)
Definition tag_shaped (t : tokrec) : Prop := is_tag (t_tk t) = true -> lt_gt (t_td t).

Section Toks.
Variable lower : str -> str.
Hypothesis LO : lower_ok lower.
Notation TF := (tok_facts_wf0 lower LO).

Lemma is_tag_is_tagk tk : is_tag tk = is_tagk tk.
Proof. destruct tk; reflexivity. Qed.

Lemma tok_step_tag_shaped d s tk td s1 : tinv wf0 d s -> tok_step lower d s = TTok tk td s1 ->
  is_tag tk = true -> lt_gt td.
Proof.
  intros Hs Et Hk.
  destruct (tok_step_tok lower wf0 TF d s tk td s1 Hs Et) as (En & Hne & Etd & Ht1 & Hlt & Ers & _).
  destruct Ht1 as [HW1 He1 _]. destruct HW1 as (Hb1 & Hp1 & Ho1 & _).
  assert (G1 : good s1) by (repeat split; assumption).
  pose proof (next_tag_shape lower d s (ROk tk) s1 (ti_W _ _ _ Hs) En G1) as Hsh. cbn [tag_res] in Hsh.
  rewrite is_tag_is_tagk in Hk. destruct (Hsh Hk) as [HL HG].
  subst td. rewrite tk_raw_eq, Ers. apply sub_lt_gt; auto.
Qed.

Lemma toks_tag_shaped d : forall g s, tinv wf0 d s -> Forall tag_shaped (fst (toks lower g d s)).
Proof.
  induction g as [|g IH]; intros s Hs; cbn [toks]; [constructor|].
  destruct (tok_step lower d s) as [|s1|tk td s1] eqn:Et; try (cbn; constructor).
  destruct (tok_step_tok lower wf0 TF d s tk td s1 Hs Et) as (_ & _ & _ & _ & _ & _ & Ht3 & _).
  specialize (IH _ Ht3). destruct (toks lower g d (after_tag lower d s1 tk)) as [L fin]. cbn [fst] in *.
  constructor; [|exact IH]. unfold tag_shaped. cbn [t_tk t_td]. apply (tok_step_tag_shaped d s tk td s1 Hs Et).
Qed.
End Toks.
