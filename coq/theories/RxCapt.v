(* RxCapt.v — capture-aware relational semantics [reachc] of the matcher RIO.Rx.m and its soundness:
   if [m r pos rest cs k = Some x] then r reaches, from ((pos, rest), cs), a state (c', cs') with k c' cs' = Some x,
   where every capturing group RGroup (Some i) a on the way pushed (i, (start, end)) of ITS OWN sub-derivation.
   Forgetting the captures gives RxMatch.reach. *)
Require Import RIO.Base RIO.Rx RIO.RxMatch.
Close Scope N_scope.
Open Scope nat_scope.

Definition cstate := (conf * caps)%type.
Definition cpos (s : cstate) : nat := fst (fst s).

Section Closures.
Variable R : cstate -> cstate -> Prop.
Inductive star_cc : cstate -> cstate -> Prop :=
| starc_refl s : star_cc s s
| starc_step s s1 s2 : R s s1 -> cpos s < cpos s1 -> star_cc s1 s2 -> star_cc s s2.
Fixpoint iter_cc (n : nat) (s s' : cstate) {struct n} : Prop :=
  match n with O => s' = s | S n' => exists s1, R s s1 /\ iter_cc n' s1 s' end.
Fixpoint upto_cc (n : nat) (s s' : cstate) {struct n} : Prop :=
  match n with O => s' = s | S n' => s' = s \/ exists s1, R s s1 /\ upto_cc n' s1 s' end.
End Closures.

Fixpoint reachc (ic : bool) (r : rx) (s s' : cstate) {struct r} : Prop :=
  match r with
  | REmpty => s' = s
  | RChar x => exists y rest', snd (fst s) = y :: rest' /\ char_eq ic x y = true /\ s' = ((S (cpos s), rest'), snd s)
  | RAny => exists y rest', snd (fst s) = y :: rest' /\ N.eqb y 10 = false /\ s' = ((S (cpos s), rest'), snd s)
  | RClass neg items => exists y rest', snd (fst s) = y :: rest' /\ class_has ic neg items y = true /\ s' = ((S (cpos s), rest'), snd s)
  | RCat a b => exists s1, reachc ic a s s1 /\ reachc ic b s1 s'
  | RAlt a b => reachc ic a s s' \/ reachc ic b s s'
  | RStar _ a => star_cc (reachc ic a) s s'
  | RPlus _ a => exists s1, reachc ic a s s1 /\ star_cc (reachc ic a) s1 s'
  | ROpt _ a => s' = s \/ reachc ic a s s'
  | RRep _ lo hi a =>
      exists s1, iter_cc (reachc ic a) lo s s1 /\
                 match hi with
                 | None => star_cc (reachc ic a) s1 s'
                 | Some h => upto_cc (reachc ic a) (h - lo) s1 s'
                 end
  | RGroup idx a =>
      match idx with
      | None => reachc ic a s s'
      | Some i => exists s1, reachc ic a s s1 /\ s' = (fst s1, (i, (cpos s, cpos s1)) :: snd s1)
      end
  | RBol => cpos s = 0 /\ s' = s
  | REol => snd (fst s) = [] /\ s' = s
  end.

(* ------------------------------------------------------------------ forgetting the captures *)
Lemma star_cc_proj (R : cstate -> cstate -> Prop) (Q : conf -> conf -> Prop) :
  (forall s s', R s s' -> Q (fst s) (fst s')) -> forall s s', star_cc R s s' -> star_cl Q (fst s) (fst s').
Proof. intros H s s' H1. induction H1 as [s|s s1 s2 Ha Hl _ IH]; [apply star_refl|]. eapply star_step; [apply H; exact Ha|exact Hl|exact IH]. Qed.
Lemma iter_cc_proj (R : cstate -> cstate -> Prop) (Q : conf -> conf -> Prop) :
  (forall s s', R s s' -> Q (fst s) (fst s')) -> forall n s s', iter_cc R n s s' -> iter_n Q n (fst s) (fst s').
Proof. intros H n. induction n as [|n IH]; intros s s' H1; cbn [iter_cc iter_n] in *; [subst; reflexivity|]. destruct H1 as (s1 & Ha & Hb). exists (fst s1). split; [apply H; exact Ha|apply IH; exact Hb]. Qed.
Lemma upto_cc_proj (R : cstate -> cstate -> Prop) (Q : conf -> conf -> Prop) :
  (forall s s', R s s' -> Q (fst s) (fst s')) -> forall n s s', upto_cc R n s s' -> upto_n Q n (fst s) (fst s').
Proof. intros H n. induction n as [|n IH]; intros s s' H1; cbn [upto_cc upto_n] in *; [subst; reflexivity|]. destruct H1 as [->|(s1 & Ha & Hb)]; [left; reflexivity|]. right. exists (fst s1). split; [apply H; exact Ha|apply IH; exact Hb]. Qed.

Lemma reachc_reach ic r : forall s s', reachc ic r s s' -> reach ic r (fst s) (fst s').
Proof.
  induction r as [|x| |neg items|a IHa b IHb|a IHa b IHb|g a IHa|g a IHa|g a IHa|g lo hi a IHa|idx a IHa| |];
    intros s s' H; cbn [reachc] in H; cbn [reach].
  - subst. reflexivity.
  - destruct H as (y & rest' & H1 & H2 & ->). exists y, rest'. auto.
  - destruct H as (y & rest' & H1 & H2 & ->). exists y, rest'. auto.
  - destruct H as (y & rest' & H1 & H2 & ->). exists y, rest'. auto.
  - destruct H as (s1 & H1 & H2). exists (fst s1). split; [apply IHa; exact H1|apply IHb; exact H2].
  - destruct H as [H|H]; [left; apply IHa|right; apply IHb]; exact H.
  - eapply star_cc_proj; [exact IHa|exact H].
  - destruct H as (s1 & H1 & H2). exists (fst s1). split; [apply IHa; exact H1|eapply star_cc_proj; [exact IHa|exact H2]].
  - destruct H as [->|H]; [left; reflexivity|right; apply IHa; exact H].
  - destruct H as (s1 & H1 & H2). exists (fst s1). split; [eapply iter_cc_proj; [exact IHa|exact H1]|].
    destruct hi as [h|]; [eapply upto_cc_proj; [exact IHa|exact H2]|eapply star_cc_proj; [exact IHa|exact H2]].
  - destruct idx as [i|]; [destruct H as (s1 & H1 & ->); cbn [fst]; apply IHa; exact H1|apply IHa; exact H].
  - destruct H as [H ->]. split; [exact H|reflexivity].
  - destruct H as [H ->]. split; [exact H|reflexivity].
Qed.

(* ------------------------------------------------------------------ soundness *)
Section Sound.
Variable A : Type.
Definition ma_sound_c (R : cstate -> cstate -> Prop) (ma : nat -> list N -> caps -> cont A -> option A) : Prop :=
  forall pos rest cs k x, ma pos rest cs k = Some x ->
    exists s', R ((pos, rest), cs) s' /\ k (cpos s') (snd (fst s')) (snd s') = Some x.

Lemma orelse_some_eq (a b : option A) x : orelse A a b = Some x -> a = Some x \/ b = Some x.
Proof. destruct a as [v|]; cbn [orelse]; intros H; [left; exact H|right; exact H]. Qed.
Lemma gorelse_some_eq (g : bool) (a b : option A) x : (if g then orelse A a b else orelse A b a) = Some x -> a = Some x \/ b = Some x.
Proof. destruct g; intros H; apply orelse_some_eq in H; tauto. Qed.

Variable R : cstate -> cstate -> Prop.
Variable ma : nat -> list N -> caps -> cont A -> option A.

Lemma star_fix_sound_c g k : ma_sound_c R ma -> forall fuel pos rest cs x,
  star_fix A ma g k fuel pos rest cs = Some x ->
  exists s', star_cc R ((pos, rest), cs) s' /\ k (cpos s') (snd (fst s')) (snd s') = Some x.
Proof.
  intros Hs fuel. induction fuel as [|f IH]; intros pos rest cs x H; cbn [star_fix] in H.
  - exists ((pos, rest), cs). split; [apply starc_refl|exact H].
  - apply gorelse_some_eq in H. destruct H as [H|H].
    + apply Hs in H. destruct H as (s1 & H1 & H2). destruct (Nat.ltb pos (cpos s1)) eqn:El; [|discriminate]. apply Nat.ltb_lt in El.
      apply IH in H2. destruct H2 as (s' & H3 & H4). exists s'. split; [|exact H4].
      apply starc_step with s1; [exact H1|exact El|]. destruct s1 as [[p1 r1] c1]; exact H3.
    + exists ((pos, rest), cs). split; [apply starc_refl|exact H].
Qed.

Lemma may_fix_sound_c g k : ma_sound_c R ma -> forall j pos rest cs x,
  may_fix A ma g k j pos rest cs = Some x ->
  exists s', upto_cc R j ((pos, rest), cs) s' /\ k (cpos s') (snd (fst s')) (snd s') = Some x.
Proof.
  intros Hs j. induction j as [|j IH]; intros pos rest cs x H; cbn [may_fix] in H.
  - exists ((pos, rest), cs). split; [reflexivity|exact H].
  - apply gorelse_some_eq in H. destruct H as [H|H].
    + apply Hs in H. destruct H as (s1 & H1 & H2). apply IH in H2. destruct H2 as (s' & H3 & H4).
      exists s'. split; [|exact H4]. cbn [upto_cc]. right. exists s1. split; [exact H1|]. destruct s1 as [[p1 r1] c1]; exact H3.
    + exists ((pos, rest), cs). split; [cbn [upto_cc]; left; reflexivity|exact H].
Qed.

Lemma must_fix_sound_c tail (T : cstate -> cstate -> Prop) (kk : cont A) : ma_sound_c R ma ->
  (forall pos rest cs x, tail pos rest cs = Some x -> exists s', T ((pos, rest), cs) s' /\ kk (cpos s') (snd (fst s')) (snd s') = Some x) ->
  forall n pos rest cs x, must_fix A ma tail n pos rest cs = Some x ->
  exists s1 s', iter_cc R n ((pos, rest), cs) s1 /\ T s1 s' /\ kk (cpos s') (snd (fst s')) (snd s') = Some x.
Proof.
  intros Hs Ht n. induction n as [|n IH]; intros pos rest cs x H; cbn [must_fix] in H.
  - apply Ht in H. destruct H as (s' & H1 & H2). exists ((pos, rest), cs), s'. split; [reflexivity|]. split; assumption.
  - apply Hs in H. destruct H as (s0 & H1 & H2). apply IH in H2. destruct H2 as (s1 & s' & H3 & H4 & H5).
    exists s1, s'. split; [|split; assumption]. cbn [iter_cc]. exists s0. split; [exact H1|]. destruct s0 as [[p0 r0] c0]; exact H3.
Qed.
End Sound.

Theorem m_sound_c A ic r : ma_sound_c A (reachc ic r) (m A ic r).
Proof.
  induction r as [|x| |neg items|a IHa b IHb|a IHa b IHb|g a IHa|g a IHa|g a IHa|g lo hi a IHa|idx a IHa| |];
    intros pos rest cs k v H.
  - cbn [m] in H. exists ((pos, rest), cs). split; [reflexivity|exact H].
  - cbn [m] in H. destruct rest as [|y rest']; [discriminate|]. destruct (char_eq ic x y) eqn:E; [|discriminate].
    exists ((S pos, rest'), cs). split; [|exact H]. cbn [reachc]. exists y, rest'. auto.
  - cbn [m] in H. destruct rest as [|y rest']; [discriminate|]. destruct (N.eqb y 10) eqn:E; [discriminate|].
    exists ((S pos, rest'), cs). split; [|exact H]. cbn [reachc]. exists y, rest'. auto.
  - cbn [m] in H. destruct rest as [|y rest']; [discriminate|]. destruct (class_has ic neg items y) eqn:E; [|discriminate].
    exists ((S pos, rest'), cs). split; [|exact H]. cbn [reachc]. exists y, rest'. auto.
  - cbn [m] in H. apply IHa in H. destruct H as (s1 & H1 & H2). apply IHb in H2. destruct H2 as (s' & H3 & H4).
    exists s'. split; [|exact H4]. cbn [reachc]. exists s1. split; [exact H1|]. destruct s1 as [[p1 r1] c1]; exact H3.
  - cbn [m] in H. apply orelse_some_eq in H. destruct H as [H|H].
    + apply IHa in H. destruct H as (s' & H1 & H2). exists s'. split; [left; exact H1|exact H2].
    + apply IHb in H. destruct H as (s' & H1 & H2). exists s'. split; [right; exact H1|exact H2].
  - rewrite m_star in H. apply (star_fix_sound_c A (reachc ic a) _ g k IHa) in H. exact H.
  - rewrite m_plus in H. apply IHa in H. destruct H as (s1 & H1 & H2).
    apply (star_fix_sound_c A (reachc ic a) _ g k IHa) in H2. destruct H2 as (s' & H3 & H4).
    exists s'. split; [|exact H4]. cbn [reachc]. exists s1. split; [exact H1|]. destruct s1 as [[p1 r1] c1]; exact H3.
  - cbn [m] in H. assert (H' : m A ic a pos rest cs k = Some v \/ k pos rest cs = Some v).
    { destruct g; apply orelse_some_eq in H; tauto. }
    destruct H' as [H'|H'].
    + apply IHa in H'. destruct H' as (s' & H1 & H2). exists s'. split; [right; exact H1|exact H2].
    + exists ((pos, rest), cs). split; [left; reflexivity|exact H'].
  - rewrite m_rep in H.
    apply (must_fix_sound_c A (reachc ic a) _ _
             (fun s1 s' => match hi with None => star_cc (reachc ic a) s1 s' | Some h => upto_cc (reachc ic a) (h - lo) s1 s' end)
             k IHa) in H.
    + destruct H as (s1 & s' & H1 & H2 & H3). exists s'. split; [|exact H3]. cbn [reachc]. exists s1. split; assumption.
    + intros p0 r0 c0 x0 H0. destruct hi as [h|].
      * apply (may_fix_sound_c A (reachc ic a) _ g k IHa) in H0. exact H0.
      * apply (star_fix_sound_c A (reachc ic a) _ g k IHa) in H0. exact H0.
  - cbn [m] in H. destruct idx as [i|].
    + apply IHa in H. destruct H as (s1 & H1 & H2). exists (fst s1, (i, (pos, cpos s1)) :: snd s1). split; [|exact H2].
      cbn [reachc]. exists s1. split; [exact H1|reflexivity].
    + apply IHa in H. destruct H as (s' & H1 & H2). exists s'. split; [exact H1|exact H2].
  - cbn [m] in H. destruct (Nat.eqb pos 0) eqn:E; [|discriminate]. apply Nat.eqb_eq in E.
    exists ((pos, rest), cs). split; [split; [exact E|reflexivity]|exact H].
  - cbn [m] in H. destruct rest as [|y rest']; [|discriminate].
    exists ((pos, []), cs). split; [split; reflexivity|exact H].
Qed.
