(* Rx.v — an executable model of the fragment of the `regex` crate's syntax and leftmost-first
   (backtracking-priority) semantics that rule/marker regexes use: literals, escapes, classes with
   ranges and a few Unicode categories, '.', groups (capturing or not), alternation, greedy and lazy
   quantifiers, counted repetition, anchors ^ and $.
   It is used to RUN the models (correspondence check); the theorems about the tree and the router are
   proved for every engine satisfying the stated laws, not for this one in particular. *)
Require Import RIO.Base.
Close Scope N_scope.
Open Scope nat_scope.

Inductive citem :=
| CChar (c : N)
| CRange (lo hi : N)
| CCat (neg : bool) (name : list N)      (* \p{Ll} \P{Ll} ... *)
| CDigit (neg : bool) | CWord (neg : bool) | CSpace (neg : bool).

Inductive rx :=
| REmpty
| RChar (c : N)
| RAny
| RClass (neg : bool) (items : list citem)
| RCat (a b : rx)
| RAlt (a b : rx)
| RStar (greedy : bool) (r : rx)
| RPlus (greedy : bool) (r : rx)
| ROpt (greedy : bool) (r : rx)
| RRep (greedy : bool) (lo : nat) (hi : option nat) (r : rx)
| RGroup (idx : option nat) (r : rx)
| RBol
| REol.

(* ------------------------------------------------------------------ character predicates *)
Definition in_range (lo hi c : N) : bool := (N.leb lo c && N.leb c hi)%bool.
Definition is_lower_l1 (c : N) : bool := in_range 97 122 c || in_range 223 246 c || in_range 248 255 c || N.eqb c 181.
Definition is_upper_l1 (c : N) : bool := in_range 65 90 c || in_range 192 214 c || in_range 216 222 c.
Definition is_digit (c : N) : bool := in_range 48 57 c.
Definition is_word (c : N) : bool := in_range 97 122 c || in_range 65 90 c || is_digit c || N.eqb c 95 || is_lower_l1 c || is_upper_l1 c.
Definition is_space (c : N) : bool := N.eqb c 32 || in_range 9 13 c || N.eqb c 133 || N.eqb c 160.

(* general categories on the code points the generators use (ASCII + Latin-1; everything else: not a letter) *)
Definition cat_has (name : list N) (c : N) : bool :=
  if str_eqb name [76;108]%N then is_lower_l1 c || N.eqb c 170 || N.eqb c 186 && false
  else if str_eqb name [76;117]%N then is_upper_l1 c
  else if str_eqb name [76;116]%N then in_range 453 453 c || in_range 456 456 c || in_range 459 459 c || in_range 498 498 c
  else if str_eqb name [76]%N then is_lower_l1 c || is_upper_l1 c || N.eqb c 170 || N.eqb c 186
  else if str_eqb name [78;100]%N then is_digit c
  else if str_eqb name [78]%N then is_digit c || in_range 178 179 c || N.eqb c 185 || in_range 188 190 c
  else false.

(* simple case folding on ASCII + Latin-1 (the only cased characters the generators use) *)
Definition swapcase (c : N) : N :=
  if in_range 97 122 c then (c - 32)%N
  else if in_range 65 90 c then (c + 32)%N
  else if in_range 224 246 c || in_range 248 254 c then (c - 32)%N
  else if in_range 192 214 c || in_range 216 222 c then (c + 32)%N
  else c.

Definition citem_has (it : citem) (c : N) : bool :=
  match it with
  | CChar x => N.eqb x c
  | CRange lo hi => in_range lo hi c
  | CCat neg name => xorb neg (cat_has name c)
  | CDigit neg => xorb neg (is_digit c)
  | CWord neg => xorb neg (is_word c)
  | CSpace neg => xorb neg (is_space c)
  end.

Definition class_has (ic : bool) (neg : bool) (items : list citem) (c : N) : bool :=
  let pos := existsb (fun it => citem_has it c) items || (ic && existsb (fun it => citem_has it (swapcase c)) items) in
  xorb neg pos.

Definition char_eq (ic : bool) (a b : N) : bool := N.eqb a b || (ic && N.eqb (swapcase a) b).

(* ------------------------------------------------------------------ matcher *)
Section Match.
Variable A : Type.
Variable ic : bool.
Variable total : nat.                         (* length of the whole haystack *)

Definition caps := list (nat * (nat * nat)).  (* group index -> (start, end), most recent first *)
Definition cont := nat -> list N -> caps -> option A.

Definition orelse (a b : option A) : option A := match a with Some x => Some x | None => b end.

Fixpoint m (r : rx) (pos : nat) (rest : list N) (cs : caps) (k : cont) {struct r} : option A :=
  match r with
  | REmpty => k pos rest cs
  | RChar c => match rest with x :: rest' => if char_eq ic c x then k (S pos) rest' cs else None | [] => None end
  | RAny => match rest with x :: rest' => if N.eqb x 10 then None else k (S pos) rest' cs | [] => None end
  | RClass neg items => match rest with x :: rest' => if class_has ic neg items x then k (S pos) rest' cs else None | [] => None end
  | RCat a b => m a pos rest cs (fun p r' c' => m b p r' c' k)
  | RAlt a b => orelse (m a pos rest cs k) (m b pos rest cs k)
  | RGroup idx a =>
      match idx with
      | None => m a pos rest cs k
      | Some i => m a pos rest cs (fun p r' c' => k p r' ((i, (pos, p)) :: c'))
      end
  | RBol => if Nat.eqb pos 0 then k pos rest cs else None
  | REol => match rest with [] => k pos rest cs | _ => None end
  | ROpt g a =>
      if g then orelse (m a pos rest cs k) (k pos rest cs) else orelse (k pos rest cs) (m a pos rest cs k)
  | RStar g a =>
      (fix star (fuel : nat) (pos : nat) (rest : list N) (cs : caps) {struct fuel} : option A :=
         match fuel with
         | O => k pos rest cs
         | S f =>
             let more := m a pos rest cs (fun p r' c' => if Nat.ltb pos p then star f p r' c' else None) in
             if g then orelse more (k pos rest cs) else orelse (k pos rest cs) more
         end) (S (length rest)) pos rest cs
  | RPlus g a =>
      m a pos rest cs (fun p0 r0 c0 =>
      (fix star (fuel : nat) (pos : nat) (rest : list N) (cs : caps) {struct fuel} : option A :=
         match fuel with
         | O => k pos rest cs
         | S f =>
             let more := m a pos rest cs (fun p r' c' => if Nat.ltb pos p then star f p r' c' else None) in
             if g then orelse more (k pos rest cs) else orelse (k pos rest cs) more
         end) (S (length r0)) p0 r0 c0)
  | RRep g lo hi a =>
      (fix must (n : nat) (pos : nat) (rest : list N) (cs : caps) {struct n} : option A :=
         match n with
         | S n' => m a pos rest cs (fun p r' c' => must n' p r' c')
         | O =>
             match hi with
             | None =>
                 (fix star (fuel : nat) (pos : nat) (rest : list N) (cs : caps) {struct fuel} : option A :=
                    match fuel with
                    | O => k pos rest cs
                    | S f =>
                        let more := m a pos rest cs (fun p r' c' => if Nat.ltb pos p then star f p r' c' else None) in
                        if g then orelse more (k pos rest cs) else orelse (k pos rest cs) more
                    end) (S (length rest)) pos rest cs
             | Some h =>
                 (fix may (j : nat) (pos : nat) (rest : list N) (cs : caps) {struct j} : option A :=
                    match j with
                    | O => k pos rest cs
                    | S j' =>
                        let more := m a pos rest cs (fun p r' c' => may j' p r' c') in
                        if g then orelse more (k pos rest cs) else orelse (k pos rest cs) more
                    end) (h - lo) pos rest cs
             end
         end) lo pos rest cs
  end.
End Match.

(* ------------------------------------------------------------------ parser *)
Definition ch_lparen : N := 40. Definition ch_rparen : N := 41. Definition ch_bar : N := 124.
Definition ch_star : N := 42. Definition ch_plus : N := 43. Definition ch_q : N := 63.
Definition ch_lbrack : N := 91. Definition ch_rbrack : N := 93. Definition ch_bs : N := 92.
Definition ch_lbrace : N := 123. Definition ch_rbrace : N := 125. Definition ch_caret : N := 94.
Definition ch_dollar : N := 36. Definition ch_dot : N := 46. Definition ch_colon : N := 58.
Definition ch_comma : N := 44. Definition ch_minus : N := 45.

Fixpoint take_digits (s : list N) (acc : nat) (seen : bool) : option (nat * list N) :=
  match s with
  | c :: s' => if is_digit c then take_digits s' (acc * 10 + N.to_nat (c - 48)) true
               else if seen then Some (acc, s) else None
  | [] => if seen then Some (acc, s) else None
  end.

(* \p{Name} / \pL after the backslash-p has been consumed.  Only what regex-syntax can ever accept as a property
   specification: ASCII letters, digits, _ = : ! ^ and space between the braces, one ASCII letter without braces. *)
Definition is_name_char (c : N) : bool :=
  in_range 97 122 c || in_range 65 90 c || is_digit c || existsb (N.eqb c) [95;61;58;33;94;32]%N.
Fixpoint take_until_rbrace (s : list N) (acc : list N) : option (list N * list N) :=
  match s with
  | c :: s' => if N.eqb c ch_rbrace then Some (rev acc, s')
               else if is_name_char c then take_until_rbrace s' (c :: acc) else None
  | [] => None
  end.
Definition parse_cat_name (s : list N) : option (list N * list N) :=
  match s with
  | c :: s' => if N.eqb c ch_lbrace then take_until_rbrace s' []
               else if in_range 97 122 c || in_range 65 90 c then Some ([c], s') else None
  | [] => None
  end.

Definition is_meta_char (c : N) : bool :=
  existsb (N.eqb c) [92;46;43;42;63;40;41;124;91;93;123;125;94;36;35;38;45;126;47;58;61;33;60;62;64;37;95;34;39;44;59;96;32]%N.

(* an escape sequence, shared by atoms and classes: returns a class item *)
Definition parse_escape (s : list N) : option (citem * list N) :=
  match s with
  | [] => None
  | c :: s' =>
      if N.eqb c 100 then Some (CDigit false, s')
      else if N.eqb c 68 then Some (CDigit true, s')
      else if N.eqb c 119 then Some (CWord false, s')
      else if N.eqb c 87 then Some (CWord true, s')
      else if N.eqb c 115 then Some (CSpace false, s')
      else if N.eqb c 83 then Some (CSpace true, s')
      else if N.eqb c 110 then Some (CChar 10%N, s')
      else if N.eqb c 116 then Some (CChar 9%N, s')
      else if N.eqb c 114 then Some (CChar 13%N, s')
      else if N.eqb c 112 then match parse_cat_name s' with Some (nm, r) => Some (CCat false nm, r) | None => None end
      else if N.eqb c 80 then match parse_cat_name s' with Some (nm, r) => Some (CCat true nm, r) | None => None end
      else if is_meta_char c then Some (CChar c, s')
      else None                      (* the regex crate rejects unknown escapes of letters/digits *)
  end.

(* class body after '[' and optional '^'; [first] allows a literal ']' in first position.
   The set operators of the regex crate (-- && ~~) and nested classes are not in the fragment: they make the parse
   fail, so that every accepted class is read with the structure the regex crate gives it. *)
Definition is_setop (c : N) : bool := N.eqb c 45 || N.eqb c 38 || N.eqb c 126.
Fixpoint parse_class (fuel : nat) (s : list N) (acc : list citem) (first : bool) : option (list citem * list N) :=
  match fuel with
  | O => None
  | S f =>
      match s with
      | [] => None
      | c :: s' =>
          if N.eqb c ch_rbrack && negb first then Some (rev acc, s')
          else if is_setop c && match s' with d :: _ => N.eqb d c | [] => false end then None
          else
            let item :=
              if N.eqb c ch_bs then parse_escape s'
              else if N.eqb c ch_lbrack then None        (* nested classes are not in the fragment *)
              else Some (CChar c, s') in
            match item with
            | None => None
            | Some (CChar lo, r1) =>
                match r1 with
                | d :: r2 =>
                    if N.eqb d ch_minus then
                      match r2 with
                      | e :: r3 =>
                          if N.eqb e ch_rbrack then parse_class f r1 (CChar lo :: acc) false
                          else if N.eqb e ch_minus then None
                          else
                            let hi_item := if N.eqb e ch_bs then parse_escape r3 else Some (CChar e, r3) in
                            match hi_item with
                            | Some (CChar hi, r4) => if N.leb lo hi then parse_class f r4 (CRange lo hi :: acc) false else None
                            | _ => None
                            end
                      | [] => None
                      end
                    else parse_class f r1 (CChar lo :: acc) false
                | [] => None
                end
            | Some (it, r1) => parse_class f r1 (it :: acc) false
            end
      end
  end.

Definition wrap_quant (g : bool -> rx) (s : list N) : rx * list N :=
  match s with
  | c :: s' => if N.eqb c ch_q then (g false, s') else (g true, s)
  | [] => (g true, s)
  end.

(* quantifiers after an atom *)
Fixpoint parse_quants (fuel : nat) (r : rx) (s : list N) : option (rx * list N) :=
  match fuel with
  | O => None
  | S f =>
      match s with
      | c :: s' =>
          if N.eqb c ch_star then let '(r', s'') := wrap_quant (fun g => RStar g r) s' in parse_quants f r' s''
          else if N.eqb c ch_plus then let '(r', s'') := wrap_quant (fun g => RPlus g r) s' in parse_quants f r' s''
          else if N.eqb c ch_q then let '(r', s'') := wrap_quant (fun g => ROpt g r) s' in parse_quants f r' s''
          else if N.eqb c ch_lbrace then
            match take_digits s' 0 false with
            | None => None
            | Some (lo, s1) =>
                match s1 with
                | d :: s2 =>
                    if N.eqb d ch_rbrace then
                      let '(r', s'') := wrap_quant (fun g => RRep g lo (Some lo) r) s2 in parse_quants f r' s''
                    else if N.eqb d ch_comma then
                      match s2 with
                      | e :: s3 =>
                          if N.eqb e ch_rbrace then
                            let '(r', s'') := wrap_quant (fun g => RRep g lo None r) s3 in parse_quants f r' s''
                          else match take_digits s2 0 false with
                               | Some (hi, s4) =>
                                   match s4 with
                                   | z :: s5 => if N.eqb z ch_rbrace && Nat.leb lo hi then
                                                  let '(r', s'') := wrap_quant (fun g => RRep g lo (Some hi) r) s5 in parse_quants f r' s''
                                                else None
                                   | [] => None
                                   end
                               | None => None
                               end
                      | [] => None
                      end
                    else None
                | [] => None
                end
            end
          else Some (r, s)
      | [] => Some (r, s)
      end
  end.

(* alternation / concatenation / atoms; [gi] is the next capture-group index *)
Fixpoint parse_alt (fuel : nat) (s : list N) (gi : nat) : option (rx * list N * nat) :=
  match fuel with
  | O => None
  | S f =>
      match parse_cat f s gi REmpty with
      | None => None
      | Some (r, rest, gi') =>
          match rest with
          | c :: rest' =>
              if N.eqb c ch_bar then
                match parse_alt f rest' gi' with
                | Some (r2, rest2, gi2) => Some (RAlt r r2, rest2, gi2)
                | None => None
                end
              else Some (r, rest, gi')
          | [] => Some (r, rest, gi')
          end
      end
  end
with parse_cat (fuel : nat) (s : list N) (gi : nat) (acc : rx) : option (rx * list N * nat) :=
  match fuel with
  | O => None
  | S f =>
      match s with
      | [] => Some (acc, s, gi)
      | c :: s' =>
          if N.eqb c ch_bar || N.eqb c ch_rparen then Some (acc, s, gi)
          else
            let atom : option (rx * list N * nat) :=
              if N.eqb c ch_lparen then
                match s' with
                | q :: k :: s2 =>
                    if N.eqb q ch_q && N.eqb k ch_colon then
                      match parse_alt f s2 gi with
                      | Some (r, rp :: rest, gi') => if N.eqb rp ch_rparen then Some (RGroup None r, rest, gi') else None
                      | _ => None
                      end
                    else if N.eqb q ch_q then None            (* flags / look-around / named groups: outside the fragment *)
                    else
                      match parse_alt f s' (S gi) with
                      | Some (r, rp :: rest, gi') => if N.eqb rp ch_rparen then Some (RGroup (Some gi) r, rest, gi') else None
                      | _ => None
                      end
                | _ =>
                    match parse_alt f s' (S gi) with
                    | Some (r, rp :: rest, gi') => if N.eqb rp ch_rparen then Some (RGroup (Some gi) r, rest, gi') else None
                    | _ => None
                    end
                end
              else if N.eqb c ch_lbrack then
                match s' with
                | n :: s2 =>
                    if N.eqb n ch_caret then
                      match parse_class f s2 [] true with Some (items, rest) => Some (RClass true items, rest, gi) | None => None end
                    else
                      match parse_class f s' [] true with Some (items, rest) => Some (RClass false items, rest, gi) | None => None end
                | [] => None
                end
              else if N.eqb c ch_dot then Some (RAny, s', gi)
              else if N.eqb c ch_caret then Some (RBol, s', gi)
              else if N.eqb c ch_dollar then Some (REol, s', gi)
              else if N.eqb c ch_bs then
                match parse_escape s' with
                | Some (CChar x, rest) => Some (RChar x, rest, gi)
                | Some (it, rest) => Some (RClass false [it], rest, gi)
                | None => None
                end
              else if N.eqb c ch_star || N.eqb c ch_plus || N.eqb c ch_q then None     (* nothing to repeat *)
              else if N.eqb c ch_lbrace then None
              else Some (RChar c, s', gi) in
            match atom with
            | None => None
            | Some (a, rest, gi') =>
                match parse_quants f a rest with
                | None => None
                | Some (a', rest') => parse_cat f rest' gi' (match acc with REmpty => a' | _ => RCat acc a' end)
                end
            end
      end
  end.

Definition parse (s : list N) : option rx :=
  match parse_alt (2 * length s + 4) s 1 with
  | Some (r, [], _) => Some r
  | _ => None
  end.

(* ------------------------------------------------------------------ the engine interface *)
Definition rx_valid (ic : bool) (regex : list N) : bool := match parse regex with Some _ => true | None => false end.

Fixpoint suffixes_from (pos : nat) (s : list N) : list (nat * list N) :=
  (pos, s) :: match s with [] => [] | _ :: s' => suffixes_from (S pos) s' end.

(* Regex::is_match: unanchored search *)
Definition rx_is_match (ic : bool) (regex : list N) (s : list N) : bool :=
  match parse regex with
  | None => false
  | Some r => existsb (fun ps => match m unit ic r (fst ps) (snd ps) [] (fun _ _ _ => Some tt) with Some _ => true | None => false end)
                      (suffixes_from 0 s)
  end.

(* Regex::captures: leftmost match, captures in backtracking priority order; group -> (start,end) in chars *)
Fixpoint first_some {A B} (f : A -> option B) (l : list A) : option B :=
  match l with [] => None | x :: l' => match f x with Some y => Some y | None => first_some f l' end end.

Definition rx_captures (ic : bool) (regex : list N) (s : list N) : option (list (nat * (nat * nat))) :=
  match parse regex with
  | None => None
  | Some r => first_some (fun ps => m _ ic r (fst ps) (snd ps) [] (fun _ _ cs => Some cs)) (suffixes_from 0 s)
  end.
