(* RxLaws.v — the two engine premises of the tree / router theorems, for the executable engine
   [Rx.rx_is_match]:
     rx_engine_dotstar              : engine_dotstar rx_is_match                         (holds)
     rx_engine_prefix_law_refuted   : ~ engine_prefix_law rx_is_match                    (the full law is FALSE)
     rx_prefix_law_toks / rx_engine_prefix_law_partial :
        the law holds for every token list whose tokens parse in isolation ([toks_parse ts = true]).
   Why the full law still fails for THIS engine: the (class-aware) scanner of prefix.rs counts the parentheses
   inside the name of a \p{..} escape, the parser of RIO.Rx accepts any characters as such a name.  When
   the two disagree on where a group ends, a token prefix can be an unparsable regex while ^q$ still
   compiles and matches.  (The regex crate rejects such names: model artefact.) *)
Require Import RIO.Base RIO.Prefix RIO.RegexSem RIO.Tree RIO.TreeProofs RIO.TreeInst RIO.Rx RIO.RxMatch RIO.RxParse RIO.RxToks.
Close Scope N_scope.
Open Scope nat_scope.

(* ------------------------------------------------------------------ T1 *)
Theorem rx_engine_dotstar : engine_dotstar rx_is_match.
Proof.
  intros ic s. rewrite rx_is_match_unfold.
  change (parse [c_dot; c_star]) with (Some (RStar true RAny)).
  apply existsb_exists. exists (0, s). split; [apply suffixes_from_head|].
  apply matches_at_iff. exists (0, s). cbn [reach]. apply star_refl.
Qed.

(* ------------------------------------------------------------------ reach along a left-nested chain *)
Fixpoint reach_list (ic : bool) (l : list rx) (c c' : conf) {struct l} : Prop :=
  match l with
  | [] => c' = c
  | a :: l' => exists c1, reach ic a c c1 /\ reach_list ic l' c1 c'
  end.

Lemma reach_chain_elim ic l : forall acc c c', reach ic (fold_left RCat l acc) c c' ->
  exists c1, reach ic acc c c1 /\ reach_list ic l c1 c'.
Proof.
  induction l as [|a l IH]; intros acc c c' H; cbn [fold_left] in H.
  - exists c'. split; [exact H|reflexivity].
  - apply IH in H. destruct H as (c1 & H1 & H2). cbn [reach] in H1. destruct H1 as (c0 & H0 & H1).
    exists c0. split; [exact H0|]. cbn [reach_list]. exists c1. split; assumption.
Qed.

Lemma reach_chain_intro ic l : forall acc c c1 c', reach ic acc c c1 -> reach_list ic l c1 c' ->
  reach ic (fold_left RCat l acc) c c'.
Proof.
  induction l as [|a l IH]; intros acc c c1 c' H1 H2; cbn [fold_left]; cbn [reach_list] in H2.
  - subst c'. exact H1.
  - destruct H2 as (c2 & H2 & H3). apply (IH (RCat acc a) c c2 c'); [|exact H3]. cbn [reach]. exists c1. split; assumption.
Qed.

Lemma reach_list_firstn ic k : forall l c c', reach_list ic l c c' -> exists c2, reach_list ic (firstn k l) c c2.
Proof.
  induction k as [|k IH]; intros l c c' H; [exists c; reflexivity|].
  destruct l as [|a l]; cbn [reach_list firstn] in *; [exists c; reflexivity|].
  destruct H as (c1 & H1 & H2). destruct (IH _ _ _ H2) as [c2 Hc2]. exists c2, c1. split; assumption.
Qed.

(* ------------------------------------------------------------------ T2, partial: tokens that parse in isolation *)
Theorem rx_prefix_law_toks : forall ic ts k s, toks_parse ts = true ->
  ML rx_is_match ic (render ts) s = true -> MN rx_is_match ic (render (firstn k ts)) s = true.
Proof.
  intros ic ts k s Hp Hm. unfold toks_parse in Hp. destruct (toks_atoms 1 ts) as [[l g]|] eqn:Ea; [|discriminate]. clear Hp.
  unfold MN. destruct (is_nil _); [reflexivity|].
  assert (Hm' : rx_is_match ic (ch_caret :: render ts ++ [ch_dollar]) s = true) by exact Hm. clear Hm. rename Hm' into Hm.
  change (rx_is_match ic (ch_caret :: render (firstn k ts)) s = true).
  rewrite rx_is_match_unfold, (parse_leaf ts l g Ea) in Hm.
  apply existsb_exists in Hm. destruct Hm as ([p r] & Hin & Hm). cbn [fst snd] in Hm.
  apply matches_at_iff in Hm. destruct Hm as (c' & Hr).
  cbn [reach] in Hr. destruct Hr as (c1 & Hr & _).
  apply reach_chain_elim in Hr. destruct Hr as (c0 & H0 & Hl).
  cbn [reach] in H0. destruct H0 as [Hp0 ->]. cbn [fst] in Hp0. subst p.
  destruct (suffixes_from_pos _ _ _ _ Hin) as [_ Hs]. specialize (Hs eq_refl). subst r.
  destruct (toks_atoms_firstn k _ _ _ _ Ea) as [g' Ek].
  rewrite rx_is_match_unfold, (parse_node _ _ _ Ek).
  apply existsb_exists. exists (0, s). split; [apply suffixes_from_head|]. cbn [fst snd].
  apply matches_at_iff. destruct (reach_list_firstn ic k _ _ _ Hl) as [c2 H2]. exists c2.
  apply reach_chain_intro with (0, s); [|exact H2]. cbn [reach]. split; reflexivity.
Qed.

(* the strengthened shapes: rule regexes whose tokens parse in isolation *)
Definition toks_okx (ts : list tok) : Prop := toks_ok ts /\ toks_parse ts = true.
Definition shape_x (p : pat) : Prop := exists ts, toks_okx ts /\ render ts = p.
Definition tpre_x (p q : pat) : Prop := exists ts k, toks_okx ts /\ render ts = q /\ render (firstn k ts) = p.

(* FULL STATEMENT (false, see below):   engine_prefix_law rx_is_match, i.e.
     forall ic p q s, tpre_c p q -> ML rx_is_match ic q s = true -> MN rx_is_match ic p s = true.
   PARTIAL STATEMENT: the same with [tpre_x] in place of [tpre_c]. *)
Theorem rx_engine_prefix_law_partial :
  forall ic p q s, tpre_x p q -> ML rx_is_match ic q s = true -> MN rx_is_match ic p s = true.
Proof.
  intros ic p q s (ts & k & [_ Hp] & <- & <-) Hm. apply rx_prefix_law_toks; assumption.
Qed.

Lemma tpre_x_c p q : tpre_x p q -> tpre_c p q.
Proof. intros (ts & k & [H _] & H1 & H2). exists ts, k. auto. Qed.
Lemma shape_x_c p : shape_x p -> shape_c p.
Proof. intros (ts & [H _] & H1). exists ts. auto. Qed.

(* the law is also (vacuously) true whenever ^q$ is not a valid regex for the engine *)
Lemma rx_invalid_never_matches ic re s : rx_valid ic re = false -> rx_is_match ic re s = false.
Proof. unfold rx_valid, rx_is_match. destruct (parse re); [discriminate|reflexivity]. Qed.

Definition tok_parses_1 (t : tok) : bool := match tok_atom 1 t with Some _ => true | None => false end.

(* ------------------------------------------------------------------ T2: the earlier witnesses are gone *)
(* With the class-aware scanner (prefix.rs after 9944bb4) the two witnesses of the first round are no longer
   token lists: (a[)b(]c) and a([(])|x([)]) are now single groups for the scanner as for the parser. *)
Definition old1_ts : list tok := [TGrp [97; 91]%N; TLit 98%N; TGrp [93; 99]%N].
Definition old2_ts : list tok := [TLit 97%N; TGrp [91; 40; 93; 41; 124; 120; 40; 91; 41; 93]%N].
Lemma old_witnesses_gone : forallb tok_ok old1_ts = false /\ forallb tok_ok old2_ts = false
  /\ tok_ok (TGrp [97; 91; 41; 98; 40; 93; 99]%N) = true
  /\ tok_parses_1 (TGrp [97; 91; 41; 98; 40; 93; 99]%N) = true.
Proof. repeat split; vm_compute; reflexivity. Qed.

(* the \P{..} witness of the earlier rounds is gone since RIO.Rx only accepts property names made of letters, digits,
   _ = : ! ^ and space: the pattern is no longer a valid regex *)
Definition old4_ts : list tok := [TGrp [92; 80; 123]%N; TLit 120%N; TGrp [125]%N].
Lemma old_witness_prop_gone : toks_ok old4_ts /\ rx_valid false (leaf_regex (render old4_ts)) = false.
Proof. split; vm_compute; reflexivity. Qed.

(* the failing pairs all lie outside [toks_parse] *)
Corollary prefix_law_failure_class : forall ic ts k s, toks_ok ts ->
  ML rx_is_match ic (render ts) s = true -> MN rx_is_match ic (render (firstn k ts)) s = false ->
  toks_parse ts = false /\ rx_valid ic (leaf_regex (render ts)) = true.
Proof.
  intros ic ts k s _ Hm Hn. split.
  - destruct (toks_parse ts) eqn:E; [|reflexivity]. rewrite (rx_prefix_law_toks ic ts k s E Hm) in Hn. discriminate.
  - destruct (rx_valid ic (leaf_regex (render ts))) eqn:E; [reflexivity|].
    unfold ML in Hm. rewrite (rx_invalid_never_matches _ _ _ E) in Hm. discriminate.
Qed.
