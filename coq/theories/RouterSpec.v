(* RouterSpec.v — the reference for C01: which routes a request satisfies, as a conjunction of
   per-trigger predicates, plus the any-host policy.  A linear scan; no buckets, no counters, no memo. *)
Require Import RIO.Base RIO.Route.

Section Spec.
Variable lower : str -> str.
Variable re_match : str -> str -> bool.            (* unanchored header regex *)
Variable host_match : str -> str -> bool.          (* ^regex$ against the request host, with the host case flag *)
Variable path_match : str -> str -> bool.          (* ^regex$ against the request path, with the path case flag *)
Variable always_any_host : bool.

Definition sat_ip (r : route) (q : request) : bool :=
  match rt_ips r with
  | None => true
  | Some [] => true
  | Some ips => match q_addr q with Some a => existsb (fun ip => match_ip ip a) ips | None => false end
  end.

Definition sat_method (r : route) (q : request) : bool :=
  match rt_methods r with
  | None => true
  | Some [] => true
  | Some ms => match rt_exclude_methods r with
               | Some true => negb (mem_str (req_method q) ms)
               | _ => mem_str (req_method q) ms
               end
  end.

Definition sat_headers (r : route) (q : request) : bool :=
  forallb (fun h => match_value lower re_match (hc_cond h) q (lower (hc_name h))) (rt_headers r).

Definition sat_datetime (r : route) (q : request) : bool :=
  (match rt_datetime r with Some rs => dt_cond_holds q (DateTimeRange rs) | None => true end)
  && (match rt_weekdays r with Some ws => dt_cond_holds q (Weekdays ws) | None => true end)
  && (match rt_time r with Some ts => dt_cond_holds q (TimeRange ts) | None => true end).

Definition sat_path (r : route) (q : request) : bool :=
  match rt_path r with
  | SStatic p => str_eqb p (q_path q)
  | SDynamic re => path_match re (q_path q)
  end.

(* every trigger except scheme and host *)
Definition sat_rest (r : route) (q : request) : bool :=
  sat_ip r q && sat_method r q && sat_headers r q && sat_datetime r q && sat_path r q.

Definition host_specific (r : route) : bool :=
  match rt_host r with
  | None => false
  | Some (SStatic h) => negb (is_nil h)
  | Some (SDynamic _) => true
  end.
Definition host_sat (r : route) (q : request) : bool :=
  match rt_host r, q_host q with
  | Some (SStatic h), Some qh => str_eqb h qh
  | Some (SDynamic re), Some qh => host_match re qh
  | _, _ => false
  end.

(* rules for any scheme and rules for one specific scheme are scoped separately *)
Definition any_scheme (r : route) : bool := match rt_scheme r with None => true | Some s => is_nil s end.
Definition in_scheme (s : str) (r : route) : bool := match rt_scheme r with Some s' => negb (is_nil s') && str_eqb s' s | None => false end.

Definition match_scope (Rs : list route) (q : request) : list route :=
  let hs := filter (fun r => host_specific r && host_sat r q && sat_rest r q) Rs in
  let anyh := filter (fun r => negb (host_specific r) && sat_rest r q) Rs in
  if always_any_host || is_nil hs then hs ++ anyh else hs.

Definition spec_match (Rs : list route) (q : request) : list route :=
  match_scope (filter any_scheme Rs) q
  ++ match q_scheme q with Some s => match_scope (filter (in_scheme s) Rs) q | None => [] end.
End Spec.
