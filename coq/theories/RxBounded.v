(* RxBounded.v — bounded exhaustive evidence (vm_compute) for the conjecture left open in RIO.RxLaws:
   with the final scanner of prefix.rs (4f24679), whenever a rule-shaped pattern q (a rendering of well-formed tokens)
   is a valid regex for RIO.Rx and contains no \p / \P escape, every token of q parses in isolation — i.e. the
   side condition of the partial prefix law holds and the law applies.
   [shape q]     : q is the rendering of a toks_ok token list (decided by running the scanner);
   [tokenize q]  : that token list (segments between consecutive cut positions);
   [agree q]     : shape q and ^q$ valid  imply  render (tokenize q) = q, toks_ok, and every token parses in isolation. *)
Require Import RIO.Base RIO.Prefix RIO.Tree RIO.TreeProofs RIO.TreeInst RIO.Rx RIO.RxParse RIO.RxToks RIO.RxGi.
Close Scope N_scope.
Open Scope nat_scope.

Fixpoint shape_from (q : list N) (s : sc) : bool :=
  match q with
  | [] => cut_ok s
  | c :: q' =>
      let top := cut_ok s in
      let topesc := (Z.eqb (lvl s) 0 && Nat.eqb (cl s) 0 && esc s)%bool in
      let okc := (if top then (N.eqb c 40 || N.eqb c 92 || negb (is_meta c)) else if topesc then is_meta c else true)%bool in
      let s' := sc_step s c in
      (okc && Z.leb 0 (lvl s') && shape_from q' s')%bool
  end.
Definition shape (q : list N) : bool := shape_from q sc0.

(* split at the cut positions *)
Fixpoint segments (q : list N) (s : sc) (cur : list N) : list (list N) :=
  match q with
  | [] => match cur with [] => [] | _ => [rev cur] end
  | c :: q' => let s' := sc_step s c in
               if cut_ok s' then rev (c :: cur) :: segments q' s' [] else segments q' s' (c :: cur)
  end.
Definition seg_tok (g : list N) : tok :=
  match g with
  | c :: r => if N.eqb c 40 then TGrp (removelast r)
              else if N.eqb c 92 then match r with x :: _ => TLit x | [] => TLit c end
              else TLit c
  | [] => TLit 0%N
  end.
Definition tokenize (q : list N) : list tok := map seg_tok (segments q sc0 []).

Definition agree (q : list N) : bool :=
  if (shape q && rx_valid false (leaf_regex q))%bool
  then (str_eqb (render (tokenize q)) q && forallb tok_ok (tokenize q) && forallb tok_parses (tokenize q))%bool
  else true.

(* the side condition that excludes the artefact of RIO.Rx's parser: no backslash followed by p or P *)
Fixpoint no_prop (q : list N) : bool :=
  match q with
  | a :: (b :: _) as t => negb (N.eqb a 92 && (N.eqb b 112 || N.eqb b 80)) && no_prop t
  | _ => true
  end.
(* no two consecutive minus signs (the set-difference operator of the regex crate, which RIO.Rx does not implement:
   it reads  x--[  as an item followed by the range from '-' to '[') *)
Fixpoint no_dd (q : list N) : bool :=
  match q with
  | a :: (b :: _) as t => negb (N.eqb a 45 && N.eqb b 45) && no_dd t
  | _ => true
  end.

(* The counterexample of the previous round, q = x([(----[])|(]]), is gone since RIO.Rx rejects the set operators it does
   not implement: the pattern is no longer a valid regex for the model. *)
Definition w3_ts : list tok := [TLit 120%N; TGrp [91;40;45;45;45;45;91;93;41;124;40;93;93]%N].
Lemma old_witness_dd_gone : forallb tok_ok w3_ts = true /\ rx_valid false (leaf_regex (render w3_ts)) = false.
Proof. split; vm_compute; reflexivity. Qed.

(* PROVED since (RIO.RxAgree / RIO.RxFull, without any side condition); the bounded searches are kept as regression
   evidence.  Former text of the conjecture:
     forall ic ts k s, toks_ok ts -> no_prop (render ts) = true -> no_dd (render ts) = true ->
       ML rx_is_match ic (render ts) s = true -> MN rx_is_match ic (render (firstn k ts)) s = true.
   By RIO.RxLaws.rx_prefix_law_toks and RIO.RxGi.toks_parse_forallb it is enough to prove
     forall ts, toks_ok ts -> no_prop (render ts) = true -> no_dd (render ts) = true ->
       rx_valid false (leaf_regex (render ts)) = true -> forallb tok_parses ts = true,
   which is what [agree] tests on every string of the bounded searches (their alphabets contain no p / P; a
   violation involving `--` needs more than 7 characters).  [agree_class] tests the heart of it: without `--`,
   the scanner and the parser agree on where a bracket class ends. *)

Fixpoint class_end (s : list N) (st : sc) (i : nat) : option nat :=
  match s with
  | [] => None
  | c :: s' => let st' := sc_step st c in if Nat.eqb (cl st') 0 then Some (S i) else class_end s' st' (S i)
  end.
Definition agree_class (w : list N) : bool :=
  if no_dd w then
    let t := w ++ [93;93;93;93]%N in
    match RxParse.atom_of (parse_alt 40) (parse_class 40) 91%N t 1 with
    | Some (_, rest, _) =>
        match class_end t (sc_step s1 91%N) 0 with Some n => Nat.eqb n (length t - length rest) | None => false end
    | None => true
    end
  else true.
Section SearchClass.
Variable alphabet : list N.
Fixpoint search_class (n : nat) (acc : list N) {struct n} : option (list N) :=
  if agree_class (rev acc) then
    match n with O => None | S n' => first_some (fun c => search_class n' (c :: acc)) alphabet end
  else Some (rev acc).
End SearchClass.

Section Search.
Variable alphabet : list N.
Fixpoint search (n : nat) (acc : list N) {struct n} : option (list N) :=
  if agree acc then
    match n with O => None | S n' => first_some (fun c => search n' (c :: acc)) alphabet end
  else Some acc.
End Search.

(* sanity: the tokenizer inverts render on a sample, the known artefact is detected, the two earlier witnesses pass *)
Example tokenize_sample :
  tokenize (render [TLit 47%N; TGrp [63;58;91;94;41;93;43]%N; TLit 40%N; TLit 120%N])
  = [TLit 47%N; TGrp [63;58;91;94;41;93;43]%N; TLit 40%N; TLit 120%N].
Proof. vm_compute. reflexivity. Qed.
Example artefact_gone : agree [40;92;80;123;41;120;40;125;41]%N = true.
Proof. vm_compute. reflexivity. Qed.
Example earlier_witnesses_agree :
  agree [40;97;91;41;98;40;93;99;41]%N = true /\ agree [120;40;97;91;33;45;91;93;41;124;40;93;93;41]%N = true
  /\ agree [40;120;91;33;45;91;93;40;93;93;41;121;41]%N = true.
Proof. repeat split; vm_compute; reflexivity. Qed.

(* every string of length <= 6 over  ( ) [ ] - ^ \ a |   (all 597871 of them; search builds them back to front) *)
Example bounded_agreement_6 : search [40;41;91;93;45;94;92;97;124]%N 6 [] = None.
Proof. vm_compute. reflexivity. Qed.
(* length <= 5 over the same alphabet plus  !  d  ?  :  (so that \d, ranges from '!' and (?: groups occur) *)
Example bounded_agreement_5_wide : search [40;41;91;93;45;94;92;97;124;33;100;63;58]%N 5 [] = None.
Proof. vm_compute. reflexivity. Qed.
(* class contents of length <= 6 over  [ ] - ^ \ a ( !  without `--`: the scanner and the parser close the class at
   the same character (length 7 was checked once, 29 s) *)
Example bounded_class_agreement_6 : search_class [91;93;45;94;92;97;40;33]%N 6 [] = None.
Proof. vm_compute. reflexivity. Qed.
