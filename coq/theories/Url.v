(* Url.v — executable model of the URL / query normalisation code of the crate (C09), one Gallina function
   per Rust function:
     src/router_config.rs                      RouterConfig                          -> [config]
     src/api/rule.rs                           SIMPLE/URL/QUERY_ENCODE_SET, Rule::path_and_query (rules without markers)
     src/http/query.rs                         URL/QUERY_ENCODE_SET, sanitize_url, PathAndQueryWithSkipped::{from_static, from_config}
     src/http/request.rs                       QUERY_ENCODE_SET, Request::{from_config, rebuild_with_config, path_and_query, build_sorted_query}
     src/marker/mod.rs                         StaticOrDynamic::new_with_markers, static case (no markers)
     src/router/request_matcher/path_and_query.rs   static_rules lookup: string equality
     src/action/mod.rs                         get_target / from_route_rule: skipped parameters appended to the target
     http 1.5.0 src/uri/path.rs                PathAndQuery: scan_path_and_query, from_shared, path(), query()
   The encode sets are kept as SEPARATE definitions, one per `const` of the sources, even where two of them
   denote the same set.  No proofs in this file. *)
Require Import RIO.Base RIO.Pct.
Open Scope N_scope.

Definition c_quote : N := 34.   (* double quote *)
Definition c_hash : N := 35.    (* # *)
Definition c_star : N := 42.    (* * *)
Definition c_slash : N := 47.   (* / *)
Definition c_lt : N := 60.      (* < *)
Definition c_gt : N := 62.      (* > *)
Definition c_qmark : N := 63.   (* ? *)

(* ------------------------------------------------------------------------------------------------ *)
(* src/router_config.rs *)
Record config := {
  ignore_host_case : bool;
  ignore_header_case : bool;
  ignore_path_and_query_case : bool;
  ignore_marketing_query_params : bool;
  marketing_query_params : list str;            (* HashSet<String>: only `contains` is used *)
  pass_marketing_query_params_to_target : bool;
  always_match_any_host : bool
}.

(* ------------------------------------------------------------------------------------------------ *)
(* the six encode sets *)

(* src/api/rule.rs l.13-15 *)
Definition rule_SIMPLE_ENCODE_SET : ascii_set := CONTROLS.
Definition rule_URL_ENCODE_SET : ascii_set :=
  ascii_set_add (ascii_set_add (ascii_set_add (ascii_set_add (ascii_set_add CONTROLS c_space) c_quote) c_hash) c_lt) c_gt.
Definition rule_QUERY_ENCODE_SET : ascii_set :=
  ascii_set_add (ascii_set_add (ascii_set_add (ascii_set_add (ascii_set_add (ascii_set_add CONTROLS c_space) c_quote) c_hash) c_lt) c_gt) c_plus.

(* src/http/query.rs l.8-9 *)
Definition query_URL_ENCODE_SET : ascii_set :=
  ascii_set_add (ascii_set_add (ascii_set_add (ascii_set_add (ascii_set_add CONTROLS c_space) c_quote) c_hash) c_lt) c_gt.
Definition query_QUERY_ENCODE_SET : ascii_set :=
  ascii_set_add (ascii_set_add (ascii_set_add (ascii_set_add (ascii_set_add (ascii_set_add CONTROLS c_space) c_quote) c_hash) c_lt) c_gt) c_plus.

(* src/http/request.rs l.20: no '+' *)
Definition request_QUERY_ENCODE_SET : ascii_set :=
  ascii_set_add (ascii_set_add (ascii_set_add (ascii_set_add (ascii_set_add CONTROLS c_space) c_quote) c_hash) c_lt) c_gt.

(* String::to_lowercase, on strings that are ASCII-only.  Every use below is on the output of
   utf8_percent_encode (possibly joined by the ASCII bytes '?', '&', '='), which is ASCII whatever the input
   because should_percent_encode holds for every byte >= 128; on ASCII, to_lowercase maps A-Z to a-z. *)
Definition to_lowercase_ascii (s : str) : str := map ascii_lower s.

(* ------------------------------------------------------------------------------------------------ *)
(* http 1.5.0 src/uri/path.rs *)

Inductive byte_class := CLASS_VALID | CLASS_QUERY | CLASS_FRAGMENT | CLASS_HIGH | CLASS_INVALID.

(* build_path_map *)
Definition PATH_MAP (b : N) : byte_class :=
  if N.eqb b c_qmark then CLASS_QUERY
  else if N.eqb b c_hash then CLASS_FRAGMENT
  else if N.eqb b 33 || in_range 36 59 b || N.eqb b 61 || in_range 64 95 b || in_range 97 122 b || N.eqb b 124 || N.eqb b 126
  then CLASS_VALID
  else if in_range 128 255 b then CLASS_HIGH
  else if N.eqb b c_quote || N.eqb b 123 || N.eqb b 125 then CLASS_VALID
  else CLASS_INVALID.

(* build_query_map *)
Definition QUERY_MAP (b : N) : byte_class :=
  if N.eqb b c_hash then CLASS_FRAGMENT
  else if N.eqb b 33 || in_range 36 59 b || N.eqb b 61 || in_range 63 126 b then CLASS_VALID
  else if in_range 128 255 b then CLASS_HIGH
  else CLASS_INVALID.

(* how the path loop of scan_path_and_query ends *)
Inductive path_end := PEnd | PQuery (rest : str) | PFragment.

(* first loop of scan_path_and_query: the bytes kept as path and what stopped the loop; None = InvalidUriChar *)
Fixpoint scan_path (l : str) : option (str * path_end) :=
  match l with
  | [] => Some ([], PEnd)
  | b :: r =>
      match PATH_MAP b with
      | CLASS_QUERY => Some ([], PQuery r)
      | CLASS_FRAGMENT => Some ([], PFragment)
      | CLASS_INVALID => None
      | CLASS_VALID | CLASS_HIGH =>
          match scan_path r with
          | Some (p, e) => Some (b :: p, e)
          | None => None
          end
      end
  end.

(* second loop: the bytes of the query up to a '#'; None = InvalidUriChar ('?' is CLASS_VALID here) *)
Fixpoint scan_query (l : str) : option str :=
  match l with
  | [] => Some []
  | b :: r =>
      match QUERY_MAP b with
      | CLASS_FRAGMENT => Some []
      | CLASS_VALID | CLASS_HIGH =>
          match scan_query r with
          | Some q => Some (b :: q)
          | None => None
          end
      | CLASS_QUERY | CLASS_INVALID => None
      end
  end.

Fixpoint len_N (l : str) : N := match l with [] => 0 | _ :: r => 1 + len_N r end.

Definition MAX_LEN : N := 65534.   (* (u16::MAX - 1) *)

(* <PathAndQuery as FromStr>::from_str = from_shared(copy) : scan_path_and_query, truncation at the fragment,
   UTF-8 check of what is kept when a byte >= 128 was seen (always checked here: ASCII is valid UTF-8),
   then the accessors path() ("/" when the path part is empty) and query().
   None = Err(Empty | TooLong | PathDoesNotStartWithSlash | InvalidUriChar). *)
Definition http_path_and_query_parse (src : str) : option (str * option str) :=
  match src with
  | [] => None
  | b0 :: _ =>
      if N.ltb MAX_LEN (len_N src) then None
      else if str_eqb src [c_star] then Some ([c_star], None)
      else if negb (N.eqb b0 c_slash || N.eqb b0 c_qmark || N.eqb b0 c_hash) then None
      else
        match scan_path src with
        | None => None
        | Some (p, e) =>
            let path := if is_nil p then [c_slash] else p in
            match e with
            | PEnd | PFragment => if utf8_valid p then Some (path, None) else None
            | PQuery rest =>
                match scan_query rest with
                | None => None
                | Some q => if utf8_valid (p ++ [c_qmark] ++ q) then Some (path, Some q) else None
                end
            end
        end
  end.

(* ------------------------------------------------------------------------------------------------ *)
(* src/http/query.rs *)

Record path_and_query_with_skipped := {
  pq_path_and_query : str;
  pq_path_and_query_matching : option str;
  pq_skipped_query_params : option str;
  pq_original : str
}.

Definition sanitize_url (path_and_query_str : str) : str :=
  utf8_percent_encode path_and_query_str query_URL_ENCODE_SET.

Definition from_static (path_and_query_str : str) : path_and_query_with_skipped :=
  {| pq_path_and_query := sanitize_url path_and_query_str;
     pq_path_and_query_matching := Some path_and_query_str;
     pq_skipped_query_params := None;
     pq_original := path_and_query_str |}.

(* one `query_param` of the loop of from_config *)
Definition query_param (s : ascii_set) (kv : str * str) : str :=
  utf8_percent_encode (fst kv) s ++ (if is_nil (snd kv) then [] else c_eq :: utf8_percent_encode (snd kv) s).

(* s.push('&') unless s is empty, then s.push_str(p) *)
Definition push_param (s p : str) : str := if is_nil s then p else s ++ [c_amp] ++ p.

(* the loop `for (key, value) in &hash_query` of from_config: (query_string, skipped_query_params) *)
Fixpoint from_config_loop (cfg : config) (m : list (str * str)) (query_string skipped : str) : str * str :=
  match m with
  | [] => (query_string, skipped)
  | kv :: m' =>
      let p := query_param query_QUERY_ENCODE_SET kv in
      if ignore_marketing_query_params cfg && mem_str (fst kv) (marketing_query_params cfg)
      then from_config_loop cfg m' query_string (push_param skipped p)
      else from_config_loop cfg m' (push_param query_string p) skipped
  end.

Definition from_config (cfg : config) (path_and_query_str : str) : path_and_query_with_skipped :=
  let url := sanitize_url path_and_query_str in
  match http_path_and_query_parse url with
  | None =>
      (* "cannot parse url ..., cancel ignoring marketing query params" *)
      {| pq_path_and_query := url;
         pq_path_and_query_matching := Some (if ignore_path_and_query_case cfg then to_lowercase_ascii url else url);
         pq_skipped_query_params := None;
         pq_original := path_and_query_str |}
  | Some (path, query) =>
      let '(new_path_and_query, skipped) :=
        match query with
        | None => (path, [])
        | Some q =>
            let hash_query := btree_collect (form_urlencoded_parse q) in
            let '(query_string, skipped) := from_config_loop cfg hash_query [] [] in
            (if is_nil query_string then path else path ++ [c_qmark] ++ query_string, skipped)
        end in
      {| pq_path_and_query := new_path_and_query;
         pq_path_and_query_matching :=
           Some (if ignore_path_and_query_case cfg then to_lowercase_ascii new_path_and_query else new_path_and_query);
         pq_skipped_query_params :=
           if pass_marketing_query_params_to_target cfg && negb (is_nil skipped) then Some skipped else None;
         pq_original := path_and_query_str |}
  end.

(* precondition of the model of from_config: the decoded parameters are valid UTF-8 (see RIO.Pct.decode) *)
Definition from_config_valid (path_and_query_str : str) : bool :=
  match http_path_and_query_parse (sanitize_url path_and_query_str) with
  | Some (_, Some q) => form_urlencoded_parse_valid q
  | _ => true
  end.

(* ------------------------------------------------------------------------------------------------ *)
(* src/http/request.rs *)

Record request := {
  rq_path_and_query_skipped : path_and_query_with_skipped;
  rq_path_and_query : option str;          (* path_and_query_v2 *)
  rq_host : option str
}.

(* Request::from_config, fields path_and_query_skipped / path_and_query / host.
   host.to_lowercase() is modelled for ASCII hosts only ([all_ascii] is the precondition). *)
Definition request_from_config (cfg : config) (path_and_query : str) (host : option str) : request :=
  {| rq_path_and_query_skipped := from_config cfg path_and_query;
     rq_path_and_query := Some path_and_query;
     rq_host := option_map (fun s => if ignore_host_case cfg then to_lowercase_ascii s else s) host |}.

(* Request::rebuild_with_config, same fields *)
Definition rebuild_with_config (cfg : config) (r : request) : request :=
  let original_url := match rq_path_and_query r with
                      | Some s => s
                      | None => pq_original (rq_path_and_query_skipped r)
                      end in
  {| rq_path_and_query_skipped := from_config cfg original_url;
     rq_path_and_query := Some original_url;
     rq_host := match rq_host r with
                | Some host => if ignore_host_case cfg then Some (to_lowercase_ascii host) else Some host
                | None => None
                end |}.

(* Request::path_and_query(&self) *)
Definition request_path_and_query (r : request) : str :=
  match pq_path_and_query_matching (rq_path_and_query_skipped r) with
  | None => pq_path_and_query (rq_path_and_query_skipped r)
  | Some path => path
  end.

(* what Request::path_and_query() returns after Request::from_config *)
Definition request_matching_string (cfg : config) (url : str) : str :=
  request_path_and_query (request_from_config cfg url None).

(* String::pop on bytes (the popped char is the ASCII '&' wherever this is used) *)
Fixpoint pop (s : str) : str :=
  match s with
  | [] => []
  | [_] => []
  | b :: r => b :: pop r
  end.

(* the loop of build_sorted_query: every entry is followed by '&' *)
Fixpoint build_sorted_query_loop (m : list (str * str)) : str :=
  match m with
  | [] => []
  | kv :: m' => query_param request_QUERY_ENCODE_SET kv ++ [c_amp] ++ build_sorted_query_loop m'
  end.

Definition build_sorted_query (query : str) : option str :=
  let hash_query := btree_collect (form_urlencoded_parse query) in
  let query_string := pop (build_sorted_query_loop hash_query) in
  if is_nil query_string then None else Some query_string.

(* ------------------------------------------------------------------------------------------------ *)
(* src/marker/mod.rs, src/api/rule.rs *)

(* StaticOrDynamic::new_with_markers(str, markers = [], ignore_case) = Static(..) *)
Definition new_with_markers_static (s : str) (ignore_case : bool) : str :=
  if ignore_case then to_lowercase_ascii s else s.

(* Rule::path_and_query for a rule without markers, called by into_route with
   ignore_case = config.ignore_path_and_query_case; the result is StaticOrDynamic::Static(_) *)
Definition rule_path_and_query (cfg : config) (source_path : str) (source_query : option str) : str :=
  let query := match source_query with
               | None => None
               | Some source_query => build_sorted_query source_query
               end in
  let path := utf8_percent_encode source_path rule_URL_ENCODE_SET in
  let path := match query with
              | Some query_string => path ++ [c_qmark] ++ utf8_percent_encode query_string rule_QUERY_ENCODE_SET
              | None => path
              end in
  new_with_markers_static path (ignore_path_and_query_case cfg).

Definition rule_path_and_query_valid (source_query : option str) : bool :=
  match source_query with
  | None => true
  | Some q => form_urlencoded_parse_valid q
  end.

(* ------------------------------------------------------------------------------------------------ *)
(* src/router/request_matcher/path_and_query.rs: static_rules.get(request.path_and_query()) *)
Definition static_rule_matches (rule_static : str) (r : request) : bool :=
  str_eqb rule_static (request_path_and_query r).

(* ------------------------------------------------------------------------------------------------ *)
(* src/action/mod.rs: get_target, and the Location filter value of from_route_rule (identity substitution) *)
Definition target_with_skipped (target : str) (skipped : option str) : str :=
  match skipped with
  | None => target
  | Some sk => target ++ [if memN c_qmark target then c_amp else c_qmark] ++ sk
  end.
