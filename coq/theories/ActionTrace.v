(* ActionTrace.v — TraceAction::from_trace_rules (src/action/trace.rs): the routes of the trace sorted by priority
   (ascending, i.e. rank descending; sort_by_key is stable), then one step per route: reset replaces the current action,
   otherwise merge; the step list stops after a rule marked stop. *)
Require Import RIO.Base RIO.ActionModel RIO.ActionProofs.
Open Scope N_scope.

Fixpoint insert_tr (x : rule) (l : list rule) : list rule :=
  match l with
  | [] => [x]
  | y :: l' => if N.leb (r_rank y) (r_rank x) then x :: l else y :: insert_tr x l'
  end.
Definition sort_trace (l : list rule) : list rule := fold_right insert_tr [] l.

Fixpoint trace_fold (cur : action) (l : list rule) (skipped : option str) (override : option bool) (rvs : list N) : list action :=
  match l with
  | [] => []
  | r :: l' =>
      let rv := match rvs with v :: _ => v | [] => 1%N end in
      let rvs' := match r_sampling r, rvs with Some _, _ :: t => t | _, _ => rvs end in
      let '(opt, reset, stop) := from_route_rule r skipped override rv in
      let cur' := match opt with Some ar => if reset then ar else merge cur ar | None => cur end in
      cur' :: (if stop then [] else trace_fold cur' l' skipped override rvs')
  end.

Definition trace_actions (rules : list rule) (skipped : option str) (override : option bool) (rvs : list N) : list action :=
  trace_fold action_default (sort_trace rules) skipped override rvs.

Lemma last_default_irrelevant {A} (l : list A) : l <> [] -> forall d d', last l d = last l d'.
Proof.
  induction l as [|a l IH]; intros H d d'; [contradiction|]. cbn [last]. destruct l as [|b l]; [reflexivity|]. apply IH. discriminate.
Qed.
Lemma last_cons_default {A} (a : A) l d : last (a :: l) d = last l a.
Proof. destruct l as [|b l]; [reflexivity|]. cbn [last]. apply (last_default_irrelevant (b :: l)). discriminate. Qed.

Lemma from_route_rule_none r skipped ov rv rs st : from_route_rule r skipped ov rv = (None, rs, st) -> st = false.
Proof. unfold from_route_rule. destruct (sampled_out _ _ _); intros H; [inversion H; reflexivity|discriminate]. Qed.

(* the last step of the action trace is the action of the live pipeline on the same ordered list *)
Lemma trace_fold_last l : forall cur skipped ov rvs,
  last (trace_fold cur l skipped ov rvs) cur = fold_rules cur l skipped ov rvs.
Proof.
  induction l as [|r l IH]; intros cur skipped ov rvs; [reflexivity|]. cbn [trace_fold fold_rules].
  destruct (from_route_rule r skipped ov _) as [[opt reset] stop] eqn:E. rewrite last_cons_default.
  destruct opt as [ar|].
  - destruct stop; [reflexivity|]. apply IH.
  - apply from_route_rule_none in E. subst stop. apply IH.
Qed.

(* with pairwise distinct ranks the stable sort by priority is the order of Rule::cmp *)
Lemma insert_agree x l : Forall (fun y => r_rank y <> r_rank x) l -> insert_tr x l = insert_sorted x l.
Proof.
  induction 1 as [|y l Hy _ IH]; [reflexivity|]. cbn [insert_tr insert_sorted]. unfold rule_before.
  destruct (N.ltb (r_rank y) (r_rank x)) eqn:E1.
  - apply N.ltb_lt in E1. assert (N.leb (r_rank y) (r_rank x) = true) as -> by (apply N.leb_le; lia). reflexivity.
  - apply N.ltb_ge in E1. assert (N.leb (r_rank y) (r_rank x) = false) as -> by (apply N.leb_gt; lia).
    assert (N.ltb (r_rank x) (r_rank y) = true) as -> by (apply N.ltb_lt; lia). rewrite IH. reflexivity.
Qed.

Lemma sort_trace_sort_rules l : NoDup (map r_rank l) -> sort_trace l = sort_rules l.
Proof.
  induction l as [|x l IH]; intros H; [reflexivity|]. cbn [map] in H. inversion H as [|? ? Hx Hn]; subst.
  unfold sort_trace, sort_rules. cbn [fold_right]. fold (sort_trace l). fold (sort_rules l). rewrite (IH Hn).
  apply insert_agree. apply sort_rules_Forall. apply Forall_forall. intros y Hy E. apply Hx. rewrite <- E. apply in_map. exact Hy.
Qed.

Theorem trace_last_is_live rules skipped ov rvs : NoDup (map r_rank rules) ->
  last (trace_actions rules skipped ov rvs) action_default = from_routes_rule rules skipped ov rvs.
Proof. intros H. unfold trace_actions, from_routes_rule. rewrite (sort_trace_sort_rules rules H). apply trace_fold_last. Qed.

(* without the hypothesis the two orders differ on a rank tie: the trace keeps the trace order, the pipeline breaks ties by id *)
