(* HtmlFilter.v — executable model of src/filter/html_filter_body.rs (HtmlFilterBodyAction, repaired:
   raw-text context carried across chunks, tokens that reached the end of the data are held back, an
   internal error disables the stage locally and releases what it holds) and of
   src/filter/html_body_action/{mod,body_append,body_prepend,body_replace}.rs, on top of the tokenizer
   model (RIO.HtmlTok), plus FilterBodyAction::new's content-type gating (src/filter/filter_body.rs).
   The CSS selector engine (scraper) is an oracle [sel_eval fragment selector]. *)
Require Import RIO.Base RIO.TokMonad RIO.HtmlTok RIO.BodyText.
Close Scope N_scope.
Open Scope nat_scope.

Section HtmlFilter.
Variable lower : str -> str.                         (* String::to_lowercase on tag names *)
Variable sel_eval : str -> str -> bool.              (* html_body_action::evaluate(data, expression) *)

Inductive vkind := VAppend | VPrepend | VReplace.
Record visitor := {
  v_kind : vkind;
  v_tree : list str;              (* element_tree, non-empty (HtmlBodyVisitor::new) *)
  v_pos : nat;                    (* position *)
  v_sel : option str;             (* css_selector *)
  v_content : str;                (* content (= filter.value) *)
  v_buffering : bool;             (* is_buffering (prepend / replace) *)
  v_oob : bool                    (* sticky: element_tree[position] was out of range (would panic) *)
}.

Definition with_pos (p : nat) (v : visitor) : visitor :=
  {| v_kind := v_kind v; v_tree := v_tree v; v_pos := p; v_sel := v_sel v; v_content := v_content v; v_buffering := v_buffering v; v_oob := v_oob v |}.
Definition with_buffering (b : bool) (v : visitor) : visitor :=
  {| v_kind := v_kind v; v_tree := v_tree v; v_pos := v_pos v; v_sel := v_sel v; v_content := v_content v; v_buffering := b; v_oob := v_oob v |}.
Definition with_oob (v : visitor) : visitor :=
  {| v_kind := v_kind v; v_tree := v_tree v; v_pos := v_pos v; v_sel := v_sel v; v_content := v_content v; v_buffering := v_buffering v; v_oob := true |}.

(* self.element_tree[self.position] (checked) *)
Definition tree_at (v : visitor) : visitor * str :=
  match nth_error (v_tree v) (v_pos v) with Some s => (v, s) | None => (with_oob v, []) end.

Definition has_selector (v : visitor) : bool := match v_sel v with Some s => negb (is_nil s) | None => false end.
Definition selector (v : visitor) : str := match v_sel v with Some s => s | None => [] end.

(* the tokenizer run over a complete String (append_child / prepend_child) *)
Definition tk_next (inp : list N) (s : st) : result token_type * st := next lower inp s.
Definition tk_raw (inp : list N) (s : st) : list N := fst (raw inp s).
Definition tk_buffered (inp : list N) (s : st) : list N := fst (buffered inp s).
Definition tk_tag_name (inp : list N) (s : st) : result (option str * bool) * st := tag_name lower inp s.
(* raw_as_string(): String::from_utf8(self.raw()) *)
Definition as_string (b : list N) : result (list N) := if utf8_valid b then ROk b else RErr.

Definition void_elements : list str :=
  [ [97;114;101;97]; [98;97;115;101]; [98;114]; [99;111;108]; [101;109;98;101;100]; [104;114]; [105;109;103];
    [105;110;112;117;116]; [108;105;110;107]; [109;101;116;97]; [112;97;114;97;109]; [115;111;117;114;99;101];
    [116;114;97;99;107]; [119;98;114] ]%N.
Definition is_void (name : str) : bool := mem_str name void_elements.

(* body_append.rs append_child(content, child) *)
Fixpoint append_child_loop (fuel : nat) (content child : str) (s : st) (output : str) (level : Z) : result str :=
  match fuel with
  | O => ROk content
  | S f =>
      match tk_next content s with
      | (RErr, _) => RErr
      | (ROk tk, s1) =>
          if token_eqb tk ErrorToken then ROk content
          else
            (* StartTagToken: level += 1, void elements do not open a level *)
            let step1 : result (Z * st) :=
              if token_eqb tk StartTagToken then
                match tk_tag_name content s1 with
                | (RErr, _) => RErr
                | (ROk (name, _), s2) =>
                    let nm := match name with Some n => n | None => [] end in
                    ROk ((if is_void nm then level else (level + 1)%Z), s2)
                end
              else ROk (level, s1) in
            match step1 with
            | RErr => RErr
            | ROk (level1, s2) =>
                let level2 := if token_eqb tk EndTagToken then (level1 - 1)%Z else level1 in
                if token_eqb tk EndTagToken && Z.eqb level2 0 then
                  match as_string (tk_raw content s2), as_string (tk_buffered content s2) with
                  | ROk r, ROk b => ROk (output ++ child ++ r ++ b)
                  | _, _ => RErr
                  end
                else
                  match as_string (tk_raw content s2) with
                  | RErr => RErr
                  | ROk r => append_child_loop f content child s2 (output ++ r) level2
                  end
            end
      end
  end.
Definition append_child (content child : str) : result str :=
  append_child_loop (length content + 2) content child (new lower) [] 0%Z.

(* body_prepend.rs prepend_child(content, child) *)
Fixpoint prepend_child_loop (fuel : nat) (content child : str) (s : st) (output : str) : result str :=
  match fuel with
  | O => ROk content
  | S f =>
      match tk_next content s with
      | (RErr, _) => RErr
      | (ROk tk, s1) =>
          if token_eqb tk ErrorToken then ROk content
          else if token_eqb tk StartTagToken then
            match as_string (tk_raw content s1), as_string (tk_buffered content s1) with
            | ROk r, ROk b => ROk (output ++ r ++ child ++ b)
            | _, _ => RErr
            end
          else match as_string (tk_raw content s1) with
               | RErr => RErr
               | ROk r => prepend_child_loop f content child s1 (output ++ r)
               end
      end
  end.
Definition prepend_child (content child : str) : result str :=
  prepend_child_loop (length content + 2) content child (new lower) [].

(* ---- visitors: enter -> (next_enter, next_leave, start_buffer, data) ---- *)
Definition v_enter (v : visitor) (data : str) : visitor * option str * option str * bool * str :=
  let '(v0, cur) := tree_at v in
  let next_leave := Some cur in
  if v_pos v0 + 1 <? length (v_tree v0) then
    let v1 := with_pos (S (v_pos v0)) v0 in
    let '(v2, nxt) := tree_at v1 in
    (v2, Some nxt, next_leave, false, data)
  else
    match v_kind v0 with
    | VAppend => (v0, None, next_leave, has_selector v0, data)
    | VPrepend =>
        if has_selector v0 then
          let v1 := with_buffering true v0 in (v1, None, next_leave, true, data)
        else (v0, None, next_leave, v_buffering v0, data ++ v_content v0)
    | VReplace => let v1 := with_buffering true v0 in (v1, None, next_leave, true, data)
    end.

(* leave -> Result<(next_enter, next_leave, data)> *)
Definition v_leave (v : visitor) (data : str) : result (visitor * option str * option str * str) :=
  let '(v0, cur) := tree_at v in
  let next_enter := Some cur in
  match v_kind v0 with
  | VAppend =>
      let is_processing := length (v_tree v0) <=? v_pos v0 + 1 in
      let '(v1, next_leave) :=
        if 0 <? v_pos v0 then let v' := with_pos (pred (v_pos v0)) v0 in let '(v'', s) := tree_at v' in (v'', Some s)
        else (v0, None) in
      if is_processing then
        if has_selector v1 then
          if negb (sel_eval data (selector v1)) then
            match append_child data (v_content v1) with
            | ROk d => ROk (v1, next_enter, next_leave, d)
            | RErr => RErr
            end
          else ROk (v1, next_enter, next_leave, data)
        else ROk (v1, next_enter, next_leave, v_content v1 ++ data)
      else ROk (v1, next_enter, next_leave, data)
  | VPrepend =>
      let '(v1, next_leave) :=
        if 0 <? v_pos v0 then let v' := with_pos (pred (v_pos v0)) v0 in let '(v'', s) := tree_at v' in (v'', Some s)
        else (v0, None) in
      if v_buffering v1 && has_selector v1 then
        let v2 := with_buffering false v1 in
        if negb (sel_eval data (selector v2)) then
          match prepend_child data (v_content v2) with
          | ROk d => ROk (v2, next_enter, next_leave, d)
          | RErr => RErr
          end
        else ROk (v2, next_enter, next_leave, data)
      else ROk (v1, next_enter, next_leave, data)
  | VReplace =>
      let '(v1, next_leave) :=
        if (0 <? v_pos v0) && negb (v_buffering v0) then let v' := with_pos (pred (v_pos v0)) v0 in let '(v'', s) := tree_at v' in (v'', Some s)
        else (v0, None) in
      if v_buffering v1 then
        let v2 := with_buffering false v1 in
        if negb (has_selector v2) then ROk (v2, next_enter, next_leave, v_content v2)
        else if sel_eval data (selector v2) then ROk (v2, next_enter, next_leave, v_content v2)
        else ROk (v2, next_enter, next_leave, data)
      else ROk (v1, next_enter, next_leave, data)
  end.

(* ---- HtmlFilterBodyAction ---- *)
Record hfb := {
  f_enter : option str;
  f_leave : option str;
  f_visitor : visitor;
  f_buffers : list (str * str);        (* current_buffer chain, innermost first: (tag_name, buffer) *)
  f_last : list N;                     (* last_buffer *)
  f_raw_tag : list N;                  (* raw-text context at the start of last_buffer *)
  f_in_error : bool
}.

Definition hfb_new (v : visitor) : hfb :=
  {| f_enter := Some (snd (tree_at (with_pos 0 v))); f_leave := None; f_visitor := v; f_buffers := []; f_last := [];
     f_raw_tag := []; f_in_error := false |}.

Definition opt_is (o : option str) (s : str) : bool := match o with Some x => str_eqb x s | None => false end.

(* on_start_tag_token *)
Definition on_start_tag (F : hfb) (tag : str) (data : str) : hfb * str :=
  if opt_is (f_enter F) tag then
    let '(v', ne, nl, start_buffer, nb) := v_enter (f_visitor F) data in
    let bufs := if start_buffer then (tag, []) :: f_buffers F else f_buffers F in
    ({| f_enter := ne; f_leave := nl; f_visitor := v'; f_buffers := bufs; f_last := f_last F; f_raw_tag := f_raw_tag F; f_in_error := f_in_error F |}, nb)
  else (F, data).

(* on_end_tag_token *)
Definition on_end_tag (F : hfb) (tag : str) (data : str) : result (hfb * str) :=
  let top_matches := match f_buffers F with (t, _) :: _ => str_eqb t tag | [] => false end in
  let buffer := match f_buffers F with (t, b) :: _ => if str_eqb t tag then b ++ data else data | [] => data end in
  let after_leave : result (hfb * str) :=
    if opt_is (f_leave F) tag then
      match v_leave (f_visitor F) buffer with
      | RErr => RErr
      | ROk (v', ne, nl, nb) =>
          ROk ({| f_enter := ne; f_leave := nl; f_visitor := v'; f_buffers := f_buffers F; f_last := f_last F; f_raw_tag := f_raw_tag F; f_in_error := f_in_error F |}, nb)
      end
    else ROk (F, buffer) in
  match after_leave with
  | RErr => RErr
  | ROk (F1, nb) =>
      let bufs := if top_matches then tl (f_buffers F1) else f_buffers F1 in
      ROk ({| f_enter := f_enter F1; f_leave := f_leave F1; f_visitor := f_visitor F1; f_buffers := bufs; f_last := f_last F1; f_raw_tag := f_raw_tag F1; f_in_error := f_in_error F1 |}, nb)
  end.

(* push token data to the innermost buffer, or to the output *)
Definition emit (F : hfb) (out : str) (data : str) : hfb * str :=
  match f_buffers F with
  | (t, b) :: rest =>
      ({| f_enter := f_enter F; f_leave := f_leave F; f_visitor := f_visitor F; f_buffers := (t, b ++ data) :: rest; f_last := f_last F; f_raw_tag := f_raw_tag F; f_in_error := f_in_error F |}, out)
  | [] => (F, out ++ data)
  end.

Definition set_hold (F : hfb) (rawtag : list N) (last : list N) : hfb :=
  {| f_enter := f_enter F; f_leave := f_leave F; f_visitor := f_visitor F; f_buffers := f_buffers F; f_last := last; f_raw_tag := rawtag; f_in_error := f_in_error F |}.

Definition contains_lt (s : str) : bool := memN 60%N s.

(* the tag-token part of the loop body *)
Definition handle_token (F : hfb) (data : list N) (s : st) (tk : token_type) (token_data : str) : result (hfb * str * st) :=
  match tk with
  | StartTagToken =>
      match tk_tag_name data s with
      | (RErr, _) => RErr
      | (ROk (name, _), s1) =>
          let nm := match name with Some n => n | None => [] end in
          let '(F1, d1) := on_start_tag F nm token_data in
          if is_void nm then
            match on_end_tag F1 nm d1 with RErr => RErr | ROk (F2, d2) => ROk (F2, d2, s1) end
          else ROk (F1, d1, s1)
      end
  | EndTagToken =>
      match tk_tag_name data s with
      | (RErr, _) => RErr
      | (ROk (name, _), s1) =>
          let nm := match name with Some n => n | None => [] end in     (* tag_name.unwrap(): names of end tags are never empty *)
          match on_end_tag F nm token_data with RErr => RErr | ROk (F1, d1) => ROk (F1, d1, s1) end
      end
  | SelfClosingTagToken =>
      match tk_tag_name data s with
      | (RErr, _) => RErr
      | (ROk (name, _), s1) =>
          let nm := match name with Some n => n | None => [] end in
          let '(F1, d1) := on_start_tag F nm token_data in
          match on_end_tag F1 nm d1 with RErr => RErr | ROk (F2, d2) => ROk (F2, d2, s1) end
      end
  | _ => ROk (F, token_data, s)
  end.

(* while token_type == TextToken && token_data.contains('<'): look at the next token before releasing the text *)
Fixpoint text_hold_loop (fuel : nat) (F : hfb) (data : list N) (s : st) (out : str) (tk : token_type) (token_data : str) (rawtag : list N)
  : result (hfb * str * st * token_type * str * list N * bool) :=      (* ..., stop *)
  match fuel with
  | O => ROk (F, out, s, tk, token_data, rawtag, false)
  | S f =>
      if token_eqb tk TextToken && contains_lt token_data then
        let next_raw_tag := TokMonad.raw_tag s in
        match tk_next data s with
        | (RErr, _) => RErr
        | (ROk tk', s1) =>
            if token_eqb tk' ErrorToken || err s1 then
              ROk (set_hold F rawtag (token_data ++ tk_raw data s1 ++ tk_buffered data s1), out, s1, tk', token_data, rawtag, true)
            else
              let '(F1, out1) := emit F out token_data in
              match as_string (tk_raw data s1) with
              | RErr => RErr
              | ROk td' => text_hold_loop f F1 data s1 out1 tk' td' next_raw_tag
              end
        end
      else ROk (F, out, s, tk, token_data, rawtag, false)
  end.

Fixpoint filter_loop (fuel : nat) (F : hfb) (data : list N) (s : st) (out : str) : result (hfb * str) :=
  match fuel with
  | O => ROk (F, out)
  | S f =>
      let rawtag := TokMonad.raw_tag s in
      match tk_next data s with
      | (RErr, _) => RErr
      | (ROk tk, s1) =>
          if token_eqb tk ErrorToken || err s1 then
            ROk (set_hold F rawtag (tk_raw data s1 ++ tk_buffered data s1), out)
          else
            match as_string (tk_raw data s1) with
            | RErr => RErr
            | ROk td =>
                match text_hold_loop (length data + 2) F data s1 out tk td rawtag with
                | RErr => RErr
                | ROk (F1, out1, s2, tk2, td2, _, true) => ROk (F1, out1)
                | ROk (F1, out1, s2, tk2, td2, _, false) =>
                    match handle_token F1 data s2 tk2 td2 with
                    | RErr => RErr
                    | ROk (F2, td3, s3) =>
                        let '(F3, out3) := emit F2 out1 td3 in
                        filter_loop f F3 data s3 out3
                    end
                end
            end
      end
  end.

(* held(): buffers outermost first, then last_buffer *)
Definition held (F : hfb) : list N := flat_map snd (rev (f_buffers F)) ++ f_last F.

Definition do_filter (F : hfb) (input : list N) : result (hfb * str) :=
  let data := f_last F ++ input in
  filter_loop (length data + 2) F data (new_fragment lower (f_raw_tag F)) [].

(* HtmlFilterBodyAction::filter: never fails; on an internal error the stage is disabled and releases what it holds *)
Definition hfb_filter (F : hfb) (input : list N) : hfb * list N :=
  if f_in_error F then (F, input)
  else match do_filter F input with
       | ROk (F', out) => (F', out)
       | RErr => ({| f_enter := f_enter F; f_leave := f_leave F; f_visitor := f_visitor F; f_buffers := []; f_last := [];
                     f_raw_tag := f_raw_tag F; f_in_error := true |}, held F ++ input)
       end.

Definition hfb_end (F : hfb) : hfb * list N := (F, held F).

(* ---- FilterBodyAction::new: which filters become stages ---- *)
Inductive hkind := HAppendChild | HPrependChild | HReplace | HOther.
Record html_filter := { hf_kind : hkind; hf_value : str; hf_tree : list str; hf_css : option str }.
Inductive body_filter := BFText (a : text_action) (content : str) | BFHtml (h : html_filter).

(* HtmlBodyVisitor::new *)
Definition visitor_new (h : html_filter) : option visitor :=
  if is_nil (hf_tree h) then None
  else match hf_kind h with
       | HAppendChild => Some {| v_kind := VAppend; v_tree := hf_tree h; v_pos := 0; v_sel := hf_css h; v_content := hf_value h; v_buffering := false; v_oob := false |}
       | HPrependChild => Some {| v_kind := VPrepend; v_tree := hf_tree h; v_pos := 0; v_sel := hf_css h; v_content := hf_value h; v_buffering := false; v_oob := false |}
       | HReplace => Some {| v_kind := VReplace; v_tree := hf_tree h; v_pos := 0; v_sel := hf_css h; v_content := hf_value h; v_buffering := false; v_oob := false |}
       | HOther => None
       end.

Inductive stage := StText (t : text_stage) | StHtml (F : hfb).

(* content_type: None (no header) | Some lowercased value; html filters only for text/html or no content type *)
Definition stage_new (content_type_ok : bool) (f : body_filter) : option stage :=
  match f with
  | BFText a c => Some (StText (text_new a c))
  | BFHtml h => if content_type_ok then match visitor_new h with Some v => Some (StHtml (hfb_new v)) | None => None end else None
  end.

Definition stage_filter (st : stage) (data : list N) : option (stage * list N) :=
  match st with
  | StText t => let '(t', o) := text_filter t data in Some (StText t', o)
  | StHtml F => let '(F', o) := hfb_filter F data in Some (StHtml F', o)
  end.
Definition stage_end (st : stage) : option (stage * list N) :=
  match st with
  | StText t => let '(t', o) := text_end t in Some (StText t', o)
  | StHtml F => let '(F', o) := hfb_end F in Some (StHtml F', o)
  end.

Fixpoint stages_of (content_type_ok : bool) (fs : list body_filter) : list stage :=
  match fs with
  | [] => []
  | f :: fs' => match stage_new content_type_ok f with Some s => s :: stages_of content_type_ok fs' | None => stages_of content_type_ok fs' end
  end.

(* FilterBodyAction over the chunks, no content-encoding *)
Definition body_run (content_type_ok : bool) (fs : list body_filter) (chunks : list (list N)) : list N :=
  fba_run stage stage_filter stage_end {| fb_chain := stages_of content_type_ok fs; fb_in_error := false |} chunks.
End HtmlFilter.
