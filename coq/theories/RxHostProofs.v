(* RxHostProofs.v — MECHANICAL COPY of RIO.HostProofs for the strengthened pattern shapes of RIO.RxLaws:
   shape_c -> shape_x, tpre_c -> tpre_x, engine_prefix_law -> engine_prefix_law_x, the prefix.rs structure
   lemmas *_c -> *_x (RIO.RxTreeInst).  No proof script was changed.  Original header follows. *)
(* RxHostProofs.v — HostMatcher (static map of IpMatchers + unique regex tree of IpMatchers + any_host, with the
   always_match_any_host policy) stores a flat list of routes (mrep), and its matching / explain traces are
   RIO.RouterSpec.match_scope.  The host matcher is not an mspec: rules bound to no host are candidates only
   when no host-specific rule matched (unless always_match_any_host). *)
Require Import RIO.Base RIO.Prefix RIO.Route RIO.Layer RIO.Tree RIO.TreeProofs RIO.TreeInst RIO.RxLaws RIO.RxTreeInst RIO.RxTreeC RIO.Matchers
               RIO.MatcherSpec RIO.LayerProofs RIO.RouterSpec.
Require RIO.RxPathProofs.
Require Import RIO.RxMatchersProofs.
Close Scope N_scope.
Open Scope nat_scope.

(* ------------------------------------------------------------------ lists *)
Lemma is_nil_in_iff {A} (l l' : list A) : (forall x, In x l <-> In x l') -> is_nil l = is_nil l'.
Proof.
  intros H. destruct l as [|a l], l' as [|b l']; cbn [is_nil]; try reflexivity; exfalso.
  - apply (proj2 (H b)). left. reflexivity.
  - apply (proj1 (H a)). left. reflexivity.
Qed.

Lemma nodup_map_filter {A B} (f : A -> B) (p : A -> bool) l : NoDup (map f l) -> NoDup (map f (filter p l)).
Proof.
  induction l as [|x l IH]; cbn [map filter]; intros H; [constructor|].
  pose proof (NoDup_cons_iff (f x) (map f l)) as Hc. apply Hc in H. destruct H as [Hx Hl].
  destruct (p x); [|apply IH; exact Hl]. cbn [map]. constructor; [|apply IH; exact Hl].
  intros Hin. apply Hx. apply in_map_iff in Hin. destruct Hin as (y & Ey & Hy). apply filter_In in Hy.
  apply in_map_iff. exists y. split; [exact Ey|apply Hy].
Qed.

Lemma flat_map_map_snd {A B C} (f : B -> list C) (l : list (A * B)) :
  flat_map f (map snd l) = flat_map (fun x => f (snd x)) l.
Proof. induction l as [|x l IH]; cbn [map flat_map]; [reflexivity|]. rewrite IH. reflexivity. Qed.

Lemma filter_and {A} (f g : A -> bool) l : filter f (filter g l) = filter (fun x => g x && f x) l.
Proof.
  induction l as [|x l IH]; cbn [filter]; [reflexivity|].
  destruct (g x); cbn [filter andb]; [destruct (f x)|]; rewrite IH; reflexivity.
Qed.

Lemma assoc_nodup_iff {A} k (v : A) l : NoDup (map fst l) -> (assoc k l = Some v <-> In (k, v) l).
Proof.
  induction l as [|[k' v'] l IH]; cbn [assoc map fst In]; intros Hn.
  - split; [intros H; discriminate|intros []].
  - pose proof (NoDup_cons_iff k' (map fst l)) as Hc. apply Hc in Hn. destruct Hn as [Hk Hl].
    destruct (str_eqb k k') eqn:E.
    + apply str_eqb_spec in E. subst k'. split.
      * intros H. inversion H; subst. left. reflexivity.
      * intros [H|H]; [inversion H; reflexivity|]. exfalso. apply Hk. apply in_map_iff. exists (k, v). auto.
    + rewrite (IH Hl). split; [intros H; right; exact H|].
      intros [H|H]; [|exact H]. inversion H; subst. rewrite str_eqb_refl in E. discriminate.
Qed.

Lemma in_keys_assoc {A} k (l : list (str * A)) : In k (map fst l) -> exists v, assoc k l = Some v.
Proof.
  induction l as [|[k' v'] l IH]; cbn [assoc map fst In]; [intros []|].
  destruct (str_eqb k k') eqn:E; [intros _; exists v'; reflexivity|].
  intros [H|H]; [subst; rewrite str_eqb_refl in E; discriminate|apply IH; exact H].
Qed.

(* ------------------------------------------------------------------ trees: iter_mut with an accumulator, traces *)
Definition ent_rel {V A} (g : V -> A -> V * A) (e e' : pat * (ident * V)) : Prop :=
  fst e' = fst e /\ id_of V e' = id_of V e /\ exists a0, value_of V e' = fst (g (value_of V e) a0).

Lemma map_values_acc_rel {V A} (g : V -> A -> V * A) re vs : forall a,
  Forall2 (ent_rel g) (map (fun kv => (re, kv)) vs) (map (fun kv => (re, kv)) (fst (map_values_acc V g vs a))).
Proof.
  induction vs as [|[k v] vs IH]; intros a; cbn; [constructor|].
  destruct (g v a) as [v' a1] eqn:Eg. specialize (IH a1). destruct (map_values_acc V g vs a1) as [r a2]. cbn in *.
  constructor; [|exact IH]. unfold ent_rel, id_of, value_of. cbn. split; [reflexivity|]. split; [reflexivity|].
  exists a. rewrite Eg. reflexivity.
Qed.

(* map_acc rewrites the entries value-wise: patterns and ids unchanged, every value replaced by [fst (g v a)] *)
Lemma map_acc_entries {V A} (g : V -> A -> V * A) (it : item V) : forall a,
  Forall2 (ent_rel g) (entries V it) (entries V (fst (map_acc V g it a))).
Proof.
  induction it as [ic|re ic c cs IH|re ic c vs] using item_ind'; intros a; cbn [map_acc].
  - constructor.
  - assert (H : forall l a, Forall (fun x => forall a, Forall2 (ent_rel g) (entries V x) (entries V (fst (map_acc V g x a)))) l ->
                Forall2 (ent_rel g) (flat_map (entries V) l)
                        (flat_map (entries V) (fst (map_acc_list V (fun x a => map_acc V g x a) l a)))).
    { induction l as [|x l IHl]; intros a0 Hl; cbn; [constructor|]. inversion Hl as [|? ? H1 H2]; subst.
      destruct (map_acc V g x a0) as [x' a1] eqn:E1.
      destruct (map_acc_list V (fun x a => map_acc V g x a) l a1) as [r a2] eqn:E2. cbn.
      apply Forall2_app.
      - specialize (H1 a0). rewrite E1 in H1. exact H1.
      - specialize (IHl a1 H2). rewrite E2 in IHl. exact IHl. }
    specialize (H cs a IH). destruct (map_acc_list V (fun x a => map_acc V g x a) cs a) as [cs' a']. cbn in *. exact H.
  - pose proof (map_values_acc_rel g re vs a) as H. destruct (map_values_acc V g vs a) as [vs' a']. cbn in *. exact H.
Qed.

Section TraceInd.
  Variable V : Type.
  Variable Pt : Tree.trace V -> Prop.
  Hypothesis Ht : forall re c m ch vs, Forall Pt ch -> Pt (Tr re c m ch vs).
  Fixpoint trace_ind' (t : Tree.trace V) : Pt t :=
    match t with
    | Tr re c m ch vs => Ht re c m ch vs ((fix all (l : list (Tree.trace V)) : Forall Pt l :=
        match l with [] => Forall_nil _ | x :: l' => Forall_cons _ (trace_ind' x) (all l') end) ch)
    end.
End TraceInd.

(* ------------------------------------------------------------------ host classes of a route *)
Definition cls_any (r : route) : bool := negb (host_specific r).
Definition cls_st (h : str) (r : route) : bool :=
  match rt_host r with Some (SStatic s) => negb (is_nil s) && str_eqb s h | _ => false end.
Definition cls_dyn (re : str) (r : route) : bool :=
  match rt_host r with Some (SDynamic re') => str_eqb re' re | _ => false end.

Lemma cls_st_fun k k' r : cls_st k r = true -> cls_st k' r = true -> k = k'.
Proof.
  unfold cls_st. destruct (rt_host r) as [[s|re]|]; try discriminate. intros H1 H2.
  apply andb_prop in H1, H2. destruct H1 as [_ H1], H2 as [_ H2]. apply str_eqb_spec in H1, H2. congruence.
Qed.
Lemma cls_dyn_fun k k' r : cls_dyn k r = true -> cls_dyn k' r = true -> k = k'.
Proof.
  unfold cls_dyn. destruct (rt_host r) as [[s|re]|]; try discriminate. intros H1 H2.
  apply str_eqb_spec in H1, H2. congruence.
Qed.
Lemma cls_any_st r k : cls_any r = true -> cls_st k r = false.
Proof.
  unfold cls_any, cls_st, host_specific. destruct (rt_host r) as [[s|re]|]; try reflexivity.
  destruct (is_nil s); cbn; [reflexivity|discriminate].
Qed.
Lemma cls_any_dyn r k : cls_any r = true -> cls_dyn k r = false.
Proof. unfold cls_any, cls_dyn, host_specific. destruct (rt_host r) as [[s|re]|]; try reflexivity. discriminate. Qed.
Lemma cls_st_any r k : cls_st k r = true -> cls_any r = false.
Proof. intros H. destruct (cls_any r) eqn:E; [|reflexivity]. rewrite (cls_any_st r k E) in H. discriminate. Qed.
Lemma cls_dyn_any r k : cls_dyn k r = true -> cls_any r = false.
Proof. intros H. destruct (cls_any r) eqn:E; [|reflexivity]. rewrite (cls_any_dyn r k E) in H. discriminate. Qed.
Lemma cls_st_dyn r k k' : cls_st k r = true -> cls_dyn k' r = false.
Proof. unfold cls_st, cls_dyn. destruct (rt_host r) as [[s|re]|]; try reflexivity. discriminate. Qed.
Lemma cls_dyn_st r k k' : cls_dyn k r = true -> cls_st k' r = false.
Proof. unfold cls_st, cls_dyn. destruct (rt_host r) as [[s|re]|]; try reflexivity. discriminate. Qed.
Lemma route_class r : cls_any r = true \/ (exists k, cls_st k r = true) \/ (exists re, cls_dyn re r = true).
Proof.
  unfold cls_any, cls_st, cls_dyn, host_specific. destruct (rt_host r) as [[s|re]|].
  - destruct (is_nil s); cbn; [left; reflexivity|]. right. left. exists s. apply str_eqb_refl.
  - right. right. exists re. apply str_eqb_refl.
  - left. reflexivity.
Qed.

(* ------------------------------------------------------------------ the host matcher *)
Section RxHostProofs.
Variable lower : str -> str.
Variable eng : bool -> pat -> list N -> bool.
Variable valid : bool -> pat -> bool.
Variables ic_host ic_path always_any_host : bool.
Hypothesis Hd : engine_dotstar eng.
Hypothesis Hp : engine_prefix_law_x eng.

Notation ipo := (ip_ops lower eng valid ic_path).
Definition okb : route -> Prop := ok_below lower.
Definition satb : route -> request -> bool := sat_below lower eng ic_path.
Definition SI : mspec ipo okb satb := Sip lower eng valid ic_path Hd Hp.

Definition ok_host (r : route) : Prop :=
  ok_below lower r /\ match rt_host r with Some (SDynamic re) => shape_x re /\ re <> [] | _ => True end.

Definition rm_fst (id : str) (m : ipm) : ipm := fst (m_remove ipo id m).
Definition rm_snd (id : str) (m : ipm) : option route := snd (m_remove ipo id m).

(* what a sub-matcher answers (matching, or the routes of its explain trace) *)
Definition fd_ok (q : request) (fd : ipm -> list route) : Prop :=
  forall m L' r, repr SI m L' -> NoDup (ids L') -> (In r (fd m) <-> In r L' /\ satb r q = true).

Lemma fd_ok_match q : fd_ok q (m_match ipo q).
Proof. intros m L' r Hr Hn. apply (match_in SI m L' q r Hr Hn). Qed.
Lemma fd_ok_trace q : fd_ok q (fun m => traces_routes (m_trace ipo q m)).
Proof. intros m L' r Hr Hn. apply (trace_in SI m L' q r Hr Hn). Qed.

(* ---------------------------------------------------------------- keyed families of IpMatchers *)
(* both the static map and the (projected) entries of the regex tree: the sub-matcher under key k stores the
   routes of class k; keys are distinct; every class present in L has its key *)
Section KV.
Variable cls : str -> route -> bool.
Hypothesis cls_fun : forall k k' r, cls k r = true -> cls k' r = true -> k = k'.

Definition kv_ok (kms : list (str * ipm)) (L : list route) : Prop :=
  Forall (fun km => repr SI (snd km) (filter (cls (fst km)) L)) kms
  /\ NoDup (map fst kms)
  /\ (forall r k, In r L -> cls k r = true -> In k (map fst kms)).

Lemma kv_nil : kv_ok [] [].
Proof. split; [constructor|]. split; [constructor|]. intros r k []. Qed.

Lemma kv_permL kms L L' : kv_ok kms L -> Permutation L L' -> kv_ok kms L'.
Proof.
  intros (Hb & Hn & Hc) Hp'. split; [|split; [exact Hn|]].
  - eapply Forall_impl; [|exact Hb]. intros km H. cbn beta in H |- *.
    eapply repr_perm; [exact H|apply filter_perm; exact Hp'].
  - intros r k Hr Hk. apply (Hc r k); [|exact Hk]. eapply Permutation_in; [apply Permutation_sym; exact Hp'|exact Hr].
Qed.

Lemma kv_permK kms kms' L : kv_ok kms L -> Permutation kms kms' -> kv_ok kms' L.
Proof.
  intros (Hb & Hn & Hc) Hp'. split; [|split].
  - apply Forall_forall. intros km Hkm. apply (proj1 (Forall_forall _ _) Hb).
    eapply Permutation_in; [apply Permutation_sym; exact Hp'|exact Hkm].
  - eapply Permutation_NoDup; [apply Permutation_map; exact Hp'|exact Hn].
  - intros r k Hr Hk. eapply Permutation_in; [apply Permutation_map; exact Hp'|]. apply (Hc r k Hr Hk).
Qed.

(* a route of no class of this family *)
Lemma kv_other kms L r : kv_ok kms L -> (forall k, cls k r = false) -> kv_ok kms (r :: L).
Proof.
  intros (Hb & Hn & Hc) Hno. split; [|split; [exact Hn|]].
  - eapply Forall_impl; [|exact Hb]. intros km H. cbn beta in H |- *. cbn [filter]. rewrite Hno. exact H.
  - intros x k [<-|Hx] Hk; [rewrite Hno in Hk; discriminate|apply (Hc x k Hx Hk)].
Qed.

(* a route of a class that has no sub-matcher yet *)
Lemma kv_new kms L r k :
  kv_ok kms L -> ~ In k (map fst kms) -> cls k r = true -> okb r ->
  kv_ok ((k, m_insert ipo r (m_new ipo)) :: kms) (r :: L).
Proof.
  intros (Hb & Hn & Hc) Hk Hcls Hok. split; [|split].
  - constructor.
    + cbn [fst snd filter]. rewrite Hcls. rewrite filter_nil.
      * apply (repr_insert SI (m_new ipo) [] r); [apply repr_new|constructor|intros []|exact Hok].
      * intros x Hx. destruct (cls k x) eqn:E; [|reflexivity]. exfalso. apply Hk. apply (Hc x k Hx E).
    + apply Forall_forall. intros km Hkm. pose proof (proj1 (Forall_forall _ _) Hb km Hkm) as H. cbn beta in H |- *.
      cbn [filter]. destruct (cls (fst km) r) eqn:E; [|exact H]. exfalso. apply Hk.
      rewrite <- (cls_fun _ _ _ E Hcls). apply in_map. exact Hkm.
  - cbn [map fst]. constructor; assumption.
  - intros x k' [<-|Hx] Hk'.
    + left. apply (cls_fun _ _ _ Hcls Hk').
    + right. apply (Hc x k' Hx Hk').
Qed.

(* a route of a class that has its sub-matcher *)
Definition kupd (k : str) (f : ipm -> ipm) (kms : list (str * ipm)) : list (str * ipm) :=
  map (fun km => if str_eqb (fst km) k then (fst km, f (snd km)) else km) kms.

Lemma kupd_keys k f kms : map fst (kupd k f kms) = map fst kms.
Proof.
  unfold kupd. rewrite map_map. apply map_ext. intros km. destruct (str_eqb (fst km) k); reflexivity.
Qed.

Lemma kv_upd kms L r k :
  kv_ok kms L -> NoDup (ids L) -> ~ In (rt_id r) (ids L) -> okb r -> cls k r = true -> In k (map fst kms) ->
  kv_ok (kupd k (m_insert ipo r) kms) (r :: L).
Proof.
  intros (Hb & Hn & Hc) Hnd Hfr Hok Hcls Hk. split; [|split].
  - apply Forall_forall. intros x Hx. unfold kupd in Hx. apply in_map_iff in Hx. destruct Hx as (km & <- & Hkm).
    pose proof (proj1 (Forall_forall _ _) Hb km Hkm) as H. cbn beta in H.
    destruct (str_eqb (fst km) k) eqn:E; cbn [fst snd filter].
    + apply str_eqb_spec in E. rewrite E in *. rewrite Hcls.
      apply (repr_insert SI); [exact H|apply ids_filter_nodup; exact Hnd| |exact Hok].
      intros Hin. apply Hfr. exact (ids_filter_in _ _ _ Hin).
    + destruct (cls (fst km) r) eqn:E2; [|exact H]. exfalso.
      rewrite (cls_fun _ _ _ E2 Hcls), str_eqb_refl in E. discriminate.
  - rewrite kupd_keys. exact Hn.
  - rewrite kupd_keys. intros x k' [<-|Hx] Hk'.
    + rewrite <- (cls_fun _ _ _ Hcls Hk'). exact Hk.
    + apply (Hc x k' Hx Hk').
Qed.

(* dropping routes that belong to no class of this family *)
Lemma kv_drop kms L p :
  kv_ok kms L -> (forall x k, In x L -> p x = false -> cls k x = false) -> kv_ok kms (filter p L).
Proof.
  intros (Hb & Hn & Hc) Hp'. split; [|split; [exact Hn|]].
  - apply Forall_forall. intros km Hkm. pose proof (proj1 (Forall_forall _ _) Hb km Hkm) as H. cbn beta in H |- *.
    rewrite filter_same; [exact H|]. intros x Hx Ex. apply (Hp' x _ Hx Ex).
  - intros r k Hr Hk. apply filter_In in Hr. apply (Hc r k); [apply Hr|exact Hk].
Qed.

(* apply h to every sub-matcher and prune the empty ones (remove, batch_remove) *)
Definition kbmap (h : ipm -> ipm) (kms : list (str * ipm)) : list (str * ipm) :=
  flat_map (fun km => if m_is_empty ipo (h (snd km)) then [] else [(fst km, h (snd km))]) kms.

Lemma kbmap_in h kms km' :
  In km' (kbmap h kms) <-> exists km, In km kms /\ m_is_empty ipo (h (snd km)) = false /\ km' = (fst km, h (snd km)).
Proof.
  unfold kbmap. rewrite in_flat_map. split; intros (km & Hkm & H); exists km.
  - destruct (m_is_empty ipo (h (snd km))); [destruct H|]. destruct H as [<-|[]]. auto.
  - destruct H as [E ->]. rewrite E. split; [exact Hkm|left; reflexivity].
Qed.

Lemma kbmap_nodup h kms : NoDup (map fst kms) -> NoDup (map fst (kbmap h kms)).
Proof.
  induction kms as [|[k m] kms IH]; intros Hn; [constructor|].
  cbn [map fst] in Hn. pose proof (NoDup_cons_iff k (map fst kms)) as Hc. apply Hc in Hn. destruct Hn as [Hk Hn].
  change (kbmap h ((k, m) :: kms)) with ((if m_is_empty ipo (h m) then [] else [(k, h m)]) ++ kbmap h kms).
  destruct (m_is_empty ipo (h m)); cbn [app]; [apply IH; exact Hn|].
  cbn [map fst]. constructor; [|apply IH; exact Hn].
  intros Hin. apply Hk. apply in_map_iff in Hin. destruct Hin as (km' & E & Hkm').
  apply kbmap_in in Hkm'. destruct Hkm' as (km & Hkm & _ & ->). cbn [fst] in E. rewrite <- E. apply in_map. exact Hkm.
Qed.

Lemma kv_bmap h kms L' :
  (forall km, In km kms -> repr SI (h (snd km)) (filter (cls (fst km)) L')) ->
  NoDup (map fst kms) ->
  (forall r k, In r L' -> cls k r = true -> In k (map fst kms)) ->
  kv_ok (kbmap h kms) L'.
Proof.
  intros Hb Hn Hc. split; [|split].
  - apply Forall_forall. intros km' Hin. apply kbmap_in in Hin. destruct Hin as (km & Hkm & _ & ->).
    cbn [fst snd]. apply Hb. exact Hkm.
  - apply kbmap_nodup. exact Hn.
  - intros r k Hr Hk. pose proof (Hc r k Hr Hk) as Hin. apply in_map_iff in Hin. destruct Hin as (km & E & Hkm).
    apply in_map_iff. exists (fst km, h (snd km)). split; [exact E|]. apply kbmap_in. exists km.
    split; [exact Hkm|]. split; [|reflexivity].
    pose proof (repr_len SI _ _ (Hb km Hkm)) as Hlen.
    assert (Hin : In r (filter (cls (fst km)) L')) by (apply filter_In; split; [exact Hr|rewrite E; exact Hk]).
    apply in_len_pos in Hin. unfold m_is_empty. apply Nat.eqb_neq. lia.
Qed.

(* removal of an id from every sub-matcher *)
Lemma kv_rm kms L id km :
  kv_ok kms L -> NoDup (ids L) -> In km kms ->
  repr SI (rm_fst id (snd km)) (filter (cls (fst km)) (without_id id L))
  /\ rm_snd id (snd km) = find_id id (filter (cls (fst km)) L).
Proof.
  intros (Hb & _ & _) Hnd Hkm. pose proof (proj1 (Forall_forall _ _) Hb km Hkm) as H. cbn beta in H.
  destruct (repr_remove SI _ _ id H (ids_filter_nodup _ L Hnd)) as [H1 H2]. split; [|exact H2].
  unfold without_id in H1 |- *. rewrite filter_comm. exact H1.
Qed.

Lemma kv_found kms L id km v :
  kv_ok kms L -> NoDup (ids L) -> In km kms -> rm_snd id (snd km) = Some v -> find_id id L = Some v.
Proof.
  intros Hkv Hnd Hkm E. rewrite (proj2 (kv_rm kms L id km Hkv Hnd Hkm)) in E.
  apply LayerProofs.find_id_some in E. destruct E as [Hv Eid]. apply filter_In in Hv.
  apply find_id_unique; [exact Hnd|apply Hv|exact Eid].
Qed.

Lemma kv_must kms L id v k :
  kv_ok kms L -> NoDup (ids L) -> In v L -> rt_id v = id -> cls k v = true ->
  exists km, In km kms /\ rm_snd id (snd km) = Some v.
Proof.
  intros Hkv Hnd Hv Eid Hk. pose proof Hkv as (_ & _ & Hc).
  pose proof (Hc v k Hv Hk) as Hin. apply in_map_iff in Hin. destruct Hin as (km & E & Hkm).
  exists km. split; [exact Hkm|]. rewrite (proj2 (kv_rm kms L id km Hkv Hnd Hkm)).
  apply find_id_unique; [apply ids_filter_nodup; exact Hnd| |exact Eid].
  apply filter_In. split; [exact Hv|rewrite E; exact Hk].
Qed.

Lemma kv_remove kms L id : kv_ok kms L -> NoDup (ids L) -> kv_ok (kbmap (rm_fst id) kms) (without_id id L).
Proof.
  intros Hkv Hnd. pose proof Hkv as (_ & Hn & Hc). apply kv_bmap.
  - intros km Hkm. apply (kv_rm kms L id km Hkv Hnd Hkm).
  - exact Hn.
  - intros r k Hr Hk. apply (Hc r k); [|exact Hk]. unfold without_id in Hr. apply filter_In in Hr. apply Hr.
Qed.

Lemma kv_batch kms L xs :
  kv_ok kms L -> NoDup (ids L) -> kv_ok (kbmap (m_batch_remove ipo xs) kms) (without_ids xs L).
Proof.
  intros (Hb & Hn & Hc) Hnd. apply kv_bmap.
  - intros km Hkm. pose proof (proj1 (Forall_forall _ _) Hb km Hkm) as H. cbn beta in H.
    pose proof (repr_batch SI _ _ xs H (ids_filter_nodup _ L Hnd)) as H1.
    unfold without_ids in H1 |- *. rewrite filter_comm. exact H1.
  - exact Hn.
  - intros r k Hr Hk. apply (Hc r k); [|exact Hk]. unfold without_ids in Hr. apply filter_In in Hr. apply Hr.
Qed.

(* same keys, sub-matchers replaced by ones storing the same routes (cache) *)
Definition km_same (km km' : str * ipm) : Prop :=
  fst km' = fst km /\ forall X, repr SI (snd km) X -> repr SI (snd km') X.

Lemma kv_same kms kms' L : Forall2 km_same kms kms' -> kv_ok kms L -> kv_ok kms' L.
Proof.
  intros HF (Hb & Hn & Hc).
  assert (Hk : map fst kms' = map fst kms).
  { clear - HF. induction HF as [|a b l l' [E _] _ IH]; cbn [map]; [reflexivity|]. rewrite E, IH. reflexivity. }
  split; [|split; rewrite Hk; assumption].
  clear - HF Hb. induction HF as [|a b l l' [E Hr] _ IH]; [constructor|].
  pose proof (Forall_inv Hb) as Ha. pose proof (Forall_inv_tail Hb) as Hl. cbn beta in Ha.
  constructor; [|apply IH; exact Hl]. rewrite E. apply Hr. exact Ha.
Qed.

(* what the sub-matcher under key k answers *)
Lemma kv_fd_in kms L q fd r k :
  kv_ok kms L -> NoDup (ids L) -> fd_ok q fd ->
  ((exists km, In km kms /\ fst km = k /\ In r (fd (snd km))) <-> In r L /\ cls k r = true /\ satb r q = true).
Proof.
  intros (Hb & Hn & Hc) Hnd Hfd. split.
  - intros (km & Hkm & E & Hin). pose proof (proj1 (Forall_forall _ _) Hb km Hkm) as H. cbn beta in H.
    apply (Hfd _ _ r H (ids_filter_nodup _ L Hnd)) in Hin. destruct Hin as [Hin Hs].
    apply filter_In in Hin. rewrite E in Hin. tauto.
  - intros (Hr & Hk & Hs). pose proof (Hc r k Hr Hk) as Hin. apply in_map_iff in Hin. destruct Hin as (km & E & Hkm).
    exists km. split; [exact Hkm|]. split; [exact E|].
    pose proof (proj1 (Forall_forall _ _) Hb km Hkm) as H. cbn beta in H.
    apply (Hfd _ _ r H (ids_filter_nodup _ L Hnd)). split; [|exact Hs]. apply filter_In. rewrite E. tauto.
Qed.

(* the answers of sub-matchers under distinct keys are disjoint *)
Lemma kv_flat_nodup q kms L :
  Forall (fun km => repr SI (snd km) (filter (cls (fst km)) L)) kms -> NoDup (map fst kms) -> NoDup (ids L) ->
  NoDup (flat_map (fun km => m_match ipo q (snd km)) kms).
Proof.
  intros Hb Hn Hnd. induction kms as [|[k m] kms IH]; cbn [flat_map]; [constructor|].
  pose proof (Forall_inv Hb) as Hm. pose proof (Forall_inv_tail Hb) as Hb'. cbn [fst snd] in Hm.
  cbn [map fst] in Hn. pose proof (NoDup_cons_iff k (map fst kms)) as Hcn. apply Hcn in Hn. destruct Hn as [Hk Hn].
  cbn [snd]. apply nodup_app.
  - apply (match_nodup SI m _ q Hm). apply ids_filter_nodup. exact Hnd.
  - apply IH; assumption.
  - intros x Hx1 Hx2.
    apply (match_in SI m _ q x Hm (ids_filter_nodup _ L Hnd)) in Hx1. destruct Hx1 as [Hx1 _].
    apply filter_In in Hx1. destruct Hx1 as [_ Hk1].
    apply in_flat_map in Hx2. destruct Hx2 as (km & Hkm & Hx2).
    pose proof (proj1 (Forall_forall _ _) Hb' km Hkm) as Hr. cbn beta in Hr.
    apply (match_in SI _ _ q x Hr (ids_filter_nodup _ L Hnd)) in Hx2. destruct Hx2 as [Hx2 _].
    apply filter_In in Hx2. destruct Hx2 as [_ Hk2].
    apply Hk. rewrite (cls_fun _ _ _ Hk1 Hk2). apply in_map. exact Hkm.
Qed.
End KV.

(* ---------------------------------------------------------------- the regex tree as a keyed family *)
Definition proj (e : pat * (ident * ipm)) : str * ipm := (fst e, value_of ipm e).
Definition tkms (t : item ipm) : list (str * ipm) := map proj (entries ipm t).
(* UniqueRegexTreeMap: the id of an entry is its pattern *)
Definition ids_ok (es : list (pat * (ident * ipm))) : Prop := Forall (fun e => id_of ipm e = fst e) es.

Lemma tkms_keys t : map fst (tkms t) = map fst (entries ipm t).
Proof. unfold tkms. rewrite map_map. reflexivity. Qed.

Lemma tkms_find t s : inv_c ipm ic_host t ->
  Tree.find ipm eng t s = map snd (filter (fun km => ML eng ic_host (fst km) s) (tkms t)).
Proof.
  intros Hi. rewrite (find_spec_c ipm eng valid Hd Hp ic_host t s Hi). unfold tkms.
  induction (entries ipm t) as [|e es IH]; cbn [filter map]; [reflexivity|].
  unfold proj at 1. cbn [fst]. destruct (ML eng ic_host (fst e) s); cbn [map]; rewrite IH; reflexivity.
Qed.

Definition prune (h : ipm -> ipm) : ident -> ipm -> option ipm :=
  fun _ m => let m' := h m in if m_is_empty ipo m' then None else Some m'.

Lemma tkms_retain h t : tkms (retain ipm (prune h) t) = kbmap h (tkms t).
Proof.
  unfold tkms. rewrite retain_entries_c.
  induction (entries ipm t) as [|e es IH]; cbn [flat_map map]; [reflexivity|].
  rewrite map_app, IH. unfold kbmap. cbn [flat_map]. f_equal.
  unfold retain_entry, prune, proj. cbn [fst snd]. destruct (m_is_empty ipo (h (value_of ipm e))); reflexivity.
Qed.

Lemma ids_ok_retain f es : ids_ok es -> ids_ok (flat_map (retain_entry ipm f) es).
Proof.
  unfold ids_ok. induction es as [|e es IH]; cbn [flat_map]; intros H; [constructor|].
  pose proof (Forall_inv H) as He. pose proof (Forall_inv_tail H) as Hes. cbn beta in He.
  apply Forall_app. split; [|apply IH; exact Hes].
  unfold retain_entry. destruct (f (id_of ipm e) (value_of ipm e)); constructor; [|constructor].
  unfold id_of at 1. cbn [fst snd]. exact He.
Qed.

Lemma tkms_update t re f : inv_c ipm ic_host t -> tkms (update_at ipm t re f) = kupd re f (tkms t).
Proof.
  intros Hi. unfold tkms, kupd. rewrite (update_at_entries_c ipm valid ic_host t re f Hi), !map_map.
  apply map_ext. intros e. unfold upd_entry, proj, pat_eqb. cbn [fst snd].
  destruct (str_eqb (fst e) re); reflexivity.
Qed.

Lemma ids_ok_update re f es : ids_ok es -> ids_ok (map (upd_entry ipm re f) es).
Proof.
  unfold ids_ok. intros H. apply Forall_forall. intros x Hx. apply in_map_iff in Hx. destruct Hx as (e & <- & He).
  pose proof (proj1 (Forall_forall _ _) H e He) as Hid. cbn beta in Hid.
  unfold upd_entry. destruct (pat_eqb (fst e) re); [|exact Hid]. unfold id_of at 1. cbn [fst snd]. exact Hid.
Qed.

Lemma tkms_get t re : inv_c ipm ic_host t -> (Tree.get ipm t re = [] <-> ~ In re (map fst (tkms t))).
Proof.
  intros Hi. rewrite (get_spec_c ipm valid ic_host t re Hi), tkms_keys.
  induction (entries ipm t) as [|e es IH]; cbn [filter map In].
  - split; [intros _ []|reflexivity].
  - unfold pat_eqb at 1. destruct (str_eqb (fst e) re) eqn:E.
    + apply str_eqb_spec in E. cbn [map]. split; [intros H; discriminate|]. intros H. exfalso. apply H. left. exact E.
    + apply str_eqb_neq in E. rewrite IH. split; [intros H [H'|H']; [exact (E H')|exact (H H')]|].
      intros H H'. apply H. right. exact H'.
Qed.

Lemma tkms_all_values t : all_values ipm t = map snd (tkms t).
Proof. rewrite all_values_entries. unfold tkms. rewrite map_map. reflexivity. Qed.

Lemma eids_keys t : ids_ok (entries ipm t) -> eids ipm t = map fst (tkms t).
Proof.
  unfold ids_ok, eids. rewrite tkms_keys. intros H. apply map_ext_in. intros e He.
  exact (proj1 (Forall_forall _ _) H e He).
Qed.

(* ---------------------------------------------------------------- the static map *)
Notation hsi := (hstatic_insert lower eng valid ic_path).
Notation hsr := (hstatic_remove lower eng valid ic_path).
Notation hsc := (hstatic_cache lower eng valid ic_path).

Lemma hstatic_insert_new host r st :
  ~ In host (map fst st) -> hsi host r st = st ++ [(host, m_insert ipo r (m_new ipo))].
Proof.
  induction st as [|[h m] st IH]; cbn [hstatic_insert map fst In app]; intros Hn; [reflexivity|].
  destruct (str_eqb host h) eqn:E.
  - apply str_eqb_spec in E. exfalso. apply Hn. left. symmetry. exact E.
  - rewrite IH; [reflexivity|]. intros H. apply Hn. right. exact H.
Qed.

Lemma kupd_absent k f kms : ~ In k (map fst kms) -> kupd k f kms = kms.
Proof.
  unfold kupd. intros Hn. rewrite <- (map_id kms) at 2. apply map_ext_in. intros km Hkm.
  destruct (str_eqb (fst km) k) eqn:E; [|reflexivity]. apply str_eqb_spec in E. exfalso. apply Hn.
  rewrite <- E. apply in_map. exact Hkm.
Qed.

Lemma hstatic_insert_upd host r st :
  NoDup (map fst st) -> In host (map fst st) -> hsi host r st = kupd host (m_insert ipo r) st.
Proof.
  induction st as [|[h m] st IH]; cbn [hstatic_insert map fst In]; intros Hn Hin; [destruct Hin|].
  pose proof (NoDup_cons_iff h (map fst st)) as Hc. apply Hc in Hn. destruct Hn as [Hh Hn].
  unfold kupd. cbn [map fst snd]. fold (kupd host (m_insert ipo r) st). rewrite (str_eqb_sym h host).
  destruct (str_eqb host h) eqn:E.
  - apply str_eqb_spec in E. subst h. rewrite kupd_absent; [reflexivity|exact Hh].
  - f_equal. apply IH; [exact Hn|]. destruct Hin as [Hin|Hin]; [|exact Hin].
    subst h. rewrite str_eqb_refl in E. discriminate.
Qed.

Lemma hstatic_remove_fst id st : fst (hsr id st) = kbmap (rm_fst id) st.
Proof.
  induction st as [|[k m] st IH]; cbn [hstatic_remove]; [reflexivity|].
  change (kbmap (rm_fst id) ((k, m) :: st))
    with ((if m_is_empty ipo (fst (m_remove ipo id m)) then [] else [(k, fst (m_remove ipo id m))]) ++ kbmap (rm_fst id) st).
  destruct (m_remove ipo id m) as [m' o]. destruct (hsr id st) as [st'' o'].
  cbn [fst] in IH |- *. rewrite <- IH. destruct (m_is_empty ipo m'); reflexivity.
Qed.

Lemma hstatic_remove_some id st v :
  snd (hsr id st) = Some v -> exists km, In km st /\ rm_snd id (snd km) = Some v.
Proof.
  induction st as [|[k m] st IH]; cbn [hstatic_remove]; [intros H; discriminate|].
  destruct (m_remove ipo id m) as [m' o] eqn:Em. destruct (hsr id st) as [st'' o'].
  cbn [snd] in IH |- *. destruct o' as [v'|].
  - intros H. destruct (IH H) as (km & Hkm & E). exists km. split; [right; exact Hkm|exact E].
  - intros ->. exists (k, m). split; [left; reflexivity|]. unfold rm_snd. cbn [snd]. rewrite Em. reflexivity.
Qed.

Lemma hstatic_remove_none id st :
  snd (hsr id st) = None -> forall km, In km st -> rm_snd id (snd km) = None.
Proof.
  induction st as [|[k m] st IH]; cbn [hstatic_remove]; [intros _ km []|].
  destruct (m_remove ipo id m) as [m' o] eqn:Em. destruct (hsr id st) as [st'' o'].
  cbn [snd] in IH |- *. destruct o' as [v'|]; [intros H; discriminate|].
  intros -> km [<-|Hkm]; [unfold rm_snd; cbn [snd]; rewrite Em; reflexivity|apply IH; [reflexivity|exact Hkm]].
Qed.

Definition rm_step (id : str) (acc : option route) (m : ipm) : option route :=
  match snd (m_remove ipo id m) with Some v => Some v | None => acc end.

Lemma fold_rm_some id ms : forall acc v,
  fold_left (rm_step id) ms acc = Some v -> acc = Some v \/ exists m, In m ms /\ rm_snd id m = Some v.
Proof.
  induction ms as [|m ms IH]; cbn [fold_left]; intros acc v H; [left; exact H|].
  destruct (IH _ _ H) as [H1|(m' & Hm' & E)].
  - unfold rm_step in H1. destruct (snd (m_remove ipo id m)) as [v0|] eqn:Em.
    + right. exists m. split; [left; reflexivity|]. unfold rm_snd. rewrite Em. exact H1.
    + left. exact H1.
  - right. exists m'. split; [right; exact Hm'|exact E].
Qed.

Lemma fold_rm_none id ms : forall acc,
  fold_left (rm_step id) ms acc = None -> acc = None /\ forall m, In m ms -> rm_snd id m = None.
Proof.
  induction ms as [|m ms IH]; cbn [fold_left]; intros acc H; [split; [exact H|intros m []]|].
  destruct (IH _ H) as [H1 H2]. unfold rm_step in H1. destruct (snd (m_remove ipo id m)) as [v0|] eqn:Em; [discriminate|].
  split; [exact H1|]. intros m' [<-|Hm']; [unfold rm_snd; rewrite Em; reflexivity|apply H2; exact Hm'].
Qed.

Lemma hstatic_cache_same st : forall limit level, Forall2 km_same st (fst (hsc limit level st)).
Proof.
  induction st as [|[h m] st IH]; intros limit level; cbn [hstatic_cache]; [constructor|].
  pose proof (fun X => repr_cache SI m X limit level) as Hm.
  destruct (m_cache ipo limit level m) as [m' l1]. cbn [fst] in Hm.
  specialize (IH l1 level). destruct (hsc l1 level st) as [st'' l2]. cbn [fst] in IH |- *.
  constructor; [|exact IH]. split; [reflexivity|]. cbn [snd]. exact Hm.
Qed.

(* ---------------------------------------------------------------- representation *)
Definition hrepr (H : hostm) (L : list route) : Prop :=
  repr SI (h_any H) (filter cls_any L)
  /\ kv_ok cls_st (h_static H) L
  /\ inv_c ipm ic_host (h_tree H)
  /\ ids_ok (entries ipm (h_tree H))
  /\ kv_ok cls_dyn (tkms (h_tree H)) L
  /\ length L <= h_count H.

Notation hops := (host_ops lower eng valid ic_host ic_path always_any_host).

Lemma hrepr_perm H L L' : hrepr H L -> Permutation L L' -> hrepr H L'.
Proof.
  intros (Ha & Hs & Hi & Hid & Ht & Hl) Hp'. split; [|split; [|split; [|split; [|split]]]].
  - eapply repr_perm; [exact Ha|apply filter_perm; exact Hp'].
  - eapply kv_permL; eassumption.
  - exact Hi.
  - exact Hid.
  - eapply kv_permL; eassumption.
  - rewrite <- (Permutation_length Hp'). exact Hl.
Qed.

Lemma hrepr_len H L : hrepr H L -> length L <= m_len hops H.
Proof. intros (_ & _ & _ & _ & _ & Hl). exact Hl. Qed.

Lemma hrepr_new : hrepr (m_new hops) [].
Proof.
  cbn [m_new host_ops]. unfold h_new, hrepr. cbn [h_any h_static h_tree h_count filter].
  split; [apply repr_new|]. split; [apply kv_nil|]. split; [reflexivity|]. split; [constructor|].
  split; [apply kv_nil|]. cbn [length]. lia.
Qed.

(* ---------------------------------------------------------------- insert *)
Lemma hrepr_insert_any H L r :
  hrepr H L -> NoDup (ids L) -> ~ In (rt_id r) (ids L) -> okb r -> cls_any r = true ->
  hrepr {| h_static := h_static H; h_tree := h_tree H; h_any := m_insert ipo r (h_any H); h_count := S (h_count H) |} (r :: L).
Proof.
  intros (Ha & Hs & Hi & Hid & Ht & Hl) Hnd Hfr Hok Hc. unfold hrepr. cbn [h_any h_static h_tree h_count].
  split; [|split; [|split; [|split; [|split]]]].
  - cbn [filter]. rewrite Hc. apply (repr_insert SI); [exact Ha|apply ids_filter_nodup; exact Hnd| |exact Hok].
    intros Hin. apply Hfr. exact (ids_filter_in _ _ _ Hin).
  - apply kv_other; [exact Hs|]. intros k. apply cls_any_st. exact Hc.
  - exact Hi.
  - exact Hid.
  - apply kv_other; [exact Ht|]. intros k. apply cls_any_dyn. exact Hc.
  - cbn [length]. lia.
Qed.

Lemma hrepr_insert H L r :
  hrepr H L -> NoDup (ids L) -> ~ In (rt_id r) (ids L) -> ok_host r -> hrepr (m_insert hops r H) (r :: L).
Proof.
  intros HH Hnd Hfr [Hok Hdyn]. cbn [m_insert host_ops]. unfold h_insert. cbv zeta.
  destruct (rt_host r) as [[host|re]|] eqn:Eh.
  - destruct (is_nil host) eqn:En.
    + apply hrepr_insert_any; try assumption. unfold cls_any, host_specific. rewrite Eh, En. reflexivity.
    + destruct HH as (Ha & Hs & Hi & Hid & Ht & Hl).
      assert (Hcs : cls_st host r = true) by (unfold cls_st; rewrite Eh, En, str_eqb_refl; reflexivity).
      unfold hrepr. cbn [h_any h_static h_tree h_count]. split; [|split; [|split; [|split; [|split]]]].
      * cbn [filter]. rewrite (cls_st_any r host Hcs). exact Ha.
      * destruct (in_dec (list_eq_dec N.eq_dec) host (map fst (h_static H))) as [Hin|Hnin].
        -- rewrite hstatic_insert_upd; [|apply Hs|exact Hin]. apply (kv_upd cls_st cls_st_fun); assumption.
        -- rewrite hstatic_insert_new; [|exact Hnin]. eapply kv_permK; [|apply Permutation_cons_append].
           apply (kv_new cls_st cls_st_fun); assumption.
      * exact Hi.
      * exact Hid.
      * apply kv_other; [exact Ht|]. intros k. apply (cls_st_dyn r host). exact Hcs.
      * cbn [length]. lia.
  - destruct Hdyn as [Hsh Hne]. destruct HH as (Ha & Hs & Hi & Hid & Ht & Hl).
    assert (Hcd : cls_dyn re r = true) by (unfold cls_dyn; rewrite Eh; apply str_eqb_refl).
    pose proof (tkms_get (h_tree H) re Hi) as Hget.
    unfold hrepr. cbn [h_any h_static h_tree h_count].
    split; [cbn [filter]; rewrite (cls_dyn_any r re Hcd); exact Ha|].
    split; [apply kv_other; [exact Hs|]; intros k; apply (cls_dyn_st r re); exact Hcd|].
    destruct (get ipm (h_tree H) re) as [|m0 ms] eqn:Eg.
    + (* a new pattern *)
      assert (Hnin : ~ In re (map fst (tkms (h_tree H)))) by (apply Hget; reflexivity).
      assert (Hperm : Permutation (entries ipm (ins_c ipm (h_tree H) re re (m_insert ipo r (m_new ipo))))
                                  ((re, (re, m_insert ipo r (m_new ipo))) :: entries ipm (h_tree H))).
      { apply insert_entries_fresh_c. rewrite (eids_keys _ Hid). exact Hnin. }
      split; [apply (insert_inv_c ipm valid); assumption|]. split; [|split].
      * unfold ids_ok. apply Forall_forall. intros e He.
        pose proof (Permutation_in _ Hperm He) as He'. destruct He' as [<-|He']; [reflexivity|].
        exact (proj1 (Forall_forall _ _) Hid e He').
      * eapply kv_permK; [|apply Permutation_sym; unfold tkms; apply Permutation_map; exact Hperm].
        cbn [map]. unfold proj at 1. cbn [fst snd]. unfold value_of at 1. cbn [snd].
        apply (kv_new cls_dyn cls_dyn_fun); assumption.
      * cbn [length]. lia.
    + (* an existing pattern *)
      assert (Hin : In re (map fst (tkms (h_tree H)))).
      { destruct (in_dec (list_eq_dec N.eq_dec) re (map fst (tkms (h_tree H)))) as [Hin|Hnin]; [exact Hin|].
        apply Hget in Hnin. discriminate. }
      split; [apply (update_at_inv_c ipm valid); exact Hi|]. split; [|split].
      * rewrite (update_at_entries_c ipm valid ic_host _ re _ Hi). apply ids_ok_update. exact Hid.
      * rewrite (tkms_update _ re _ Hi). apply (kv_upd cls_dyn cls_dyn_fun); assumption.
      * cbn [length]. lia.
  - apply hrepr_insert_any; try assumption. unfold cls_any, host_specific. rewrite Eh. reflexivity.
Qed.

(* ---------------------------------------------------------------- remove *)
Definition h_removed (id : str) (H : hostm) : option route :=
  match snd (hsr id (h_static H)) with
  | Some v => Some v
  | None => fold_left (rm_step id) (all_values ipm (h_tree H)) None
  end.

Lemma h_remove_unfold id H :
  h_remove lower eng valid ic_path id H =
  match m_remove ipo id (h_any H) with
  | (a', Some v) => ({| h_static := h_static H; h_tree := h_tree H; h_any := a'; h_count := pred (h_count H) |}, Some v)
  | (a', None) =>
      ({| h_static := fst (hsr id (h_static H)); h_tree := retain ipm (prune (rm_fst id)) (h_tree H); h_any := a';
          h_count := match h_removed id H with Some _ => pred (h_count H) | None => h_count H end |}, h_removed id H)
  end.
Proof.
  unfold h_remove, h_removed. destruct (m_remove ipo id (h_any H)) as [a' [v|]]; [reflexivity|].
  destruct (hsr id (h_static H)) as [st' r1]. reflexivity.
Qed.

Lemma h_removed_spec id H L :
  hrepr H L -> NoDup (ids L) -> find_id id (filter cls_any L) = None -> h_removed id H = find_id id L.
Proof.
  intros (Ha & Hs & Hi & Hid & Ht & Hl) Hnd Hnone. unfold h_removed.
  pose proof (hstatic_remove_some id (h_static H)) as Hsome.
  pose proof (hstatic_remove_none id (h_static H)) as Hno.
  destruct (snd (hsr id (h_static H))) as [v|].
  - destruct (Hsome v eq_refl) as (km & Hkm & E). symmetry. apply (kv_found cls_st (h_static H) L id km v); assumption.
  - rewrite tkms_all_values. destruct (fold_left (rm_step id) (map snd (tkms (h_tree H))) None) as [v|] eqn:Ef.
    + apply fold_rm_some in Ef. destruct Ef as [Ef|(m & Hm & E)]; [discriminate|].
      apply in_map_iff in Hm. destruct Hm as (km & <- & Hkm). symmetry.
      apply (kv_found cls_dyn (tkms (h_tree H)) L id km v); assumption.
    + apply fold_rm_none in Ef. destruct Ef as [_ Hall].
      destruct (find_id id L) as [v|] eqn:Efi; [exfalso|reflexivity].
      apply LayerProofs.find_id_some in Efi. destruct Efi as [HvL Eid].
      destruct (route_class v) as [Hc|[[k Hc]|[re Hc]]].
      * assert (E : find_id id (filter cls_any L) = Some v).
        { apply find_id_unique; [apply ids_filter_nodup; exact Hnd| |exact Eid]. apply filter_In. split; assumption. }
        congruence.
      * destruct (kv_must cls_st (h_static H) L id v k Hs Hnd HvL Eid Hc) as (km & Hkm & E).
        rewrite (Hno eq_refl km Hkm) in E. discriminate.
      * destruct (kv_must cls_dyn (tkms (h_tree H)) L id v re Ht Hnd HvL Eid Hc) as (km & Hkm & E).
        rewrite (Hall (snd km) (in_map snd _ _ Hkm)) in E. discriminate.
Qed.

Lemma hrepr_remove H L id :
  hrepr H L -> NoDup (ids L) ->
  hrepr (fst (m_remove hops id H)) (without_id id L) /\ snd (m_remove hops id H) = find_id id L.
Proof.
  intros HH Hnd. pose proof HH as (Ha & Hs & Hi & Hid & Ht & Hl).
  cbn [m_remove host_ops]. rewrite h_remove_unfold.
  destruct (repr_remove SI _ _ id Ha (ids_filter_nodup cls_any L Hnd)) as [Ha' Hr].
  destruct (m_remove ipo id (h_any H)) as [a' o]. cbn [fst snd] in Ha', Hr.
  assert (Hany : repr SI a' (filter cls_any (without_id id L))).
  { unfold without_id in Ha' |- *. rewrite filter_comm. exact Ha'. }
  destruct o as [v|].
  - (* found among the rules bound to no host *)
    symmetry in Hr. apply LayerProofs.find_id_some in Hr. destruct Hr as [Hv Eid].
    apply filter_In in Hv. destruct Hv as [HvL Hca]. cbn [fst snd].
    split; [|symmetry; apply find_id_unique; assumption].
    assert (Hsame : forall x, In x L -> negb (str_eqb (rt_id x) id) = false -> x = v).
    { intros x Hx Ex. apply negb_false_iff in Ex. apply str_eqb_spec in Ex.
      apply (ids_inj L); [exact Hnd|exact Hx|exact HvL|congruence]. }
    unfold hrepr. cbn [h_any h_static h_tree h_count]. split; [exact Hany|]. split; [|split; [exact Hi|split; [exact Hid|split]]].
    + unfold without_id. apply kv_drop; [exact Hs|]. intros x k Hx Ex. rewrite (Hsame x Hx Ex). apply cls_any_st. exact Hca.
    + unfold without_id. apply kv_drop; [exact Ht|]. intros x k Hx Ex. rewrite (Hsame x Hx Ex). apply cls_any_dyn. exact Hca.
    + assert (Hlt : length (without_id id L) < length L).
      { unfold without_id. apply (filter_len_lt _ L v HvL). rewrite Eid, str_eqb_refl. reflexivity. }
      lia.
  - (* otherwise every sub-matcher of the static map and of the tree is asked *)
    pose proof (h_removed_spec id H L HH Hnd (eq_sym Hr)) as Ho. cbn [fst snd]. split; [|exact Ho].
    unfold hrepr. cbn [h_any h_static h_tree h_count]. split; [exact Hany|]. split; [|split; [|split; [|split]]].
    + rewrite hstatic_remove_fst. apply (kv_remove cls_st cls_st_fun); assumption.
    + apply (retain_inv_c ipm valid). exact Hi.
    + rewrite retain_entries_c. apply ids_ok_retain. exact Hid.
    + rewrite tkms_retain. apply (kv_remove cls_dyn cls_dyn_fun); assumption.
    + destruct (h_removed id H) as [v|].
      * symmetry in Ho. apply LayerProofs.find_id_some in Ho. destruct Ho as [HvL Eid].
        assert (Hlt : length (without_id id L) < length L).
        { unfold without_id. apply (filter_len_lt _ L v HvL). rewrite Eid, str_eqb_refl. reflexivity. }
        lia.
      * pose proof (filter_len_le (fun r => negb (str_eqb (rt_id r) id)) L) as Hle. unfold without_id. lia.
Qed.

(* ---------------------------------------------------------------- batch_remove *)
Lemma hrepr_batch H L xs : hrepr H L -> NoDup (ids L) -> hrepr (m_batch_remove hops xs H) (without_ids xs L).
Proof.
  intros (Ha & Hs & Hi & Hid & Ht & Hl) Hnd. cbn [m_batch_remove host_ops].
  change (h_batch_remove lower eng valid ic_path xs H)
    with {| h_static := kbmap (m_batch_remove ipo xs) (h_static H);
            h_tree := retain ipm (prune (m_batch_remove ipo xs)) (h_tree H);
            h_any := m_batch_remove ipo xs (h_any H); h_count := h_count H |}.
  unfold hrepr. cbn [h_any h_static h_tree h_count]. split; [|split; [|split; [|split; [|split]]]].
  - pose proof (repr_batch SI _ _ xs Ha (ids_filter_nodup cls_any L Hnd)) as H1.
    unfold without_ids in H1 |- *. rewrite filter_comm. exact H1.
  - apply (kv_batch cls_st cls_st_fun); assumption.
  - apply (retain_inv_c ipm valid). exact Hi.
  - rewrite retain_entries_c. apply ids_ok_retain. exact Hid.
  - rewrite tkms_retain. apply (kv_batch cls_dyn cls_dyn_fun); assumption.
  - pose proof (filter_len_le (fun r => negb (mem_str (rt_id r) xs)) L) as Hle. unfold without_ids. lia.
Qed.

(* ---------------------------------------------------------------- cache *)
Definition cache_g (level : nat) : ipm -> N -> ipm * N := fun m l => m_cache ipo l level m.

Lemma ent_rel_ids level es es' : Forall2 (ent_rel (cache_g level)) es es' -> ids_ok es -> ids_ok es'.
Proof.
  unfold ids_ok. induction 1 as [|e e' l l' (E1 & E2 & _) _ IH]; intros H; [constructor|].
  pose proof (Forall_inv H) as He. pose proof (Forall_inv_tail H) as Hl. cbn beta in He.
  constructor; [rewrite E1, E2; exact He|apply IH; exact Hl].
Qed.

Lemma ent_rel_same level es es' :
  Forall2 (ent_rel (cache_g level)) es es' -> Forall2 km_same (map proj es) (map proj es').
Proof.
  induction 1 as [|e e' l l' (E1 & _ & (a0 & E3)) _ IH]; cbn [map]; constructor; [|exact IH].
  unfold km_same, proj. cbn [fst snd]. split; [exact E1|]. intros X HX. rewrite E3. unfold cache_g.
  apply (repr_cache SI). exact HX.
Qed.

Lemma hrepr_cache H L limit level : hrepr H L -> hrepr (fst (m_cache hops limit level H)) L.
Proof.
  intros (Ha & Hs & Hi & Hid & Ht & Hl). cbn [m_cache host_ops]. unfold h_cache.
  pose proof (cache_same_c ipm valid (h_tree H) limit (Some level)) as Hsame.
  destruct (tree_cache ipm valid (h_tree H) limit (Some level)) as [t1 l1]. cbn [fst] in Hsame.
  pose proof (hstatic_cache_same (h_static H) l1 level) as Hst.
  destruct (hsc l1 level (h_static H)) as [st' l2]. cbn [fst] in Hst.
  pose proof (map_acc_entries (cache_g level) t1 l2) as Hma.
  pose proof (map_acc_same_keys ipm (cache_g level) t1 l2) as Hsk.
  change (map_acc ipm (fun m l => m_cache ipo l level m) t1 l2) with (map_acc ipm (cache_g level) t1 l2).
  destruct (map_acc ipm (cache_g level) t1 l2) as [t2 l3]. cbn [fst] in Hma, Hsk.
  pose proof (repr_cache SI _ _ l3 level Ha) as Hac.
  destruct (m_cache ipo l3 level (h_any H)) as [a' l4]. cbn [fst] in Hac |- *.
  pose proof (same_entries ipm _ _ Hsame) as He.
  unfold hrepr. cbn [h_any h_static h_tree h_count]. split; [exact Hac|]. split; [|split; [|split; [|split]]].
  - eapply kv_same; eassumption.
  - apply (same_keys_inv_c ipm valid ic_host t1 t2 Hsk). apply (same_inv_c ipm valid ic_host _ _ Hsame). exact Hi.
  - apply (ent_rel_ids level (entries ipm t1)); [exact Hma|]. rewrite <- He. exact Hid.
  - apply (kv_same cls_dyn (tkms t1)); [apply (ent_rel_same level); exact Hma|]. unfold tkms. rewrite <- He. exact Ht.
  - exact Hl.
Qed.

(* ---------------------------------------------------------------- (A) HostMatcher stores a flat list of routes *)
Definition host_mrep : mrep hops ok_host :=
  {| repr := hrepr; repr_perm := hrepr_perm; repr_len := hrepr_len; repr_new := hrepr_new;
     repr_insert := hrepr_insert; repr_remove := hrepr_remove; repr_batch := hrepr_batch;
     repr_cache := hrepr_cache |}.

Lemma h_len_repr H L : repr host_mrep H L -> length L <= h_count H.
Proof. apply hrepr_len. Qed.

(* ---------------------------------------------------------------- (B) matching is RouterSpec.match_scope *)
Definition host_match (re s : str) : bool := ML eng ic_host re s.
Notation pmatch := (path_match eng ic_path).
Notation mscope := (match_scope lower (eng false) host_match pmatch always_any_host).
Notation hmatch := (h_match lower eng valid ic_path always_any_host).
Notation htrace := (h_trace lower eng valid ic_path always_any_host).

Definition hs_pred (q : request) (r : route) : bool :=
  host_specific r && host_sat host_match r q && sat_rest lower (eng false) pmatch r q.
Definition any_pred (q : request) (r : route) : bool :=
  negb (host_specific r) && sat_rest lower (eng false) pmatch r q.

Lemma match_scope_unfold L q :
  mscope L q = if always_any_host || is_nil (filter (hs_pred q) L)
               then filter (hs_pred q) L ++ filter (any_pred q) L else filter (hs_pred q) L.
Proof. reflexivity. Qed.

Lemma any_pred_eq q r : any_pred q r = cls_any r && satb r q.
Proof. unfold any_pred, cls_any, satb. rewrite sat_below_rest. reflexivity. Qed.

Lemma hs_classes r q host : q_host q = Some host ->
  (host_specific r && host_sat host_match r q = true
   <-> cls_st host r = true \/ exists re, cls_dyn re r = true /\ ML eng ic_host re host = true).
Proof.
  intros Eq. unfold host_specific, host_sat, cls_st, cls_dyn. rewrite Eq. destruct (rt_host r) as [[s|re]|].
  - split; [intros H; left; exact H|]. intros [H|(re & H & _)]; [exact H|discriminate].
  - cbn [andb]. unfold host_match. split.
    + intros H. right. exists re. split; [apply str_eqb_refl|exact H].
    + intros [H|(re' & H & Hm)]; [discriminate|]. apply str_eqb_spec in H. subst re'. exact Hm.
  - cbn [andb]. split; [intros H; discriminate|]. intros [H|(re & H & _)]; discriminate.
Qed.

Lemma hs_none r q : q_host q = None -> host_sat host_match r q = false.
Proof. intros Eq. unfold host_sat. rewrite Eq. destruct (rt_host r) as [[s|re]|]; reflexivity. Qed.

(* what the sub-matchers of the tree whose pattern matches the host answer *)
Lemma dyn_part_in H L q fd host r : hrepr H L -> NoDup (ids L) -> fd_ok q fd ->
  ((exists m, In m (Tree.find ipm eng (h_tree H) host) /\ In r (fd m))
   <-> In r L /\ (exists re, cls_dyn re r = true /\ ML eng ic_host re host = true) /\ satb r q = true).
Proof.
  intros (Ha & Hs & Hi & Hid & Ht & Hl) Hnd Hfd. rewrite (tkms_find _ host Hi). split.
  - intros (m & Hm & Hin). apply in_map_iff in Hm. destruct Hm as (km & <- & Hkm).
    apply filter_In in Hkm. destruct Hkm as [Hkm Hml].
    destruct (proj1 (kv_fd_in cls_dyn _ L q fd r (fst km) Ht Hnd Hfd)) as (HrL & Hc & Hsat).
    { exists km. split; [exact Hkm|]. split; [reflexivity|exact Hin]. }
    split; [exact HrL|]. split; [|exact Hsat]. exists (fst km). split; assumption.
  - intros (HrL & (re & Hc & Hml) & Hsat).
    destruct (proj2 (kv_fd_in cls_dyn _ L q fd r re Ht Hnd Hfd)) as (km & Hkm & E & Hin); [tauto|].
    exists (snd km). split; [|exact Hin]. apply in_map. apply filter_In. split; [exact Hkm|]. cbn beta. subst re. exact Hml.
Qed.

(* what the sub-matcher of the static map keyed by the host answers *)
Lemma assoc_part_in (st : list (str * ipm)) (fd : ipm -> list route) (host : str) (r : route) : NoDup (map fst st) ->
  (In r (match assoc host st with Some m => fd m | None => [] end)
   <-> exists hm, In hm st /\ fst hm = host /\ In r (fd (snd hm))).
Proof.
  intros Hn. split.
  - destruct (assoc host st) as [m|] eqn:E; [|intros []]. intros Hin.
    apply (assoc_nodup_iff host m st Hn) in E. exists (host, m). auto.
  - intros ([h m] & Hin & E & Hr). cbn [fst snd] in E, Hr. subst h.
    apply (assoc_nodup_iff host m st Hn) in Hin. rewrite Hin. exact Hr.
Qed.

Definition specific_fd (fd : ipm -> list route) (q : request) (H : hostm) : list route :=
  match q_host q with
  | Some host => flat_map fd (Tree.find ipm eng (h_tree H) host)
                 ++ match assoc host (h_static H) with Some m => fd m | None => [] end
  | None => []
  end.

Lemma specific_in H L q fd r : hrepr H L -> NoDup (ids L) -> fd_ok q fd ->
  (In r (specific_fd fd q H) <-> In r L /\ hs_pred q r = true).
Proof.
  intros HH Hnd Hfd. pose proof HH as (Ha & Hs & Hi & Hid & Ht & Hl).
  unfold specific_fd, hs_pred. rewrite <- sat_below_rest. fold satb. destruct (q_host q) as [host|] eqn:Eq.
  - rewrite in_app_iff, in_flat_map, (assoc_part_in _ fd host r (proj1 (proj2 Hs))).
    rewrite (dyn_part_in H L q fd host r HH Hnd Hfd), (kv_fd_in cls_st _ L q fd r host Hs Hnd Hfd).
    rewrite andb_true_iff, (hs_classes r q host Eq). tauto.
  - rewrite (hs_none r q Eq), andb_false_r. cbn [andb]. split; [intros []|intros [_ H']; discriminate].
Qed.

Lemma specific_nodup H L q : hrepr H L -> NoDup (ids L) -> NoDup (specific_fd (m_match ipo q) q H).
Proof.
  intros HH Hnd. pose proof HH as (Ha & Hs & Hi & Hid & Ht & Hl).
  unfold specific_fd. destruct (q_host q) as [host|] eqn:Eq; [|constructor]. apply nodup_app.
  - rewrite (tkms_find _ host Hi), flat_map_map_snd. apply (kv_flat_nodup cls_dyn cls_dyn_fun q _ L).
    + apply Forall_forall. intros km Hkm. apply filter_In in Hkm. exact (proj1 (Forall_forall _ _) (proj1 Ht) km (proj1 Hkm)).
    + apply nodup_map_filter. apply Ht.
    + exact Hnd.
  - destruct (assoc host (h_static H)) as [m|] eqn:E; [|constructor].
    apply (assoc_nodup_iff host m _ (proj1 (proj2 Hs))) in E.
    pose proof (proj1 (Forall_forall _ _) (proj1 Hs) _ E) as Hm. cbn [fst snd] in Hm.
    apply (match_nodup SI m _ q Hm). apply ids_filter_nodup. exact Hnd.
  - intros x Hx1 Hx2. apply in_flat_map in Hx1.
    apply (dyn_part_in H L q _ host x HH Hnd (fd_ok_match q)) in Hx1. destruct Hx1 as (_ & (re & Hc & _) & _).
    apply (assoc_part_in _ _ host x (proj1 (proj2 Hs))) in Hx2.
    apply (kv_fd_in cls_st _ L q _ x host Hs Hnd (fd_ok_match q)) in Hx2. destruct Hx2 as (_ & Hc2 & _).
    rewrite (cls_st_dyn x host re Hc2) in Hc. discriminate.
Qed.

Lemma h_match_unfold q H :
  hmatch q H = if always_any_host || is_nil (specific_fd (m_match ipo q) q H)
               then specific_fd (m_match ipo q) q H ++ m_match ipo q (h_any H)
               else specific_fd (m_match ipo q) q H.
Proof. reflexivity. Qed.

Lemma specific_perm H L q : hrepr H L -> NoDup (ids L) ->
  Permutation (specific_fd (m_match ipo q) q H) (filter (hs_pred q) L).
Proof.
  intros HH Hnd. apply NoDup_Permutation.
  - apply (specific_nodup H L q HH Hnd).
  - apply NoDup_filter. apply NoDup_ids_NoDup. exact Hnd.
  - intros x. rewrite (specific_in H L q _ x HH Hnd (fd_ok_match q)), filter_In. reflexivity.
Qed.

Lemma any_perm H L q : hrepr H L -> NoDup (ids L) ->
  Permutation (m_match ipo q (h_any H)) (filter (any_pred q) L).
Proof.
  intros (Ha & _) Hnd.
  eapply Permutation_trans.
  - apply (match_perm ipo okb satb SI (h_any H) _ q Ha); [apply ids_filter_nodup; exact Hnd|].
    apply NoDup_filter. apply NoDup_ids_NoDup. exact Hnd.
  - rewrite filter_and. apply Permutation_refl'. apply filter_ext. intros r. symmetry. apply any_pred_eq.
Qed.

Theorem h_match_scope : forall H L q, repr host_mrep H L -> NoDup (ids L) ->
  Permutation (h_match lower eng valid ic_path always_any_host q H)
              (match_scope lower (eng false) host_match (path_match eng ic_path) always_any_host L q).
Proof.
  intros H L q HH Hnd. rewrite h_match_unfold, match_scope_unfold.
  pose proof (specific_perm H L q HH Hnd) as Hspec. pose proof (any_perm H L q HH Hnd) as Hany.
  rewrite (is_nil_in_iff (specific_fd (m_match ipo q) q H) (filter (hs_pred q) L)).
  - destruct (always_any_host || is_nil (filter (hs_pred q) L)); [apply Permutation_app; assumption|exact Hspec].
  - intros x. split; apply Permutation_in; [exact Hspec|apply Permutation_sym; exact Hspec].
Qed.

(* (D) cache warm-up changes no answer *)
Theorem h_cache_match H L q limit level : repr host_mrep H L -> NoDup (ids L) ->
  Permutation (hmatch q (fst (h_cache lower eng valid ic_path limit level H))) (hmatch q H).
Proof.
  intros HH Hnd. eapply Permutation_trans.
  - apply (h_match_scope _ L q); [apply (repr_cache host_mrep H L limit level HH)|exact Hnd].
  - apply Permutation_sym. apply h_match_scope; assumption.
Qed.

(* ---------------------------------------------------------------- (C) explain traces list match_scope *)
Notation htt := (host_tree_trace lower eng valid ic_path).
Definition fdt (q : request) (m : ipm) : list route := traces_routes (m_trace ipo q m).

Lemma host_tree_trace_in q (t : Tree.trace ipm) r :
  In r (trace_routes (htt q t)) <-> exists m, In m (tree_trace_values ipm t) /\ In r (fdt q m).
Proof.
  revert r. induction t as [re count matched children values IH] using trace_ind'. intros r.
  cbn [host_tree_trace trace_routes tree_trace_values app]. rewrite flat_map_app, in_app_iff.
  rewrite Forall_forall in IH. split.
  - intros [H1|H2].
    + apply in_flat_map in H1. destruct H1 as (tr & Htr & Hr). apply in_map_iff in Htr. destruct Htr as (c & <- & Hc).
      apply (IH c Hc) in Hr. destruct Hr as (m & Hm & Hr). exists m. split; [|exact Hr].
      apply in_or_app. right. apply in_flat_map. exists c. split; assumption.
    + destruct matched; [|destruct H2]. apply in_flat_map in H2. destruct H2 as (tr & Htr & Hr).
      apply in_flat_map in Htr. destruct Htr as (v & Hv & Htr). exists v. split; [apply in_or_app; left; exact Hv|].
      unfold fdt, traces_routes. apply in_flat_map. exists tr. split; assumption.
  - intros (m & Hm & Hr). apply in_app_or in Hm. destruct Hm as [Hm|Hm].
    + destruct matched; [|destruct Hm]. right. unfold fdt, traces_routes in Hr. apply in_flat_map in Hr.
      destruct Hr as (tr & Htr & Hr). apply in_flat_map. exists tr. split; [|exact Hr].
      apply in_flat_map. exists m. split; assumption.
    + apply in_flat_map in Hm. destruct Hm as (c & Hc & Hm). left. apply in_flat_map. exists (htt q c).
      split; [apply in_map; exact Hc|]. apply (IH c Hc). exists m. split; assumption.
Qed.

Definition tr_statics (q : request) (H : hostm) : list Layer.trace :=
  map (fun hm => match q_host q with
                 | Some host => if str_eqb (fst hm) host
                                then Trc true true (m_len ipo (snd hm)) [] (m_trace ipo q (snd hm))
                                else Trc false false (m_len ipo (snd hm)) [] []
                 | None => Trc false false (m_len ipo (snd hm)) [] []
                 end) (h_static H).
Definition tr_regex (q : request) (H : hostm) : list Layer.trace :=
  match q_host q with
  | Some host =>
      let tt := htt q (Tree.trace_of ipm eng (h_tree H) host) in
      Trc (match tt with Trc m _ _ _ _ => m end) true (match tt with Trc _ _ c _ _ => c end) [] [tt]
      :: (match assoc host (h_static H) with Some _ => [] | None => [Trc true false 0 [] []] end)
  | None => []
  end.
Definition tr_specific (q : request) (H : hostm) : list Layer.trace := tr_statics q H ++ tr_regex q H.

Lemma h_trace_unfold q H :
  htrace q H = if always_any_host || is_nil (traces_routes (tr_specific q H))
               then tr_specific q H ++ m_trace ipo q (h_any H) else tr_specific q H.
Proof. reflexivity. Qed.

Lemma tr_statics_in q H r :
  In r (traces_routes (tr_statics q H))
  <-> exists host, q_host q = Some host /\ exists hm, In hm (h_static H) /\ fst hm = host /\ In r (fdt q (snd hm)).
Proof.
  unfold tr_statics, traces_routes. rewrite in_flat_map. split.
  - intros (tr & Htr & Hr). apply in_map_iff in Htr. destruct Htr as (hm & <- & Hhm).
    destruct (q_host q) as [host|]; [|destruct Hr].
    destruct (str_eqb (fst hm) host) eqn:E; [|destruct Hr]. apply str_eqb_spec in E.
    cbn [trace_routes app] in Hr. exists host. split; [reflexivity|]. exists hm. auto.
  - intros (host & Eq & hm & Hhm & E & Hr). rewrite Eq.
    exists (Trc true true (m_len ipo (snd hm)) [] (m_trace ipo q (snd hm))). split; [|exact Hr].
    apply in_map_iff. exists hm. split; [|exact Hhm]. rewrite E, str_eqb_refl. reflexivity.
Qed.

Lemma tr_regex_in q H r :
  In r (traces_routes (tr_regex q H))
  <-> exists host, q_host q = Some host /\ exists m, In m (Tree.find ipm eng (h_tree H) host) /\ In r (fdt q m).
Proof.
  unfold tr_regex. destruct (q_host q) as [host|].
  - cbv zeta. unfold traces_routes. cbn [flat_map trace_routes app]. rewrite app_nil_r, in_app_iff.
    rewrite (host_tree_trace_in q _ r), (trace_values_find ipm eng). split.
    + intros [Hm|Hx]; [exists host; split; [reflexivity|exact Hm]|].
      destruct (assoc host (h_static H)); cbn in Hx; destruct Hx.
    + intros (host' & E & Hm). inversion E; subst host'. left. exact Hm.
  - cbn. split; [intros []|intros (host & E & _); discriminate].
Qed.

Lemma tr_specific_in H L q r : hrepr H L -> NoDup (ids L) ->
  (In r (traces_routes (tr_specific q H)) <-> In r (filter (hs_pred q) L)).
Proof.
  intros HH Hnd. pose proof HH as (Ha & Hs & Hi & Hid & Ht & Hl).
  rewrite filter_In, <- (specific_in H L q (fdt q) r HH Hnd (fd_ok_trace q)).
  unfold tr_specific, traces_routes. rewrite flat_map_app, in_app_iff. fold (traces_routes (tr_statics q H)).
  fold (traces_routes (tr_regex q H)). rewrite tr_statics_in, tr_regex_in. unfold specific_fd.
  destruct (q_host q) as [host|].
  - rewrite in_app_iff, in_flat_map, (assoc_part_in _ (fdt q) host r (proj1 (proj2 Hs))). split.
    + intros [(h' & E & Hx)|(h' & E & Hx)]; inversion E; subst h'; [right|left]; exact Hx.
    + intros [Hx|Hx]; [right|left]; exists host; (split; [reflexivity|exact Hx]).
  - split; [intros [(h' & E & _)|(h' & E & _)]; discriminate|intros []].
Qed.

Theorem h_trace_scope : forall H L q, repr host_mrep H L -> NoDup (ids L) ->
  forall r, In r (traces_routes (h_trace lower eng valid ic_path always_any_host q H))
            <-> In r (match_scope lower (eng false) host_match (path_match eng ic_path) always_any_host L q).
Proof.
  intros H L q HH Hnd r. rewrite h_trace_unfold, match_scope_unfold.
  assert (Hany : forall x, In x (traces_routes (m_trace ipo q (h_any H))) <-> In x (filter (any_pred q) L)).
  { intros x. destruct HH as (Ha & _).
    rewrite (trace_in SI _ _ q x Ha (ids_filter_nodup cls_any L Hnd)), !filter_In, any_pred_eq, andb_true_iff. tauto. }
  rewrite (is_nil_in_iff _ _ (fun x => tr_specific_in H L q x HH Hnd)).
  destruct (always_any_host || is_nil (filter (hs_pred q) L)).
  - unfold traces_routes. rewrite flat_map_app, !in_app_iff. fold (traces_routes (tr_specific q H)).
    fold (traces_routes (m_trace ipo q (h_any H))). rewrite (tr_specific_in H L q r HH Hnd), Hany. reflexivity.
  - apply (tr_specific_in H L q r HH Hnd).
Qed.
End RxHostProofs.
