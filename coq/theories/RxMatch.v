(* RxMatch.v — a capture-free relational semantics [reach] for the backtracking matcher [Rx.m] and the
   two directions that tie them:
     m_sound    : if [m r pos rest cs k] succeeds then r reaches some configuration where k succeeds;
     m_complete : if r reaches c' and k succeeds at c' (whatever the captures) then [m r ... k] succeeds.
   The nested fixpoints of [m] (star with the progress check, counted repetition) are named
   ([star_fix], [may_fix], [must_fix]) and treated once, for an abstract body matcher. *)
Require Import RIO.Base RIO.Rx.
Close Scope N_scope.
Open Scope nat_scope.

Definition conf := (nat * list N)%type.

Section Closures.
Variable R : conf -> conf -> Prop.
Inductive star_cl : conf -> conf -> Prop :=
| star_refl c : star_cl c c
| star_step c c1 c2 : R c c1 -> fst c < fst c1 -> star_cl c1 c2 -> star_cl c c2.
Fixpoint iter_n (n : nat) (c c' : conf) {struct n} : Prop :=
  match n with O => c' = c | S n' => exists c1, R c c1 /\ iter_n n' c1 c' end.
Fixpoint upto_n (n : nat) (c c' : conf) {struct n} : Prop :=
  match n with O => c' = c | S n' => c' = c \/ exists c1, R c c1 /\ upto_n n' c1 c' end.
End Closures.

Fixpoint reach (ic : bool) (r : rx) (c c' : conf) {struct r} : Prop :=
  match r with
  | REmpty => c' = c
  | RChar x => exists y rest', snd c = y :: rest' /\ char_eq ic x y = true /\ c' = (S (fst c), rest')
  | RAny => exists y rest', snd c = y :: rest' /\ N.eqb y 10 = false /\ c' = (S (fst c), rest')
  | RClass neg items => exists y rest', snd c = y :: rest' /\ class_has ic neg items y = true /\ c' = (S (fst c), rest')
  | RCat a b => exists c1, reach ic a c c1 /\ reach ic b c1 c'
  | RAlt a b => reach ic a c c' \/ reach ic b c c'
  | RStar _ a => star_cl (reach ic a) c c'
  | RPlus _ a => exists c1, reach ic a c c1 /\ star_cl (reach ic a) c1 c'
  | ROpt _ a => c' = c \/ reach ic a c c'
  | RRep _ lo hi a =>
      exists c1, iter_n (reach ic a) lo c c1 /\
                 match hi with
                 | None => star_cl (reach ic a) c1 c'
                 | Some h => upto_n (reach ic a) (h - lo) c1 c'
                 end
  | RGroup _ a => reach ic a c c'
  | RBol => fst c = 0 /\ c' = c
  | REol => snd c = [] /\ c' = c
  end.

(* positions and remaining input move together *)
Definition wf (c c' : conf) : Prop := fst c' + length (snd c') = fst c + length (snd c) /\ fst c <= fst c'.

Lemma wf_refl c : wf c c. Proof. split; lia. Qed.
Lemma wf_trans a b c : wf a b -> wf b c -> wf a c.
Proof. intros [H1 H2] [H3 H4]. split; lia. Qed.

Lemma star_cl_wf (R : conf -> conf -> Prop) : (forall c c', R c c' -> wf c c') -> forall c c', star_cl R c c' -> wf c c'.
Proof. intros HR c c' H. induction H as [c|c c1 c2 H1 Hlt H2 IH]; [apply wf_refl|].
  eapply wf_trans; [apply HR; exact H1|exact IH]. Qed.
Lemma iter_n_wf (R : conf -> conf -> Prop) : (forall c c', R c c' -> wf c c') -> forall n c c', iter_n R n c c' -> wf c c'.
Proof. intros HR n. induction n as [|n IH]; intros c c' H; cbn [iter_n] in H.
  - subst. apply wf_refl.
  - destruct H as (c1 & H1 & H2). eapply wf_trans; [apply HR; exact H1|apply IH; exact H2]. Qed.
Lemma upto_n_wf (R : conf -> conf -> Prop) : (forall c c', R c c' -> wf c c') -> forall n c c', upto_n R n c c' -> wf c c'.
Proof. intros HR n. induction n as [|n IH]; intros c c' H; cbn [upto_n] in H.
  - subst. apply wf_refl.
  - destruct H as [->|(c1 & H1 & H2)]; [apply wf_refl|]. eapply wf_trans; [apply HR; exact H1|apply IH; exact H2]. Qed.

Lemma wf_step (c : conf) y rest' : snd c = y :: rest' -> wf c (S (fst c), rest').
Proof. intros H. unfold wf. cbn [fst snd]. rewrite H. cbn [length]. lia. Qed.

Lemma reach_wf ic r : forall c c', reach ic r c c' -> wf c c'.
Proof.
  induction r as [|x| |neg items|a IHa b IHb|a IHa b IHb|g a IHa|g a IHa|g a IHa|g lo hi a IHa|idx a IHa| |];
    intros c c' H; cbn [reach] in H.
  - subst. apply wf_refl.
  - destruct H as (y & rest' & H1 & _ & ->). apply wf_step with y. exact H1.
  - destruct H as (y & rest' & H1 & _ & ->). apply wf_step with y. exact H1.
  - destruct H as (y & rest' & H1 & _ & ->). apply wf_step with y. exact H1.
  - destruct H as (c1 & H1 & H2). eapply wf_trans; [apply IHa; exact H1|apply IHb; exact H2].
  - destruct H as [H|H]; [apply IHa|apply IHb]; exact H.
  - eapply star_cl_wf; [exact IHa|exact H].
  - destruct H as (c1 & H1 & H2). eapply wf_trans; [apply IHa; exact H1|eapply star_cl_wf; [exact IHa|exact H2]].
  - destruct H as [->|H]; [apply wf_refl|apply IHa; exact H].
  - destruct H as (c1 & H1 & H2). eapply wf_trans; [eapply iter_n_wf; [exact IHa|exact H1]|].
    destruct hi as [h|]; [eapply upto_n_wf; [exact IHa|exact H2]|eapply star_cl_wf; [exact IHa|exact H2]].
  - apply IHa. exact H.
  - destruct H as [_ ->]. apply wf_refl.
  - destruct H as [_ ->]. apply wf_refl.
Qed.

(* ------------------------------------------------------------------ the nested fixpoints of [m], named *)
Section Fix.
Variable A : Type.
Variable ma : nat -> list N -> caps -> cont A -> option A.
Variable g : bool.
Variable k : cont A.

Fixpoint star_fix (fuel : nat) (pos : nat) (rest : list N) (cs : caps) {struct fuel} : option A :=
  match fuel with
  | O => k pos rest cs
  | S f =>
      let more := ma pos rest cs (fun p r' c' => if Nat.ltb pos p then star_fix f p r' c' else None) in
      if g then orelse A more (k pos rest cs) else orelse A (k pos rest cs) more
  end.

Fixpoint may_fix (j : nat) (pos : nat) (rest : list N) (cs : caps) {struct j} : option A :=
  match j with
  | O => k pos rest cs
  | S j' =>
      let more := ma pos rest cs (fun p r' c' => may_fix j' p r' c') in
      if g then orelse A more (k pos rest cs) else orelse A (k pos rest cs) more
  end.

Variable tail : nat -> list N -> caps -> option A.
Fixpoint must_fix (n : nat) (pos : nat) (rest : list N) (cs : caps) {struct n} : option A :=
  match n with
  | S n' => ma pos rest cs (fun p r' c' => must_fix n' p r' c')
  | O => tail pos rest cs
  end.
End Fix.

Lemma m_star A ic g a pos rest cs k :
  m A ic (RStar g a) pos rest cs k = star_fix A (m A ic a) g k (S (length rest)) pos rest cs.
Proof. reflexivity. Qed.
Lemma m_plus A ic g a pos rest cs k :
  m A ic (RPlus g a) pos rest cs k =
  m A ic a pos rest cs (fun p0 r0 c0 => star_fix A (m A ic a) g k (S (length r0)) p0 r0 c0).
Proof. reflexivity. Qed.
Lemma m_rep A ic g lo hi a pos rest cs k :
  m A ic (RRep g lo hi a) pos rest cs k =
  must_fix A (m A ic a)
    (fun pos rest cs => match hi with
                        | None => star_fix A (m A ic a) g k (S (length rest)) pos rest cs
                        | Some h => may_fix A (m A ic a) g k (h - lo) pos rest cs
                        end) lo pos rest cs.
Proof. reflexivity. Qed.

(* ------------------------------------------------------------------ abstract body matcher *)
Section Abs.
Variable A : Type.
Definition ksucc (k : cont A) (c : conf) : Prop := forall cs, k (fst c) (snd c) cs <> None.
Definition ma_sound (R : conf -> conf -> Prop) (ma : nat -> list N -> caps -> cont A -> option A) : Prop :=
  forall pos rest cs k, ma pos rest cs k <> None ->
    exists c' cs', R (pos, rest) c' /\ k (fst c') (snd c') cs' <> None.
Definition ma_complete (R : conf -> conf -> Prop) (ma : nat -> list N -> caps -> cont A -> option A) : Prop :=
  forall c c' cs k, R c c' -> ksucc k c' -> ma (fst c) (snd c) cs k <> None.

Lemma orelse_some (x y : option A) : orelse A x y <> None -> x <> None \/ y <> None.
Proof. destruct x as [v|]; cbn [orelse]; intros H; [left; discriminate|right; exact H]. Qed.
Lemma orelse_l (x y : option A) : x <> None -> orelse A x y <> None.
Proof. destruct x as [v|]; cbn [orelse]; intros H; [discriminate|contradiction]. Qed.
Lemma orelse_r (x y : option A) : y <> None -> orelse A x y <> None.
Proof. destruct x as [v|]; cbn [orelse]; intros H; [discriminate|exact H]. Qed.
Lemma gorelse_some (g : bool) (x y : option A) :
  (if g then orelse A x y else orelse A y x) <> None -> x <> None \/ y <> None.
Proof. destruct g; intros H; apply orelse_some in H; tauto. Qed.
Lemma gorelse_l (g : bool) (x y : option A) : x <> None -> (if g then orelse A x y else orelse A y x) <> None.
Proof. destruct g; intros H; [apply orelse_l|apply orelse_r]; exact H. Qed.
Lemma gorelse_r (g : bool) (x y : option A) : y <> None -> (if g then orelse A x y else orelse A y x) <> None.
Proof. destruct g; intros H; [apply orelse_r|apply orelse_l]; exact H. Qed.

Variable R : conf -> conf -> Prop.
Variable ma : nat -> list N -> caps -> cont A -> option A.

Lemma star_fix_sound g k : ma_sound R ma -> forall fuel pos rest cs,
  star_fix A ma g k fuel pos rest cs <> None ->
  exists c' cs', star_cl R (pos, rest) c' /\ k (fst c') (snd c') cs' <> None.
Proof.
  intros Hs fuel. induction fuel as [|f IH]; intros pos rest cs H; cbn [star_fix] in H.
  - exists (pos, rest), cs. split; [apply star_refl|exact H].
  - apply gorelse_some in H. destruct H as [H|H].
    + apply Hs in H. destruct H as (c1 & cs1 & H1 & H2).
      destruct (Nat.ltb pos (fst c1)) eqn:El; [|contradiction]. apply Nat.ltb_lt in El.
      apply IH in H2. destruct H2 as (c' & cs' & H3 & H4). exists c', cs'. split; [|exact H4].
      apply star_step with c1; [exact H1|exact El|]. destruct c1; exact H3.
    + exists (pos, rest), cs. split; [apply star_refl|exact H].
Qed.

Lemma star_fix_complete g k : ma_complete R ma -> (forall c c', R c c' -> wf c c') ->
  forall c c', star_cl R c c' -> ksucc k c' ->
  forall fuel cs, length (snd c) < fuel -> star_fix A ma g k fuel (fst c) (snd c) cs <> None.
Proof.
  intros Hc Hwf c c' H. induction H as [c|c c1 c2 H1 Hlt H2 IH]; intros Hk fuel cs Hf.
  - destruct fuel as [|f]; cbn [star_fix]; [apply Hk|]. apply gorelse_r. apply Hk.
  - destruct fuel as [|f]; [lia|]. cbn [star_fix]. apply gorelse_l.
    apply (Hc c c1); [exact H1|]. intros cs1. apply Nat.ltb_lt in Hlt. rewrite Hlt.
    apply IH; [exact Hk|]. apply Nat.ltb_lt in Hlt. destruct (Hwf c c1 H1) as [Hw _]. lia.
Qed.

Lemma may_fix_sound g k : ma_sound R ma -> forall j pos rest cs,
  may_fix A ma g k j pos rest cs <> None ->
  exists c' cs', upto_n R j (pos, rest) c' /\ k (fst c') (snd c') cs' <> None.
Proof.
  intros Hs j. induction j as [|j IH]; intros pos rest cs H; cbn [may_fix] in H.
  - exists (pos, rest), cs. split; [reflexivity|exact H].
  - apply gorelse_some in H. destruct H as [H|H].
    + apply Hs in H. destruct H as (c1 & cs1 & H1 & H2). apply IH in H2. destruct H2 as (c' & cs' & H3 & H4).
      exists c', cs'. split; [|exact H4]. cbn [upto_n]. right. exists c1. split; [exact H1|]. destruct c1; exact H3.
    + exists (pos, rest), cs. split; [cbn [upto_n]; left; reflexivity|exact H].
Qed.

Lemma may_fix_complete g k : ma_complete R ma -> forall j c c', upto_n R j c c' -> ksucc k c' ->
  forall cs, may_fix A ma g k j (fst c) (snd c) cs <> None.
Proof.
  intros Hc j. induction j as [|j IH]; intros c c' H Hk cs; cbn [upto_n] in H; cbn [may_fix].
  - subst c'. apply Hk.
  - destruct H as [->|(c1 & H1 & H2)]; [apply gorelse_r; apply Hk|]. apply gorelse_l.
    apply (Hc c c1); [exact H1|]. intros cs1. apply (IH c1 c'); assumption.
Qed.

Lemma must_fix_sound tail (T : conf -> conf -> Prop) (kk : cont A) : ma_sound R ma ->
  (forall pos rest cs, tail pos rest cs <> None -> exists c' cs', T (pos, rest) c' /\ kk (fst c') (snd c') cs' <> None) ->
  forall n pos rest cs, must_fix A ma tail n pos rest cs <> None ->
  exists c1 c' cs', iter_n R n (pos, rest) c1 /\ T c1 c' /\ kk (fst c') (snd c') cs' <> None.
Proof.
  intros Hs Ht n. induction n as [|n IH]; intros pos rest cs H; cbn [must_fix] in H.
  - apply Ht in H. destruct H as (c' & cs' & H1 & H2). exists (pos, rest), c', cs'. split; [reflexivity|]. split; assumption.
  - apply Hs in H. destruct H as (c0 & cs0 & H1 & H2). apply IH in H2. destruct H2 as (c1 & c' & cs' & H3 & H4 & H5).
    exists c1, c', cs'. split; [|split; assumption]. cbn [iter_n]. exists c0. split; [exact H1|]. destruct c0; exact H3.
Qed.

Lemma must_fix_complete tail : ma_complete R ma ->
  forall n c c1, iter_n R n c c1 -> (forall cs, tail (fst c1) (snd c1) cs <> None) ->
  forall cs, must_fix A ma tail n (fst c) (snd c) cs <> None.
Proof.
  intros Hc n. induction n as [|n IH]; intros c c1 H Ht cs; cbn [iter_n] in H; cbn [must_fix].
  - subst c1. apply Ht.
  - destruct H as (c0 & H1 & H2). apply (Hc c c0); [exact H1|]. intros cs0. apply (IH c0 c1); assumption.
Qed.
End Abs.

(* ------------------------------------------------------------------ soundness *)
Lemma m_sound A ic r : ma_sound A (reach ic r) (m A ic r).
Proof.
  induction r as [|x| |neg items|a IHa b IHb|a IHa b IHb|g a IHa|g a IHa|g a IHa|g lo hi a IHa|idx a IHa| |];
    intros pos rest cs k H.
  - cbn [m] in H. exists (pos, rest), cs. split; [reflexivity|exact H].
  - cbn [m] in H. destruct rest as [|y rest']; [contradiction|]. destruct (char_eq ic x y) eqn:E; [|contradiction].
    exists (S pos, rest'), cs. split; [|exact H]. cbn [reach]. exists y, rest'. auto.
  - cbn [m] in H. destruct rest as [|y rest']; [contradiction|]. destruct (N.eqb y 10) eqn:E; [contradiction|].
    exists (S pos, rest'), cs. split; [|exact H]. cbn [reach]. exists y, rest'. auto.
  - cbn [m] in H. destruct rest as [|y rest']; [contradiction|]. destruct (class_has ic neg items y) eqn:E; [|contradiction].
    exists (S pos, rest'), cs. split; [|exact H]. cbn [reach]. exists y, rest'. auto.
  - cbn [m] in H. apply IHa in H. destruct H as (c1 & cs1 & H1 & H2). apply IHb in H2. destruct H2 as (c' & cs' & H3 & H4).
    exists c', cs'. split; [|exact H4]. cbn [reach]. exists c1. split; [exact H1|]. destruct c1; exact H3.
  - cbn [m] in H. apply orelse_some in H. destruct H as [H|H].
    + apply IHa in H. destruct H as (c' & cs' & H1 & H2). exists c', cs'. split; [left; exact H1|exact H2].
    + apply IHb in H. destruct H as (c' & cs' & H1 & H2). exists c', cs'. split; [right; exact H1|exact H2].
  - rewrite m_star in H. apply (star_fix_sound A (reach ic a) _ g k IHa) in H. exact H.
  - rewrite m_plus in H. apply IHa in H. destruct H as (c1 & cs1 & H1 & H2).
    apply (star_fix_sound A (reach ic a) _ g k IHa) in H2. destruct H2 as (c' & cs' & H3 & H4).
    exists c', cs'. split; [|exact H4]. cbn [reach]. exists c1. split; [exact H1|]. destruct c1; exact H3.
  - cbn [m] in H. assert (H' : m A ic a pos rest cs k <> None \/ k pos rest cs <> None).
    { destruct g; apply orelse_some in H; tauto. }
    destruct H' as [H'|H'].
    + apply IHa in H'. destruct H' as (c' & cs' & H1 & H2). exists c', cs'. split; [right; exact H1|exact H2].
    + exists (pos, rest), cs. split; [left; reflexivity|exact H'].
  - rewrite m_rep in H.
    apply (must_fix_sound A (reach ic a) _ _
             (fun c1 c' => match hi with None => star_cl (reach ic a) c1 c' | Some h => upto_n (reach ic a) (h - lo) c1 c' end)
             k IHa) in H.
    + destruct H as (c1 & c' & cs' & H1 & H2 & H3). exists c', cs'. split; [|exact H3]. cbn [reach]. exists c1. split; assumption.
    + intros p0 r0 c0 H0. destruct hi as [h|].
      * apply (may_fix_sound A (reach ic a) _ g k IHa) in H0. exact H0.
      * apply (star_fix_sound A (reach ic a) _ g k IHa) in H0. exact H0.
  - cbn [m] in H. destruct idx as [i|].
    + apply IHa in H. destruct H as (c' & cs' & H1 & H2). exists c', ((i, (pos, fst c')) :: cs'). split; [exact H1|exact H2].
    + apply IHa in H. exact H.
  - cbn [m] in H. destruct (Nat.eqb pos 0) eqn:E; [|contradiction]. apply Nat.eqb_eq in E.
    exists (pos, rest), cs. split; [split; [exact E|reflexivity]|exact H].
  - cbn [m] in H. destruct rest as [|y rest']; [|contradiction].
    exists (pos, []), cs. split; [split; reflexivity|exact H].
Qed.

(* ------------------------------------------------------------------ completeness *)
Lemma m_complete A ic r : ma_complete A (reach ic r) (m A ic r).
Proof.
  induction r as [|x| |neg items|a IHa b IHb|a IHa b IHb|g a IHa|g a IHa|g a IHa|g lo hi a IHa|idx a IHa| |];
    intros [pos rest] c' cs k H Hk; cbn [fst snd] in *.
  - cbn [reach] in H. subst c'. cbn [m]. apply Hk.
  - cbn [reach] in H. destruct H as (y & rest' & H1 & H2 & ->). cbn [snd fst] in *. subst rest. cbn [m]. rewrite H2. apply Hk.
  - cbn [reach] in H. destruct H as (y & rest' & H1 & H2 & ->). cbn [snd fst] in *. subst rest. cbn [m]. rewrite H2. apply Hk.
  - cbn [reach] in H. destruct H as (y & rest' & H1 & H2 & ->). cbn [snd fst] in *. subst rest. cbn [m]. rewrite H2. apply Hk.
  - cbn [reach] in H. destruct H as (c1 & H1 & H2). cbn [m].
    apply (IHa (pos, rest) c1); [exact H1|]. intros cs1. apply (IHb c1 c'); assumption.
  - cbn [reach] in H. cbn [m]. destruct H as [H|H].
    + apply orelse_l. apply (IHa (pos, rest) c'); assumption.
    + apply orelse_r. apply (IHb (pos, rest) c'); assumption.
  - cbn [reach] in H. rewrite m_star.
    apply (star_fix_complete A (reach ic a) _ g k IHa (reach_wf ic a) (pos, rest) c' H Hk). cbn [snd]. lia.
  - cbn [reach] in H. destruct H as (c1 & H1 & H2). rewrite m_plus.
    apply (IHa (pos, rest) c1); [exact H1|]. intros cs1.
    apply (star_fix_complete A (reach ic a) _ g k IHa (reach_wf ic a) c1 c' H2 Hk). lia.
  - cbn [reach] in H. cbn [m]. destruct H as [->|H].
    + cbn [fst snd]. destruct g; [apply orelse_r|apply orelse_l]; apply Hk.
    + destruct g; [apply orelse_l|apply orelse_r]; apply (IHa (pos, rest) c'); assumption.
  - cbn [reach] in H. destruct H as (c1 & H1 & H2). rewrite m_rep.
    apply (must_fix_complete A (reach ic a) _ _ IHa lo (pos, rest) c1 H1). intros cs1. destruct hi as [h|].
    + apply (may_fix_complete A (reach ic a) _ g k IHa _ c1 c' H2 Hk).
    + apply (star_fix_complete A (reach ic a) _ g k IHa (reach_wf ic a) c1 c' H2 Hk). lia.
  - cbn [reach] in H. cbn [m]. destruct idx as [i|].
    + apply (IHa (pos, rest) c'); [exact H|]. intros cs1. apply Hk.
    + apply (IHa (pos, rest) c'); assumption.
  - cbn [reach] in H. destruct H as [H ->]. cbn [fst] in H. subst pos. cbn [m Nat.eqb]. apply Hk.
  - cbn [reach] in H. destruct H as [H ->]. cbn [snd] in H. subst rest. cbn [m]. apply Hk.
Qed.

(* ------------------------------------------------------------------ the unanchored search *)
Definition kT : cont unit := fun _ _ _ => Some tt.
Definition matches_at (ic : bool) (r : rx) (pos : nat) (rest : list N) : bool :=
  match m unit ic r pos rest [] kT with Some _ => true | None => false end.

Lemma matches_at_iff ic r pos rest : matches_at ic r pos rest = true <-> exists c', reach ic r (pos, rest) c'.
Proof.
  unfold matches_at. split.
  - intros H. destruct (m unit ic r pos rest [] kT) eqn:E; [|discriminate].
    assert (H' : m unit ic r pos rest [] kT <> None) by (rewrite E; discriminate).
    apply m_sound in H'. destruct H' as (c' & _ & H1 & _). exists c'. exact H1.
  - intros (c' & H). assert (H' : m unit ic r pos rest [] kT <> None).
    { apply (m_complete unit ic r (pos, rest) c'); [exact H|]. intros cs. discriminate. }
    destruct (m unit ic r pos rest [] kT); [reflexivity|contradiction].
Qed.

Lemma suffixes_from_pos s : forall n p r, In (p, r) (suffixes_from n s) -> n <= p /\ (p = n -> r = s).
Proof.
  induction s as [|x s IH]; intros n p r H; cbn [suffixes_from In] in H.
  - destruct H as [H|[]]. inversion H; subst. split; [lia|reflexivity].
  - destruct H as [H|H]; [inversion H; subst; split; [lia|reflexivity]|].
    apply IH in H. destruct H as [H1 H2]. split; [lia|]. intros ->. lia.
Qed.

Lemma suffixes_from_head n s : In (n, s) (suffixes_from n s).
Proof. destruct s; cbn [suffixes_from In]; left; reflexivity. Qed.

Lemma rx_is_match_unfold ic regex s :
  rx_is_match ic regex s = match parse regex with
                           | None => false
                           | Some r => existsb (fun ps => matches_at ic r (fst ps) (snd ps)) (suffixes_from 0 s)
                           end.
Proof. reflexivity. Qed.
