(* LayerProofs.v — the generic bucket layer of RIO.Layer implements a flat list of routes (RIO.MatcherSpec.mspec)
   whenever its sub-matcher does.  A layer stores L when its default sub-matcher stores the routes of L without
   keys, the bucket of key k stores the routes of L having a key equivalent to k, bucket keys are pairwise
   inequivalent, every key of every stored route has a bucket, and the count does not undercount. *)
Require Import RIO.Base RIO.Route RIO.Layer RIO.MatcherSpec.

(* ------------------------------------------------------------------ lists *)
Lemma filter_perm {A} (f : A -> bool) l l' : Permutation l l' -> Permutation (filter f l) (filter f l').
Proof.
  induction 1 as [|x l l' Hp IH|x y l|l l' l'' H1 IH1 H2 IH2]; cbn [filter].
  - constructor.
  - destruct (f x); [constructor|]; exact IH.
  - destruct (f x), (f y); first [apply perm_swap | apply Permutation_refl].
  - eapply Permutation_trans; eassumption.
Qed.

Lemma filter_comm {A} (f g : A -> bool) l : filter f (filter g l) = filter g (filter f l).
Proof.
  induction l as [|x l IH]; cbn [filter]; [reflexivity|].
  destruct (f x) eqn:Ef, (g x) eqn:Eg; cbn [filter]; rewrite ?Ef, ?Eg, IH; reflexivity.
Qed.

Lemma filter_nil {A} (f : A -> bool) l : (forall x, In x l -> f x = false) -> filter f l = [].
Proof.
  induction l as [|x l IH]; intros H; cbn [filter]; [reflexivity|].
  rewrite (H x (or_introl eq_refl)). apply IH. intros y Hy. apply H. right. exact Hy.
Qed.

Lemma filter_same {A} (f g : A -> bool) l :
  (forall x, In x l -> g x = false -> f x = false) -> filter f (filter g l) = filter f l.
Proof.
  induction l as [|x l IH]; intros H; cbn [filter]; [reflexivity|].
  assert (IH' : filter f (filter g l) = filter f l) by (apply IH; intros y Hy; apply H; right; exact Hy).
  destruct (g x) eqn:Eg; cbn [filter].
  - rewrite IH'. reflexivity.
  - rewrite (H x (or_introl eq_refl) Eg). exact IH'.
Qed.

Lemma filter_len_le {A} (f : A -> bool) l : length (filter f l) <= length l.
Proof. induction l as [|x l IH]; cbn [filter length]; [lia|]. destruct (f x); cbn [length]; lia. Qed.

Lemma filter_len_lt {A} (f : A -> bool) l v : In v l -> f v = false -> length (filter f l) < length l.
Proof.
  induction l as [|x l IH]; intros Hin Hf; [destruct Hin|]. cbn [filter length].
  destruct Hin as [->|Hin].
  - rewrite Hf. pose proof (filter_len_le f l). lia.
  - specialize (IH Hin Hf). destruct (f x); cbn [length]; lia.
Qed.

Lemma in_len_pos {A} (x : A) l : In x l -> 1 <= length l.
Proof. destruct l; cbn [length]; [intros []|lia]. Qed.

Lemma nodup_app {A} (l1 l2 : list A) :
  NoDup l1 -> NoDup l2 -> (forall x, In x l1 -> In x l2 -> False) -> NoDup (l1 ++ l2).
Proof.
  induction l1 as [|a l1 IH]; cbn [app]; intros H1 H2 Hd; [exact H2|].
  inversion H1 as [|a' l' Ha Hl]; subst. constructor.
  - intros Hin. apply in_app_or in Hin. destruct Hin as [Hin|Hin]; [contradiction|].
    apply (Hd a); [left; reflexivity|exact Hin].
  - apply IH; [exact Hl|exact H2|]. intros x Hx. apply Hd. right. exact Hx.
Qed.

Lemma existsb_same_in {A} (f : A -> bool) l l' : (forall x, In x l <-> In x l') -> existsb f l = existsb f l'.
Proof.
  intros H. destruct (existsb f l) eqn:E1, (existsb f l') eqn:E2; try reflexivity.
  - apply existsb_exists in E1. destruct E1 as (x & Hx & Hf).
    assert (E : existsb f l' = true) by (apply existsb_exists; exists x; split; [apply H; exact Hx|exact Hf]). congruence.
  - apply existsb_exists in E2. destruct E2 as (x & Hx & Hf).
    assert (E : existsb f l = true) by (apply existsb_exists; exists x; split; [apply H; exact Hx|exact Hf]). congruence.
Qed.

Lemma fop_cons {A} (R : A -> A -> Prop) a l : ForallOrdPairs R (a :: l) <-> Forall (R a) l /\ ForallOrdPairs R l.
Proof.
  split.
  - intros H. inversion H; subst. split; assumption.
  - intros [H1 H2]. constructor; assumption.
Qed.

Lemma fop_app {A} (R : A -> A -> Prop) l1 l2 :
  ForallOrdPairs R (l1 ++ l2) <->
  ForallOrdPairs R l1 /\ ForallOrdPairs R l2 /\ (forall a b, In a l1 -> In b l2 -> R a b).
Proof.
  induction l1 as [|x l1 IH]; cbn [app].
  - split.
    + intros H. split; [constructor|]. split; [exact H|]. intros a b [].
    + intros (_ & H & _). exact H.
  - rewrite !fop_cons, IH, Forall_app, !Forall_forall. split.
    + intros ((Ha & Hb) & H1 & H2 & H3). split; [split; assumption|]. split; [exact H2|].
      intros a b [<-|Hin] Hb'; [apply Hb; exact Hb'|apply H3; assumption].
    + intros ((Ha & H1) & H2 & H3). split; [split|].
      * exact Ha.
      * intros b Hb. apply H3; [left; reflexivity|exact Hb].
      * split; [exact H1|]. split; [exact H2|]. intros a b Hin Hb. apply H3; [right; exact Hin|exact Hb].
Qed.

(* ------------------------------------------------------------------ ids *)
Lemma ids_filter_in f L x : In x (ids (filter f L)) -> In x (ids L).
Proof.
  unfold ids. intros H. apply in_map_iff in H. destruct H as (r & Hr & Hin).
  apply filter_In in Hin. apply in_map_iff. exists r. split; [exact Hr|apply Hin].
Qed.

Lemma ids_filter_nodup f L : NoDup (ids L) -> NoDup (ids (filter f L)).
Proof.
  induction L as [|r L IH]; cbn [filter]; intros H; [exact H|].
  unfold ids in H; cbn [map] in H. inversion H as [|a l Ha Hl]; subst.
  destruct (f r); [|apply IH; exact Hl]. unfold ids; cbn [map]. constructor; [|apply IH; exact Hl].
  intros Hin. apply Ha. exact (ids_filter_in f L _ Hin).
Qed.

Lemma ids_inj L a b : NoDup (ids L) -> In a L -> In b L -> rt_id a = rt_id b -> a = b.
Proof.
  induction L as [|r L IH]; intros Hn Ha Hb E; [destruct Ha|].
  unfold ids in Hn; cbn [map] in Hn. inversion Hn as [|x l Hx Hl]; subst.
  destruct Ha as [<-|Ha], Hb as [<-|Hb].
  - reflexivity.
  - exfalso. apply Hx. rewrite E. apply in_map. exact Hb.
  - exfalso. apply Hx. rewrite <- E. apply in_map. exact Ha.
  - apply IH; assumption.
Qed.

Lemma find_id_some L id v : find_id id L = Some v -> In v L /\ rt_id v = id.
Proof.
  unfold find_id. intros H. apply find_some in H. destruct H as [H1 H2].
  split; [exact H1|apply str_eqb_spec; exact H2].
Qed.

Lemma find_id_unique L id v : NoDup (ids L) -> In v L -> rt_id v = id -> find_id id L = Some v.
Proof.
  intros Hn Hv E. destruct (find_id id L) as [w|] eqn:Ef.
  - apply find_id_some in Ef. destruct Ef as [Hw Ew]. f_equal. apply (ids_inj L); [exact Hn|exact Hw|exact Hv|congruence].
  - exfalso. unfold find_id in Ef. pose proof (find_none _ _ Ef v Hv) as H. cbn beta in H.
    subst id. rewrite str_eqb_refl in H. discriminate.
Qed.

(* ------------------------------------------------------------------ dedupe_ids *)
Lemma dedupe_acc_in seen l x : In x (dedupe_ids_acc seen l) -> In x l /\ ~ In (rt_id x) seen.
Proof.
  revert seen; induction l as [|r l IH]; intros seen; cbn [dedupe_ids_acc]; [intros []|].
  destruct (mem_str (rt_id r) seen) eqn:E.
  - intros H. apply IH in H. destruct H as [H1 H2]. split; [right; exact H1|exact H2].
  - intros [H|H].
    + subst x. split; [left; reflexivity|]. intros Hin. apply mem_str_In in Hin. congruence.
    + apply IH in H. destruct H as [H1 H2]. split; [right; exact H1|]. intros Hin. apply H2. right. exact Hin.
Qed.

Lemma dedupe_acc_nodup seen l : NoDup (ids (dedupe_ids_acc seen l)).
Proof.
  revert seen; induction l as [|r l IH]; intros seen; cbn [dedupe_ids_acc]; [constructor|].
  destruct (mem_str (rt_id r) seen); [apply IH|]. unfold ids; cbn [map]. constructor; [|apply IH].
  intros Hin. apply in_map_iff in Hin. destruct Hin as (x & Hx & Hin).
  apply dedupe_acc_in in Hin. destruct Hin as [_ Hn]. apply Hn. left. symmetry. exact Hx.
Qed.

Lemma dedupe_acc_in_rev seen l x :
  (forall a b, In a l -> In b l -> rt_id a = rt_id b -> a = b) ->
  In x l -> ~ In (rt_id x) seen -> In x (dedupe_ids_acc seen l).
Proof.
  revert seen; induction l as [|r l IH]; intros seen Hinj Hx Hn; [destruct Hx|]. cbn [dedupe_ids_acc].
  assert (Hinj' : forall a b, In a l -> In b l -> rt_id a = rt_id b -> a = b)
    by (intros a b Ha Hb; apply Hinj; right; assumption).
  destruct (mem_str (rt_id r) seen) eqn:E.
  - apply mem_str_In in E. destruct Hx as [<-|Hx]; [contradiction|]. apply IH; assumption.
  - destruct Hx as [<-|Hx]; [left; reflexivity|].
    destruct (str_eqb (rt_id x) (rt_id r)) eqn:E2.
    + apply str_eqb_spec in E2. left. symmetry. apply Hinj; [right; exact Hx|left; reflexivity|exact E2].
    + right. apply IH; [exact Hinj'|exact Hx|]. apply str_eqb_neq in E2.
      intros [H|H]; [congruence|contradiction].
Qed.

Lemma dedupe_in l x : In x (dedupe_ids l) -> In x l.
Proof. intros H. apply dedupe_acc_in in H. apply H. Qed.

Lemma dedupe_in_iff l x :
  (forall a b, In a l -> In b l -> rt_id a = rt_id b -> a = b) -> (In x (dedupe_ids l) <-> In x l).
Proof.
  intros Hinj. split; [apply dedupe_in|]. intros H. apply dedupe_acc_in_rev; [exact Hinj|exact H|intros []].
Qed.

Lemma dedupe_nodup l : NoDup (dedupe_ids l).
Proof. apply NoDup_ids_NoDup. apply dedupe_acc_nodup. Qed.

(* ------------------------------------------------------------------ the layer *)
Section LayerProofs.
Variables (K Sub : Type) (key_eqb : K -> K -> bool) (sub : mops Sub) (keys_of : route -> list K).
Variables (Memo : Type) (memo0 : Memo) (sel sel_t : request -> Memo -> K -> bool * Memo) (dedupe : bool).
Variable ok_sub : route -> Prop.
Variable Rsub : mrep sub ok_sub.
(* bucket keys are compared by an equivalence *)
Hypothesis key_refl : forall k, key_eqb k k = true.
Hypothesis key_sym : forall a b, key_eqb a b = key_eqb b a.
Hypothesis key_trans : forall a b c, key_eqb a b = true -> key_eqb b c = true -> key_eqb a c = true.

(* a route is admissible when its keys are pairwise inequivalent (e.g. no duplicate method / ip range) *)
Definition keys_ok (r : route) : Prop := ForallOrdPairs (fun a b => key_eqb a b = false) (keys_of r).
Definition ok (r : route) : Prop := ok_sub r /\ keys_ok r.

Let lops := layer_ops K Sub key_eqb sub keys_of Memo memo0 sel sel_t dedupe.

(* ---------------------------------------------------------------- representation *)
Definition nokeys (r : route) : bool := is_nil (keys_of r).
Definition has_key (k' : K) (r : route) : bool := existsb (key_eqb k') (keys_of r).
Definition kneq (a b : K) : Prop := key_eqb a b = false.

(* the buckets: each stores the routes having a key equivalent to its own; keys pairwise inequivalent;
   every key of every route has its bucket *)
Definition bks_ok (bs : list (K * Sub)) (L : list route) : Prop :=
  Forall (fun km => repr Rsub (snd km) (filter (has_key (fst km)) L)) bs
  /\ ForallOrdPairs kneq (map fst bs)
  /\ (forall r k, In r L -> In k (keys_of r) -> exists km, In km bs /\ key_eqb k (fst km) = true).

Definition lrepr (Ly : layer K Sub) (L : list route) : Prop :=
  repr Rsub (l_default Ly) (filter nokeys L)
  /\ bks_ok (l_buckets Ly) L
  /\ length L <= l_count Ly.

Lemma has_key_true k r : has_key k r = true <-> exists k', In k' (keys_of r) /\ key_eqb k k' = true.
Proof. unfold has_key. apply existsb_exists. Qed.

Lemma has_key_nokeys k r : has_key k r = true -> nokeys r = false.
Proof. unfold has_key, nokeys. destruct (keys_of r); cbn [existsb is_nil]; intros H; [discriminate|reflexivity]. Qed.

Lemma nokeys_nil r : nokeys r = true -> keys_of r = [].
Proof. unfold nokeys. destruct (keys_of r); cbn [is_nil]; intros H; [reflexivity|discriminate]. Qed.

Lemma kneq_trans_l a b c : key_eqb a b = true -> key_eqb a c = false -> key_eqb b c = false.
Proof.
  intros Hab Hac. destruct (key_eqb b c) eqn:E; [|reflexivity].
  rewrite (key_trans a b c Hab E) in Hac. discriminate.
Qed.

Lemma lrepr_perm Ly L L' : lrepr Ly L -> Permutation L L' -> lrepr Ly L'.
Proof.
  intros (Hd & (Hb & Hf & Hc) & Hl) Hp. split; [|split; [split; [|split]|]].
  - eapply repr_perm; [exact Hd|apply filter_perm; exact Hp].
  - eapply Forall_impl; [|exact Hb]. intros km H. cbn beta in H |- *.
    eapply repr_perm; [exact H|apply filter_perm; exact Hp].
  - exact Hf.
  - intros r k Hr Hk. apply (Hc r k); [|exact Hk].
    eapply Permutation_in; [apply Permutation_sym; exact Hp|exact Hr].
  - rewrite <- (Permutation_length Hp). exact Hl.
Qed.

Lemma lrepr_len Ly L : lrepr Ly L -> length L <= m_len lops Ly.
Proof. intros (_ & _ & Hl). exact Hl. Qed.

Lemma lrepr_new : lrepr (m_new lops) [].
Proof.
  unfold lrepr, bks_ok. cbn. split; [apply repr_new|]. split; [|lia].
  split; [constructor|]. split; [constructor|]. intros r k [].
Qed.

(* ---------------------------------------------------------------- insert *)
Lemma bucket_insert_spec k r bs :
  ((forall km, In km bs -> key_eqb k (fst km) = false)
   /\ bucket_insert K Sub key_eqb sub k r bs = bs ++ [(k, m_insert sub r (m_new sub))])
  \/ (exists b1 k' m b2, bs = b1 ++ (k', m) :: b2 /\ key_eqb k k' = true
      /\ bucket_insert K Sub key_eqb sub k r bs = b1 ++ (k', m_insert sub r m) :: b2).
Proof.
  induction bs as [|[k' m] bs IH]; cbn [bucket_insert].
  - left. split; [intros km []|reflexivity].
  - destruct (key_eqb k k') eqn:E.
    + right. exists [], k', m, bs. cbn [app]. auto.
    + destruct IH as [[H1 H2]|(b1 & k2 & m2 & b2 & H1 & H2 & H3)].
      * left. split; [|rewrite H2; reflexivity]. intros km [<-|H]; [exact E|apply H1; exact H].
      * right. exists ((k', m) :: b1), k2, m2, b2. rewrite H3, H1. cbn [app]. auto.
Qed.

Lemma in_swap_mid (b1 b2 : list (K * Sub)) x x' km :
  fst x = fst x' -> In km (b1 ++ x :: b2) -> exists km', In km' (b1 ++ x' :: b2) /\ fst km' = fst km.
Proof.
  intros E Hin. apply in_app_or in Hin. destruct Hin as [Hin|[<-|Hin]].
  - exists km. split; [apply in_or_app; left; exact Hin|reflexivity].
  - exists x'. split; [apply in_or_app; right; left; reflexivity|symmetry; exact E].
  - exists km. split; [apply in_or_app; right; right; exact Hin|reflexivity].
Qed.

(* state of the fold of l_insert after the keys [done] of r have been processed *)
Definition cont (r : route) (L : list route) (done : list K) (k' : K) : list route :=
  if existsb (key_eqb k') done then r :: filter (has_key k') L else filter (has_key k') L.
Definition binv (r : route) (L : list route) (done : list K) (bs : list (K * Sub)) : Prop :=
  Forall (fun km => repr Rsub (snd km) (cont r L done (fst km))) bs
  /\ ForallOrdPairs kneq (map fst bs)
  /\ (forall r' k, In r' L -> In k (keys_of r') -> exists km, In km bs /\ key_eqb k (fst km) = true)
  /\ (forall k, In k done -> exists km, In km bs /\ key_eqb k (fst km) = true).

Lemma cont_skip r L done k k' : key_eqb k' k = false -> cont r L (k :: done) k' = cont r L done k'.
Proof. intros E. unfold cont. cbn [existsb]. rewrite E. reflexivity. Qed.

Lemma binv_step r L done k bs :
  NoDup (ids L) -> ~ In (rt_id r) (ids L) -> ok_sub r ->
  binv r L done bs -> (forall d, In d done -> key_eqb k d = false) ->
  binv r L (k :: done) (bucket_insert K Sub key_eqb sub k r bs).
Proof.
  intros Hn Hfr Hok (Hb & Hf & Hc & Hd) Hnd.
  destruct (bucket_insert_spec k r bs) as [[Hno Heq]|(b1 & k' & m & b2 & Hbs & Ek & Heq)]; rewrite Heq; clear Heq.
  - (* a new bucket *)
    split; [|split; [|split]].
    + apply Forall_app. split.
      * apply Forall_forall. intros km Hkm. rewrite cont_skip.
        -- exact (proj1 (Forall_forall _ _) Hb km Hkm).
        -- rewrite key_sym. apply Hno. exact Hkm.
      * constructor; [|constructor]. cbn [fst snd]. unfold cont. cbn [existsb]. rewrite key_refl. cbn [orb].
        rewrite filter_nil.
        -- apply (repr_insert Rsub (m_new sub) [] r); [apply repr_new|constructor|intros []|exact Hok].
        -- intros x Hx. destruct (has_key k x) eqn:E; [|reflexivity]. exfalso.
           apply has_key_true in E. destruct E as (k1 & Hk1 & E1).
           destruct (Hc x k1 Hx Hk1) as (km & Hkm & E2).
           pose proof (Hno km Hkm) as E3. rewrite (key_trans _ _ _ E1 E2) in E3. discriminate.
    + rewrite map_app. apply fop_app. split; [exact Hf|]. split.
      * cbn [map]. constructor; constructor.
      * intros a b Ha [<-|[]]. apply in_map_iff in Ha. destruct Ha as (km & <- & Hkm).
        cbn [fst]. unfold kneq. rewrite key_sym. apply Hno. exact Hkm.
    + intros r' k1 Hr' Hk1. destruct (Hc r' k1 Hr' Hk1) as (km & Hkm & E).
      exists km. split; [apply in_or_app; left; exact Hkm|exact E].
    + intros k1 [<-|Hk1].
      * exists (k, m_insert sub r (m_new sub)). split; [apply in_or_app; right; left; reflexivity|apply key_refl].
      * destruct (Hd k1 Hk1) as (km & Hkm & E). exists km. split; [apply in_or_app; left; exact Hkm|exact E].
  - (* an existing bucket, equivalent to k *)
    subst bs. rewrite map_app in Hf. cbn [map fst] in Hf.
    apply fop_app in Hf. destruct Hf as (Hf1 & Hf2 & Hf3). apply fop_cons in Hf2. destruct Hf2 as [Hf2 Hf4].
    assert (Hk' : forall km, In km b1 \/ In km b2 -> key_eqb (fst km) k' = false).
    { intros km [H|H].
      - apply Hf3; [apply in_map; exact H|left; reflexivity].
      - rewrite key_sym. apply (proj1 (Forall_forall _ _) Hf2). apply in_map. exact H. }
    assert (Hk : forall km, In km b1 \/ In km b2 -> key_eqb (fst km) k = false).
    { intros km H. apply Hk' in H. destruct (key_eqb (fst km) k) eqn:E; [|reflexivity].
      rewrite (key_trans _ _ _ E Ek) in H. discriminate. }
    apply Forall_app in Hb. destruct Hb as [Hb1 Hb2]. inversion Hb2 as [|x l Hm Hb3]; subst. cbn [fst snd] in Hm.
    split; [|split; [|split]].
    + apply Forall_app. split; [|constructor].
      * apply Forall_forall. intros km Hkm. rewrite cont_skip; [|apply Hk; left; exact Hkm].
        exact (proj1 (Forall_forall _ _) Hb1 km Hkm).
      * cbn [fst snd]. unfold cont in Hm |- *. cbn [existsb]. rewrite (key_sym k' k), Ek. cbn [orb].
        assert (E : existsb (key_eqb k') done = false).
        { destruct (existsb (key_eqb k') done) eqn:E; [|reflexivity]. exfalso.
          apply existsb_exists in E. destruct E as (d & Hd1 & E).
          pose proof (Hnd d Hd1) as E2. rewrite (key_trans _ _ _ Ek E) in E2. discriminate. }
        rewrite E in Hm. apply (repr_insert Rsub); [exact Hm|apply ids_filter_nodup; exact Hn| |exact Hok].
        intros Hin. apply Hfr. exact (ids_filter_in _ _ _ Hin).
      * apply Forall_forall. intros km Hkm. rewrite cont_skip; [|apply Hk; right; exact Hkm].
        exact (proj1 (Forall_forall _ _) Hb3 km Hkm).
    + rewrite map_app. cbn [map fst]. apply fop_app. split; [exact Hf1|]. split; [|exact Hf3].
      apply fop_cons. split; assumption.
    + intros r' k1 Hr' Hk1. destruct (Hc r' k1 Hr' Hk1) as (km & Hkm & E).
      destruct (in_swap_mid b1 b2 (k', m) (k', m_insert sub r m) km eq_refl Hkm) as (km' & Hkm' & E').
      exists km'. split; [exact Hkm'|rewrite E'; exact E].
    + intros k1 [<-|Hk1].
      * exists (k', m_insert sub r m). split; [apply in_or_app; right; left; reflexivity|exact Ek].
      * destruct (Hd k1 Hk1) as (km & Hkm & E).
        destruct (in_swap_mid b1 b2 (k', m) (k', m_insert sub r m) km eq_refl Hkm) as (km' & Hkm' & E').
        exists km'. split; [exact Hkm'|rewrite E'; exact E].
Qed.

Lemma binv_fold r L :
  NoDup (ids L) -> ~ In (rt_id r) (ids L) -> ok_sub r ->
  forall ks done bs, binv r L done bs -> ForallOrdPairs kneq ks ->
  (forall k d, In k ks -> In d done -> key_eqb k d = false) ->
  exists done', (forall x, In x done' <-> In x ks \/ In x done)
                /\ binv r L done' (fold_left (fun bs k => bucket_insert K Sub key_eqb sub k r bs) ks bs).
Proof.
  intros Hn Hfr Hok. induction ks as [|k ks IH]; intros done bs Hinv Hf Hx; cbn [fold_left].
  - exists done. split; [|exact Hinv]. intros x. cbn [In]. tauto.
  - apply fop_cons in Hf. destruct Hf as [Hf1 Hf2].
    destruct (IH (k :: done) (bucket_insert K Sub key_eqb sub k r bs)) as (done' & Hd1 & Hd2).
    + apply binv_step; try assumption. intros d Hd. apply Hx; [left; reflexivity|exact Hd].
    + exact Hf2.
    + intros k2 d Hk2 [<-|Hd].
      * rewrite key_sym. exact (proj1 (Forall_forall _ _) Hf1 k2 Hk2).
      * apply Hx; [right; exact Hk2|exact Hd].
    + exists done'. split; [|exact Hd2]. intros x. rewrite Hd1. cbn [In]. tauto.
Qed.

Lemma lrepr_insert Ly L r :
  lrepr Ly L -> NoDup (ids L) -> ~ In (rt_id r) (ids L) -> ok r -> lrepr (m_insert lops r Ly) (r :: L).
Proof.
  intros (Hd & (Hb & Hf & Hc) & Hl) Hn Hfr [Hos Hko].
  cbn [m_insert lops layer_ops]. unfold l_insert. unfold keys_ok in Hko.
  destruct (keys_of r) as [|k0 ks] eqn:Ek.
  - assert (Enk : nokeys r = true) by (unfold nokeys; rewrite Ek; reflexivity).
    assert (Ehk : forall k, has_key k r = false) by (intros k; unfold has_key; rewrite Ek; reflexivity).
    unfold lrepr. cbn [l_default l_buckets l_count]. split; [|split].
    + cbn [filter]. rewrite Enk. apply (repr_insert Rsub); [exact Hd|apply ids_filter_nodup; exact Hn| |exact Hos].
      intros Hin. apply Hfr. exact (ids_filter_in _ _ _ Hin).
    + split; [|split].
      * eapply Forall_impl; [|exact Hb]. intros km H. cbn beta in H |- *. cbn [filter]. rewrite Ehk. exact H.
      * exact Hf.
      * intros r' k [<-|Hr'] Hk; [rewrite Ek in Hk; destruct Hk|eapply Hc; eassumption].
    + cbn [length]. lia.
  - assert (Enk : nokeys r = false) by (unfold nokeys; rewrite Ek; reflexivity).
    destruct (binv_fold r L Hn Hfr Hos (k0 :: ks) [] (l_buckets Ly)) as (done' & Hd1 & (Hb' & Hf' & Hc' & Hd')).
    + split; [|split; [|split]].
      * eapply Forall_impl; [|exact Hb]. intros km H. exact H.
      * exact Hf.
      * exact Hc.
      * intros k [].
    + exact Hko.
    + intros k d _ [].
    + unfold lrepr. cbn [l_default l_buckets l_count]. split; [|split].
      * cbn [filter]. rewrite Enk. exact Hd.
      * split; [|split].
        -- eapply Forall_impl; [|exact Hb']. intros km H. cbn beta in H |- *. cbn [filter].
           unfold cont in H. unfold has_key at 1. rewrite Ek.
           rewrite (existsb_same_in (key_eqb (fst km)) (k0 :: ks) done'); [exact H|].
           intros x. rewrite Hd1. cbn [In]. tauto.
        -- exact Hf'.
        -- intros r' k [<-|Hr'] Hk.
           ++ apply Hd'. apply Hd1. left. rewrite <- Ek. exact Hk.
           ++ eapply Hc'; eassumption.
      * cbn [length]. lia.
Qed.

(* ---------------------------------------------------------------- remove / batch_remove *)
(* both prune: apply h to every sub-matcher, drop the buckets that became empty *)
Definition bmap (h : Sub -> Sub) (bs : list (K * Sub)) : list (K * Sub) :=
  flat_map (fun km => if m_is_empty sub (h (snd km)) then [] else [(fst km, h (snd km))]) bs.

Lemma bmap_in h bs km' :
  In km' (bmap h bs) <-> exists km, In km bs /\ m_is_empty sub (h (snd km)) = false /\ km' = (fst km, h (snd km)).
Proof.
  unfold bmap. rewrite in_flat_map. split; intros (km & Hkm & H); exists km.
  - destruct (m_is_empty sub (h (snd km))); [destruct H|]. destruct H as [<-|[]]. auto.
  - destruct H as [E ->]. rewrite E. split; [exact Hkm|left; reflexivity].
Qed.

Lemma bmap_fop h bs : ForallOrdPairs kneq (map fst bs) -> ForallOrdPairs kneq (map fst (bmap h bs)).
Proof.
  induction bs as [|[k m] bs IH]; intros Hf; [constructor|].
  cbn [map fst] in Hf. apply fop_cons in Hf. destruct Hf as [Ha Hf].
  change (bmap h ((k, m) :: bs)) with ((if m_is_empty sub (h m) then [] else [(k, h m)]) ++ bmap h bs).
  destruct (m_is_empty sub (h m)); cbn [app]; [apply IH; exact Hf|].
  cbn [map fst]. apply fop_cons. split; [|apply IH; exact Hf].
  apply Forall_forall. intros x Hx. apply in_map_iff in Hx. destruct Hx as (km' & <- & Hkm').
  apply bmap_in in Hkm'. destruct Hkm' as (km & Hkm & _ & ->). cbn [fst].
  apply (proj1 (Forall_forall _ _) Ha). apply in_map. exact Hkm.
Qed.

Lemma bmap_ok h bs L' :
  (forall km, In km bs -> repr Rsub (h (snd km)) (filter (has_key (fst km)) L')) ->
  ForallOrdPairs kneq (map fst bs) ->
  (forall r k, In r L' -> In k (keys_of r) -> exists km, In km bs /\ key_eqb k (fst km) = true) ->
  bks_ok (bmap h bs) L'.
Proof.
  intros Hb Hf Hc. split; [|split].
  - apply Forall_forall. intros km' Hin. apply bmap_in in Hin. destruct Hin as (km & Hkm & _ & ->).
    cbn [fst snd]. apply Hb. exact Hkm.
  - apply bmap_fop. exact Hf.
  - intros r k Hr Hk. destruct (Hc r k Hr Hk) as (km & Hkm & E).
    exists (fst km, h (snd km)). split; [|exact E]. apply bmap_in. exists km. split; [exact Hkm|]. split; [|reflexivity].
    pose proof (repr_len Rsub _ _ (Hb km Hkm)) as Hlen.
    assert (Hin : In r (filter (has_key (fst km)) L')).
    { apply filter_In. split; [exact Hr|]. apply has_key_true. exists k. split; [exact Hk|]. rewrite key_sym. exact E. }
    apply in_len_pos in Hin. unfold m_is_empty. apply Nat.eqb_neq. lia.
Qed.

Lemma buckets_remove_fst id bs :
  fst (buckets_remove K Sub sub id bs) = bmap (fun m => fst (m_remove sub id m)) bs.
Proof.
  induction bs as [|[k m] bs IH]; cbn [buckets_remove]; [reflexivity|].
  change (bmap (fun m0 => fst (m_remove sub id m0)) ((k, m) :: bs))
    with ((if m_is_empty sub (fst (m_remove sub id m)) then [] else [(k, fst (m_remove sub id m))])
          ++ bmap (fun m0 => fst (m_remove sub id m0)) bs).
  destruct (m_remove sub id m) as [m' o]. destruct (buckets_remove K Sub sub id bs) as [bs'' o'].
  cbn [fst] in IH |- *. rewrite <- IH. destruct (m_is_empty sub m'); reflexivity.
Qed.

Lemma buckets_remove_snd_some id bs v :
  snd (buckets_remove K Sub sub id bs) = Some v -> exists km, In km bs /\ snd (m_remove sub id (snd km)) = Some v.
Proof.
  induction bs as [|[k m] bs IH]; cbn [buckets_remove]; [intros H; discriminate|].
  destruct (m_remove sub id m) as [m' o] eqn:Em. destruct (buckets_remove K Sub sub id bs) as [bs'' o'].
  cbn [snd] in IH |- *. destruct o' as [v'|].
  - intros H. destruct (IH H) as (km & Hkm & E). exists km. split; [right; exact Hkm|exact E].
  - intros ->. exists (k, m). split; [left; reflexivity|]. cbn [snd]. rewrite Em. reflexivity.
Qed.

Lemma buckets_remove_snd_none id bs :
  snd (buckets_remove K Sub sub id bs) = None -> forall km, In km bs -> snd (m_remove sub id (snd km)) = None.
Proof.
  induction bs as [|[k m] bs IH]; cbn [buckets_remove]; [intros _ km []|].
  destruct (m_remove sub id m) as [m' o] eqn:Em. destruct (buckets_remove K Sub sub id bs) as [bs'' o'].
  cbn [snd] in IH |- *. destruct o' as [v'|]; [intros H; discriminate|].
  intros -> km [<-|Hkm]; [cbn [snd]; rewrite Em; reflexivity|apply IH; [reflexivity|exact Hkm]].
Qed.

Lemma in_without_id id L r : In r (without_id id L) -> In r L.
Proof. unfold without_id. intros H. apply filter_In in H. apply H. Qed.

Lemma lrepr_remove Ly L id :
  lrepr Ly L -> NoDup (ids L) ->
  lrepr (fst (m_remove lops id Ly)) (without_id id L) /\ snd (m_remove lops id Ly) = find_id id L.
Proof.
  intros (Hd & (Hb & Hf & Hc) & Hl) Hn.
  cbn [m_remove lops layer_ops]. unfold l_remove.
  destruct (repr_remove Rsub _ _ id Hd (ids_filter_nodup nokeys L Hn)) as [Hd' Hr].
  destruct (m_remove sub id (l_default Ly)) as [d' o]. cbn [fst snd] in Hd', Hr.
  assert (Hdef : repr Rsub d' (filter nokeys (without_id id L))).
  { unfold without_id in Hd' |- *. rewrite filter_comm. exact Hd'. }
  destruct o as [v|].
  - (* the route sat in the default sub-matcher: it has no key, the buckets are unaffected *)
    symmetry in Hr. apply find_id_some in Hr. destruct Hr as [Hv Eid]. apply filter_In in Hv. destruct Hv as [HvL Hnk].
    cbn [fst snd]. split.
    + split; [exact Hdef|]. cbn [l_buckets l_count]. split.
      * split; [|split].
        -- eapply Forall_impl; [|exact Hb]. intros km H. cbn beta in H |- *.
           unfold without_id. rewrite filter_same; [exact H|].
           intros x Hx Ex. apply negb_false_iff in Ex. apply str_eqb_spec in Ex.
           assert (x = v) by (apply (ids_inj L); [exact Hn|exact Hx|exact HvL|congruence]). subst x.
           destruct (has_key (fst km) v) eqn:E; [|reflexivity]. apply has_key_nokeys in E. congruence.
        -- exact Hf.
        -- intros r k Hr' Hk. apply (Hc r k); [apply (in_without_id id); exact Hr'|exact Hk].
      * assert (Hlt : length (without_id id L) < length L).
        { unfold without_id. apply (filter_len_lt _ L v HvL). rewrite Eid, str_eqb_refl. reflexivity. }
        lia.
    + symmetry. apply find_id_unique; assumption.
  - (* otherwise every bucket is asked *)
    pose proof (buckets_remove_fst id (l_buckets Ly)) as Hfst.
    pose proof (buckets_remove_snd_some id (l_buckets Ly)) as Hsome.
    pose proof (buckets_remove_snd_none id (l_buckets Ly)) as Hnone.
    destruct (buckets_remove K Sub sub id (l_buckets Ly)) as [bs' o']. cbn [fst snd] in Hfst, Hsome, Hnone |- *.
    subst bs'.
    assert (Hbk : forall km, In km (l_buckets Ly) ->
                  repr Rsub (fst (m_remove sub id (snd km))) (filter (has_key (fst km)) (without_id id L))
                  /\ snd (m_remove sub id (snd km)) = find_id id (filter (has_key (fst km)) L)).
    { intros km Hkm. pose proof (proj1 (Forall_forall _ _) Hb km Hkm) as H. cbn beta in H.
      destruct (repr_remove Rsub _ _ id H (ids_filter_nodup _ L Hn)) as [H1 H2]. split; [|exact H2].
      unfold without_id in H1 |- *. rewrite filter_comm. exact H1. }
    assert (Ho : o' = find_id id L).
    { destruct o' as [v|].
      - destruct (Hsome v eq_refl) as (km & Hkm & E). rewrite (proj2 (Hbk km Hkm)) in E.
        apply find_id_some in E. destruct E as [Hv Eid]. apply filter_In in Hv.
        symmetry. apply find_id_unique; [exact Hn|apply Hv|exact Eid].
      - destruct (find_id id L) as [v|] eqn:Ef; [exfalso|reflexivity].
        apply find_id_some in Ef. destruct Ef as [HvL Eid].
        destruct (keys_of v) as [|k ks] eqn:Ek.
        + assert (E : find_id id (filter nokeys L) = Some v).
          { apply find_id_unique; [apply ids_filter_nodup; exact Hn| |exact Eid].
            apply filter_In. split; [exact HvL|]. unfold nokeys. rewrite Ek. reflexivity. }
          congruence.
        + destruct (Hc v k HvL) as (km & Hkm & E); [rewrite Ek; left; reflexivity|].
          assert (E2 : find_id id (filter (has_key (fst km)) L) = Some v).
          { apply find_id_unique; [apply ids_filter_nodup; exact Hn| |exact Eid].
            apply filter_In. split; [exact HvL|]. apply has_key_true. exists k.
            split; [rewrite Ek; left; reflexivity|rewrite key_sym; exact E]. }
          rewrite <- (proj2 (Hbk km Hkm)), (Hnone eq_refl km Hkm) in E2. discriminate. }
    split; [|exact Ho].
    split; [exact Hdef|]. cbn [l_buckets l_count]. split.
    + apply bmap_ok.
      * intros km Hkm. apply (Hbk km Hkm).
      * exact Hf.
      * intros r k Hr' Hk. apply (Hc r k); [apply (in_without_id id); exact Hr'|exact Hk].
    + destruct o' as [v|].
      * symmetry in Ho. apply find_id_some in Ho. destruct Ho as [HvL Eid].
        assert (Hlt : length (without_id id L) < length L).
        { unfold without_id. apply (filter_len_lt _ L v HvL). rewrite Eid, str_eqb_refl. reflexivity. }
        lia.
      * pose proof (filter_len_le (fun r => negb (str_eqb (rt_id r) id)) L) as Hle. unfold without_id. lia.
Qed.

Lemma lrepr_batch Ly L xs :
  lrepr Ly L -> NoDup (ids L) -> lrepr (m_batch_remove lops xs Ly) (without_ids xs L).
Proof.
  intros (Hd & (Hb & Hf & Hc) & Hl) Hn.
  cbn [m_batch_remove lops layer_ops]. unfold l_batch_remove, lrepr. cbn [l_default l_buckets l_count].
  split; [|split].
  - pose proof (repr_batch Rsub _ _ xs Hd (ids_filter_nodup nokeys L Hn)) as H.
    unfold without_ids in H |- *. rewrite filter_comm. exact H.
  - change (bks_ok (bmap (m_batch_remove sub xs) (l_buckets Ly)) (without_ids xs L)). apply bmap_ok.
    + intros km Hkm. pose proof (proj1 (Forall_forall _ _) Hb km Hkm) as H. cbn beta in H.
      pose proof (repr_batch Rsub _ _ xs H (ids_filter_nodup _ L Hn)) as H1.
      unfold without_ids in H1 |- *. rewrite filter_comm. exact H1.
    + exact Hf.
    + intros r k Hr Hk. apply (Hc r k); [|exact Hk]. unfold without_ids in Hr. apply filter_In in Hr. apply Hr.
  - pose proof (filter_len_le (fun r => negb (mem_str (rt_id r) xs)) L) as Hle. unfold without_ids. lia.
Qed.

(* ---------------------------------------------------------------- cache *)
Lemma buckets_cache_ok L bs : forall limit level,
  Forall (fun km => repr Rsub (snd km) (filter (has_key (fst km)) L)) bs ->
  Forall (fun km => repr Rsub (snd km) (filter (has_key (fst km)) L)) (fst (buckets_cache K Sub sub limit level bs))
  /\ map fst (fst (buckets_cache K Sub sub limit level bs)) = map fst bs.
Proof.
  induction bs as [|[k m] bs IH]; intros limit level Hb; cbn [buckets_cache]; [split; [constructor|reflexivity]|].
  inversion Hb as [|x l Hm Hb']; subst. cbn [fst snd] in Hm.
  pose proof (repr_cache Rsub m _ limit level Hm) as Hm'.
  destruct (m_cache sub limit level m) as [m' l1]. cbn [fst] in Hm'.
  destruct (IH l1 level Hb') as [H1 H2].
  destruct (buckets_cache K Sub sub l1 level bs) as [bs'' l2]. cbn [fst] in H1, H2 |- *.
  split; [constructor; [exact Hm'|exact H1]|]. cbn [map fst]. rewrite H2. reflexivity.
Qed.

Lemma lrepr_cache Ly L limit level : lrepr Ly L -> lrepr (fst (m_cache lops limit level Ly)) L.
Proof.
  intros (Hd & (Hb & Hf & Hc) & Hl). cbn [m_cache lops layer_ops]. unfold l_cache.
  pose proof (repr_cache Rsub _ _ limit level Hd) as Hd'.
  destruct (m_cache sub limit level (l_default Ly)) as [d' l1]. cbn [fst] in Hd'.
  destruct (buckets_cache_ok L (l_buckets Ly) l1 level Hb) as [H1 H2].
  destruct (buckets_cache K Sub sub l1 level (l_buckets Ly)) as [bs' l2]. cbn [fst] in H1, H2 |- *.
  split; [exact Hd'|]. cbn [l_buckets l_count]. split; [|exact Hl].
  split; [exact H1|]. split; [rewrite H2; exact Hf|].
  intros r k Hr Hk. destruct (Hc r k Hr Hk) as (km & Hkm & E).
  assert (Hin : In (fst km) (map fst bs')) by (rewrite H2; apply in_map; exact Hkm).
  apply in_map_iff in Hin. destruct Hin as (km' & E' & Hkm'). exists km'. split; [exact Hkm'|rewrite E'; exact E].
Qed.

(* ---------------------------------------------------------------- the specification *)

Definition layer_mrep : mrep (layer_ops K Sub key_eqb sub keys_of Memo memo0 sel sel_t dedupe) ok :=
  {| repr := lrepr;
     repr_perm := lrepr_perm;
     repr_len := lrepr_len;
     repr_new := lrepr_new;
     repr_insert := lrepr_insert;
     repr_remove := lrepr_remove;
     repr_batch := lrepr_batch;
     repr_cache := lrepr_cache |}.

(* ---------------------------------------------------------------- what matching assumes *)
Variable sat_sub : route -> request -> bool.
(* of the sub-matcher *)
Hypothesis sub_match_nodup : forall m L q, repr Rsub m L -> NoDup (ids L) -> NoDup (m_match sub q m).
Hypothesis sub_match_in0 : forall m L q r, repr Rsub m L -> NoDup (ids L) -> (In r (m_match sub q m) <-> In r L /\ sat_sub r q = true).
Hypothesis sub_trace_in : forall m L q r, repr Rsub m L -> NoDup (ids L) -> (In r (traces_routes (m_trace sub q m)) <-> In r L /\ sat_sub r q = true).
(* the memo-free meaning of "this bucket is consulted", respected by key equivalence *)
Variable selects : request -> K -> bool.
Hypothesis selects_compat : forall q a b, key_eqb a b = true -> selects q a = selects q b.
(* the per-request memo of match_request and the one of trace() are coherent with it *)
Variables (coh coh_t : request -> Memo -> Prop).
Hypothesis coh0 : forall q, coh q memo0.
Hypothesis sel_ok : forall q memo k, coh q memo -> fst (sel q memo k) = selects q k /\ coh q (snd (sel q memo k)).
Hypothesis coh_t0 : forall q, coh_t q memo0.
Hypothesis sel_t_ok : forall q memo k, coh_t q memo -> fst (sel_t q memo k) = selects q k /\ coh_t q (snd (sel_t q memo k)).
(* without de-duplication, at most one bucket of a route is consulted for a request *)
Hypothesis sel_unique : dedupe = false -> forall q r k1 k2, In k1 (keys_of r) -> In k2 (keys_of r) ->
  selects q k1 = true -> selects q k2 = true -> key_eqb k1 k2 = true.

Definition trig (r : route) (q : request) : bool :=
  match keys_of r with [] => true | ks => existsb (selects q) ks end.
Definition sat (r : route) (q : request) : bool := trig r q && sat_sub r q.

(* ---------------------------------------------------------------- match / trace *)
(* what the consulted buckets return, without the memo *)
Definition bsel (q : request) (fd : Sub -> list route) (bs : list (K * Sub)) : list route :=
  flat_map (fun km => if selects q (fst km) then fd (snd km) else []) bs.

Lemma buckets_match_eq q bs : forall memo, coh q memo ->
  buckets_match K Sub sub Memo sel q memo bs = bsel q (m_match sub q) bs.
Proof.
  induction bs as [|[k m] bs IH]; intros memo Hm; cbn [buckets_match]; [reflexivity|].
  pose proof (sel_ok q memo k Hm) as [H1 H2].
  destruct (sel q memo k) as [b memo']. cbn [fst snd] in H1, H2. subst b.
  unfold bsel. cbn [flat_map fst snd]. f_equal. apply IH. exact H2.
Qed.

Lemma buckets_trace_eq q bs : forall memo, coh_t q memo ->
  traces_routes (buckets_trace K Sub sub Memo sel_t q memo bs) = bsel q (fun m => traces_routes (m_trace sub q m)) bs.
Proof.
  induction bs as [|[k m] bs IH]; intros memo Hm; cbn [buckets_trace]; [reflexivity|].
  pose proof (sel_t_ok q memo k Hm) as [H1 H2].
  destruct (sel_t q memo k) as [b memo']. cbn [fst snd] in H1, H2. subst b.
  unfold bsel, traces_routes. cbn [flat_map fst snd trace_routes app]. f_equal.
  - destruct (selects q k); reflexivity.
  - apply IH. exact H2.
Qed.

Lemma trig_nokeys r q : nokeys r = true -> trig r q = true.
Proof. intros H. apply nokeys_nil in H. unfold trig. rewrite H. reflexivity. Qed.

Lemma trig_of_key r q k : In k (keys_of r) -> selects q k = true -> trig r q = true.
Proof.
  unfold trig. intros Hk Hs. destruct (keys_of r) as [|k0 ks]; [reflexivity|].
  apply existsb_exists. exists k. split; assumption.
Qed.

Lemma bsel_in q fd bs r :
  In r (bsel q fd bs) <-> exists km, In km bs /\ selects q (fst km) = true /\ In r (fd (snd km)).
Proof.
  unfold bsel. rewrite in_flat_map. split; intros (km & Hkm & H); exists km.
  - destruct (selects q (fst km)); [auto|destruct H].
  - destruct H as [E H]. rewrite E. auto.
Qed.

Lemma layer_in q (fd : Sub -> list route) Ly L r :
  (forall m L' r, repr Rsub m L' -> NoDup (ids L') -> (In r (fd m) <-> In r L' /\ sat_sub r q = true)) ->
  lrepr Ly L -> NoDup (ids L) ->
  (In r (fd (l_default Ly) ++ bsel q fd (l_buckets Ly)) <-> In r L /\ sat r q = true).
Proof.
  intros Hfd (Hd & (Hb & Hf & Hc) & Hl) Hn. rewrite in_app_iff, bsel_in. unfold sat. split.
  - intros [H|(km & Hkm & Es & H)].
    + apply (Hfd _ _ _ Hd (ids_filter_nodup nokeys L Hn)) in H. destruct H as [H Hs].
      apply filter_In in H. destruct H as [HL Hnk]. split; [exact HL|]. rewrite (trig_nokeys r q Hnk), Hs. reflexivity.
    + pose proof (proj1 (Forall_forall _ _) Hb km Hkm) as Hr. cbn beta in Hr.
      apply (Hfd _ _ _ Hr (ids_filter_nodup _ L Hn)) in H. destruct H as [H Hs].
      apply filter_In in H. destruct H as [HL Hk]. split; [exact HL|].
      apply has_key_true in Hk. destruct Hk as (k' & Hk' & E).
      rewrite (trig_of_key r q k' Hk'), Hs; [reflexivity|]. rewrite <- (selects_compat q _ _ E). exact Es.
  - intros [HL Hs]. apply andb_prop in Hs. destruct Hs as [Ht Hs].
    destruct (keys_of r) as [|k0 ks] eqn:Ek.
    + left. apply (Hfd _ _ _ Hd (ids_filter_nodup nokeys L Hn)). split; [|exact Hs].
      apply filter_In. split; [exact HL|]. unfold nokeys. rewrite Ek. reflexivity.
    + right. unfold trig in Ht. rewrite Ek in Ht. apply existsb_exists in Ht. destruct Ht as (k & Hk & Esel).
      rewrite <- Ek in Hk. destruct (Hc r k HL Hk) as (km & Hkm & E).
      exists km. split; [exact Hkm|]. split; [rewrite <- (selects_compat q _ _ E); exact Esel|].
      pose proof (proj1 (Forall_forall _ _) Hb km Hkm) as Hr. cbn beta in Hr.
      apply (Hfd _ _ _ Hr (ids_filter_nodup _ L Hn)). split; [|exact Hs].
      apply filter_In. split; [exact HL|]. apply has_key_true. exists k. split; [exact Hk|]. rewrite key_sym. exact E.
Qed.

Lemma sub_match_in q m L' r :
  repr Rsub m L' -> NoDup (ids L') -> (In r (m_match sub q m) <-> In r L' /\ sat_sub r q = true).
Proof. intros Hr Hn. apply (sub_match_in0 m L' q r Hr Hn). Qed.

Lemma lrepr_match_in Ly L q r :
  lrepr Ly L -> NoDup (ids L) -> (In r (m_match lops q Ly) <-> In r L /\ sat r q = true).
Proof.
  intros HL Hn. cbn [m_match lops layer_ops]. unfold l_match. rewrite (buckets_match_eq q _ memo0 (coh0 q)).
  pose proof (fun x => layer_in q (m_match sub q) Ly L x (sub_match_in q) HL Hn) as Hin.
  destruct dedupe; [|apply Hin].
  rewrite <- Hin, !in_app_iff. rewrite dedupe_in_iff; [reflexivity|].
  intros a b Ha Hb E. apply (ids_inj L); [exact Hn| | |exact E].
  - apply (Hin a). apply in_or_app. right. exact Ha.
  - apply (Hin b). apply in_or_app. right. exact Hb.
Qed.

Lemma bsel_nodup q bs L :
  dedupe = false -> NoDup (ids L) ->
  Forall (fun km => repr Rsub (snd km) (filter (has_key (fst km)) L)) bs ->
  ForallOrdPairs kneq (map fst bs) ->
  NoDup (bsel q (m_match sub q) bs).
Proof.
  intros Hdd Hn. induction bs as [|[k m] bs IH]; intros Hb Hf; [constructor|].
  pose proof (Forall_inv Hb) as Hm. pose proof (Forall_inv_tail Hb) as Hb'. cbn [fst snd] in Hm.
  cbn [map fst] in Hf. apply fop_cons in Hf. destruct Hf as [Hk Hf].
  change (bsel q (m_match sub q) ((k, m) :: bs))
    with ((if selects q k then m_match sub q m else []) ++ bsel q (m_match sub q) bs).
  apply nodup_app.
  - destruct (selects q k); [|constructor]. apply (sub_match_nodup m _ q Hm). apply ids_filter_nodup. exact Hn.
  - apply IH; assumption.
  - intros x Hx1 Hx2. destruct (selects q k) eqn:Es; [|destruct Hx1].
    apply (sub_match_in q m _ x Hm (ids_filter_nodup _ L Hn)) in Hx1. destruct Hx1 as [Hx1 _].
    apply filter_In in Hx1. destruct Hx1 as [HxL Hk1]. apply has_key_true in Hk1. destruct Hk1 as (k1 & Hk1 & E1).
    apply bsel_in in Hx2. destruct Hx2 as (km & Hkm & Es2 & Hx2).
    pose proof (proj1 (Forall_forall _ _) Hb' km Hkm) as Hr. cbn beta in Hr.
    apply (sub_match_in q _ _ x Hr (ids_filter_nodup _ L Hn)) in Hx2. destruct Hx2 as [Hx2 _].
    apply filter_In in Hx2. destruct Hx2 as [_ Hk2]. apply has_key_true in Hk2. destruct Hk2 as (k2 & Hk2 & E2).
    assert (E12 : key_eqb k1 k2 = true).
    { apply (sel_unique Hdd q x); try assumption.
      - rewrite <- (selects_compat q _ _ E1). exact Es.
      - rewrite <- (selects_compat q _ _ E2). exact Es2. }
    assert (E : key_eqb k (fst km) = true).
    { apply (key_trans _ k2); [apply (key_trans _ k1); assumption|rewrite key_sym; exact E2]. }
    pose proof (proj1 (Forall_forall _ _) Hk (fst km) (in_map fst _ _ Hkm)) as Hne. unfold kneq in Hne. congruence.
Qed.

Lemma lrepr_match_nodup Ly L q : lrepr Ly L -> NoDup (ids L) -> NoDup (m_match lops q Ly).
Proof.
  intros HL Hn. pose proof HL as (Hd & (Hb & Hf & Hc) & Hl).
  cbn [m_match lops layer_ops]. unfold l_match. rewrite (buckets_match_eq q _ memo0 (coh0 q)).
  assert (Hsub : forall x, In x (if dedupe then dedupe_ids (bsel q (m_match sub q) (l_buckets Ly))
                                 else bsel q (m_match sub q) (l_buckets Ly))
                           -> In x (bsel q (m_match sub q) (l_buckets Ly))).
  { intros x. destruct dedupe; [apply dedupe_in|exact (fun H => H)]. }
  apply nodup_app.
  - apply (sub_match_nodup _ _ q Hd). apply ids_filter_nodup. exact Hn.
  - destruct (Bool.bool_dec dedupe false) as [Hdd|Hdd].
    + rewrite Hdd. apply (bsel_nodup q _ L); assumption.
    + apply not_false_is_true in Hdd. rewrite Hdd. apply dedupe_nodup.
  - intros x Hx1 Hx2. apply Hsub in Hx2.
    apply (sub_match_in q _ _ x Hd (ids_filter_nodup _ L Hn)) in Hx1. destruct Hx1 as [Hx1 _].
    apply filter_In in Hx1. destruct Hx1 as [_ Hnk].
    pose proof Hx2 as Hx. apply bsel_in in Hx. destruct Hx as (km & Hkm & _ & Hx).
    pose proof (proj1 (Forall_forall _ _) Hb km Hkm) as Hr. cbn beta in Hr.
    apply (sub_match_in q _ _ x Hr (ids_filter_nodup _ L Hn)) in Hx. destruct Hx as [Hx _].
    apply filter_In in Hx. destruct Hx as [_ Hk]. apply has_key_nokeys in Hk. congruence.
Qed.

Lemma lrepr_trace_in Ly L q r :
  lrepr Ly L -> NoDup (ids L) -> (In r (traces_routes (m_trace lops q Ly)) <-> In r L /\ sat r q = true).
Proof.
  intros HL Hn. cbn [m_trace lops layer_ops]. unfold l_trace, traces_routes. rewrite flat_map_app.
  fold (traces_routes (m_trace sub q (l_default Ly))).
  fold (traces_routes (buckets_trace K Sub sub Memo sel_t q memo0 (l_buckets Ly))).
  rewrite (buckets_trace_eq q _ memo0 (coh_t0 q)).
  apply (layer_in q (fun m => traces_routes (m_trace sub q m)) Ly L r); [|exact HL|exact Hn].
  intros m L' r' Hr Hn'. apply (sub_trace_in m L' q r' Hr Hn').
Qed.

(* ---------------------------------------------------------------- cache *)
Definition layer_mspec : mspec (layer_ops K Sub key_eqb sub keys_of Memo memo0 sel sel_t dedupe) ok sat :=
  {| ms_rep := layer_mrep;
     match_nodup := lrepr_match_nodup;
     match_in := lrepr_match_in;
     trace_in := lrepr_trace_in |}.
End LayerProofs.
