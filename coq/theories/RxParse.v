(* RxParse.v — structural facts about the recursive-descent parser of RIO.Rx:
   one-step unfoldings with the atom parser named ([atom_of]), and the "extension" theorem
   [parse_ext]: a successful parse at SOME fuel
     - leaves a suffix of its input,
     - is reproduced at EVERY fuel above an explicit bound in the number of consumed characters,
     - and is unchanged when more input is appended after a non-empty remainder
   (for parse_class / parse_escape / atoms no condition on the remainder is needed). *)
Require Import RIO.Base RIO.Rx.
Close Scope N_scope.
Open Scope nat_scope.

(* appending x is harmless when the parser stopped before the end of its input *)
Definition okx (rest x : list N) : Prop := rest <> [] \/ x = [].
Lemma okx_mono rest mid x : okx rest x -> length rest <= length mid -> okx mid x.
Proof. intros [H|H] Hl; [left|right; exact H]. destruct mid; [destruct rest; [contradiction|cbn in Hl; lia]|discriminate]. Qed.
Lemma okx_cons c r x : okx (c :: r) x. Proof. left. discriminate. Qed.
Lemma okx_nil rest : okx rest []. Proof. right. reflexivity. Qed.

(* ------------------------------------------------------------------ small scanners *)
Lemma take_digits_ext s : forall acc seen n rest, take_digits s acc seen = Some (n, rest) ->
  length rest <= length s /\ forall x, okx rest x -> take_digits (s ++ x) acc seen = Some (n, rest ++ x).
Proof.
  induction s as [|c s IH]; intros acc seen n rest H; cbn [take_digits] in H.
  - destruct seen; [|discriminate]. inversion H; subst. split; [lia|]. intros x [Hx| ->]; [contradiction|reflexivity].
  - destruct (is_digit c) eqn:Ed.
    + apply IH in H. destruct H as [Hl Hx]. split; [cbn [length]; lia|]. intros x Hok. cbn [app take_digits]. rewrite Ed. apply Hx. exact Hok.
    + destruct seen; [|discriminate]. inversion H; subst. split; [lia|]. intros x _. cbn [app take_digits]. rewrite Ed. reflexivity.
Qed.

Lemma take_until_rbrace_ext s : forall acc nm rest, take_until_rbrace s acc = Some (nm, rest) ->
  length rest < length s /\ forall x, take_until_rbrace (s ++ x) acc = Some (nm, rest ++ x).
Proof.
  induction s as [|c s IH]; intros acc nm rest H; cbn [take_until_rbrace] in H; [discriminate|].
  destruct (N.eqb c ch_rbrace) eqn:E.
  - inversion H; subst. split; [cbn [length]; lia|]. intros x. cbn [app take_until_rbrace]. rewrite E. reflexivity.
  - destruct (is_name_char c) eqn:En; [|discriminate].
    apply IH in H. destruct H as [Hl Hx]. split; [cbn [length]; lia|]. intros x. cbn [app take_until_rbrace]. rewrite E, En. apply Hx.
Qed.

Lemma parse_cat_name_ext s nm rest : parse_cat_name s = Some (nm, rest) ->
  length rest < length s /\ forall x, parse_cat_name (s ++ x) = Some (nm, rest ++ x).
Proof.
  destruct s as [|c s]; cbn [parse_cat_name]; [discriminate|]. intros H. destruct (N.eqb c ch_lbrace) eqn:E.
  - apply take_until_rbrace_ext in H. destruct H as [Hl Hx]. split; [cbn [length]; lia|]. intros x. cbn [app parse_cat_name]. rewrite E. apply Hx.
  - destruct (in_range 97 122 c || in_range 65 90 c) eqn:El; [|discriminate].
    inversion H; subst. split; [cbn [length]; lia|]. intros x. cbn [app parse_cat_name]. rewrite E, El. reflexivity.
Qed.

Lemma parse_escape_ext s it rest : parse_escape s = Some (it, rest) ->
  length rest < length s /\ forall x, parse_escape (s ++ x) = Some (it, rest ++ x).
Proof.
  destruct s as [|c s]; [discriminate|]. unfold parse_escape. cbn [app].
  repeat match goal with
         | |- (if N.eqb c ?v then Some (?i, s) else _) = _ -> _ =>
             destruct (N.eqb c v); [intros H; inversion H; subst; split; [cbn [length]; lia|intros x; reflexivity]|]
         end.
  destruct (N.eqb c 112).
  { destruct (parse_cat_name s) as [[nm r]|] eqn:En; [|discriminate]. intros H. inversion H; subst.
    apply parse_cat_name_ext in En. destruct En as [Hl Hx]. split; [cbn [length]; lia|]. intros x. rewrite Hx. reflexivity. }
  destruct (N.eqb c 80).
  { destruct (parse_cat_name s) as [[nm r]|] eqn:En; [|discriminate]. intros H. inversion H; subst.
    apply parse_cat_name_ext in En. destruct En as [Hl Hx]. split; [cbn [length]; lia|]. intros x. rewrite Hx. reflexivity. }
  destruct (is_meta_char c); [|discriminate]. intros H. inversion H; subst. split; [cbn [length]; lia|intros x; reflexivity].
Qed.

(* ------------------------------------------------------------------ classes *)
Definition class_item (c : N) (s' : list N) : option (citem * list N) :=
  if N.eqb c ch_bs then parse_escape s' else if N.eqb c ch_lbrack then None else Some (CChar c, s').
Definition class_hi (e : N) (r3 : list N) : option (citem * list N) :=
  if N.eqb e ch_bs then parse_escape r3 else Some (CChar e, r3).

Definition setop_at (c : N) (s' : list N) : bool := is_setop c && match s' with d :: _ => N.eqb d c | [] => false end.
Lemma setop_at_hd c a b : hd_error a = hd_error b -> setop_at c a = setop_at c b.
Proof. unfold setop_at. destruct a as [|x a], b as [|y b]; cbn [hd_error]; intros H; try discriminate; [reflexivity|]. inversion H; subst. reflexivity. Qed.
Lemma setop_at_app c s' x : s' <> [] -> setop_at c (s' ++ x) = setop_at c s'.
Proof. intros H. apply setop_at_hd. destruct s'; [contradiction|reflexivity]. Qed.

Lemma parse_class_S f c s' acc first : parse_class (S f) (c :: s') acc first =
  if N.eqb c ch_rbrack && negb first then Some (rev acc, s')
  else if setop_at c s' then None
  else
    match class_item c s' with
    | None => None
    | Some (CChar lo, r1) =>
        match r1 with
        | d :: r2 =>
            if N.eqb d ch_minus then
              match r2 with
              | e :: r3 =>
                  if N.eqb e ch_rbrack then parse_class f r1 (CChar lo :: acc) false
                  else if N.eqb e ch_minus then None
                  else
                    match class_hi e r3 with
                    | Some (CChar hi, r4) => if N.leb lo hi then parse_class f r4 (CRange lo hi :: acc) false else None
                    | _ => None
                    end
              | [] => None
              end
            else parse_class f r1 (CChar lo :: acc) false
        | [] => None
        end
    | Some (it, r1) => parse_class f r1 (it :: acc) false
    end.
Proof. reflexivity. Qed.

Lemma class_item_ext c s' it r1 : class_item c s' = Some (it, r1) ->
  length r1 <= length s' /\ forall x, class_item c (s' ++ x) = Some (it, r1 ++ x).
Proof.
  unfold class_item. destruct (N.eqb c ch_bs).
  - intros H. apply parse_escape_ext in H. destruct H as [Hl Hx]. split; [lia|exact Hx].
  - destruct (N.eqb c ch_lbrack); [discriminate|]. intros H. inversion H; subst. split; [lia|reflexivity].
Qed.
Lemma class_hi_ext e r3 it r4 : class_hi e r3 = Some (it, r4) ->
  length r4 <= length r3 /\ forall x, class_hi e (r3 ++ x) = Some (it, r4 ++ x).
Proof.
  unfold class_hi. destruct (N.eqb e ch_bs).
  - intros H. apply parse_escape_ext in H. destruct H as [Hl Hx]. split; [lia|exact Hx].
  - intros H. inversion H; subst. split; [lia|reflexivity].
Qed.

Lemma parse_class_ext F : forall s acc first items rest, parse_class F s acc first = Some (items, rest) ->
  length rest < length s /\
  forall f x, length s - length rest <= f -> parse_class f (s ++ x) acc first = Some (items, rest ++ x).
Proof.
  induction F as [|F IH]; intros s acc first items rest H; [discriminate|].
  destruct s as [|c s']; [discriminate|]. rewrite parse_class_S in H.
  destruct (N.eqb c ch_rbrack && negb first) eqn:E1.
  { inversion H; subst. split; [cbn [length]; lia|]. intros f x Hf. destruct f as [|f]; [cbn [length] in Hf; lia|].
    cbn [app]. rewrite parse_class_S, E1. reflexivity. }
  destruct (setop_at c s') eqn:Eso; [discriminate|].
  destruct (class_item c s') as [[it r1]|] eqn:Ei; [|discriminate].
  destruct (class_item_ext _ _ _ _ Ei) as [Hl1 Hx1].
  assert (Hne : s' <> []).
  { intros ->. destruct r1; [|cbn [length] in Hl1; lia]. destruct it; try discriminate.
    destruct F; discriminate. destruct F; discriminate. destruct F; discriminate. destruct F; discriminate. destruct F; discriminate. }
  assert (Hso : forall x, setop_at c (s' ++ x) = false) by (intros x; rewrite (setop_at_app _ _ _ Hne); exact Eso).
  (* the generic recursive leaf *)
  assert (Hleaf : forall it', (parse_class F r1 (it' :: acc) false = Some (items, rest)) ->
            length rest < length (c :: s') /\
            forall f x, length (c :: s') - length rest <= S f -> parse_class f (r1 ++ x) (it' :: acc) false = Some (items, rest ++ x)).
  { intros it' H'. apply IH in H'. destruct H' as [Hl Hx]. split; [cbn [length]; lia|]. intros f x Hf. apply Hx. cbn [length] in Hf. lia. }
  destruct it as [lo|lo0 hi0|ng nm|ng|ng|ng].
  2-6: (destruct (Hleaf _ H) as [Hl Hx]; split; [exact Hl|]; intros f x Hf; destruct f as [|f]; [cbn [length] in Hf, Hl; lia|];
        cbn [app]; rewrite parse_class_S, E1, Hso, Hx1; apply Hx; exact Hf).
  destruct r1 as [|d r2]; [discriminate|].
  destruct (N.eqb d ch_minus) eqn:Ed.
  - destruct r2 as [|e r3]; [discriminate|]. destruct (N.eqb e ch_rbrack) eqn:Ee.
    + destruct (Hleaf _ H) as [Hl Hx]. split; [exact Hl|]. intros f x Hf. destruct f as [|f]; [cbn [length] in Hf, Hl; lia|].
      cbn [app]. rewrite parse_class_S, E1, Hso, Hx1. cbn [app]. rewrite Ed, Ee. apply (Hx f x Hf).
    + destruct (N.eqb e ch_minus) eqn:Em; [discriminate|].
      destruct (class_hi e r3) as [[ith r4]|] eqn:Eh; [|discriminate].
      destruct (class_hi_ext _ _ _ _ Eh) as [Hl4 Hx4].
      destruct ith as [hi|lo0 hi0|ng nm|ng|ng|ng]; try discriminate.
      destruct (N.leb lo hi) eqn:Ele; [|discriminate].
      apply IH in H. destruct H as [Hl Hx]. cbn [length] in Hl1. split; [cbn [length]; lia|].
      intros f x Hf. destruct f as [|f]; [cbn [length] in Hf; lia|].
      cbn [app]. rewrite parse_class_S, E1, Hso, Hx1. cbn [app]. rewrite Ed, Ee, Em, Hx4, Ele. apply Hx. cbn [length] in Hf. lia.
  - destruct (Hleaf _ H) as [Hl Hx]. split; [exact Hl|]. intros f x Hf. destruct f as [|f]; [cbn [length] in Hf, Hl; lia|].
    cbn [app]. rewrite parse_class_S, E1, Hso, Hx1. cbn [app]. rewrite Ed. apply (Hx f x Hf).
Qed.

(* ------------------------------------------------------------------ quantifiers *)
Lemma wrap_quant_ext g s r' s'' : wrap_quant g s = (r', s'') ->
  length s'' <= length s /\ forall x, okx s'' x -> wrap_quant g (s ++ x) = (r', s'' ++ x).
Proof.
  destruct s as [|c s]; cbn [wrap_quant].
  - intros H. inversion H; subst. split; [lia|]. intros x [Hx| ->]; [contradiction|reflexivity].
  - destruct (N.eqb c ch_q) eqn:E; intros H; inversion H; subst.
    + split; [cbn [length]; lia|]. intros x _. cbn [app wrap_quant]. rewrite E. reflexivity.
    + split; [lia|]. intros x _. cbn [app wrap_quant]. rewrite E. reflexivity.
Qed.

(* one quantifier: [Some (Some (r', s''))] consumed, [Some None] not a quantifier character, [None] malformed *)
Definition quant_one (r : rx) (c : N) (s' : list N) : option (option (rx * list N)) :=
  if N.eqb c ch_star then Some (Some (wrap_quant (fun g => RStar g r) s'))
  else if N.eqb c ch_plus then Some (Some (wrap_quant (fun g => RPlus g r) s'))
  else if N.eqb c ch_q then Some (Some (wrap_quant (fun g => ROpt g r) s'))
  else if N.eqb c ch_lbrace then
    match take_digits s' 0 false with
    | None => None
    | Some (lo, s1) =>
        match s1 with
        | d :: s2 =>
            if N.eqb d ch_rbrace then Some (Some (wrap_quant (fun g => RRep g lo (Some lo) r) s2))
            else if N.eqb d ch_comma then
              match s2 with
              | e :: s3 =>
                  if N.eqb e ch_rbrace then Some (Some (wrap_quant (fun g => RRep g lo None r) s3))
                  else match take_digits s2 0 false with
                       | Some (hi, s4) =>
                           match s4 with
                           | z :: s5 => if N.eqb z ch_rbrace && Nat.leb lo hi
                                        then Some (Some (wrap_quant (fun g => RRep g lo (Some hi) r) s5))
                                        else None
                           | [] => None
                           end
                       | None => None
                       end
              | [] => None
              end
            else None
        | [] => None
        end
    end
  else Some None.

Lemma parse_quants_S f r c s' : parse_quants (S f) r (c :: s') =
  match quant_one r c s' with
  | None => None
  | Some None => Some (r, c :: s')
  | Some (Some (r', s'')) => parse_quants f r' s''
  end.
Proof.
  cbn [parse_quants]. unfold quant_one.
  destruct (N.eqb c ch_star); [destruct (wrap_quant _ s'); reflexivity|].
  destruct (N.eqb c ch_plus); [destruct (wrap_quant _ s'); reflexivity|].
  destruct (N.eqb c ch_q); [destruct (wrap_quant _ s'); reflexivity|].
  destruct (N.eqb c ch_lbrace); [|reflexivity].
  destruct (take_digits s' 0 false) as [[lo s1]|]; [|reflexivity].
  destruct s1 as [|d s2]; [reflexivity|].
  destruct (N.eqb d ch_rbrace); [destruct (wrap_quant _ s2); reflexivity|].
  destruct (N.eqb d ch_comma); [|reflexivity].
  destruct s2 as [|e s3]; [reflexivity|].
  destruct (N.eqb e ch_rbrace); [destruct (wrap_quant _ s3); reflexivity|].
  destruct (take_digits (e :: s3) 0 false) as [[hi s4]|]; [|reflexivity].
  destruct s4 as [|z s5]; [reflexivity|].
  destruct (N.eqb z ch_rbrace && Nat.leb lo hi); [destruct (wrap_quant _ s5); reflexivity|reflexivity].
Qed.

Lemma quant_one_none r c s' : quant_one r c s' = Some None -> forall r2 x, quant_one r2 c x = Some None.
Proof.
  unfold quant_one. intros H r2 x.
  destruct (N.eqb c ch_star); [discriminate|]. destruct (N.eqb c ch_plus); [discriminate|].
  destruct (N.eqb c ch_q); [discriminate|]. destruct (N.eqb c ch_lbrace); [|reflexivity].
  exfalso. destruct (take_digits s' 0 false) as [[lo s1]|]; [|discriminate]. destruct s1 as [|d s2]; [discriminate|].
  destruct (N.eqb d ch_rbrace); [discriminate|]. destruct (N.eqb d ch_comma); [|discriminate].
  destruct s2 as [|e s3]; [discriminate|]. destruct (N.eqb e ch_rbrace); [discriminate|].
  destruct (take_digits (e :: s3) 0 false) as [[hi s4]|]; [|discriminate]. destruct s4 as [|z s5]; [discriminate|].
  destruct (N.eqb z ch_rbrace && Nat.leb lo hi); discriminate.
Qed.

Lemma quant_one_ext r c s' r' s'' : quant_one r c s' = Some (Some (r', s'')) ->
  length s'' <= length s' /\ forall x, okx s'' x -> quant_one r c (s' ++ x) = Some (Some (r', s'' ++ x)).
Proof.
  unfold quant_one.
  assert (Hw : forall g s, Some (Some (wrap_quant g s)) = Some (Some (r', s'')) ->
            length s'' <= length s /\ forall x, okx s'' x -> Some (Some (wrap_quant g (s ++ x))) = Some (Some (r', s'' ++ x))).
  { intros g s H. inversion H as [H']. apply wrap_quant_ext in H'. destruct H' as [Hl Hx]. split; [exact Hl|].
    intros x Hok. rewrite (Hx x Hok). reflexivity. }
  destruct (N.eqb c ch_star); [apply Hw|]. destruct (N.eqb c ch_plus); [apply Hw|]. destruct (N.eqb c ch_q); [apply Hw|].
  destruct (N.eqb c ch_lbrace); [|discriminate].
  destruct (take_digits s' 0 false) as [[lo s1]|] eqn:Et; [|discriminate].
  apply take_digits_ext in Et. destruct Et as [Hl1 Hx1].
  destruct s1 as [|d s2]; [discriminate|]. cbn [length] in Hl1.
  destruct (N.eqb d ch_rbrace) eqn:Ed.
  { intros H. apply Hw in H. destruct H as [Hl Hx]. split; [lia|]. intros x Hok.
    rewrite (Hx1 x (okx_cons _ _ _)). cbn [app]. rewrite Ed. apply Hx. exact Hok. }
  destruct (N.eqb d ch_comma) eqn:Ec; [|discriminate].
  destruct s2 as [|e s3]; [discriminate|]. cbn [length] in Hl1.
  destruct (N.eqb e ch_rbrace) eqn:Ee.
  { intros H. apply Hw in H. destruct H as [Hl Hx]. split; [lia|]. intros x Hok.
    rewrite (Hx1 x (okx_cons _ _ _)). cbn [app]. rewrite Ed, Ec, Ee. apply Hx. exact Hok. }
  destruct (take_digits (e :: s3) 0 false) as [[hi s4]|] eqn:Et2; [|discriminate].
  apply take_digits_ext in Et2. destruct Et2 as [Hl2 Hx2]. cbn [length] in Hl2.
  destruct s4 as [|z s5]; [discriminate|]. cbn [length] in Hl2.
  destruct (N.eqb z ch_rbrace && Nat.leb lo hi) eqn:Ez; [|discriminate].
  intros H. apply Hw in H. destruct H as [Hl Hx]. split; [lia|]. intros x Hok.
  rewrite (Hx1 x (okx_cons _ _ _)). cbn [app]. rewrite Ed, Ec, Ee.
  change (e :: s3 ++ x) with ((e :: s3) ++ x). rewrite (Hx2 x (okx_cons _ _ _)). cbn [app]. rewrite Ez. apply Hx. exact Hok.
Qed.

Lemma parse_quants_ext F : forall r s r' rest, parse_quants F r s = Some (r', rest) ->
  length rest <= length s /\
  forall f x, length s - length rest + 1 <= f -> okx rest x -> parse_quants f r (s ++ x) = Some (r', rest ++ x).
Proof.
  induction F as [|F IH]; intros r s r' rest H; [discriminate|].
  destruct s as [|c s'].
  - cbn [parse_quants] in H. inversion H; subst. split; [lia|]. intros f x Hf [Hx| ->]; [contradiction|].
    destruct f as [|f]; [lia|]. reflexivity.
  - rewrite parse_quants_S in H. destruct (quant_one r c s') as [[[r1 s1]|]|] eqn:Eq; [| |discriminate].
    + destruct (quant_one_ext _ _ _ _ _ Eq) as [Hl1 Hx1]. apply IH in H. destruct H as [Hl Hx].
      split; [cbn [length]; lia|]. intros f x Hf Hok. destruct f as [|f]; [lia|].
      cbn [app]. rewrite parse_quants_S, (Hx1 x (okx_mono _ _ _ Hok Hl)). apply Hx; [cbn [length] in Hf; lia|exact Hok].
    + inversion H; subst. split; [lia|]. intros f x Hf _. destruct f as [|f]; [lia|].
      cbn [app]. rewrite parse_quants_S, (quant_one_none _ _ _ Eq). reflexivity.
Qed.

(* ------------------------------------------------------------------ atoms, concatenation, alternation *)
Definition cat (acc a : rx) : rx := match acc with REmpty => a | _ => RCat acc a end.

Definition atom_of (pa : list N -> nat -> option (rx * list N * nat))
                   (pcl : list N -> list citem -> bool -> option (list citem * list N))
                   (c : N) (s' : list N) (gi : nat) : option (rx * list N * nat) :=
  if N.eqb c ch_lparen then
    match s' with
    | q :: k :: s2 =>
        if N.eqb q ch_q && N.eqb k ch_colon then
          match pa s2 gi with
          | Some (r, rp :: rest, gi') => if N.eqb rp ch_rparen then Some (RGroup None r, rest, gi') else None
          | _ => None
          end
        else if N.eqb q ch_q then None
        else
          match pa s' (S gi) with
          | Some (r, rp :: rest, gi') => if N.eqb rp ch_rparen then Some (RGroup (Some gi) r, rest, gi') else None
          | _ => None
          end
    | _ =>
        match pa s' (S gi) with
        | Some (r, rp :: rest, gi') => if N.eqb rp ch_rparen then Some (RGroup (Some gi) r, rest, gi') else None
        | _ => None
        end
    end
  else if N.eqb c ch_lbrack then
    match s' with
    | n :: s2 =>
        if N.eqb n ch_caret then
          match pcl s2 [] true with Some (items, rest) => Some (RClass true items, rest, gi) | None => None end
        else
          match pcl s' [] true with Some (items, rest) => Some (RClass false items, rest, gi) | None => None end
    | [] => None
    end
  else if N.eqb c ch_dot then Some (RAny, s', gi)
  else if N.eqb c ch_caret then Some (RBol, s', gi)
  else if N.eqb c ch_dollar then Some (REol, s', gi)
  else if N.eqb c ch_bs then
    match parse_escape s' with
    | Some (CChar x, rest) => Some (RChar x, rest, gi)
    | Some (it, rest) => Some (RClass false [it], rest, gi)
    | None => None
    end
  else if N.eqb c ch_star || N.eqb c ch_plus || N.eqb c ch_q then None
  else if N.eqb c ch_lbrace then None
  else Some (RChar c, s', gi).

Lemma parse_cat_S f s gi acc : parse_cat (S f) s gi acc =
  match s with
  | [] => Some (acc, s, gi)
  | c :: s' =>
      if N.eqb c ch_bar || N.eqb c ch_rparen then Some (acc, s, gi)
      else
        match atom_of (parse_alt f) (parse_class f) c s' gi with
        | None => None
        | Some (a, rest, gi') =>
            match parse_quants f a rest with
            | None => None
            | Some (a', rest') => parse_cat f rest' gi' (cat acc a')
            end
        end
  end.
Proof. reflexivity. Qed.

Lemma parse_alt_S f s gi : parse_alt (S f) s gi =
  match parse_cat f s gi REmpty with
  | None => None
  | Some (r, rest, gi') =>
      match rest with
      | c :: rest' =>
          if N.eqb c ch_bar then
            match parse_alt f rest' gi' with
            | Some (r2, rest2, gi2) => Some (RAlt r r2, rest2, gi2)
            | None => None
            end
          else Some (r, rest, gi')
      | [] => Some (r, rest, gi')
      end
  end.
Proof. reflexivity. Qed.

Definition alt_ext (F : nat) : Prop :=
  forall s gi r rest gi', parse_alt F s gi = Some (r, rest, gi') ->
  length rest <= length s /\
  forall f x, 2 * (length s - length rest) + 2 <= f -> okx rest x -> parse_alt f (s ++ x) gi = Some (r, rest ++ x, gi').
Definition cat_ext (F : nat) : Prop :=
  forall s gi acc r rest gi', parse_cat F s gi acc = Some (r, rest, gi') ->
  length rest <= length s /\
  forall f x, 2 * (length s - length rest) + 1 <= f -> okx rest x -> parse_cat f (s ++ x) gi acc = Some (r, rest ++ x, gi').

(* closing parenthesis after a group body *)
Lemma close_inv (res : option (rx * list N * nat)) idx a rest0 gi0 :
  match res with
  | Some (r, rp :: rest, gi') => if N.eqb rp ch_rparen then Some (RGroup idx r, rest, gi') else None
  | _ => None
  end = Some (a, rest0, gi0) ->
  exists r, res = Some (r, ch_rparen :: rest0, gi0) /\ a = RGroup idx r.
Proof.
  destruct res as [[[r [|rp rest]] gi']|]; try discriminate. destruct (N.eqb rp ch_rparen) eqn:E; [|discriminate].
  apply N.eqb_eq in E. subst rp. intros H. inversion H; subst. exists r. split; reflexivity.
Qed.

Lemma atom_of_ext F c s' gi a rest gi' : alt_ext F ->
  atom_of (parse_alt F) (parse_class F) c s' gi = Some (a, rest, gi') ->
  length rest <= length s' /\
  forall f x, 2 * (length s' - length rest) + 2 <= f ->
    atom_of (parse_alt f) (parse_class f) c (s' ++ x) gi = Some (a, rest ++ x, gi').
Proof.
  intros HA. unfold atom_of.
  (* the capturing-group leaf, for any s' *)
  assert (Hcap : match parse_alt F s' (S gi) with
                 | Some (r, rp :: rest1, gi1) => if N.eqb rp ch_rparen then Some (RGroup (Some gi) r, rest1, gi1) else None
                 | _ => None
                 end = Some (a, rest, gi') ->
                 length rest <= length s' /\
                 forall f x, 2 * (length s' - length rest) + 2 <= f ->
                   match parse_alt f (s' ++ x) (S gi) with
                   | Some (r, rp :: rest1, gi1) => if N.eqb rp ch_rparen then Some (RGroup (Some gi) r, rest1, gi1) else None
                   | _ => None
                   end = Some (a, rest ++ x, gi')).
  { intros H. apply close_inv in H. destruct H as (r & Hr & ->). apply HA in Hr. destruct Hr as [Hl Hx]. cbn [length] in Hl.
    split; [lia|]. intros f x Hf. rewrite (Hx f x); [|cbn [length]; lia|apply okx_cons]. cbn [app]. rewrite N.eqb_refl. reflexivity. }
  destruct (N.eqb c ch_lparen).
  { destruct s' as [|q [|k s2]].
    - intros H. apply close_inv in H. destruct H as (r & Hr & _). apply HA in Hr. destruct Hr as [Hl _]. cbn [length] in Hl. lia.
    - destruct (N.eqb q ch_q) eqn:Eq.
      + apply N.eqb_eq in Eq. subst q. intros H. exfalso. apply close_inv in H. destruct H as (r & Hr & _).
        destruct F as [|[|F]]; [discriminate|discriminate|]. rewrite parse_alt_S, parse_cat_S in Hr. discriminate.
      + intros H. destruct (Hcap H) as [Hl Hx]. split; [exact Hl|]. intros f x Hf.
        destruct x as [|k x2]; [exact (Hx f [] Hf)|]. cbn [app]. rewrite Eq. cbn [andb]. exact (Hx f (k :: x2) Hf).
    - destruct (N.eqb q ch_q && N.eqb k ch_colon) eqn:E1.
      + intros H. apply close_inv in H. destruct H as (r & Hr & ->). apply HA in Hr. destruct Hr as [Hl Hx]. cbn [length] in Hl.
        split; [cbn [length]; lia|]. intros f x Hf. cbn [app]. rewrite E1.
        rewrite (Hx f x); [|cbn [length] in *; lia|apply okx_cons]. cbn [app]. rewrite N.eqb_refl. reflexivity.
      + destruct (N.eqb q ch_q) eqn:E2; [discriminate|]. intros H. destruct (Hcap H) as [Hl Hx]. split; [exact Hl|].
        intros f x Hf. cbn [app]. rewrite E2. cbn [andb]. exact (Hx f x Hf). }
  destruct (N.eqb c ch_lbrack).
  { destruct s' as [|n s2]; [discriminate|]. destruct (N.eqb n ch_caret) eqn:En.
    - destruct (parse_class F s2 [] true) as [[items rest1]|] eqn:Ec; [|discriminate]. intros H. inversion H; subst.
      apply parse_class_ext in Ec. destruct Ec as [Hl Hx]. split; [cbn [length]; lia|]. intros f x Hf.
      cbn [app]. rewrite En, (Hx f x); [reflexivity|cbn [length] in Hf; lia].
    - destruct (parse_class F (n :: s2) [] true) as [[items rest1]|] eqn:Ec; [|discriminate]. intros H. inversion H; subst.
      apply parse_class_ext in Ec. destruct Ec as [Hl Hx]. split; [lia|]. intros f x Hf.
      cbn [app]. rewrite En. change (n :: s2 ++ x) with ((n :: s2) ++ x). rewrite (Hx f x); [reflexivity|lia]. }
  destruct (N.eqb c ch_dot); [intros H; inversion H; subst; split; [lia|reflexivity]|].
  destruct (N.eqb c ch_caret); [intros H; inversion H; subst; split; [lia|reflexivity]|].
  destruct (N.eqb c ch_dollar); [intros H; inversion H; subst; split; [lia|reflexivity]|].
  destruct (N.eqb c ch_bs).
  { destruct (parse_escape s') as [[it rest1]|] eqn:Ee; [|discriminate]. apply parse_escape_ext in Ee. destruct Ee as [Hl Hx].
    intros H. split; [destruct it; inversion H; subst; lia|]. intros f x Hf. rewrite Hx. destruct it; inversion H; subst; reflexivity. }
  destruct (N.eqb c ch_star || N.eqb c ch_plus || N.eqb c ch_q); [discriminate|].
  destruct (N.eqb c ch_lbrace); [discriminate|].
  intros H; inversion H; subst; split; [lia|reflexivity].
Qed.

Theorem parse_ext F : alt_ext F /\ cat_ext F.
Proof.
  induction F as [|F [IHA IHC]]; [split; [intros ? ? ? ? ? H|intros ? ? ? ? ? ? H]; discriminate|]. split.
  - (* parse_alt *)
    intros s gi r rest gi' H. rewrite parse_alt_S in H.
    destruct (parse_cat F s gi REmpty) as [[[r1 rest1] gi1]|] eqn:Ec; [|discriminate].
    destruct (IHC _ _ _ _ _ _ Ec) as [Hl1 Hx1].
    assert (Hstop : Some (r1, rest1, gi1) = Some (r, rest, gi') ->
              (forall c t, rest1 = c :: t -> N.eqb c ch_bar = false) ->
              length rest <= length s /\ forall f x, 2 * (length s - length rest) + 2 <= f -> okx rest x -> parse_alt f (s ++ x) gi = Some (r, rest ++ x, gi')).
    { intros H' Hnb. inversion H'; subst. split; [exact Hl1|]. intros f x Hf Hok. destruct f as [|f]; [lia|].
      rewrite parse_alt_S, (Hx1 f x); [|lia|exact Hok]. destruct rest as [|c t].
      - destruct Hok as [Hok| ->]; [contradiction|]. reflexivity.
      - cbn [app]. rewrite (Hnb c t eq_refl). reflexivity. }
    destruct rest1 as [|c rest1']; [apply Hstop; [exact H|intros; discriminate]|].
    destruct (N.eqb c ch_bar) eqn:Eb; [|apply Hstop; [exact H|intros c0 t E; inversion E; subst; exact Eb]].
    destruct (parse_alt F rest1' gi1) as [[[r2 rest2] gi2]|] eqn:Ea; [|discriminate]. inversion H; subst.
    destruct (IHA _ _ _ _ _ Ea) as [Hl2 Hx2]. cbn [length] in Hl1. split; [lia|].
    intros f x Hf Hok. destruct f as [|f]; [lia|].
    rewrite parse_alt_S, (Hx1 f x); [|cbn [length]; lia|apply okx_cons]. cbn [app]. rewrite Eb.
    rewrite (Hx2 f x); [reflexivity|lia|exact Hok].
  - (* parse_cat *)
    intros s gi acc r rest gi' H. rewrite parse_cat_S in H.
    destruct s as [|c s'].
    { inversion H; subst. split; [lia|]. intros f x Hf [Hx| ->]; [contradiction|]. destruct f as [|f]; [lia|]. reflexivity. }
    destruct (N.eqb c ch_bar || N.eqb c ch_rparen) eqn:Es.
    { inversion H; subst. split; [lia|]. intros f x Hf _. destruct f as [|f]; [lia|]. cbn [app]. rewrite parse_cat_S, Es. reflexivity. }
    destruct (atom_of (parse_alt F) (parse_class F) c s' gi) as [[[a rest1] gi1]|] eqn:Eat; [|discriminate].
    destruct (atom_of_ext _ _ _ _ _ _ _ IHA Eat) as [Hl1 Hx1].
    destruct (parse_quants F a rest1) as [[a' rest2]|] eqn:Eq; [|discriminate].
    destruct (parse_quants_ext _ _ _ _ _ Eq) as [Hl2 Hx2].
    destruct (IHC _ _ _ _ _ _ H) as [Hl3 Hx3].
    split; [cbn [length]; lia|]. intros f x Hf Hok. destruct f as [|f]; [lia|]. cbn [length] in Hf.
    cbn [app]. rewrite parse_cat_S, Es, (Hx1 f x); [|lia].
    rewrite (Hx2 f x); [|lia|exact (okx_mono _ _ _ Hok Hl3)].
    apply Hx3; [lia|exact Hok].
Qed.

(* corollaries in the shape used downstream *)
Definition PAlt (s : list N) (gi : nat) (res : rx * list N * nat) : Prop := exists F, parse_alt F s gi = Some res.
Definition PCat (s : list N) (gi : nat) (acc : rx) (res : rx * list N * nat) : Prop := exists F, parse_cat F s gi acc = Some res.

Lemma PCat_fuel s gi acc r rest gi' : PCat s gi acc (r, rest, gi') ->
  length rest <= length s /\ forall f, 2 * (length s - length rest) + 1 <= f -> parse_cat f s gi acc = Some (r, rest, gi').
Proof.
  intros [F H]. destruct (proj2 (parse_ext F) _ _ _ _ _ _ H) as [Hl Hx]. split; [exact Hl|]. intros f Hf.
  specialize (Hx f [] Hf (okx_nil _)). rewrite !app_nil_r in Hx. exact Hx.
Qed.
Lemma PAlt_fuel s gi r rest gi' : PAlt s gi (r, rest, gi') ->
  length rest <= length s /\ forall f, 2 * (length s - length rest) + 2 <= f -> parse_alt f s gi = Some (r, rest, gi').
Proof.
  intros [F H]. destruct (proj1 (parse_ext F) _ _ _ _ _ H) as [Hl Hx]. split; [exact Hl|]. intros f Hf.
  specialize (Hx f [] Hf (okx_nil _)). rewrite !app_nil_r in Hx. exact Hx.
Qed.
Lemma PAlt_parse s r g : PAlt s 1 (r, [], g) -> parse s = Some r.
Proof.
  intros H. apply PAlt_fuel in H. destruct H as [_ H]. unfold parse. rewrite H; [reflexivity|cbn [length]; lia].
Qed.
