(* Prefix.v — src/regex_radix_tree/prefix.rs transliterated (scanner state was_escape / group_level /
   class_level / class_start / class_range, as repaired in 9944bb4 and 4f24679: a parenthesis inside a character
   class is a literal, and so is whatever follows the '-' of a range),
   the token shape of rule regexes (escaped literals interleaved with parenthesised groups) and the
   cut lemma: common_prefix_char_size only ever cuts on a common token boundary. *)
Require Import RIO.Base.
Open Scope N_scope.

Definition chr := N.
Definition LP : chr := 40. Definition RP : chr := 41. Definition BS : chr := 92.
Definition LB : chr := 91. Definition RB : chr := 93. Definition CARET : chr := 94. Definition MINUS : chr := 45.

(* esc = was_escape, lvl = group_level, cl = class_level (depth of nested character classes),
   cs = class_start (2: '[' just read, 1: '[^' just read, 0: elsewhere),
   cr = class_range (an unescaped '-' after an item of the class has just been read) *)
Record sc := { esc : bool; lvl : Z; cl : nat; cs : nat; cr : bool }.
Definition sc0 := {| esc := false; lvl := 0%Z; cl := 0%nat; cs := 0%nat; cr := false |}.
Definition sc_step (s : sc) (c : chr) : sc :=
  let ne := negb (esc s) in
  let inc := Nat.ltb 0 (cl s) in
  let l := if inc then lvl s
           else if (c =? LB) && ne then lvl s
           else if (c =? LP) && ne then (lvl s + 1)%Z
           else if (c =? RP) && ne then (lvl s - 1)%Z else lvl s in
  let k := if inc then
             (if ne then
                if cr s then (if c =? RB then Nat.pred (cl s) else cl s)
                else if c =? LB then S (cl s)
                else if (c =? RB) && Nat.eqb (cs s) 0 then Nat.pred (cl s)
                else cl s
              else cl s)
           else if (c =? LB) && ne then 1%nat else cl s in
  let st := if inc then
              (if ne then
                 if cr s then cs s
                 else if c =? LB then 2%nat
                 else if (c =? RB) && Nat.eqb (cs s) 0 then cs s
                 else if (c =? CARET) && Nat.eqb (cs s) 2 then 1%nat
                 else 0%nat
               else 0%nat)
            else if (c =? LB) && ne then 2%nat else cs s in
  let r := if inc then
             (if ne then
                if cr s then false
                else if c =? LB then cr s
                else if (c =? RB) && Nat.eqb (cs s) 0 then cr s
                else if (c =? CARET) && Nat.eqb (cs s) 2 then cr s
                else (c =? MINUS) && Nat.eqb (cs s) 0
              else false)
           else cr s in
  let e := if (c =? BS) && ne then true else false in
  {| esc := e; lvl := l; cl := k; cs := st; cr := r |}.
Definition cut_ok (s : sc) : bool := (lvl s =? 0)%Z && Nat.eqb (cl s) 0 && negb (esc s).
Arguments sc_step : simpl never.
Arguments cut_ok : simpl never.

Fixpoint cpcs (l r : list chr) (s : sc) (i pl : nat) : nat :=
  match l, r with
  | a :: l', b :: r' =>
      if a =? b then
        let s' := sc_step s a in
        let i' := S i in
        cpcs l' r' s' i' (if cut_ok s' then i' else pl)
      else pl
  | _, _ => pl
  end.
Definition common_prefix_char_size l r := cpcs l r sc0 0 0.

(* ---- tokens ---- *)
Definition metas : list chr := [92;46;43;42;63;40;41;124;91;93;123;125;94;36;35;38;45;126].
Definition is_meta (c : chr) : bool := existsb (N.eqb c) metas.
Inductive tok := TLit (c : chr) | TGrp (body : list chr).
Definition render1 (t : tok) : list chr :=
  match t with TLit c => if is_meta c then [BS; c] else [c] | TGrp b => LP :: b ++ [RP] end.
Definition render (ts : list tok) : list chr := flat_map render1 ts.

Definition scan (s : sc) (l : list chr) : sc := fold_left sc_step l s.
(* body stays at group depth >= 1 and ends at depth 1 outside an escape and outside a character class,
   starting from depth 1 *)
Fixpoint body_ok_from (s : sc) (b : list chr) : bool :=
  match b with
  | [] => (lvl s =? 1)%Z && Nat.eqb (cl s) 0 && negb (esc s)
  | c :: b' => let s' := sc_step s c in (1 <=? lvl s')%Z && body_ok_from s' b'
  end.
Definition s1 := {| esc := false; lvl := 1%Z; cl := 0%nat; cs := 0%nat; cr := false |}.
Definition tok_ok (t : tok) : bool := match t with TLit _ => true | TGrp b => body_ok_from s1 b end.

(* last cut position reached while scanning a common prefix w, counting from i, current best pl *)
Fixpoint last_cut (w : list chr) (s : sc) (i pl : nat) : nat :=
  match w with [] => pl | a :: w' => let s' := sc_step s a in last_cut w' s' (S i) (if cut_ok s' then S i else pl) end.
Fixpoint lcp (l r : list chr) : list chr :=
  match l, r with a :: l', b :: r' => if a =? b then a :: lcp l' r' else [] | _, _ => [] end.
Lemma cpcs_last_cut l : forall r s i pl, cpcs l r s i pl = last_cut (lcp l r) s i pl.
Proof. induction l as [|a l IH]; intros [|b r] s i pl; simpl; try reflexivity.
  destruct (a =? b); simpl; [apply IH|reflexivity]. Qed.

Definition prefix {A} (w l : list A) := exists x, l = w ++ x.
Lemma lcp_prefix_l l : forall r, prefix (lcp l r) l.
Proof. induction l as [|a l IH]; intros [|b r]; simpl; try (exists []; reflexivity); try (eexists; reflexivity).
  destruct (a =? b); [|eexists; reflexivity]. destruct (IH r) as [x Hx]. exists x. simpl. f_equal. exact Hx. Qed.
Lemma lcp_prefix_r l : forall r, prefix (lcp l r) r.
Proof. induction l as [|a l IH]; intros [|b r]; simpl; try (exists []; reflexivity); try (eexists; reflexivity).
  destruct (a =? b) eqn:E; [|eexists; reflexivity]. apply N.eqb_eq in E. subst. destruct (IH r) as [x Hx]. exists x. simpl. f_equal. exact Hx. Qed.

(* --- scanning one token --- *)
Lemma is_meta_BS : is_meta BS = true. Proof. reflexivity. Qed.
Lemma is_meta_LP : is_meta LP = true. Proof. reflexivity. Qed.
Lemma is_meta_RP : is_meta RP = true. Proof. reflexivity. Qed.
Lemma is_meta_LB : is_meta LB = true. Proof. reflexivity. Qed.
Lemma nonmeta_neq c : is_meta c = false -> c <> BS /\ c <> LP /\ c <> RP.
Proof. intros H. repeat split; intros ->; discriminate. Qed.
Lemma nonmeta_neq_LB c : is_meta c = false -> c <> LB.
Proof. intros H ->. discriminate. Qed.

(* class_start is 0 and class_range is false outside a class, class_range implies class_start = 0:
   an invariant of the scanner *)
Definition sc_inv (s : sc) : Prop := (cl s = 0%nat -> cs s = 0%nat /\ cr s = false) /\ (cr s = true -> cs s = 0%nat).
Lemma sc_inv0 : sc_inv sc0. Proof. split; [intros _; split; reflexivity|discriminate]. Qed.
Lemma sc_inv1 : sc_inv s1. Proof. split; [intros _; split; reflexivity|discriminate]. Qed.
Lemma step_inv s c : sc_inv s -> sc_inv (sc_step s c).
Proof.
  unfold sc_inv, sc_step. destruct s as [e l k st r]. cbn [esc lvl cl cs cr]. intros [H1 H2].
  destruct k as [|k]; cbn [Nat.ltb Nat.leb].
  - destruct (H1 eq_refl) as [-> ->]. destruct ((c =? LB) && negb e); split; try discriminate; intros _; split; reflexivity.
  - destruct (negb e); [|split; [intros _; split; reflexivity|discriminate]].
    destruct r.
    + rewrite (H2 eq_refl). split; [intros _; split; reflexivity|discriminate].
    + destruct (c =? LB); [split; discriminate|].
      destruct ((c =? RB) && Nat.eqb st 0) eqn:E.
      * apply andb_prop in E. destruct E as [_ E]. apply Nat.eqb_eq in E. subst st. split; [intros _; split; reflexivity|discriminate].
      * destruct ((c =? CARET) && Nat.eqb st 2); split; try discriminate; intros _; reflexivity.
Qed.
Lemma scan_inv b : forall s, sc_inv s -> sc_inv (scan s b).
Proof. induction b as [|c b IH]; intros s H; [exact H|]. cbn [scan fold_left]. apply IH. apply step_inv. exact H. Qed.

(* outside a class and outside an escape *)
Lemma step_plain s c : is_meta c = false -> esc s = false -> cl s = 0%nat -> sc_step s c = s.
Proof. intros Hm He Hc. destruct (nonmeta_neq c Hm) as (H1 & H2 & H3). pose proof (nonmeta_neq_LB c Hm) as H4. unfold sc_step.
  apply N.eqb_neq in H1, H2, H3, H4. rewrite H1, H2, H3, H4, He, Hc. destruct s; cbn [esc lvl cl cs cr] in *; subst; reflexivity. Qed.
Lemma step_bs s : esc s = false -> cl s = 0%nat -> sc_step s BS = {| esc := true; lvl := lvl s; cl := cl s; cs := cs s; cr := cr s |}.
Proof. intros He Hc. unfold sc_step. rewrite He, Hc. reflexivity. Qed.
Lemma step_escaped s c : esc s = true -> cl s = 0%nat -> sc_step s c = {| esc := false; lvl := lvl s; cl := cl s; cs := cs s; cr := cr s |}.
Proof. intros He Hc. unfold sc_step. rewrite He, Hc. cbn [negb Nat.ltb Nat.leb]. rewrite !andb_false_r. reflexivity. Qed.
(* the group level only moves outside classes, by one *)
Lemma step_lvl_class s c : cl s <> 0%nat -> lvl (sc_step s c) = lvl s.
Proof. intros H. unfold sc_step. cbn [lvl]. destruct (cl s) as [|k]; [contradiction|reflexivity]. Qed.

Lemma cut_ok_lvl s : (1 <= lvl s)%Z -> cut_ok s = false.
Proof. intros H. unfold cut_ok. destruct (lvl s =? 0)%Z eqn:E; [apply Z.eqb_eq in E; lia|reflexivity]. Qed.

(* body scanning: last_cut never updates inside, and the state after the body is s1 *)
Lemma body_scan b : forall s i pl, sc_inv s -> (1 <= lvl s)%Z -> body_ok_from s b = true ->
   last_cut b s i pl = pl /\ scan s b = s1 /\
   (forall w x, b = w ++ x -> (1 <= lvl (scan s w))%Z).
Proof. induction b as [|c b IH]; intros s i pl Hi Hl Hok; cbn [body_ok_from] in Hok; cbn [last_cut scan fold_left].
  - apply andb_prop in Hok. destruct Hok as [Hok H3]. apply andb_prop in Hok. destruct Hok as [H1 H2].
    apply Z.eqb_eq in H1. apply Nat.eqb_eq in H2. apply negb_true_iff in H3.
    repeat split; [destruct (proj1 Hi H2) as [H4 H5]; destruct s; cbn [esc lvl cl cs cr] in *; subst; reflexivity|].
    intros w x Hw. destruct w; [exact Hl|discriminate].
  - apply andb_prop in Hok. destruct Hok as [H1 H2]. apply Z.leb_le in H1.
    destruct (IH (sc_step s c) (S i) pl (step_inv s c Hi) H1 H2) as (Ha & Hb & Hc).
    rewrite (cut_ok_lvl _ H1). repeat split; [exact Ha|exact Hb|].
    intros w x Hw. destruct w as [|c' w]; [exact Hl|]. inversion Hw; subst. cbn [scan fold_left]. apply (Hc w x). reflexivity. Qed.

Lemma last_cut_app w1 w2 s i pl : last_cut (w1 ++ w2) s i pl =
   last_cut w2 (scan s w1) (i + length w1)%nat (last_cut w1 s i pl).
Proof. revert s i pl. induction w1 as [|a w1 IH]; simpl; intros s i pl; [f_equal; lia|].
  rewrite IH. f_equal. lia. Qed.
Lemma scan_app s a b : scan s (a ++ b) = scan (scan s a) b. Proof. apply fold_left_app. Qed.

Lemma cut_state s : sc_inv s -> cut_ok s = true -> s = sc0.
Proof. unfold cut_ok. intros Hi H. apply andb_prop in H. destruct H as [H He]. apply andb_prop in H. destruct H as [Hl Hc].
  apply Z.eqb_eq in Hl. apply Nat.eqb_eq in Hc. apply negb_true_iff in He. destruct (proj1 Hi Hc) as [Hs Hr].
  destruct s; simpl in *; subst; reflexivity. Qed.
Lemma step0_LP : sc_step sc0 LP = s1. Proof. reflexivity. Qed.
Lemma step1_RP : sc_step s1 RP = sc0. Proof. reflexivity. Qed.
Lemma step0_plain c : is_meta c = false -> sc_step sc0 c = sc0. Proof. intros; apply step_plain; auto. Qed.
Lemma step0_BS : sc_step sc0 BS = {| esc := true; lvl := 0; cl := 0; cs := 0; cr := false |}. Proof. reflexivity. Qed.
Lemma stepE c : sc_step {| esc := true; lvl := 0; cl := 0; cs := 0; cr := false |} c = sc0. Proof. apply step_escaped; reflexivity. Qed.

(* whole token: from the cut state, ends in the cut state, last_cut = end position *)
Lemma tok_scan t i pl : tok_ok t = true ->
   scan sc0 (render1 t) = sc0 /\ last_cut (render1 t) sc0 i pl = (i + length (render1 t))%nat.
Proof. intros Hok. destruct t as [c|b]; cbn [render1].
  - destruct (is_meta c) eqn:Em.
    + cbn [scan fold_left last_cut length]. rewrite step0_BS, stepE. split; [reflexivity|]. replace (cut_ok sc0) with true by reflexivity. lia.
    + cbn [scan fold_left last_cut length]. rewrite step0_plain by exact Em. split; [reflexivity|]. replace (cut_ok sc0) with true by reflexivity. lia.
  - cbn [tok_ok] in Hok. change (LP :: b ++ [RP]) with ([LP] ++ b ++ [RP]).
    assert (Hbs := fun i pl => body_scan b s1 i pl sc_inv1 ltac:(simpl; lia) Hok).
    rewrite !scan_app, !last_cut_app. cbn [scan fold_left last_cut length]. rewrite step0_LP.
    replace (cut_ok s1) with false by reflexivity. rewrite (proj1 (Hbs _ _)), (proj1 (proj2 (Hbs 0%nat 0%nat))).
    rewrite step1_RP. split; [reflexivity|].
    replace (cut_ok sc0) with true by reflexivity. rewrite !app_length. cbn [length]. lia. Qed.

Lemma body_prefix_nocut w : forall y st i pl, (1 <= lvl st)%Z -> body_ok_from st (w ++ y) = true -> last_cut w st i pl = pl.
Proof. induction w as [|a w IH]; intros y st i pl Hl Hok; [reflexivity|].
  cbn [app body_ok_from] in Hok. apply andb_prop in Hok. destruct Hok as [H1 H2]. apply Z.leb_le in H1.
  cbn [last_cut]. rewrite (cut_ok_lvl _ H1).
  eapply IH; eassumption. Qed.

(* strict prefix of a token: no cut inside *)
Lemma tok_inside t i pl w x : tok_ok t = true -> render1 t = w ++ x -> x <> [] -> last_cut w sc0 i pl = pl.
Proof. intros Hok Hw Hx. destruct t as [c|b]; cbn [render1] in Hw.
  - destruct (is_meta c) eqn:Em.
    + destruct w as [|a [|a' [|a'' w]]]; [reflexivity| | |].
      * inversion Hw; subst. cbn [last_cut]. rewrite step0_BS. reflexivity.
      * inversion Hw; subst. congruence.
      * inversion Hw.
    + destruct w as [|a [|a' w]]; [reflexivity| |].
      * inversion Hw; subst. congruence.
      * inversion Hw.
  - destruct w as [|a w]; [reflexivity|]. inversion Hw as [[Ha Hw']]. subst a. cbn [last_cut]. rewrite step0_LP.
    replace (cut_ok s1) with false by reflexivity.
    assert (exists y, b = w ++ y) as [y Hy].
    { clear - Hw' Hx. revert b Hw'. induction w as [|a w IH]; intros b Hw'; [exists b; reflexivity|].
      destruct b as [|c b]; cbn [app] in *.
      - inversion Hw' as [[Ha Hrest]]. destruct w; cbn [app] in Hrest; [symmetry in Hrest; contradiction|discriminate Hrest].
      - inversion Hw'; subst. destruct (IH b H1) as [y ->]. exists y. reflexivity. }
    cbn [tok_ok] in Hok. subst b. eapply body_prefix_nocut; [|exact Hok]. simpl. lia. Qed.

Lemma render1_nonempty t : render1 t <> [].
Proof. destruct t as [c|b]; cbn [render1]; [destruct (is_meta c)|]; discriminate. Qed.


Lemma app_eq_prefix {A} (a b c d : list A) : a ++ b = c ++ d -> (exists x, c = a ++ x) \/ (exists x, a = c ++ x).
Proof. revert c. induction a as [|h a IH]; intros c H; [left; exists c; reflexivity|].
  destruct c as [|h' c]; [right; exists (h :: a); reflexivity|]. inversion H; subst.
  destruct (IH c H2) as [[x ->]|[x ->]]; [left|right]; exists x; reflexivity. Qed.

(* an ok body cannot be extended past a closing paren at depth 1 *)
Lemma body_ok_stops b1 : forall st y, body_ok_from st b1 = true -> body_ok_from st (b1 ++ RP :: y) = false.
Proof. induction b1 as [|c b1 IH]; intros st y H.
  - cbn [body_ok_from] in H. apply andb_prop in H. destruct H as [H H3]. apply andb_prop in H. destruct H as [H1 H2].
    apply Z.eqb_eq in H1. apply Nat.eqb_eq in H2. apply negb_true_iff in H3.
    cbn [app body_ok_from]. assert (lvl (sc_step st RP) = 0%Z) as E. { unfold sc_step. rewrite H2, H3. cbn [lvl]. change (RP =? LB) with false. change (RP =? LP) with false. change (RP =? RP) with true. cbn [andb negb Nat.ltb Nat.leb]. lia. }
    rewrite E. reflexivity.
  - cbn [app body_ok_from] in *. apply andb_prop in H. destruct H as [H1 H2]. rewrite H1. simpl. apply IH. exact H2. Qed.

Lemma body_inj b1 b2 a b : body_ok_from s1 b1 = true -> body_ok_from s1 b2 = true ->
  b1 ++ RP :: a = b2 ++ RP :: b -> b1 = b2 /\ a = b.
Proof. intros H1 H2 E. destruct (app_eq_prefix _ _ _ _ E) as [[x Hx]|[x Hx]].
  - subst b2. destruct x as [|c x]; [rewrite app_nil_r in E; apply app_inv_head in E; inversion E; rewrite app_nil_r; auto|].
    rewrite <- app_assoc in E. apply app_inv_head in E. inversion E; subst.
    rewrite (body_ok_stops b1 s1 x H1) in H2. discriminate.
  - subst b1. destruct x as [|c x]; [rewrite app_nil_r in E; apply app_inv_head in E; inversion E; rewrite app_nil_r; auto|].
    rewrite <- app_assoc in E. apply app_inv_head in E. inversion E; subst.
    rewrite (body_ok_stops b2 s1 x H2) in H1. discriminate. Qed.

Lemma prefix_free t u a b : tok_ok t = true -> tok_ok u = true -> render1 t ++ a = render1 u ++ b -> t = u /\ a = b.
Proof. intros Ht Hu E. destruct t as [c|b1], u as [c'|b2]; cbn [render1] in E.
  - destruct (is_meta c) eqn:E1, (is_meta c') eqn:E2; cbn [app] in E; inversion E; subst; auto; try congruence.
    + rewrite is_meta_BS in E2. discriminate.
    + rewrite is_meta_BS in E1. discriminate.
  - destruct (is_meta c) eqn:E1; cbn [app] in E; inversion E; subst. rewrite is_meta_LP in E1. discriminate.
  - destruct (is_meta c') eqn:E1; cbn [app] in E; inversion E; subst. rewrite is_meta_LP in E1. discriminate.
  - cbn [app] in E. inversion E as [E']. rewrite <- !app_assoc in E'. cbn [app] in E'.
    destruct (body_inj b1 b2 a b Ht Hu E') as [-> ->]. auto. Qed.

Lemma prefix_cases {A} (w a b : list A) : prefix w (a ++ b) ->
  (exists w', w = a ++ w' /\ prefix w' b) \/ (exists x, a = w ++ x /\ x <> []).
Proof. intros [y Hy]. destruct (app_eq_prefix _ _ _ _ Hy) as [[x Hx]|[x Hx]].
  - left. exists x. split; [exact Hx|]. subst w. rewrite <- app_assoc in Hy. apply app_inv_head in Hy. exists y. exact Hy.
  - destruct x as [|h x]; [|right; exists (h :: x); split; [exact Hx|discriminate]].
    rewrite app_nil_r in Hx. subst w. left. exists []. rewrite app_nil_r. split; [reflexivity|]. exists b. reflexivity. Qed.

Theorem cut_aligned : forall p q w i, forallb tok_ok p = true -> forallb tok_ok q = true ->
  prefix w (render p) -> prefix w (render q) ->
  exists k, last_cut w sc0 i i = (i + length (render (firstn k p)))%nat /\ firstn k p = firstn k q /\ prefix (render (firstn k p)) w.
Proof. induction p as [|t p IH]; intros q w i Hp Hq Hwp Hwq.
  - destruct Hwp as [x Hx]. cbn [render flat_map] in Hx. destruct w; [|discriminate]. exists 0%nat. cbn. repeat split; [lia|exists []; reflexivity].
  - cbn [forallb] in Hp. apply andb_prop in Hp. destruct Hp as [Ht Hp].
    change (render (t :: p)) with (render1 t ++ render p) in Hwp.
    destruct (prefix_cases _ _ _ Hwp) as [(w' & -> & Hw')|(x & Hx & Hne)].
    + (* the whole first token is common *)
      destruct q as [|u q].
      { destruct Hwq as [y Hy]. cbn [render flat_map] in Hy. exfalso. apply (render1_nonempty t). destruct (render1 t); [reflexivity|discriminate]. }
      cbn [forallb] in Hq. apply andb_prop in Hq. destruct Hq as [Hu Hq].
      change (render (u :: q)) with (render1 u ++ render q) in Hwq. destruct Hwq as [y Hy].
      rewrite <- app_assoc in Hy. symmetry in Hy. destruct (prefix_free t u _ _ Ht Hu Hy) as [<- Hy'].
      destruct (tok_scan t i i Ht) as [Hs Hl].
      rewrite last_cut_app, Hs, Hl.
      destruct (IH q w' (i + length (render1 t))%nat Hp Hq Hw' ltac:(exists y; symmetry; exact Hy')) as (k & Hk & Hf & Hpre).
      exists (S k). cbn [firstn]. change (render (t :: firstn k p)) with (render1 t ++ render (firstn k p)).
      rewrite app_length. split; [rewrite Hk; lia|]. split; [f_equal; exact Hf|].
      destruct Hpre as [z ->]. exists z. rewrite app_assoc. reflexivity.
    + (* w stops strictly inside the first token *)
      exists 0%nat. cbn [firstn render flat_map length]. rewrite (tok_inside t i i w x Ht Hx Hne). repeat split; [lia|exists w; reflexivity]. Qed.

(* the statement used by the tree: the computed size is the length of a common token prefix *)
Corollary common_prefix_token_aligned p q : forallb tok_ok p = true -> forallb tok_ok q = true ->
  exists k, common_prefix_char_size (render p) (render q) = length (render (firstn k p)) /\ firstn k p = firstn k q.
Proof. intros Hp Hq. unfold common_prefix_char_size. rewrite cpcs_last_cut.
  destruct (cut_aligned p q (lcp (render p) (render q)) 0 Hp Hq (lcp_prefix_l _ _) (lcp_prefix_r _ _)) as (k & Hk & Hf & _).
  exists k. split; [rewrite Hk; reflexivity|exact Hf]. Qed.

(* get_prefix_with_char_size: the first [size] chars (all of them when the string is shorter) *)
Definition get_prefix_with_char_size (s : list chr) (size : nat) : list chr := firstn size s.
Definition common_prefix (l r : list chr) : list chr := get_prefix_with_char_size l (common_prefix_char_size l r).
