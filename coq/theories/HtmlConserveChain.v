(* HtmlConserveChain.v — property C04, content clause, for WHOLE FILTER LISTS: FilterBodyAction (the chain of
   stages with its early break on empty data and its end cascade, RIO.BodyText / RIO.ChainProofs) run over any
   list of chunks.  Generic part: if every stage is a "conservative transducer" — each call returns an edit of a
   prefix of (held ++ chunk) and keeps the rest, the end call returns an edit of what is held — then the output of
   the chain is obtained from the input by one editing pass per stage, in chain order, whatever the chunking
   (no split law is needed, so the HTML stage's error path is included).  Instance: text stages and HTML stages. *)
Require Import RIO.Base RIO.TokMonad RIO.HtmlTok RIO.BodyText RIO.HtmlFilter RIO.ChainProofs RIO.BodyProofs RIO.CodecChain.
Require Import RIO.HtmlTokProofs RIO.HtmlSplit RIO.HtmlEdit RIO.HtmlTagShape RIO.HtmlConserve.
Close Scope N_scope.
Open Scope nat_scope.

Section ChainRel.
Variable stage : Type.
Variable tf : stage -> str -> stage * str.
Variable te : stage -> stage * str.
Variable hold : stage -> list N.                        (* what a stage holds back *)
Variable R : stage -> list N -> list N -> Prop.         (* the edits a stage may make: R st input output *)
Variable good : stage -> Prop.                          (* the reachable states *)

Hypothesis R_app : forall s a b c d, R s a b -> R s c d -> R s (a ++ c) (b ++ d).
Hypothesis good_tf : forall s c, good s -> good (fst (tf s c)).
Hypothesis R_tf : forall s c a b, good s -> R (fst (tf s c)) a b -> R s a b.
Hypothesis tf_spec : forall s c, good s -> exists p, hold s ++ c = p ++ hold (fst (tf s c)) /\ R s p (snd (tf s c)).
Hypothesis te_spec : forall s, good s -> R s (hold s) (snd (te s)).

Notation cf := (cf stage tf).
Notation ce := (ce stage tf te).
Notation run := (run stage tf te).

(* z is obtained from x by one pass per stage; each stage first sees what it was holding *)
Fixpoint crel (chain : list stage) (x z : list N) : Prop :=
  match chain with
  | [] => z = x
  | s :: rest => exists y, R s (hold s ++ x) y /\ crel rest y z
  end.

Lemma cf_crel chain : Forall good chain -> forall c X Z,
  crel (fst (cf chain c)) X Z -> crel chain (c ++ X) (snd (cf chain c) ++ Z).
Proof.
  induction chain as [|s rest IH]; intros Hg c X Z H; cbn [ChainProofs.cf] in *.
  - cbn in *. subst Z. reflexivity.
  - inversion Hg as [|? ? Hs Hr]; subst.
    destruct (tf_spec s c Hs) as (p & Hsplit & Hp). pose proof (R_tf s c) as Htr.
    destruct (tf s c) as [s' o1] eqn:Etf. cbn [fst snd] in *.
    destruct (is_nil o1) eqn:En.
    + destruct o1; [|discriminate]. cbn [fst snd crel app] in *. destruct H as (y & Hy & Hrest).
      exists y. split; [|exact Hrest]. rewrite app_assoc, Hsplit, <- app_assoc.
      change y with ([] ++ y). apply R_app; [exact Hp|]. apply (Htr _ _ Hs). exact Hy.
    + specialize (IH Hr o1). destruct (cf rest o1) as [rest' o] eqn:Ecf. cbn [fst snd crel] in *.
      destruct H as (y & Hy & Hrest). exists (o1 ++ y). split.
      * rewrite app_assoc, Hsplit, <- app_assoc. apply R_app; [exact Hp|]. apply (Htr _ _ Hs). exact Hy.
      * apply IH. exact Hrest.
Qed.

Definition odata (data : option str) : list N := match data with Some d => d | None => [] end.

Lemma odata_some_ne d : odata (some_ne d) = d.
Proof. unfold some_ne. destruct d; reflexivity. Qed.

Lemma ce_crel chain : Forall good chain -> forall data, crel chain (odata data) (ce chain data).
Proof.
  induction chain as [|s rest IH]; intros Hg data; cbn [CodecChain.ce crel].
  - destruct data; reflexivity.
  - inversion Hg as [|? ? Hs Hr]; subst.
    match goal with |- context [some_ne ?x] => set (nd := x) end.
    exists nd. split; [|pose proof (IH Hr (some_ne nd)) as H; rewrite odata_some_ne in H; exact H].
    subst nd. destruct data as [d|]; cbn [odata].
    + destruct (tf_spec s d Hs) as (p & Hsplit & Hp). pose proof (R_tf s d) as Htr. pose proof (good_tf s d Hs) as Hg1.
      destruct (tf s d) as [s1 o1]. cbn [fst snd] in *. rewrite Hsplit. apply R_app; [exact Hp|].
      apply (Htr _ _ Hs). apply te_spec. exact Hg1.
    + rewrite app_nil_r. apply te_spec. exact Hs.
Qed.

Theorem run_crel chunks : forall chain, Forall good chain -> crel chain (concat chunks) (run chain chunks).
Proof.
  induction chunks as [|c cs IH]; intros chain Hg.
  - rewrite run_nil. apply (ce_crel chain Hg None).
  - rewrite run_cons. cbn [concat]. apply cf_crel; [exact Hg|]. apply IH.
    apply (cf_good stage tf good good_tf). exact Hg.
Qed.
End ChainRel.

(* ------------------------------------------------------------------------------------------------------ *)
Section Body.
Variable lower : str -> str.
Variable sel : str -> str -> bool.
Hypothesis LO : lower_ok lower.

Definition st_hold (st : stage) : list N := match st with StText _ => [] | StHtml F => held F end.
Definition st_good (st : stage) : Prop := match st with StText _ => True | StHtml F => reach F end.
Definition st_rel (st : stage) : list N -> list N -> Prop :=
  match st with
  | StText t => match ts_action t with
                | TReplace => fun _ _ => True
                | _ => edit_of True False (ts_content t)
                end
  | StHtml F => edit_of (v_kind (f_visitor F) <> VReplace) (v_kind (f_visitor F) = VReplace) (v_content (f_visitor F))
  end.

Lemma st_rel_app s a b c d : st_rel s a b -> st_rel s c d -> st_rel s (a ++ c) (b ++ d).
Proof.
  destruct s as [t|F]; cbn [st_rel].
  - destruct (ts_action t); try apply edit_app. auto.
  - apply edit_app.
Qed.

Lemma st_good_tf s c : st_good s -> st_good (fst (stage_tf lower sel s c)).
Proof.
  destruct s as [t|F]; cbn [stage_tf st_good].
  - destruct (text_filter t c). intros _. exact I.
  - intros HR. destruct (reach_filter lower sel LO F c HR) as [H _]. destruct (hfb_filter lower sel F c). exact H.
Qed.

Lemma text_filter_static t c : ts_action (fst (text_filter t c)) = ts_action t /\ ts_content (fst (text_filter t c)) = ts_content t.
Proof. unfold text_filter. destruct (ts_action t) eqn:Ea; destruct (ts_executed t); cbn; auto. Qed.

Lemma st_rel_tf s c a b : st_good s -> st_rel (fst (stage_tf lower sel s c)) a b -> st_rel s a b.
Proof.
  destruct s as [t|F]; cbn [stage_tf st_good].
  - intros _. destruct (text_filter_static t c) as [H1 H2]. destruct (text_filter t c) as [t' o]. cbn [fst st_rel] in *.
    rewrite H1, H2. auto.
  - intros HR. destruct (reach_filter lower sel LO F c HR) as (_ & H1 & H2).
    destruct (hfb_filter lower sel F c) as [F' o]. cbn [fst st_rel] in *. rewrite H1, H2. auto.
Qed.

Lemma st_tf_spec s c : st_good s ->
  exists p, st_hold s ++ c = p ++ st_hold (fst (stage_tf lower sel s c)) /\ st_rel s p (snd (stage_tf lower sel s c)).
Proof.
  destruct s as [t|F]; cbn [stage_tf st_good st_hold].
  - intros _. exists c. destruct (text_filter t c) as [t' o] eqn:Ef. cbn [fst snd st_hold st_rel]. rewrite app_nil_r.
    split; [reflexivity|]. unfold text_filter in Ef.
    destruct (ts_action t) eqn:Ea; [| |exact I].
    + injection Ef as <- <-. apply edit_refl.
    + destruct (ts_executed t); injection Ef as <- <-; [apply edit_refl|apply edit_ins_front; exact I].
  - intros HR. destruct (hfb_call_edit lower sel LO F c HR) as (p & Hs & He).
    destruct (hfb_filter lower sel F c) as [F' o]. cbn [fst snd st_hold st_rel] in *. exists p. auto.
Qed.

Lemma st_te_spec s : st_good s -> st_rel s (st_hold s) (snd (stage_te s)).
Proof.
  destruct s as [t|F]; cbn [stage_te st_good st_hold st_rel].
  - intros _. unfold text_end. destruct (ts_executed t); cbn [snd].
    + destruct (ts_action t); try apply ed_nil. exact I.
    + destruct (ts_action t); try exact I; apply (edit_ins_back True False (ts_content t) [] I).
  - intros _. cbn [hfb_end snd]. apply edit_refl.
Qed.

Lemma stages_good ctok fs : Forall st_good (stages_of ctok fs).
Proof.
  induction fs as [|f fs IH]; cbn [stages_of]; [constructor|].
  destruct (stage_new ctok f) as [s|] eqn:Es; [|exact IH]. constructor; [|exact IH].
  destruct f as [a c|h]; cbn [stage_new] in Es.
  - injection Es as <-. exact I.
  - destruct ctok; [|discriminate]. destruct (visitor_new h) as [v|] eqn:Ev; [|discriminate]. injection Es as <-.
    cbn [st_good]. exact (reach_visitor_new h v Ev).
Qed.

Notation crel := (crel stage st_hold st_rel).

(* every filter list, every body (any bytes), every chunking, no side condition *)
Theorem body_run_crel ctok fs chunks :
  crel (stages_of ctok fs) (concat chunks) (body_run lower sel ctok fs chunks).
Proof.
  rewrite body_run_total.
  apply (run_crel stage (stage_tf lower sel) stage_te st_hold st_rel st_good st_rel_app st_good_tf st_rel_tf st_tf_spec st_te_spec).
  apply stages_good.
Qed.

(* ---- the same on the filters themselves ---- *)
(* what one filter may do to the body *)
Definition filter_rel (ctok : bool) (f : body_filter) : list N -> list N -> Prop :=
  match f with
  | BFText TReplace _ => fun _ _ => True                      (* text replace: the body is replaced as a whole *)
  | BFText _ c => ins_of c                                    (* text append / prepend *)
  | BFHtml h =>
      if ctok && negb (is_nil (hf_tree h)) then
        match hf_kind h with
        | HAppendChild | HPrependChild => ins_of (hf_value h)
        | HReplace => repl_of (hf_value h)
        | HOther => eq
        end
      else eq                                                 (* not built: non-HTML content type, empty element_tree *)
  end.

(* one pass per filter, in list order *)
Fixpoint passes (ctok : bool) (fs : list body_filter) (x z : list N) : Prop :=
  match fs with
  | [] => z = x
  | f :: fs' => exists y, filter_rel ctok f x y /\ passes ctok fs' y z
  end.

Lemma edit_to_ins (ar : Prop) v a b : ~ ar -> edit_of True ar v a b -> ins_of v a b.
Proof. intros Hn He. apply (edit_ins_of ar); assumption. Qed.

Lemma crel_passes ctok fs : forall x z, crel (stages_of ctok fs) x z -> passes ctok fs x z.
Proof.
  induction fs as [|f fs IH]; intros x z H; cbn [stages_of passes] in *; [exact H|].
  destruct f as [a c|h]; cbn [stage_new] in H.
  - cbn [HtmlConserveChain.crel] in H. destruct H as (y & Hy & Hrest). exists y. split; [|apply IH; exact Hrest].
    cbn [st_hold st_rel text_new ts_action ts_content app filter_rel] in *.
    destruct a; try exact I; apply (edit_to_ins False); auto.
  - cbn [filter_rel]. destruct ctok; cbn [andb].
    2:{ exists x. split; [reflexivity|apply IH; exact H]. }
    unfold visitor_new in H. destruct (is_nil (hf_tree h)); cbn [negb].
    { exists x. split; [reflexivity|apply IH; exact H]. }
    destruct (hf_kind h); cbn [HtmlConserveChain.crel] in H.
    + destruct H as (y & Hy & Hrest). exists y. split; [|apply IH; exact Hrest].
      cbn in Hy. apply (edit_to_ins (VAppend = VReplace)); [discriminate|]. revert Hy. apply edit_weaken; auto.
    + destruct H as (y & Hy & Hrest). exists y. split; [|apply IH; exact Hrest].
      cbn in Hy. apply (edit_to_ins (VPrepend = VReplace)); [discriminate|]. revert Hy. apply edit_weaken; auto.
    + destruct H as (y & Hy & Hrest). exists y. split; [|apply IH; exact Hrest].
      cbn in Hy. apply (edit_repl_of (VReplace <> VReplace)); [|intros Hn; apply Hn; reflexivity].
      revert Hy. apply edit_weaken; auto.
    + exists x. split; [reflexivity|apply IH; exact H].
Qed.

Theorem body_run_passes ctok fs chunks : passes ctok fs (concat chunks) (body_run lower sel ctok fs chunks).
Proof. apply crel_passes. apply body_run_crel. Qed.
End Body.
