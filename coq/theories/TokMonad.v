(* TokMonad.v — the state monad in which src/html/mod.rs (struct Tokenizer) is transliterated (HtmlTok.v).

   M A := list N -> st -> A * st     the input bytes (self.reader, never modified) and the mutable fields.

   Conventions
   - [read_byte] is the ONLY primitive that looks at the input for tokenising; [index]/[slice]/[slice_from]
     model the Rust expressions self.reader[i], self.reader[a..b], self.reader[a..] and are CHECKED.
   - Every Rust operation that can panic is checked, never totalised.  A failed check stores its site number
     in the sticky field [panic] (the first failure wins) and execution continues with a saturated value; the
     top level (C16Run.run_outcome) turns a set [panic] into [Panic site].  The site table is in HtmlTok.v.
   - usize/u8 arithmetic: subtraction is checked (sub_usize / sub_u8: this is what a build with
     overflow-checks does; a release build without overflow-checks WRAPS instead: usize wraps to 2^64 - k and
     the next index/slice panics or reads elsewhere, u8 wraps modulo 256).  u8 addition is checked against 255.
     usize additions (raw.end += 1, += 9, dash_count += 1, data.start + i) are plain nat additions: all values
     are bounded by |input| + 9, far below 2^64.
   - Loops ([loop {}], [while], and the byte-per-call recursion of the script-data states) take explicit fuel.
     Running out of fuel sets the sticky flag [oof]; the top level turns it into [OutOfFuel].
   No proofs in this file. *)
Require Import RIO.Base.

Inductive token_type :=
| NoneToken | ErrorToken | TextToken | StartTagToken | EndTagToken | SelfClosingTagToken | CommentToken | DoctypeToken.

Definition token_eqb (a b : token_type) : bool :=
  match a, b with
  | NoneToken, NoneToken | ErrorToken, ErrorToken | TextToken, TextToken | StartTagToken, StartTagToken
  | EndTagToken, EndTagToken | SelfClosingTagToken, SelfClosingTagToken | CommentToken, CommentToken
  | DoctypeToken, DoctypeToken => true
  | _, _ => false
  end.

(* Result<T, HtmlParseError>: the only error is FromUtf8Error *)
Inductive result (A : Type) := ROk (a : A) | RErr.
Arguments ROk {A} a.
Arguments RErr {A}.

Definition span := (nat * nat)%type.            (* Span { start, end } *)
Definition attr_spans := (span * span)%type.    (* [Span; 2] : key, value *)

Record st := {
  raw_start : nat;
  raw_end : nat;
  data_start : nat;
  data_end : nat;
  pending_attribute : attr_spans;
  attribute : list attr_spans;
  number_attribute_returned : nat;
  err : bool;                       (* self.err.is_some(); the only ErrorKind ever stored is EOFError *)
  raw_tag : list N;
  text_is_raw : bool;
  convert_null : bool;
  allow_cdata : bool;
  token : token_type;
  panic : option N;                 (* sticky: first failed check *)
  oof : bool                        (* sticky: some loop ran out of fuel *)
}.

Definition set_raw_start (v : nat) (s : st) : st :=
  {| raw_start := v; raw_end := raw_end s; data_start := data_start s; data_end := data_end s;
     pending_attribute := pending_attribute s; attribute := attribute s;
     number_attribute_returned := number_attribute_returned s; err := err s; raw_tag := raw_tag s;
     text_is_raw := text_is_raw s; convert_null := convert_null s; allow_cdata := allow_cdata s;
     token := token s; panic := panic s; oof := oof s |}.
Definition set_raw_end (v : nat) (s : st) : st :=
  {| raw_start := raw_start s; raw_end := v; data_start := data_start s; data_end := data_end s;
     pending_attribute := pending_attribute s; attribute := attribute s;
     number_attribute_returned := number_attribute_returned s; err := err s; raw_tag := raw_tag s;
     text_is_raw := text_is_raw s; convert_null := convert_null s; allow_cdata := allow_cdata s;
     token := token s; panic := panic s; oof := oof s |}.
Definition set_data_start (v : nat) (s : st) : st :=
  {| raw_start := raw_start s; raw_end := raw_end s; data_start := v; data_end := data_end s;
     pending_attribute := pending_attribute s; attribute := attribute s;
     number_attribute_returned := number_attribute_returned s; err := err s; raw_tag := raw_tag s;
     text_is_raw := text_is_raw s; convert_null := convert_null s; allow_cdata := allow_cdata s;
     token := token s; panic := panic s; oof := oof s |}.
Definition set_data_end (v : nat) (s : st) : st :=
  {| raw_start := raw_start s; raw_end := raw_end s; data_start := data_start s; data_end := v;
     pending_attribute := pending_attribute s; attribute := attribute s;
     number_attribute_returned := number_attribute_returned s; err := err s; raw_tag := raw_tag s;
     text_is_raw := text_is_raw s; convert_null := convert_null s; allow_cdata := allow_cdata s;
     token := token s; panic := panic s; oof := oof s |}.
Definition set_pending_attribute (v : attr_spans) (s : st) : st :=
  {| raw_start := raw_start s; raw_end := raw_end s; data_start := data_start s; data_end := data_end s;
     pending_attribute := v; attribute := attribute s;
     number_attribute_returned := number_attribute_returned s; err := err s; raw_tag := raw_tag s;
     text_is_raw := text_is_raw s; convert_null := convert_null s; allow_cdata := allow_cdata s;
     token := token s; panic := panic s; oof := oof s |}.
Definition set_attribute (v : list attr_spans) (s : st) : st :=
  {| raw_start := raw_start s; raw_end := raw_end s; data_start := data_start s; data_end := data_end s;
     pending_attribute := pending_attribute s; attribute := v;
     number_attribute_returned := number_attribute_returned s; err := err s; raw_tag := raw_tag s;
     text_is_raw := text_is_raw s; convert_null := convert_null s; allow_cdata := allow_cdata s;
     token := token s; panic := panic s; oof := oof s |}.
Definition set_number_attribute_returned (v : nat) (s : st) : st :=
  {| raw_start := raw_start s; raw_end := raw_end s; data_start := data_start s; data_end := data_end s;
     pending_attribute := pending_attribute s; attribute := attribute s;
     number_attribute_returned := v; err := err s; raw_tag := raw_tag s;
     text_is_raw := text_is_raw s; convert_null := convert_null s; allow_cdata := allow_cdata s;
     token := token s; panic := panic s; oof := oof s |}.
Definition set_err (v : bool) (s : st) : st :=
  {| raw_start := raw_start s; raw_end := raw_end s; data_start := data_start s; data_end := data_end s;
     pending_attribute := pending_attribute s; attribute := attribute s;
     number_attribute_returned := number_attribute_returned s; err := v; raw_tag := raw_tag s;
     text_is_raw := text_is_raw s; convert_null := convert_null s; allow_cdata := allow_cdata s;
     token := token s; panic := panic s; oof := oof s |}.
Definition set_raw_tag (v : list N) (s : st) : st :=
  {| raw_start := raw_start s; raw_end := raw_end s; data_start := data_start s; data_end := data_end s;
     pending_attribute := pending_attribute s; attribute := attribute s;
     number_attribute_returned := number_attribute_returned s; err := err s; raw_tag := v;
     text_is_raw := text_is_raw s; convert_null := convert_null s; allow_cdata := allow_cdata s;
     token := token s; panic := panic s; oof := oof s |}.
Definition set_text_is_raw (v : bool) (s : st) : st :=
  {| raw_start := raw_start s; raw_end := raw_end s; data_start := data_start s; data_end := data_end s;
     pending_attribute := pending_attribute s; attribute := attribute s;
     number_attribute_returned := number_attribute_returned s; err := err s; raw_tag := raw_tag s;
     text_is_raw := v; convert_null := convert_null s; allow_cdata := allow_cdata s;
     token := token s; panic := panic s; oof := oof s |}.
Definition set_convert_null (v : bool) (s : st) : st :=
  {| raw_start := raw_start s; raw_end := raw_end s; data_start := data_start s; data_end := data_end s;
     pending_attribute := pending_attribute s; attribute := attribute s;
     number_attribute_returned := number_attribute_returned s; err := err s; raw_tag := raw_tag s;
     text_is_raw := text_is_raw s; convert_null := v; allow_cdata := allow_cdata s;
     token := token s; panic := panic s; oof := oof s |}.
Definition set_allow_cdata (v : bool) (s : st) : st :=
  {| raw_start := raw_start s; raw_end := raw_end s; data_start := data_start s; data_end := data_end s;
     pending_attribute := pending_attribute s; attribute := attribute s;
     number_attribute_returned := number_attribute_returned s; err := err s; raw_tag := raw_tag s;
     text_is_raw := text_is_raw s; convert_null := convert_null s; allow_cdata := v;
     token := token s; panic := panic s; oof := oof s |}.
Definition set_token (v : token_type) (s : st) : st :=
  {| raw_start := raw_start s; raw_end := raw_end s; data_start := data_start s; data_end := data_end s;
     pending_attribute := pending_attribute s; attribute := attribute s;
     number_attribute_returned := number_attribute_returned s; err := err s; raw_tag := raw_tag s;
     text_is_raw := text_is_raw s; convert_null := convert_null s; allow_cdata := allow_cdata s;
     token := v; panic := panic s; oof := oof s |}.
Definition set_panic (v : option N) (s : st) : st :=
  {| raw_start := raw_start s; raw_end := raw_end s; data_start := data_start s; data_end := data_end s;
     pending_attribute := pending_attribute s; attribute := attribute s;
     number_attribute_returned := number_attribute_returned s; err := err s; raw_tag := raw_tag s;
     text_is_raw := text_is_raw s; convert_null := convert_null s; allow_cdata := allow_cdata s;
     token := token s; panic := v; oof := oof s |}.
Definition set_oof (v : bool) (s : st) : st :=
  {| raw_start := raw_start s; raw_end := raw_end s; data_start := data_start s; data_end := data_end s;
     pending_attribute := pending_attribute s; attribute := attribute s;
     number_attribute_returned := number_attribute_returned s; err := err s; raw_tag := raw_tag s;
     text_is_raw := text_is_raw s; convert_null := convert_null s; allow_cdata := allow_cdata s;
     token := token s; panic := panic s; oof := v |}.

(* pending_attribute[0].start / [0].end / [1].start / [1].end *)
Definition set_pa_key_start (v : nat) (s : st) : st :=
  let '((_, ke), val) := pending_attribute s in set_pending_attribute ((v, ke), val) s.
Definition set_pa_key_end (v : nat) (s : st) : st :=
  let '((ks, _), val) := pending_attribute s in set_pending_attribute ((ks, v), val) s.
Definition set_pa_val_start (v : nat) (s : st) : st :=
  let '(key, (_, ve)) := pending_attribute s in set_pending_attribute (key, (v, ve)) s.
Definition set_pa_val_end (v : nat) (s : st) : st :=
  let '(key, (vs, _)) := pending_attribute s in set_pending_attribute (key, (vs, v)) s.

(* ------------------------------------------------------------------------------------------ the monad *)
Definition M (A : Type) := list N -> st -> A * st.
Definition ret {A} (a : A) : M A := fun _ s => (a, s).
Definition bind {A B} (m : M A) (k : A -> M B) : M B :=
  fun inp s => let '(a, s') := m inp s in k a inp s'.
Notation "x <- m ;; k" := (bind m (fun x => k)) (at level 61, m at next level, right associativity).
Notation "m ;;; k" := (bind m (fun _ => k)) (at level 61, right associativity).

Definition get : M st := fun _ s => (s, s).
Definition upd (f : st -> st) : M unit := fun _ s => (tt, f s).
Definition input_len : M nat := fun inp s => (length inp, s).

(* fn read_byte(&mut self) -> u8                                                       mod.rs:400-416 *)
Definition read_byte : M N := fun inp s =>
  match nth_error inp (raw_end s) with
  | Some byte => (byte, set_raw_end (S (raw_end s)) s)
  | None => (0%N, set_err true s)
  end.

(* ------------------------------------------------------------------------------------- checked operations *)
Definition set_panic_site (site : N) (s : st) : st :=
  match panic s with Some _ => s | None => set_panic (Some site) s end.
Definition fail_at (site : N) : M unit := upd (set_panic_site site).
Definition out_of_fuel : M unit := upd (set_oof true).

(* usize a - b *)
Definition sub_usize (site : N) (a b : nat) : M nat :=
  if b <=? a then ret (a - b) else fail_at site ;;; ret 0.
(* u8 a - b *)
Definition sub_u8 (site : N) (a b : N) : M N :=
  if N.leb b a then ret (N.sub a b) else fail_at site ;;; ret 0%N.
(* u8 a + b *)
Definition add_u8 (site : N) (a b : N) : M N :=
  if N.leb (N.add a b) 255 then ret (N.add a b) else fail_at site ;;; ret 255%N.
(* self.raw.end -= k *)
Definition dec_raw_end (site : N) (k : nat) : M unit :=
  s <- get ;; x <- sub_usize site (raw_end s) k ;; upd (set_raw_end x).
(* self.reader[i] *)
Definition index (site : N) (i : nat) : M N := fun inp s =>
  match nth_error inp i with
  | Some b => (b, s)
  | None => (0%N, set_panic_site site s)
  end.
(* l[i] for a byte string other than the reader: raw_tag.as_bytes()[i], b"script"[i], ... *)
Definition index_of (site : N) (l : list N) (i : nat) : M N :=
  match nth_error l i with
  | Some b => ret b
  | None => fail_at site ;;; ret 0%N
  end.
(* v[i] for the attribute vector *)
Definition index_attr (site : N) (l : list attr_spans) (i : nat) : M attr_spans :=
  match nth_error l i with
  | Some a => ret a
  | None => fail_at site ;;; ret ((0, 0), (0, 0))
  end.
(* self.reader[a..b] : panics when a > b or b > len *)
Definition slice (site : N) (a b : nat) : M (list N) := fun inp s =>
  (firstn (b - a) (skipn a inp),
   if (a <=? b) && (b <=? length inp) then s else set_panic_site site s).
(* self.reader[a..] : panics when a > len *)
Definition slice_from (site : N) (a : nat) : M (list N) := fun inp s =>
  (skipn a inp, if a <=? length inp then s else set_panic_site site s).

(* ------------------------------------------------------------------------------------------------ loops *)
(* One iteration of a Rust loop body ends in `continue` (with the new values of the loop-carried locals),
   `break`, or `return a`. *)
Inductive ctl (L A : Type) := Continue (x : L) | Break | Return (a : A).
Arguments Continue {L A} x.
Arguments Break {L A}.
Arguments Return {L A} a.

(* loop { body }: None = left by break (or fuel exhausted, with oof set), Some a = left by return a *)
Fixpoint loop {L A} (fuel : nat) (body : L -> M (ctl L A)) (x : L) : M (option A) :=
  match fuel with
  | O => out_of_fuel ;;; ret None
  | S f =>
      r <- body x ;;
      match r with
      | Continue x' => loop f body x'
      | Break => ret None
      | Return a => ret (Some a)
      end
  end.

(* fuel for every loop that consumes at least one byte per iteration: |input| + 2 *)
Definition loop_in {L A} (body : L -> M (ctl L A)) (x : L) : M (option A) :=
  n <- input_len ;; loop (n + 2) body x.

(* for i in lo..lo+n { body }: Some a = the body left the function/loop early with a, None = ran to the end *)
Fixpoint for_range {A} (n : nat) (i : nat) (body : nat -> M (option A)) : M (option A) :=
  match n with
  | O => ret None
  | S n' =>
      r <- body i ;;
      match r with
      | Some a => ret (Some a)
      | None => for_range n' (S i) body
      end
  end.

(* fuel of the script-data state machine (one unit per state-function call; at most two calls per byte) *)
Definition script_fuel : M nat := n <- input_len ;; ret (3 * n + 10).

(* initial state of Tokenizer::new_fragment before the context tag is looked at          mod.rs:113-126 *)
Definition st0 : st :=
  {| raw_start := 0; raw_end := 0; data_start := 0; data_end := 0;
     pending_attribute := ((0, 0), (0, 0)); attribute := [];
     number_attribute_returned := 0; err := false; raw_tag := [];
     text_is_raw := false; convert_null := false; allow_cdata := true;
     token := NoneToken; panic := None; oof := false |}.
