(* TokBound.v — where the tokens of RIO.HtmlTok end: a call of [next] that finished without observing EOF (and
   without a failed check or fuel exhaustion) ends its token just after a '>' or just before a '<'; the name of a
   tag token starts at an ASCII letter and ends before an ASCII byte.  Hence on valid UTF-8 input every token and
   every tag name is valid UTF-8 and [next] never returns Err (RIO.HtmlUtf8). *)
Require Import RIO.Base RIO.TokMonad RIO.HtmlTok RIO.TokLogic RIO.HtmlTokProofs.
Close Scope N_scope.
Open Scope nat_scope.

Definition gt_before (inp : list N) (p : nat) : Prop := exists q, p = S q /\ nth_error inp q = Some GT.
Definition lt_at (inp : list N) (p : nat) : Prop := nth_error inp p = Some LT.
Definition ascii_at (inp : list N) (p : nat) : Prop := exists c, nth_error inp p = Some c /\ (c < 128)%N.

(* ------------------------------------------------------------------ stepping through a run that ends well *)
Lemma pres_good_eq {A} (m : M A) inp s a s' : Pres m -> m inp s = (a, s') -> good s' -> good s.
Proof. intros P EQ G. eapply ext_good; [|exact G]. pose proof (P inp s) as X. rewrite EQ in X. exact X. Qed.

Lemma g_read_byte inp s b s1 : read_byte inp s = (b, s1) -> good s1 ->
  nth_error inp (raw_end s) = Some b /\ s1 = set_raw_end (S (raw_end s)) s.
Proof.
  intros E (He & _ & _). apply read_byte_inv in E. destruct E as [(Hb & _ & ->)|(_ & _ & ->)]; [auto|discriminate He].
Qed.
Lemma g_sub_usize site a b inp s x s1 : sub_usize site a b inp s = (x, s1) -> good s1 -> b <= a /\ x = a - b /\ s1 = s.
Proof.
  unfold sub_usize. destruct (b <=? a) eqn:E; intros H (_ & _ & Hp).
  - apply Nat.leb_le in E. injection H as <- <-. auto.
  - cbn in H. injection H as _ <-. exfalso. eapply set_panic_site_not_none; eauto.
Qed.
Lemma g_dec_raw_end site k inp s u s1 : dec_raw_end site k inp s = (u, s1) -> good s1 ->
  k <= raw_end s /\ s1 = set_raw_end (raw_end s - k) s.
Proof.
  unfold dec_raw_end. rewrite bind_get. unfold bind. destruct (sub_usize site (raw_end s) k inp s) as [x s0] eqn:E.
  cbn. intros H G. injection H as _ <-. unfold sub_usize in E. destruct (k <=? raw_end s) eqn:Ek.
  - apply Nat.leb_le in Ek. injection E as <- <-. auto.
  - cbn in E. injection E as <- <-. destruct G as (_ & _ & Hp). cbn in Hp. exfalso. eapply set_panic_site_not_none; eauto.
Qed.
Lemma g_index_of site l i inp s c s1 : index_of site l i inp s = (c, s1) -> good s1 -> nth_error l i = Some c /\ s1 = s.
Proof.
  unfold index_of. destruct (nth_error l i); intros H (_ & _ & Hp).
  - injection H as <- <-. auto.
  - cbn in H. injection H as _ <-. exfalso. eapply set_panic_site_not_none; eauto.
Qed.
Lemma g_index site i inp s c s1 : index site i inp s = (c, s1) -> good s1 -> nth_error inp i = Some c /\ s1 = s.
Proof.
  unfold index. destruct (nth_error inp i); intros H (_ & _ & Hp); injection H as <- <-; auto.
  exfalso. eapply set_panic_site_not_none; eauto.
Qed.
Lemma g_slice site a b inp s x s1 : slice site a b inp s = (x, s1) -> good s1 ->
  a <= b /\ b <= length inp /\ x = sub inp a b /\ s1 = s.
Proof.
  unfold slice. intros H (_ & _ & Hp). injection H as <- <-.
  destruct ((a <=? b) && (b <=? length inp)) eqn:E.
  - apply andb_prop in E. destruct E as [E1 E2]. apply Nat.leb_le in E1. apply Nat.leb_le in E2. auto.
  - exfalso. eapply set_panic_site_not_none; eauto.
Qed.
Lemma g_add_u8 site a b inp s x s1 : add_u8 site a b inp s = (x, s1) -> good s1 -> s1 = s.
Proof.
  unfold add_u8. destruct (N.leb (N.add a b) 255); intros H (_ & _ & Hp).
  - injection H as _ <-. auto.
  - cbn in H. injection H as _ <-. exfalso. eapply set_panic_site_not_none; eauto.
Qed.
Lemma g_sub_u8 site a b inp s x s1 : sub_u8 site a b inp s = (x, s1) -> good s1 -> s1 = s.
Proof.
  unfold sub_u8. destruct (N.leb b a); intros H (_ & _ & Hp).
  - injection H as _ <-. auto.
  - cbn in H. injection H as _ <-. exfalso. eapply set_panic_site_not_none; eauto.
Qed.
Lemma g_out_of_fuel inp s u s1 : out_of_fuel inp s = (u, s1) -> good s1 -> False.
Proof. unfold out_of_fuel, upd. intros H (_ & Ho & _). injection H as _ <-. discriminate Ho. Qed.

(* G : good (final state of EQ).  One step: split the bind, get goodness of the intermediate state, invert primitives *)
Ltac gprim E G :=
  lazymatch type of E with
  | ret _ _ _ = _ => apply ret_inv in E; destruct E as [? ?]; subst
  | get _ _ = _ => apply get_inv in E; destruct E as [? ?]; subst
  | upd _ _ _ = _ => apply upd_inv in E; subst
  | read_byte _ _ = _ => let Hb := fresh "Hb" in apply g_read_byte in E; [destruct E as [Hb ?]; subst|exact G]
  | sub_usize _ _ _ _ _ = _ => let Hs := fresh "Hs" in apply g_sub_usize in E; [destruct E as (Hs & ? & ?); subst|exact G]
  | dec_raw_end _ _ _ _ = _ => let Hs := fresh "Hs" in apply g_dec_raw_end in E; [destruct E as (Hs & ?); subst|exact G]
  | index_of _ _ _ _ _ = _ => let Hc := fresh "Hc" in apply g_index_of in E; [destruct E as (Hc & ?); subst|exact G]
  | index _ _ _ _ = _ => let Hc := fresh "Hc" in apply g_index in E; [destruct E as (Hc & ?); subst|exact G]
  | slice _ _ _ _ _ = _ => let Hs := fresh "Hsl" in let Hs2 := fresh "Hsl" in apply g_slice in E; [destruct E as (Hs & Hs2 & ? & ?); subst|exact G]
  | add_u8 _ _ _ _ _ = _ => apply g_add_u8 in E; [subst|exact G]
  | sub_u8 _ _ _ _ _ = _ => apply g_sub_u8 in E; [subst|exact G]
  | out_of_fuel _ _ = _ => exfalso; exact (g_out_of_fuel _ _ _ _ E G)
  | _ => idtac
  end.

Ltac gstep EQ G :=
  lazymatch type of EQ with
  | bind ?m ?k ?inp ?s = _ =>
      let a := fresh "a" in let s1 := fresh "s" in let Eh := fresh "Eh" in let G1 := fresh "G" in
      apply bind_inv in EQ; destruct EQ as (a & s1 & Eh & EQ);
      assert (G1 : good s1) by (refine (pres_good_eq _ _ _ _ _ _ EQ G); pres);
      gprim Eh G1
  | (if ?c then _ else _) _ _ = _ => let C := fresh "C" in destruct c eqn:C
  | (match ?c with _ => _ end) _ _ = _ => let C := fresh "C" in destruct c eqn:C
  | _ => gprim EQ G
  end.

(* exits of a loop: whatever the loop-carried state *)
Lemma loop_exit_rule {L A} inp (body : L -> M (ctl L A)) (Q : option A -> st -> Prop) :
  (forall x s r s', body x inp s = (r, s') -> good s' ->
     match r with Continue _ => True | Break => Q None s' | Return a => Q (Some a) s' end) ->
  (forall x, Pres (body x)) ->
  forall fuel x s r s', loop fuel body x inp s = (r, s') -> good s' -> Q r s'.
Proof.
  intros Hb Hp. induction fuel as [|f IH]; intros x s r s' E G.
  - cbn [loop] in E. apply bind_inv in E. destruct E as (u & s1 & E1 & E). apply ret_inv in E. destruct E; subst.
    exfalso. exact (g_out_of_fuel _ _ _ _ E1 G).
  - cbn [loop] in E. apply bind_inv in E. destruct E as (c & s1 & E1 & E).
    assert (G1 : good s1).
    { refine (pres_good_eq _ _ _ _ _ _ E G). destruct c; [apply pres_loop; exact Hp|apply pres_ret|apply pres_ret]. }
    pose proof (Hb x s c s1 E1 G1) as Hc. destruct c as [x'| |a].
    + eapply IH; eauto.
    + apply ret_inv in E. destruct E; subst. exact Hc.
    + apply ret_inv in E. destruct E; subst. exact Hc.
Qed.
Lemma loop_in_exit_rule {L A} inp (body : L -> M (ctl L A)) (Q : option A -> st -> Prop) :
  (forall x s r s', body x inp s = (r, s') -> good s' ->
     match r with Continue _ => True | Break => Q None s' | Return a => Q (Some a) s' end) ->
  (forall x, Pres (body x)) ->
  forall x s r s', loop_in body x inp s = (r, s') -> good s' -> Q r s'.
Proof.
  intros Hb Hp x s r s' E G. unfold loop_in in E. apply bind_inv in E. destruct E as (n & s1 & E1 & E).
  apply input_len_inv in E1. destruct E1; subst. eapply loop_exit_rule; eauto.
Qed.

(* with an invariant on the loop-carried state *)
Lemma loop_inv_rule {L A} inp (body : L -> M (ctl L A)) (I : L -> st -> Prop) (Q : option A -> st -> Prop) :
  (forall x s r s', I x s -> body x inp s = (r, s') -> good s' ->
     match r with Continue x' => I x' s' | Break => Q None s' | Return a => Q (Some a) s' end) ->
  (forall x, Pres (body x)) ->
  forall fuel x s r s', I x s -> loop fuel body x inp s = (r, s') -> good s' -> Q r s'.
Proof.
  intros Hb Hp. induction fuel as [|f IH]; intros x s r s' HI E G.
  - cbn [loop] in E. apply bind_inv in E. destruct E as (u & s1 & E1 & E). apply ret_inv in E. destruct E; subst.
    exfalso. exact (g_out_of_fuel _ _ _ _ E1 G).
  - cbn [loop] in E. apply bind_inv in E. destruct E as (c & s1 & E1 & E).
    assert (G1 : good s1).
    { refine (pres_good_eq _ _ _ _ _ _ E G). destruct c; [apply pres_loop; exact Hp|apply pres_ret|apply pres_ret]. }
    pose proof (Hb x s c s1 HI E1 G1) as Hc. destruct c as [x'| |a].
    + eapply IH; eauto.
    + apply ret_inv in E. destruct E; subst. exact Hc.
    + apply ret_inv in E. destruct E; subst. exact Hc.
Qed.
Lemma loop_in_inv_rule {L A} inp (body : L -> M (ctl L A)) (I : L -> st -> Prop) (Q : option A -> st -> Prop) :
  (forall x s r s', I x s -> body x inp s = (r, s') -> good s' ->
     match r with Continue x' => I x' s' | Break => Q None s' | Return a => Q (Some a) s' end) ->
  (forall x, Pres (body x)) ->
  forall x s r s', I x s -> loop_in body x inp s = (r, s') -> good s' -> Q r s'.
Proof.
  intros Hb Hp x s r s' HI E G. unfold loop_in in E. apply bind_inv in E. destruct E as (n & s1 & E1 & E).
  apply input_len_inv in E1. destruct E1; subst. eapply loop_inv_rule; eauto.
Qed.

Lemma for_range_g_rule {A} inp (body : nat -> M (option A)) (I : nat -> st -> Prop) (Q : A -> st -> Prop) :
  (forall i, Pres (body i)) ->
  forall n lo,
  (forall i s r s', I i s -> body i inp s = (r, s') -> good s' ->
     match r with Some a => Q a s' | None => I (S i) s' end) ->
  forall s r s', I lo s -> for_range n lo body inp s = (r, s') -> good s' ->
     match r with Some a => Q a s' | None => I (lo + n) s' end.
Proof.
  intros Hp. induction n as [|n IH]; intros lo Hb s r s' HI E G; cbn [for_range] in E.
  - apply ret_inv in E. destruct E; subst. rewrite Nat.add_0_r. exact HI.
  - apply bind_inv in E. destruct E as (c & s1 & E1 & E).
    assert (G1 : good s1).
    { refine (pres_good_eq _ _ _ _ _ _ E G). destruct c; [apply pres_ret|apply pres_for_range; exact Hp]. }
    pose proof (Hb lo s c s1 HI E1 G1) as Hc. destruct c as [a|].
    + apply ret_inv in E. destruct E; subst. exact Hc.
    + replace (lo + S n) with (S lo + n) by lia. eapply IH; [|exact Hc|exact E|exact G]. exact Hb.
Qed.

(* ------------------------------------------------------------------------------------------ the functions *)
Lemma is_true_eq b c : is b c = true -> b = c.
Proof. apply N.eqb_eq. Qed.

Ltac gsimp :=
  cbn [raw_start raw_end data_start data_end pending_attribute attribute number_attribute_returned err raw_tag
       text_is_raw convert_null allow_cdata token panic oof
       set_raw_start set_raw_end set_data_start set_data_end set_pending_attribute set_attribute
       set_number_attribute_returned set_err set_raw_tag set_text_is_raw set_convert_null set_allow_cdata set_token
       set_panic set_oof fst snd] in *.
(* a branch taken on an error flag that the good final state excludes *)
Ltac gabsurd :=
  solve [ exfalso;
          repeat match goal with G : good _ |- _ => destruct G as (? & ? & ?) end; gsimp; congruence ].
Ltac gbytes :=
  unfold is_ws in *;
  repeat match goal with
         | H : is _ _ = true |- _ => apply is_true_eq in H
         | H : _ || _ = true |- _ => apply orb_prop in H; destruct H as [H|H]
         | H : _ || _ = false |- _ => apply orb_false_elim in H; destruct H as [? ?]
         end.
Ltac grun EQ G := repeat (gstep EQ G).
(* the goodness hypothesis is found in the context *)
Ltac gstep' EQ := match type of EQ with _ = (_, ?t) => match goal with G : good t |- _ => gstep EQ G end end.
Ltac grun' EQ := repeat (gstep' EQ).

Lemma gt_before_S inp p : nth_error inp p = Some GT -> gt_before inp (S p).
Proof. intros H. exists p. auto. Qed.

Lemma read_until_close_angle_end inp s a s' : read_until_close_angle inp s = (a, s') -> good s' -> gt_before inp (raw_end s').
Proof.
  intros EQ G. unfold read_until_close_angle in EQ. gstep EQ G. gstep EQ G. gstep EQ G.
  eapply (loop_in_exit_rule inp _ (fun _ t => gt_before inp (raw_end t))) in Eh; [exact Eh| |intros; pres|eassumption].
  clear. intros x s r s' Eb G. grun Eb G; try gabsurd; try exact I.
  gsimp. gbytes. subst. apply gt_before_S. assumption.
Qed.

Lemma ascii_at_intro inp p q c : nth_error inp q = Some c -> p = q -> (c < 128)%N -> ascii_at inp p.
Proof. intros H -> Hc. exists c. auto. Qed.
Lemma gt_before_intro inp p q : nth_error inp q = Some GT -> p = S q -> gt_before inp p.
Proof. intros H ->. exists q. auto. Qed.

Ltac gascii := eapply ascii_at_intro; [eassumption | gsimp; lia | subst; reflexivity].

Lemma read_tag_name_end inp s a s' : read_tag_name inp s = (a, s') -> good s' ->
  1 <= raw_end s /\ data_start s' = raw_end s - 1 /\ ascii_at inp (data_end s').
Proof.
  intros EQ G. unfold read_tag_name in EQ. gstep EQ G. gstep EQ G. gstep EQ G. gstep EQ G. gstep EQ G.
  split; [exact Hs|].
  eapply (loop_in_inv_rule inp _ (fun _ t => data_start t = raw_end s - 1)
            (fun _ t => data_start t = raw_end s - 1 /\ ascii_at inp (data_end t))) in Eh;
    [exact Eh| |intros; pres|reflexivity|eassumption].
  clear. intros x t r t' HI Eb G. grun Eb G; try gabsurd; gsimp; auto; gbytes; (split; [assumption|gascii]).
Qed.

(* ---- frames: the data span is written by read_tag_name only ---- *)
Definition keepd (s s' : st) : Prop := data_start s' = data_start s /\ data_end s' = data_end s.
Lemma keepd_refl s : keepd s s. Proof. split; reflexivity. Qed.
Lemma keepd_trans a b c : keepd a b -> keepd b c -> keepd a c.
Proof. unfold keepd. intros [] []. split; congruence. Qed.
Lemma keepd_oof s : keepd s (set_oof true s). Proof. split; reflexivity. Qed.
Lemma keepd_panic_site site s : keepd s (set_panic_site site s).
Proof. unfold set_panic_site. destruct (panic s); split; reflexivity. Qed.
Definition KD {A} (m : M A) : Prop := PresR keepd m.
Lemma kd_ret {A} (a : A) : KD (ret a). Proof. apply presR_ret, keepd_refl. Qed.
Lemma kd_get : KD get. Proof. apply presR_get, keepd_refl. Qed.
Lemma kd_bind {A B} (m : M A) (k : A -> M B) : KD m -> (forall a, KD (k a)) -> KD (bind m k).
Proof. apply presR_bind, keepd_trans. Qed.
Lemma kd_read_byte : KD read_byte.
Proof. intros inp s. unfold read_byte. destruct (nth_error inp (raw_end s)); split; reflexivity. Qed.
Lemma kd_fail_ret {A} site (a : A) : KD (fail_at site ;;; ret a).
Proof. apply kd_bind; [apply presR_upd; apply keepd_panic_site|intros; apply kd_ret]. Qed.
Lemma kd_sub_usize site a b : KD (sub_usize site a b).
Proof. unfold sub_usize. destruct (b <=? a); [apply kd_ret|apply kd_fail_ret]. Qed.
Lemma kd_dec_raw_end site k : KD (dec_raw_end site k).
Proof.
  unfold dec_raw_end. apply kd_bind; [apply kd_get|intros]. apply kd_bind; [apply kd_sub_usize|intros].
  apply presR_upd. intros; split; reflexivity.
Qed.
Lemma kd_loop_in {L A} (body : L -> M (ctl L A)) x : (forall x, KD (body x)) -> KD (loop_in body x).
Proof. apply presR_loop_in; [apply keepd_refl|apply keepd_trans|apply keepd_oof]. Qed.

Ltac kd_upd :=
  intros; unfold set_pa_key_start, set_pa_key_end, set_pa_val_start, set_pa_val_end;
  repeat match goal with |- context [pending_attribute ?s] => destruct (pending_attribute s) as [[? ?] [? ?]] end;
  split; reflexivity.
Ltac kd_step :=
  first
    [ apply kd_ret | apply kd_get | apply kd_read_byte | apply kd_sub_usize | apply kd_dec_raw_end
    | assumption
    | apply presR_upd; solve [kd_upd]
    | apply kd_loop_in; intros
    | apply kd_bind; [| intros ]
    | match goal with
      | |- KD (if ?c then _ else _) => destruct c
      | |- KD (match ?c with _ => _ end) => destruct c
      end ].
Ltac kd := repeat kd_step.

Lemma kd_skip_white_space : KD skip_white_space.
Proof. unfold skip_white_space. kd. Qed.
Lemma kd_read_tag_name_attr_key : KD read_tag_name_attr_key.
Proof. unfold read_tag_name_attr_key. kd. Qed.
Lemma kd_read_tag_name_attr_value : KD read_tag_name_attr_value.
Proof. unfold read_tag_name_attr_value. kd; apply kd_skip_white_space. Qed.

Lemma kd_eq {A} (m : M A) inp s a s' : KD m -> m inp s = (a, s') -> keepd s s'.
Proof. intros H E. pose proof (H inp s) as X. rewrite E in X. exact X. Qed.

Lemma read_tag_end sa inp s a s' : read_tag sa inp s = (a, s') -> good s' ->
  1 <= raw_end s /\ data_start s' = raw_end s - 1 /\ ascii_at inp (data_end s') /\ gt_before inp (raw_end s').
Proof.
  intros EQ G. unfold read_tag in EQ. gstep EQ G. gstep EQ G. gstep EQ G.
  apply read_tag_name_end in Eh; [|assumption]. gsimp. destruct Eh as (H1 & H2 & H3).
  gstep EQ G. apply (kd_eq _ _ _ _ _ kd_skip_white_space) in Eh. destruct Eh as [K1 K2].
  gstep EQ G. gstep EQ G; [gstep EQ G; gabsurd|].
  gstep EQ G. gstep EQ G.
  match goal with Eh : loop_in _ _ _ ?t = _ |- _ => remember t as t0 eqn:Et0 end.
  eapply (loop_in_inv_rule inp _ (fun _ u => data_start u = data_start t0 /\ data_end u = data_end t0)
              (fun _ u => (data_start u = data_start t0 /\ data_end u = data_end t0) /\ gt_before inp (raw_end u))) in Eh;
      [| |intros; pres|split; reflexivity|eassumption].
  - destruct Eh as [[E1 E2] E3]. rewrite E1, E2. subst t0. rewrite K1, K2. auto.
  - clear - inp. intros x u r u' [I1 I2] Eb G.
    assert (K : keepd u u').
    { refine (kd_eq _ _ _ _ _ _ Eb). kd; first [apply kd_read_tag_name_attr_key|apply kd_read_tag_name_attr_value|apply kd_skip_white_space]. }
    destruct K as [K1 K2].
    assert (HK : data_start u' = data_start t0 /\ data_end u' = data_end t0) by (split; congruence).
    gstep Eb G. gstep Eb G. gstep Eb G.
    + gstep Eb G. split; [exact HK|]. gsimp. gbytes; [gabsurd|]. subst. eapply gt_before_intro; [eassumption|gsimp; reflexivity].
    + grun Eb G; try gabsurd; exact HK.
Qed.

Ltac ggt := gsimp; gbytes; subst; eapply gt_before_intro; [eassumption|gsimp; reflexivity].

Lemma read_comment_end inp s a s' : read_comment inp s = (a, s') -> good s' -> gt_before inp (raw_end s').
Proof.
  intros EQ G. unfold read_comment in EQ. gstep EQ G. gstep EQ G.
  eapply (loop_in_exit_rule inp _ (fun _ t => gt_before inp (raw_end t))) in Eh; [| |intros; pres|eassumption].
  - cbv zeta in EQ. grun EQ G; gsimp; exact Eh.
  - clear. intros x s r s' Eb G. grun Eb G; try gabsurd; try exact I; ggt.
Qed.

Lemma read_doc_type_end inp s s' : read_doc_type inp s = (true, s') -> good s' -> gt_before inp (raw_end s').
Proof.
  intros EQ G. unfold read_doc_type in EQ. gstep EQ G.
  eapply (for_range_g_rule inp _ (fun _ _ => True) (fun b _ => b = false)) in Eh; [| intros; pres | | exact I | eassumption].
  - destruct a as [b|].
    + gstep EQ G. discriminate.
    + gstep EQ G. gstep EQ G. gstep EQ G; [grun EQ G; gabsurd|]. gstep EQ G. gstep EQ G.
      eapply read_until_close_angle_end; eauto.
  - clear. intros i s r s' _ Eb G. grun Eb G; auto.
Qed.

Lemma read_cdata_end inp s s' : read_cdata inp s = (true, s') -> good s' -> gt_before inp (raw_end s').
Proof.
  intros EQ G. unfold read_cdata in EQ. gstep EQ G.
  eapply (for_range_g_rule inp _ (fun _ _ => True) (fun b _ => b = false)) in Eh; [| intros; pres | | exact I | eassumption].
  - destruct a as [b|].
    + gstep EQ G. discriminate.
    + gstep EQ G. gstep EQ G.
      eapply (loop_in_exit_rule inp _ (fun o t => match o with Some _ => gt_before inp (raw_end t) | None => False end)) in Eh0;
        [| |intros; pres|eassumption].
      * destruct a0 as [b|]; [|contradiction]. gstep EQ G. exact Eh0.
      * clear. intros x s r s' Eb G. grun Eb G; try gabsurd; try exact I; ggt.
  - clear. intros i s r s' _ Eb G. grun Eb G; auto.
Qed.

Definition is_tagk (tk : token_type) : bool :=
  match tk with StartTagToken | EndTagToken | SelfClosingTagToken => true | _ => false end.

Lemma read_markup_declaration_end inp s a s' : read_markup_declaration inp s = (a, s') -> good s' ->
  gt_before inp (raw_end s') /\ is_tagk a = false.
Proof.
  intros EQ G. unfold read_markup_declaration in EQ.
  gstep EQ G. gstep EQ G. gstep EQ G. gstep EQ G; [grun EQ G; gabsurd|].
  gstep EQ G. gstep EQ G. gstep EQ G; [grun EQ G; gabsurd|].
  gstep EQ G.
  - gstep EQ G. gstep EQ G. split; [eapply read_comment_end; eauto|reflexivity].
  - gstep EQ G. gstep EQ G. gstep EQ G.
    + gstep EQ G. split; [eapply read_doc_type_end; eauto|reflexivity].
    + gstep EQ G. gstep EQ G. gstep EQ G.
      * gstep EQ G. gstep EQ G. gsimp. split; [|reflexivity].
        match goal with H : (if ?c then _ else _) _ _ = _ |- _ => destruct c; [eapply read_cdata_end; eauto|apply ret_inv in H; destruct H; discriminate] end.
      * gstep EQ G. gstep EQ G. split; [eapply read_until_close_angle_end; eauto|reflexivity].
Qed.

Lemma read_raw_end_tag_true inp s s' : read_raw_end_tag inp s = (true, s') -> good s' -> raw_end s' + 2 = raw_end s.
Proof.
  intros EQ G. unfold read_raw_end_tag in EQ. gstep EQ G. gstep EQ G.
  eapply (for_range_g_rule inp _ (fun i t => raw_end t = raw_end s + i /\ raw_tag t = raw_tag s) (fun b _ => b = false)) in Eh;
    [| intros; pres | | split; [lia|reflexivity] | eassumption].
  - destruct a as [b|].
    + gstep EQ G. discriminate.
    + destruct Eh as [E1 E2]. gstep EQ G. gstep EQ G. gstep EQ G; [gstep EQ G; discriminate|].
      gstep EQ G; grun EQ G; try discriminate. gsimp. rewrite E2 in *. lia.
  - clear. intros i t r t' [I1 I2] Eb G. grun Eb G; auto; gsimp; split; auto; lia.
Qed.

(* ---- the script-data state machine: it returns (without EOF) only through read_raw_end_tag = true, two bytes
   after a '<' ---- *)
Definition pre1 (inp : list N) (s : st) : Prop := exists q, raw_end s = S q /\ nth_error inp q = Some LT.
Definition pre2 (inp : list N) (s : st) : Prop := exists q, raw_end s = S (S q) /\ nth_error inp q = Some LT.
Definition ssp (P : list N -> st -> Prop) (X : M unit) : Prop :=
  forall inp s a s', P inp s -> X inp s = (a, s') -> good s' -> lt_at inp (raw_end s').
Definition ptrue (inp : list N) (s : st) : Prop := True.

Definition ssp_all (f : nat) : Prop :=
  ssp ptrue (read_script_data f) /\ ssp pre1 (read_script_data_less_than_sign f)
  /\ ssp pre2 (read_script_data_end_tag_open f) /\ ssp ptrue (read_script_data_escape_start f)
  /\ ssp ptrue (read_script_data_escape_start_dash f) /\ ssp ptrue (read_script_data_escaped f)
  /\ ssp ptrue (read_script_data_escaped_dash f) /\ ssp ptrue (read_script_data_escaped_dash_dash f)
  /\ ssp pre1 (read_script_data_escaped_less_than_sign f) /\ ssp pre2 (read_script_data_escaped_end_tag_open f)
  /\ ssp ptrue (read_script_data_double_escape_start f) /\ ssp ptrue (read_script_data_double_escaped f)
  /\ ssp ptrue (read_script_data_double_escaped_dash f) /\ ssp ptrue (read_script_data_double_escaped_dash_dash f)
  /\ ssp ptrue (read_script_data_double_escaped_less_than_sign f) /\ ssp ptrue (read_script_data_double_escaped_end f).

Ltac ssp_leaf :=
  first
    [ gabsurd
    | match goal with
      | H : ssp ptrue ?X, E : ?X _ _ = _ |- _ => eapply (H _ _ _ _ I E); eassumption
      | H : ssp pre1 ?X, E : ?X _ _ = _ |- _ =>
          eapply (fun P => H _ _ _ _ P E); [|eassumption]; gsimp; gbytes; subst; eexists; split; [reflexivity|eassumption]
      | H : ssp pre2 ?X, E : ?X _ _ = _ |- _ =>
          eapply (fun P => H _ _ _ _ P E); [|eassumption]; gsimp; gbytes; subst;
          match goal with Hp : pre1 _ _ |- _ =>
            let q := fresh "q" in let Hq1 := fresh "Hq" in let Hq2 := fresh "Hq" in
            destruct Hp as (q & Hq1 & Hq2); exists q; split; [gsimp; congruence|assumption] end
      end ].

Lemma ssp_all_holds : forall f, ssp_all f.
Proof.
  induction f as [|f IH]; unfold ssp_all in *.
  - script_unfold. repeat apply conj; intros inp s a s' _ EQ G; exfalso; exact (g_out_of_fuel _ _ _ _ EQ G).
  - destruct IH as (H1 & H2 & H3 & H4 & H5 & H6 & H7 & H8 & H9 & H10 & H11 & H12 & H13 & H14 & H15 & H16).
    repeat apply conj; script_unfold; intros inp s a s' HP EQ G.
    + grun EQ G; ssp_leaf.
    + grun EQ G; ssp_leaf.
    + gstep EQ G. gstep EQ G. gstep EQ G.
      * gstep EQ G. gbytes; [|gabsurd]. subst. apply read_raw_end_tag_true in Eh; [|assumption].
        destruct HP as (q & Hq1 & Hq2). unfold lt_at. match goal with |- nth_error _ (raw_end ?t) = _ => replace (raw_end t) with q by lia end. exact Hq2.
      * ssp_leaf.
    + grun EQ G; ssp_leaf.
    + grun EQ G; ssp_leaf.
    + grun EQ G; ssp_leaf.
    + grun EQ G; ssp_leaf.
    + grun EQ G; ssp_leaf.
    + grun EQ G; ssp_leaf.
    + gstep EQ G. gstep EQ G. gstep EQ G.
      * gstep EQ G. gbytes; [|gabsurd]. subst. apply read_raw_end_tag_true in Eh; [|assumption].
        destruct HP as (q & Hq1 & Hq2). unfold lt_at. match goal with |- nth_error _ (raw_end ?t) = _ => replace (raw_end t) with q by lia end. exact Hq2.
      * ssp_leaf.
    + gstep EQ G. gstep EQ G.
      eapply (for_range_g_rule inp _ (fun _ _ => True) (fun b t => b = true -> err t = true)) in Eh; [| intros; pres | | exact I | eassumption].
      * destruct a1 as [[|]|].
        -- gstep EQ G. exfalso. specialize (Eh eq_refl). destruct G as (He & _). congruence.
        -- ssp_leaf.
        -- grun EQ G; ssp_leaf.
      * clear. intros i t r t' _ Eb G. grun Eb G; auto; try discriminate.
    + grun EQ G; ssp_leaf.
    + grun EQ G; ssp_leaf.
    + grun EQ G; ssp_leaf.
    + grun EQ G; ssp_leaf.
    + grun EQ G; ssp_leaf.
Qed.

Lemma read_script_end inp s a s' : read_script inp s = (a, s') -> good s' -> lt_at inp (raw_end s').
Proof.
  intros EQ G. unfold read_script, script_fuel in EQ. grun EQ G. gsimp.
  match goal with E : read_script_data _ _ _ = _ |- _ => eapply (proj1 (ssp_all_holds _) _ _ _ _ I E); assumption end.
Qed.

Lemma read_raw_or_cdata_end inp s a s' : read_raw_or_cdata inp s = (a, s') -> good s' -> lt_at inp (raw_end s').
Proof.
  intros EQ G. unfold read_raw_or_cdata in EQ. gstep EQ G. gstep EQ G.
  - grun EQ G. gsimp. eapply read_script_end; eauto.
  - gstep EQ G.
    eapply (loop_in_exit_rule inp _ (fun _ t => lt_at inp (raw_end t))) in Eh; [| |intros; pres|eassumption].
    + cbv zeta in EQ. grun EQ G. gsimp. exact Eh.
    + clear. intros x s r s' Eb G. gstep Eb G. gstep Eb G. gstep Eb G; [grun Eb G; gabsurd|].
      gstep Eb G; [grun Eb G; exact I|]. gstep Eb G. gstep Eb G. gstep Eb G; [grun Eb G; gabsurd|].
      gstep Eb G; [grun Eb G; exact I|]. gstep Eb G. gstep Eb G. gstep Eb G; [|grun Eb G; exact I].
      gstep Eb G. gbytes; [|gabsurd]. subst. apply read_raw_end_tag_true in Eh; [|assumption]. gsimp.
      rewrite negb_false_iff in *. gbytes. subst. unfold lt_at.
      match goal with |- nth_error _ (raw_end ?t) = _ => replace (raw_end t) with (raw_end s) by (gsimp; lia) end. assumption.
Qed.

(* ---- frame: neither the position nor the data span ---- *)
Definition keepa (s s' : st) : Prop := raw_end s' = raw_end s /\ data_start s' = data_start s /\ data_end s' = data_end s.
Lemma keepa_refl s : keepa s s. Proof. repeat split. Qed.
Lemma keepa_trans a b c : keepa a b -> keepa b c -> keepa a c.
Proof. unfold keepa. intros (?&?&?) (?&?&?). repeat split; congruence. Qed.
Lemma keepa_panic_site site s : keepa s (set_panic_site site s).
Proof. unfold set_panic_site. destruct (panic s); repeat split. Qed.
Definition KA {A} (m : M A) : Prop := PresR keepa m.
Lemma ka_ret {A} (a : A) : KA (ret a). Proof. apply presR_ret, keepa_refl. Qed.
Lemma ka_get : KA get. Proof. apply presR_get, keepa_refl. Qed.
Lemma ka_bind {A B} (m : M A) (k : A -> M B) : KA m -> (forall a, KA (k a)) -> KA (bind m k).
Proof. apply presR_bind, keepa_trans. Qed.
Lemma ka_fail_ret {A} site (a : A) : KA (fail_at site ;;; ret a).
Proof. apply ka_bind; [apply presR_upd; apply keepa_panic_site|intros; apply ka_ret]. Qed.
Lemma ka_sub_usize site a b : KA (sub_usize site a b).
Proof. unfold sub_usize. destruct (b <=? a); [apply ka_ret|apply ka_fail_ret]. Qed.
Lemma ka_add_u8 site a b : KA (add_u8 site a b).
Proof. unfold add_u8. destruct (N.leb (N.add a b) 255); [apply ka_ret|apply ka_fail_ret]. Qed.
Lemma ka_index_of site l i : KA (index_of site l i).
Proof. unfold index_of. destruct (nth_error l i); [apply ka_ret|apply ka_fail_ret]. Qed.
Lemma ka_index site i : KA (index site i).
Proof. intros inp s. unfold index. destruct (nth_error inp i); cbn; [apply keepa_refl|apply keepa_panic_site]. Qed.
Lemma ka_slice site a b : KA (slice site a b).
Proof. intros inp s. unfold slice. cbn. destruct ((a <=? b) && (b <=? length inp)); [apply keepa_refl|apply keepa_panic_site]. Qed.
Lemma ka_for_range {A} (body : nat -> M (option A)) : (forall i, KA (body i)) -> forall n i, KA (for_range n i body).
Proof. apply presR_for_range; [apply keepa_refl|apply keepa_trans]. Qed.
Ltac ka_step :=
  first
    [ apply ka_ret | apply ka_get | apply ka_sub_usize | apply ka_add_u8 | apply ka_index_of | apply ka_index | apply ka_slice
    | assumption
    | apply presR_upd; intros; repeat split
    | apply ka_for_range; intros
    | apply ka_bind; [| intros ]
    | match goal with
      | |- KA (if ?c then _ else _) => destruct c
      | |- KA (match ?c with _ => _ end) => destruct c
      end ].
Ltac ka := repeat ka_step.
Lemma ka_start_tag_in ss : KA (start_tag_in ss).
Proof. induction ss as [|s_ ss IH]; cbn [start_tag_in]; ka. Qed.
Lemma ka_eq {A} (m : M A) inp s a s' : KA m -> m inp s = (a, s') -> keepa s s'.
Proof. intros H E. pose proof (H inp s) as X. rewrite E in X. exact X. Qed.

Lemma read_start_tag_end lower inp s r s' : read_start_tag lower inp s = (r, s') -> good s' ->
  1 <= raw_end s /\ data_start s' = raw_end s - 1 /\ ascii_at inp (data_end s') /\ gt_before inp (raw_end s')
  /\ match r with
     | RErr => utf8_valid (sub inp (data_start s') (data_end s')) = false
     | ROk tk => tk = StartTagToken \/ tk = SelfClosingTagToken
     end.
Proof.
  intros EQ G. unfold read_start_tag in EQ. gstep EQ G.
  apply read_tag_end in Eh; [|assumption]. destruct Eh as (H1 & H2 & H3 & H4).
  gstep EQ G. gstep EQ G; [gstep EQ G; gabsurd|].
  assert (K : keepa s0 s').
  { refine (ka_eq _ _ _ _ _ _ EQ). ka; apply ka_start_tag_in. }
  destruct K as (K1 & K2 & K3). rewrite K1, K2, K3. repeat (split; [assumption|]).
  gstep EQ G. gstep EQ G. gstep EQ G. gstep EQ G.
  gstep EQ G.
  - (* ok = false: the name is not UTF-8 *)
    gstep EQ G. rewrite negb_true_iff in C0. subst a3.
    destruct a2; [|gstep' Eh1; discriminate].
    gstep' Eh1. gstep' Eh1; [grun' Eh1; discriminate|]. gstep' Eh1. assumption.
  - grun EQ G; auto.
Qed.

(* ---- next ---- *)
Lemma alpha_lt b : is_ascii_alphabetic b = true -> (b < 128)%N.
Proof.
  unfold is_ascii_alphabetic, is_ascii_uppercase, is_ascii_lowercase. intros H.
  apply orb_prop in H. destruct H as [H|H]; apply andb_prop in H; destruct H as [_ H]; apply N.leb_le in H; lia.
Qed.

Lemma tt_cases byte t :
  (if is_ascii_alphabetic byte then Some StartTagToken
   else if is byte SLASH then Some EndTagToken
   else if is byte BANG || is byte QMARK then Some CommentToken else None) = Some t ->
  (t = StartTagToken /\ is_ascii_alphabetic byte = true) \/ t = EndTagToken \/ t = CommentToken.
Proof.
  destruct (is_ascii_alphabetic byte); [intros H; injection H as <-; auto|].
  destruct (is byte SLASH); [intros H; injection H as <-; auto|].
  destruct (is byte BANG || is byte QMARK); [intros H; injection H as <-; auto|discriminate].
Qed.

Definition name_facts (inp : list N) (s : st) : Prop := ascii_at inp (data_start s) /\ ascii_at inp (data_end s).
Definition end_fact (inp : list N) (s : st) : Prop := gt_before inp (raw_end s) \/ lt_at inp (raw_end s).

Definition next_res (inp : list N) (r : result token_type) (s' : st) : Prop :=
  match r with
  | RErr => name_facts inp s' /\ utf8_valid (sub inp (data_start s') (data_end s')) = false
  | ROk tk => tk <> ErrorToken -> end_fact inp s' /\ (is_tagk tk = true -> name_facts inp s')
  end.

Lemma next_end lower inp s r s' : next lower inp s = (r, s') -> good s' -> next_res inp r s'.
Proof.
  intros EQ G. unfold next in EQ. gstep EQ G. gstep EQ G. gstep EQ G. gstep EQ G.
  gstep EQ G; [grun EQ G; intros H; congruence|].
  gstep EQ G. gstep EQ G.
  - (* a text token of a raw-text element *)
    gstep EQ G. intros _. split; [|discriminate]. right.
    gstep' Eh; [|gstep' Eh; discriminate]. gstep' Eh.
    assert (HL : lt_at inp (raw_end s1)).
    { gstep' Eh0.
      - (* plaintext: runs to EOF *)
        exfalso. gstep' Eh0.
        eapply (loop_in_exit_rule inp _ (fun _ t => err t = true)) in Eh1; [| |intros; pres|eassumption].
        + cbv zeta in Eh0. grun' Eh0. gabsurd.
        + clear. intros x t r t' Eb G. grun Eb G; try exact I. gsimp. rewrite negb_false_iff in *. assumption.
      - eapply read_raw_or_cdata_end; eauto. }
    grun' Eh; try discriminate. gsimp. exact HL.
  - clear Eh. gstep EQ G. gstep EQ G. gstep EQ G.
    eapply (loop_in_exit_rule inp _ (fun o t => match o with Some res => next_res inp res t | None => err t = true end)) in Eh;
      [| |intros; pres|eassumption].
    + match type of EQ with (match ?o with _ => _ end) _ _ = _ => destruct o as [res|] end.
      * gstep EQ G. exact Eh.
      * grun EQ G; gabsurd.
    + clear. intros x t r t' Eb G.
      gstep Eb G. gstep Eb G. gstep Eb G; [gstep Eb G; assumption|].
      gstep Eb G; [gstep Eb G; exact I|].
      gstep Eb G. gstep Eb G. gstep Eb G; [gstep Eb G; assumption|].
      cbv zeta in Eb. gstep Eb G; [|grun Eb G; exact I].
      apply tt_cases in C2. gstep Eb G. gstep Eb G.
      { (* the text before the tag *)
        grun Eb G. intros _. split; [|discriminate]. right. unfold lt_at. gsimp. rewrite negb_false_iff in *. gbytes. subst.
        match goal with |- nth_error _ ?p = _ => replace p with (raw_end t) by lia end. assumption. }
      destruct C2 as [[-> Ha]|[->| ->]].
      { (* start tag *)
        gstep Eb G. apply read_start_tag_end in Eh; [|assumption]. destruct Eh as (H1 & H2 & H3 & H4 & H5).
        gsimp.
        assert (NF : name_facts inp s).
        { split; [|exact H3]. rewrite H2. eapply ascii_at_intro; [exact Hb0|gsimp; lia|apply alpha_lt; exact Ha]. }
        gstep Eb G.
        - gstep Eb G. gstep Eb G. gsimp. intros _. split; [left; exact H4|intros _; exact NF].
        - gstep Eb G. split; assumption. }
      { (* end tag *)
        gstep Eb G. gstep Eb G. gstep Eb G; [gstep Eb G; assumption|].
        gstep Eb G.
        - grun Eb G. intros _. split; [|discriminate]. left. ggt.
        - gstep Eb G.
          + gstep Eb G. apply read_tag_end in Eh; [|assumption]. destruct Eh as (H1 & H2 & H3 & H4).
            gstep Eb G. gstep Eb G.
            assert (Ee : err s = false) by (match goal with Gs : good s |- _ => destruct Gs as (He & _); exact He end).
            rewrite Ee in Eh. gstep' Eh. gstep Eb G. gstep Eb G. gsimp. intros _.
            split; [left; exact H4|intros _]. unfold name_facts. gsimp. split; [|exact H3]. rewrite H2.
            eapply ascii_at_intro; [eassumption|gsimp; lia|apply alpha_lt; assumption].
          + grun Eb G. intros _. split; [|discriminate]. left. gsimp. eapply read_until_close_angle_end; eauto. }
      { (* comment, doctype, cdata *)
        gstep Eb G.
        - gstep Eb G. apply read_markup_declaration_end in Eh; [|assumption]. destruct Eh as [H1 H2].
          grun Eb G. gsimp. intros _. split; [left; exact H1|]. rewrite H2. discriminate.
        - grun Eb G. intros _. split; [|discriminate]. left. gsimp. eapply read_until_close_angle_end; eauto. }
Qed.
