(* HtmlInsert.v — append_child / prepend_child (body_append.rs, body_prepend.rs): the insertion into a buffered
   element by RE-TOKENISING it, as a function of the element's tokens; and that on a balanced element it is the
   reference insertion.  Discharges HtmlTokens.insert_ok from the tokenisation of the target. *)
Require Import RIO.Base RIO.TokMonad RIO.HtmlTok RIO.TokLogic RIO.HtmlTokProofs RIO.BodyText RIO.HtmlFilter RIO.Dom RIO.HtmlTokens RIO.HtmlBridge.
Close Scope N_scope.
Open Scope nat_scope.

(* ------------------------------------------------------------------------------------------ UTF-8 validity of a concatenation *)
Lemma utf8_valid_app_n : forall n a b, length a <= n -> utf8_valid a = true -> utf8_valid b = true -> utf8_valid (a ++ b) = true.
Proof.
  induction n as [|n IH]; intros a b Hl Ha Hb.
  - destruct a; [exact Hb|cbn in Hl; lia].
  - destruct a as [|b0 t0]; [exact Hb|]. cbn [app]. cbn [utf8_valid] in Ha |- *. cbn [length] in Hl.
    destruct (N.ltb b0 128). { apply IH; [lia|exact Ha|exact Hb]. }
    destruct (in_range 194 223 b0).
    { destruct t0 as [|b1 t1]; [discriminate|]. cbn [app]. apply andb_prop in Ha. destruct Ha as [H1 H2]. rewrite H1. cbn [andb].
      apply IH; [cbn [length] in Hl; lia|exact H2|exact Hb]. }
    destruct (in_range 224 239 b0).
    { destruct t0 as [|b1 [|b2 t2]]; try discriminate. cbn [app]. apply andb_prop in Ha. destruct Ha as [H1 H2]. rewrite H1. cbn [andb].
      apply IH; [cbn [length] in Hl; lia|exact H2|exact Hb]. }
    destruct (in_range 240 244 b0); [|discriminate].
    destruct t0 as [|b1 [|b2 [|b3 t3]]]; try discriminate. cbn [app]. apply andb_prop in Ha. destruct Ha as [H1 H2]. rewrite H1. cbn [andb].
    apply IH; [cbn [length] in Hl; lia|exact H2|exact Hb].
Qed.
Lemma utf8_valid_app a b : utf8_valid a = true -> utf8_valid b = true -> utf8_valid (a ++ b) = true.
Proof. apply (utf8_valid_app_n (length a)). lia. Qed.

Lemma as_string_ok b r : as_string b = ROk r -> r = b /\ utf8_valid b = true.
Proof. unfold as_string. destruct (utf8_valid b); [intros [= <-]; auto|discriminate]. Qed.
Lemma as_string_valid b : utf8_valid b = true -> as_string b = ROk b.
Proof. unfold as_string. intros ->. reflexivity. Qed.

Section Insert.
Variable lower : str -> str.
Variable sel_eval : str -> str -> bool.
Notation tokens_from := (tokens_from lower).
Notation after_next := (after_next lower).

(* ------------------------------------------------------------------------------------------ tokenizer state facts *)
Lemma no_panic_true s : no_panic s = true -> panic s = None.
Proof. unfold no_panic. destruct (panic s); [discriminate|reflexivity]. Qed.

Lemma sub_skipn_from b rs re : rs <= re -> sub b rs re ++ skipn re b = skipn rs b.
Proof.
  intros H. unfold sub. rewrite <- (firstn_skipn (re - rs) (skipn rs b)) at 2. f_equal.
  rewrite skipn_skipn'. f_equal. lia.
Qed.

Lemma tk_raw_sub data s : tk_raw data s = sub data (raw_start s) (raw_end s).
Proof. reflexivity. Qed.
Lemma tk_buffered_skipn data s : tk_buffered data s = skipn (raw_end s) data.
Proof. reflexivity. Qed.

Lemma tag_name_frame data s : raw_start (snd (tk_tag_name lower data s)) = raw_start s /\ raw_end (snd (tk_tag_name lower data s)) = raw_end s.
Proof. destruct (pres2_tag_name lower data s) as [Hx He]. split; [apply (ext_rs _ _ Hx)|exact He]. Qed.

Lemma tag_name_state data s : panic (snd (tag_name lower data s)) = None ->
  snd (tag_name lower data s) = s \/ snd (tag_name lower data s) = set_data_end (raw_end s) (set_data_start (raw_end s) s).
Proof.
  unfold tag_name. rewrite bind_get.
  destruct (data_start s <? data_end s); [|left; reflexivity].
  assert (Hslice : snd (slice 53 (data_start s) (data_end s) data s) = s \/ panic (snd (slice 53 (data_start s) (data_end s) data s)) <> None).
  { unfold slice. cbn [snd]. destruct ((data_start s <=? data_end s) && (data_end s <=? length data)); [left; reflexivity|right].
    apply set_panic_site_not_none. }
  destruct (token s); try (left; reflexivity); rewrite bind_eq;
    (destruct (negb (utf8_valid (fst (slice 53 (data_start s) (data_end s) data s))));
     [ cbn [ret snd]; intros Hp; left; destruct Hslice as [E|E]; [exact E|contradiction]
     | rewrite !bind_upd; cbn [ret snd]; intros Hp;
       destruct Hslice as [E|E];
       [ right; rewrite E; reflexivity
       | exfalso; apply E; destruct (snd (slice 53 (data_start s) (data_end s) data s)); exact Hp ] ]).
Qed.

(* next() starts by overwriting what tag_name() writes *)
Lemma next_after_tag_name data s : panic (snd (tk_tag_name lower data s)) = None ->
  tk_next lower data (snd (tk_tag_name lower data s)) = tk_next lower data s.
Proof.
  intros Hp. unfold tk_tag_name, tk_next in *. destruct (tag_name_state data s Hp) as [E|E]; rewrite E; [reflexivity|].
  unfold next. rewrite !bind_upd. destruct s; reflexivity.
Qed.

Lemma tokens_from_next n data s s' : tk_next lower data s = tk_next lower data s' -> tokens_from n data s = tokens_from n data s'.
Proof. intros E. destruct n as [|n]; [reflexivity|]. cbn [HtmlBridge.tokens_from]. rewrite E. reflexivity. Qed.

Lemma draw_mk_tok tk nm r : draw (mk_tok tk nm r) = r.
Proof. destruct tk; reflexivity. Qed.

(* what is left of the input after a token = the raw bytes of the tokens that follow, then the tail;
   and every token's raw bytes are valid UTF-8 (raw_as_string succeeded) *)
Lemma tokens_from_spec data : forall n s toks tail, tokens_from n data s = Some (toks, tail) ->
  skipn (raw_end s) data = concat (map draw toks) ++ tail /\ Forall (fun t => utf8_valid (draw t) = true) toks.
Proof.
  induction n as [|n IH]; intros s toks tail H; [discriminate|].
  cbn [HtmlBridge.tokens_from] in H.
  pose proof (next_raw_start lower data s) as Hrs. unfold tk_next in H.
  destruct (next lower data s) as [[tk|] s1]; [|discriminate]. cbn [snd] in Hrs.
  destruct (no_panic (snd (raw data s1))) eqn:Hnp; [|discriminate]. cbn [negb] in H.
  destruct (raw_spec data s1) as (_ & _ & Hrange). specialize (Hrange (no_panic_true _ Hnp)). destruct Hrange as [R1 R2].
  destruct (token_eqb tk ErrorToken || err s1).
  - injection H as <- <-. split; [|constructor]. cbn [map concat app]. rewrite tk_raw_sub, tk_buffered_skipn, <- Hrs.
    symmetry. apply sub_skipn_from. exact R1.
  - destruct (as_string (tk_raw data s1)) as [r|] eqn:Eas; [|discriminate]. apply as_string_ok in Eas. destruct Eas as [-> Hvalid].
    assert (Hcons : forall s2 t, raw_end s2 = raw_end s1 -> draw t = tk_raw data s1 ->
                    cons_fst t (tokens_from n data s2) = Some (toks, tail) ->
                    skipn (raw_end s) data = concat (map draw toks) ++ tail /\ Forall (fun t => utf8_valid (draw t) = true) toks).
    { intros s2 t He Hd Hc. destruct (tokens_from n data s2) as [[toks1 tail1]|] eqn:Hn; [|discriminate]. cbn [cons_fst] in Hc.
      injection Hc as <- <-. destruct (IH s2 toks1 tail1 Hn) as [Hb Hv]. split.
      - cbn [map concat]. rewrite Hd, <- app_assoc, <- Hb, He, tk_raw_sub, <- Hrs. symmetry. apply sub_skipn_from. exact R1.
      - constructor; [rewrite Hd; exact Hvalid|exact Hv]. }
    unfold HtmlBridge.after_next in H. destruct (is_tag tk).
    + pose proof (tag_name_frame data s1) as [_ He]. destruct (tk_tag_name lower data s1) as [[[name fl]|] s2]; [|discriminate].
      destruct (no_panic s2); [|discriminate]. cbn [snd] in He.
      apply (Hcons s2 _ He (draw_mk_tok _ _ _) H).
    + apply (Hcons s1 (DOther (tk_raw data s1)) eq_refl eq_refl H).
Qed.

Lemma concat_valid l : Forall (fun t => utf8_valid (draw t) = true) l -> utf8_valid (concat (map draw l)) = true.
Proof. induction 1 as [|t l Ht Hl IH]; [reflexivity|]. cbn [map concat]. apply utf8_valid_app; assumption. Qed.

(* ------------------------------------------------------------------------------------------ the insertions on tokens *)
(* append_child: before the end tag that brings the level back to 0 *)
Fixpoint app_toks (child output : str) (level : Z) (toks : list dtok) (tail : str) : option str :=
  match toks with
  | [] => None
  | DStart nm r :: rest => app_toks child (output ++ r) (if is_void nm then level else (level + 1)%Z) rest tail
  | DEnd nm r :: rest =>
      if Z.eqb (level - 1) 0 then Some (output ++ child ++ r ++ concat (map draw rest) ++ tail)
      else app_toks child (output ++ r) (level - 1)%Z rest tail
  | DSelf nm r :: rest => app_toks child (output ++ r) level rest tail
  | DOther r :: rest => app_toks child (output ++ r) level rest tail
  end.

(* prepend_child: after the first start tag *)
Fixpoint pre_toks (child output : str) (toks : list dtok) (tail : str) : option str :=
  match toks with
  | [] => None
  | DStart nm r :: rest => Some (output ++ r ++ child ++ concat (map draw rest) ++ tail)
  | t :: rest => pre_toks child (output ++ draw t) rest tail
  end.

Lemma append_loop_tokens data child : forall n s fuel output level toks tail res,
  tokens_from n data s = Some (toks, tail) -> n <= fuel -> utf8_valid tail = true ->
  app_toks child output level toks tail = Some res ->
  append_child_loop lower fuel data child s output level = ROk res.
Proof.
  induction n as [|n IH]; intros s fuel output level toks tail res H Hfuel Htail Happ; [discriminate|].
  destruct fuel as [|fuel]; [lia|].
  cbn [HtmlBridge.tokens_from] in H. cbn [append_child_loop].
  destruct (tk_next lower data s) as [[tk|] s1]; [|discriminate].
  destruct (no_panic (snd (raw data s1))); [|discriminate]. cbn [negb] in H.
  destruct (token_eqb tk ErrorToken || err s1) eqn:Eerr.
  { injection H as <- <-. discriminate. }
  apply orb_false_iff in Eerr. destruct Eerr as [Etk _]. rewrite Etk.
  destruct (as_string (tk_raw data s1)) as [r|] eqn:Eas; [|discriminate].
  unfold HtmlBridge.after_next in H.
  destruct tk; cbn [is_tag] in H; cbn [token_eqb andb]; try discriminate.
  - (* none *) destruct (tokens_from n data s1) as [[toks1 tail1]|] eqn:Hn; [|discriminate]. injection H as <- <-.
    rewrite Eas. cbn [mk_tok app_toks] in Happ. apply (IH s1 fuel _ _ toks1 tail1 res Hn); [lia|exact Htail|exact Happ].
  - (* text *) destruct (tokens_from n data s1) as [[toks1 tail1]|] eqn:Hn; [|discriminate]. injection H as <- <-.
    rewrite Eas. cbn [mk_tok app_toks] in Happ. apply (IH s1 fuel _ _ toks1 tail1 res Hn); [lia|exact Htail|exact Happ].
  - (* start tag *)
    pose proof (tag_name_frame data s1) as [Hs He].
    destruct (tk_tag_name lower data s1) as [[[name fl]|] s2]; [|discriminate]. cbn [snd] in Hs, He.
    destruct (no_panic s2); [|discriminate].
    destruct (tokens_from n data s2) as [[toks1 tail1]|] eqn:Hn; [|discriminate]. injection H as <- <-.
    fold (name_of name). cbn [mk_tok app_toks] in Happ.
    assert (Eraw : tk_raw data s2 = tk_raw data s1) by (rewrite !tk_raw_sub, Hs, He; reflexivity). rewrite Eraw, Eas.
    apply (IH s2 fuel _ _ toks1 tail1 res Hn); [lia|exact Htail|exact Happ].
  - (* end tag *)
    pose proof (tag_name_frame data s1) as [Hs He].
    destruct (tk_tag_name lower data s1) as [[[name fl]|] s2] eqn:Etn; [|discriminate]. cbn [snd] in Hs, He.
    destruct (no_panic s2) eqn:Hnp; [|discriminate].
    destruct (tokens_from n data s2) as [[toks1 tail1]|] eqn:Hn; [|discriminate]. injection H as <- <-.
    cbn [mk_tok app_toks] in Happ.
    destruct (Z.eqb (level - 1) 0) eqn:Ez.
    + injection Happ as <-. rewrite Eas.
      destruct (tokens_from_spec data n s2 toks1 tail1 Hn) as [Hb Hv].
      rewrite tk_buffered_skipn, <- He, Hb, as_string_valid; [reflexivity|].
      apply utf8_valid_app; [apply concat_valid; exact Hv|exact Htail].
    + rewrite Eas.
      assert (Hn1 : tokens_from n data s1 = Some (toks1, tail1)).
      { rewrite <- Hn. symmetry. apply tokens_from_next.
        pose proof (next_after_tag_name data s1) as Hx. rewrite Etn in Hx. cbn [snd] in Hx. apply Hx. apply no_panic_true. exact Hnp. }
      apply (IH s1 fuel _ _ toks1 tail1 res Hn1); [lia|exact Htail|exact Happ].
  - (* self-closing *)
    destruct (tk_tag_name lower data s1) as [[[name fl]|] s2] eqn:Etn; [|discriminate].
    destruct (no_panic s2) eqn:Hnp; [|discriminate].
    destruct (tokens_from n data s2) as [[toks1 tail1]|] eqn:Hn; [|discriminate]. injection H as <- <-.
    cbn [mk_tok app_toks] in Happ. rewrite Eas.
    assert (Hn1 : tokens_from n data s1 = Some (toks1, tail1)).
    { rewrite <- Hn. symmetry. apply tokens_from_next.
      pose proof (next_after_tag_name data s1) as Hx. rewrite Etn in Hx. cbn [snd] in Hx. apply Hx. apply no_panic_true. exact Hnp. }
    apply (IH s1 fuel _ _ toks1 tail1 res Hn1); [lia|exact Htail|exact Happ].
  - (* comment *) destruct (tokens_from n data s1) as [[toks1 tail1]|] eqn:Hn; [|discriminate]. injection H as <- <-.
    rewrite Eas. cbn [mk_tok app_toks] in Happ. apply (IH s1 fuel _ _ toks1 tail1 res Hn); [lia|exact Htail|exact Happ].
  - (* doctype *) destruct (tokens_from n data s1) as [[toks1 tail1]|] eqn:Hn; [|discriminate]. injection H as <- <-.
    rewrite Eas. cbn [mk_tok app_toks] in Happ. apply (IH s1 fuel _ _ toks1 tail1 res Hn); [lia|exact Htail|exact Happ].
Qed.

Lemma prepend_loop_tokens data child : forall n s fuel output toks tail res,
  tokens_from n data s = Some (toks, tail) -> n <= fuel -> utf8_valid tail = true ->
  pre_toks child output toks tail = Some res ->
  prepend_child_loop lower fuel data child s output = ROk res.
Proof.
  induction n as [|n IH]; intros s fuel output toks tail res H Hfuel Htail Hpre; [discriminate|].
  destruct fuel as [|fuel]; [lia|].
  cbn [HtmlBridge.tokens_from] in H. cbn [prepend_child_loop].
  destruct (tk_next lower data s) as [[tk|] s1]; [|discriminate].
  destruct (no_panic (snd (raw data s1))); [|discriminate]. cbn [negb] in H.
  destruct (token_eqb tk ErrorToken || err s1) eqn:Eerr.
  { injection H as <- <-. discriminate. }
  apply orb_false_iff in Eerr. destruct Eerr as [Etk _]. rewrite Etk.
  destruct (as_string (tk_raw data s1)) as [r|] eqn:Eas; [|discriminate].
  unfold HtmlBridge.after_next in H.
  assert (Hplain : forall t, draw t = r -> (forall nm r', t <> DStart nm r') ->
            cons_fst t (tokens_from n data s1) = Some (toks, tail) ->
            prepend_child_loop lower fuel data child s1 (output ++ r) = ROk res).
  { intros t Hd Hns Hc. destruct (tokens_from n data s1) as [[toks1 tail1]|] eqn:Hn; [|discriminate]. injection Hc as <- <-.
    apply (IH s1 fuel _ toks1 tail1 res Hn); [lia|exact Htail|].
    destruct t; cbn [pre_toks draw] in Hpre, Hd; try (rewrite Hd in Hpre; exact Hpre). exfalso. eapply Hns. reflexivity. }
  assert (Htag : forall t s2, draw t = r -> (forall nm r', t <> DStart nm r') ->
            snd (tk_tag_name lower data s1) = s2 -> no_panic s2 = true ->
            cons_fst t (tokens_from n data s2) = Some (toks, tail) ->
            prepend_child_loop lower fuel data child s1 (output ++ r) = ROk res).
  { intros t s2 Hd Hns Es2 Hnp Hc. apply (Hplain t Hd Hns). rewrite <- Hc. f_equal. apply tokens_from_next.
    rewrite <- Es2. symmetry. apply next_after_tag_name. rewrite Es2. apply no_panic_true. exact Hnp. }
  destruct tk; cbn [is_tag] in H; cbn [token_eqb]; try discriminate; rewrite ?Eas.
  - apply (Hplain (DOther r) eq_refl); [discriminate|exact H].
  - apply (Hplain (DOther r) eq_refl); [discriminate|exact H].
  - (* start tag *)
    pose proof (tag_name_frame data s1) as [Hs He].
    destruct (tk_tag_name lower data s1) as [[[name fl]|] s2]; [|discriminate]. cbn [snd] in Hs, He.
    destruct (no_panic s2); [|discriminate].
    destruct (tokens_from n data s2) as [[toks1 tail1]|] eqn:Hn; [|discriminate]. injection H as <- <-.
    cbn [mk_tok pre_toks] in Hpre. injection Hpre as <-.
    destruct (tokens_from_spec data n s2 toks1 tail1 Hn) as [Hb Hv].
    rewrite tk_buffered_skipn, <- He, Hb, as_string_valid; [reflexivity|].
    apply utf8_valid_app; [apply concat_valid; exact Hv|exact Htail].
  - destruct (tk_tag_name lower data s1) as [[[name fl]|] s2] eqn:Etn; [|discriminate].
    destruct (no_panic s2) eqn:Hnp; [|discriminate].
    apply (Htag (mk_tok EndTagToken (name_of name) r) s2 eq_refl); [discriminate|try rewrite Etn; reflexivity|exact Hnp|exact H].
  - destruct (tk_tag_name lower data s1) as [[[name fl]|] s2] eqn:Etn; [|discriminate].
    destruct (no_panic s2) eqn:Hnp; [|discriminate].
    apply (Htag (mk_tok SelfClosingTagToken (name_of name) r) s2 eq_refl); [discriminate|try rewrite Etn; reflexivity|exact Hnp|exact H].
  - apply (Hplain (DOther r) eq_refl); [discriminate|exact H].
  - apply (Hplain (DOther r) eq_refl); [discriminate|exact H].
Qed.

(* ------------------------------------------------------------------------------------------ invariance under text splitting *)
Lemma concat_draw_segs l : concat (map draw (unsegs (segs l))) = concat (map draw l).
Proof.
  induction l as [|t l IH]; [reflexivity|].
  destruct t as [nm r|nm r|nm r|a]; cbn [segs]; destruct (segs l) as [h tl] eqn:Es; unfold unsegs in *; cbn [fst snd unseg_tl flat_map map concat draw app] in *;
    try (rewrite <- IH; reflexivity).
  rewrite <- IH, <- app_assoc. reflexivity.
Qed.

Lemma app_toks_segs child tail l : forall output level,
  app_toks child output level (unsegs (segs l)) tail = app_toks child output level l tail.
Proof.
  induction l as [|t l IH]; intros output level.
  - cbn. reflexivity.
  - destruct t as [nm r|nm r|nm r|a]; cbn [segs]; destruct (segs l) as [h tl] eqn:Es; unfold unsegs in *; cbn [fst snd unseg_tl flat_map app] in *.
    + cbn [app_toks]. rewrite app_nil_r. rewrite <- IH. reflexivity.
    + cbn [app_toks]. rewrite app_nil_r. destruct (Z.eqb (level - 1) 0).
      * pose proof (concat_draw_segs l) as Hc. rewrite Es in Hc. unfold unsegs in Hc. cbn [fst snd] in Hc. rewrite <- Hc. reflexivity.
      * rewrite <- IH. reflexivity.
    + cbn [app_toks]. rewrite app_nil_r. rewrite <- IH. reflexivity.
    + cbn [app_toks]. rewrite <- IH. cbn [app_toks]. rewrite app_assoc. reflexivity.
Qed.

Lemma pre_toks_segs child tail l : forall output,
  pre_toks child output (unsegs (segs l)) tail = pre_toks child output l tail.
Proof.
  induction l as [|t l IH]; intros output.
  - cbn. reflexivity.
  - destruct t as [nm r|nm r|nm r|a]; cbn [segs]; destruct (segs l) as [h tl] eqn:Es; unfold unsegs in *; cbn [fst snd unseg_tl flat_map app] in *.
    + cbn [pre_toks draw]. rewrite app_nil_r.
      pose proof (concat_draw_segs l) as Hc. rewrite Es in Hc. unfold unsegs in Hc. cbn [fst snd] in Hc. rewrite <- Hc. reflexivity.
    + cbn [pre_toks draw]. rewrite app_nil_r. rewrite <- IH. reflexivity.
    + cbn [pre_toks draw]. rewrite app_nil_r. rewrite <- IH. reflexivity.
    + cbn [pre_toks draw]. rewrite <- IH. cbn [pre_toks draw]. rewrite app_assoc. reflexivity.
Qed.

(* ------------------------------------------------------------------------------------------ on a balanced element *)
Lemma app_toks_equiv child tail l1 l2 output level : segs l1 = segs l2 ->
  app_toks child output level l1 tail = app_toks child output level l2 tail.
Proof. intros E. rewrite <- (app_toks_segs child tail l1), <- (app_toks_segs child tail l2), E. reflexivity. Qed.
Lemma pre_toks_equiv child tail l1 l2 output : segs l1 = segs l2 ->
  pre_toks child output l1 tail = pre_toks child output l2 tail.
Proof. intros E. rewrite <- (pre_toks_segs child tail l1), <- (pre_toks_segs child tail l2), E. reflexivity. Qed.

Lemma app_node child tail n : balanced lower n = true -> forall output L rest, (1 <= L)%Z ->
  app_toks child output L (doc_tokens lower n ++ rest) tail = app_toks child (output ++ serialize n) L rest tail.
Proof.
  induction n as [t a ch IH|t a|t a|s|s|t s] using node_ind2; intros Hb output L rest HL; cbn [balanced] in Hb; cbn [doc_tokens serialize app app_toks].
  - apply andb_prop in Hb. destruct Hb as [Hv Hch]. apply negb_true_iff in Hv. rewrite Hv.
    rewrite <- app_assoc.
    assert (Hkids : forall output L rest, (1 <= L)%Z ->
              app_toks child output L (flat_map (doc_tokens lower) ch ++ rest) tail = app_toks child (output ++ flat_map serialize ch) L rest tail).
    { clear - IH Hch. induction IH as [|x l Hx Hl IHl]; intros output L rest HL; cbn [flat_map].
      - rewrite app_nil_r. reflexivity.
      - cbn [forallb] in Hch. apply andb_prop in Hch. destruct Hch as [Hx1 Hl1].
        rewrite <- app_assoc, (Hx Hx1 output L _ HL), (IHl Hl1 _ L rest HL), <- app_assoc. reflexivity. }
    rewrite (Hkids _ (L + 1)%Z _ ltac:(lia)). cbn [app app_toks].
    replace (L + 1 - 1)%Z with L by lia. destruct (Z.eqb L 0) eqn:Ez; [apply Z.eqb_eq in Ez; lia|].
    f_equal. unfold open_tag, close_tag. rewrite <- !app_assoc. cbn [app]. rewrite <- !app_assoc. cbn [app]. reflexivity.
  - rewrite Hb. reflexivity.
  - reflexivity.
  - reflexivity.
  - reflexivity.
  - apply negb_true_iff in Hb. rewrite Hb. replace (L + 1 - 1)%Z with L by lia. destruct (Z.eqb L 0) eqn:Ez; [apply Z.eqb_eq in Ez; lia|].
    f_equal. unfold open_tag, close_tag. rewrite <- !app_assoc. cbn [app]. rewrite <- !app_assoc. cbn [app]. reflexivity.
Qed.

Lemma app_target child t a ch : balanced lower (Elem t a ch) = true ->
  app_toks child [] 0 (doc_tokens lower (Elem t a ch)) [] = Some (open_tag t a ++ ser_forest ch ++ child ++ close_tag t).
Proof.
  intros Hb. cbn [balanced] in Hb. apply andb_prop in Hb. destruct Hb as [Hv Hch]. apply negb_true_iff in Hv.
  cbn [doc_tokens app_toks]. rewrite Hv. cbn [app Z.add].
  assert (Hkids : forall l, forallb (balanced lower) l = true -> forall output L rest, (1 <= L)%Z ->
            app_toks child output L (flat_map (doc_tokens lower) l ++ rest) [] = app_toks child (output ++ flat_map serialize l) L rest []).
  { induction l as [|x l IHl]; intros Hl output L rest HL; cbn [flat_map].
    - rewrite app_nil_r. reflexivity.
    - cbn [forallb] in Hl. apply andb_prop in Hl. destruct Hl as [Hx1 Hl1].
      rewrite <- app_assoc, (app_node child [] x Hx1 output L _ HL), (IHl Hl1 _ L rest HL), <- app_assoc. reflexivity. }
  rewrite (Hkids ch Hch _ 1%Z _ ltac:(lia)). cbn [app_toks Z.sub Z.eqb Z.add Z.opp Z.pos_sub map concat].
  rewrite !app_nil_r. unfold ser_forest. rewrite <- app_assoc. reflexivity.
Qed.

Lemma pre_target child t a ch :
  pre_toks child [] (doc_tokens lower (Elem t a ch)) [] = Some (open_tag t a ++ child ++ ser_forest ch ++ close_tag t).
Proof.
  cbn [doc_tokens pre_toks app]. f_equal. f_equal. f_equal. rewrite app_nil_r.
  pose proof (forest_tokens_raw lower ch) as H. unfold forest_tokens in H. rewrite map_app, concat_app, H. cbn. rewrite app_nil_r. reflexivity.
Qed.

(* HYPOTHESIS form for a target that is re-tokenised: the whole serialisation is consumed *)
Definition tokenizes_strict (doc : list node) : Prop :=
  exists toks, tokenize lower (ser_forest doc) = Some (toks, []) /\ segs toks = segs (forest_tokens lower doc).

Lemma tokenize_unfold data : tokenize lower data = HtmlBridge.tokens_from lower (length data + 2) data (new lower).
Proof. reflexivity. Qed.

Theorem insert_ok_tokens act sel value n : balanced lower n = true -> tokenizes_strict [n] ->
  insert_ok lower sel_eval act sel value n.
Proof.
  intros Hb (toks & Htok & Hsegs). unfold insert_ok. intros _ _. destruct n as [t a ch| | | | |]; try exact I.
  unfold forest_tokens in Hsegs. cbn [flat_map] in Hsegs. rewrite app_nil_r in Hsegs.
  assert (Ed : ser_forest [Elem t a ch] = serialize (Elem t a ch)) by (unfold ser_forest; cbn [flat_map]; apply app_nil_r).
  rewrite Ed in Htok. clear Ed. rewrite tokenize_unfold in Htok.
  destruct act; [| |exact I].
  - assert (Happ : app_toks (content value) [] 0 toks [] = Some (serialize (Elem t a (ch ++ value)))).
    { rewrite (app_toks_equiv _ _ _ _ _ _ Hsegs), (app_target _ t a ch Hb). cbn [serialize]. fold (ser_forest (ch ++ value)).
      rewrite ser_forest_app, <- !app_assoc. reflexivity. }
    revert Htok Happ. generalize (serialize (Elem t a (ch ++ value))). generalize (serialize (Elem t a ch)).
    intros data res Htok Happ. unfold append_child.
    exact (append_loop_tokens data (content value) (length data + 2) (new lower) (length data + 2) [] 0%Z toks [] res Htok (Nat.le_refl _) eq_refl Happ).
  - assert (Hpre : pre_toks (content value) [] toks [] = Some (serialize (Elem t a (value ++ ch)))).
    { rewrite (pre_toks_equiv _ _ _ _ _ Hsegs), (pre_target _ t a ch). cbn [serialize]. fold (ser_forest (value ++ ch)).
      rewrite ser_forest_app, <- !app_assoc. reflexivity. }
    revert Htok Hpre. generalize (serialize (Elem t a (value ++ ch))). generalize (serialize (Elem t a ch)).
    intros data res Htok Hpre. unfold prepend_child.
    exact (prepend_loop_tokens data (content value) (length data + 2) (new lower) (length data + 2) [] toks [] res Htok (Nat.le_refl _) eq_refl Hpre).
Qed.

(* ------------------------------------------------------------------------------------------ C15 on bytes, one filter *)
(* side condition on the target of append_child / prepend_child WITH a selector (the element is buffered and
   re-tokenised): it is balanced and the tokenizer reads its serialisation as its token stream *)
Definition target_cond (act : action) (sel : option str) (n : node) : Prop :=
  hs sel = true -> act <> AReplace -> balanced lower n = true /\ tokenizes_strict [n].

Definition in_domain_bytes (act : action) (path : list str) (sel : option str) (doc : list node) : Prop :=
  spine lower act path (target_cond act sel) path doc.

Lemma in_domain_of_bytes act path sel value doc : in_domain_bytes act path sel doc -> in_domain lower sel_eval act path sel value doc.
Proof.
  unfold in_domain_bytes, in_domain. apply spine_mono. intros n Hc.
  destruct (action_eq_dec act AReplace) as [->|Hne].
  - unfold insert_ok. intros _ _. destruct n; exact I.
  - unfold insert_ok. intros Hhs Hsel. destruct (Hc Hhs Hne) as [Hb Ht].
    exact (insert_ok_tokens act sel value n Hb Ht Hhs Hsel).
Qed.

(* PARTIAL: the hypotheses [tokenizes_as] (and [tokenizes_strict] inside [in_domain_bytes]) say that the tokenizer
   model reads the serialised document as the token stream of the tree; they are not proved for a class of
   documents, only evaluated on examples (properties/C15.v). *)
Theorem C15_byte_level_partial act path sel value doc :
  in_domain_bytes act path sel doc -> tokenizes_as lower doc ->
  body_run lower sel_eval true [mk_filter act path sel value] [ser_forest doc]
  = ser_forest (ref_edit lower act value (css sel_eval sel) path doc).
Proof.
  intros Hdom Htok. apply byte_level_from_tokens; [|exact Htok]. apply in_domain_of_bytes. exact Hdom.
Qed.

Theorem C15_stage_level_partial act path sel value doc :
  in_domain_bytes act path sel doc -> tokenizes_as lower doc ->
  exists F1 o1, hfb_filter lower sel_eval (hfb_new (mkvis act path sel value)) (ser_forest doc) = (F1, o1) /\
    o1 ++ held F1 = ser_forest (ref_edit lower act value (css sel_eval sel) path doc) /\ f_in_error F1 = false.
Proof.
  intros Hdom Htok. apply stage_level_from_tokens; [|exact Htok]. apply in_domain_of_bytes. exact Hdom.
Qed.

End Insert.
