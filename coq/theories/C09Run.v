(* C09Run.v — executable verdicts for the correspondence check of C09 (URL normalisation is canonical).
   A case = a router configuration, one rule without markers (source path, optional source query, target),
   one request URL (and optional host), the relation between the two the case was generated for
   ([family]) with the verdict that relation demands (computed by the harness GENERATOR from the way it
   built the case, never by calling the crate), and what the crate did. *)
Require Import RIO.Base RIO.Pct RIO.Url.
Open Scope N_scope.

Definition opt_eqb {A} (e : A -> A -> bool) (a b : option A) : bool :=
  match a, b with None, None => true | Some x, Some y => e x y | _, _ => false end.

Inductive family :=
| FSelf        (* request URL = the rule's own URL: must match *)
| FPerm        (* same URL, query parameters permuted: must match *)
| FMarketing   (* URL + parameters of the configured marketing set: match iff ignore_marketing_query_params *)
| FCase        (* ASCII case of every letter swapped: match iff ignore_path_and_query_case (or nothing significant changed) *)
| FDiffer      (* path or decoded parameters differ: must not match *)
| FIdem        (* any URL: re-normalising changes nothing *)
| FWitness.    (* outside the stated domain: the expectation is the recorded behaviour of the crate *)

Record case09 := {
  c_cfg : config;
  c_family : family;
  c_rule_path : str;                 (* rule.source.path *)
  c_rule_query : option str;         (* rule.source.query *)
  c_target : str;                    (* rule.target *)
  c_url : str;                       (* request: path_and_query given to Request::from_config *)
  c_host : option str;               (* request host (ASCII) *)
  (* what the relation demands, from the generator *)
  c_expect_match : bool;
  c_expect_skipped : option str;     (* skipped_query_params the request must carry *)
  c_expect_location : option str;    (* Location when it matches *)
  (* implementation *)
  o_rule_static : option str;        (* rule.into_route(&config).path_and_query(): Some s for Static(s), None for Dynamic *)
  o_req : str;                       (* Request::from_config(..).path_and_query() *)
  o_req_rebuilt : str;               (* router.rebuild_request(&req).path_and_query() *)
  o_req_rebuilt2 : str;              (* rebuilt once more *)
  o_idem : bool;                     (* the two rebuilt requests serialise identically *)
  o_host_rebuilt : option str;       (* host of the rebuilt request *)
  o_skipped : option str;            (* rebuilt.path_and_query_skipped.skipped_query_params *)
  o_match : bool;                    (* a router holding only this rule returns it for the rebuilt request *)
  o_location : option str            (* Location header produced by the matched action, if any *)
}.

Definition is_idem (f : family) : bool := match f with FIdem => true | _ => false end.

(* preconditions of the model: decoded pieces are valid UTF-8, host is ASCII *)
Definition model_applicable (c : case09) : bool :=
  from_config_valid (c_url c) && rule_path_and_query_valid (c_rule_query c)
  && match c_host c with Some h => all_ascii h | None => true end.

(* Location produced by Action::from_routes_rule + filter_headers for the single rule: the target with the
   skipped parameters, no header for an empty target *)
Definition model_location (target : str) (skipped : option str) : option str :=
  if is_nil target then None else Some (target_with_skipped target skipped).

Definition model_agrees (c : case09) : bool :=
  let cfg := c_cfg c in
  let rule_static := rule_path_and_query cfg (c_rule_path c) (c_rule_query c) in
  let req := request_from_config cfg (c_url c) (c_host c) in
  let reb := rebuild_with_config cfg req in
  let reb2 := rebuild_with_config cfg reb in
  let skipped := pq_skipped_query_params (rq_path_and_query_skipped reb) in
  let m := static_rule_matches rule_static reb in
  opt_eqb str_eqb (Some rule_static) (o_rule_static c)
  && str_eqb (request_path_and_query req) (o_req c)
  && str_eqb (request_path_and_query reb) (o_req_rebuilt c)
  && str_eqb (request_path_and_query reb2) (o_req_rebuilt2 c)
  && opt_eqb str_eqb (rq_host reb) (o_host_rebuilt c)
  && opt_eqb str_eqb skipped (o_skipped c)
  && Bool.eqb m (o_match c)
  && opt_eqb str_eqb (if m then model_location (c_target c) skipped else None) (o_location c).

(* the PROPERTY on the implementation's observations, for the relation the case was generated for *)
Definition property_holds (c : case09) : bool :=
  (* re-normalising a request changes nothing *)
  str_eqb (o_req_rebuilt c) (o_req c) && str_eqb (o_req_rebuilt2 c) (o_req_rebuilt c) && o_idem c
  && (is_idem (c_family c)
      || (Bool.eqb (o_match c) (c_expect_match c)
          && opt_eqb str_eqb (o_skipped c) (c_expect_skipped c)
          && opt_eqb str_eqb (o_location c) (if o_match c then c_expect_location c else None))).

(* bit 1: model <> implementation (skipped outside the model's preconditions);
   bit 4: the property fails on the implementation's observations *)
Definition verdict09 (c : case09) : N :=
  (vbit (negb (model_applicable c) || model_agrees c) 1 + vbit (property_holds c) 4)%N.

Definition spec_verdict09 (c : case09) : N := vbit (property_holds c) 4.

(* constructors used by the harness printer *)
Definition mk_cfg (ihc ihdc ipqc imqp pass amah : bool) (mk : list str) : config :=
  {| ignore_host_case := ihc; ignore_header_case := ihdc; ignore_path_and_query_case := ipqc;
     ignore_marketing_query_params := imqp; marketing_query_params := mk;
     pass_marketing_query_params_to_target := pass; always_match_any_host := amah |}.

(* N.iter k (cons b): run-length form of long strings in harness output *)
Definition rep (k b : N) (tl : str) : str := N.iter k (cons b) tl.
