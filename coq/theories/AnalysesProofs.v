Require Import RIO.Base RIO.Analyses.
Close Scope N_scope.

Section LoopProofs.
Variable node : Type.
Variable node_eqb : node -> node -> bool.
Hypothesis node_eqb_spec : forall a b, node_eqb a b = true <-> a = b.
Variable step : node -> option (node * N).
Variable external : node -> bool.
Notation loop := (loop node node_eqb step external).
Notation compute := (compute node node_eqb step external).

Lemma NoDup_app_cons_end {A} (l : list A) x : NoDup l -> ~ In x l -> NoDup (l ++ [x]).
Proof.
  induction l as [|y l IH]; intros Hn Hx; cbn; [constructor; [intros []|constructor]|].
  inversion Hn; subst. constructor.
  - rewrite in_app_iff. cbn. intros [H|[H|[]]]; [contradiction|subst; apply Hx; left; reflexivity].
  - apply IH; [assumption|]. intros H. apply Hx. right. exact H.
Qed.

Lemma existsb_in (hops : list (node * N)) n : existsb (fun h => node_eqb (fst h) n) hops = true <-> In n (map fst hops).
Proof.
  rewrite existsb_exists. split.
  - intros (h & Hin & E). apply node_eqb_spec in E. subst. apply in_map. exact Hin.
  - intros H. apply in_map_iff in H. destruct H as (h & <- & Hin). exists h. split; [exact Hin|]. apply node_eqb_spec. reflexivity.
Qed.

(* the explored hops never exceed the limit *)
Lemma loop_length rem i cur hops err : length (fst (loop rem i cur hops err)) <= length hops + rem.
Proof.
  revert i cur hops err. induction rem as [|rem IH]; intros i cur hops err; cbn [Analyses.loop]; [cbn [fst]; lia|].
  destruct (step cur) as [[nxt code]|]; [|cbn [fst]; lia].
  destruct (existsb _ hops); [cbn [fst]; rewrite app_length; cbn [length]; lia|].
  destruct (external nxt); [cbn [fst]; rewrite app_length; cbn [length]; lia|].
  destruct (Nat.eqb rem 0); [cbn [fst]; rewrite app_length; cbn [length]; lia|].
  specialize (IH (S i) nxt (hops ++ [(nxt, code)]) (if Nat.ltb 1 i then Some AtLeastOneHop else err)).
  rewrite app_length in IH. cbn [length] in IH. lia.
Qed.

Theorem loop_bound max start : length (fst (compute max start)) <= max + 1.
Proof. unfold Analyses.compute. pose proof (loop_length max 1 start [(start, 0%N)] None) as H. cbn [length] in H. lia. Qed.

(* Loop is reported exactly when a (url, method) pair repeats; the repeated pair is the last hop *)
Lemma loop_inv rem i cur hops err :
  NoDup (map fst hops) -> err <> Some Loop ->
  let r := loop rem i cur hops err in
  (snd r = Some Loop /\ exists pre n c, fst r = pre ++ [(n, c)] /\ NoDup (map fst pre) /\ In n (map fst pre))
  \/ (snd r <> Some Loop /\ NoDup (map fst (fst r))).
Proof.
  revert i cur hops err. induction rem as [|rem IH]; intros i cur hops err Hn He; cbn [Analyses.loop]; [right; cbn; tauto|].
  destruct (step cur) as [[nxt code]|]; [|right; cbn; tauto].
  destruct (existsb _ hops) eqn:Ex.
  - left. cbn [fst snd]. split; [reflexivity|]. exists hops, nxt, code. repeat split; [exact Hn|]. apply existsb_in. exact Ex.
  - assert (Hn' : NoDup (map fst (hops ++ [(nxt, code)]))).
    { rewrite map_app. cbn [map fst]. apply NoDup_app_cons_end; [exact Hn|]. intros Hin. apply existsb_in in Hin. congruence. }
    assert (He1 : (if Nat.ltb 1 i then Some AtLeastOneHop else err) <> Some Loop) by (destruct (Nat.ltb 1 i); [discriminate|exact He]).
    destruct (external nxt); [right; cbn [fst snd]; tauto|].
    destruct (Nat.eqb rem 0); [right; cbn [fst snd]; split; [discriminate|exact Hn']|].
    apply IH; assumption.
Qed.

Theorem loop_iff max start :
  snd (compute max start) = Some Loop <-> ~ NoDup (map fst (fst (compute max start))).
Proof.
  unfold Analyses.compute.
  destruct (loop_inv max 1 start [(start, 0%N)] None) as [(Hl & pre & n & c & Hf & Hn & Hin)|(Hl & Hn)].
  - cbn. constructor; [intros []|constructor].
  - discriminate.
  - split; [|intros _; exact Hl]. intros _ Hnd. rewrite Hf, map_app in Hnd. cbn [map fst] in Hnd.
    apply NoDup_remove_2 in Hnd. rewrite app_nil_r in Hnd. contradiction.
  - split; [intros H; contradiction|intros H; contradiction].
Qed.

(* when a loop is reported the repeated pair is the LAST hop and everything before it is repetition free *)
Theorem loop_last max start : snd (compute max start) = Some Loop ->
  exists pre n c, fst (compute max start) = pre ++ [(n, c)] /\ NoDup (map fst pre) /\ In n (map fst pre).
Proof.
  unfold Analyses.compute. intros H.
  destruct (loop_inv max 1 start [(start, 0%N)] None) as [(Hl & Hx)|(Hl & Hn)]; [cbn; constructor; [intros []|constructor]|discriminate|exact Hx|contradiction].
Qed.

(* TooManyHops only when the limit is exhausted *)
Lemma too_many rem i cur hops err : err <> Some TooManyHops ->
  snd (loop rem i cur hops err) = Some TooManyHops -> length (fst (loop rem i cur hops err)) = length hops + rem.
Proof.
  revert i cur hops err. induction rem as [|rem IH]; intros i cur hops err He; cbn [Analyses.loop]; [cbn [snd]; intros; contradiction|].
  destruct (step cur) as [[nxt code]|]; [|cbn [snd]; intros; contradiction].
  assert (He1 : (if Nat.ltb 1 i then Some AtLeastOneHop else err) <> Some TooManyHops) by (destruct (Nat.ltb 1 i); [discriminate|exact He]).
  destruct (existsb _ hops); [cbn [snd]; discriminate|].
  destruct (external nxt); [cbn [snd]; intros; contradiction|].
  destruct (Nat.eqb rem 0) eqn:Er.
  - apply Nat.eqb_eq in Er. subst rem. intros _. cbn [fst]. rewrite app_length. reflexivity.
  - intros H. rewrite (IH _ _ _ _ He1 H). rewrite app_length. cbn [length]. lia.
Qed.

Theorem too_many_hops_exact max start : snd (compute max start) = Some TooManyHops -> length (fst (compute max start)) = max + 1.
Proof. unfold Analyses.compute. intros H. rewrite (too_many max 1 start [(start, 0%N)] None); [cbn [length]; lia|discriminate|exact H]. Qed.

(* the hops form a path of the one-hop function from the example's (url, method) *)
Fixpoint path_ok (cur : node) (l : list (node * N)) : Prop :=
  match l with [] => True | (n, c) :: l' => step cur = Some (n, c) /\ path_ok n l' end.
Fixpoint last_node (cur : node) (l : list (node * N)) : node := match l with [] => cur | (n, _) :: l' => last_node n l' end.

Lemma path_snoc s l n c : path_ok s l -> step (last_node s l) = Some (n, c) -> path_ok s (l ++ [(n, c)]) /\ last_node s (l ++ [(n, c)]) = n.
Proof.
  revert s. induction l as [|[m d] l IH]; intros s Hp Hs; cbn in *; [tauto|]. destruct Hp as [H1 H2]. destruct (IH m H2 Hs). tauto.
Qed.

Lemma loop_path rem i s rest err : path_ok s rest ->
  exists rest', fst (loop rem i (last_node s rest) ((s, 0%N) :: rest) err) = (s, 0%N) :: rest' /\ path_ok s rest'.
Proof.
  revert i rest err. induction rem as [|rem IH]; intros i rest err Hp; cbn [Analyses.loop]; [exists rest; cbn; tauto|].
  destruct (step (last_node s rest)) as [[nxt code]|] eqn:Es; [|exists rest; cbn; tauto].
  destruct (path_snoc s rest nxt code Hp Es) as [Hp' Hl'].
  destruct (existsb _ _); [exists (rest ++ [(nxt, code)]); cbn; tauto|].
  destruct (external nxt); [exists (rest ++ [(nxt, code)]); cbn; tauto|].
  destruct (Nat.eqb rem 0); [exists (rest ++ [(nxt, code)]); cbn; tauto|].
  pose proof (IH (S i) (rest ++ [(nxt, code)]) (if Nat.ltb 1 i then Some AtLeastOneHop else err) Hp') as H. rewrite Hl' in H. exact H.
Qed.

Theorem hops_are_a_path max start : exists rest, fst (compute max start) = (start, 0%N) :: rest /\ path_ok start rest.
Proof. unfold Analyses.compute. apply (loop_path max 1 start [] None). exact I. Qed.
End LoopProofs.
