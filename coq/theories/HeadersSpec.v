(* HeadersSpec.v — the reference the property talks about: five operations on a header list,
   stated declaratively (append / filter / map), with the action names as literals.
   Nothing here is shared with the model in Headers.v except the [header]/[hfilter] types. *)
Require Import RIO.Base RIO.Headers.

Section Spec.
Variable lower : str -> str.

Definition same_name (a b : str) : bool := str_eqb (lower a) (lower b).
Definition present (n : str) (hs : list header) : bool := existsb (fun h => same_name (fst h) n) hs.
Definition rewrite_all (n v : str) (hs : list header) : list header :=
  map (fun h => if same_name (fst h) n then (n, v) else h) hs.
(* everything that does not carry the name [n], values and relative order kept *)
Definition others (n : str) (hs : list header) : list header :=
  filter (fun h => negb (same_name (fst h) n)) hs.

Definition s_add : str := [97;100;100]%N.
Definition s_remove : str := [114;101;109;111;118;101]%N.
Definition s_replace : str := [114;101;112;108;97;99;101]%N.
Definition s_override : str := [111;118;101;114;114;105;100;101]%N.
Definition s_default : str := [100;101;102;97;117;108;116]%N.

Definition reference_op (f : hfilter) (hs : list header) : list header :=
  let n := hf_header f in let v := hf_value f in
  if str_eqb (hf_action f) s_add then hs ++ [(n, v)]
  else if str_eqb (hf_action f) s_remove then others n hs
  else if str_eqb (hf_action f) s_replace then rewrite_all n v hs
  else if str_eqb (hf_action f) s_override then
         (if present n hs then rewrite_all n v hs else hs ++ [(n, v)])
  else if str_eqb (hf_action f) s_default then
         (if present n hs then hs else hs ++ [(n, v)])
  else hs.

Definition reference (fs : list hfilter) (hs : list header) : list header :=
  fold_left (fun hs f => reference_op f hs) fs hs.

End Spec.
