(* RxFull.v — the FULL prefix law for the executable engine, with no side condition:
     rx_engine_prefix_law : engine_prefix_law rx_is_match.
   Ingredients: RIO.RxAgree.valid_toks_parse (scanner / parser agreement: in a valid rule regex every prefix.rs token
   parses in isolation) and RIO.RxLaws.rx_prefix_law_toks (the law for such token lists). *)
Require Import RIO.Base RIO.Prefix RIO.Tree RIO.TreeProofs RIO.TreeInst RIO.Rx RIO.RxToks RIO.RxLaws RIO.RxAgree.
Close Scope N_scope.

Theorem rx_valid_tokens_parse : forall ic ts, toks_ok ts -> rx_valid ic (leaf_regex (render ts)) = true -> toks_parse ts = true.
Proof. intros ic ts Hok Hv. exact (valid_toks_parse ic ts Hok Hv). Qed.

Theorem rx_engine_prefix_law : engine_prefix_law rx_is_match.
Proof.
  intros ic p q s (ts & k & Hok & <- & <-) Hm. apply rx_prefix_law_toks; [|exact Hm].
  apply (rx_valid_tokens_parse ic ts Hok). destruct (rx_valid ic (leaf_regex (render ts))) eqn:E; [reflexivity|].
  unfold ML in Hm. rewrite (rx_invalid_never_matches _ _ _ E) in Hm. discriminate.
Qed.
