(* RxTokSem.v — the executable engine of RIO.Rx implements the token-level semantics of RIO.RegexSem:
   for a well-formed token list,  rx_is_match ic (^ render ts $) s = full_match G_rx fold_rx ic ts s  and the prefix
   variant, with  fold_rx = lower-casing on ASCII + Latin-1 (exactly the relation char_eq decides)  and
   G_rx ic body whole pos k = the group ( body ) parses in isolation and its AST reaches from position pos to pos + k. *)
Require Import RIO.Base RIO.Prefix RIO.RegexSem RIO.Rx RIO.RxMatch RIO.RxParse RIO.RxToks RIO.RxGi.
Close Scope N_scope.
Open Scope nat_scope.

(* ================================================================== case folding *)
Definition fold_rx (c : N) : N :=
  if in_range 65 90 c then (c + 32)%N
  else if in_range 192 214 c || in_range 216 222 c then (c + 32)%N
  else c.

Lemma char_eq_fold ic a b : char_eq ic a b = ceq fold_rx ic a b.
Proof.
  unfold char_eq, ceq. destruct ic; cbn [andb]; [|apply orb_false_r].
  unfold fold_rx, swapcase, in_range. apply eq_true_iff_eq. split; intros H.
  - apply N.eqb_eq. apply orb_prop in H. destruct H as [H|H]; apply N.eqb_eq in H; [subst; reflexivity|].
    repeat match goal with |- context [if ?b then _ else _] => destruct b eqn:? end;
    repeat match goal with H : context [if ?b then _ else _] |- _ => destruct b eqn:? end; lia.
  - apply N.eqb_eq in H. apply orb_true_iff. rewrite !N.eqb_eq.
    repeat match goal with |- context [if ?b then _ else _] => destruct b eqn:? end;
    repeat match goal with H : context [if ?b then _ else _] |- _ => destruct b eqn:? end; lia.
Qed.

(* ================================================================== reach leaves a suffix *)
Lemma skipn_add {A} b : forall a (l : list A), skipn a (skipn b l) = skipn (b + a) l.
Proof. induction b as [|b IH]; intros a l; [reflexivity|]. destruct l as [|x l]; [destruct a; reflexivity|]. cbn [skipn Nat.add]. apply IH. Qed.

Definition suf (c c' : conf) : Prop := wf c c' /\ snd c' = skipn (fst c' - fst c) (snd c).
Lemma suf_refl c : suf c c. Proof. split; [apply wf_refl|rewrite Nat.sub_diag; reflexivity]. Qed.
Lemma suf_trans a b c : suf a b -> suf b c -> suf a c.
Proof.
  intros [W1 S1] [W2 S2]. split; [eapply wf_trans; eassumption|]. rewrite S2, S1, skipn_add. f_equal.
  destruct W1 as [_ W1]. destruct W2 as [_ W2]. lia.
Qed.
Lemma suf_step (c : conf) y rest' : snd c = y :: rest' -> suf c (S (fst c), rest').
Proof. intros H. split; [apply wf_step with y; exact H|]. cbn [fst snd]. replace (S (fst c) - fst c) with 1 by lia. rewrite H. reflexivity. Qed.

Lemma star_cl_suf (R : conf -> conf -> Prop) : (forall c c', R c c' -> suf c c') -> forall c c', star_cl R c c' -> suf c c'.
Proof. intros HR c c' H. induction H as [c|c c1 c2 H1 _ _ IH]; [apply suf_refl|]. eapply suf_trans; [apply HR; exact H1|exact IH]. Qed.
Lemma iter_n_suf (R : conf -> conf -> Prop) : (forall c c', R c c' -> suf c c') -> forall n c c', iter_n R n c c' -> suf c c'.
Proof. intros HR n. induction n as [|n IH]; intros c c' H; cbn [iter_n] in H; [subst; apply suf_refl|].
  destruct H as (c1 & H1 & H2). eapply suf_trans; [apply HR; exact H1|apply IH; exact H2]. Qed.
Lemma upto_n_suf (R : conf -> conf -> Prop) : (forall c c', R c c' -> suf c c') -> forall n c c', upto_n R n c c' -> suf c c'.
Proof. intros HR n. induction n as [|n IH]; intros c c' H; cbn [upto_n] in H; [subst; apply suf_refl|].
  destruct H as [->|(c1 & H1 & H2)]; [apply suf_refl|]. eapply suf_trans; [apply HR; exact H1|apply IH; exact H2]. Qed.

Lemma reach_suf ic r : forall c c', reach ic r c c' -> suf c c'.
Proof.
  induction r as [|x| |neg items|a IHa b IHb|a IHa b IHb|g a IHa|g a IHa|g a IHa|g lo hi a IHa|idx a IHa| |];
    intros c c' H; cbn [reach] in H.
  - subst. apply suf_refl.
  - destruct H as (y & rest' & H1 & _ & ->). apply suf_step with y. exact H1.
  - destruct H as (y & rest' & H1 & _ & ->). apply suf_step with y. exact H1.
  - destruct H as (y & rest' & H1 & _ & ->). apply suf_step with y. exact H1.
  - destruct H as (c1 & H1 & H2). eapply suf_trans; [apply IHa; exact H1|apply IHb; exact H2].
  - destruct H as [H|H]; [apply IHa|apply IHb]; exact H.
  - eapply star_cl_suf; [exact IHa|exact H].
  - destruct H as (c1 & H1 & H2). eapply suf_trans; [apply IHa; exact H1|eapply star_cl_suf; [exact IHa|exact H2]].
  - destruct H as [->|H]; [apply suf_refl|apply IHa; exact H].
  - destruct H as (c1 & H1 & H2). eapply suf_trans; [eapply iter_n_suf; [exact IHa|exact H1]|].
    destruct hi as [h|]; [eapply upto_n_suf; [exact IHa|exact H2]|eapply star_cl_suf; [exact IHa|exact H2]].
  - apply IHa. exact H.
  - destruct H as [_ ->]. apply suf_refl.
  - destruct H as [_ ->]. apply suf_refl.
Qed.

(* ================================================================== group indices do not matter for reach *)
Fixpoint erase (r : rx) : rx :=
  match r with
  | RCat a b => RCat (erase a) (erase b)
  | RAlt a b => RAlt (erase a) (erase b)
  | RStar g a => RStar g (erase a)
  | RPlus g a => RPlus g (erase a)
  | ROpt g a => ROpt g (erase a)
  | RRep g lo hi a => RRep g lo hi (erase a)
  | RGroup _ a => RGroup None (erase a)
  | x => x
  end.

Lemma star_cl_ext (R1 R2 : conf -> conf -> Prop) : (forall c c', R1 c c' -> R2 c c') -> forall c c', star_cl R1 c c' -> star_cl R2 c c'.
Proof. intros H c c' H1. induction H1 as [c|c c1 c2 Ha Hl _ IH]; [apply star_refl|]. eapply star_step; [apply H; exact Ha|exact Hl|exact IH]. Qed.
Lemma iter_n_ext (R1 R2 : conf -> conf -> Prop) : (forall c c', R1 c c' -> R2 c c') -> forall n c c', iter_n R1 n c c' -> iter_n R2 n c c'.
Proof. intros H n. induction n as [|n IH]; intros c c' H1; cbn [iter_n] in *; [exact H1|]. destruct H1 as (c1 & Ha & Hb). exists c1. split; [apply H; exact Ha|apply IH; exact Hb]. Qed.
Lemma upto_n_ext (R1 R2 : conf -> conf -> Prop) : (forall c c', R1 c c' -> R2 c c') -> forall n c c', upto_n R1 n c c' -> upto_n R2 n c c'.
Proof. intros H n. induction n as [|n IH]; intros c c' H1; cbn [upto_n] in *; [exact H1|]. destruct H1 as [->|(c1 & Ha & Hb)]; [left; reflexivity|]. right. exists c1. split; [apply H; exact Ha|apply IH; exact Hb]. Qed.

Lemma reach_erase ic r : forall c c', reach ic (erase r) c c' <-> reach ic r c c'.
Proof.
  induction r as [|x| |neg items|a IHa b IHb|a IHa b IHb|g a IHa|g a IHa|g a IHa|g lo hi a IHa|idx a IHa| |];
    intros c c'; cbn [erase reach]; try tauto.
  - split; intros (c1 & H1 & H2); exists c1; (split; [apply IHa; exact H1|apply IHb; exact H2]).
  - rewrite IHa, IHb. tauto.
  - split; apply star_cl_ext; intros x y; apply IHa.
  - split; intros (c1 & H1 & H2); exists c1; (split; [apply IHa; exact H1|revert H2; apply star_cl_ext; intros x y; apply IHa]).
  - rewrite IHa. tauto.
  - split; intros (c1 & H1 & H2); exists c1; (split; [revert H1; apply iter_n_ext; intros x y; apply IHa|]);
      (destruct hi as [h|]; [revert H2; apply upto_n_ext; intros x y; apply IHa|revert H2; apply star_cl_ext; intros x y; apply IHa]).
  - apply IHa.
Qed.

Lemma reach_erase_eq ic a a' c c' : erase a = erase a' -> reach ic a c c' -> reach ic a' c c'.
Proof. intros E H. apply reach_erase. rewrite <- E. apply reach_erase. exact H. Qed.

(* ================================================================== the group oracle *)
Definition reaches_to (ic : bool) (a : rx) (pos : nat) (rest : list N) (k : nat) : bool :=
  match m unit ic a pos rest [] (fun p _ _ => if Nat.eqb p (pos + k) then Some tt else None) with Some _ => true | None => false end.

Lemma reaches_to_iff ic a pos rest k : reaches_to ic a pos rest k = true <-> reach ic a (pos, rest) (pos + k, skipn k rest).
Proof.
  unfold reaches_to. split.
  - intros H. destruct (m unit ic a pos rest [] _) eqn:E; [|discriminate].
    assert (H' : m unit ic a pos rest [] (fun p _ _ => if Nat.eqb p (pos + k) then Some tt else None) <> None) by (rewrite E; discriminate).
    apply m_sound in H'. destruct H' as (c' & cs' & H1 & H2). destruct (Nat.eqb (fst c') (pos + k)) eqn:Ek; [|contradiction].
    apply Nat.eqb_eq in Ek. destruct (reach_suf _ _ _ _ H1) as [_ Hs]. cbn [fst snd] in Hs. rewrite Ek in Hs.
    replace (pos + k - pos) with k in Hs by lia. destruct c' as [p' r']. cbn [fst snd] in *. subst. exact H1.
  - intros H. assert (H' : m unit ic a pos rest [] (fun p _ _ => if Nat.eqb p (pos + k) then Some tt else None) <> None).
    { apply (m_complete unit ic a (pos, rest) _ [] _ H). intros cs. cbn [fst]. rewrite Nat.eqb_refl. discriminate. }
    destruct (m unit ic a pos rest [] _); [reflexivity|contradiction].
Qed.

Definition G_rx (ic : bool) (body whole : list N) (pos k : nat) : bool :=
  match tok_atom 1 (TGrp body) with
  | Some (a, _) => reaches_to ic a pos (skipn pos whole) k
  | None => false
  end.

(* ================================================================== parsing at another group counter: same AST up to indices *)
Lemma erase_cat acc a : erase (cat acc a) = cat (erase acc) (erase a).
Proof. destruct acc; reflexivity. Qed.

Lemma wrap_quant_erase (g g2 : bool -> rx) s : (forall b, erase (g2 b) = erase (g b)) ->
  erase (fst (wrap_quant g2 s)) = erase (fst (wrap_quant g s)) /\ snd (wrap_quant g2 s) = snd (wrap_quant g s).
Proof. intros H. destruct s as [|c s]; cbn [wrap_quant]; [split; [apply H|reflexivity]|]. destruct (N.eqb c ch_q); split; try apply H; reflexivity. Qed.

Lemma quant_one_erase r r2 c s' r' s'' : erase r2 = erase r -> quant_one r c s' = Some (Some (r', s'')) ->
  exists r2', quant_one r2 c s' = Some (Some (r2', s'')) /\ erase r2' = erase r'.
Proof.
  intros Er. unfold quant_one.
  assert (Hw : forall (g g2 : bool -> rx) s, (forall b, erase (g2 b) = erase (g b)) -> Some (Some (wrap_quant g s)) = Some (Some (r', s'')) ->
            exists r2', Some (Some (wrap_quant g2 s)) = Some (Some (r2', s'')) /\ erase r2' = erase r').
  { intros g g2 s Hg H. inversion H as [H']. destruct (wrap_quant_erase g g2 s Hg) as [E1 E2]. exists (fst (wrap_quant g2 s)).
    rewrite H' in E1, E2. cbn [fst snd] in E1, E2. split; [rewrite (surjective_pairing (wrap_quant g2 s)), E2; reflexivity|exact E1]. }
  assert (Hs : forall b, erase (RStar b r2) = erase (RStar b r)) by (intros b; cbn [erase]; rewrite Er; reflexivity).
  assert (Hp : forall b, erase (RPlus b r2) = erase (RPlus b r)) by (intros b; cbn [erase]; rewrite Er; reflexivity).
  assert (Ho : forall b, erase (ROpt b r2) = erase (ROpt b r)) by (intros b; cbn [erase]; rewrite Er; reflexivity).
  assert (Hr : forall lo hi b, erase (RRep b lo hi r2) = erase (RRep b lo hi r)) by (intros lo hi b; cbn [erase]; rewrite Er; reflexivity).
  destruct (N.eqb c ch_star); [apply Hw; exact Hs|]. destruct (N.eqb c ch_plus); [apply Hw; exact Hp|]. destruct (N.eqb c ch_q); [apply Hw; exact Ho|].
  destruct (N.eqb c ch_lbrace); [|discriminate].
  destruct (take_digits s' 0 false) as [[lo s1]|]; [|discriminate]. destruct s1 as [|d s2]; [discriminate|].
  destruct (N.eqb d ch_rbrace); [apply Hw; apply Hr|]. destruct (N.eqb d ch_comma); [|discriminate].
  destruct s2 as [|e s3]; [discriminate|]. destruct (N.eqb e ch_rbrace); [apply Hw; apply Hr|].
  destruct (take_digits (e :: s3) 0 false) as [[hi s4]|]; [|discriminate]. destruct s4 as [|z s5]; [discriminate|].
  destruct (N.eqb z ch_rbrace && Nat.leb lo hi); [apply Hw; apply Hr|discriminate].
Qed.

Lemma parse_quants_erase F : forall r r2 s r' rest, erase r2 = erase r -> parse_quants F r s = Some (r', rest) ->
  exists r2', parse_quants F r2 s = Some (r2', rest) /\ erase r2' = erase r'.
Proof.
  induction F as [|F IH]; intros r r2 s r' rest Er H; [discriminate|].
  destruct s as [|c s']; [cbn [parse_quants] in *; inversion H; subst; exists r2; split; [reflexivity|exact Er]|].
  rewrite parse_quants_S in H. rewrite parse_quants_S.
  destruct (quant_one r c s') as [[[r1 s1]|]|] eqn:Eq; [| |discriminate].
  - destruct (quant_one_erase r r2 _ _ _ _ Er Eq) as (r1' & -> & E1). apply (IH _ r1' _ _ _ E1 H).
  - rewrite (quant_one_none _ _ _ Eq). inversion H; subst. exists r2. split; [reflexivity|exact Er].
Qed.

Definition alt_gie (F : nat) : Prop :=
  forall s gi r rest gi', parse_alt F s gi = Some (r, rest, gi') ->
  forall gj, exists d r', gi' = gi + d /\ parse_alt F s gj = Some (r', rest, gj + d) /\ erase r' = erase r.
Definition cat_gie (F : nat) : Prop :=
  forall s gi acc r rest gi', parse_cat F s gi acc = Some (r, rest, gi') ->
  forall gj acc', erase acc' = erase acc -> exists d r', gi' = gi + d /\ parse_cat F s gj acc' = Some (r', rest, gj + d) /\ erase r' = erase r.

Lemma atom_of_gie F pcl c s' gi a rest gi' : alt_gie F ->
  atom_of (parse_alt F) pcl c s' gi = Some (a, rest, gi') ->
  forall gj, exists d a', gi' = gi + d /\ atom_of (parse_alt F) pcl c s' gj = Some (a', rest, gj + d) /\ erase a' = erase a.
Proof.
  intros HA. unfold atom_of.
  assert (Hcap : match parse_alt F s' (S gi) with
                 | Some (r, rp :: rest1, gi1) => if N.eqb rp ch_rparen then Some (RGroup (Some gi) r, rest1, gi1) else None
                 | _ => None
                 end = Some (a, rest, gi') ->
                 forall gj, exists d a', gi' = gi + d /\
                   match parse_alt F s' (S gj) with
                   | Some (r, rp :: rest1, gi1) => if N.eqb rp ch_rparen then Some (RGroup (Some gj) r, rest1, gi1) else None
                   | _ => None
                   end = Some (a', rest, gj + d) /\ erase a' = erase a).
  { intros H gj. apply close_inv in H. destruct H as (r & Hr & ->).
    destruct (HA _ _ _ _ _ Hr (S gj)) as (d & r' & Hd & Hr' & Er). exists (S d), (RGroup (Some gj) r').
    split; [lia|]. split; [rewrite Hr', N.eqb_refl; f_equal; f_equal; lia|cbn [erase]; rewrite Er; reflexivity]. }
  assert (H0 : forall a0 rest0, Some (a0, rest0, gi) = Some (a, rest, gi') ->
            forall gj, exists d a', gi' = gi + d /\ Some (a0, rest0, gj) = Some (a', rest, gj + d) /\ erase a' = erase a).
  { intros a0 rest0 H gj. inversion H; subst. exists 0, a. split; [lia|]. rewrite Nat.add_0_r. split; reflexivity. }
  destruct (N.eqb c ch_lparen).
  { destruct s' as [|q [|k s2]]; [exact Hcap|exact Hcap|].
    destruct (N.eqb q ch_q && N.eqb k ch_colon).
    - intros H gj. apply close_inv in H. destruct H as (r & Hr & ->).
      destruct (HA _ _ _ _ _ Hr gj) as (d & r' & Hd & Hr' & Er). exists d, (RGroup None r').
      split; [exact Hd|]. split; [rewrite Hr', N.eqb_refl; reflexivity|cbn [erase]; rewrite Er; reflexivity].
    - destruct (N.eqb q ch_q); [discriminate|exact Hcap]. }
  destruct (N.eqb c ch_lbrack).
  { destruct s' as [|n s2]; [discriminate|]. destruct (N.eqb n ch_caret).
    - destruct (pcl s2 [] true) as [[items rest1]|]; [|discriminate]. intros H gj. apply (H0 _ _ H gj).
    - destruct (pcl (n :: s2) [] true) as [[items rest1]|]; [|discriminate]. intros H gj. apply (H0 _ _ H gj). }
  destruct (N.eqb c ch_dot); [intros H gj; apply (H0 _ _ H gj)|].
  destruct (N.eqb c ch_caret); [intros H gj; apply (H0 _ _ H gj)|].
  destruct (N.eqb c ch_dollar); [intros H gj; apply (H0 _ _ H gj)|].
  destruct (N.eqb c ch_bs).
  { destruct (parse_escape s') as [[it rest1]|]; [|discriminate]. destruct it; intros H gj; apply (H0 _ _ H gj). }
  destruct (N.eqb c ch_star || N.eqb c ch_plus || N.eqb c ch_q); [discriminate|].
  destruct (N.eqb c ch_lbrace); [discriminate|].
  intros H gj; apply (H0 _ _ H gj).
Qed.

Theorem parse_gie F : alt_gie F /\ cat_gie F.
Proof.
  induction F as [|F [IHA IHC]]; [split; [intros ? ? ? ? ? H|intros ? ? ? ? ? ? H]; discriminate|]. split.
  - intros s gi r rest gi' H gj. rewrite parse_alt_S in H. rewrite parse_alt_S.
    destruct (parse_cat F s gi REmpty) as [[[r1 rest1] gi1]|] eqn:Ec; [|discriminate].
    destruct (IHC _ _ _ _ _ _ Ec gj REmpty eq_refl) as (d1 & r1' & Hd1 & -> & E1).
    destruct rest1 as [|c rest1']; [inversion H; subst; exists d1, r1'; repeat split; assumption|].
    destruct (N.eqb c ch_bar); [|inversion H; subst; exists d1, r1'; repeat split; assumption].
    destruct (parse_alt F rest1' gi1) as [[[r2 rest2] gi2]|] eqn:Ea; [|discriminate]. inversion H; subst.
    destruct (IHA _ _ _ _ _ Ea (gj + d1)) as (d2 & r2' & Hd2 & -> & E2).
    exists (d1 + d2), (RAlt r1' r2'). split; [lia|]. split; [f_equal; f_equal; lia|cbn [erase]; rewrite E1, E2; reflexivity].
  - intros s gi acc r rest gi' H gj acc' Eacc. rewrite parse_cat_S in H. rewrite parse_cat_S.
    destruct s as [|c s']; [inversion H; subst; exists 0, acc'; split; [lia|]; rewrite Nat.add_0_r; split; [reflexivity|exact Eacc]|].
    destruct (N.eqb c ch_bar || N.eqb c ch_rparen);
      [inversion H; subst; exists 0, acc'; split; [lia|]; rewrite Nat.add_0_r; split; [reflexivity|exact Eacc]|].
    destruct (atom_of (parse_alt F) (parse_class F) c s' gi) as [[[a rest1] gi1]|] eqn:Eat; [|discriminate].
    destruct (atom_of_gie _ _ _ _ _ _ _ _ IHA Eat gj) as (d1 & a1 & Hd1 & -> & Ea1).
    destruct (parse_quants F a rest1) as [[a' rest2]|] eqn:Eq; [|discriminate].
    destruct (parse_quants_erase _ _ a1 _ _ _ Ea1 Eq) as (a1' & -> & Ea1').
    assert (Ecat : erase (cat acc' a1') = erase (cat acc a')) by (rewrite !erase_cat, Eacc, Ea1'; reflexivity).
    destruct (IHC _ _ _ _ _ _ H (gj + d1) (cat acc' a1') Ecat) as (d2 & r' & Hd2 & -> & Er).
    exists (d1 + d2), r'. split; [lia|]. split; [f_equal; f_equal; lia|exact Er].
Qed.

Lemma tok_atom_erase gi gj t a g a' g' : tok_atom gi t = Some (a, g) -> tok_atom gj t = Some (a', g') -> erase a' = erase a.
Proof.
  destruct t as [c|b]; cbn [tok_atom]; [intros H1 H2; inversion H1; inversion H2; reflexivity|].
  destruct (atom_of _ _ ch_lparen (b ++ [ch_rparen]) gi) as [[[a0 [|z rest]] g0]|] eqn:Ea; try discriminate. intros H1. inversion H1; subst.
  destruct (atom_of_gie _ _ _ _ _ _ _ _ (proj1 (parse_gie (tok_fuel b))) Ea gj) as (d & a2 & _ & E2 & Er). rewrite E2. intros H2. inversion H2; subst. exact Er.
Qed.
